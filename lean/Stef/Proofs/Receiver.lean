/-
  Helper lemmas for Stef/Props/C16.lean: the relational form of `Stef.Receiver.step`, the inductive
  invariants of the receiver LTS and their preservation.
-/
import Stef.Receiver

namespace Stef.Receiver

/-! ### `step` as a relation, one constructor per enabled case -/


inductive Step : State → Event → State → Prop
  | checkErrOk (s : State) : s.rpc = .top → s.lastError = false → Step s .checkErr { s with rpc := .await }
  | checkErrExit (s : State) : s.rpc = .top → s.lastError = true →
      Step s .checkErr { s with rpc := .exited, stopReq := true }
  | decode (s : State) (n : Nat) : s.rpc = .await → n ≠ 0 →
      Step s (.decode n) { s with decoded := s.decoded + n,
                                  batches := ⟨s.decoded, s.decoded + n, .pending⟩ :: s.batches,
                                  rpc := .decoded }
  | readFail (s : State) : s.rpc = .await → Step s .readFail { s with rpc := .exited, stopReq := true }
  | consumeAccept (s : State) (b : Batch) (bs : List Batch) : s.rpc = .decoded → s.batches = b :: bs →
      Step s (.consume .accept) { s with batches := { b with out := .accept } :: bs, rpc := .needAck b.to }
  | consumePerm (s : State) (b : Batch) (bs : List Batch) : s.rpc = .decoded → s.batches = b :: bs →
      Step s (.consume .perm) { s with batches := { b with out := .perm } :: bs, rpc := .needBad (b.from_ + 1) b.to }
  | consumeTrans (s : State) (b : Batch) (bs : List Batch) : s.rpc = .decoded → s.batches = b :: bs →
      Step s (.consume .trans) { s with batches := { b with out := .trans } :: bs, rpc := .exited, stopReq := true }
  | schedAck (s : State) (t : Nat) : s.rpc = .needAck t → Step s .schedAck { s with nextAck := t, rpc := .top }
  | schedBad (s : State) (f t : Nat) : s.rpc = .needBad f t → s.queue.length < badDataCap →
      Step s .schedBad { s with queue := s.queue ++ [(f, t)], rpc := .top }
  | tick (s : State) : s.qpc = .idle → Step s .tick { s with qpc := .loaded s.nextAck }
  | badRecvIdle (s : State) (h : Range) (tl : List Range) : s.qpc = .idle → s.queue = h :: tl →
      Step s .badRecv { s with queue := tl, qpc := .composing h.2 [h] none }
  | badRecvTick (s : State) (rd : Nat) (h : Range) (tl : List Range) : s.qpc = .loaded rd → s.queue = h :: tl →
      Step s .badRecv { s with queue := tl, qpc := .composing h.2 [h] (some rd) }
  | badMore (s : State) (a : Nat) (rs : List Range) (k : Option Nat) (h : Range) (tl : List Range) :
      s.qpc = .composing a rs k → s.queue = h :: tl →
      Step s .badMore { s with queue := tl, qpc := .composing (if a < h.2 then h.2 else a) (rs ++ [h]) k }
  | badDone (s : State) (a : Nat) (rs : List Range) (k : Option Nat) : s.qpc = .composing a rs k → s.queue = [] →
      Step s .badDone { s with qpc := .sending (if a < s.lastAcked then s.lastAcked else a) rs true k }
  | tickNoBad (s : State) (rd : Nat) : s.qpc = .loaded rd → s.queue = [] →
      Step s .tickNoBad { s with qpc := .acking rd }
  | tickAckSend (s : State) (rd : Nat) : s.qpc = .acking rd → rd > s.lastAcked →
      Step s .tickAck { s with lastAcked := rd, qpc := .sending rd [] false none }
  | tickAckNoop (s : State) (rd : Nat) : s.qpc = .acking rd → ¬ rd > s.lastAcked →
      Step s .tickAck { s with qpc := .idle }
  | sendOk (s : State) (a : Nat) (rs : List Range) (bad : Bool) (k : Option Nat) :
      s.qpc = .sending a rs bad k → s.broken = false →
      Step s .sendOk { s with resps := ⟨a, rs, true⟩ :: s.resps,
                              lastAcked := if bad then a else s.lastAcked, qpc := QPc.afterSend bad k }
  | sendFail (s : State) (a : Nat) (rs : List Range) (bad : Bool) (k : Option Nat) : s.qpc = .sending a rs bad k →
      Step s .sendFail { s with resps := ⟨a, rs, false⟩ :: s.resps, lastError := true, broken := true,
                                qpc := QPc.afterSend bad k }
  | stop (s : State) : s.qpc = .idle → s.stopReq = true → Step s .stop { s with qpc := .stopped }

theorem step_sound {s s' : State} {e : Event} (h : step s e = some s') : Step s e s' := by
  cases e with
  | checkErr =>
    simp only [step] at h
    split at h
    · split at h
      · cases h; exact Step.checkErrExit s ‹_› ‹_›
      · cases h; exact Step.checkErrOk s ‹_› (by simp_all)
    · cases h
  | decode n =>
    simp only [step] at h
    split at h
    · split at h
      · cases h
      · cases h; exact Step.decode s n ‹_› ‹_›
    · cases h
  | readFail =>
    simp only [step] at h
    split at h
    · cases h; exact Step.readFail s ‹_›
    · cases h
  | consume o =>
    simp only [step] at h
    split at h
    · split at h
      · cases h
      · cases h; exact Step.consumeAccept s _ _ ‹_› ‹_›
      · cases h; exact Step.consumePerm s _ _ ‹_› ‹_›
      · cases h; exact Step.consumeTrans s _ _ ‹_› ‹_›
    · cases h
  | schedAck =>
    simp only [step] at h
    split at h
    · cases h; exact Step.schedAck s _ ‹_›
    · cases h
  | schedBad =>
    simp only [step] at h
    split at h
    · split at h
      · cases h; exact Step.schedBad s _ _ ‹_› ‹_›
      · cases h
    · cases h
  | tick =>
    simp only [step] at h
    split at h
    · cases h; exact Step.tick s ‹_›
    · cases h
  | badRecv =>
    simp only [step] at h
    split at h
    · cases h; exact Step.badRecvIdle s _ _ ‹_› ‹_›
    · cases h; exact Step.badRecvTick s _ _ _ ‹_› ‹_›
    · cases h
  | badMore =>
    simp only [step] at h
    split at h
    · cases h; exact Step.badMore s _ _ _ _ _ ‹_› ‹_›
    · cases h
  | badDone =>
    simp only [step] at h
    split at h
    · cases h; exact Step.badDone s _ _ _ ‹_› ‹_›
    · cases h
  | tickNoBad =>
    simp only [step] at h
    split at h
    · cases h; exact Step.tickNoBad s _ ‹_› ‹_›
    · cases h
  | tickAck =>
    simp only [step] at h
    split at h
    · split at h
      · cases h; exact Step.tickAckSend s _ ‹_› ‹_›
      · cases h; exact Step.tickAckNoop s _ ‹_› ‹_›
    · cases h
  | sendOk =>
    simp only [step] at h
    split at h
    · split at h
      · cases h
      · cases h; exact Step.sendOk s _ _ _ _ ‹_› (by simp_all)
    · cases h
  | sendFail =>
    simp only [step] at h
    split at h
    · cases h; exact Step.sendFail s _ _ _ _ ‹_›
    · cases h
  | stop =>
    simp only [step] at h
    split at h
    · split at h
      · cases h; exact Step.stop s ‹_› ‹_›
      · cases h
    · cases h

/-! ### where Run continues after a send -/

@[simp] theorem infl_afterSend (bad : Bool) (k : Option Nat) : (QPc.afterSend bad k).infl = [] := by
  cases bad <;> cases k <;> rfl

@[simp] theorem rd_afterSend (bad : Bool) (k : Option Nat) :
    (QPc.afterSend bad k).rd = if bad then k else none := by
  cases bad <;> cases k <;> rfl

theorem afterSend_cases (bad : Bool) (k : Option Nat) :
    QPc.afterSend bad k = .idle ∨ ∃ rd, bad = true ∧ k = some rd ∧ QPc.afterSend bad k = .acking rd := by
  cases bad <;> cases k <;> simp [QPc.afterSend]

@[simp] theorem afterSend_ne_composing (bad : Bool) (k : Option Nat) (a : Nat) (rs : List Range) (k' : Option Nat) :
    QPc.afterSend bad k ≠ .composing a rs k' := by
  cases bad <;> cases k <;> simp [QPc.afterSend]

@[simp] theorem afterSend_ne_sending (bad : Bool) (k : Option Nat) (a : Nat) (rs : List Range) (b' : Bool)
    (k' : Option Nat) : QPc.afterSend bad k ≠ .sending a rs b' k' := by
  cases bad <;> cases k <;> simp [QPc.afterSend]

@[simp] theorem afterSend_ne_stopped (bad : Bool) (k : Option Nat) : QPc.afterSend bad k ≠ .stopped := by
  cases bad <;> cases k <;> simp [QPc.afterSend]

@[simp] theorem afterSend_eq_acking (bad : Bool) (k : Option Nat) (rd : Nat) :
    QPc.afterSend bad k = .acking rd ↔ bad = true ∧ k = some rd := by
  cases bad <;> cases k <;> simp [QPc.afterSend]

/-! ### structural invariants (hold in every reachable state) -/

def Done (o : Outcome) : Prop := o = .accept ∨ o = .perm

def Chain : List Batch → Nat → Prop
  | [], d => d = 0
  | b :: bs, d => b.to = d ∧ b.from_ < b.to ∧ Chain bs b.from_

def low : List Batch → Nat
  | [] => 0
  | b :: _ => if b.out = .accept ∨ b.out = .perm then b.to else b.from_

def AllDone (bs : List Batch) : Prop := ∀ b ∈ bs, Done b.out

def HeadOK (s : State) : Prop :=
  AllDone s.batches.tail ∧
  match s.rpc with
  | .top => AllDone s.batches
  | .await => AllDone s.batches
  | .decoded => (s.batches.head?).map (·.out) = some .pending
  | .needAck t => (s.batches.head?).map (fun b => (b.out, b.to)) = some (.accept, t)
  | .needBad f t => (s.batches.head?).map (fun b => (b.out, b.from_ + 1, b.to)) = some (.perm, f, t)
  | .exited => True

theorem permRanges_cons (b : Batch) (bs : List Batch) :
    permRanges (b :: bs) = permRanges bs ++ (if b.out = .perm then [(b.from_ + 1, b.to)] else []) := by
  simp only [permRanges, List.reverse_cons, List.filter_append, List.map_append]
  by_cases h : b.out = .perm <;> simp [h]

theorem low_le_of_chain : ∀ (bs : List Batch) (d : Nat), Chain bs d → low bs ≤ d
  | [], d, h => by simp [low]
  | b :: bs, d, h => by
    simp only [Chain] at h
    simp only [low]
    split <;> omega

structure Inv (s : State) : Prop where
  chain : Chain s.batches s.decoded
  head : HeadOK s
  ledger : reported s ++ pendingBad s = permRanges s.batches
  nextAck_le : s.nextAck ≤ low s.batches
  lastAcked_le : s.lastAcked ≤ low s.batches
  queue_le : ∀ x ∈ s.queue, x.2 ≤ low s.batches
  infl_le : ∀ x ∈ inflight s, x.2 ≤ low s.batches
  /-- composeBadDataResponse: AckRecordId is the ToID of one of the collected ranges -/
  comp : ∀ a rs k, s.qpc = .composing a rs k → ∃ x ∈ rs, x.2 = a
  /-- ... and sendBadDataResponse may have raised it to lastAckedID -/
  compS : ∀ a rs k, s.qpc = .sending a rs true k → (∃ x ∈ rs, x.2 = a) ∨ a = s.lastAcked
  tickSending : ∀ a rs k, s.qpc = .sending a rs false k → rs = [] ∧ a = s.lastAcked
  rpcBad_ge : ∀ x ∈ rpcBad s, s.nextAck < x.1
  /-- the id loaded by the tick branch is not above the id stored last -/
  rd_le : ∀ rd, s.qpc.rd = some rd → rd ≤ s.nextAck
  /-- once the tick branch has found the channel empty (`default:` in its own select or in
      composeBadDataResponse), whatever enters the channel later lies above the loaded id -/
  queue_gt : ∀ rd, ((∃ a rs, s.qpc = .sending a rs true (some rd)) ∨ s.qpc = .acking rd) →
    ∀ x ∈ s.queue, rd < x.1
  allOk : s.broken = false → ∀ r ∈ s.resps, r.ok = true
  qlen : s.queue.length ≤ badDataCap
  stopR : s.stopReq = true ↔ s.rpc = .exited
  stopQ : s.qpc = .stopped → s.stopReq = true

theorem inv_init : Inv init := by
  constructor <;> simp [init, Chain, HeadOK, AllDone, reported, pendingBad, inflight, QPc.infl, QPc.rd, rpcBad,
    permRanges, low, badDataCap]

theorem head_step {s s' : State} {e : Event} (hh : HeadOK s) (h : Step s e s') : HeadOK s' := by
  cases h <;> simp_all [HeadOK, AllDone, Done]
  all_goals (cases hb : s.batches <;> simp_all)

theorem chain_step {s s' : State} {e : Event} (hh : Chain s.batches s.decoded) (h : Step s e s') :
    Chain s'.batches s'.decoded := by
  cases h <;> simp_all [Chain]
  all_goals omega

theorem ledger_step {s s' : State} {e : Event} (hi : Inv s) (h : Step s e s') :
    reported s' ++ pendingBad s' = permRanges s'.batches := by
  have hl := hi.ledger
  have hh := hi.head
  cases h
  case consumePerm b bs hr hb =>
    simp [reported, pendingBad, inflight, rpcBad, permRanges_cons, HeadOK, hr, hb] at hl hh ⊢
    simp [hh.2] at hl
    rw [← hl]; simp [List.append_assoc]
  all_goals simp_all [reported, pendingBad, inflight, QPc.infl, rpcBad, permRanges_cons, HeadOK]

theorem low_step {s s' : State} {e : Event} (hi : Inv s) (h : Step s e s') :
    low s.batches ≤ low s'.batches := by
  have hc := hi.chain
  have hh := hi.head
  cases h
  case decode n hr hn => simpa [low] using low_le_of_chain _ _ hc
  all_goals simp_all [low, Chain, HeadOK]
  all_goals omega

/-- in `needAck t` / `needBad f t` the head batch is final and ends at `t` -/
theorem low_needAck {s : State} {t : Nat} (hi : Inv s) (hr : s.rpc = .needAck t) : low s.batches = t := by
  have hh := hi.head
  cases hb : s.batches <;> simp_all [HeadOK, low]

theorem low_needBad {s : State} {f t : Nat} (hi : Inv s) (hr : s.rpc = .needBad f t) :
    low s.batches = t ∧ f ≤ t := by
  have hh := hi.head
  have hc := hi.chain
  cases hb : s.batches with
  | nil => simp_all [HeadOK]
  | cons hd tl =>
    simp [HeadOK, hr, hb] at hh
    simp [hb, Chain] at hc
    obtain ⟨_, hp, hf, ht⟩ := hh
    simp [low, hp]
    omega

/-- a pending head batch starts at `low` -/
theorem low_decoded {s : State} {b : Batch} {bs : List Batch} (hi : Inv s) (hr : s.rpc = .decoded)
    (hb : s.batches = b :: bs) : low s.batches = b.from_ ∧ b.out = .pending := by
  have hh := hi.head
  simp_all [HeadOK, low]

theorem nextAck_step {s s' : State} {e : Event} (hi : Inv s) (h : Step s e s') :
    s'.nextAck ≤ low s'.batches := by
  have hlow := low_step hi h
  have h1 := hi.nextAck_le
  cases h
  case schedAck t hr => simp [low_needAck hi hr]
  all_goals (first | exact Nat.le_trans h1 hlow | (simp only [] at hlow ⊢; omega))

/-- the id stored by ScheduleAck never decreases -/
theorem nextAck_mono {s s' : State} {e : Event} (hi : Inv s) (h : Step s e s') : s.nextAck ≤ s'.nextAck := by
  have h1 := hi.nextAck_le
  cases h
  case schedAck t hr => have := low_needAck hi hr; simp; omega
  all_goals exact Nat.le_refl _

theorem sendAck_le {s : State} {a : Nat} {rs : List Range} {bad : Bool} {k : Option Nat} (hi : Inv s)
    (hq : s.qpc = .sending a rs bad k) : a ≤ low s.batches := by
  cases bad
  · have := (hi.tickSending a rs k hq).2
    have := hi.lastAcked_le
    omega
  · rcases hi.compS a rs k hq with ⟨x, hx, hxa⟩ | hla
    · have := hi.infl_le x (by simp [inflight, QPc.infl, hq, hx])
      omega
    · have := hi.lastAcked_le
      omega

theorem lastAcked_step {s s' : State} {e : Event} (hi : Inv s) (h : Step s e s') :
    s'.lastAcked ≤ low s'.batches := by
  have hlow := low_step hi h
  have h1 := hi.lastAcked_le
  have h2 := hi.nextAck_le
  cases h
  case sendOk a rs bad k hq hb =>
    have := sendAck_le hi hq
    simp; split <;> omega
  case tickAckSend rd hq hgt =>
    have := hi.rd_le rd (by simp [hq, QPc.rd])
    simp at hlow ⊢; omega
  all_goals (first | exact Nat.le_trans h1 hlow | (simp only [] at hlow ⊢; omega))

theorem queue_step {s s' : State} {e : Event} (hi : Inv s) (h : Step s e s') :
    ∀ x ∈ s'.queue, x.2 ≤ low s'.batches := by
  have hlow := low_step hi h
  have h1 := hi.queue_le
  cases h
  case schedBad f t hr hq =>
    intro x hx
    simp at hx hlow ⊢
    rcases hx with hx | hx
    · exact h1 x hx
    · subst hx; simp [(low_needBad hi hr).1]
  case badRecvIdle hd tl hq hqu =>
    intro x hx; simp at hx ⊢; exact h1 x (by simp [hqu, hx])
  case badRecvTick rd hd tl hq hqu =>
    intro x hx; simp at hx ⊢; exact h1 x (by simp [hqu, hx])
  case badMore a rs k hd tl hq hqu =>
    intro x hx; simp at hx ⊢; exact h1 x (by simp [hqu, hx])
  all_goals (intro x hx; exact Nat.le_trans (h1 x hx) hlow)

theorem infl_step {s s' : State} {e : Event} (hi : Inv s) (h : Step s e s') :
    ∀ x ∈ inflight s', x.2 ≤ low s'.batches := by
  have hlow := low_step hi h
  have h1 := hi.infl_le
  have h2 := hi.queue_le
  cases h
  case badRecvIdle hd tl hq hqu =>
    intro x hx; simp [inflight, QPc.infl] at hx ⊢; subst hx; exact h2 _ (by simp [hqu])
  case badRecvTick rd hd tl hq hqu =>
    intro x hx; simp [inflight, QPc.infl] at hx ⊢; subst hx; exact h2 _ (by simp [hqu])
  case badMore a rs k hd tl hq hqu =>
    intro x hx; simp [inflight, QPc.infl] at hx ⊢
    rcases hx with hx | hx
    · exact h1 x (by simp [inflight, QPc.infl, hq, hx])
    · subst hx; exact h2 _ (by simp [hqu])
  case badDone a rs k hq hqu =>
    intro x hx; simp [inflight, QPc.infl] at hx ⊢; exact h1 x (by simp [inflight, QPc.infl, hq, hx])
  case tick hq => intro x hx; simp [inflight, QPc.infl] at hx
  case tickNoBad rd hq hqu => intro x hx; simp [inflight, QPc.infl] at hx
  case tickAckSend rd hq hgt => intro x hx; simp [inflight, QPc.infl] at hx
  case tickAckNoop rd hq hgt => intro x hx; simp [inflight, QPc.infl] at hx
  case sendOk a rs bad k hq hb => intro x hx; simp [inflight] at hx
  case sendFail a rs bad k hq => intro x hx; simp [inflight] at hx
  case stop hq hs => intro x hx; simp [inflight, QPc.infl] at hx
  all_goals (intro x hx; exact Nat.le_trans (h1 x hx) hlow)

theorem comp_step {s s' : State} {e : Event} (hi : Inv s) (h : Step s e s') :
    ∀ a rs k, s'.qpc = .composing a rs k → ∃ x ∈ rs, x.2 = a := by
  have h1 := hi.comp
  cases h
  case badRecvIdle hd tl hq hqu =>
    intro a rs k hx; simp at hx; obtain ⟨rfl, rfl, _⟩ := hx; exact ⟨hd, by simp, rfl⟩
  case badRecvTick rd hd tl hq hqu =>
    intro a rs k hx; simp at hx; obtain ⟨rfl, rfl, _⟩ := hx; exact ⟨hd, by simp, rfl⟩
  case badMore a0 rs0 k0 hd tl hq hqu =>
    intro a rs k hx; simp at hx; obtain ⟨rfl, rfl, _⟩ := hx
    obtain ⟨x, hx, hxa⟩ := h1 a0 rs0 k0 hq
    by_cases hlt : a0 < hd.2
    · exact ⟨hd, by simp, by simp [hlt]⟩
    · exact ⟨x, by simp [hx], by simp [hlt, hxa]⟩
  case badDone a0 rs0 k0 hq hqu => intro a rs k hx; simp at hx
  case tick hq => intro a rs k hx; simp at hx
  case tickNoBad rd hq hqu => intro a rs k hx; simp at hx
  case tickAckSend rd hq hgt => intro a rs k hx; simp at hx
  case tickAckNoop rd hq hgt => intro a rs k hx; simp at hx
  case sendOk a0 rs0 bad k0 hq hb => intro a rs k hx; simp at hx
  case sendFail a0 rs0 bad k0 hq => intro a rs k hx; simp at hx
  case stop hq hs => intro a rs k hx; simp at hx
  all_goals exact h1

theorem compS_step {s s' : State} {e : Event} (hi : Inv s) (h : Step s e s') :
    ∀ a rs k, s'.qpc = .sending a rs true k → (∃ x ∈ rs, x.2 = a) ∨ a = s'.lastAcked := by
  have h1 := hi.compS
  cases h
  case badRecvIdle hd tl hq hqu => intro a rs k hx; simp at hx
  case badRecvTick rd hd tl hq hqu => intro a rs k hx; simp at hx
  case badMore a0 rs0 k0 hd tl hq hqu => intro a rs k hx; simp at hx
  case badDone a0 rs0 k0 hq hqu =>
    intro a rs k hx; simp at hx; obtain ⟨rfl, rfl, _⟩ := hx
    by_cases hlt : a0 < s.lastAcked
    · right; simp [hlt]
    · left; simpa [hlt] using hi.comp a0 rs0 k0 hq
  case tick hq => intro a rs k hx; simp at hx
  case tickNoBad rd hq hqu => intro a rs k hx; simp at hx
  case tickAckSend rd hq hgt => intro a rs k hx; simp at hx
  case tickAckNoop rd hq hgt => intro a rs k hx; simp at hx
  case sendOk a0 rs0 bad k0 hq hb => intro a rs k hx; simp at hx
  case sendFail a0 rs0 bad k0 hq => intro a rs k hx; simp at hx
  case stop hq hs => intro a rs k hx; simp at hx
  all_goals exact h1

theorem tickSending_step {s s' : State} {e : Event} (hi : Inv s) (h : Step s e s') :
    ∀ a rs k, s'.qpc = .sending a rs false k → rs = [] ∧ a = s'.lastAcked := by
  have h1 := hi.tickSending
  cases h
  case badRecvIdle hd tl hq hqu => intro a rs k hx; simp at hx
  case badRecvTick rd hd tl hq hqu => intro a rs k hx; simp at hx
  case badMore a0 rs0 k0 hd tl hq hqu => intro a rs k hx; simp at hx
  case badDone a0 rs0 k0 hq hqu => intro a rs k hx; simp at hx
  case tick hq => intro a rs k hx; simp at hx
  case tickNoBad rd hq hqu => intro a rs k hx; simp at hx
  case tickAckSend rd hq hgt => intro a rs k hx; simp at hx; simp [hx]
  case tickAckNoop rd hq hgt => intro a rs k hx; simp at hx
  case sendOk a0 rs0 bad k0 hq hb => intro a rs k hx; simp at hx
  case sendFail a0 rs0 bad k0 hq => intro a rs k hx; simp at hx
  case stop hq hs => intro a rs k hx; simp at hx
  all_goals exact h1

theorem rpcBad_step {s s' : State} {e : Event} (hi : Inv s) (h : Step s e s') :
    ∀ x ∈ rpcBad s', s'.nextAck < x.1 := by
  have h1 := hi.rpcBad_ge
  have h2 := hi.nextAck_le
  cases h
  case consumePerm b bs hr hb =>
    intro x hx; simp [rpcBad] at hx ⊢; subst hx
    have := (low_decoded hi hr hb).1
    simp; omega
  all_goals first | exact h1 | (intro x hx; simp_all [rpcBad])

theorem rd_step {s s' : State} {e : Event} (hi : Inv s) (h : Step s e s') :
    ∀ rd, s'.qpc.rd = some rd → rd ≤ s'.nextAck := by
  have h1 := hi.rd_le
  have hm := nextAck_mono hi h
  cases h
  case tick hq => intro rd hx; simp [QPc.rd] at hx; subst hx; exact Nat.le_refl _
  case badRecvIdle hd tl hq hqu => intro rd hx; simp [QPc.rd] at hx
  case badRecvTick rd0 hd tl hq hqu =>
    intro rd hx; simp [QPc.rd] at hx; subst hx; exact h1 _ (by simp [hq, QPc.rd])
  case badMore a0 rs0 k0 hd tl hq hqu =>
    intro rd hx; simp [QPc.rd] at hx; exact h1 _ (by simp [hq, QPc.rd, hx])
  case badDone a0 rs0 k0 hq hqu =>
    intro rd hx; simp [QPc.rd] at hx; exact h1 _ (by simp [hq, QPc.rd, hx])
  case tickNoBad rd0 hq hqu =>
    intro rd hx; simp [QPc.rd] at hx; subst hx; exact h1 _ (by simp [hq, QPc.rd])
  case tickAckSend rd0 hq hgt => intro rd hx; simp [QPc.rd] at hx
  case tickAckNoop rd0 hq hgt => intro rd hx; simp [QPc.rd] at hx
  case sendOk a0 rs0 bad k0 hq hb =>
    intro rd hx; simp at hx; obtain ⟨rfl, hk⟩ := hx; exact h1 _ (by simp [hq, QPc.rd, hk])
  case sendFail a0 rs0 bad k0 hq =>
    intro rd hx; simp at hx; obtain ⟨rfl, hk⟩ := hx; exact h1 _ (by simp [hq, QPc.rd, hk])
  case stop hq hs => intro rd hx; simp [QPc.rd] at hx
  all_goals (intro rd hx; exact Nat.le_trans (h1 rd hx) hm)

theorem queue_gt_step {s s' : State} {e : Event} (hi : Inv s) (h : Step s e s') :
    ∀ rd, ((∃ a rs, s'.qpc = .sending a rs true (some rd)) ∨ s'.qpc = .acking rd) →
      ∀ x ∈ s'.queue, rd < x.1 := by
  have h1 := hi.queue_gt
  have h2 := hi.rpcBad_ge
  have h3 := hi.rd_le
  cases h
  case schedBad f t hr hq =>
    intro rd hx x hm
    simp at hx hm
    rcases hm with hm | hm
    · exact h1 rd hx x hm
    · subst hm
      have := h2 (f, t) (by simp [rpcBad, hr])
      have hrd : s.qpc.rd = some rd := by
        rcases hx with ⟨a, rs, hx⟩ | hx <;> simp [hx, QPc.rd]
      have := h3 rd hrd
      simp at *; omega
  case tick hq => intro rd hx; simp at hx
  case badRecvIdle hd tl hq hqu => intro rd hx; simp at hx
  case badRecvTick rd0 hd tl hq hqu => intro rd hx; simp at hx
  case badMore a0 rs0 k0 hd tl hq hqu => intro rd hx; simp at hx
  case badDone a0 rs0 k0 hq hqu => intro rd hx x hm; simp [hqu] at hm
  case tickNoBad rd0 hq hqu => intro rd hx x hm; simp [hqu] at hm
  case tickAckSend rd0 hq hgt => intro rd hx; simp at hx
  case tickAckNoop rd0 hq hgt => intro rd hx; simp at hx
  case sendOk a0 rs0 bad k0 hq hb =>
    intro rd hx x hm; simp at hx hm; obtain ⟨rfl, rfl⟩ := hx
    exact h1 rd (Or.inl ⟨a0, rs0, hq⟩) x hm
  case sendFail a0 rs0 bad k0 hq =>
    intro rd hx x hm; simp at hx hm; obtain ⟨rfl, rfl⟩ := hx
    exact h1 rd (Or.inl ⟨a0, rs0, hq⟩) x hm
  case stop hq hs => intro rd hx; simp at hx
  all_goals exact h1

theorem misc_step {s s' : State} {e : Event} (hi : Inv s) (h : Step s e s') :
    (s'.broken = false → ∀ r ∈ s'.resps, r.ok = true) ∧ s'.queue.length ≤ badDataCap ∧
    (s'.stopReq = true ↔ s'.rpc = .exited) ∧ (s'.qpc = .stopped → s'.stopReq = true) := by
  have h1 := hi.allOk
  have h2 := hi.qlen
  have h3 := hi.stopR
  have h4 := hi.stopQ
  cases h <;> simp_all <;> omega

theorem inv_step {s s' : State} {e : Event} (hi : Inv s) (h : Step s e s') : Inv s' :=
  { chain := chain_step hi.chain h
    head := head_step hi.head h
    ledger := ledger_step hi h
    nextAck_le := nextAck_step hi h
    lastAcked_le := lastAcked_step hi h
    queue_le := queue_step hi h
    infl_le := infl_step hi h
    comp := comp_step hi h
    compS := compS_step hi h
    tickSending := tickSending_step hi h
    rpcBad_ge := rpcBad_step hi h
    rd_le := rd_step hi h
    queue_gt := queue_gt_step hi h
    allOk := (misc_step hi h).1
    qlen := (misc_step hi h).2.1
    stopR := (misc_step hi h).2.2.1
    stopQ := (misc_step hi h).2.2.2 }

theorem inv_run : ∀ (evs : List Event) (s s' : State), Inv s → run s evs = some s' → Inv s'
  | [], s, s', hi, h => by simp [run] at h; subst h; exact hi
  | e :: es, s, s', hi, h => by
    simp only [run] at h
    split at h
    · rename_i s1 hs1
      exact inv_run es s1 s' (inv_step hi (step_sound hs1)) h
    · cases h

/-! ### order of the bad-data ledger -/

theorem permRanges_bounds : ∀ (bs : List Batch) (d : Nat), Chain bs d →
    ∀ x ∈ permRanges bs, 0 < x.1 ∧ x.1 ≤ x.2 ∧ x.2 ≤ d
  | [], d, _, x, hx => by simp [permRanges] at hx
  | b :: bs, d, h, x, hx => by
    simp only [Chain] at h
    rw [permRanges_cons] at hx
    rcases List.mem_append.mp hx with hx | hx
    · have := permRanges_bounds bs _ h.2.2 x hx
      omega
    · by_cases hp : b.out = .perm
      · simp [hp] at hx; subst hx; simp; omega
      · simp [hp] at hx

theorem permRanges_sorted : ∀ (bs : List Batch) (d : Nat), Chain bs d →
    (permRanges bs).Pairwise (fun x y => x.2 < y.1)
  | [], d, _ => by simp [permRanges]
  | b :: bs, d, h => by
    simp only [Chain] at h
    rw [permRanges_cons, List.pairwise_append]
    refine ⟨permRanges_sorted bs _ h.2.2, ?_, ?_⟩
    · by_cases hp : b.out = .perm <;> simp [hp]
    · intro x hx y hy
      by_cases hp : b.out = .perm
      · simp [hp] at hy; subst hy
        have := (permRanges_bounds bs _ h.2.2 x hx).2.2
        simp; omega
      · simp [hp] at hy

theorem pending_sorted {s : State} (hi : Inv s) :
    (pendingBad s).Pairwise (fun x y => x.2 < y.1) ∧ ∀ x ∈ pendingBad s, x.1 ≤ x.2 := by
  have hs := permRanges_sorted _ _ hi.chain
  have hb := permRanges_bounds _ _ hi.chain
  rw [← hi.ledger] at hs hb
  rw [List.pairwise_append] at hs
  exact ⟨hs.2.1, fun x hx => (hb x (List.mem_append.mpr (Or.inr hx))).2.1⟩

/-! ### acknowledgement invariants (hold in every reachable state since fix 3888867)

  Before that fix these held only for runs in which no tick fired while bad data was waiting in the
  channel (the former `TickClean` hypothesis). Now the tick branch loads the id, empties the channel
  (`queue_gt`) and only then acknowledges, so they are invariants of the LTS. -/

structure InvA (s : State) : Prop where
  /-- everything still on its way to a bad-data response lies above the last acknowledged id -/
  pend_ge : ∀ x ∈ pendingBad s, s.lastAcked < x.1
  acks_le : ∀ r ∈ s.resps, r.ok = true → r.ack ≤ s.lastAcked
  sorted : (acks s).Pairwise (· ≤ ·)

theorem invA_init : InvA init := by
  constructor <;> simp [init, pendingBad, inflight, QPc.infl, rpcBad, acks]

/-- the acknowledgement about to be sent is not below `lastAckedID` -/
theorem sendAck_ge {s : State} {a : Nat} {rs : List Range} {bad : Bool} {k : Option Nat} (hi : Inv s) (ht : InvA s)
    (hq : s.qpc = .sending a rs bad k) : s.lastAcked ≤ a := by
  cases bad
  · have := (hi.tickSending a rs k hq).2; omega
  · rcases hi.compS a rs k hq with ⟨x, hx, hxa⟩ | hla
    · have hm : x ∈ pendingBad s := by simp [pendingBad, inflight, QPc.infl, hq, hx]
      have h1 := ht.pend_ge x hm
      have h2 := (pending_sorted hi).2 x hm
      omega
    · omega

/-- the clamp of sendBadDataResponse never fires in a reachable state: the id composed from the
    ranges is already above `lastAckedID` -/
theorem composed_gt {s : State} {a : Nat} {rs : List Range} {k : Option Nat} (hi : Inv s) (ht : InvA s)
    (hq : s.qpc = .composing a rs k) : s.lastAcked < a := by
  obtain ⟨x, hx, hxa⟩ := hi.comp a rs k hq
  have hm : x ∈ pendingBad s := by simp [pendingBad, inflight, QPc.infl, hq, hx]
  have h1 := ht.pend_ge x hm
  have h2 := (pending_sorted hi).2 x hm
  omega

/-- apart from `consume perm`, no event adds a range to the pending bad data -/
theorem pend_mem_step {s s' : State} {e : Event} (h : Step s e s') (x : Range) (hx : x ∈ pendingBad s') :
    x ∈ pendingBad s ∨ (∃ b bs, s.rpc = .decoded ∧ s.batches = b :: bs ∧ x = (b.from_ + 1, b.to)) := by
  cases h <;> simp_all [pendingBad, inflight, QPc.infl, rpcBad] <;> grind

theorem pend_step {s s' : State} {e : Event} (hi : Inv s) (ht : InvA s) (h : Step s e s') :
    ∀ x ∈ pendingBad s', s'.lastAcked < x.1 := by
  have h1 := ht.pend_ge
  intro x hx
  have hmem := pend_mem_step h x hx
  -- the new range of a `consume perm` starts at `low`
  have hnew : (∃ b bs, s.rpc = .decoded ∧ s.batches = b :: bs ∧ x = (b.from_ + 1, b.to)) → s.lastAcked < x.1 := by
    rintro ⟨b, bs, hr, hb, rfl⟩
    have := (low_decoded hi hr hb).1
    have := hi.lastAcked_le
    simp; omega
  cases h
  case tickAckSend rd hq hgt =>
    -- the channel was found empty after `rd` was loaded: what waits now lies above `rd`
    simp [pendingBad, inflight, QPc.infl] at hx ⊢
    rcases hx with hx | hx
    · exact hi.queue_gt rd (Or.inr hq) x hx
    · have := hi.rpcBad_ge x hx
      have := hi.rd_le rd (by simp [hq, QPc.rd])
      omega
  case sendOk a rs bad k hq hb =>
    have hx' : x ∈ s.queue ++ rpcBad s := by simpa [pendingBad, inflight, rpcBad] using hx
    have hm : x ∈ pendingBad s := by
      simp only [pendingBad, List.append_assoc]; exact List.mem_append.mpr (Or.inr hx')
    cases bad
    · simpa using h1 x hm
    · rcases hi.compS a rs k hq with ⟨y, hy, hya⟩ | hla
      · have hs := (pending_sorted hi).1
        simp only [pendingBad, inflight, QPc.infl, hq, List.append_assoc] at hs
        rw [List.pairwise_append] at hs
        have := hs.2.2 y hy x hx'
        simp; omega
      · have := h1 x hm
        simp; omega
  all_goals (rcases hmem with hm | hm; exact h1 x hm; exact hnew hm)

theorem acksle_step {s s' : State} {e : Event} (hi : Inv s) (ht : InvA s) (h : Step s e s') :
    ∀ r ∈ s'.resps, r.ok = true → r.ack ≤ s'.lastAcked := by
  have h1 := ht.acks_le
  cases h
  case tickAckSend rd hq hgt => intro r hr hok; have := h1 r hr hok; simp; omega
  case sendOk a rs bad k hq hb =>
    have hge := sendAck_ge hi ht hq
    have hts := hi.tickSending a rs k
    intro r hr hok
    simp at hr
    rcases hr with rfl | hr
    · cases bad <;> simp_all
    · have := h1 r hr hok
      cases bad <;> simp <;> omega
  case sendFail a rs bad k hq =>
    intro r hr hok
    simp at hr
    rcases hr with rfl | hr
    · simp at hok
    · exact h1 r hr hok
  all_goals exact h1

theorem acks_cons_ok (s : State) (a : Nat) (rs : List Range) :
    ((((⟨a, rs, true⟩ : Resp) :: s.resps).reverse).filter (·.ok)).map (·.ack) = acks s ++ [a] := by
  simp [acks, List.filter_append]

theorem acks_cons_fail (s : State) (a : Nat) (rs : List Range) :
    ((((⟨a, rs, false⟩ : Resp) :: s.resps).reverse).filter (·.ok)).map (·.ack) = acks s := by
  simp [acks, List.filter_append]

theorem mem_acks {s : State} {a : Nat} (h : a ∈ acks s) : ∃ r ∈ s.resps, r.ok = true ∧ r.ack = a := by
  simp [acks] at h
  obtain ⟨r, ⟨hr, hok⟩, hra⟩ := h
  exact ⟨r, hr, hok, hra⟩

theorem sorted_step {s s' : State} {e : Event} (hi : Inv s) (ht : InvA s) (h : Step s e s') :
    (acks s').Pairwise (· ≤ ·) := by
  have h1 := ht.sorted
  cases h
  case sendOk a rs bad k hq hb =>
    have hge := sendAck_ge hi ht hq
    show ((((⟨a, rs, true⟩ : Resp) :: s.resps).reverse).filter (·.ok)).map (·.ack) |>.Pairwise (· ≤ ·)
    rw [acks_cons_ok, List.pairwise_append]
    refine ⟨h1, by simp, ?_⟩
    intro x hx y hy
    simp at hy; subst hy
    obtain ⟨r, hr, hok, rfl⟩ := mem_acks hx
    have := ht.acks_le r hr hok
    omega
  case sendFail a rs bad k hq =>
    show ((((⟨a, rs, false⟩ : Resp) :: s.resps).reverse).filter (·.ok)).map (·.ack) |>.Pairwise (· ≤ ·)
    rw [acks_cons_fail]; exact h1
  all_goals exact h1

theorem invA_step {s s' : State} {e : Event} (hi : Inv s) (ht : InvA s) (h : Step s e s') : InvA s' :=
  { pend_ge := pend_step hi ht h
    acks_le := acksle_step hi ht h
    sorted := sorted_step hi ht h }

theorem invA_run : ∀ (evs : List Event) (s s' : State), Inv s → InvA s →
    run s evs = some s' → Inv s' ∧ InvA s'
  | [], s, s', hi, ht, h => by simp [run] at h; subst h; exact ⟨hi, ht⟩
  | e :: es, s, s', hi, ht, h => by
    simp only [run] at h
    split at h
    · rename_i s1 hs1
      exact invA_run es s1 s' (inv_step hi (step_sound hs1)) (invA_step hi ht (step_sound hs1)) h
    · cases h

/-! ### the ledger counts every permanently rejected batch once -/

theorem mem_permRanges {bs : List Batch} {b : Batch} (hb : b ∈ bs) (hp : b.out = .perm) :
    (b.from_ + 1, b.to) ∈ permRanges bs := by
  simp only [permRanges, List.mem_map, List.mem_filter, List.mem_reverse]
  exact ⟨b, ⟨hb, by simp [hp]⟩, rfl⟩

theorem of_mem_permRanges {bs : List Batch} {x : Range} (hx : x ∈ permRanges bs) :
    ∃ b ∈ bs, b.out = .perm ∧ x = (b.from_ + 1, b.to) := by
  simp only [permRanges, List.mem_map, List.mem_filter, List.mem_reverse] at hx
  obtain ⟨b, ⟨hb, hp⟩, rfl⟩ := hx
  exact ⟨b, hb, by simpa using hp, rfl⟩

theorem count_permRanges : ∀ (bs : List Batch) (d : Nat), Chain bs d → ∀ b ∈ bs, b.out = .perm →
    (permRanges bs).count (b.from_ + 1, b.to) = 1
  | [], _, _, b, hb, _ => by simp at hb
  | hd :: tl, d, h, b, hb, hp => by
    simp only [Chain] at h
    rw [permRanges_cons, List.count_append]
    have hbd := permRanges_bounds tl _ h.2.2
    rcases List.mem_cons.mp hb with rfl | hb'
    · have h0 : (permRanges tl).count (b.from_ + 1, b.to) = 0 := by
        apply List.count_eq_zero.mpr
        intro hm
        have := (hbd _ hm).2
        simp at this; omega
      simp [h0, hp]
    · have h1 := count_permRanges tl _ h.2.2 b hb' hp
      have hm := hbd _ (mem_permRanges hb' hp)
      have h0 : (if hd.out = .perm then [(hd.from_ + 1, hd.to)] else []).count (b.from_ + 1, b.to) = 0 := by
        apply List.count_eq_zero.mpr
        intro hmem
        by_cases hq : hd.out = .perm
        · simp [hq] at hmem; simp at hm; omega
        · simp [hq] at hmem
      omega

theorem reportedOk_eq {s : State} (h : ∀ r ∈ s.resps, r.ok = true) : reportedOk s = reported s := by
  simp only [reportedOk, reported]
  congr 1
  apply List.filter_eq_self.mpr
  intro r hr
  exact h r (List.mem_reverse.mp hr)

/-- a batch that starts below `low` has a final outcome -/
theorem done_of_lt_low {s : State} (hi : Inv s) {b : Batch} (hb : b ∈ s.batches)
    (hlt : b.from_ < low s.batches) : Done b.out := by
  have hh := hi.head
  cases hbs : s.batches with
  | nil => simp [hbs] at hb
  | cons hd tl =>
    rw [hbs] at hb hlt
    rcases List.mem_cons.mp hb with rfl | hb'
    · simp only [low] at hlt
      split at hlt
      · assumption
      · omega
    · have := hh.1
      simp [hbs, AllDone] at this
      exact this b hb'



/-! ### acknowledged ids are covered (every run) -/

theorem reportedOk_cons_ok (s : State) (a : Nat) (rs : List Range) :
    ((((⟨a, rs, true⟩ : Resp) :: s.resps).reverse).filter (·.ok)).flatMap (·.ranges) = reportedOk s ++ rs := by
  simp [reportedOk, List.filter_append]

/-- at the moment a response is sent successfully, its AckRecordId is covered -/
theorem covered_sendOk {s s' : State} (hi : Inv s) (ht : InvA s) (h : Step s .sendOk s') :
    ∃ r rest, s'.resps = r :: rest ∧ rest = s.resps ∧ r.ok = true ∧ Covered s' r.ack := by
  cases h
  case sendOk a rs bad k hq hb =>
    refine ⟨⟨a, rs, true⟩, s.resps, rfl, rfl, rfl, ?_⟩
    have hle := sendAck_le hi hq
    have hlow := low_le_of_chain _ _ hi.chain
    refine ⟨by simp; omega, ?_⟩
    intro b hbm hlt
    simp only at hbm hlt
    have hdone := done_of_lt_low hi hbm (by omega)
    rcases hdone with hacc | hperm
    · exact Or.inl hacc
    · refine Or.inr ⟨hperm, ?_⟩
      show (b.from_ + 1, b.to) ∈ ((((⟨a, rs, true⟩ : Resp) :: s.resps).reverse).filter (·.ok)).flatMap (·.ranges)
      rw [reportedOk_cons_ok, reportedOk_eq (hi.allOk hb)]
      have hm := mem_permRanges hbm hperm
      rw [← hi.ledger] at hm
      simp only [pendingBad, inflight, QPc.infl, hq, List.append_assoc] at hm
      rcases List.mem_append.mp hm with hm | hm
      · exact List.mem_append.mpr (Or.inl hm)
      rcases List.mem_append.mp hm with hm | hm
      · exact List.mem_append.mpr (Or.inr hm)
      -- still waiting in the channel / about to be scheduled: then it starts above `a`
      exfalso
      have hpm : (b.from_ + 1, b.to) ∈ pendingBad s := by
        simp only [pendingBad, inflight, QPc.infl, hq, List.append_assoc]
        exact List.mem_append.mpr (Or.inr hm)
      have h2 := ht.pend_ge _ hpm
      simp at h2
      cases bad
      · have h1 := (hi.tickSending a rs k hq).2
        omega
      · rcases hi.compS a rs k hq with ⟨y, hy, hya⟩ | hla
        · have hs := (pending_sorted hi).1
          simp only [pendingBad, inflight, QPc.infl, hq, List.append_assoc] at hs
          rw [List.pairwise_append] at hs
          have := hs.2.2 y hy _ hm
          simp at this; omega
        · omega

/-- every record id up to the decoded count belongs to a batch -/
theorem chain_cover : ∀ (bs : List Batch) (d : Nat), Chain bs d → ∀ i, 0 < i → i ≤ d →
    ∃ b ∈ bs, b.from_ < i ∧ i ≤ b.to
  | [], d, h, i, h0, hi => by simp [Chain] at h; omega
  | b :: bs, d, h, i, h0, hi => by
    simp only [Chain] at h
    by_cases hb : b.from_ < i
    · exact ⟨b, by simp, hb, by omega⟩
    · obtain ⟨b', hb', h1, h2⟩ := chain_cover bs _ h.2.2 i h0 (by omega)
      exact ⟨b', by simp [hb'], h1, h2⟩

/-- `Covered`, stated per record id -/
theorem coveredIds_of_covered {s : State} {a : Nat} (hc : Chain s.batches s.decoded) (h : Covered s a) :
    CoveredIds s a := by
  intro i h0 hia
  obtain ⟨b, hb, h1, h2⟩ := chain_cover _ _ hc i h0 (by have := h.1; omega)
  exact ⟨b, hb, ⟨h1, h2⟩, h.2 b hb (by omega)⟩

/-! ### the acknowledgement clause over the whole response history -/

/-- newest-first form of `AckHistory`, over batches: each successfully sent response covers every
    batch that starts below its AckRecordId with the ranges sent up to and including itself -/
def HistL (bs : List Batch) : List Resp → Prop
  | [] => True
  | r :: older =>
    (r.ok = true → ∀ b ∈ bs, b.from_ < r.ack →
      b.out = .accept ∨ (b.out = .perm ∧ (b.from_ + 1, b.to) ∈ okRanges (r :: older).reverse)) ∧
    HistL bs older

theorem histL_drop : ∀ (a b : List Resp) (bs : List Batch), HistL bs (a ++ b) → HistL bs b
  | [], b, bs, h => h
  | x :: a, b, bs, h => by
    simp only [List.cons_append, HistL] at h
    exact histL_drop a b bs h.2

/-- the batches may change where no acknowledged id reaches: above `bound` -/
theorem histL_mono {bs bs' : List Batch} {bound : Nat} : ∀ (l : List Resp), HistL bs l →
    (∀ r ∈ l, r.ok = true → r.ack ≤ bound) →
    (∀ b ∈ bs', b.from_ < bound → ∃ b0 ∈ bs, b0.from_ = b.from_ ∧ b0.to = b.to ∧ b0.out = b.out) →
    HistL bs' l
  | [], _, _, _ => trivial
  | r :: older, h, hb, hbs => by
    simp only [HistL] at h ⊢
    refine ⟨?_, histL_mono older h.2 (fun r' hr' => hb r' (by simp [hr'])) hbs⟩
    intro hok b hbm hlt
    have hra := hb r (by simp) hok
    obtain ⟨b0, hb0, hf, ht, ho⟩ := hbs b hbm (by omega)
    have := h.1 hok b0 hb0 (by omega)
    rw [hf, ht, ho] at this
    exact this

theorem histL_same {bs : List Batch} (l : List Resp) (h : HistL bs l) : HistL bs l := h

structure InvH (s : State) : Prop where
  hist : HistL s.batches s.resps

theorem invH_init : InvH init := ⟨by simp [init, HistL]⟩

theorem invH_step {s s' : State} {e : Event} (hi : Inv s) (ht : InvA s) (hh : InvH s) (h : Step s e s') :
    InvH s' := by
  have h0 := hh.hist
  -- acknowledged ids do not exceed `low`, below which the batches never change again
  have hbound : ∀ r ∈ s.resps, r.ok = true → r.ack ≤ low s.batches := fun r hr hok =>
    Nat.le_trans (ht.acks_le r hr hok) hi.lastAcked_le
  have hcov := fun (hs : Step s .sendOk s') => covered_sendOk hi ht hs
  cases h
  case decode n hr hn =>
    refine ⟨histL_mono _ h0 hbound ?_⟩
    intro b hb hlt
    simp at hb
    rcases hb with rfl | hb
    · have := low_le_of_chain _ _ hi.chain
      simp at hlt; omega
    · exact ⟨b, hb, rfl, rfl, rfl⟩
  case consumeAccept b0 bs hr hb =>
    refine ⟨histL_mono _ h0 hbound ?_⟩
    intro b hbm hlt
    simp at hbm
    rcases hbm with rfl | hbm
    · have := (low_decoded hi hr hb).1
      simp at hlt; omega
    · exact ⟨b, by simp [hb, hbm], rfl, rfl, rfl⟩
  case consumePerm b0 bs hr hb =>
    refine ⟨histL_mono _ h0 hbound ?_⟩
    intro b hbm hlt
    simp at hbm
    rcases hbm with rfl | hbm
    · have := (low_decoded hi hr hb).1
      simp at hlt; omega
    · exact ⟨b, by simp [hb, hbm], rfl, rfl, rfl⟩
  case consumeTrans b0 bs hr hb =>
    refine ⟨histL_mono _ h0 hbound ?_⟩
    intro b hbm hlt
    simp at hbm
    rcases hbm with rfl | hbm
    · have := (low_decoded hi hr hb).1
      simp at hlt; omega
    · exact ⟨b, by simp [hb, hbm], rfl, rfl, rfl⟩
  case sendOk a rs bad k hq hb =>
    obtain ⟨r, rest, hr, hrest, hok, hc⟩ := hcov (Step.sendOk s a rs bad k hq hb)
    simp only at hr
    obtain ⟨rfl, rfl⟩ := List.cons.inj hr
    refine ⟨?_⟩
    show HistL s.batches (⟨a, rs, true⟩ :: s.resps)
    simp only [HistL]
    refine ⟨fun _ b hbm hlt => ?_, h0⟩
    have := hc.2 b hbm hlt
    simpa [reportedOk, okRanges] using this
  case sendFail a rs bad k hq =>
    refine ⟨?_⟩
    show HistL s.batches (⟨a, rs, false⟩ :: s.resps)
    simp only [HistL]
    exact ⟨fun hok => by simp at hok, h0⟩
  all_goals exact ⟨h0⟩

theorem invH_run : ∀ (evs : List Event) (s s' : State), Inv s → InvA s → InvH s →
    run s evs = some s' → Inv s' ∧ InvA s' ∧ InvH s'
  | [], s, s', hi, ht, hh, h => by simp [run] at h; subst h; exact ⟨hi, ht, hh⟩
  | e :: es, s, s', hi, ht, hh, h => by
    simp only [run] at h
    split at h
    · rename_i s1 hs1
      have hs := step_sound hs1
      exact invH_run es s1 s' (inv_step hi hs) (invA_step hi ht hs) (invH_step hi ht hh hs) h
    · cases h

/-- from the newest-first batch form to `AckHistory` -/
theorem ackHistory_of_inv {s : State} (hi : Inv s) (ht : InvA s) (hh : InvH s) : AckHistory s := by
  intro pre r post hsplit hok i h0 hia
  -- s.resps = post.reverse ++ r :: pre.reverse
  have hl : s.resps = post.reverse ++ r :: pre.reverse := by
    have := congrArg List.reverse hsplit
    simpa using this
  have h1 : HistL s.batches (r :: pre.reverse) := histL_drop post.reverse _ _ (hl ▸ hh.hist)
  simp only [HistL] at h1
  have hr : r ∈ s.resps := by rw [hl]; simp
  have hra : r.ack ≤ s.decoded :=
    Nat.le_trans (ht.acks_le r hr hok) (Nat.le_trans hi.lastAcked_le (low_le_of_chain _ _ hi.chain))
  obtain ⟨b, hb, hf, hto⟩ := chain_cover _ _ hi.chain i h0 (by omega)
  refine ⟨b, hb, ⟨hf, hto⟩, ?_⟩
  have := h1.1 hok b hb (by omega)
  simpa [Batch.exactRange] using this

/-! ### the loop continues after a permanent error -/

theorem run_append : ∀ (a b : List Event) (s : State),
    run s (a ++ b) = (run s a).bind (fun s1 => run s1 b)
  | [], b, s => by simp [run]
  | e :: a, b, s => by
    simp only [List.cons_append, run]
    cases step s e with
    | none => simp
    | some s1 => simpa using run_append a b s1

/-- with room in the channel the loop schedules the bad data, checks `LastError` and is back at the
    read (or leaves because RESPONDING failed - never because of the permanent error) -/
theorem sched_check {s : State} {f t : Nat} (hr : s.rpc = .needBad f t) (hl : s.queue.length < badDataCap) :
    ∃ s', run s [.schedBad, .checkErr] = some s' ∧
      (s'.rpc = .await ∨ (s'.rpc = .exited ∧ s'.lastError = true)) := by
  cases he : s.lastError
  · exact ⟨{ s with queue := s.queue ++ [(f, t)], rpc := .await },
      by simp [run, step, hr, hl, he], Or.inl rfl⟩
  · exact ⟨{ s with queue := s.queue ++ [(f, t)], rpc := .exited, stopReq := true },
      by simp [run, step, hr, hl, he], Or.inr ⟨rfl, he⟩⟩

/-- with a full channel, a Responder that is at its select (outer or inner) or composing takes one
    range out with its next event -/
theorem room_after_one {s : State} {f t : Nat} {hd : Range} {tl : List Range} (hr : s.rpc = .needBad f t)
    (hqu : s.queue = hd :: tl) (htl : tl.length < badDataCap)
    (hq : s.qpc = .idle ∨ (∃ rd, s.qpc = .loaded rd) ∨ ∃ a rs k, s.qpc = .composing a rs k) :
    ∃ e s1, step s e = some s1 ∧ s1.rpc = .needBad f t ∧ s1.queue.length < badDataCap := by
  rcases hq with hq | ⟨rd, hq⟩ | ⟨a, rs, k, hq⟩
  · exact ⟨.badRecv, { s with queue := tl, qpc := .composing hd.2 [hd] none }, by simp [step, hq, hqu], hr, htl⟩
  · exact ⟨.badRecv, { s with queue := tl, qpc := .composing hd.2 [hd] (some rd) }, by simp [step, hq, hqu], hr, htl⟩
  · exact ⟨.badMore, { s with queue := tl, qpc := .composing (if a < hd.2 then hd.2 else a) (rs ++ [hd]) k },
      by simp [step, hq, hqu], hr, htl⟩

/-- the Responder reaches its select (or the inner one) within three events from any send / ack step -/
theorem to_select {s : State} (hq : (∃ a rs bad k, s.qpc = .sending a rs bad k) ∨ ∃ rd, s.qpc = .acking rd) :
    ∃ pre s1, pre.length ≤ 3 ∧ run s pre = some s1 ∧ s1.rpc = s.rpc ∧ s1.queue = s.queue ∧ s1.qpc = .idle := by
  -- an acknowledgement step: either nothing to send, or a send that (here) fails
  have hack : ∀ (s0 : State) (rd : Nat), s0.qpc = .acking rd →
      ∃ pre s1, pre.length ≤ 2 ∧ run s0 pre = some s1 ∧ s1.rpc = s0.rpc ∧ s1.queue = s0.queue ∧ s1.qpc = .idle := by
    intro s0 rd h0
    by_cases hgt : rd > s0.lastAcked
    · exact ⟨[.tickAck, .sendFail],
        { s0 with lastAcked := rd, resps := ⟨rd, [], false⟩ :: s0.resps, lastError := true, broken := true,
                  qpc := .idle },
        by simp, by simp [run, step, h0, hgt, QPc.afterSend], rfl, rfl, rfl⟩
    · exact ⟨[.tickAck], { s0 with qpc := .idle }, by simp, by simp [run, step, h0, hgt], rfl, rfl, rfl⟩
  rcases hq with ⟨a, rs, bad, k, hq⟩ | ⟨rd, hq⟩
  · rcases afterSend_cases bad k with hidle | ⟨rd, _, _, hack'⟩
    · exact ⟨[.sendFail],
        { s with resps := ⟨a, rs, false⟩ :: s.resps, lastError := true, broken := true, qpc := QPc.afterSend bad k },
        by simp, by simp [run, step, hq], rfl, rfl, hidle⟩
    · let s0 : State := { s with resps := ⟨a, rs, false⟩ :: s.resps, lastError := true, broken := true,
                                  qpc := QPc.afterSend bad k }
      have e0 : step s .sendFail = some s0 := by simp [step, hq, s0]
      obtain ⟨pre, s1, hlen, hrun, h1, h2, h3⟩ := hack s0 rd hack'
      refine ⟨.sendFail :: pre, s1, by simp; omega, ?_, h1, h2, h3⟩
      simp only [run, e0]; exact hrun
  · obtain ⟨pre, s1, hlen, hrun, h1, h2, h3⟩ := hack s rd hq
    exact ⟨pre, s1, by omega, hrun, h1, h2, h3⟩

theorem continues_of_inv {s : State} {f t : Nat} (hi : Inv s) (hr : s.rpc = .needBad f t) :
    ∃ pre s', pre.length ≤ 4 ∧ run s (pre ++ [.schedBad, .checkErr]) = some s' ∧
      (s'.rpc = .await ∨ (s'.rpc = .exited ∧ s'.lastError = true)) := by
  by_cases hl : s.queue.length < badDataCap
  · obtain ⟨s', h1, h2⟩ := sched_check hr hl
    exact ⟨[], s', by simp, by simpa using h1, h2⟩
  · have hq := hi.qlen
    have hlen : s.queue.length = badDataCap := by omega
    cases hqu : s.queue with
    | nil => simp [hqu, badDataCap] at hlen
    | cons hd tl =>
      have htl : tl.length < badDataCap := by simp [hqu] at hlen; omega
      -- one event takes a range out of the channel once the Responder is at a select / composing
      have fin : ∀ (s0 : State), s0.rpc = .needBad f t → s0.queue = hd :: tl →
          (s0.qpc = .idle ∨ (∃ rd, s0.qpc = .loaded rd) ∨ ∃ a rs k, s0.qpc = .composing a rs k) →
          ∃ e s', run s0 ([e] ++ [.schedBad, .checkErr]) = some s' ∧
            (s'.rpc = .await ∨ (s'.rpc = .exited ∧ s'.lastError = true)) := by
        intro s0 h0 hq0 hpc
        obtain ⟨e, s1, he, hr1, hl1⟩ := room_after_one h0 hq0 htl hpc
        obtain ⟨s', h1, h2⟩ := sched_check hr1 hl1
        refine ⟨e, s', ?_, h2⟩
        simp only [List.cons_append, List.nil_append, run, he]; exact h1
      cases hqp : s.qpc with
      | idle =>
        obtain ⟨e, s', h1, h2⟩ := fin s hr hqu (Or.inl hqp)
        exact ⟨[e], s', by simp, h1, h2⟩
      | loaded rd =>
        obtain ⟨e, s', h1, h2⟩ := fin s hr hqu (Or.inr (Or.inl ⟨rd, hqp⟩))
        exact ⟨[e], s', by simp, h1, h2⟩
      | composing a rs k =>
        obtain ⟨e, s', h1, h2⟩ := fin s hr hqu (Or.inr (Or.inr ⟨a, rs, k, hqp⟩))
        exact ⟨[e], s', by simp, h1, h2⟩
      | sending a rs bad k =>
        obtain ⟨pre, s1, hlen1, hrun1, hr1, hq1, hp1⟩ := to_select (s := s) (Or.inl ⟨a, rs, bad, k, hqp⟩)
        obtain ⟨e, s', h1, h2⟩ := fin s1 (hr1 ▸ hr) (hq1 ▸ hqu) (Or.inl hp1)
        refine ⟨pre ++ [e], s', by simp; omega, ?_, h2⟩
        rw [List.append_assoc, run_append, hrun1]; exact h1
      | acking rd =>
        obtain ⟨pre, s1, hlen1, hrun1, hr1, hq1, hp1⟩ := to_select (s := s) (Or.inr ⟨rd, hqp⟩)
        obtain ⟨e, s', h1, h2⟩ := fin s1 (hr1 ▸ hr) (hq1 ▸ hqu) (Or.inl hp1)
        refine ⟨pre ++ [e], s', by simp; omega, ?_, h2⟩
        rw [List.append_assoc, run_append, hrun1]; exact h1
      | stopped =>
        have := (hi.stopR).mp (hi.stopQ hqp)
        rw [hr] at this; cases this


/-! ### runs without permanent consumer errors (the receiver inside the C19 pipeline) -/

/-- no batch was rejected permanently -/
def NoPerm (s : State) : Prop := ∀ b ∈ s.batches, b.out ≠ .perm

theorem noPerm_step {s s' : State} {e : Event} (hn : NoPerm s) (he : e ≠ .consume .perm)
    (h : Step s e s') : NoPerm s' := by
  cases h <;> simp_all [NoPerm]

theorem queue_empty_of_noPerm {s : State} (hi : Inv s) (hn : NoPerm s) :
    s.queue = [] ∧ reported s = [] := by
  have hp : permRanges s.batches = [] := by
    simp only [permRanges, List.map_eq_nil_iff, List.filter_eq_nil_iff, List.mem_reverse]
    intro b hb
    simpa using hn b hb
  have hl := hi.ledger
  rw [hp] at hl
  have h1 := List.append_eq_nil_iff.mp hl
  simp only [pendingBad, List.append_eq_nil_iff] at h1
  exact ⟨h1.2.1.2, h1.1⟩

/-- runs without a permanent consumer error never put anything into the bad-data channel and never
    report a range: the Responder degenerates to its tick branch with the inner select always
    taking `default:` -/
theorem noPerm_run : ∀ (evs : List Event) (s s' : State), Inv s → NoPerm s →
    (∀ e ∈ evs, e ≠ .consume .perm) → run s evs = some s' → s'.queue = [] ∧ reported s' = []
  | [], s, s', hi, hn, _, h => by
    simp [run] at h; subst h
    exact queue_empty_of_noPerm hi hn
  | e :: es, s, s', hi, hn, he, h => by
    simp only [run] at h
    split at h
    · rename_i s1 hs1
      have hst := step_sound hs1
      exact noPerm_run es s1 s' (inv_step hi hst) (noPerm_step hn (he e (by simp)) hst)
        (fun e' he' => he e' (by simp [he'])) h
    · cases h

end Stef.Receiver

/-! ### writer / reader record counters -/

namespace Stef.Receiver.Lockstep

def total (s : LS) : Nat := s.rCount + s.rFrame + s.frames.sum + s.wFrame

theorem nextNonEmpty_sum : ∀ (fs : List Nat) (f : Nat) (rest : List Nat),
    nextNonEmpty fs = some (f, rest) → fs.sum = f + rest.sum ∧ 0 < f
  | [], f, rest, h => by simp [nextNonEmpty] at h
  | x :: xs, f, rest, h => by
    simp only [nextNonEmpty] at h
    split at h
    · rename_i hx
      have := nextNonEmpty_sum xs f rest h
      simp [hx]; omega
    · simp at h; obtain ⟨rfl, rfl⟩ := h
      simp; omega

theorem step_inv {s s' : LS} {e : Ev} (h : step s e = some s') (hi : total s = s.wCount) :
    total s' = s'.wCount ∧
    s'.wCount = s.wCount + (if e = .write then 1 else 0) ∧
    s'.rCount = s.rCount + (if e = .read then 1 else 0) := by
  cases e with
  | write => simp [step] at h; subst h; simp [total] at hi ⊢; omega
  | flush =>
    simp only [step] at h
    split at h
    · simp at h; subst h; simp [hi]
    · simp at h; subst h; simp [total] at hi ⊢; omega
  | read =>
    simp only [step] at h
    split at h
    · rename_i h0
      split at h
      · cases h
      · rename_i f fs hn
        simp at h; subst h
        have := nextNonEmpty_sum _ _ _ hn
        simp [total] at hi ⊢; omega
    · simp at h; subst h; simp [total] at hi ⊢; omega

theorem run_inv : ∀ (evs : List Ev) (s s' : LS), run s evs = some s' → total s = s.wCount →
    total s' = s'.wCount ∧ s'.wCount = s.wCount + writes evs ∧ s'.rCount = s.rCount + reads evs
  | [], s, s', h, hi => by simp [run] at h; subst h; simp [hi, writes, reads]
  | e :: es, s, s', h, hi => by
    simp only [run] at h
    split at h
    · rename_i s1 hs1
      obtain ⟨h1, h2, h3⟩ := step_inv hs1 hi
      obtain ⟨g1, g2, g3⟩ := run_inv es s1 s' h h1
      refine ⟨g1, ?_, ?_⟩
      · rw [g2, h2]; cases e <;> simp [writes] <;> omega
      · rw [g3, h3]; cases e <;> simp [reads] <;> omega
    · cases h


end Stef.Receiver.Lockstep
