/-
  Trees built by `Spec.mkNode` number their columns consecutively in depth-first order: the column
  list of the tree is `[b.nextCol, b'.nextCol)`. Hence the tree conditions of `SpecEnc.frameOk`
  (every column exactly once, all below `ncols`, all of `0 .. ncols-1` present) hold for every
  decoder tree `mkNode` builds from column 0.
-/
import Stef.Proofs.SpecEncContainer
import Stef.Proofs.Override

namespace Stef.SpecEnc
open Stef Stef.Spec
open Stef.Proofs.Override (bind_ok)

theorem fetchCount_nextCol (b : Build) (name : String) (own c : Nat) (b' : Build)
    (h : fetchCount b name own = .ok (c, b')) : b'.nextCol = b.nextCol := by
  unfold fetchCount at h
  split at h
  · simp only [Except.ok.injEq, Prod.mk.injEq] at h; rw [← h.2]
  · split at h
    · simp only [Except.ok.injEq, Prod.mk.injEq] at h; rw [← h.2]
    · simp at h
    · split at h
      · simp at h
      · simp only [Except.ok.injEq, Prod.mk.injEq] at h; rw [← h.2]

theorem range'_split (s a b : Nat) : List.range' s (a + b) = List.range' s a ++ List.range' (s + a) b := by
  have := @List.range'_append s a b 1
  simpa using this.symm

def TreeCols (σ : Schema) (fuel : Nat) : Prop :=
  (∀ stack ty b n b', mkNode σ fuel stack ty b = .ok (n, b') →
      b.nextCol ≤ b'.nextCol ∧
      ∀ F, fits F n = true → (colKinds F n).map (·.1) = List.range' b.nextCol (b'.nextCol - b.nextCol)) ∧
  (∀ stack fs b ns b', mkFields σ fuel stack fs b = .ok (ns, b') →
      b.nextCol ≤ b'.nextCol ∧
      ∀ F, fitsList F (ns.map (·.2)) = true →
        (colKindsList F (ns.map (·.2))).map (·.1) = List.range' b.nextCol (b'.nextCol - b.nextCol))

theorem colKinds_recur (F : Nat) (k : String) : colKinds F (.recur k) = [] := by
  cases F <;> simp [colKinds]

/-- a composite node whose kids were built from column `c + 1` on -/
theorem node_cols (F : Nat) (n : Node) (c e : Nat) (hr : isRecur n = false) (hc : nodeCol n = c) (hle : c + 1 ≤ e)
    (hk : ∀ F, fitsList F (nodeKids n) = true →
      (colKindsList F (nodeKids n)).map (·.1) = List.range' (c + 1) (e - (c + 1)))
    (hfit : fits F n = true) : (colKinds F n).map (·.1) = List.range' c (e - c) := by
  cases F with
  | zero => simp [fits] at hfit
  | succ F =>
    rw [fits_succ _ _ hr] at hfit
    rw [colKinds_succ _ _ hr, List.map_cons, hk F hfit, hc]
    have : e - c = (e - (c + 1)) + 1 := by omega
    rw [this, List.range'_succ]

theorem treeCols_all (σ : Schema) : ∀ fuel, TreeCols σ fuel := by
  intro fuel
  induction fuel with
  | zero =>
    constructor
    · intro stack ty b n b' h; rw [mkNode] at h; cases h
    · intro stack fs b ns b' h; rw [mkFields] at h; cases h
  | succ fuel ih =>
    obtain ⟨ihN, ihF⟩ := ih
    constructor
    · intro stack ty b n b' h
      cases ty with
      | prim p d =>
        rw [mkNode] at h
        simp only [Except.ok.injEq, Prod.mk.injEq] at h
        obtain ⟨rfl, rfl⟩ := h
        refine ⟨by simp, ?_⟩
        intro F hfit
        exact node_cols F _ b.nextCol (b.nextCol + 1) rfl rfl (by simp)
          (fun F' _ => by cases F' <;> simp [nodeKids, colKindsList]) hfit
      | arr e =>
        rw [mkNode] at h
        simp only at h
        by_cases hc : stack.contains (tyKey (.arr e)) = true
        · simp only [hc, if_true, Except.ok.injEq, Prod.mk.injEq] at h
          obtain ⟨rfl, rfl⟩ := h
          exact ⟨Nat.le_refl _, fun F _ => by simp [colKinds_recur]⟩
        · simp only [hc] at h
          obtain ⟨⟨en, b1⟩, h1, h2⟩ := bind_ok _ _ _ h
          simp only [Except.ok.injEq, Prod.mk.injEq] at h2
          obtain ⟨rfl, rfl⟩ := h2
          obtain ⟨hle, hcols⟩ := ihN _ _ _ _ _ h1
          simp only at hle hcols
          refine ⟨by omega, ?_⟩
          intro F hfit
          refine node_cols F _ b.nextCol b1.nextCol rfl rfl hle ?_ hfit
          intro F' hf'
          cases F' with
          | zero => simp [fitsList] at hf'
          | succ F' =>
            simp only [nodeKids, fitsList, Bool.and_eq_true] at hf'
            simp only [nodeKids, colKindsList]
            cases F' with
            | zero => simp [fitsList] at hf'
            | succ F'' =>
              simp only [colKindsList, List.append_nil]
              exact hcols _ hf'.1
      | ref name =>
        rw [mkNode] at h
        by_cases hc : stack.contains name = true
        · simp only [hc, if_true, Except.ok.injEq, Prod.mk.injEq] at h
          obtain ⟨rfl, rfl⟩ := h
          exact ⟨Nat.le_refl _, fun F _ => by simp [colKinds_recur]⟩
        · simp only [hc] at h
          cases hf : σ.find name with
          | none => simp [hf] at h
          | some d =>
            cases d with
            | struct dict fs =>
              simp only [hf] at h
              obtain ⟨⟨cnt, b1⟩, h1, h2⟩ := bind_ok _ _ _ h
              have hb1 := fetchCount_nextCol _ _ _ _ _ h1
              simp only at h2 hb1
              obtain ⟨⟨nodes, b2⟩, h3, h4⟩ := bind_ok _ _ _ h2
              simp only [Except.ok.injEq, Prod.mk.injEq] at h4
              obtain ⟨rfl, rfl⟩ := h4
              obtain ⟨hle, hcols⟩ := ihF _ _ _ _ _ h3
              rw [hb1] at hle hcols
              refine ⟨by omega, ?_⟩
              intro F hfit
              exact node_cols F _ b.nextCol b2.nextCol rfl rfl hle (fun F' hf' => hcols F' hf') hfit
            | oneof fs =>
              simp only [hf] at h
              obtain ⟨⟨cnt, b1⟩, h1, h2⟩ := bind_ok _ _ _ h
              have hb1 := fetchCount_nextCol _ _ _ _ _ h1
              simp only at h2 hb1
              obtain ⟨⟨nodes, b2⟩, h3, h4⟩ := bind_ok _ _ _ h2
              simp only [Except.ok.injEq, Prod.mk.injEq] at h4
              obtain ⟨rfl, rfl⟩ := h4
              obtain ⟨hle, hcols⟩ := ihF _ _ _ _ _ h3
              rw [hb1] at hle hcols
              refine ⟨by omega, ?_⟩
              intro F hfit
              exact node_cols F _ b.nextCol b2.nextCol rfl rfl hle (fun F' hf' => hcols F' hf') hfit
            | mmap k v =>
              simp only [hf] at h
              obtain ⟨⟨kn, b1⟩, h1, h2⟩ := bind_ok _ _ _ h
              simp only at h2
              obtain ⟨⟨vn, b2⟩, h3, h4⟩ := bind_ok _ _ _ h2
              simp only [Except.ok.injEq, Prod.mk.injEq] at h4
              obtain ⟨rfl, rfl⟩ := h4
              obtain ⟨hle1, hcols1⟩ := ihN _ _ _ _ _ h1
              obtain ⟨hle2, hcols2⟩ := ihN _ _ _ _ _ h3
              simp only at hle1 hcols1
              refine ⟨by omega, ?_⟩
              intro F hfit
              refine node_cols F _ b.nextCol b2.nextCol rfl rfl (by omega) ?_ hfit
              intro F' hf'
              cases F' with
              | zero => simp [fitsList] at hf'
              | succ F' =>
                simp only [nodeKids, fitsList, Bool.and_eq_true] at hf'
                cases F' with
                | zero => simp [fitsList] at hf'
                | succ F'' =>
                  simp only [fitsList, Bool.and_eq_true] at hf'
                  cases F'' with
                  | zero => simp [fitsList] at hf'
                  | succ F3 =>
                    simp only [nodeKids, colKindsList, List.append_nil, List.map_append]
                    rw [hcols1 _ hf'.1, hcols2 _ hf'.2.1]
                    have : b2.nextCol - (b.nextCol + 1) = (b1.nextCol - (b.nextCol + 1)) + (b2.nextCol - b1.nextCol) := by omega
                    rw [this, range'_split]
                    congr 2
                    omega
    · intro stack fs b ns b' h
      cases fs with
      | nil =>
        rw [mkFields] at h
        simp only [Except.ok.injEq, Prod.mk.injEq] at h
        obtain ⟨rfl, rfl⟩ := h
        exact ⟨Nat.le_refl _, fun F _ => by cases F <;> simp [colKindsList]⟩
      | cons fd rest =>
        rw [mkFields] at h
        obtain ⟨⟨n, b1⟩, h1, h2⟩ := bind_ok _ _ _ h
        simp only at h2
        obtain ⟨⟨ns', b2⟩, h3, h4⟩ := bind_ok _ _ _ h2
        simp only [Except.ok.injEq, Prod.mk.injEq] at h4
        obtain ⟨rfl, rfl⟩ := h4
        obtain ⟨hle1, hcols1⟩ := ihN _ _ _ _ _ h1
        obtain ⟨hle2, hcols2⟩ := ihF _ _ _ _ _ h3
        refine ⟨by omega, ?_⟩
        intro F hfit
        cases F with
        | zero => simp [fitsList] at hfit
        | succ F =>
          simp only [List.map_cons, fitsList, Bool.and_eq_true] at hfit
          simp only [List.map_cons, colKindsList, List.map_append]
          rw [hcols1 _ hfit.1, hcols2 _ hfit.2]
          have : b2.nextCol - b.nextCol = (b1.nextCol - b.nextCol) + (b2.nextCol - b1.nextCol) := by omega
          rw [this, range'_split]
          congr 2
          omega

/-- **mkNode_tree_ok**: for a tree built from column 0 the structural conditions of `frameOk` hold. -/
theorem mkNode_tree_ok (σ : Schema) (fuel : Nat) (ty : Ty) (b0 b : Build) (root : Node)
    (h0 : b0.nextCol = 0) (h : mkNode σ fuel [] ty b0 = .ok (root, b)) (F : Nat) (hfit : fits F root = true) :
    ((colKinds F root).map (·.1)).Nodup ∧
    (∀ c, c < b.nextCol → c ∈ (colKinds F root).map (·.1)) ∧
    (∀ p ∈ colKinds F root, p.1 < b.nextCol) := by
  obtain ⟨_, hcols⟩ := (treeCols_all σ fuel).1 [] ty b0 root b h
  have e := hcols F hfit
  rw [h0] at e
  simp only [Nat.sub_zero] at e
  refine ⟨?_, ?_, ?_⟩
  · rw [e]; exact List.nodup_range' 1
  · intro c hc
    rw [e, List.mem_range']
    exact ⟨c, hc, by simp⟩
  · intro p hp
    have : p.1 ∈ (colKinds F root).map (·.1) := List.mem_map_of_mem hp
    rw [e, List.mem_range'] at this
    obtain ⟨i, hi, he⟩ := this
    omega

end Stef.SpecEnc
