/-
  Stef.Proofs.ForwardStream: the decoder simulation lifted to records, frames and whole streams
  (`stream_sim`): a stream that decodes under A with a descriptor decodes under every B with A ≼ B
  to the same records extended by B-only fields.
-/
import Stef.Proofs.ForwardNode

namespace Stef.Proofs.Forward
open Stef Stef.Spec Stef.Proofs.Override

/-- reported records: same root mask, B's record extends A's -/
def RecRel : List (Nat × St) → List (Nat × St) → Prop := F2 (fun a b => a.1 = b.1 ∧ Ext a.2 b.2)

section
variable {A B : Schema} (hAB : SchemaLe A B) (hC : Closed A) (hD : DictInj A)
include hAB hC hD

theorem records_sim (root : Node) (rootKey : String) (hroot : NK A rootKey root) (rmb : Nat) :
    ∀ (fuel n : Nat) (cura curb : St) (dsa dsb : DS) (acca accb : List (Nat × St)) (ra : St × DS × List (Nat × St)),
      KRel A rootKey cura curb → DSRel A dsa dsb → RecRel acca accb →
      decodeRecords A root rmb fuel n cura dsa acca = .ok ra →
      ∃ rb, decodeRecords B root rmb fuel n curb dsb accb = .ok rb ∧
        KRel A rootKey ra.1 rb.1 ∧ DSRel A ra.2.1 rb.2.1 ∧ RecRel ra.2.2 rb.2.2 := by
  intro fuel
  induction fuel with
  | zero =>
    intro n cura curb dsa dsb acca accb ra _ _ _ h
    rw [decodeRecords] at h
    cases h
  | succ fuel ih =>
    intro n cura curb dsa dsb acca accb ra hcur hds hacc h
    cases n with
    | zero =>
      simp only [decodeRecords] at h ⊢
      injection h with h
      subst h
      exact ⟨_, rfl, hcur, hds, hacc⟩
    | succ n =>
      simp only [decodeRecords] at h ⊢
      obtain ⟨⟨v, ds1⟩, h1, h2⟩ := bind_ok _ _ _ h
      simp only at h2
      obtain ⟨vb, ds1b, hb, hv, hds1⟩ := (sim_all hAB hC hD _).1 _ _ _ _ _ _ _ _ _ (envOK_nil A) hroot hcur hds h1
      obtain ⟨t, rfl, hdict⟩ := hds
      simp only [hb, bind, Except.bind]
      have hcolT : ∀ c, (withT dsa t).col c = dsa.col c := fun _ => rfl
      simp only [hcolT]
      exact ih n v vb ds1 ds1b ((_, v) :: acca) ((_, vb) :: accb) ra hv hds1 (F2.cons ⟨rfl, hv.toExt⟩ hacc) h2

end

/-! ## loading the columns of a frame does not look at the struct dictionaries -/

def loadStep (sizes : List (Nat × Nat)) (acc : DS × Bytes) (k : Nat × Bool) : R (DS × Bytes) :=
  let sz := ((sizes.find? (·.1 = k.1)).map (·.2)).getD 0
  match takeBytes sz acc.2 [] with
  | none => .error "eof-column-data"
  | some (bytes, rest) =>
    let c := acc.1.col k.1
    let c := if k.2 then { c with bits := bytesBits bytes, bytes := [], size := sz }
             else { c with bytes := bytes, bits := [], size := sz }
    .ok (acc.1.setCol k.1 c, rest)

theorem loadColumns_eq (kinds : List (Nat × Bool)) (sizes : List (Nat × Nat)) (data : Bytes) (ds : DS) :
    loadColumns kinds sizes data ds = kinds.foldlM (loadStep sizes) (ds, data) := rfl

theorem loadStep_withT (sizes : List (Nat × Nat)) (ds : DS) (data : Bytes) (k : Nat × Bool)
    (t : List (String × List (Option St))) (r : DS × Bytes) (h : loadStep sizes (ds, data) k = .ok r) :
    loadStep sizes (withT ds t, data) k = .ok (withT r.1 t, r.2) ∧ r.1.tdict = ds.tdict := by
  unfold loadStep at h ⊢
  simp only at h ⊢
  split at h
  · cases h
  · rename_i bytes rest hb
    injection h with h
    subst h
    exact ⟨rfl, rfl⟩

theorem loadColumns_withT (sizes : List (Nat × Nat)) (t : List (String × List (Option St))) :
    ∀ (kinds : List (Nat × Bool)) (data : Bytes) (ds : DS) (r : DS × Bytes), loadColumns kinds sizes data ds = .ok r →
      loadColumns kinds sizes data (withT ds t) = .ok (withT r.1 t, r.2) ∧ r.1.tdict = ds.tdict := by
  intro kinds
  induction kinds with
  | nil =>
    intro data ds r h
    simp only [loadColumns_eq, List.foldlM, pure, Except.pure] at h ⊢
    injection h with h
    subst h
    exact ⟨rfl, rfl⟩
  | cons k ks ih =>
    intro data ds r h
    simp only [loadColumns_eq, List.foldlM_cons] at h ⊢
    obtain ⟨⟨ds1, d1⟩, h1, h2⟩ := bind_ok _ _ _ h
    obtain ⟨e1, e2⟩ := loadStep_withT sizes ds data k t _ h1
    simp only [e1, bind, Except.bind]
    have := ih d1 ds1 r (by rw [loadColumns_eq]; exact h2)
    rw [loadColumns_eq] at this
    exact ⟨this.1, this.2.trans e2⟩

/-! ## one frame -/

def frameReset (flags : Nat) (ds : DS) : DS :=
  let ds := if flags % 2 = 1 then ds.resetDicts else ds
  if (flags / 4) % 2 = 1 then { ds with cols := ds.cols.map ColSt.resetCodec } else ds

/-- what `decodeStream.go` does with one frame: new current record, new state, the frame's records
    (latest first), the record count -/
def frameStep (σ : Schema) (root : Node) (kinds : List (Nat × Bool)) (rootKept : Nat) (fr : Frame) (cur : St) (ds : DS) :
    R (St × DS × List (Nat × St) × Nat) := do
  let ds := frameReset fr.flags ds
  let (nrec, c1) ← needVar fr.content
  let (sos, c2) ← needVar c1
  let (sizeBytes, data) ← needTake sos c2
  let (_, sizes) ← readSizes 100000 root (bytesBits sizeBytes) []
  let (ds, _) ← loadColumns kinds sizes data ds
  let (cur, ds, newRecs) ← decodeRecords σ root rootKept (fr.content.length * 8 + nrec + 1000) nrec cur ds []
  .ok (cur, ds, newRecs, nrec)

theorem go_cons (σ : Schema) (hdr : Header) (root : Node) (kinds : List (Nat × Bool)) (rootKept : Nat) (fr : Frame)
    (rest : List Frame) (cur : St) (ds : DS) (infos : List FrameInfo) (recs : List (Nat × St)) :
    decodeStream.go σ hdr root kinds rootKept (fr :: rest) cur ds infos recs =
      match frameStep σ root kinds rootKept fr cur ds with
      | .error e => { header := hdr, frames := infos.reverse, records := recs.reverse,
                      dictViolations := ds.dictViolations, maxDictPayload := ds.maxDictPayload, error := some e }
      | .ok (cur', ds', newRecs, nrec) =>
        decodeStream.go σ hdr root kinds rootKept rest cur' ds'
          ({ flags := fr.flags, size := fr.content.length, records := nrec, dictPayloadAfter := ds'.dictPayload } :: infos)
          (newRecs ++ recs) := by
  simp only [decodeStream.go, frameStep, frameReset, bind, Except.bind]
  repeat' split
  all_goals simp_all

theorem frameReset_rel (A : Schema) (flags : Nat) (ds : DS) (t : List (String × List (Option St)))
    (h : DictRel A ds.tdict t) : DSRel A (frameReset flags ds) (frameReset flags (withT ds t)) := by
  unfold frameReset
  by_cases h1 : flags % 2 = 1 <;> by_cases h2 : (flags / 4) % 2 = 1 <;> simp only [h1, h2, if_true, if_false]
  · exact ⟨[], rfl, DictRel.nil⟩
  · exact ⟨[], rfl, DictRel.nil⟩
  · exact ⟨t, rfl, h⟩
  · exact ⟨t, rfl, h⟩

section
variable {A B : Schema} (hAB : SchemaLe A B) (hC : Closed A) (hD : DictInj A)
include hAB hC hD

theorem frameStep_sim (root : Node) (rootKey : String) (hroot : NK A rootKey root) (kinds : List (Nat × Bool))
    (rootKept : Nat) (fr : Frame) (cura curb : St) (dsa dsb : DS) (ra : St × DS × List (Nat × St) × Nat)
    (hcur : KRel A rootKey cura curb) (hds : DSRel A dsa dsb)
    (h : frameStep A root kinds rootKept fr cura dsa = .ok ra) :
    ∃ rb, frameStep B root kinds rootKept fr curb dsb = .ok rb ∧ KRel A rootKey ra.1 rb.1 ∧ DSRel A ra.2.1 rb.2.1 ∧
      RecRel ra.2.2.1 rb.2.2.1 ∧ ra.2.2.2 = rb.2.2.2 := by
  obtain ⟨t, rfl, hdict⟩ := hds
  unfold frameStep at h ⊢
  obtain ⟨t1, ht1, hdict1⟩ := frameReset_rel A fr.flags dsa t hdict
  simp only at h ⊢
  rw [ht1]
  obtain ⟨⟨nrec, c1⟩, h1, h2⟩ := bind_ok _ _ _ h
  simp only at h2
  obtain ⟨⟨sos, c2⟩, h3, h4⟩ := bind_ok _ _ _ h2
  simp only at h4
  obtain ⟨⟨sizeBytes, data⟩, h5, h6⟩ := bind_ok _ _ _ h4
  simp only at h6
  obtain ⟨⟨bs, sizes⟩, h7, h8⟩ := bind_ok _ _ _ h6
  simp only at h8
  obtain ⟨⟨ds2, rem⟩, h9, h10⟩ := bind_ok _ _ _ h8
  simp only at h10
  obtain ⟨⟨cur', ds3, newRecs⟩, h11, h12⟩ := bind_ok _ _ _ h10
  simp only at h12
  injection h12 with h12
  subst h12
  obtain ⟨e1, e2⟩ := loadColumns_withT sizes t1 kinds data _ _ h9
  obtain ⟨rb, hb, hk, hd, hr⟩ := records_sim hAB hC hD root rootKey hroot rootKept _ _ cura curb ds2 (withT ds2 t1) [] [] _
    hcur ⟨t1, rfl, e2 ▸ hdict1⟩ F2.nil h11
  obtain ⟨curb', dsb', newRecsb⟩ := rb
  refine ⟨(curb', dsb', newRecsb, nrec), ?_, hk, hd, hr, rfl⟩
  simp only [h1, h3, h5, h7, e1, hb, bind, Except.bind]

theorem go_sim (hdr : Header) (root : Node) (rootKey : String) (hroot : NK A rootKey root)
    (kinds : List (Nat × Bool)) (rootKept : Nat) :
    ∀ (frames : List Frame) (cura curb : St) (dsa dsb : DS) (infosa infosb : List FrameInfo) (recsa recsb : List (Nat × St)),
      KRel A rootKey cura curb → DSRel A dsa dsb → RecRel recsa recsb →
      (decodeStream.go A hdr root kinds rootKept frames cura dsa infosa recsa).error = none →
      (decodeStream.go B hdr root kinds rootKept frames curb dsb infosb recsb).error = none ∧
      RecRel (decodeStream.go A hdr root kinds rootKept frames cura dsa infosa recsa).records
        (decodeStream.go B hdr root kinds rootKept frames curb dsb infosb recsb).records := by
  intro frames
  induction frames with
  | nil =>
    intro cura curb dsa dsb infosa infosb recsa recsb hcur hds hrec h
    simp only [decodeStream.go]
    exact ⟨trivial, hrec.reverse⟩
  | cons fr rest ih =>
    intro cura curb dsa dsb infosa infosb recsa recsb hcur hds hrec h
    rw [go_cons] at h ⊢
    rw [go_cons]
    cases hstep : frameStep A root kinds rootKept fr cura dsa with
    | error e => simp [hstep] at h
    | ok ra =>
      obtain ⟨rb, hb, hk, hd, hr, hn⟩ := frameStep_sim hAB hC hD root rootKey hroot kinds rootKept fr cura curb dsa dsb ra
        hcur hds hstep
      obtain ⟨cura', dsa', newa, nreca⟩ := ra
      obtain ⟨curb', dsb', newb, nrecb⟩ := rb
      simp only [hstep] at h
      simp only [hb]
      exact ih cura' curb' dsa' dsb' _ _ _ _ hk hd (F2.append hr hrec) h

end

/-! ## the whole stream -/

def failD (h : Header) (e : String) : Decoded :=
  { header := h, frames := [], records := [], dictViolations := 0, maxDictPayload := 0, error := some e }

def h0 : Header := { compression := 0, wireCounts := none, userData := [] }

/-- the schema-independent part of `decodeStream`: fixed header, framing, var header -/
def parseHead (stream : Bytes) : Except (Header × String) (Header × List Frame) :=
  match readFixedHeader stream with
  | .error e => .error (h0, e)
  | .ok (comp, rest) =>
    if comp ≠ 0 then .error ({ h0 with compression := comp }, "compressed-stream-not-supported") else
    match readFrames (stream.length * 8 + 1000) rest [] with
    | .error e => .error (h0, e)
    | .ok [] => .error (h0, "eof-no-varheader")
    | .ok (vh :: frames) =>
      match readVarHeader vh.content with
      | .error e => .error (h0, e)
      | .ok (counts, user) => .ok ({ compression := comp, wireCounts := counts, userData := user }, frames)

def rootKeptOf : Node → Nat
  | .struct _ _ _ k _ _ => k
  | _ => 0

theorem decodeStream_eq (σ : Schema) (rootName : String) (stream : Bytes) :
    decodeStream σ rootName stream =
      match parseHead stream with
      | .error p => failD p.1 p.2
      | .ok p =>
        match mkNode σ 200 [] (.ref rootName) { override := p.1.wireCounts } with
        | .error e => failD p.1 e
        | .ok r =>
          if (match r.2.override with | some (_ :: _) => true | _ => false) then failD p.1 "schema-override-not-consumed" else
          decodeStream.go σ p.1 r.1 (colKinds 10000 r.1) (rootKeptOf r.1) p.2 (initSt σ initFuel (.ref rootName))
            { cols := Array.replicate r.2.nextCol {} } [] [] := by
  unfold decodeStream parseHead
  cases h1 : readFixedHeader stream with
  | error e => rfl
  | ok p1 =>
    obtain ⟨comp, rest⟩ := p1
    simp only
    by_cases hc : comp = 0
    · subst hc
      simp only [ne_eq, not_true_eq_false, if_false]
      cases h2 : readFrames (stream.length * 8 + 1000) rest [] with
      | error e => rfl
      | ok fl =>
        cases fl with
        | nil => rfl
        | cons vh frames =>
          simp only
          cases h3 : readVarHeader vh.content with
          | error e => rfl
          | ok p3 =>
            obtain ⟨counts, user⟩ := p3
            simp only
            cases h4 : mkNode σ 200 [] (.ref rootName) { override := counts } with
            | error e => rfl
            | ok r =>
              obtain ⟨root, b⟩ := r
              simp only
              cases hb : b.override with
              | none => cases root <;> rfl
              | some l =>
                cases l with
                | nil => cases root <;> rfl
                | cons x xs => rfl
    · simp only [ne_eq, hc, not_false_eq_true, if_true]
      rfl

theorem go_header (σ : Schema) (hdr : Header) (root : Node) (kinds : List (Nat × Bool)) (rootKept : Nat) :
    ∀ (frames : List Frame) (cur : St) (ds : DS) (infos : List FrameInfo) (recs : List (Nat × St)),
      (decodeStream.go σ hdr root kinds rootKept frames cur ds infos recs).header = hdr := by
  intro frames
  induction frames with
  | nil => intro cur ds infos recs; simp only [decodeStream.go]
  | cons fr rest ih =>
    intro cur ds infos recs
    rw [go_cons]
    split
    · rfl
    · exact ih _ _ _ _

theorem mkNode_root_defined (σ : Schema) (fuel : Nat) (root : String) (b : Build) (r : Node × Build)
    (h : mkNode σ fuel [] (.ref root) b = .ok r) : ∃ d, σ.find root = some d := by
  cases fuel with
  | zero => rw [mkNode] at h; cases h
  | succ fuel =>
    rw [mkNode] at h
    cases hf : σ.find root with
    | none => simp [hf] at h
    | some d => exact ⟨d, rfl⟩

section
variable {A B : Schema} (hAB : SchemaLe A B) (hC : Closed A) (hD : DictInj A)
include hAB hC hD

/-- **stream_sim**: a stream with a descriptor that decodes under A without error decodes under B
    without error, to records with the same root masks that extend A's records. -/
theorem stream_sim (root : String) (stream : Bytes) (l : List Nat)
    (hE : (decodeStream A root stream).error = none)
    (hW : (decodeStream A root stream).header.wireCounts = some l) :
    (decodeStream B root stream).error = none ∧
      RecRel (decodeStream A root stream).records (decodeStream B root stream).records := by
  rw [decodeStream_eq A] at hE hW ⊢
  rw [decodeStream_eq B]
  cases hp : parseHead stream with
  | error p => simp [hp, failD] at hE
  | ok p =>
    simp only [hp] at hE hW ⊢
    cases hm : mkNode A 200 [] (.ref root) { override := p.1.wireCounts } with
    | error e => simp [hm, failD] at hE
    | ok r =>
      simp only [hm] at hE hW ⊢
      by_cases hov : (match r.2.override with | some (_ :: _) => true | _ => false) = true
      · simp [hov, failD] at hE
      · simp only [hov, Bool.false_eq_true, if_false] at hE hW ⊢
        rw [go_header] at hW
        have hmB : mkNode B 200 [] (.ref root) { override := p.1.wireCounts } = .ok r := by
          rw [hW] at hm ⊢
          exact ((mono_all A B hAB 200).1 [] (.ref root) _ r ⟨l, rfl⟩ (by intro q hq; cases hq) hm).1
        have hty : TyClosed A (.ref root) := mkNode_root_defined A 200 root _ r hm
        have hnk : NK A root r.1 := (mkNode_NK A hC 200).1 [] (.ref root) _ r hty hm
        simp only [hmB, hov, Bool.false_eq_true, if_false]
        exact go_sim hAB hC hD p.1 r.1 root hnk _ _ p.2 _ _ _ _ [] [] [] []
          (init_rel hAB hC initFuel (.ref root) hty) ⟨[], rfl, DictRel.nil⟩ F2.nil hE

end

theorem recRel_split {a b : List (Nat × St)} (h : RecRel a b) :
    a.map (·.1) = b.map (·.1) ∧ ExtL (a.map (·.2)) (b.map (·.2)) := by
  induction h with
  | nil => exact ⟨rfl, ExtL.nil⟩
  | cons hab _ ih =>
    simp only [List.map_cons]
    exact ⟨by rw [hab.1, ih.1], ExtL.cons _ _ _ _ hab.2 ih.2⟩

end Stef.Proofs.Forward
