import Stef.Limiter

namespace Stef.Limiter

/-! ### SizeLimiter facts -/

theorem foldl_add_limit (l : List Nat) (d : SizeLimiter) :
    (l.foldl SizeLimiter.addDictElemSize d).dictByteSizeLimit = d.dictByteSizeLimit ∧
    (l.foldl SizeLimiter.addDictElemSize d).frameBitSize = d.frameBitSize ∧
    (l.foldl SizeLimiter.addDictElemSize d).frameBitSizeLimit = d.frameBitSizeLimit := by
  induction l generalizing d with
  | nil => simp
  | cons a l ih =>
    simp only [List.foldl_cons]
    have := ih (d.addDictElemSize a)
    unfold SizeLimiter.addDictElemSize at this ⊢
    split <;> simp_all

theorem foldl_add_zero_limit (l : List Nat) (d : SizeLimiter) (h : d.dictByteSizeLimit = 0) :
    l.foldl SizeLimiter.addDictElemSize d = d := by
  induction l generalizing d with
  | nil => simp
  | cons a l ih =>
    simp only [List.foldl_cons]
    have e : d.addDictElemSize a = d := by simp [SizeLimiter.addDictElemSize, h]
    rw [e]; exact ih d h

theorem foldl_add_size (l : List Nat) (d : SizeLimiter) (h : d.dictByteSizeLimit ≠ 0) :
    (l.foldl SizeLimiter.addDictElemSize d).dictByteSize = d.dictByteSize + l.sum := by
  induction l generalizing d with
  | nil => simp
  | cons a l ih =>
    simp only [List.foldl_cons, List.sum_cons]
    have hd : (d.addDictElemSize a).dictByteSizeLimit ≠ 0 := by
      simp [SizeLimiter.addDictElemSize, h]
    rw [ih (d.addDictElemSize a) hd]
    simp [SizeLimiter.addDictElemSize, h]; omega

/-- "the limit flag is up, or the size is still below the limit" -/
def Q (d : SizeLimiter) : Prop :=
  d.dictSizeLimitReached = true ∨ d.dictByteSize < d.dictByteSizeLimit

theorem add_Q (d : SizeLimiter) (a : Nat) (h : d.dictByteSizeLimit ≠ 0) (hq : Q d) :
    Q (d.addDictElemSize a) := by
  unfold Q SizeLimiter.addDictElemSize at *
  simp only [h, ne_eq, not_false_eq_true, ↓reduceIte]
  rcases hq with hq | hq
  · left; simp [hq]
  · by_cases hc : d.dictByteSize + a ≥ d.dictByteSizeLimit
    · left; simp [hc]
    · right; omega

theorem foldl_add_Q (l : List Nat) (d : SizeLimiter) (h : d.dictByteSizeLimit ≠ 0) (hq : Q d) :
    Q (l.foldl SizeLimiter.addDictElemSize d) := by
  induction l generalizing d with
  | nil => simpa
  | cons a l ih =>
    simp only [List.foldl_cons]
    have hd : (d.addDictElemSize a).dictByteSizeLimit ≠ 0 := by
      simp [SizeLimiter.addDictElemSize, h]
    exact ih _ hd (add_Q d a h hq)

end Stef.Limiter

namespace Stef.Limiter

def epochAfter : List FrameOut → Nat → Nat
  | [], e => e
  | f :: fs, e => epochAfter fs (if hasRD f.flags then e + 1 else e)

theorem epochAfter_append (fs : List FrameOut) (f : FrameOut) (e : Nat) :
    epochAfter (fs ++ [f]) e = (if hasRD f.flags then epochAfter fs e + 1 else epochAfter fs e) := by
  induction fs generalizing e with
  | nil => simp [epochAfter]
  | cons g gs ih => simp [epochAfter, ih]

theorem readerEpochs_append (fs : List FrameOut) (f : FrameOut) (e : Nat) :
    readerEpochs (fs ++ [f]) e =
      readerEpochs fs e ++ f.recs.map (fun r => (r.1, epochAfter (fs ++ [f]) e)) := by
  induction fs generalizing e with
  | nil => simp [readerEpochs, epochAfter]
  | cons g gs ih => simp [readerEpochs, epochAfter, ih]

structure Core (w : Writer) : Prop where
  notReached : w.lim.dictSizeLimitReached = false
  dictLt : w.lim.dictByteSizeLimit ≠ 0 → w.lim.dictByteSize < w.lim.dictByteSizeLimit
  dictZero : w.lim.dictByteSizeLimit = 0 → w.lim.dictByteSize = 0
  maxDictB : w.lim.dictByteSizeLimit ≠ 0 → w.maxDict < w.lim.dictByteSizeLimit + w.maxAdd
  maxDictZ : w.lim.dictByteSizeLimit = 0 → w.maxDict = 0
  framesB : ∀ f ∈ w.out, w.lim.frameBitSizeLimit ≠ 0 → f.bits < w.lim.frameBitSizeLimit + f.lastBits
  sync : readerEpochs w.out.reverse 0 = w.out.reverse.flatMap (·.recs)
  openEpoch : epochAfter w.out.reverse 0 + (if hasRD w.openFlags then 1 else 0) = w.epoch
  openRecs : ∀ r ∈ w.frameRecs, r.2 = w.epoch

structure Inv (w : Writer) : Prop where
  core : Core w
  frameLt : w.lim.frameBitSizeLimit ≠ 0 → w.lim.frameBitSize < w.lim.frameBitSizeLimit
  rdEmpty : hasRD w.restartFlags = true → w.frameRecs = []

theorem inv_new (L F flags : Nat) : Inv (Writer.new L F flags) := by
  refine ⟨?_, ?_, ?_⟩
  · constructor <;> simp [Writer.new, SizeLimiter.init, readerEpochs, epochAfter, hasRD] <;> omega
  · simp [Writer.new, SizeLimiter.init]; omega
  · simp [Writer.new]

/-- closing the open frame keeps the invariant, provided the new flags announce exactly the
    dictionary resets that happened: `epoch'` is the writer epoch after the call. -/
theorem inv_restart (w : Writer) (nextFlags : Nat)
    (h : Core w)
    (hb : w.lim.frameBitSizeLimit ≠ 0 → w.lim.frameBitSize < w.lim.frameBitSizeLimit + w.lastBits)
    (epoch' : Nat)
    (he : w.epoch + (if hasRD nextFlags then 1 else 0) = epoch') :
    Inv { w.restartFrame nextFlags with epoch := epoch' } := by
  have hsync := h.sync
  have hopen := h.openEpoch
  have hrecs := h.openRecs
  have hE : (if hasRD w.openFlags then epochAfter w.out.reverse 0 + 1 else epochAfter w.out.reverse 0) = w.epoch := by
    split <;> simp_all
  refine ⟨?_, ?_, ?_⟩
  · constructor
    · simpa [Writer.restartFrame, SizeLimiter.resetFrameSize] using h.notReached
    · simpa [Writer.restartFrame, SizeLimiter.resetFrameSize] using h.dictLt
    · simpa [Writer.restartFrame, SizeLimiter.resetFrameSize] using h.dictZero
    · simpa [Writer.restartFrame, SizeLimiter.resetFrameSize] using h.maxDictB
    · simpa [Writer.restartFrame, SizeLimiter.resetFrameSize] using h.maxDictZ
    · intro f hf hF
      simp only [Writer.restartFrame, SizeLimiter.resetFrameSize, List.mem_cons] at hf hF
      rcases hf with hf | hf
      · subst hf; exact hb hF
      · exact h.framesB f hf hF
    · simp only [Writer.restartFrame, List.reverse_cons]
      rw [readerEpochs_append, hsync, List.flatMap_append]
      congr 1
      simp only [List.flatMap_cons, List.flatMap_nil, List.append_nil]
      rw [epochAfter_append]
      simp only
      have : ∀ r ∈ w.frameRecs.reverse, r.2 = w.epoch := by
        intro r hr; exact hrecs r (by simpa using hr)
      rw [hE]
      have hm : List.map (fun r : Nat × Nat => (r.1, w.epoch)) w.frameRecs.reverse
          = List.map id w.frameRecs.reverse := by
        apply List.map_congr_left
        intro r hr
        have := this r hr
        cases r; simp_all
      simpa using hm
    · simp only [Writer.restartFrame, List.reverse_cons]
      rw [epochAfter_append]
      simp only
      rw [hE]; exact he
    · simp [Writer.restartFrame]
  · simp [Writer.restartFrame, SizeLimiter.resetFrameSize]; omega
  · simp [Writer.restartFrame]

theorem inv_recordCount (w : Writer) (n : Nat) (h : Inv w) : Inv { w with recordCount := n } := by
  obtain ⟨c, f, r⟩ := h
  exact ⟨⟨c.notReached, c.dictLt, c.dictZero, c.maxDictB, c.maxDictZ, c.framesB, c.sync, c.openEpoch, c.openRecs⟩, f, r⟩

theorem hasRD_or (n : Nat) : hasRD (n ||| restartDictionaries) = true := by
  simp only [hasRD, restartDictionaries, Gen.restartDictionaries]
  have : (n ||| 1).testBit 0 = true := by simp
  rw [Nat.testBit_zero] at this
  simp [this]

/-- facts about the state between the two halves of `Write()` -/
structure Mid (w : Writer) : Prop where
  q : w.lim.dictByteSizeLimit ≠ 0 → Q w.lim
  zero : w.lim.dictByteSizeLimit = 0 → w.lim.dictByteSize = 0 ∧ w.lim.dictSizeLimitReached = false
  maxDictB : w.lim.dictByteSizeLimit ≠ 0 → w.maxDict < w.lim.dictByteSizeLimit + w.maxAdd
  maxDictZ : w.lim.dictByteSizeLimit = 0 → w.maxDict = 0
  framesB : ∀ f ∈ w.out, w.lim.frameBitSizeLimit ≠ 0 → f.bits < w.lim.frameBitSizeLimit + f.lastBits
  sync : readerEpochs w.out.reverse 0 = w.out.reverse.flatMap (·.recs)
  openEpoch : epochAfter w.out.reverse 0 + (if hasRD w.openFlags then 1 else 0) = w.epoch
  openRecs : ∀ r ∈ w.frameRecs, r.2 = w.epoch
  frameB : w.lim.frameBitSizeLimit ≠ 0 → w.lim.frameBitSize < w.lim.frameBitSizeLimit + w.lastBits

theorem mid_encode (w : Writer) (c : RecCost) (h : Inv w) : Mid (w.encodeStage c) := by
  obtain ⟨hc, hf, _⟩ := h
  have hl := foldl_add_limit c.dictAdds w.lim
  constructor
  · intro hL
    simp only [Writer.encodeStage, SizeLimiter.addFrameBits] at hL ⊢
    rw [hl.1] at hL
    have := foldl_add_Q c.dictAdds w.lim hL (Or.inr (hc.dictLt hL))
    simpa [Q] using this
  · intro hL
    simp only [Writer.encodeStage, SizeLimiter.addFrameBits] at hL ⊢
    rw [hl.1] at hL
    rw [foldl_add_zero_limit _ _ hL]
    exact ⟨hc.dictZero hL, hc.notReached⟩
  · intro hL
    simp only [Writer.encodeStage, SizeLimiter.addFrameBits] at hL ⊢
    rw [hl.1] at hL ⊢
    rw [foldl_add_size _ _ hL]
    have h1 := hc.maxDictB hL
    have h2 := hc.dictLt hL
    simp only [Nat.max_def]
    split <;> split <;> omega
  · intro hL
    simp only [Writer.encodeStage, SizeLimiter.addFrameBits] at hL ⊢
    rw [hl.1] at hL
    rw [foldl_add_zero_limit _ _ hL, hc.dictZero hL, hc.maxDictZ hL]
    simp
  · intro f hf' hF
    simp only [Writer.encodeStage, SizeLimiter.addFrameBits] at hf' hF ⊢
    rw [hl.2.2] at hF ⊢
    exact hc.framesB f hf' hF
  · exact hc.sync
  · exact hc.openEpoch
  · intro r hr
    simp only [Writer.encodeStage, List.mem_cons] at hr ⊢
    rcases hr with hr | hr
    · subst hr; rfl
    · exact hc.openRecs r hr
  · intro hF
    simp only [Writer.encodeStage, SizeLimiter.addFrameBits] at hF ⊢
    rw [hl.2.2] at hF ⊢
    rw [hl.2.1]
    have := hf hF
    omega

end Stef.Limiter

namespace Stef.Limiter

theorem core_of_mid_notReached (w : Writer) (m : Mid w) (hr : w.lim.dictSizeLimitReached = false) :
    Core w := by
  refine ⟨hr, ?_, ?_, m.maxDictB, m.maxDictZ, m.framesB, m.sync, m.openEpoch, m.openRecs⟩
  · intro hL
    have := m.q hL
    simp only [Q, hr] at this
    simpa using this
  · intro hL; exact (m.zero hL).1

theorem core_resetDict (w : Writer) (m : Mid w) : Core { w with lim := w.lim.resetDict } := by
  refine ⟨?_, ?_, ?_, ?_, ?_, ?_, m.sync, m.openEpoch, m.openRecs⟩
  · simp [SizeLimiter.resetDict]
  · intro hL; simp only [SizeLimiter.resetDict] at hL ⊢; omega
  · intro _; simp [SizeLimiter.resetDict]
  · simpa [SizeLimiter.resetDict] using m.maxDictB
  · simpa [SizeLimiter.resetDict] using m.maxDictZ
  · simpa [SizeLimiter.resetDict] using m.framesB

theorem inv_decide (w : Writer) (m : Mid w) : Inv w.decideStage := by
  unfold Writer.decideStage
  by_cases hA : (w.lim.dictLimitReached || hasRD w.restartFlags) = true
  · simp only [hA, ↓reduceIte]
    apply inv_recordCount
    have := inv_restart { w with lim := w.lim.resetDict } (w.restartFlags ||| restartDictionaries)
      (core_resetDict w m) (by simpa [SizeLimiter.resetDict] using m.frameB) (w.epoch + 1)
      (by simp [hasRD_or])
    exact this
  · simp only [hA]
    have hA' : w.lim.dictSizeLimitReached = false ∧ hasRD w.restartFlags = false := by
      simp only [SizeLimiter.dictLimitReached, Bool.or_eq_true, not_or, Bool.not_eq_true] at hA
      exact hA
    have hcore := core_of_mid_notReached w m hA'.1
    by_cases hB : w.lim.frameLimitReached = true
    · simp only [hB, ↓reduceIte]
      apply inv_recordCount
      have := inv_restart w w.restartFlags hcore m.frameB w.epoch (by simp [hA'.2])
      exact this
    · simp only [hB]
      apply inv_recordCount
      refine ⟨hcore, ?_, ?_⟩
      · intro hF
        simp only [SizeLimiter.frameLimitReached, Bool.and_eq_true, bne_iff_ne, ne_eq,
          decide_eq_true_eq, not_and, Nat.not_le] at hB
        exact hB hF
      · intro h; simp [hA'.2] at h

theorem inv_write (w : Writer) (c : RecCost) (h : Inv w) : Inv (w.write c) :=
  inv_decide _ (mid_encode w c h)

theorem inv_flush (w : Writer) (h : Inv w) : Inv w.flush := by
  unfold Writer.flush
  by_cases he : w.frameRecs.isEmpty = true
  · simpa [he] using h
  · simp only [he]
    have hrd : hasRD w.restartFlags = false := by
      cases hh : hasRD w.restartFlags with
      | false => rfl
      | true => have := h.rdEmpty hh; simp [this] at he
    have := inv_restart w w.restartFlags h.core
      (by intro hF; have := h.frameLt hF; omega) w.epoch (by simp [hrd])
    exact this

theorem inv_run (w : Writer) (ops : List Op) (h : Inv w) : Inv (w.run ops) := by
  induction ops generalizing w with
  | nil => simpa [Writer.run]
  | cons op ops ih =>
    simp only [Writer.run, List.foldl_cons]
    apply ih
    cases op with
    | write c => exact inv_write w c h
    | flush => exact inv_flush w h

theorem limits_const_decide (w : Writer) :
    w.decideStage.lim.dictByteSizeLimit = w.lim.dictByteSizeLimit ∧
    w.decideStage.lim.frameBitSizeLimit = w.lim.frameBitSizeLimit := by
  unfold Writer.decideStage
  by_cases hA : (w.lim.dictLimitReached || hasRD w.restartFlags) = true
  · simp [hA, Writer.restartFrame, SizeLimiter.resetFrameSize, SizeLimiter.resetDict]
  · by_cases hB : w.lim.frameLimitReached = true
    · simp [hA, hB, Writer.restartFrame, SizeLimiter.resetFrameSize]
    · simp [hA, hB]

theorem limits_const_write (w : Writer) (c : RecCost) :
    (w.write c).lim.dictByteSizeLimit = w.lim.dictByteSizeLimit ∧
    (w.write c).lim.frameBitSizeLimit = w.lim.frameBitSizeLimit := by
  have hl := foldl_add_limit c.dictAdds w.lim
  have hd := limits_const_decide (w.encodeStage c)
  simp only [Writer.write]
  rw [hd.1, hd.2]
  simp [Writer.encodeStage, SizeLimiter.addFrameBits, hl.1, hl.2.2]

theorem limits_const_run (w : Writer) (ops : List Op) :
    (w.run ops).lim.dictByteSizeLimit = w.lim.dictByteSizeLimit ∧
    (w.run ops).lim.frameBitSizeLimit = w.lim.frameBitSizeLimit := by
  induction ops generalizing w with
  | nil => simp [Writer.run]
  | cons op ops ih =>
    simp only [Writer.run, List.foldl_cons]
    have := ih (w.apply op)
    simp only [Writer.run] at this
    rw [this.1, this.2]
    cases op with
    | write c => exact limits_const_write w c
    | flush =>
      simp only [Writer.apply, Writer.flush]
      split <;> simp [Writer.restartFrame, SizeLimiter.resetFrameSize]

end Stef.Limiter
