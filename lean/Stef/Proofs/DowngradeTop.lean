/-
  Stef.Proofs.DowngradeTop: the downgrade writer of the model (`downgradeStream`) and the
  record-level theorems about it (restated in Props/C04Down).
-/
import Stef.Proofs.DowngradeStream
import Stef.Proofs.DowngradeRestrict

namespace Stef.Proofs.Downgrade
open Stef Stef.Spec Stef.Proofs.Override Stef.Proofs.Forward
open Stef.SpecEnc (Mk Ev FrameIn rootMask)

/-- **the downgrade writer**: a writer for schema B asked to write in schema A. It announces A's own
    descriptor, builds its column tree under that descriptor (`mkNode B .. {override := wire A}`),
    starts from B's initial record, keeps B-shaped previous values and struct-dictionary entries,
    and encodes the history as it sees it through A's field counts (`restrictIns`). -/
def downgradeStream (A B : Schema) (root : String) (insB : List FrameIn) : Option (Bytes × List (List St)) :=
  match mkNode A 200 [] (.ref root) {} with
  | .error _ => none
  | .ok (_, bA) => encodeStreamWith B root (wireOf bA) (restrictIns A root insB)

/-- the records of a history, in order -/
def historyRecs (ins : List FrameIn) : List (St × Mk) := ins.flatMap (·.recs)

theorem restrictIns_values (A : Schema) (root : String) (insB : List FrameIn) :
    ((restrictIns A root insB).map (fun fr => fr.recs.map (·.1))).flatten =
      (historyRecs insB).map (fun r => restrict A (.ref root) r.1) := by
  induction insB with
  | nil => rfl
  | cons fr rest ih =>
    simp only [restrictIns, List.map_cons, List.flatten_cons, historyRecs, List.flatMap_cons, List.map_append] at ih ⊢
    rw [ih]
    simp [restrictRec]

theorem rootMask_restrictMk (A : Schema) (root : String) (d : Option String) (fa : List Field)
    (h : A.find root = some (.struct d fa)) (v : St) (mk : Mk) :
    rootMask (restrictMk A (.ref root) v mk) = rootMask mk % 2 ^ fa.length := by
  cases mk with
  | struct mask subs => rw [restrictMk, h]; rfl
  | ref r => simp [restrictMk, rootMask]
  | leaf => simp [restrictMk, rootMask]
  | oneof sub =>
    rw [restrictMk]
    all_goals simp [rootMask, h]
  | arr subs => simp [restrictMk, rootMask]
  | mmapSame => simp [restrictMk, rootMask]
  | mmapFull subs => rw [restrictMk, h]; simp [rootMask]
  | mmapVals c subs => rw [restrictMk, h]; simp [rootMask]

theorem restrictIns_masks (A : Schema) (root : String) (d : Option String) (fa : List Field)
    (h : A.find root = some (.struct d fa)) (insB : List FrameIn) :
    (restrictIns A root insB).flatMap (fun fr => fr.recs.map (fun r => rootMask r.2)) =
      (historyRecs insB).map (fun r => rootMask r.2 % 2 ^ fa.length) := by
  induction insB with
  | nil => rfl
  | cons fr rest ih =>
    simp only [restrictIns, List.map_cons, List.flatMap_cons, historyRecs, List.map_append] at ih ⊢
    rw [ih]
    simp [restrictRec, rootMask_restrictMk A root d fa h]

/-- a reader accepts its own descriptor, consumes it exactly and builds its own tree (`Props.C04.own_descriptor_exact`) -/
theorem own_desc (A : Schema) (fuel : Nat) (ty : Ty) (node : Node) (b : Build)
    (h : mkNode A fuel [] ty {} = .ok (node, b)) :
    mkNode A fuel [] ty { override := some (wireOf b) } = .ok (node, { b with override := some [] }) := by
  obtain ⟨new, hk, _, hrun⟩ := (own_all A fuel).1 [] ty {} (node, b) rfl h
  have hnew : new = b.known := by simpa using hk.symm
  subst hnew
  have := hrun []
  simp only [List.append_nil] at this
  exact this

section
variable {A B : Schema} (hAB : SchemaLe A B) (hC : Closed A) (hD : DictInj A)
include hAB hC hD

theorem downgrade_records_main (root : String) (insB : List FrameIn) (bytes : Bytes) (effssB : List (List St))
    (h : downgradeStream A B root insB = some (bytes, effssB)) :
    ∃ nodeA bA effssA,
      mkNode A 200 [] (.ref root) {} = .ok (nodeA, bA) ∧
      encodeStreamWith A root (wireOf bA) (restrictIns A root insB) = some (bytes, effssA) ∧
      (decodeStream A root bytes).error = none ∧
      (decodeStream A root bytes).header.wireCounts = some (wireOf bA) ∧
      (decodeStream A root bytes).records.map (·.2) = effssA.flatten ∧
      (decodeStream A root bytes).dictViolations = 0 ∧
      ExtL effssA.flatten effssB.flatten ∧
      (decodeStream B root bytes).error = none ∧
      (decodeStream B root bytes).records.map (·.2) = effssB.flatten := by
  unfold downgradeStream at h
  split at h
  · simp at h
  · rename_i nodeA bA hmk
    have hown := own_desc A 200 (.ref root) nodeA bA hmk
    obtain ⟨effssA, hA, hrel⟩ := downgrade_stream hAB hC hD root (wireOf bA) (restrictIns A root insB) bytes effssB _ hown h
    obtain ⟨a1, a2, a3, a4⟩ := stream_roundtrip_with A root (wireOf bA) _ bytes effssA hA
    obtain ⟨b1, b2, _, _⟩ := stream_roundtrip_with B root (wireOf bA) _ bytes effssB h
    exact ⟨nodeA, bA, effssA, hmk, hA, a1, a4, a2, a3, f2_krel_extL (f2_flatten hrel), b1, b2⟩

theorem downgrade_masks_main (root : String) (fa : List Field) (hroot : A.find root = some (.struct none fa))
    (insB : List FrameIn) (bytes : Bytes) (effssB : List (List St))
    (h : downgradeStream A B root insB = some (bytes, effssB)) :
    (decodeStream A root bytes).records.map (·.1) = (historyRecs insB).map (fun r => rootMask r.2 % 2 ^ fa.length) := by
  obtain ⟨nodeA, bA, effssA, _, hA, _⟩ := downgrade_records_main hAB hC hD root insB bytes effssB h
  rw [stream_masks_with A root (wireOf bA) _ bytes effssA fa hroot hA]
  exact restrictIns_masks A root none fa hroot insB

end

end Stef.Proofs.Downgrade
