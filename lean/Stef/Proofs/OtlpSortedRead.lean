/-
  The sorting STEF -> OTLP reader (sortedbyresource): whatever the records are, if each one reads
  as a data point and its keys are 64-bit typed, the batch the reader builds holds exactly those
  data points (as a multiset).
-/
import Stef.Proofs.OtlpSortedWrite

namespace Stef.Otlp

/-! ### reading depends on the logical content only -/

theorem metricToOtlp_congr {m m' : SMetric} (h : m.vis = m'.vis) : metricToOtlp m = metricToOtlp m' := by
  simp only [SMetric.vis, Prod.mk.injEq] at h
  obtain ⟨h1, h2, h3, h4, h5, _, h7, h8⟩ := h
  simp only [metricToOtlp, h1, h2, h3, h4, toOtlp_congr h5, h7, h8]

theorem pointToOtlp_congr' (t : MType) (m m' : SMetric) (a a' : SAttrs) (p p' : SPoint) (hb : m.bounds = m'.bounds)
    (ha : a.visible = a'.visible) (hs : p.start = p'.start) (hts : p.ts = p'.ts) (hv : p.value = p'.value)
    (he : exemplarsToOtlp p.exemplars = exemplarsToOtlp p'.exemplars) :
    pointToOtlp t m a p = pointToOtlp t m' a' p' := by
  simp only [pointToOtlp, hb, toOtlp_congr ha, hs, hts, hv, he]

theorem pointOfRecord_ok {r : SRecord} {d : DataPoint} (h : pointOfRecord r = .ok d) :
    ∃ m q, metricToOtlp r.metric = .ok m ∧ pointToOtlp m.type r.metric r.attrs r.point = .ok q ∧
      d = dataPoint r.resource.id r.scope.id m q := by
  simp only [pointOfRecord] at h
  split at h
  · simp at h
  · rename_i m hm
    split at h
    · simp at h
    · rename_i q hq
      exact ⟨m, q, hm, hq, by simpa using h.symm⟩

/-! ### tree entries -/

abbrev REntry := ResKey × ScopeKey × MetricKey × KVs × SPoint

/-- the data point ToOtlp makes of a point filed under metric key `mk` and attributes `ak` -/
def readEntry (rid : ResId) (sid : ScopeId) (mk : MetricKey) (ak : KVs) (p : SPoint) : Except String DataPoint :=
  match metricToOtlp mk.toS with
  | .error e => .error e
  | .ok m => (pointToOtlp m.type mk.toS (SAttrs.copyFrom ak {}) p).map (dataPoint rid sid m)

def rentryPoint (e : REntry) : Except String DataPoint :=
  readEntry e.1.toS.id e.2.1.toS.id e.2.2.1 e.2.2.2.1 e.2.2.2.2

/-- the entry a record is filed as (`Point.CopyFrom` into a new point) -/
def entryOf (r : SRecord) : REntry :=
  (r.resource.key, r.scope.key, r.metric.key, r.attrs.visible, copyPointInto r.point {})

theorem metricKey_vis (m : SMetric) : m.key.toS.vis = m.vis := by
  simp [SMetric.vis, SMetric.key, MetricKey.toS, copyFrom_spec]

theorem resKey_id (r : SResource) : r.key.toS.id = r.id := by
  simp only [SResource.id, SResource.key, ResKey.toS, toOtlp_congr (copyFrom_spec r.attrs.visible {})]

theorem scopeKey_id (s : SScope) : s.key.toS.id = s.id := by
  simp only [SScope.id, SScope.key, ScopeKey.toS, toOtlp_congr (copyFrom_spec s.attrs.visible {})]

theorem pointToOtlp_entryOf (t : MType) (r : SRecord) (hwf : r.point.wf) :
    pointToOtlp t r.metric.key.toS (SAttrs.copyFrom r.attrs.visible {}) (copyPointInto r.point {})
      = pointToOtlp t r.metric r.attrs r.point :=
  pointToOtlp_congr' t _ _ _ _ _ _ rfl (copyFrom_spec _ _) rfl rfl
    (show (copyPointInto r.point {}).value = r.point.value from copyPointValue_eq r.point.value ({} : SPoint).value)
    (copyPointInto_exemplars _ _ hwf)

/-- filing a record and reading the entry gives what reading the record gives -/
theorem entryOf_point (r : SRecord) (hwf : r.point.wf) : rentryPoint (entryOf r) = pointOfRecord r := by
  simp only [rentryPoint, entryOf, readEntry, pointOfRecord, metricToOtlp_congr (metricKey_vis r.metric), resKey_id,
    scopeKey_id]
  cases hm : metricToOtlp r.metric with
  | error e => rfl
  | ok m =>
    simp only []
    rw [pointToOtlp_entryOf m.type r hwf]
    cases pointToOtlp m.type r.metric r.attrs r.point <;> rfl

/-! ### the tree after filing typed, readable records -/

/-- the keys of the record are 64-bit typed and its exemplar array is backed -/
def RecTyped (r : SRecord) : Prop :=
  r.resource.key.b64 ∧ r.scope.key.b64 ∧ r.metric.key.b64 ∧ r.attrs.visible.b64 = true ∧ r.point.wf

def RLeavesOK (mk : MetricKey) (al : RAttrLeaves) : Prop :=
  ∃ m, metricToOtlp mk.toS = .ok m ∧
    AllKV (fun k : KVs => k.b64 = true)
      (fun ak pts => ∀ p ∈ pts, ∃ q, pointToOtlp m.type mk.toS (SAttrs.copyFrom ak {}) p = .ok q) al
def RMetOK (ml : RMetricLevel) : Prop := AllKV MetricKey.b64 RLeavesOK ml
def RScopeOK (sl : RScopeLevel) : Prop := AllKV ScopeKey.b64 (fun _ => RMetOK) sl
/-- every key is 64-bit typed, every metric key converts and every point under it converts -/
def RTreeOK (t : RResTree) : Prop := AllKV ResKey.b64 (fun _ => RScopeOK) t

def rflat (t : RResTree) : List REntry := flatKV (flatKV (flatKV (flatKV id))) t

theorem rtreeAdd_flat (r : SRecord) (t : RResTree) (ht : RTreeOK t) (hty : RecTyped r)
    (hd : ∃ d, pointOfRecord r = .ok d) :
    RTreeOK (rtreeAdd r t) ∧ (rflat (rtreeAdd r t)).Perm (entryOf r :: rflat t) := by
  obtain ⟨d, hd⟩ := hd
  obtain ⟨m0, q0, hm0, hq0, _⟩ := pointOfRecord_ok hd
  obtain ⟨hrk, hsk, hmk, hak, hwf⟩ := hty
  have hm0' : metricToOtlp r.metric.key.toS = .ok m0 := by
    rw [metricToOtlp_congr (metricKey_vis r.metric)]; exact hm0
  have hq0' : pointToOtlp m0.type r.metric.key.toS (SAttrs.copyFrom r.attrs.visible {}) (copyPointInto r.point {}) = .ok q0 := by
    rw [pointToOtlp_entryOf m0.type r hwf]; exact hq0
  unfold rtreeAdd RTreeOK rflat entryOf
  refine treeUpsert_flat cmpResource r.resource.key (fun _ => []) _ (flatKV (flatKV (flatKV id)))
    (r.scope.key, r.metric.key, r.attrs.visible, copyPointInto r.point {}) ResKey.b64 (fun _ => RScopeOK)
    cmpResource_eq hrk AllKV_nil rfl ?_ t ht
  intro sl hsl
  refine treeUpsert_flat cmpScope r.scope.key (fun _ => []) _ (flatKV (flatKV id))
    (r.metric.key, r.attrs.visible, copyPointInto r.point {}) ScopeKey.b64 (fun _ => RMetOK)
    cmpScope_eq hsk AllKV_nil rfl ?_ sl hsl
  intro ml hml
  refine treeUpsert_flat cmpMetric r.metric.key (fun _ => []) _ (flatKV id)
    (r.attrs.visible, copyPointInto r.point {}) MetricKey.b64 RLeavesOK
    cmpMetric_eq hmk ⟨m0, hm0', AllKV_nil⟩ rfl ?_ ml hml
  intro al hal
  obtain ⟨m, hm, hal⟩ := hal
  have hmm : m = m0 := by
    rw [hm0'] at hm
    exact (Except.ok.inj hm).symm
  subst hmm
  have h := treeUpsert_flat cmpKVs r.attrs.visible (fun _ => []) (fun pts => pts ++ [copyPointInto r.point {}]) id
    (copyPointInto r.point {}) (fun k : KVs => k.b64 = true)
    (fun ak pts => ∀ p ∈ pts, ∃ q, pointToOtlp m.type r.metric.key.toS (SAttrs.copyFrom ak {}) p = .ok q)
    (fun a c ha hc h => cmpKVs_eq a c ha hc h) hak (by simp) rfl
    (by
      intro pts hpts
      refine ⟨?_, by simpa using List.perm_append_comm⟩
      intro p hp
      rcases List.mem_append.mp hp with h | h
      · exact hpts p h
      · simp only [List.mem_singleton] at h
        subst h
        exact ⟨q0, hq0'⟩) al hal
  exact ⟨⟨m, hm, h.1⟩, h.2⟩

theorem rtree_fold : ∀ (recs : List SRecord) (t : RResTree), RTreeOK t →
    (∀ r ∈ recs, RecTyped r ∧ ∃ d, pointOfRecord r = .ok d) →
    RTreeOK (recs.foldl (fun t r => rtreeAdd r t) t) ∧
      (rflat (recs.foldl (fun t r => rtreeAdd r t) t)).Perm (recs.map entryOf ++ rflat t)
  | [], t, ht, _ => ⟨ht, by simp⟩
  | r :: rs, t, ht, h => by
    have h1 := rtreeAdd_flat r t ht (h r (by simp)).1 (h r (by simp)).2
    have ih := rtree_fold rs (rtreeAdd r t) h1.1 (fun x hx => h x (by simp [hx]))
    refine ⟨ih.1, ?_⟩
    simp only [List.foldl_cons, List.map_cons, List.cons_append]
    exact (ih.2.trans (h1.2.append_left _)).trans List.perm_middle

/-! ### ToOtlp -/

theorem pointsToOtlp_spec (t : MType) (m : SMetric) (a : SAttrs) : ∀ (pts : List SPoint),
    (∀ p ∈ pts, ∃ q, pointToOtlp t m a p = .ok q) →
    ∃ qs, pointsToOtlp t m a pts = .ok qs ∧ qs.map Except.ok = pts.map (pointToOtlp t m a)
  | [], _ => ⟨[], rfl, rfl⟩
  | p :: ps, h => by
    obtain ⟨q, hq⟩ := h p (by simp)
    obtain ⟨qs, h1, h2⟩ := pointsToOtlp_spec t m a ps (fun x hx => h x (by simp [hx]))
    exact ⟨q :: qs, by simp [pointsToOtlp, hq, h1], by simp [hq, h2]⟩

theorem leavesToOtlp_spec (t : MType) (m : SMetric) : ∀ (al : RAttrLeaves),
    AllKV (fun k : KVs => k.b64 = true)
      (fun ak pts => ∀ p ∈ pts, ∃ q, pointToOtlp t m (SAttrs.copyFrom ak {}) p = .ok q) al →
    ∃ qs, leavesToOtlp t m al = .ok qs ∧
      qs.map Except.ok = (flatKV id al).map (fun x => pointToOtlp t m (SAttrs.copyFrom x.1 {}) x.2)
  | [], _ => ⟨[], rfl, rfl⟩
  | (ak, pts) :: rest, h => by
    have h' := AllKV_cons.mp h
    obtain ⟨qs, h1, h2⟩ := pointsToOtlp_spec t m (SAttrs.copyFrom ak {}) pts h'.1.2
    obtain ⟨qs', k1, k2⟩ := leavesToOtlp_spec t m rest h'.2
    refine ⟨qs ++ qs', by simp [leavesToOtlp, h1, k1], ?_⟩
    rw [flatKV_cons, List.map_append, List.map_append, h2, k2, List.map_map]
    rfl

theorem metricsLevelToOtlp_spec : ∀ (ml : RMetricLevel), RMetOK ml →
    ∃ ms, metricsLevelToOtlp ml = .ok ms ∧ ∀ rid sid,
      ((ms.map (flattenMetric rid sid)).flatten).map Except.ok
        = (flatKV (flatKV id) ml).map (fun x => readEntry rid sid x.1 x.2.1 x.2.2)
  | [], _ => ⟨[], rfl, fun _ _ => rfl⟩
  | (mk, al) :: rest, h => by
    have h' := AllKV_cons.mp h
    obtain ⟨m, hm, hal⟩ := h'.1.2
    obtain ⟨qs, h1, h2⟩ := leavesToOtlp_spec m.type mk.toS al hal
    obtain ⟨ms, k1, k2⟩ := metricsLevelToOtlp_spec rest h'.2
    refine ⟨{ m with points := qs } :: ms, by simp [metricsLevelToOtlp, hm, h1, k1], ?_⟩
    intro rid sid
    rw [flatKV_cons, List.map_cons, List.flatten_cons, List.map_append, List.map_append, k2 rid sid, List.map_map]
    congr 1
    have e1 : (flattenMetric rid sid { m with points := qs }).map (Except.ok : DataPoint → Except String DataPoint)
        = (qs.map (Except.ok : Point → Except String Point)).map (Except.map (dataPoint rid sid m)) := by
      simp [flattenMetric, List.map_map, Function.comp_def, Except.map, dataPoint, metricId]
    rw [e1, h2, List.map_map]
    apply List.map_congr_left
    intro x _
    simp [readEntry, hm]

theorem scopesLevelToOtlp_spec : ∀ (sl : RScopeLevel), RScopeOK sl →
    ∃ ss, scopesLevelToOtlp sl = .ok ss ∧ ∀ rid,
      ((ss.map (flattenScope rid)).flatten).map Except.ok
        = (flatKV (flatKV (flatKV id)) sl).map (fun x => readEntry rid x.1.toS.id x.2.1 x.2.2.1 x.2.2.2)
  | [], _ => ⟨[], rfl, fun _ => rfl⟩
  | (sk, ml) :: rest, h => by
    have h' := AllKV_cons.mp h
    obtain ⟨ms, h1, h2⟩ := metricsLevelToOtlp_spec ml h'.1.2
    obtain ⟨ss, k1, k2⟩ := scopesLevelToOtlp_spec rest h'.2
    refine ⟨{ scopeToOtlp sk.toS with metrics := ms } :: ss, by simp [scopesLevelToOtlp, h1, k1], ?_⟩
    intro rid
    rw [flatKV_cons, List.map_cons, List.flatten_cons, List.map_append, List.map_append, k2 rid, List.map_map]
    congr 1
    have e1 : flattenScope rid { scopeToOtlp sk.toS with metrics := ms }
        = (ms.map (flattenMetric rid sk.toS.id)).flatten := rfl
    rw [e1, h2 rid sk.toS.id]
    rfl

theorem resTreeToOtlp_spec : ∀ (t : RResTree), RTreeOK t →
    ∃ rs, resTreeToOtlp t = .ok rs ∧
      ((rs.map flattenResource).flatten).map Except.ok = (rflat t).map rentryPoint
  | [], _ => ⟨[], rfl, rfl⟩
  | (rk, sl) :: rest, h => by
    have h' := AllKV_cons.mp h
    obtain ⟨ss, h1, h2⟩ := scopesLevelToOtlp_spec sl h'.1.2
    obtain ⟨rs, k1, k2⟩ := resTreeToOtlp_spec rest h'.2
    refine ⟨{ resourceToOtlp rk.toS with scopes := ss } :: rs, by simp [resTreeToOtlp, h1, k1], ?_⟩
    unfold rflat at k2 ⊢
    rw [flatKV_cons, List.map_cons, List.flatten_cons, List.map_append, List.map_append, k2, List.map_map]
    congr 1
    have e1 : flattenResource { resourceToOtlp rk.toS with scopes := ss }
        = (ss.map (flattenScope rk.toS.id)).flatten := rfl
    rw [e1, h2 rk.toS.id]
    rfl

theorem map_ok_inj {α ε : Type} : ∀ (l l' : List α), l.map (Except.ok : α → Except ε α) = l'.map Except.ok → l = l'
  | [], [], _ => rfl
  | [], _ :: _, h => by simp at h
  | _ :: _, [], h => by simp at h
  | a :: l, b :: l', h => by
    simp only [List.map_cons, List.cons.injEq] at h
    rw [Except.ok.inj h.1, map_ok_inj l l' h.2]

/-- The sorting reader: if every record reads as a data point and is typed, `Convert` succeeds and
    the batch it returns has exactly those data points, as a multiset. -/
theorem stefToOtlpSorted_flatten (recs : List SRecord) (ds : List DataPoint)
    (h : recs.map pointOfRecord = ds.map Except.ok) (hty : ∀ r ∈ recs, RecTyped r) :
    ∃ m, stefToOtlpSorted recs = .ok m ∧ (flatten m).Perm ds := by
  have hread : ∀ r ∈ recs, ∃ d, pointOfRecord r = .ok d := by
    intro r hr
    have : pointOfRecord r ∈ ds.map Except.ok := by rw [← h]; exact List.mem_map_of_mem hr
    obtain ⟨d, _, hd⟩ := List.mem_map.mp this
    exact ⟨d, hd.symm⟩
  have hf := rtree_fold recs [] AllKV_nil (fun r hr => ⟨hty r hr, hread r hr⟩)
  obtain ⟨rs, h1, h2⟩ := resTreeToOtlp_spec _ hf.1
  refine ⟨{ rms := rs }, by simp [stefToOtlpSorted, h1], ?_⟩
  have hp : ((flatten { rms := rs }).map Except.ok).Perm (ds.map (Except.ok : DataPoint → Except String DataPoint)) := by
    show (((rs.map flattenResource).flatten).map Except.ok).Perm _
    rw [h2, ← h]
    have e : recs.map pointOfRecord = (recs.map entryOf).map rentryPoint := by
      rw [List.map_map]
      apply List.map_congr_left
      intro r hr
      exact (entryOf_point r (hty r hr).2.2.2.2).symm
    rw [e]
    have := hf.2
    simp only [rflat, flatKV_nil, List.append_nil] at this
    exact this.map rentryPoint
  obtain ⟨ds', e, hp'⟩ := perm_map_inv Except.ok ds _ hp
  rw [map_ok_inj _ _ e]
  exact hp'

end Stef.Otlp
