/-
  Stef.Proofs.ForwardNode: the simulation of `Spec.decodeNode` (and of the four list decoders)
  for two schemas A ≼ B over the same column tree: related previous values and related decoder
  states give related results (`sim_all`).
-/
import Stef.Proofs.ForwardTree

namespace Stef.Proofs.Forward
open Stef Stef.Spec Stef.Proofs.Override

/-! ## decoder states: equal except for the struct dictionaries, whose entries are related -/

def withT (ds : DS) (t : List (String × List (Option St))) : DS := { ds with tdict := t }

/-- entries of the struct dictionary `dn`: related as values of every struct that uses `dn` -/
def OptRel (A : Schema) (dn : String) : Option St → Option St → Prop
  | none, none => True
  | some a, some b => ∀ name fs, A.find name = some (.struct (some dn) fs) → KRel A name a b
  | _, _ => False

inductive DictRel (A : Schema) : List (String × List (Option St)) → List (String × List (Option St)) → Prop
  | nil : DictRel A [] []
  | cons (n : String) (la lb : List (Option St)) (ta tb : List (String × List (Option St))) :
      F2 (OptRel A n) la lb → DictRel A ta tb → DictRel A ((n, la) :: ta) ((n, lb) :: tb)

def DSRel (A : Schema) (a b : DS) : Prop := ∃ t, b = withT a t ∧ DictRel A a.tdict t

theorem lookupDict_rel {A : Schema} (dn : String) {ta tb : List (String × List (Option St))} (h : DictRel A ta tb) :
    F2 (OptRel A dn) (lookupDict ta dn) (lookupDict tb dn) := by
  induction h with
  | nil => exact F2.nil
  | cons n la lb ta tb hl _ ih =>
    by_cases hn : n = dn
    · subst hn
      simpa [lookupDict, List.find?] using hl
    · simpa [lookupDict, List.find?, hn] using ih

theorem dictRel_any {A : Schema} (dn : String) {ta tb : List (String × List (Option St))} (h : DictRel A ta tb) :
    ta.any (·.1 = dn) = tb.any (·.1 = dn) := by
  induction h with
  | nil => rfl
  | cons n la lb ta tb _ _ ih => simp [List.any, ih]

theorem dictRel_map {A : Schema} (dn : String) {la lb : List (Option St)} (hl : F2 (OptRel A dn) la lb)
    {ta tb : List (String × List (Option St))} (h : DictRel A ta tb) :
    DictRel A (ta.map (fun p => if p.1 = dn then (dn, la) else p)) (tb.map (fun p => if p.1 = dn then (dn, lb) else p)) := by
  induction h with
  | nil => exact DictRel.nil
  | cons n la' lb' ta tb hl' _ ih =>
    simp only [List.map_cons]
    by_cases hn : n = dn
    · simp only [hn, if_true]
      exact DictRel.cons dn la lb _ _ hl ih
    · simp only [hn, if_false]
      exact DictRel.cons n la' lb' _ _ hl' ih

theorem setDict_rel {A : Schema} (dn : String) {la lb : List (Option St)} (hl : F2 (OptRel A dn) la lb)
    {ta tb : List (String × List (Option St))} (h : DictRel A ta tb) :
    DictRel A (setDict ta dn la) (setDict tb dn lb) := by
  unfold setDict
  rw [dictRel_any dn h]
  split
  · exact dictRel_map dn hl h
  · exact DictRel.cons dn la lb _ _ hl h

/-! ## primitives do not look at the struct dictionaries -/

theorem decodePrim_withT (col : Nat) (p : Prim) (d : Option String) (ds : DS) (t : List (String × List (Option St)))
    (v : St) (ds' : DS) (h : decodePrim col p d ds = .ok (v, ds')) :
    decodePrim col p d (withT ds t) = .ok (v, withT ds' t) ∧ ds'.tdict = ds.tdict ∧ Ext v v := by
  have hcol : (withT ds t).col col = ds.col col := rfl
  have hsd : (withT ds t).sdict = ds.sdict := rfl
  cases p with
  | bool =>
    simp only [decodePrim, hcol] at h ⊢
    split at h
    · cases h
    · rename_i b rest hb
      injection h with h; injection h with h1 h2; subst h1; subst h2
      exact ⟨rfl, rfl, Ext.b _⟩
  | i64 =>
    simp only [decodePrim, hcol] at h ⊢
    obtain ⟨x, hx, h2⟩ := bind_ok _ _ _ h
    injection h2 with h2; injection h2 with h1 h2; subst h1; subst h2
    simp only [hx, bind, Except.bind]
    exact ⟨rfl, rfl, Ext.i _⟩
  | u64 =>
    simp only [decodePrim, hcol] at h ⊢
    obtain ⟨x, hx, h2⟩ := bind_ok _ _ _ h
    injection h2 with h2; injection h2 with h1 h2; subst h1; subst h2
    simp only [hx, bind, Except.bind]
    exact ⟨rfl, rfl, Ext.i _⟩
  | f64 =>
    simp only [decodePrim, hcol] at h ⊢
    obtain ⟨x, hx, h2⟩ := bind_ok _ _ _ h
    injection h2 with h2; injection h2 with h1 h2; subst h1; subst h2
    simp only [hx, bind, Except.bind]
    exact ⟨rfl, rfl, Ext.f _⟩
  | str =>
    simp only [decodePrim, hcol, hsd] at h ⊢
    obtain ⟨x, hx, h2⟩ := bind_ok _ _ _ h
    simp only [hx, bind, Except.bind] at h2 ⊢
    by_cases hm : x.1.msb = true
    · simp only [hm, if_true] at h2 ⊢
      cases d with
      | none => cases h2
      | some dn =>
        simp only at h2 ⊢
        split at h2
        · cases h2
        · rename_i w hw
          injection h2 with h2; injection h2 with h1 h2; subst h1; subst h2
          try simp only [hw]
          exact ⟨rfl, rfl, Ext.s _⟩
    · simp only [hm] at h2 ⊢
      cases hy : needBytes (takeBytes x.1.toNat x.2 []) with
      | error e => simp [hy] at h2
      | ok y =>
        simp only [hy] at h2 ⊢
        cases d with
        | none =>
          simp only at h2 ⊢
          injection h2 with h2; injection h2 with h1 h2; subst h1; subst h2
          exact ⟨rfl, rfl, Ext.s _⟩
        | some dn =>
          simp only at h2 ⊢
          by_cases hl : y.1.length ≥ 2
          · simp only [hl, if_true] at h2 ⊢
            injection h2 with h2; injection h2 with h1 h2; subst h1; subst h2
            exact ⟨rfl, rfl, Ext.s _⟩
          · simp only [hl, if_false] at h2 ⊢
            injection h2 with h2; injection h2 with h1 h2; subst h1; subst h2
            exact ⟨rfl, rfl, Ext.s _⟩
  | byts =>
    simp only [decodePrim, hcol, hsd] at h ⊢
    obtain ⟨x, hx, h2⟩ := bind_ok _ _ _ h
    simp only [hx, bind, Except.bind] at h2 ⊢
    by_cases hm : x.1.msb = true
    · simp only [hm, if_true] at h2 ⊢
      cases d with
      | none => cases h2
      | some dn =>
        simp only at h2 ⊢
        split at h2
        · cases h2
        · rename_i w hw
          injection h2 with h2; injection h2 with h1 h2; subst h1; subst h2
          try simp only [hw]
          exact ⟨rfl, rfl, Ext.s _⟩
    · simp only [hm] at h2 ⊢
      cases hy : needBytes (takeBytes x.1.toNat x.2 []) with
      | error e => simp [hy] at h2
      | ok y =>
        simp only [hy] at h2 ⊢
        cases d with
        | none =>
          simp only at h2 ⊢
          injection h2 with h2; injection h2 with h1 h2; subst h1; subst h2
          exact ⟨rfl, rfl, Ext.s _⟩
        | some dn =>
          simp only at h2 ⊢
          by_cases hl : y.1.length ≥ 2
          · simp only [hl, if_true] at h2 ⊢
            injection h2 with h2; injection h2 with h1 h2; subst h1; subst h2
            exact ⟨rfl, rfl, Ext.s _⟩
          · simp only [hl, if_false] at h2 ⊢
            injection h2 with h2; injection h2 with h1 h2; subst h1; subst h2
            exact ⟨rfl, rfl, Ext.s _⟩

/-! ## unfolding lemmas (as in Proofs/SpecEncNode, restated here so that this file only needs `Spec`) -/

def isPrimNode : Node → Bool
  | .prim _ _ _ => true
  | _ => false

def elemPrev (σ : Schema) (ety : Ty) : List St → St
  | o :: _ => o
  | [] => initSt σ initFuel ety

def pairPrev (σ : Schema) (kty vty : Ty) : List (St × St) → St × St
  | o :: _ => o
  | [] => (initSt σ initFuel kty, initSt σ initFuel vty)

theorem decodeFields_cons (σ : Schema) (fuel : Nat) (env : List (String × Node)) (opt : Bool) (n : Node)
    (rest : List (Bool × Node)) (idx optIdx mask pres prevPres : Nat) (cur : List St) (ds : DS) :
    decodeFields σ (fuel+1) env ((opt,n)::rest) idx optIdx mask pres prevPres cur ds =
    (do
      let prev0 := cur.headD (.oneof 0 none)
      let prev := if opt && !isPrimNode n && !(prevPres.testBit optIdx) then altInit σ n else prev0
      let (v, ds) ← if mask.testBit idx && (!opt || pres.testBit optIdx) then decodeNode σ fuel env n prev ds else pure (prev0, ds)
      let (vs, ds) ← decodeFields σ fuel env rest (idx + 1) (if opt then optIdx + 1 else optIdx) mask pres prevPres cur.tail ds
      .ok (v :: vs, ds)) := by
  cases n <;> (simp only [decodeFields, isPrimNode]; try rfl)

theorem decodeElems_succ (σ : Schema) (fuel : Nat) (env : List (String × Node)) (elem : Node) (ety : Ty)
    (n : Nat) (old : List St) (ds : DS) :
    decodeElems σ (fuel + 1) env elem ety (n + 1) old ds =
    (do
      let (v, ds) ← decodeNode σ fuel env elem (elemPrev σ ety old) ds
      let (vs, ds) ← decodeElems σ fuel env elem ety n old.tail ds
      .ok (v :: vs, ds)) := by
  cases old <;> (simp only [decodeElems, elemPrev]; try rfl)

theorem decodePairsFull_succ (σ : Schema) (fuel : Nat) (env : List (String × Node)) (k v : Node) (kty vty : Ty)
    (n : Nat) (old : List (St × St)) (ds : DS) :
    decodePairsFull σ (fuel + 1) env k v kty vty (n + 1) old ds =
    (do
      let pp := pairPrev σ kty vty old
      let (kv, ds) ← decodeNode σ fuel env k pp.1 ds
      let (vv, ds) ← decodeNode σ fuel env v pp.2 ds
      let (rest, ds) ← decodePairsFull σ fuel env k v kty vty n old.tail ds
      .ok ((kv, vv) :: rest, ds)) := by
  cases old with
  | nil => simp only [decodePairsFull, pairPrev]; try rfl
  | cons o os => obtain ⟨a, b⟩ := o; simp only [decodePairsFull, pairPrev]; try rfl

theorem decodeNode_arr (σ : Schema) (fuel : Nat) (env : List (String × Node)) (col : Nat) (key : String) (ety : Ty)
    (elem : Node) (cur : St) (ds : DS) :
    decodeNode σ (fuel + 1) env (.arr col key ety elem) cur ds =
    (do
      let env := (key, Node.arr col key ety elem) :: env
      let c := ds.col col
      let (len, rest) ← needBits (readUvc c.bits)
      let ds := ds.setCol col { c with bits := rest }
      let (es, ds) ← decodeElems σ fuel env elem ety len.toNat (arrElems cur) ds
      .ok (.arr es, ds)) := by
  cases cur <;> (simp only [decodeNode, arrElems]; try rfl)

theorem decodeNode_oneof (σ : Schema) (fuel : Nat) (env : List (String × Node)) (col : Nat) (name : String) (kept : Nat)
    (alts : List Node) (cur : St) (ds : DS) :
    decodeNode σ (fuel + 1) env (.oneof col name kept alts) cur ds =
    (do
      let env := (name, Node.oneof col name kept alts) :: env
      let c := ds.col col
      let (t, rest) ← needBits (readBits (bitLen (kept + 1)) c.bits)
      let ds := ds.setCol col { c with bits := rest }
      let typ := t.toNat
      if typ > kept then .error "invalid-oneof-type"
      else if typ = 0 then .ok (.oneof 0 none, ds)
      else
        match alts[typ - 1]? with
        | none => .error "invalid-oneof-type"
        | some an =>
          let (v, ds) ← decodeNode σ fuel env an (oneofPrev σ an typ cur) ds
          .ok (.oneof typ (some v), ds)) := by
  cases cur with
  | oneof ct val => cases val <;> (simp only [decodeNode, oneofPrev]; try rfl)
  | _ => (simp only [decodeNode, oneofPrev]; try rfl)

theorem decodeNode_mmap (σ : Schema) (fuel : Nat) (env : List (String × Node)) (col : Nat) (name : String) (kty vty : Ty)
    (k v : Node) (cur : St) (ds : DS) :
    decodeNode σ (fuel + 1) env (.mmap col name kty vty k v) cur ds =
    (do
      let env := (name, Node.mmap col name kty vty k v) :: env
      let c := ds.col col
      let (x, rest) ← needBytes (Varint.decode c.bytes)
      let ds := ds.setCol col { c with bytes := rest }
      let old := mmapPairs cur
      if x = 0#64 then .ok (.mmap old, ds)
      else if x.getLsbD 0 then
        let count := (x >>> 1).toNat
        if count ≥ 1024 then .error "multimap-count-limit"
        else do
          let (ps, ds) ← decodePairsFull σ fuel env k v kty vty count old ds
          .ok (.mmap ps, ds)
      else do
        let ds := if old.length > 62 then { ds with dictViolations := ds.dictViolations + 1 } else ds
        let (ps, ds) ← decodeValuesOnly σ fuel env v (x >>> 1).toNat 0 old ds
        .ok (.mmap ps, ds)) := by
  cases cur <;> (simp only [decodeNode, mmapPairs]; try rfl)

theorem decodeNode_struct (σ : Schema) (fuel : Nat) (env : List (String × Node)) (col : Nat) (name : String)
    (dict : Option String) (kept optCount : Nat) (fields : List (Bool × Node)) (cur : St) (ds : DS) :
    decodeNode σ (fuel + 1) env (.struct col name dict kept optCount fields) cur ds =
    (do
      let env := (name, Node.struct col name dict kept optCount fields) :: env
      let c := ds.col col
      let (isRef, c) ← match dict with
        | none => pure (false, c)
        | some _ =>
          match c.bits with
          | [] => throw "eof-bits"
          | b :: rest => pure (!b, { c with bits := rest })
      if isRef then
        let (r, rest) ← needBits (readUvc c.bits)
        let ds := ds.setCol col { c with bits := rest }
        match (lookupDict ds.tdict (dict.getD ""))[r.toNat]? with
        | some (some v) => .ok (v, ds)
        | _ => .error "invalid-refnum"
      else
        let (mask, rest) ← needBits (readBits kept c.bits)
        let (pres, rest) ← needBits (readBits optCount rest)
        let ds := ds.setCol col { c with bits := rest }
        let (newFields, ds) ← decodeFields σ fuel env fields 0 0 mask.toNat pres.toNat (structPres cur) (structFields cur) ds
        let v := St.struct pres.toNat newFields
        match dict with
        | none => .ok (v, ds)
        | some dn =>
          let curD := lookupDict ds.tdict dn
          let curD := if curD.isEmpty then [none] else curD
          .ok (v, { ds with tdict := setDict ds.tdict dn (curD ++ [some v]) })) := by
  cases cur <;> cases dict <;> (simp only [decodeNode, structPres, structFields]; try rfl)

/-! ### the struct decoder in three parts -/

def structHead (dict : Option String) (c : ColSt) : R (Bool × ColSt) :=
  match dict with
  | none => pure (false, c)
  | some _ =>
    match c.bits with
    | [] => throw "eof-bits"
    | b :: rest => pure (!b, { c with bits := rest })

def structRef (dict : Option String) (col : Nat) (c : ColSt) (ds : DS) : R (St × DS) := do
  let (r, rest) ← needBits (readUvc c.bits)
  let ds := ds.setCol col { c with bits := rest }
  match (lookupDict ds.tdict (dict.getD ""))[r.toNat]? with
  | some (some v) => .ok (v, ds)
  | _ => .error "invalid-refnum"

def structStore (dict : Option String) (v : St) (ds : DS) : St × DS :=
  match dict with
  | none => (v, ds)
  | some dn =>
    let curD := lookupDict ds.tdict dn
    let curD := if curD.isEmpty then [none] else curD
    (v, { ds with tdict := setDict ds.tdict dn (curD ++ [some v]) })

def structFull (σ : Schema) (fuel : Nat) (env : List (String × Node)) (fields : List (Bool × Node))
    (dict : Option String) (col kept optCount : Nat) (c : ColSt) (cur : St) (ds : DS) : R (St × DS) := do
  let (mask, rest) ← needBits (readBits kept c.bits)
  let (pres, rest) ← needBits (readBits optCount rest)
  let ds := ds.setCol col { c with bits := rest }
  let (newFields, ds) ← decodeFields σ fuel env fields 0 0 mask.toNat pres.toNat (structPres cur) (structFields cur) ds
  .ok (structStore dict (St.struct pres.toNat newFields) ds)

theorem decodeNode_struct' (σ : Schema) (fuel : Nat) (env : List (String × Node)) (col : Nat) (name : String)
    (dict : Option String) (kept optCount : Nat) (fields : List (Bool × Node)) (cur : St) (ds : DS) :
    decodeNode σ (fuel + 1) env (.struct col name dict kept optCount fields) cur ds =
    (do
      let (isRef, c) ← structHead dict (ds.col col)
      if isRef then structRef dict col c ds
      else structFull σ fuel ((name, Node.struct col name dict kept optCount fields) :: env) fields dict col kept optCount c cur ds) := by
  rw [decodeNode_struct]
  cases dict with
  | none => rfl
  | some dn =>
    cases hb : (ds.col col).bits with
    | nil => simp only [structHead, hb]; rfl
    | cons b rest => simp only [structHead, hb]; rfl

/-! ## the simulation statements, per fuel -/

def EnvOK (A : Schema) (env : List (String × Node)) : Prop :=
  ∀ key e, env.find? (·.1 = key) = some e → NK A key e.2

theorem envOK_nil (A : Schema) : EnvOK A [] := by
  intro key e h
  simp at h

theorem envOK_push {A : Schema} {env : List (String × Node)} {key : String} {n : Node}
    (h : EnvOK A env) (hn : NK A key n) : EnvOK A ((key, n) :: env) := by
  intro k e he
  by_cases hk : key = k
  · subst hk
    simp [List.find?] at he
    subst he
    exact hn
  · simp [List.find?, hk] at he
    exact h k e (by simpa using he)

def SNode (A B : Schema) (f : Nat) : Prop :=
  ∀ env key n ca cb dsa dsb va dsa', EnvOK A env → NK A key n → KRel A key ca cb → DSRel A dsa dsb →
    decodeNode A f env n ca dsa = .ok (va, dsa') →
    ∃ vb dsb', decodeNode B f env n cb dsb = .ok (vb, dsb') ∧ KRel A key va vb ∧ DSRel A dsa' dsb'

def SFields (A B : Schema) (f : Nat) : Prop :=
  ∀ env fs fields idx optIdx mask pres prevPres cura curb dsa dsb outa dsa', EnvOK A env → NKF A fs fields →
    CurRel A fs cura curb → DSRel A dsa dsb →
    decodeFields A f env fields idx optIdx mask pres prevPres cura dsa = .ok (outa, dsa') →
    ∃ outb dsb', decodeFields B f env fields idx optIdx mask pres prevPres curb dsb = .ok (outb, dsb') ∧
      CurRel A fs outa outb ∧ DSRel A dsa' dsb'

def SElems (A B : Schema) (f : Nat) : Prop :=
  ∀ env ek elem ety n olda oldb dsa dsb outa dsa', EnvOK A env → NK A ek elem →
    KRel A ek (initSt A initFuel ety) (initSt B initFuel ety) → ListRel A ek olda oldb → DSRel A dsa dsb →
    decodeElems A f env elem ety n olda dsa = .ok (outa, dsa') →
    ∃ outb dsb', decodeElems B f env elem ety n oldb dsb = .ok (outb, dsb') ∧
      ListRel A ek outa outb ∧ DSRel A dsa' dsb'

def SPairs (A B : Schema) (f : Nat) : Prop :=
  ∀ env kk vk k v kty vty n olda oldb dsa dsb outa dsa', EnvOK A env → NK A kk k → NK A vk v →
    KRel A kk (initSt A initFuel kty) (initSt B initFuel kty) →
    KRel A vk (initSt A initFuel vty) (initSt B initFuel vty) → PairRel A kk vk olda oldb → DSRel A dsa dsb →
    decodePairsFull A f env k v kty vty n olda dsa = .ok (outa, dsa') →
    ∃ outb dsb', decodePairsFull B f env k v kty vty n oldb dsb = .ok (outb, dsb') ∧
      PairRel A kk vk outa outb ∧ DSRel A dsa' dsb'

def SVals (A B : Schema) (f : Nat) : Prop :=
  ∀ env kk vk v changed idx olda oldb dsa dsb outa dsa', EnvOK A env → NK A vk v →
    PairRel A kk vk olda oldb → DSRel A dsa dsb →
    decodeValuesOnly A f env v changed idx olda dsa = .ok (outa, dsa') →
    ∃ outb dsb', decodeValuesOnly B f env v changed idx oldb dsb = .ok (outb, dsb') ∧
      PairRel A kk vk outa outb ∧ DSRel A dsa' dsb'

section steps
variable {A B : Schema} (hAB : SchemaLe A B) (hC : Closed A) (hD : DictInj A)
include hAB hC

theorem fields_step (f : Nat) (hn : SNode A B f) (hf : SFields A B f) : SFields A B (f + 1) := by
  intro env fs fields idx optIdx mask pres prevPres cura curb dsa dsb outa dsa' henv hnk hcur hds h
  cases fields with
  | nil =>
    simp only [decodeFields] at h ⊢
    injection h with h; injection h with h1 h2; subst h1; subst h2
    exact ⟨curb, dsb, rfl, hcur, hds⟩
  | cons fdn rest =>
    obtain ⟨opt, n⟩ := fdn
    cases hnk with
    | cons fd fs' _ _ _ ho hn1 hrest =>
      rw [decodeFields_cons] at h ⊢
      have hp0 : KRel A (tyKey fd.ty) (cura.headD (.oneof 0 none)) (curb.headD (.oneof 0 none)) ∧
          CurRel A fs' cura.tail curb.tail := by
        cases hcur with
        | short => exact ⟨KRel.same _ _ Ext.oneofNone, CurRel.short _⟩
        | cons _ _ a b as bs hab hr => exact ⟨hab, hr⟩
      have hprev : ∀ c : Bool, KRel A (tyKey fd.ty) (if c then altInit A n else cura.headD (.oneof 0 none))
          (if c then altInit B n else curb.headD (.oneof 0 none)) := by
        intro c
        cases c with
        | true => exact altInit_rel hAB hC hn1
        | false => exact hp0.1
      by_cases hc : (mask.testBit idx && (!opt || pres.testBit optIdx)) = true
      · simp only [hc, if_true] at h ⊢
        obtain ⟨⟨v, ds1⟩, h1, h2⟩ := bind_ok _ _ _ h
        simp only at h2
        obtain ⟨⟨vs, ds2⟩, h3, h4⟩ := bind_ok _ _ _ h2
        simp only at h4
        injection h4 with h4; injection h4 with h5 h6; subst h5; subst h6
        obtain ⟨vb, ds1b, hb1, hv, hds1⟩ := hn _ _ _ _ _ _ _ _ _ henv hn1 (hprev _) hds h1
        obtain ⟨vsb, ds2b, hb2, hvs, hds2⟩ := hf _ _ _ _ _ _ _ _ _ _ _ _ _ _ henv hrest hp0.2 hds1 h3
        refine ⟨vb :: vsb, ds2b, ?_, CurRel.cons _ _ _ _ _ _ hv hvs, hds2⟩
        simp only [hb1, bind, Except.bind, hb2]
      · simp only [hc, Bool.false_eq_true, if_false, pure, Except.pure, bind, Except.bind] at h ⊢
        cases h3 : decodeFields A f env rest (idx + 1) (if opt = true then optIdx + 1 else optIdx) mask pres prevPres
            cura.tail dsa with
        | error e => simp [h3] at h
        | ok r =>
          obtain ⟨vs, ds2⟩ := r
          simp only [h3] at h
          injection h with h; injection h with h5 h6; subst h5; subst h6
          obtain ⟨vsb, ds2b, hb2, hvs, hds2⟩ := hf _ _ _ _ _ _ _ _ _ _ _ _ _ _ henv hrest hp0.2 hds h3
          refine ⟨_ :: vsb, ds2b, ?_, CurRel.cons _ _ _ _ _ _ hp0.1 hvs, hds2⟩
          simp only [hb2]

omit hAB hC in
theorem elems_step (f : Nat) (hn : SNode A B f) (he : SElems A B f) : SElems A B (f + 1) := by
  intro env ek elem ety n olda oldb dsa dsb outa dsa' henv hnk hinit hold hds h
  cases n with
  | zero =>
    simp only [decodeElems] at h ⊢
    injection h with h; injection h with h1 h2; subst h1; subst h2
    exact ⟨[], dsb, rfl, ListRel.nil _, hds⟩
  | succ n =>
    rw [decodeElems_succ] at h ⊢
    have hp : KRel A ek (elemPrev A ety olda) (elemPrev B ety oldb) ∧ ListRel A ek olda.tail oldb.tail := by
      cases hold with
      | nil => exact ⟨hinit, ListRel.nil _⟩
      | cons _ a b as bs hab hr => exact ⟨hab, hr⟩
    obtain ⟨⟨v, ds1⟩, h1, h2⟩ := bind_ok _ _ _ h
    simp only at h2
    obtain ⟨⟨vs, ds2⟩, h3, h4⟩ := bind_ok _ _ _ h2
    simp only at h4
    injection h4 with h4; injection h4 with h5 h6; subst h5; subst h6
    obtain ⟨vb, ds1b, hb1, hv, hds1⟩ := hn _ _ _ _ _ _ _ _ _ henv hnk hp.1 hds h1
    obtain ⟨vsb, ds2b, hb2, hvs, hds2⟩ := he _ _ _ _ _ _ _ _ _ _ _ henv hnk hinit hp.2 hds1 h3
    refine ⟨vb :: vsb, ds2b, ?_, ListRel.cons _ _ _ _ _ hv hvs, hds2⟩
    simp only [hb1, bind, Except.bind, hb2]

omit hAB hC in
theorem pairs_step (f : Nat) (hn : SNode A B f) (hp : SPairs A B f) : SPairs A B (f + 1) := by
  intro env kk vk k v kty vty n olda oldb dsa dsb outa dsa' henv hnk hnv hik hiv hold hds h
  cases n with
  | zero =>
    simp only [decodePairsFull] at h ⊢
    injection h with h; injection h with h1 h2; subst h1; subst h2
    exact ⟨[], dsb, rfl, PairRel.nil _ _, hds⟩
  | succ n =>
    rw [decodePairsFull_succ] at h ⊢
    have hpp : KRel A kk (pairPrev A kty vty olda).1 (pairPrev B kty vty oldb).1 ∧
        KRel A vk (pairPrev A kty vty olda).2 (pairPrev B kty vty oldb).2 ∧ PairRel A kk vk olda.tail oldb.tail := by
      cases hold with
      | nil => exact ⟨hik, hiv, PairRel.nil _ _⟩
      | cons _ _ ka va kb vb as bs h1 h2 hr => exact ⟨h1, h2, hr⟩
    simp only at h
    obtain ⟨⟨kv, ds1⟩, h1, h2⟩ := bind_ok _ _ _ h
    simp only at h2
    obtain ⟨⟨vv, ds2⟩, h3, h4⟩ := bind_ok _ _ _ h2
    simp only at h4
    obtain ⟨⟨rs, ds3⟩, h5, h6⟩ := bind_ok _ _ _ h4
    simp only at h6
    injection h6 with h6; injection h6 with h7 h8; subst h7; subst h8
    obtain ⟨kvb, ds1b, hb1, hkv, hds1⟩ := hn _ _ _ _ _ _ _ _ _ henv hnk hpp.1 hds h1
    obtain ⟨vvb, ds2b, hb2, hvv, hds2⟩ := hn _ _ _ _ _ _ _ _ _ henv hnv hpp.2.1 hds1 h3
    obtain ⟨rsb, ds3b, hb3, hrs, hds3⟩ := hp _ _ _ _ _ _ _ _ _ _ _ _ _ _ henv hnk hnv hik hiv hpp.2.2 hds2 h5
    refine ⟨(kvb, vvb) :: rsb, ds3b, ?_, PairRel.cons _ _ _ _ _ _ _ _ hkv hvv hrs, hds3⟩
    simp only [hb1, bind, Except.bind, hb2, hb3]

omit hAB hC in
theorem vals_step (f : Nat) (hn : SNode A B f) (hv : SVals A B f) : SVals A B (f + 1) := by
  intro env kk vk v changed idx olda oldb dsa dsb outa dsa' henv hnv hold hds h
  cases hold with
  | nil =>
    simp only [decodeValuesOnly] at h ⊢
    injection h with h; injection h with h1 h2; subst h1; subst h2
    exact ⟨[], dsb, rfl, PairRel.nil _ _, hds⟩
  | cons _ _ ka va kb vb as bs hk hvv hr =>
    simp only [decodeValuesOnly] at h ⊢
    by_cases hc : (decide (idx < 64) && changed.testBit idx) = true
    · simp only [hc, if_true] at h ⊢
      obtain ⟨⟨v1, ds1⟩, h1, h2⟩ := bind_ok _ _ _ h
      simp only at h2
      obtain ⟨⟨rs, ds2⟩, h3, h4⟩ := bind_ok _ _ _ h2
      simp only at h4
      injection h4 with h4; injection h4 with h5 h6; subst h5; subst h6
      obtain ⟨v1b, ds1b, hb1, hv1, hds1⟩ := hn _ _ _ _ _ _ _ _ _ henv hnv hvv hds h1
      obtain ⟨rsb, ds2b, hb2, hrs, hds2⟩ := hv _ _ _ _ _ _ _ _ _ _ _ _ henv hnv hr hds1 h3
      refine ⟨(kb, v1b) :: rsb, ds2b, ?_, PairRel.cons _ _ _ _ _ _ _ _ hk hv1 hrs, hds2⟩
      simp only [hb1, bind, Except.bind, hb2]
    · simp only [hc, Bool.false_eq_true, if_false, pure, Except.pure, bind, Except.bind] at h ⊢
      cases h3 : decodeValuesOnly A f env v changed (idx + 1) as dsa with
      | error e => simp [h3] at h
      | ok r =>
        obtain ⟨rs, ds2⟩ := r
        simp only [h3] at h
        injection h with h; injection h with h5 h6; subst h5; subst h6
        obtain ⟨rsb, ds2b, hb2, hrs, hds2⟩ := hv _ _ _ _ _ _ _ _ _ _ _ _ henv hnv hr hds h3
        refine ⟨(kb, vb) :: rsb, ds2b, ?_, PairRel.cons _ _ _ _ _ _ _ _ hk hvv hrs, hds2⟩
        simp only [hb2]

omit hAB hC in
theorem F2.isEmpty {α β} {R : α → β → Prop} {l1 : List α} {l2 : List β} (h : F2 R l1 l2) : l1.isEmpty = l2.isEmpty := by
  cases h <;> rfl

omit hAB hC in
theorem structRef_sim (dict : Option String) (col : Nat) (c : ColSt) (dsa : DS) (t : List (String × List (Option St)))
    (va : St) (dsa' : DS) (hdict : DictRel A dsa.tdict t) (h : structRef dict col c dsa = .ok (va, dsa')) :
    ∃ vb, structRef dict col c (withT dsa t) = .ok (vb, withT dsa' t) ∧ dsa'.tdict = dsa.tdict ∧
      OptRel A (dict.getD "") (some va) (some vb) := by
  unfold structRef at h ⊢
  obtain ⟨⟨r, rest⟩, h1, h2⟩ := bind_ok _ _ _ h
  simp only [h1, bind, Except.bind]
  simp only at h2
  have e1 : ∀ x, (dsa.setCol col x).tdict = dsa.tdict := fun _ => rfl
  have e2 : ∀ x, ((withT dsa t).setCol col x).tdict = t := fun _ => rfl
  simp only [e1] at h2
  simp only [e2]
  rcases (lookupDict_rel (dict.getD "") hdict).getElem? r.toNat with ⟨ha, hb⟩ | ⟨a, b, ha, hb, hab⟩
  · simp [ha] at h2
  · cases a with
    | none => simp [ha] at h2
    | some va' =>
      cases b with
      | none => exact absurd hab (by simp [OptRel])
      | some vb =>
        simp only [ha] at h2
        injection h2 with h2; injection h2 with h3 h4; subst h3; subst h4
        simp only [hb]
        exact ⟨vb, rfl, rfl, hab⟩

omit hAB hC in
include hD in
theorem structFull_sim (f : Nat) (hf : SFields A B f) (env' : List (String × Node)) (key : String) (d : Option String)
    (fs : List Field) (fields : List (Bool × Node)) (col kept oc : Nat) (c : ColSt) (ca cb : St) (dsa : DS)
    (t : List (String × List (Option St))) (va : St) (dsa' : DS)
    (henv' : EnvOK A env') (hfind : A.find key = some (.struct d fs)) (hnkf : NKF A fs fields)
    (hcur : KRel A key ca cb) (hdict : DictRel A dsa.tdict t)
    (h : structFull A f env' fields d col kept oc c ca dsa = .ok (va, dsa')) :
    ∃ vb dsb', structFull B f env' fields d col kept oc c cb (withT dsa t) = .ok (vb, dsb') ∧
      KRel A key va vb ∧ DSRel A dsa' dsb' := by
  unfold structFull at h ⊢
  obtain ⟨hpres, hcr⟩ := krel_struct_inv hfind hcur
  obtain ⟨⟨mask, rest⟩, h1, h2⟩ := bind_ok _ _ _ h
  simp only at h2
  obtain ⟨⟨pres, rest2⟩, h3, h4⟩ := bind_ok _ _ _ h2
  simp only at h4
  obtain ⟨⟨nf, ds2⟩, h5, h6⟩ := bind_ok _ _ _ h4
  simp only at h6
  injection h6 with h6
  have hds1 : DSRel A (dsa.setCol col { c with bits := rest2 }) ((withT dsa t).setCol col { c with bits := rest2 }) :=
    ⟨t, rfl, hdict⟩
  obtain ⟨nfb, ds2b, hb, hnf, hds2⟩ := hf _ _ _ _ _ _ _ _ _ _ _ _ _ _ henv' hnkf hcr hds1 h5
  obtain ⟨t2, rfl, hd2⟩ := hds2
  simp only [h1, h3, bind, Except.bind, ← hpres, hb]
  have hv : KRel A key (St.struct pres.toNat nf) (St.struct pres.toNat nfb) := KRel.struct key d fs _ _ _ hfind hnf
  cases d with
  | none =>
    simp only [structStore] at h6 ⊢
    injection h6 with h7 h8; subst h7; subst h8
    exact ⟨_, _, rfl, hv, t2, rfl, hd2⟩
  | some dn =>
    simp only [structStore] at h6 ⊢
    injection h6 with h7 h8; subst h7; subst h8
    refine ⟨_, _, rfl, hv, setDict t2 dn ((if (lookupDict t2 dn).isEmpty then [none] else lookupDict t2 dn) ++
      [some (St.struct pres.toNat nfb)]), rfl, ?_⟩
    have hl := lookupDict_rel dn hd2
    have hcur' : F2 (OptRel A dn) (if (lookupDict ds2.tdict dn).isEmpty then [none] else lookupDict ds2.tdict dn)
        (if (lookupDict t2 dn).isEmpty then [none] else lookupDict t2 dn) := by
      rw [hl.isEmpty]
      split
      · exact F2.cons (by simp [OptRel]) F2.nil
      · exact hl
    have hnew : OptRel A dn (some (St.struct pres.toNat nf)) (some (St.struct pres.toNat nfb)) := by
      intro name' fs' hf'
      have := hD name' key dn fs' fs hf' hfind
      subst this
      exact hv
    exact setDict_rel dn (F2.append hcur' (F2.cons hnew F2.nil)) hd2

omit hAB hC in
theorem pairRel_length {kk vk : String} : ∀ {xa xb : List (St × St)}, PairRel A kk vk xa xb → xa.length = xb.length
  | _, _, .nil _ _ => rfl
  | _, _, .cons _ _ _ _ _ _ _ _ _ _ hr => by simp [pairRel_length hr]

omit hAB hC in
/-- the values-only branch of the multimap decoder counts a specification violation when the
    previous value has more than 62 pairs: the same on both sides (related values have equal length) -/
theorem dsrel_count {dsa : DS} {t : List (String × List (Option St))} (n : Nat)
    (h : DictRel A dsa.tdict t) :
    DSRel A (if n > 62 then { dsa with dictViolations := dsa.dictViolations + 1 } else dsa)
      (if n > 62 then { withT dsa t with dictViolations := (withT dsa t).dictViolations + 1 } else withT dsa t) := by
  by_cases hn : n > 62
  · rw [if_pos hn, if_pos hn]; exact ⟨t, rfl, h⟩
  · rw [if_neg hn, if_neg hn]; exact ⟨t, rfl, h⟩

omit hAB hC in
theorem dsrel_setCol {dsa : DS} {t : List (String × List (Option St))} (col : Nat) (c : ColSt)
    (h : DictRel A dsa.tdict t) : DSRel A (dsa.setCol col c) ((withT dsa t).setCol col c) := ⟨t, rfl, h⟩

include hD in
theorem node_step (f : Nat) (hn : SNode A B f) (hf : SFields A B f) (he : SElems A B f) (hp : SPairs A B f)
    (hv : SVals A B f) : SNode A B (f + 1) := by
  intro env key n ca cb dsa dsb va dsa' henv hnk hcur hds h
  obtain ⟨t, rfl, hdict⟩ := hds
  cases hnk with
  | prim _ col p d =>
    simp only [decodeNode] at h ⊢
    obtain ⟨h1, h2, h3⟩ := decodePrim_withT col p d dsa t va dsa' h
    exact ⟨va, withT dsa' t, h1, KRel.same _ _ h3, t, rfl, h2 ▸ hdict⟩
  | recur _ hr =>
    simp only [decodeNode] at h ⊢
    cases hfind : env.find? (·.1 = key) with
    | none => simp [hfind] at h
    | some e =>
      obtain ⟨k', n'⟩ := e
      simp only [hfind] at h ⊢
      exact hn _ _ _ _ _ _ _ _ _ henv (henv key _ hfind) hcur ⟨t, rfl, hdict⟩ h
  | struct _ col name d kept oc fields fs hk hfind hnkf =>
    subst hk
    rw [decodeNode_struct'] at h ⊢
    have henv' := envOK_push henv (NK.struct key col key d kept oc fields fs rfl hfind hnkf)
    have hcolT : (withT dsa t).col col = dsa.col col := rfl
    rw [hcolT]
    obtain ⟨⟨isRef, c⟩, h1, h2⟩ := bind_ok _ _ _ h
    simp only [h1, bind, Except.bind]
    simp only at h2
    cases isRef with
    | true =>
      simp only [if_true] at h2 ⊢
      obtain ⟨vb, hb, htd, hrel⟩ := structRef_sim d col c dsa t va dsa' hdict h2
      refine ⟨vb, withT dsa' t, hb, ?_, t, rfl, htd ▸ hdict⟩
      cases d with
      | none =>
        simp only [structHead, pure, Except.pure] at h1
        injection h1 with h1; injection h1 with h1 _; cases h1
      | some dn => exact hrel key fs hfind
    | false =>
      simp only [Bool.false_eq_true, if_false] at h2 ⊢
      exact structFull_sim hD f hf _ key d fs fields col kept oc c ca cb dsa t va dsa' henv' hfind hnkf hcur hdict h2
  | oneof _ col name kept alts nodes fs hk hfind halts hnkf =>
    subst hk
    subst halts
    rw [decodeNode_oneof] at h ⊢
    have henv' := envOK_push henv (NK.oneof key col key kept _ nodes fs rfl hfind rfl hnkf)
    have hcolT : (withT dsa t).col col = dsa.col col := rfl
    rw [hcolT]
    obtain ⟨⟨tt, rest⟩, h1, h2⟩ := bind_ok _ _ _ h
    simp only [h1, bind, Except.bind]
    simp only at h2
    by_cases hgt : tt.toNat > kept
    · simp [hgt] at h2
    · simp only [hgt, if_false] at h2 ⊢
      by_cases h0 : tt.toNat = 0
      · simp only [h0, if_true] at h2 ⊢
        injection h2 with h2; injection h2 with h3 h4; subst h3; subst h4
        exact ⟨_, _, rfl, KRel.same _ _ Ext.oneofNone, t, rfl, hdict⟩
      · simp only [h0, if_false] at h2 ⊢
        cases halt : (nodes.map (·.2))[tt.toNat - 1]? with
        | none => simp [halt] at h2
        | some an =>
          simp only [halt] at h2 ⊢
          obtain ⟨fd, hfd, hnkan⟩ := nkf_alt fs nodes _ an hnkf halt
          obtain ⟨⟨v, ds1⟩, h3, h4⟩ := bind_ok _ _ _ h2
          simp only at h4
          injection h4 with h4; injection h4 with h5 h6; subst h5; subst h6
          have hprev := krel_oneof_inv (B := B) hfind hfd (altInit_rel hAB hC hnkan) hcur
          obtain ⟨vb, ds1b, hb, hv, hds1⟩ := hn _ _ _ _ _ _ _ _ _ henv' hnkan hprev (dsrel_setCol _ _ hdict) h3
          refine ⟨.oneof tt.toNat (some vb), ds1b, ?_, KRel.oneof key fs _ fd _ _ hfind hfd hv, hds1⟩
          simp only [hb]
  | arr _ col k ety elem hk hk2 hty hne =>
    subst hk2
    subst hk
    rw [decodeNode_arr] at h ⊢
    have henv' := envOK_push henv (NK.arr _ col _ ety elem rfl rfl hty hne)
    have hcolT : (withT dsa t).col col = dsa.col col := rfl
    rw [hcolT]
    obtain ⟨⟨len, rest⟩, h1, h2⟩ := bind_ok _ _ _ h
    simp only [h1, bind, Except.bind]
    simp only at h2
    obtain ⟨⟨es, ds1⟩, h3, h4⟩ := bind_ok _ _ _ h2
    simp only at h4
    injection h4 with h4; injection h4 with h5 h6; subst h5; subst h6
    have hold : ListRel A (tyKey ety) (arrElems ca) (arrElems cb) := krel_arr_inv hcur
    obtain ⟨esb, ds1b, hb, hes, hds1⟩ := he _ _ _ _ _ _ _ _ _ _ _ henv' hne (init_rel hAB hC initFuel ety hty) hold
      (dsrel_setCol _ _ hdict) h3
    refine ⟨.arr esb, ds1b, ?_, KRel.arr _ (tyKey ety) _ _ rfl hes, hds1⟩
    simp only [hb]
  | mmap _ col name k v kn vn hk hfind hnk1 hnk2 =>
    subst hk
    rw [decodeNode_mmap] at h ⊢
    have henv' := envOK_push henv (NK.mmap key col key k v kn vn rfl hfind hnk1 hnk2)
    have hcl : TyClosed A k ∧ TyClosed A v := hC key _ hfind
    have hold := krel_mmap_inv hfind hcur
    have hcolT : (withT dsa t).col col = dsa.col col := rfl
    have hsc : ∀ x, (withT dsa t).setCol col x = withT (dsa.setCol col x) t := fun _ => rfl
    rw [hcolT]
    obtain ⟨⟨x, rest⟩, h1, h2⟩ := bind_ok _ _ _ h
    simp only [h1, bind, Except.bind]
    simp only at h2
    by_cases hx0 : x = 0#64
    · simp only [hx0, if_true] at h2 ⊢
      injection h2 with h2; injection h2 with h3 h4; subst h3; subst h4
      exact ⟨_, _, rfl, KRel.mmap key k v _ _ hfind hold, t, rfl, hdict⟩
    · simp only [hx0, if_false] at h2 ⊢
      by_cases hl : x.getLsbD 0 = true
      · simp only [hl, if_true] at h2 ⊢
        by_cases hcnt : (x >>> 1).toNat ≥ 1024
        · rw [if_pos hcnt] at h2
          cases h2
        · rw [if_neg hcnt] at h2 ⊢
          obtain ⟨⟨ps, ds1⟩, h3, h4⟩ := bind_ok _ _ _ h2
          simp only at h4
          injection h4 with h4; injection h4 with h5 h6; subst h5; subst h6
          obtain ⟨psb, ds1b, hb, hps, hds1⟩ := hp _ _ _ _ _ _ _ _ _ _ _ _ _ _ henv' hnk1 hnk2
            (init_rel hAB hC initFuel k hcl.1) (init_rel hAB hC initFuel v hcl.2) hold (dsrel_setCol _ _ hdict) h3
          refine ⟨.mmap psb, ds1b, ?_, KRel.mmap key k v _ _ hfind hps, hds1⟩
          simp only [hb]
      · simp only [hl, Bool.false_eq_true, if_false] at h2 ⊢
        obtain ⟨⟨ps, ds1⟩, h3, h4⟩ := bind_ok _ _ _ h2
        simp only at h4
        injection h4 with h4; injection h4 with h5 h6; subst h5; subst h6
        rw [← pairRel_length hold, hsc]
        obtain ⟨psb, ds1b, hb, hps, hds1⟩ := hv _ _ _ _ _ _ _ _ _ _ _ _ henv' hnk2 hold
          (dsrel_count (A := A) (mmapPairs ca).length (dsa := dsa.setCol col { dsa.col col with bytes := rest }) (t := t) hdict) h3
        refine ⟨.mmap psb, ds1b, ?_, KRel.mmap key k v _ _ hfind hps, hds1⟩
        simp only [hb]

include hD in
/-- **the simulation**, all five decoders, every fuel -/
theorem sim_all : ∀ f, SNode A B f ∧ SFields A B f ∧ SElems A B f ∧ SPairs A B f ∧ SVals A B f := by
  intro f
  induction f with
  | zero =>
    refine ⟨?_, ?_, ?_, ?_, ?_⟩
    · intro env key n ca cb dsa dsb va dsa' _ _ _ _ h
      rw [decodeNode] at h
      cases h
    · intro env fs fields idx optIdx mask pres prevPres cura curb dsa dsb outa dsa' _ _ _ _ h
      rw [decodeFields] at h
      cases h
    · intro env ek elem ety n olda oldb dsa dsb outa dsa' _ _ _ _ _ h
      rw [decodeElems] at h
      cases h
    · intro env kk vk k v kty vty n olda oldb dsa dsb outa dsa' _ _ _ _ _ _ _ h
      rw [decodePairsFull] at h
      cases h
    · intro env kk vk v changed idx olda oldb dsa dsb outa dsa' _ _ _ _ h
      rw [decodeValuesOnly] at h
      cases h
  | succ f ih =>
    obtain ⟨hn, hf, he, hp, hv⟩ := ih
    exact ⟨node_step hAB hC hD f hn hf he hp hv, fields_step hAB hC f hn hf, elems_step f hn he,
      pairs_step f hn hp, vals_step f hn hv⟩

end steps

end Stef.Proofs.Forward
