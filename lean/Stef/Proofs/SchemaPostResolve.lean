/-
  Stef.Proofs.SchemaPostResolve: the regenerated `ResolveRefs` / `resolveFieldType` of Stef/Gen/SchemaPost.lean
  (go/pkg/schema/schema.go, translated statement by statement) compute what the hand model of Stef/Idl.lean
  (`resolveBase`, `resolveFType`, `resolveFields`, `resolveStructs`, `resolveMultimaps`, `resolveRefs`) computes,
  for ALL schemas whose struct / multimap maps have distinct keys (in Go: always, they are maps):

    resolveFieldType_ok / resolveFieldType_err    one field type (any fuel ≥ 2)
    resolveRefs_ok                                 success: `Gen.resolveRefs σ = Gen.computeRecursive σ1`
    resolveRefs_err                                failure: the same class of error ("unknown type: " / "ambiguous type: ")

  Method: `Rel g h f` relates the result of a translated function to the result of the hand model (`ok` values
  through `f`, errors through `ErrRel`); each `for` loop is stated once (`inner_loop`, `structs_loop`,
  `multimaps_loop`) by induction on the part of the list still to do. The translated loops pass the schema as
  updated so far (`d`) to `resolveFieldType`, the hand model the original `σ`: `Agree σ d` (the same three sets of
  definition names) is all `resolveFieldType` depends on, and the write-backs (`mapUpdate` at an existing key with a
  value of the same name) preserve it. Core Lean only.
-/
import Stef.Gen.SchemaPost
import Stef.Proofs.IdlWF

namespace Stef.Proofs.SchemaPostResolve
open Stef Stef.Idl Stef.PrintFlowSem Stef.SchemaPostSem

theorem ok_bind {ε α β : Type} (a : α) (f : α → Except ε β) : (Except.ok a >>= f) = f a := rfl
theorem err_bind {ε α β : Type} (e : ε) (f : α → Except ε β) : (Except.error e >>= f) = .error e := rfl

/-- the Go error value against the class of the hand model -/
def ErrRel (e : PErr) (c : ErrClass) : Prop :=
  ∃ n : Name, (e = .error ("unknown type: ".toList ++ n) ∧ c = .unknownType) ∨
              (e = .error ("ambiguous type: ".toList ++ n) ∧ c = .ambiguousType)

/-- result of a translated function against the result of the hand model -/
def Rel {α β : Type} (g : Except PErr α) (h : Except ErrClass β) (f : β → α) : Prop :=
  match h with
  | .ok b => g = .ok (f b)
  | .error c => ∃ e, g = .error e ∧ ErrRel e c

theorem mapHas_iff {α : Type} [Keyed α] (m : List α) (n : Name) : mapHas m n = true ↔ n ∈ m.map Keyed.key := by
  simp only [mapHas, mapGet, List.find?_isSome, decide_eq_true_eq, List.mem_map]

/-- `d` has the definition names of `σ` (all that `resolveFieldType` reads of the schema). -/
structure Agree (σ d : Schema) : Prop where
  s : ∀ n, mapHas d.structs n = σ.hasStruct n
  m : ∀ n, mapHas d.multimaps n = σ.hasMultimap n
  e : ∀ n, mapHas d.enums n = σ.hasEnum n

theorem Agree.of_names {σ d : Schema} (h : SameNames σ d) : Agree σ d := by
  refine ⟨?_, ?_, ?_⟩
  · intro n; rw [Bool.eq_iff_iff, mapHas_iff, hasStruct_iff, ← h.1]; rfl
  · intro n; rw [Bool.eq_iff_iff, mapHas_iff, hasMultimap_iff, ← h.2.1]; rfl
  · intro n; rw [Bool.eq_iff_iff, mapHas_iff, hasEnum_iff, ← h.2.2]; rfl

local macro "rft_cases " n:term : tactic => `(tactic|
  (cases hS : Schema.hasStruct _ $n <;> cases hM : Schema.hasMultimap _ $n <;> cases hE : Schema.hasEnum _ $n <;>
    simp [*, FType.setStruct, FType.setMultiMap, FType.setEnum, FType.setPrimitive, ErrRel,
      pure, Except.pure, throw, throwThe, MonadExceptOf.throw, bind, Except.bind]))

theorem rft_base (σ d : Schema) (ha : Agree σ d) (F : Nat) (b : BaseType) :
    Rel (Gen.SchemaPost.resolveFieldType d (F + 1) (.base b)) (resolveBase σ b) FType.base := by
  unfold resolveBase Rel
  simp only [Gen.SchemaPost.resolveFieldType, FType.goStruct, FType.goMultiMap, FType.goEnum, FType.goArray,
    ha.s, ha.m, ha.e]
  by_cases h1 : b.struct = []
  · by_cases h2 : b.multimap = []
    · by_cases h3 : b.enum = []
      · simp [h1, h2, h3, pure, Except.pure]
      · simp only [h1, h2, h3, ne_eq, not_true_eq_false, not_false_eq_true, if_true, if_false]
        rft_cases b.enum
    · simp only [h1, h2, ne_eq, not_true_eq_false, not_false_eq_true, if_true, if_false]
      rft_cases b.multimap
  · simp only [h1, ne_eq, not_true_eq_false, not_false_eq_true, if_true, if_false]
    rft_cases b.struct

theorem rft_array (d : Schema) (G : Nat) (e : BaseType) (dn : Name) (r : Bool) :
    Gen.SchemaPost.resolveFieldType d (G + 1) (.array e dn r) =
      (Gen.SchemaPost.resolveFieldType d G (.base e) >>= fun t => (FType.array e dn r).setArrayElem t) := by
  simp only [Gen.SchemaPost.resolveFieldType, FType.goStruct, FType.goMultiMap, FType.goEnum, FType.goArray,
    ne_eq, not_true_eq_false, if_false]

theorem rft (σ d : Schema) (ha : Agree σ d) (F : Nat) (hF : 2 ≤ F) (ft : FType) :
    Rel (Gen.SchemaPost.resolveFieldType d F ft) (resolveFType σ ft) id := by
  obtain ⟨G, rfl⟩ : ∃ G, F = G + 2 := ⟨F - 2, by omega⟩
  cases ft with
  | base b =>
    have := rft_base σ d ha (G + 1) b
    unfold Rel at this ⊢
    simp only [resolveFType]
    cases hb : resolveBase σ b with
    | ok b' => simpa [hb, Except.map] using this
    | error c => simpa [hb, Except.map] using this
  | array e dn r =>
    have := rft_base σ d ha G e
    unfold Rel at this ⊢
    simp only [resolveFType]
    rw [rft_array]
    cases hb : resolveBase σ e with
    | ok b' =>
      simp only [hb] at this
      simp [Except.map, this, ok_bind, FType.setArrayElem]
    | error c =>
      simp only [hb] at this
      obtain ⟨e1, h1, h2⟩ := this
      exact ⟨e1, by simp [h1, err_bind], h2⟩

/-- **Gen.resolveFieldType = Idl.resolveFType** (success). -/
theorem resolveFieldType_ok (σ : Schema) (F : Nat) (hF : 2 ≤ F) (ft t : FType)
    (h : Idl.resolveFType σ ft = .ok t) : Gen.SchemaPost.resolveFieldType σ F ft = .ok t := by
  have := rft σ σ (Agree.of_names ⟨rfl, rfl, rfl⟩) F hF ft
  simpa [Rel, h] using this

/-- **Gen.resolveFieldType = Idl.resolveFType** (failure: the same class of error). -/
theorem resolveFieldType_err (σ : Schema) (F : Nat) (hF : 2 ≤ F) (ft : FType) (c : ErrClass)
    (h : Idl.resolveFType σ ft = .error c) : ∃ e, Gen.SchemaPost.resolveFieldType σ F ft = .error e ∧ ErrRel e c := by
  have := rft σ σ (Agree.of_names ⟨rfl, rfl, rfl⟩) F hF ft
  simpa [Rel, h] using this

/-! ## maps with distinct keys -/

theorem mapUpdate_keys {α : Type} [Keyed α] (m : List α) (k : Name) (v : α) (hv : Keyed.key v = k) :
    (mapUpdate m k v).map Keyed.key = m.map Keyed.key := by
  simp only [mapUpdate, List.map_map]
  apply List.map_congr_left
  intro x _
  by_cases hx : Keyed.key x = k <;> simp [hx, hv]

theorem mapUpdate_mapUpdate {α : Type} [Keyed α] (m : List α) (k : Name) (v v' : α) (hv : Keyed.key v = k) :
    mapUpdate (mapUpdate m k v) k v' = mapUpdate m k v' := by
  simp only [mapUpdate, List.map_map]
  apply List.map_congr_left
  intro x _
  by_cases hx : Keyed.key x = k <;> simp [hx, hv]

theorem mapHas_mapUpdate {α : Type} [Keyed α] (m : List α) (k : Name) (v : α) (hv : Keyed.key v = k) (n : Name) :
    mapHas (mapUpdate m k v) n = mapHas m n := by
  rw [Bool.eq_iff_iff, mapHas_iff, mapHas_iff, mapUpdate_keys m k v hv]

theorem keys_mid {α : Type} [Keyed α] {pre post : List α} {x : α}
    (hn : ((pre ++ x :: post).map Keyed.key).Nodup) :
    (∀ y ∈ pre, Keyed.key y ≠ Keyed.key x) ∧ (∀ y ∈ post, Keyed.key y ≠ Keyed.key x) := by
  simp only [List.map_append, List.map_cons, List.nodup_append, List.nodup_cons, List.mem_map, List.mem_cons] at hn
  obtain ⟨_, ⟨h2, _⟩, h3⟩ := hn
  constructor
  · intro y hy he
    exact h3 _ ⟨y, hy, rfl⟩ _ (Or.inl rfl) he
  · intro y hy he
    exact h2 ⟨y, hy, he⟩

theorem mapGet_mid {α : Type} [Keyed α] {pre post : List α} {x : α}
    (hn : ((pre ++ x :: post).map Keyed.key).Nodup) : mapGet (pre ++ x :: post) (Keyed.key x) = some x := by
  have h := (keys_mid hn).1
  simp only [mapGet, List.find?_append, List.find?_cons, decide_true]
  have : pre.find? (fun y => decide (Keyed.key y = Keyed.key x)) = none := by
    simp only [List.find?_eq_none, decide_eq_true_eq]; exact h
  simp [this]

theorem mapUpdate_mid {α : Type} [Keyed α] {pre post : List α} {x : α}
    (hn : ((pre ++ x :: post).map Keyed.key).Nodup) (v : α) :
    mapUpdate (pre ++ x :: post) (Keyed.key x) v = pre ++ v :: post := by
  obtain ⟨h1, h2⟩ := keys_mid hn
  simp only [mapUpdate, List.map_append, List.map_cons, if_true]
  congr 1
  · conv => rhs; rw [← List.map_id pre]
    apply List.map_congr_left
    intro y hy; simp [h1 y hy]
  · congr 1
    conv => rhs; rw [← List.map_id post]
    apply List.map_congr_left
    intro y hy; simp [h2 y hy]

theorem Agree.update_structs {σ d : Schema} (ha : Agree σ d) (k : Name) (v : Struct) (hv : v.name = k) :
    Agree σ { d with structs := mapUpdate d.structs k v } :=
  ⟨fun n => by rw [← ha.s n]; exact mapHas_mapUpdate d.structs k v hv n, ha.m, ha.e⟩

theorem Agree.update_multimaps {σ d : Schema} (ha : Agree σ d) (k : Name) (v : Multimap) (hv : v.name = k) :
    Agree σ { d with multimaps := mapUpdate d.multimaps k v } :=
  ⟨ha.s, fun n => by rw [← ha.m n]; exact mapHas_mapUpdate d.multimaps k v hv n, ha.e⟩

theorem two_le_postFuel (d : Schema) : 2 ≤ postFuel d := by simp [postFuel]

theorem rft_post {σ d : Schema} (ha : Agree σ d) (ft : FType) :
    Rel (Gen.SchemaPost.resolveFieldType d (postFuel d) ft) (resolveFType σ ft) id :=
  rft σ d ha (postFuel d) (two_le_postFuel d) ft

/-! ## `*StructField`s -/

theorem fieldRefs_append (o : Name) : ∀ (a b : List Field) (j : Nat),
    fieldRefs o j (a ++ b) = fieldRefs o j a ++ fieldRefs o (j + a.length) b
  | [], b, j => by simp [fieldRefs]
  | x :: a, b, j => by
    simp only [List.cons_append, fieldRefs, fieldRefs_append o a b (j + 1), List.length_cons]
    congr 3; omega

@[simp] theorem fieldRefs_length (o : Name) : ∀ (l : List Field) (j : Nat), (fieldRefs o j l).length = l.length
  | [], _ => rfl
  | _ :: l, j => by simp [fieldRefs, fieldRefs_length o l (j + 1)]

@[simp] theorem fieldRefs_val (o : Name) : ∀ (l : List Field) (j : Nat), (fieldRefs o j l).map (·.val) = l
  | [], _ => rfl
  | _ :: l, j => by simp [fieldRefs, fieldRefs_val o l (j + 1)]

theorem indexI_mid (o : Name) (done todo : List Field) (f : Field) :
    indexI (fieldRefs o 0 (done ++ f :: todo)) (0 + Int.ofNat done.length) = .ok ⟨o, done.length, f⟩ := by
  simp [indexI, fieldRefs_append, fieldRefs]

theorem listSetI_mid (o : Name) (done todo : List Field) (f : Field) (r : FieldRef) :
    (listSetI (fieldRefs o 0 (done ++ f :: todo)) (0 + Int.ofNat done.length) r).map (·.val) =
      done ++ r.val :: todo := by
  have : ¬ ((done.length : Int) < 0) := by omega
  simp [listSetI, fieldRefs_append, fieldRefs, this]

/-! ## the loop over the fields of one struct -/

/-- body of the inner loop of `ResolveRefs` (state: the schema `d`, the struct `v` = `d.Structs[key]`). -/
def innerBody (key : Name) (i : Int) (s : Schema × Struct) : Except PErr (ForInStep (Schema × Struct)) := do
  let field ← indexI s.snd.goFields i
  let r_1 ← Gen.SchemaPost.resolveFieldType s.fst (postFuel s.fst) field.val.ty
  pure (ForInStep.yield
    ({ pkg := s.fst.pkg,
       structs := mapUpdate s.fst.structs key (s.snd.setGoFields (listSetI s.snd.goFields i (field.setFieldType r_1))),
       multimaps := s.fst.multimaps, enums := s.fst.enums },
     s.snd.setGoFields (listSetI s.snd.goFields i (field.setFieldType r_1))))

theorem inner_loop (σ : Schema) (key : Name) (v0 : Struct) (hk : v0.name = key) :
    ∀ (todo done : List Field) (d : Schema), Agree σ d →
      mapUpdate d.structs key { v0 with fields := done ++ todo } = d.structs →
      Rel (forIn ((List.range' done.length todo.length).map (fun (k : Nat) => (0 : Int) + Int.ofNat k))
            (d, { v0 with fields := done ++ todo }) (innerBody key))
        (resolveFields σ todo)
        (fun todo' => ({ d with structs := mapUpdate d.structs key { v0 with fields := done ++ todo' } },
                       { v0 with fields := done ++ todo' }))
  | [], done, d, _, hd => by
    simp only [resolveFields, Rel, List.length_nil, List.range'_zero, List.map_nil, List.forIn_nil, hd]
    rfl
  | f :: todo, done, d, ha, hd => by
    have hf := rft_post ha f.ty
    simp only [resolveFields, List.length_cons, List.range'_succ, List.map_cons, List.forIn_cons]
    cases h1 : resolveFType σ f.ty with
    | error c =>
      simp only [h1, Rel] at hf ⊢
      obtain ⟨e, he, hr⟩ := hf
      refine ⟨e, ?_, hr⟩
      simp only [innerBody, Struct.goFields, indexI_mid, ok_bind, he, err_bind]
    | ok t =>
      simp only [h1, Rel, id] at hf
      have hstep : innerBody key (0 + Int.ofNat done.length) (d, { v0 with fields := done ++ f :: todo }) =
          .ok (ForInStep.yield
            ({ d with structs := mapUpdate d.structs key { v0 with fields := (done ++ [{ f with ty := t }]) ++ todo } },
             { v0 with fields := (done ++ [{ f with ty := t }]) ++ todo })) := by
        simp only [innerBody, Struct.goFields, indexI_mid, ok_bind, hf, Struct.setGoFields, listSetI_mid,
          FieldRef.setFieldType, List.append_assoc, List.singleton_append]
        rfl
      rw [hstep, ok_bind]
      have ih := inner_loop σ key v0 hk todo (done ++ [{ f with ty := t }])
        { d with structs := mapUpdate d.structs key { v0 with fields := (done ++ [{ f with ty := t }]) ++ todo } }
        (ha.update_structs key _ hk) (mapUpdate_mapUpdate _ _ _ _ hk)
      simp only [List.length_append, List.length_singleton] at ih
      cases h2 : resolveFields σ todo with
      | error c =>
        simp only [h2, Rel] at ih ⊢
        exact ih
      | ok todo' =>
        simp only [h2, Rel] at ih ⊢
        rw [ih]
        have hk' : ∀ fs, Keyed.key ({ v0 with fields := fs } : Struct) = key := fun _ => hk
        simp only [List.append_assoc, List.singleton_append, mapUpdate_mapUpdate _ _ _ _ (hk' _)]

/-! ## the loop over the structs -/

/-- body of the first loop of `ResolveRefs` (state: the schema `d`). -/
def structBody (key : Name) (d : Schema) : Except PErr (ForInStep Schema) := do
  let v ← SchemaPostSem.deref (mapGet d.structs key)
  let s ← forIn (intRange 0 (v.goFields.length : Int)) (d, v) (innerBody key)
  pure (ForInStep.yield s.fst)

theorem intRange_zero (n : Nat) :
    intRange 0 (n : Int) = (List.range' 0 n).map (fun (k : Nat) => (0 : Int) + Int.ofNat k) := by
  simp [intRange, List.range_eq_range']

theorem structs_loop (σ : Schema) :
    ∀ (todo pre : List Struct) (d : Schema), d.structs = pre ++ todo → ((pre ++ todo).map (·.name)).Nodup →
      Agree σ d →
      Rel (forIn (todo.map Keyed.key) d structBody) (resolveStructs σ todo)
        (fun todo' => { d with structs := pre ++ todo' })
  | [], pre, d, hd, _, _ => by
    simp only [resolveStructs, Rel, List.map_nil, List.forIn_nil, ← hd]
    rfl
  | s :: todo, pre, d, hd, hn, ha => by
    have hn' : ((pre ++ s :: todo).map Keyed.key).Nodup := hn
    have hget : mapGet d.structs s.name = some s := by rw [hd]; exact mapGet_mid hn'
    have hupd : ∀ v, mapUpdate d.structs s.name v = pre ++ v :: todo := by
      intro v; rw [hd]; exact mapUpdate_mid hn' v
    have hin := inner_loop σ s.name s rfl s.fields [] d ha (by rw [hupd]; exact hd.symm)
    simp only [resolveStructs, List.map_cons, List.forIn_cons]
    have hbody : structBody (Keyed.key s) d =
        (forIn ((List.range' 0 s.fields.length).map (fun (k : Nat) => (0 : Int) + Int.ofNat k)) (d, s)
          (innerBody s.name) >>= fun r => pure (ForInStep.yield r.fst)) := by
      show structBody s.name d = _
      simp only [structBody, hget, SchemaPostSem.deref, ok_bind, Struct.goFields, fieldRefs_length, intRange_zero]
    rw [hbody]
    simp only [List.length_nil, List.nil_append] at hin
    cases h1 : resolveFields σ s.fields with
    | error c =>
      simp only [h1, Rel] at hin ⊢
      obtain ⟨e, he, hr⟩ := hin
      exact ⟨e, by rw [he]; rfl, hr⟩
    | ok fs =>
      simp only [h1, Rel] at hin
      rw [hin, ok_bind, hupd]
      have ih := structs_loop σ todo (pre ++ [{ s with fields := fs }])
        { d with structs := pre ++ { s with fields := fs } :: todo } (by simp)
        (by simpa using hn) ⟨fun n => by
          have := (ha.update_structs s.name { s with fields := fs } rfl).s n
          rw [hupd] at this; exact this, ha.m, ha.e⟩
      cases h2 : resolveStructs σ todo with
      | error c =>
        simp only [h2, Rel] at ih ⊢
        exact ih
      | ok todo' =>
        simp only [h2, Rel] at ih ⊢
        show (pure (ForInStep.yield _) >>= _) = _
        simp only [pure, Except.pure, ok_bind]
        rw [ih]
        simp

/-! ## the loop over the multimaps -/

/-- body of the second loop of `ResolveRefs` (state: the schema `d`). -/
def mmBody (key : Name) (d : Schema) : Except PErr (ForInStep Schema) := do
  let v ← SchemaPostSem.deref (mapGet d.multimaps key)
  let r_2 ← Gen.SchemaPost.resolveFieldType d (postFuel d) v.goKey.ty
  let r_3 ←
    Gen.SchemaPost.resolveFieldType
      { pkg := d.pkg, structs := d.structs,
        multimaps := mapUpdate d.multimaps key (v.setGoKey { owner := v.goKey.owner, idx := v.goKey.idx, ty := r_2 }),
        enums := d.enums }
      (postFuel
        { pkg := d.pkg, structs := d.structs,
          multimaps := mapUpdate d.multimaps key (v.setGoKey { owner := v.goKey.owner, idx := v.goKey.idx, ty := r_2 }),
          enums := d.enums })
      (v.setGoKey { owner := v.goKey.owner, idx := v.goKey.idx, ty := r_2 }).goValue.ty
  pure (ForInStep.yield
    { pkg := d.pkg, structs := d.structs,
      multimaps :=
        mapUpdate (mapUpdate d.multimaps key (v.setGoKey { owner := v.goKey.owner, idx := v.goKey.idx, ty := r_2 })) key
          ((v.setGoKey { owner := v.goKey.owner, idx := v.goKey.idx, ty := r_2 }).setGoValue
            { owner := (v.setGoKey { owner := v.goKey.owner, idx := v.goKey.idx, ty := r_2 }).goValue.owner,
              idx := (v.setGoKey { owner := v.goKey.owner, idx := v.goKey.idx, ty := r_2 }).goValue.idx,
              ty := r_3 }),
      enums := d.enums })

theorem multimaps_loop (σ : Schema) :
    ∀ (todo pre : List Multimap) (d : Schema), d.multimaps = pre ++ todo → ((pre ++ todo).map (·.name)).Nodup →
      Agree σ d →
      Rel (forIn (todo.map Keyed.key) d mmBody) (resolveMultimaps σ todo)
        (fun todo' => { d with multimaps := pre ++ todo' })
  | [], pre, d, hd, _, _ => by
    simp only [resolveMultimaps, Rel, List.map_nil, List.forIn_nil, ← hd]
    rfl
  | m :: todo, pre, d, hd, hn, ha => by
    have hn' : ((pre ++ m :: todo).map Keyed.key).Nodup := hn
    have hget : mapGet d.multimaps m.name = some m := by rw [hd]; exact mapGet_mid hn'
    have hupd : ∀ v, mapUpdate d.multimaps m.name v = pre ++ v :: todo := by
      intro v; rw [hd]; exact mapUpdate_mid hn' v
    simp only [resolveMultimaps, List.map_cons, List.forIn_cons]
    have hkey : (Keyed.key m : Name) = m.name := rfl
    rw [hkey]
    have hk := rft_post ha m.key
    cases h1 : resolveFType σ m.key with
    | error c =>
      simp only [h1, Rel] at hk ⊢
      obtain ⟨e, he, hr⟩ := hk
      refine ⟨e, ?_, hr⟩
      simp only [mmBody, hget, SchemaPostSem.deref, ok_bind, Multimap.goKey, he, err_bind]
    | ok k =>
      simp only [h1, Rel, id] at hk
      have ha1 := ha.update_multimaps m.name { m with key := k } rfl
      have hv := rft_post ha1 m.value
      cases h2 : resolveFType σ m.value with
      | error c =>
        simp only [h2, Rel] at hv ⊢
        obtain ⟨e, he, hr⟩ := hv
        refine ⟨e, ?_, hr⟩
        simp only [mmBody, hget, SchemaPostSem.deref, ok_bind, Multimap.goKey, Multimap.goValue, Multimap.setGoKey,
          hk, he, err_bind]
      | ok v =>
        simp only [h2, Rel, id] at hv
        have hstep : mmBody m.name d =
            .ok (ForInStep.yield { d with multimaps := pre ++ { m with key := k, value := v } :: todo }) := by
          simp only [mmBody, hget, SchemaPostSem.deref, ok_bind, Multimap.goKey, Multimap.goValue, Multimap.setGoKey,
            Multimap.setGoValue, hk, hv]
          rw [mapUpdate_mapUpdate _ _ _ _ (show Keyed.key ({ m with key := k } : Multimap) = m.name from rfl), hupd]
          rfl
        rw [hstep, ok_bind]
        have ih := multimaps_loop σ todo (pre ++ [{ m with key := k, value := v }])
          { d with multimaps := pre ++ { m with key := k, value := v } :: todo } (by simp)
          (by simpa using hn) ⟨ha.s, fun n => by
            have := (ha.update_multimaps m.name { m with key := k, value := v } rfl).m n
            rw [hupd] at this; exact this, ha.e⟩
        cases h3 : resolveMultimaps σ todo with
        | error c =>
          simp only [h3, Rel] at ih ⊢
          exact ih
        | ok todo' =>
          simp only [h3, Rel] at ih ⊢
          rw [ih]
          simp

/-! ## `ResolveRefs` -/

theorem resolveStructs_names (σ : Schema) : ∀ (l l' : List Struct), resolveStructs σ l = .ok l' →
    l'.map (·.name) = l.map (·.name)
  | [], l', h => by simp only [resolveStructs, Except.ok.injEq] at h; subst h; rfl
  | s :: l, l', h => by
    simp only [resolveStructs] at h
    cases h1 : resolveFields σ s.fields with
    | error c => simp [h1] at h
    | ok fs =>
      cases h2 : resolveStructs σ l with
      | error c => simp [h1, h2] at h
      | ok l1 =>
        simp only [h1, h2, Except.ok.injEq] at h
        subst h
        simp [resolveStructs_names σ l l1 h2]

/-- `ResolveRefs` up to its last statement: both loops, against the hand model. -/
theorem resolveRefs_loops (σ : Schema) (hs : (σ.structs.map (·.name)).Nodup) (hm : (σ.multimaps.map (·.name)).Nodup) :
    Rel (forIn (mapKeys σ.structs) σ structBody >>= fun d => forIn (mapKeys d.multimaps) d mmBody)
      (Idl.resolveRefs σ) id := by
  have ha : Agree σ σ := Agree.of_names ⟨rfl, rfl, rfl⟩
  have h1 := structs_loop σ σ.structs [] σ rfl hs ha
  unfold Idl.resolveRefs
  simp only [mapKeys]
  cases hss : resolveStructs σ σ.structs with
  | error c =>
    simp only [hss, Rel] at h1 ⊢
    obtain ⟨e, he, hr⟩ := h1
    exact ⟨e, by rw [he]; rfl, hr⟩
  | ok ss =>
    simp only [hss, Rel, List.nil_append] at h1
    rw [h1, ok_bind]
    have ha1 : Agree σ { σ with structs := ss } :=
      Agree.of_names ⟨resolveStructs_names σ _ _ hss, rfl, rfl⟩
    have h2 := multimaps_loop σ σ.multimaps [] { σ with structs := ss } rfl hm ha1
    cases hms : resolveMultimaps σ σ.multimaps with
    | error c =>
      simp only [hms, Rel] at h2 ⊢
      exact h2
    | ok ms =>
      simp only [hms, Rel, List.nil_append] at h2 ⊢
      rw [h2]
      rfl

theorem resolveRefs_unfold (σ : Schema) :
    Gen.SchemaPost.resolveRefs σ =
      ((forIn (mapKeys σ.structs) σ structBody >>= fun d => forIn (mapKeys d.multimaps) d mmBody) >>= fun d =>
        Gen.SchemaPost.computeRecursive d) := by
  simp only [Gen.SchemaPost.resolveRefs, bind_assoc, bind_pure]
  rfl

/-- **Gen.resolveRefs = Idl.resolveRefs, then Gen.computeRecursive** (success). -/
theorem resolveRefs_ok (σ σ1 : Schema) (hs : (σ.structs.map (·.name)).Nodup) (hm : (σ.multimaps.map (·.name)).Nodup)
    (h : Idl.resolveRefs σ = .ok σ1) : Gen.SchemaPost.resolveRefs σ = Gen.SchemaPost.computeRecursive σ1 := by
  have := resolveRefs_loops σ hs hm
  simp only [h, Rel, id] at this
  rw [resolveRefs_unfold, this, ok_bind]

/-- **Gen.resolveRefs fails with the error class of Idl.resolveRefs** (failure). -/
theorem resolveRefs_err (σ : Schema) (c : ErrClass) (hs : (σ.structs.map (·.name)).Nodup)
    (hm : (σ.multimaps.map (·.name)).Nodup) (h : Idl.resolveRefs σ = .error c) :
    ∃ e, Gen.SchemaPost.resolveRefs σ = .error e ∧ ErrRel e c := by
  have := resolveRefs_loops σ hs hm
  simp only [h, Rel] at this
  obtain ⟨e, he, hr⟩ := this
  exact ⟨e, by rw [resolveRefs_unfold, he, err_bind], hr⟩

end Stef.Proofs.SchemaPostResolve
