/-
  Stef.Proofs.WriterFlow: the REGENERATED control flow of the writer (Gen/WriterFlow.lean: the bodies
  of Write(), Flush(), restartFrame() of the current Go source, interpreted by WriterFlowSem.lean)
  equals the hand model of Stef/Limiter.lean on every state. With these equations every theorem
  about `Writer.write` / `Writer.flush` / `Writer.run` holds for the regenerated flow
  (Props/C08Flow.lean); a change of the Go control flow that is not an equivalent rewriting makes
  one of the proofs below fail.
-/
import Stef.Gen.WriterFlow
import Stef.Proofs.Limiter

namespace Stef.Proofs.WriterFlow
open Stef.Limiter Stef.WriterFlowSem Stef.Gen.WriterFlow

/-- `f & RestartDictionaries != 0` is the hand model's `hasRD f`. -/
theorem flagSet_rd (f : Nat) : ((f &&& Stef.Gen.restartDictionaries) != 0) = hasRD f := by
  have h : Stef.Gen.restartDictionaries = 1 := rfl
  rw [h, Nat.and_one_is_mod]
  unfold hasRD
  rcases Nat.mod_two_eq_zero_or_one f with h | h <;> simp [h]

/-- closed facts about the regenerated data: `restartFrame` calls nothing of the three functions,
    and only `Write` encodes a record (so the dummy arguments of `restartFrameSt` / `flushSt` in
    Gen/WriterFlow.lean are never looked at). -/
theorem restartFrame_calls_nothing : restartFrameBody.calls = false ∧ restartFrameBody.encodes = false := by
  decide

theorem flush_encodes_nothing : flushBody.encodes = false := by decide

/-- `restartFrame` from any value of the `frameRecordCount` field: the count written into the frame
    is right iff the field agrees with the column buffers. -/
theorem restartFrameSt_any (w : Writer) (n f : Nat) :
    restartFrameSt { w := w, frameRecordCount := n } f =
      { w := w.restartFrame f, frameRecordCount := 0, countOk := n == w.frameRecs.length } := by
  simp [restartFrameSt, restartFrameBody, runBody, exec, BExpr.eval, FExpr.eval,
    opWriteRecordCount, opCollectColumns, opWriteBufsToFrame, opCloseFrame, opOpenFrame,
    opResetFrameSize, Writer.restartFrame]

/-- `restartFrame` on the full state: from a state between calls to a state between calls. -/
theorem restartFrameSt_of (w : Writer) (f : Nat) :
    restartFrameSt (.of w) f = .of (w.restartFrame f) := by
  simp [FlowSt.of, restartFrameSt_any, Writer.restartFrame]

theorem frameLimitReached_resetDict (d : SizeLimiter) : d.resetDict.frameLimitReached = d.frameLimitReached := rfl

/-- `Write()` on the full state (all eight combinations of the three conditions). -/
theorem writeSt_of (w : Writer) (c : RecCost) : writeSt (.of w) c = .of (w.write c) := by
  have hn : (w.encodeStage c).frameRecs.length = w.frameRecs.length + 1 := by simp [Writer.encodeStage]
  cases hd : (w.encodeStage c).lim.dictLimitReached <;> cases hr : hasRD (w.encodeStage c).restartFlags <;>
    cases hf : (w.encodeStage c).lim.frameLimitReached <;>
    simp [writeSt, writeBody, runBody, exec, BExpr.eval, FExpr.eval, FlowSt.of, opEncode, opResetDicts,
      flagSet_rd, upd, Writer.write, Writer.decideStage, hd, hr, hf, hn, restartFrameSt_any,
      frameLimitReached_resetDict, Writer.restartFrame, restartDictionaries]

/-- `Flush()` on the full state. -/
theorem flushSt_of (w : Writer) : flushSt (.of w) = .of w.flush := by
  cases h : w.frameRecs <;>
    simp [flushSt, flushBody, runBody, exec, BExpr.eval, FExpr.eval, FlowSt.of, Writer.flush, h,
      restartFrameSt_any, Writer.restartFrame]

/-! ### go/pkg/dictlimiter.go: the regenerated methods are `SizeLimiter.*` of Stef/Limiter.lean -/

theorem lim_init (d : SizeLimiter) (a b : Nat) :
    Lim.init d { maxTotalDictSize := a, maxUncompressedFrameByteSize := b } = d.init a b := rfl

theorem lim_addDictElemSize (d : SizeLimiter) (n : Nat) : Lim.addDictElemSize d n = d.addDictElemSize n := by
  unfold Lim.addDictElemSize SizeLimiter.addDictElemSize
  by_cases h : d.dictByteSizeLimit = 0
  · simp [h]
  · by_cases h2 : d.dictByteSize + n ≥ d.dictByteSizeLimit <;> simp [h, h2]

theorem lim_addFrameBits (d : SizeLimiter) (n : Nat) : Lim.addFrameBits d n = d.addFrameBits n := rfl

theorem lim_addFrameBytes (d : SizeLimiter) (n : Nat) : Lim.addFrameBytes d n = d.addFrameBytes n := rfl

theorem lim_dictLimitReached (d : SizeLimiter) : Lim.dictLimitReached d = d.dictLimitReached := rfl

theorem lim_frameLimitReached (d : SizeLimiter) : Lim.frameLimitReached d = d.frameLimitReached := by
  unfold Lim.frameLimitReached SizeLimiter.frameLimitReached
  by_cases h : d.frameBitSizeLimit = 0 <;> simp [h]

theorem lim_resetDict (d : SizeLimiter) : Lim.resetDict d = d.resetDict := rfl

theorem lim_resetFrameSize (d : SizeLimiter) : Lim.resetFrameSize d = d.resetFrameSize := rfl

/-! ### the equations on `Writer` -/

theorem restartFrame_eq (w : Writer) (f : Nat) : restartFrame w f = w.restartFrame f := by
  rw [restartFrame, restartFrameSt_of]; rfl

theorem write_eq (w : Writer) (c : RecCost) : write w c = w.write c := by
  rw [write, writeSt_of]; rfl

theorem flush_eq (w : Writer) : flush w = w.flush := by
  rw [flush, flushSt_of]; rfl

theorem apply_eq (w : Writer) (op : Op) : apply w op = w.apply op := by
  cases op <;> simp [apply, Writer.apply, write_eq, flush_eq]

theorem run_eq (w : Writer) (ops : List Op) : run w ops = w.run ops := by
  induction ops generalizing w with
  | nil => rfl
  | cons op ops ih => simp [run, Writer.run, List.foldl_cons, apply_eq] at ih ⊢; exact ih _

/-- the same on the full state, call after call: the state after any history of `Write` / `Flush`
    calls of the regenerated functions is the state between calls of the hand model - in particular
    the `frameRecordCount` field always agrees with the column buffers, nothing is left in the write
    buffers or the frame encoder, and every record count written was right. -/
def applySt (s : FlowSt) : Op → FlowSt
  | .write c => writeSt s c
  | .flush => flushSt s

theorem runSt_of (w : Writer) (ops : List Op) : ops.foldl applySt (.of w) = .of (w.run ops) := by
  induction ops generalizing w with
  | nil => rfl
  | cons op ops ih =>
    have h : applySt (.of w) op = .of (w.apply op) := by
      cases op <;> simp [applySt, Writer.apply, writeSt_of, flushSt_of]
    simp only [List.foldl_cons, h, Writer.run]
    exact ih _

end Stef.Proofs.WriterFlow
