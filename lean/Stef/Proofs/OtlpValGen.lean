/-
  Proofs/OtlpValGen: the functions REGENERATED from go/pdata/internal/otlptools (Stef/Gen/OtlpValFlow.lean)
  equal the hand models of Stef/Otlp/Value.lean and Stef/Otlp/Traces.lean, on every input / state.
-/
import Stef.Gen.OtlpValFlow
import Stef.Proofs.OtlpCmp
import Stef.Proofs.OtlpValue

set_option linter.unusedSimpArgs false
set_option linter.unusedVariables false

namespace Stef.Gen.OtlpValFlow
open Stef.Otlp Stef.OtlpValFlowSem

/-! ### the monad -/

@[simp] theorem run_pure {σ ρ α : Type} (a : α) (s : σ) : (Pure.pure a : M σ ρ α).run s = .next a s := rfl

@[simp] theorem run_bind {σ ρ α β : Type} (m : M σ ρ α) (f : α → M σ ρ β) (s : σ) :
    (m >>= f).run s = match m.run s with
      | .next a s' => (f a).run s'
      | .ret r s' => .ret r s'
      | .panic msg => .panic msg
      | .outOfFuel => .outOfFuel := rfl

@[simp] theorem run_ret {σ ρ α : Type} (r : ρ) (s : σ) : (ret r : M σ ρ α).run s = .ret r s := rfl
@[simp] theorem run_outOfFuel {σ ρ α : Type} (s : σ) : (outOfFuel : M σ ρ α).run s = .outOfFuel := rfl
@[simp] theorem run_goPanic {σ ρ α : Type} (msg : String) (s : σ) : (goPanic msg : M σ ρ α).run s = .panic msg := rfl

@[simp] theorem run_ite {σ ρ α : Type} (c : Prop) [Decidable c] (a b : M σ ρ α) (s : σ) :
    (if c then a else b).run s = if c then a.run s else b.run s := by split <;> rfl

theorem run_call {σ ρ ρ' : Type} (f : M σ ρ' ρ') (s : σ) : (call f : M σ ρ ρ').run s =
    match f.run s with
    | .next a s' => .next a s'
    | .ret a s' => .next a s'
    | .panic msg => .panic msg
    | .outOfFuel => .outOfFuel := rfl

theorem run_call_ret {σ ρ ρ' : Type} (f : M σ ρ' ρ') (s s' : σ) (r : ρ') (h : f.run s = .ret r s') :
    (call f : M σ ρ ρ').run s = .next r s' := by rw [run_call, h]

/-! ### compare.go: CmpBool, CmpInt64 -/

theorem cmpBool_run (a b : Bool) : (cmpBool a b).run () = .ret (boolCompare a b) () := by
  cases a <;> cases b <;> rfl

theorem cmpInt64_run (a b : Nat) : (cmpInt64 a b).run () = .ret (int64Compare a b) () := by
  -- (also goes through when the source says `return cmp.Compare(v1, v2)`)
  simp only [cmpInt64, cmpCompareI64, int64Compare, i64lt, i64gt, run_bind, run_ite, run_ret, run_pure]
  by_cases h1 : toInt64 a < toInt64 b
  · simp [h1]
  · by_cases h2 : toInt64 b < toInt64 a <;> simp [h1, h2]


/-! ### loops that return the first non-zero comparison -/

/-- the first non-zero value among `h 0 .. h (k-1)`, else 0 -/
def firstNZ : Nat → (Nat → Int) → Int
  | 0, _ => 0
  | k + 1, h => if h 0 ≠ 0 then h 0 else firstNZ k (fun j => h (j + 1))

theorem forFrom_first {σ : Type} (k : Nat) : ∀ (i : Int) (body : Int → M σ Int Unit) (s : σ) (h : Nat → Int),
    (∀ j, j < k → (body (i + (j : Int))).run s = if h j ≠ 0 then .ret (h j) s else .next () s) →
    forFrom k i body s = if firstNZ k h ≠ 0 then .ret (firstNZ k h) s else .next () s := by
  induction k with
  | zero => intro i body s h _; simp [forFrom, firstNZ]
  | succ k ih =>
    intro i body s h hb
    have h0 := hb 0 (by omega)
    simp only [Int.cast_ofNat_Int, Int.add_zero, Int.natCast_zero] at h0
    unfold forFrom firstNZ
    rw [h0]
    by_cases hz : h 0 ≠ 0
    · simp [hz]
    · simp only [hz, if_false]
      apply ih (i + 1) body s (fun j => h (j + 1))
      intro j hj
      have := hb (j + 1) (by omega)
      rw [show i + ((j + 1 : Nat) : Int) = i + 1 + (j : Int) by omega] at this
      exact this

/-- pairwise comparison of two lists up to the shorter one -/
def zipFirst {α : Type} (g : α → α → Int) : List α → List α → Int
  | x :: xs, y :: ys => firstNonZero (g x y) (zipFirst g xs ys)
  | _, _ => 0

theorem firstNZ_zip {α : Type} (g : α → α → Int) (d : α) : ∀ (xs ys : List α),
    firstNZ (min xs.length ys.length) (fun j => g (xs.getD j d) (ys.getD j d)) = zipFirst g xs ys
  | [], ys => by simp [firstNZ, zipFirst]
  | x :: xs, [] => by simp [firstNZ, zipFirst]
  | x :: xs, y :: ys => by
    have ih := firstNZ_zip g d xs ys
    have hm : min (x :: xs).length (y :: ys).length = min xs.length ys.length + 1 := by
      simp only [List.length_cons]; omega
    rw [hm]
    simp only [firstNZ, zipFirst, firstNonZero, List.getD_cons_zero, List.getD_cons_succ, ih]
    by_cases h : g x y = 0 <;> simp [h]

theorem idx_run {σ ρ α : Type} (l : List α) (j : Nat) (s : σ) (d : α) (h : j < l.length) :
    (idx l (j : Int) : M σ ρ α).run s = .next (l.getD j d) s := by
  have h1 : ¬ ((j : Int) < 0) := by omega
  simp [idx, h1, List.getD, List.getElem?_eq_getElem h]

/-- `for i := 0; i < min(len xs, len ys); i++ { c := g(xs[i], ys[i]); if c != 0 { return c } }` -/
theorem forLt_zip {σ α : Type} (g : α → α → Int) (d : α) (xs ys : List α) (body : Int → M σ Int Unit) (s : σ)
    (hb : ∀ j, j < xs.length → j < ys.length → (body (j : Int)).run s =
      if g (xs.getD j d) (ys.getD j d) ≠ 0 then .ret (g (xs.getD j d) (ys.getD j d)) s else .next () s) :
    (forLt (min (len xs) (len ys)) body).run s =
      if zipFirst g xs ys ≠ 0 then .ret (zipFirst g xs ys) s else .next () s := by
  have hn : (min (len xs) (len ys)).toNat = min xs.length ys.length := by
    simp only [len]; omega
  simp only [forLt, hn]
  rw [forFrom_first _ 0 body s (fun j => g (xs.getD j d) (ys.getD j d))]
  · rw [firstNZ_zip]
  · intro j hj
    rw [Int.zero_add]
    exact hb j (by omega) (by omega)

/-! ### compare.go: Map2attrs -/

def toAttrs : KVs → List Attr
  | .nil => []
  | .cons k v t => ⟨k, v⟩ :: toAttrs t

theorem toAttrs_length : ∀ (m : KVs), (toAttrs m).length = m.length
  | .nil => rfl
  | .cons _ _ t => by simp [toAttrs, KVs.length, toAttrs_length t]

theorem map2attrs_loop : ∀ (m : KVs) (acc : List Attr),
    forRangeRun (σ := Unit) (ρ := List Attr) (fun k v attrs => do
      let attrs := attrs ++ [({ Key := k, Value := v } : Attr)]
      pure attrs) m acc () = .next (acc ++ toAttrs m) ()
  | .nil, acc => by simp [forRangeRun, toAttrs]
  | .cons k v t, acc => by
    simp only [forRangeRun, run_pure, map2attrs_loop t, toAttrs, List.append_assoc, List.singleton_append]

theorem map2attrs_run (m : KVs) : (map2attrs m).run () = .ret (toAttrs m) () := by
  simp only [map2attrs, forRange, run_bind]
  rw [map2attrs_loop m []]
  simp


/-! ### compare.go: CmpAttrs, CmpVal -/

mutual
  /-- the fuel `CmpVal` needs for a left operand (a slice level costs one call, a map level two:
      CmpVal -> CmpAttrs -> CmpVal) -/
  def need : AnyValue → Nat
    | .slice vs => needVs vs + 1
    | .map kvs => needKVs kvs + 2
    | _ => 1
  def needVs : Values → Nat
    | .nil => 0
    | .cons v t => max (need v) (needVs t)
  def needKVs : KVs → Nat
    | .nil => 0
    | .cons _ v t => max (need v) (needKVs t)
end

theorem zipFirst_keys : ∀ (a b : KVs),
    zipFirst (fun x y => strCompare x.Key y.Key) (toAttrs a) (toAttrs b) = cmpKeyPrefix a.keys b.keys
  | .nil, _ => by simp [zipFirst, toAttrs, KVs.keys, cmpKeyPrefix]
  | .cons _ _ _, .nil => by simp [zipFirst, toAttrs, KVs.keys, cmpKeyPrefix]
  | .cons k v t, .cons k' v' t' => by
    simp [zipFirst, toAttrs, KVs.keys, cmpKeyPrefix, zipFirst_keys t t']

theorem zipFirst_vals : ∀ (a b : KVs),
    zipFirst (fun x y => Otlp.cmpVal x.Value y.Value) (toAttrs a) (toAttrs b) = cmpAttrValues a b
  | .nil, _ => by simp [zipFirst, toAttrs, cmpAttrValues]
  | .cons _ _ _, .nil => by simp [zipFirst, toAttrs, cmpAttrValues]
  | .cons k v t, .cons k' v' t' => by
    simp [zipFirst, toAttrs, cmpAttrValues, zipFirst_vals t t']

theorem need_getD : ∀ (a : KVs) (j : Nat), j < (toAttrs a).length →
    need ((toAttrs a).getD j ⟨[], .empty⟩).Value ≤ needKVs a
  | .nil, j, h => by simp [toAttrs] at h
  | .cons k v t, 0, _ => by simp [toAttrs, needKVs]; omega
  | .cons k v t, j + 1, h => by
    have := need_getD t j (by simp [toAttrs] at h; omega)
    simp only [toAttrs, List.getD_cons_succ, needKVs]; omega

theorem cmpAttrs_step (fuel : Nat)
    (hval : ∀ v w, need v ≤ fuel → (cmpVal fuel v w).run () = .ret (Otlp.cmpVal v w) ())
    (a b : KVs) (ha : needKVs a + 1 ≤ fuel + 1) :
    (cmpAttrs (fuel + 1) a b).run () = .ret (Otlp.cmpAttrs a b) () := by
  simp only [cmpAttrs, run_bind, run_call, map2attrs_run]
  rw [forLt_zip (fun x y => strCompare x.Key y.Key) ⟨[], .empty⟩ (toAttrs a) (toAttrs b)]
  · rw [zipFirst_keys]
    have hlen : len (toAttrs a) - len (toAttrs b) = (a.length : Int) - (b.length : Int) := by
      simp [len, toAttrs_length]
    by_cases hk : cmpKeyPrefix a.keys b.keys = 0
    · simp only [hk, ne_eq, not_true_eq_false, if_false]
      rw [hlen]
      by_cases hl : (a.length : Int) - (b.length : Int) = 0
      · simp only [hl, ne_eq, not_true_eq_false, if_false, run_bind]
        rw [forLt_zip (fun x y => Otlp.cmpVal x.Value y.Value) ⟨[], .empty⟩ (toAttrs a) (toAttrs b)]
        · rw [zipFirst_vals]
          have hab : a.length = b.length := by omega
          by_cases hv : cmpAttrValues a b = 0
          · simp [hv, Otlp.cmpAttrs, firstNonZero, hk, hab]
          · simp [hv, Otlp.cmpAttrs, firstNonZero, hk, hab]
        · intro j hj1 hj2
          simp only [run_bind, idx_run _ _ _ ⟨[], .empty⟩ hj1, idx_run _ _ _ ⟨[], .empty⟩ hj2, run_call]
          rw [hval]
          · simp only [run_ite, run_ret, run_pure, ne_eq]
          · have := need_getD a j hj1
            omega
      · have hab : a.length ≠ b.length := by omega
        simp [hl, Otlp.cmpAttrs, firstNonZero, hk, hab]
    · simp [hk, Otlp.cmpAttrs, firstNonZero]
  · intro j hj1 hj2
    simp only [run_bind, idx_run _ _ _ ⟨[], .empty⟩ hj1, idx_run _ _ _ ⟨[], .empty⟩ hj2, run_ite, run_ret, run_pure]


def getV (vs : Values) (j : Nat) : AnyValue := (Values.get? vs j).getD .empty

theorem get?_getV : ∀ (vs : Values) (j : Nat), j < vs.length → Values.get? vs j = some (getV vs j)
  | .nil, j, h => by simp [Values.length] at h
  | .cons v t, 0, _ => by simp [Values.get?, getV]
  | .cons v t, j + 1, h => by
    have := get?_getV t j (by simp [Values.length] at h; omega)
    simp only [Values.get?, getV] at this ⊢
    exact this

theorem sliceAt_run {σ ρ : Type} (vs : Values) (j : Nat) (s : σ) (h : j < vs.length) :
    (sliceAt vs (j : Int) : M σ ρ AnyValue).run s = .next (getV vs j) s := by
  have h1 : ¬ ((j : Int) < 0) := by omega
  simp [sliceAt, h1, get?_getV vs j h]

theorem need_getV : ∀ (vs : Values) (j : Nat), j < vs.length → need (getV vs j) ≤ needVs vs
  | .nil, j, h => by simp [Values.length] at h
  | .cons v t, 0, _ => by simp [getV, Values.get?, needVs]; omega
  | .cons v t, j + 1, h => by
    have := need_getV t j (by simp [Values.length] at h; omega)
    simp only [getV, Values.get?, needVs] at this ⊢; omega

theorem firstNZ_slice : ∀ (xs ys : Values), xs.length = ys.length →
    firstNZ xs.length (fun j => Otlp.cmpVal (getV xs j) (getV ys j)) = cmpValSlice xs ys
  | .nil, _, _ => by simp [firstNZ, Values.length, cmpValSlice]
  | .cons x xs, .nil, h => by simp [Values.length] at h
  | .cons x xs, .cons y ys, h => by
    have ih := firstNZ_slice xs ys (by simp [Values.length] at h; omega)
    simp only [Values.length, firstNZ, cmpValSlice, firstNonZero]
    have e : (fun j => Otlp.cmpVal (getV (.cons x xs) (j + 1)) (getV (.cons y ys) (j + 1)))
        = (fun j => Otlp.cmpVal (getV xs j) (getV ys j)) := by
      funext j; simp [getV, Values.get?]
    rw [e, ih]
    have e0 : getV (.cons x xs) 0 = x := by simp [getV, Values.get?]
    have e1 : getV (.cons y ys) 0 = y := by simp [getV, Values.get?]
    rw [e0, e1]
    by_cases hz : Otlp.cmpVal x y = 0 <;> simp [hz]

theorem cmpVal_step (fuel : Nat)
    (hval : ∀ v w, need v ≤ fuel → (cmpVal fuel v w).run () = .ret (Otlp.cmpVal v w) ())
    (hattrs : ∀ a b, needKVs a + 1 ≤ fuel → (cmpAttrs fuel a b).run () = .ret (Otlp.cmpAttrs a b) ())
    (v w : AnyValue) (hv : need v ≤ fuel + 1) :
    (cmpVal (fuel + 1) v w).run () = .ret (Otlp.cmpVal v w) () := by
  cases v <;> cases w
  case slice.slice xs ys =>
    simp only [cmpVal, Otlp.cmpVal, valType, pdataTypeTag, ValueTypeStr, ValueTypeInt, ValueTypeBool, ValueTypeSlice,
      valSlice, sliceLen, run_bind, run_ite, run_ret, run_pure]
    simp only [Int.sub_self, ne_eq, not_true_eq_false, if_false, if_true]
    have hn : needVs xs ≤ fuel := by simp only [need] at hv; omega
    by_cases hl : xs.length = ys.length
    · have hl' : ¬ (¬ ((xs.length : Int) = (ys.length : Int))) := by omega
      simp only [hl', if_false, run_bind, forLt, Int.toNat_natCast]
      rw [forFrom_first _ 0 _ () (fun j => Otlp.cmpVal (getV xs j) (getV ys j))]
      · rw [firstNZ_slice xs ys hl]
        by_cases hz : cmpValSlice xs ys = 0 <;> simp [hz, hl]
      · intro j hj
        rw [Int.zero_add]
        simp only [run_bind, sliceAt_run xs j () hj, sliceAt_run ys j () (hl ▸ hj), run_call]
        rw [hval _ _ (Nat.le_trans (need_getV xs j hj) hn)]
        simp only [run_ite, run_ret, run_pure, ne_eq]
    · have hl' : ¬ ((xs.length : Int) = (ys.length : Int)) := by omega
      simp [hl', hl]
  case map.map a b =>
    have hn : needKVs a + 1 ≤ fuel := by simp only [need] at hv; omega
    simp only [cmpVal, Otlp.cmpVal, valType, pdataTypeTag, ValueTypeStr, ValueTypeInt, ValueTypeBool, ValueTypeSlice,
      ValueTypeEmpty, ValueTypeDouble, ValueTypeBytes, ValueTypeMap,
      valMap, run_bind, run_ite, run_ret, run_pure, run_call, hattrs a b hn]
    simp [Otlp.cmpAttrs]
  -- the 62 other pairs: different kinds (the difference of the type numbers), or two scalars of the same kind
  all_goals
    simp [cmpVal, Otlp.cmpVal, valType, pdataTypeTag, ValueTypeStr, ValueTypeInt, ValueTypeBool, ValueTypeSlice,
      ValueTypeEmpty, ValueTypeDouble, ValueTypeBytes, ValueTypeMap, valStr, valInt, valBool, valDouble, valBytes,
      run_call, cmpInt64_run, cmpBool_run]

/-- CmpVal and CmpAttrs REGENERATED = the hand models `Otlp.cmpVal`, `Otlp.cmpAttrs`, on all operands, whenever the
    fuel covers the nesting of the LEFT operand (no panic, no other outcome). -/
theorem cmp_eq (fuel : Nat) :
    (∀ v w, need v ≤ fuel → (cmpVal fuel v w).run () = .ret (Otlp.cmpVal v w) ()) ∧
    (∀ a b, needKVs a + 1 ≤ fuel → (cmpAttrs fuel a b).run () = .ret (Otlp.cmpAttrs a b) ()) := by
  induction fuel with
  | zero =>
    refine ⟨fun v w h => ?_, fun a b h => by omega⟩
    cases v <;> simp [need] at h
  | succ f ih =>
    refine ⟨fun v w h => cmpVal_step f ih.1 ih.2 v w h, fun a b h => ?_⟩
    exact cmpAttrs_step f ih.1 a b h

theorem cmpVal_eq (fuel : Nat) (v w : AnyValue) (h : need v ≤ fuel) :
    (cmpVal fuel v w).run () = .ret (Otlp.cmpVal v w) () := (cmp_eq fuel).1 v w h

theorem cmpAttrs_eq (fuel : Nat) (a b : KVs) (h : needKVs a + 1 ≤ fuel) :
    (cmpAttrs fuel a b).run () = .ret (Otlp.cmpAttrs a b) () := (cmp_eq fuel).2 a b h


/-! ### compare.go: CmpResourceSpans, CmpScopeSpans -/

theorem cmpCompareNat_eq (a b : Nat) : cmpCompareNat a b = natCompare a b := rfl

theorem cmpResourceSpans_eq (fuel : Nat) (x y : ResourceSpans) (h : needKVs x.attrs + 1 ≤ fuel) :
    (cmpResourceSpans fuel x y).run () = .ret (Otlp.cmpResourceSpans x y) () := by
  simp only [cmpResourceSpans, Otlp.cmpResourceSpans, run_bind, run_ite, run_ret, run_pure, run_call, rsResource,
    cmpAttrs_eq fuel x.attrs y.attrs h, cmpCompareNat_eq, firstNonZero]
  by_cases h1 : strCompare x.url y.url = 0
  · by_cases h2 : Otlp.cmpAttrs x.attrs y.attrs = 0 <;>
      simp [h1, h2, run_call, cmpAttrs_eq fuel x.attrs y.attrs h]
  · simp [h1]

theorem cmpScopeSpans_eq (fuel : Nat) (x y : ScopeSpans) (h : needKVs x.attrs + 1 ≤ fuel) :
    (cmpScopeSpans fuel x y).run () = .ret (Otlp.cmpScopeSpans x y) () := by
  simp only [cmpScopeSpans, Otlp.cmpScopeSpans, run_bind, run_ite, run_ret, run_pure, run_call, ssScope,
    cmpAttrs_eq fuel x.attrs y.attrs h, cmpCompareNat_eq, firstNonZero]
  by_cases h1 : strCompare x.name y.name = 0
  · by_cases h2 : strCompare x.ver y.ver = 0
    · by_cases h3 : strCompare x.url y.url = 0
      · by_cases h4 : Otlp.cmpAttrs x.attrs y.attrs = 0 <;>
          simp [h1, h2, h3, h4, run_call, cmpAttrs_eq fuel x.attrs y.attrs h]
      · simp [h1, h2, h3]
    · simp [h1, h2]
  · simp [h1]


/-! ### otlpval2tef.go: the stores -/

theorem SVals.length_ensure : ∀ (n : Nat) (st : SVals), n ≤ (SVals.ensure n st).length
  | 0, _ => Nat.zero_le _
  | n + 1, .nil => by simp only [SVals.ensure, SVals.length]; have := SVals.length_ensure n .nil; omega
  | n + 1, .cons v t => by simp only [SVals.ensure, SVals.length]; have := SVals.length_ensure n t; omega

theorem SVals.length_resetRange : ∀ (lo c : Nat) (st : SVals), (SVals.resetRange lo c st).length = st.length
  | _, _, .nil => by simp [SVals.resetRange]
  | 0, 0, .cons v t => by simp [SVals.resetRange]
  | 0, c + 1, .cons v t => by simp [SVals.resetRange, SVals.length, SVals.length_resetRange 0 c t]
  | lo + 1, c, .cons v t => by simp [SVals.resetRange, SVals.length, SVals.length_resetRange lo c t]

theorem length_arrEnsureLen (st : SVals) (len n : Nat) : n ≤ (arrEnsureLen st len n).length := by
  simp only [arrEnsureLen, SVals.length_resetRange]; exact SVals.length_ensure n st

theorem SKVs.length_ensure : ∀ (n : Nat) (st : SKVs), n ≤ (SKVs.ensure n st).length
  | 0, _ => Nat.zero_le _
  | n + 1, .nil => by simp only [SKVs.ensure, SKVs.length]; have := SKVs.length_ensure n .nil; omega
  | n + 1, .cons k v t => by simp only [SKVs.ensure, SKVs.length]; have := SKVs.length_ensure n t; omega

theorem SKVs.length_resetRange : ∀ (lo c : Nat) (st : SKVs), (SKVs.resetRange lo c st).length = st.length
  | _, _, .nil => by simp [SKVs.resetRange]
  | 0, 0, .cons k v t => by simp [SKVs.resetRange]
  | 0, c + 1, .cons k v t => by simp [SKVs.resetRange, SKVs.length, SKVs.length_resetRange 0 c t]
  | lo + 1, c, .cons k v t => by simp [SKVs.resetRange, SKVs.length, SKVs.length_resetRange lo c t]

theorem length_kvEnsureLen (st : SKVs) (len n : Nat) : n ≤ (kvEnsureLen st len n).length := by
  simp only [kvEnsureLen, SKVs.length_resetRange]; exact SKVs.length_ensure n st

/-- element `j` of a store (a never-used value beyond its end) -/
def getS (st : SVals) (j : Nat) : SVal := (SVals.get? st j).getD SVal.fresh

theorem SVals.get?_lt : ∀ (st : SVals) (j : Nat), j < st.length → SVals.get? st j = some (getS st j)
  | .nil, j, h => by simp [SVals.length] at h
  | .cons v t, 0, _ => by simp [SVals.get?, getS]
  | .cons v t, j + 1, h => by
    have := SVals.get?_lt t j (by simp [SVals.length] at h; omega)
    simp only [SVals.get?, getS] at this ⊢
    exact this

theorem SVals.length_set : ∀ (st : SVals) (j : Nat) (x : SVal), (SVals.set st j x).length = st.length
  | .nil, _, _ => rfl
  | .cons v t, 0, x => by simp [SVals.set, SVals.length]
  | .cons v t, j + 1, x => by simp [SVals.set, SVals.length, SVals.length_set t j x]

/-- one round of the slice loop of otlpValueToTefAnyValue on the store -/
def stepV (vs : Values) (j : Nat) (st : SVals) : SVals := SVals.set st j (otlpToTef (getV vs j) (getS st j))

/-- `r` rounds starting at index `j` -/
def convAt (vs : Values) : Nat → Nat → SVals → SVals
  | _, 0, st => st
  | j, r + 1, st => convAt vs (j + 1) r (stepV vs j st)

theorem stepV_cons (v : AnyValue) (vs : Values) (s : SVal) (st : SVals) (j : Nat) :
    stepV (.cons v vs) (j + 1) (.cons s st) = .cons s (stepV vs j st) := by
  simp [stepV, SVals.set, getV, Values.get?, getS, SVals.get?]

theorem convAt_cons (v : AnyValue) (vs : Values) (s : SVal) : ∀ (r j : Nat) (st : SVals),
    convAt (.cons v vs) (j + 1) r (.cons s st) = .cons s (convAt vs j r st)
  | 0, _, _ => rfl
  | r + 1, j, st => by simp only [convAt, stepV_cons, convAt_cons v vs s r (j + 1)]

theorem convAt_sliceInto : ∀ (vs : Values) (st : SVals), vs.length ≤ st.length → convAt vs 0 vs.length st = sliceInto vs st
  | .nil, st, _ => by simp [Values.length, convAt, sliceInto]
  | .cons v vs, .nil, h => by simp [Values.length, SVals.length] at h
  | .cons v vs, .cons s st, h => by
    have ih := convAt_sliceInto vs st (by simp [Values.length, SVals.length] at h; omega)
    simp only [Values.length, convAt]
    have e : stepV (.cons v vs) 0 (.cons s st) = .cons (otlpToTef v s) st := by
      simp [stepV, SVals.set, getV, Values.get?, getS, SVals.get?]
    rw [e, convAt_cons, ih, sliceInto]

theorem length_stepV (vs : Values) (j : Nat) (st : SVals) : (stepV vs j st).length = st.length := by
  simp [stepV, SVals.length_set]

/-- a counting loop whose round `j` turns the state `mk (store)` into `mk (step j store)` -/
theorem forFrom_fold {σ ρ τ : Type} (mk : τ → σ) (step : Nat → τ → τ) (inv : τ → Prop) (body : Int → M σ ρ Unit)
    (n : Nat) (hinv : ∀ j t, inv t → inv (step j t))
    (hb : ∀ j t, j < n → inv t → (body (j : Int)).run (mk t) = .next () (mk (step j t))) :
    ∀ (r j : Nat) (t : τ), j + r = n → inv t →
      ∃ t', forFrom r (j : Int) body (mk t) = .next () (mk t') ∧ inv t' ∧
        t' = (List.range' j r).foldl (fun acc i => step i acc) t
  | 0, j, t, _, hi => ⟨t, by simp [forFrom], hi, by simp⟩
  | r + 1, j, t, hj, hi => by
    obtain ⟨t', h1, h2, h3⟩ := forFrom_fold mk step inv body n hinv hb r (j + 1) (step j t) (by omega) (hinv j t hi)
    refine ⟨t', ?_, h2, ?_⟩
    · unfold forFrom
      rw [hb j t (by omega) hi]
      simp only
      have : ((j : Int) + 1) = ((j + 1 : Nat) : Int) := by omega
      rw [this]; exact h1
    · rw [h3]; simp [List.range'_succ]

theorem forFrom_fold0 {σ ρ τ : Type} (mk : τ → σ) (step : Nat → τ → τ) (inv : τ → Prop) (body : Int → M σ ρ Unit)
    (n : Nat) (t : τ) (hinv : ∀ j t, inv t → inv (step j t))
    (hb : ∀ j t, j < n → inv t → (body (j : Int)).run (mk t) = .next () (mk (step j t))) (hi : inv t) :
    forFrom n 0 body (mk t) = .next () (mk ((List.range' 0 n).foldl (fun acc i => step i acc) t)) := by
  obtain ⟨t', h1, _, h3⟩ := forFrom_fold mk step inv body n hinv hb n 0 t (by omega) hi
  have e0 : ((0 : Nat) : Int) = 0 := rfl
  rw [e0] at h1
  rw [h1, h3]

theorem convAt_fold (vs : Values) : ∀ (r j : Nat) (st : SVals),
    (List.range' j r).foldl (fun acc i => stepV vs i acc) st = convAt vs j r st
  | 0, _, _ => by simp [convAt]
  | r + 1, j, st => by simp [List.range'_succ, convAt, convAt_fold vs r (j + 1)]


/-- value `j` of a key/value store -/
def getKS (st : SKVs) (j : Nat) : SVal := ((SKVs.get? st j).map (·.2)).getD SVal.fresh

def SKVs.setKV : SKVs → Nat → Str → SVal → SKVs
  | .nil, _, _, _ => .nil
  | .cons _ _ t, 0, k, x => .cons k x t
  | .cons k' v t, n + 1, k, x => .cons k' v (SKVs.setKV t n k x)

theorem SKVs.get?_lt : ∀ (st : SKVs) (j : Nat), j < st.length → (SKVs.get? st j).map (·.2) = some (getKS st j)
  | .nil, j, h => by simp [SKVs.length] at h
  | .cons k v t, 0, _ => by simp [SKVs.get?, getKS]
  | .cons k v t, j + 1, h => by
    have := SKVs.get?_lt t j (by simp [SKVs.length] at h; omega)
    simp only [SKVs.get?, getKS] at this ⊢
    exact this

theorem SKVs.length_setKV : ∀ (st : SKVs) (j : Nat) (k : Str) (x : SVal), (SKVs.setKV st j k x).length = st.length
  | .nil, _, _, _ => rfl
  | .cons _ v t, 0, k, x => by simp [SKVs.setKV, SKVs.length]
  | .cons _ v t, j + 1, k, x => by simp [SKVs.setKV, SKVs.length, SKVs.length_setKV t j k x]

theorem SKVs.length_setKey : ∀ (st : SKVs) (j : Nat) (k : Str), (SKVs.setKey st j k).length = st.length
  | .nil, _, _ => rfl
  | .cons _ v t, 0, k => by simp [SKVs.setKey, SKVs.length]
  | .cons _ v t, j + 1, k => by simp [SKVs.setKey, SKVs.length, SKVs.length_setKey t j k]

theorem SKVs.length_setVal : ∀ (st : SKVs) (j : Nat) (x : SVal), (SKVs.setVal st j x).length = st.length
  | .nil, _, _ => rfl
  | .cons _ v t, 0, x => by simp [SKVs.setVal, SKVs.length]
  | .cons _ v t, j + 1, x => by simp [SKVs.setVal, SKVs.length, SKVs.length_setVal t j x]

theorem SKVs.setVal_setKey : ∀ (st : SKVs) (j : Nat) (k : Str) (x : SVal),
    SKVs.setVal (SKVs.setKey st j k) j x = SKVs.setKV st j k x
  | .nil, _, _, _ => rfl
  | .cons _ v t, 0, k, x => rfl
  | .cons _ v t, j + 1, k, x => by simp [SKVs.setKey, SKVs.setVal, SKVs.setKV, SKVs.setVal_setKey t j k x]

theorem SKVs.setKey_setVal : ∀ (st : SKVs) (j : Nat) (k : Str) (x : SVal),
    SKVs.setKey (SKVs.setVal st j x) j k = SKVs.setKV st j k x
  | .nil, _, _, _ => rfl
  | .cons _ v t, 0, k, x => rfl
  | .cons _ v t, j + 1, k, x => by simp [SKVs.setKey, SKVs.setVal, SKVs.setKV, SKVs.setKey_setVal t j k x]

theorem getKS_setKey : ∀ (st : SKVs) (j : Nat) (k : Str), getKS (SKVs.setKey st j k) j = getKS st j
  | .nil, _, _ => rfl
  | .cons _ v t, 0, k => rfl
  | .cons _ v t, j + 1, k => by
    have := getKS_setKey t j k
    simp only [getKS, SKVs.setKey, SKVs.get?] at this ⊢
    exact this

/-- one round of the map loops (otlpValueToTefAnyValue's map case, MapUnsorted, MapSorted) on the store -/
def stepK (j : Nat) (k : Str) (v : AnyValue) (st : SKVs) : SKVs := SKVs.setKV st j k (otlpToTef v (getKS st j))

def zipFold {τ : Type} (step : Nat → Str → AnyValue → τ → τ) : Nat → KVs → τ → τ
  | _, .nil, t => t
  | j, .cons k v r, t => zipFold step (j + 1) r (step j k v t)

theorem stepK_cons (k0 : Str) (s : SVal) (st : SKVs) (j : Nat) (k : Str) (v : AnyValue) :
    stepK (j + 1) k v (.cons k0 s st) = .cons k0 s (stepK j k v st) := by
  simp [stepK, SKVs.setKV, getKS, SKVs.get?]

theorem zipFold_cons (k0 : Str) (s : SVal) : ∀ (rest : KVs) (j : Nat) (st : SKVs),
    zipFold stepK (j + 1) rest (.cons k0 s st) = .cons k0 s (zipFold stepK j rest st)
  | .nil, _, _ => rfl
  | .cons k v r, j, st => by simp only [zipFold, stepK_cons, zipFold_cons k0 s r (j + 1)]

theorem zipFold_zipInto : ∀ (kvs : KVs) (st : SKVs), kvs.length ≤ st.length → zipFold stepK 0 kvs st = zipInto kvs st
  | .nil, st, _ => by simp [zipFold, zipInto]
  | .cons k v r, .nil, h => by simp [KVs.length, SKVs.length] at h
  | .cons k v r, .cons k0 s st, h => by
    have ih := zipFold_zipInto r st (by simp [KVs.length, SKVs.length] at h; omega)
    simp only [zipFold]
    have e : stepK 0 k v (.cons k0 s st) = .cons k (otlpToTef v s) st := by
      simp [stepK, SKVs.setKV, getKS, SKVs.get?]
    rw [e, zipFold_cons, ih, zipInto]

theorem length_stepK (j : Nat) (k : Str) (v : AnyValue) (st : SKVs) : (stepK j k v st).length = st.length := by
  simp [stepK, SKVs.length_setKV]

/-- every entry satisfies `P` -/
def allKV (P : Str → AnyValue → Prop) : KVs → Prop
  | .nil => True
  | .cons k v t => P k v ∧ allKV P t

theorem allKV_need (fuel : Nat) : ∀ (kvs : KVs), needKVs kvs ≤ fuel → allKV (fun _ v => need v ≤ fuel) kvs
  | .nil, _ => trivial
  | .cons k v t, h => by
    simp only [needKVs] at h
    exact ⟨by omega, allKV_need fuel t (by omega)⟩

/-- a Range loop with a counter whose round `j` turns the state `mk t` into `mk (step j k v t)` -/
theorem forRange_fold {σ ρ τ : Type} (mk : τ → σ) (step : Nat → Str → AnyValue → τ → τ) (inv : τ → Prop)
    (P : Str → AnyValue → Prop)
    (body : Str → AnyValue → Int → M σ ρ Int) (n : Nat) (hinv : ∀ j k v t, inv t → inv (step j k v t))
    (hb : ∀ j k v t, j < n → inv t → P k v →
      (body k v (j : Int)).run (mk t) = .next ((j : Int) + 1) (mk (step j k v t))) :
    ∀ (rest : KVs) (j : Nat) (t : τ), j + rest.length = n → inv t → allKV P rest →
      forRangeRun body rest (j : Int) (mk t) = .next ((j + rest.length : Nat) : Int) (mk (zipFold step j rest t))
  | .nil, j, t, _, _, _ => by simp [forRangeRun, KVs.length, zipFold]
  | .cons k v r, j, t, hj, hi, hp => by
    have hj' : j + 1 + r.length = n := by simp [KVs.length] at hj; omega
    have ih := forRange_fold mk step inv P body n hinv hb r (j + 1) (step j k v t) hj' (hinv j k v t hi) hp.2
    unfold forRangeRun
    rw [hb j k v t (by omega) hi hp.1]
    simp only
    have e : ((j : Int) + 1) = ((j + 1 : Nat) : Int) := by omega
    rw [e, ih]
    simp only [zipFold, KVs.length]
    congr 2
    omega

theorem forRange_fold0 {σ ρ τ : Type} (mk : τ → σ) (step : Nat → Str → AnyValue → τ → τ) (inv : τ → Prop)
    (P : Str → AnyValue → Prop)
    (body : Str → AnyValue → Int → M σ ρ Int) (kvs : KVs) (t : τ) (hinv : ∀ j k v t, inv t → inv (step j k v t))
    (hb : ∀ j k v t, j < kvs.length → inv t → P k v →
      (body k v (j : Int)).run (mk t) = .next ((j : Int) + 1) (mk (step j k v t)))
    (hi : inv t) (hp : allKV P kvs) :
    forRangeRun body kvs 0 (mk t) = .next (kvs.length : Int) (mk (zipFold step 0 kvs t)) := by
  have := forRange_fold mk step inv P body kvs.length hinv hb kvs 0 t (by omega) hi hp
  simpa using this

theorem kvListP_get (c : SCur) (a : SVals) (al : Nat) (k : SKVs) (kl : Nat) :
    (Ptr.here.comp SVal.kvListP).get (.mk c a al k kl) = some ⟨k, kl⟩ := rfl

theorem kvListP_set (c : SCur) (a : SVals) (al : Nat) (k : SKVs) (kl : Nat) (x : SAttrs) :
    (Ptr.here.comp SVal.kvListP).set (.mk c a al k kl) x = .mk c a al x.store x.len := rfl

/-! ### otlpval2tef.go: otlpValueToTefAnyValue -/

@[simp] theorem here_get {σ : Type} (s : σ) : (Ptr.here : Ptr σ σ).get s = some s := rfl
@[simp] theorem here_set {σ : Type} (s t : σ) : (Ptr.here : Ptr σ σ).set s t = t := rfl
@[simp] theorem comp_get {σ τ υ : Type} (p : Ptr σ τ) (q : Ptr τ υ) (s : σ) :
    (p.comp q).get s = (p.get s).bind q.get := rfl
@[simp] theorem comp_set {σ τ υ : Type} (p : Ptr σ τ) (q : Ptr τ υ) (s : σ) (u : υ) :
    (p.comp q).set s u = match p.get s with
      | some t => p.set s (q.set t u)
      | none => s := rfl

theorem run_upd {σ ρ τ : Type} (p : Ptr σ τ) (f : τ → Option τ) (s : σ) (t t' : τ) (h1 : p.get s = some t)
    (h2 : f t = some t') : (upd p f : M σ ρ Unit).run s = .next () (p.set s t') := by
  simp [upd, h1, h2]

theorem run_focus {σ τ ρ ρ' : Type} (p : Ptr σ τ) (f : M τ ρ' ρ') (s : σ) (t t' : τ) (a : ρ') (h1 : p.get s = some t)
    (h2 : f.run t = .next a t') : (focus p f : M σ ρ ρ').run s = .next a (p.set s t') := by
  simp [focus, h1, h2]

theorem run_focus_ret {σ τ ρ ρ' : Type} (p : Ptr σ τ) (f : M τ ρ' ρ') (s : σ) (t t' : τ) (a : ρ') (h1 : p.get s = some t)
    (h2 : f.run t = .ret a t') : (focus p f : M σ ρ ρ').run s = .next a (p.set s t') := by
  simp [focus, h1, h2]

theorem o2t_step (fuel : Nat)
    (ih : ∀ v into, need v ≤ fuel → (otlpValueToTefAnyValue fuel v).run into = .next () (otlpToTef v into))
    (v : AnyValue) (into : SVal) (hv : need v ≤ fuel + 1) :
    (otlpValueToTefAnyValue (fuel + 1) v).run into = .next () (otlpToTef v into) := by
  cases v
  case slice vs =>
    have hn : needVs vs ≤ fuel := by simp only [need] at hv; omega
    cases h : into.setTypeArray with
    | mk c a al k kl =>
      have hnn : ¬ ((vs.length : Int) < 0) := by omega
      simp only [otlpValueToTefAnyValue, otlpToTef, valType, pdataTypeTag, ValueTypeStr, ValueTypeInt, ValueTypeBool,
        ValueTypeSlice, ValueTypeEmpty, ValueTypeDouble, ValueTypeBytes, ValueTypeMap, valSlice, sliceLen,
        run_bind, run_ite, upd, SVal.setType, here_get, here_set, comp_get, comp_set, h, Option.bind_some,
        SVal.arrayP, arrEnsureLenOp, hnn, if_false, Int.toNat_natCast, forLt]
      simp only [Nat.reduceEqDiff, if_false, if_true]
      obtain ⟨t', h1, _, h3⟩ := forFrom_fold (ρ := Unit) (fun st => SVal.mk c st vs.length k kl) (stepV vs)
        (fun st => vs.length ≤ st.length)
        (fun i => do
          let __do_lift ← sliceAt vs i
          focus ((Ptr.here.comp SVal.arrayP).comp (SArr.atP i)) (otlpValueToTefAnyValue fuel __do_lift))
        vs.length (fun j t hi => by rw [length_stepV]; exact hi)
        (fun j t hj hi => by
          have hjl : j < t.length := Nat.lt_of_lt_of_le hj hi
          have hj0 : ¬ ((j : Int) < 0) := by omega
          simp only [run_bind, sliceAt_run vs j _ hj]
          rw [run_focus _ _ _ (getS t j) (otlpToTef (getV vs j) (getS t j)) ()]
          · simp [SVal.arrayP, SArr.atP, stepV]
          · simp [SVal.arrayP, SArr.atP, hj0, hj, SVals.get?_lt t j hjl]
          · exact ih _ _ (Nat.le_trans (need_getV vs j hj) hn))
        vs.length 0 (arrEnsureLen a al vs.length) (by omega) (length_arrEnsureLen a al vs.length)
      have e0 : ((0 : Nat) : Int) = 0 := rfl
      rw [e0] at h1
      simp only [SVal.arrayP] at h1
      rw [h1, h3, convAt_fold, convAt_sliceInto vs _ (length_arrEnsureLen a al vs.length)]
  case map kvs =>
    have hn : needKVs kvs ≤ fuel := by simp only [need] at hv; omega
    cases h : into.setTypeKVList with
    | mk c a al k kl =>
      have hnn : ¬ ((kvs.length : Int) < 0) := by omega
      simp only [otlpValueToTefAnyValue, otlpToTef, valType, pdataTypeTag, ValueTypeStr, ValueTypeInt, ValueTypeBool,
        ValueTypeSlice, ValueTypeEmpty, ValueTypeDouble, ValueTypeBytes, ValueTypeMap, valMap, mapLen,
        run_bind, run_ite, h, forRange, run_pure]
      simp only [Nat.reduceEqDiff, if_false, if_true]
      rw [run_upd Ptr.here _ into into (SVal.mk c a al k kl) rfl (by simp [SVal.setType, h])]
      simp only [here_set]
      rw [run_upd (Ptr.here.comp SVal.kvListP) _ _ ⟨k, kl⟩ ⟨kvEnsureLen k kl kvs.length, kvs.length⟩
        (kvListP_get ..) (by simp [kvEnsureLenOp, hnn])]
      rw [kvListP_set]
      dsimp only
      rw [forRange_fold0 (fun st => SVal.mk c a al st kvs.length) stepK (fun st => kvs.length ≤ st.length)
        (fun _ v => need v ≤ fuel) _ kvs
        (kvEnsureLen k kl kvs.length) (fun j k v t hi => by rw [length_stepK]; exact hi) ?_
        (length_kvEnsureLen k kl kvs.length) (allKV_need fuel kvs hn)]
      · simp only [zipFold_zipInto kvs _ (length_kvEnsureLen k kl kvs.length)]
      · intro j key v t hj hi hp
        have hjl : j < t.length := Nat.lt_of_lt_of_le hj hi
        have hj0 : ¬ ((j : Int) < 0) := by omega
        simp only [run_bind]
        rw [run_upd (Ptr.here.comp SVal.kvListP) _ _ ⟨t, kvs.length⟩ ⟨SKVs.setKey t j key, kvs.length⟩
          (kvListP_get ..) (by simp [kvSetKeyOp, hj0, hj, hjl])]
        rw [kvListP_set]
        dsimp only
        rw [run_focus _ _ _ (getKS t j) (otlpToTef v (getKS t j)) ()]
        · simp [SVal.kvListP, SAttrs.valueP, stepK, SKVs.setVal_setKey]
        · have hjl' : j < (SKVs.setKey t j key).length := by rw [SKVs.length_setKey]; exact hjl
          have := SKVs.get?_lt (SKVs.setKey t j key) j hjl'
          rw [getKS_setKey] at this
          simp [SVal.kvListP, SAttrs.valueP, hj0, hj, this]
        · exact ih _ _ hp
  -- the six scalar kinds: one setter each
  all_goals
    simp [otlpValueToTefAnyValue, otlpToTef, valType, pdataTypeTag, ValueTypeStr, ValueTypeInt, ValueTypeBool,
      ValueTypeSlice, ValueTypeEmpty, ValueTypeDouble, ValueTypeBytes, ValueTypeMap, valStr, valInt, valBool, valDouble,
      valBytes, upd, SVal.setType]

/-- otlpValueToTefAnyValue REGENERATED = the hand model `otlpToTef`, on every value and every re-used destination
    (hidden storage included), whenever the fuel covers the nesting of the value: no panic, no other outcome. -/
theorem otlpValueToTefAnyValue_eq (fuel : Nat) : ∀ (v : AnyValue) (into : SVal), need v ≤ fuel →
    (otlpValueToTefAnyValue fuel v).run into = .next () (otlpToTef v into) := by
  induction fuel with
  | zero => intro v into h; cases v <;> simp [need] at h
  | succ f ih => intro v into h; exact o2t_step f ih v into h

/-! ### otlpval2tef.go: MapUnsorted -/

theorem outP_get (o : Otlp2Stef) (out : SAttrs) : MapSt.outP.get ⟨o, out⟩ = some out := rfl
theorem outP_set (o : Otlp2Stef) (out x : SAttrs) : MapSt.outP.set ⟨o, out⟩ x = ⟨o, x⟩ := rfl

/-- MapUnsorted REGENERATED = `SAttrs.mapUnsorted` on the destination, for every map, every re-used destination
    and whatever the converter's scratch slice holds (which it leaves alone). -/
theorem mapUnsorted_eq (fuel : Nat) (m : KVs) (o : Otlp2Stef) (out : SAttrs) (hn : needKVs m ≤ fuel) :
    (mapUnsorted fuel m).run ⟨o, out⟩ = .next () ⟨o, SAttrs.mapUnsorted m out⟩ := by
  have hnn : ¬ ((m.length : Int) < 0) := by omega
  simp only [mapUnsorted, mapLen, run_bind, forRange, run_pure]
  rw [run_upd MapSt.outP _ _ out ⟨kvEnsureLen out.store out.len m.length, m.length⟩ (outP_get ..)
    (by simp [kvEnsureLenOp, hnn])]
  rw [outP_set]
  dsimp only
  rw [forRange_fold0 (fun st => (⟨o, ⟨st, m.length⟩⟩ : MapSt)) stepK (fun st => m.length ≤ st.length)
    (fun _ v => need v ≤ fuel) _ m
    (kvEnsureLen out.store out.len m.length) (fun j k v t hi => by rw [length_stepK]; exact hi) ?_
    (length_kvEnsureLen out.store out.len m.length) (allKV_need fuel m hn)]
  · simp only [zipFold_zipInto m _ (length_kvEnsureLen out.store out.len m.length), SAttrs.mapUnsorted]
  · intro j key v t hj hi hp
    have hjl : j < t.length := Nat.lt_of_lt_of_le hj hi
    have hj0 : ¬ ((j : Int) < 0) := by omega
    simp only [run_bind]
    rw [run_focus _ _ _ (getKS t j) (otlpToTef v (getKS t j)) ()]
    · simp only [comp_set, outP_get, outP_set, SAttrs.valueP, Int.toNat_natCast]
      rw [run_upd MapSt.outP _ _ ⟨SKVs.setVal t j (otlpToTef v (getKS t j)), m.length⟩
        ⟨stepK j key v t, m.length⟩ (outP_get ..)
        (by simp [kvSetKeyOp, hj0, hj, hjl, SKVs.length_setVal, stepK, SKVs.setKey_setVal])]
      simp [outP_set]
    · simp [outP_get, SAttrs.valueP, hj0, hj, SKVs.get?_lt t j hjl]
    · exact otlpValueToTefAnyValue_eq fuel _ _ hp


/-! ### otlpval2tef.go: MapSorted -/

def toElems : KVs → List Elem
  | .nil => []
  | .cons k v t => ⟨k, v⟩ :: toElems t

theorem toElems_length : ∀ (m : KVs), (toElems m).length = m.length
  | .nil => rfl
  | .cons _ _ t => by simp [toElems, KVs.length, toElems_length t]

/-- the comparison closure of MapSorted -/
def keyCmp : Elem → Elem → Int := fun a b => strCompare a.str b.str

theorem toElems_insertByKey (k : Str) (v : AnyValue) : ∀ (l : KVs),
    toElems (KVs.insertByKey k v l) = insertBy keyCmp ⟨k, v⟩ (toElems l)
  | .nil => rfl
  | .cons k' v' t => by
    simp only [KVs.insertByKey, toElems, insertBy, keyCmp]
    by_cases h : strCompare k k' < 0
    · simp [h, toElems]
    · simp [h, toElems, toElems_insertByKey k v t, keyCmp]

theorem toElems_sortAux : ∀ (l acc : KVs),
    toElems (KVs.sortAux l acc) = (toElems l).foldl (fun acc x => insertBy keyCmp x acc) (toElems acc)
  | .nil, acc => rfl
  | .cons k v t, acc => by
    simp only [KVs.sortAux, toElems, List.foldl_cons, toElems_sortAux t, toElems_insertByKey]

theorem toElems_sortByKey (m : KVs) : toElems m.sortByKey = sortFunc keyCmp (toElems m) := by
  simp [KVs.sortByKey, sortFunc, toElems_sortAux, toElems]

theorem needKVs_insertByKey (k : Str) (v : AnyValue) : ∀ (l : KVs),
    needKVs (KVs.insertByKey k v l) = max (need v) (needKVs l)
  | .nil => rfl
  | .cons k' v' t => by
    simp only [KVs.insertByKey]
    split
    · simp [needKVs]
    · simp only [needKVs, needKVs_insertByKey k v t]; omega

theorem needKVs_sortAux : ∀ (l acc : KVs), needKVs (KVs.sortAux l acc) = max (needKVs l) (needKVs acc)
  | .nil, acc => by simp [KVs.sortAux, needKVs]
  | .cons k v t, acc => by
    simp only [KVs.sortAux, needKVs_sortAux t, needKVs_insertByKey, needKVs]; omega

theorem needKVs_sortByKey (m : KVs) : needKVs m.sortByKey = needKVs m := by
  simp [KVs.sortByKey, needKVs_sortAux, needKVs]

theorem KVs.length_insertByKey (k : Str) (v : AnyValue) : ∀ (l : KVs), (KVs.insertByKey k v l).length = l.length + 1
  | .nil => rfl
  | .cons k' v' t => by
    simp only [KVs.insertByKey]
    split
    · simp [KVs.length]
    · simp [KVs.length, KVs.length_insertByKey k v t]

theorem KVs.length_sortAux : ∀ (l acc : KVs), (KVs.sortAux l acc).length = l.length + acc.length
  | .nil, acc => by simp [KVs.sortAux, KVs.length]
  | .cons k v t, acc => by
    simp only [KVs.sortAux, KVs.length_sortAux t, KVs.length_insertByKey, KVs.length]; omega

theorem KVs.length_sortByKey (m : KVs) : m.sortByKey.length = m.length := by
  simp [KVs.sortByKey, KVs.length_sortAux, KVs.length]

/-- the fill loop of MapSorted on the scratch slice -/
def stepL (j : Nat) (k : Str) (v : AnyValue) (l : List Elem) : List Elem := l.set j ⟨k, v⟩

theorem zipFold_stepL_cons (x : Elem) : ∀ (rest : KVs) (j : Nat) (l : List Elem),
    zipFold stepL (j + 1) rest (x :: l) = x :: zipFold stepL j rest l
  | .nil, _, _ => rfl
  | .cons k v r, j, l => by simp only [zipFold, stepL, List.set_cons_succ, zipFold_stepL_cons x r (j + 1)]

theorem zipFold_stepL : ∀ (m : KVs) (l : List Elem), l.length = m.length → zipFold stepL 0 m l = toElems m
  | .nil, l, h => by
    simp only [KVs.length] at h
    simp [zipFold, toElems, List.length_eq_zero_iff.mp h]
  | .cons k v r, [], h => by simp [KVs.length] at h
  | .cons k v r, x :: l, h => by
    have ih := zipFold_stepL r l (by simp [KVs.length] at h; omega)
    simp only [zipFold, stepL, List.set_cons_zero, zipFold_stepL_cons, ih, toElems]

/-- one round of the write loop of MapSorted on the destination store -/
def stepE (S : List Elem) (j : Nat) (st : SKVs) : SKVs :=
  stepK j (S.getD j Elem.zero).str (S.getD j Elem.zero).val st

theorem rangeFold_zipFold : ∀ (rest : KVs) (pre : List Elem) (st : SKVs),
    (List.range' pre.length rest.length).foldl (fun acc i => stepE (pre ++ toElems rest) i acc) st
      = zipFold stepK pre.length rest st
  | .nil, pre, st => by simp [KVs.length, zipFold]
  | .cons k v r, pre, st => by
    have ih := rangeFold_zipFold r (pre ++ [⟨k, v⟩]) (stepK pre.length k v st)
    simp only [List.length_append, List.length_singleton, List.append_assoc, List.singleton_append] at ih
    simp only [KVs.length, List.range'_succ, List.foldl_cons, zipFold, toElems]
    have e : stepE (pre ++ ⟨k, v⟩ :: toElems r) pre.length st = stepK pre.length k v st := by
      simp [stepE, List.getD]
    rw [e]
    exact ih

theorem need_toElems_getD : ∀ (a : KVs) (j : Nat), j < (toElems a).length →
    need ((toElems a).getD j Elem.zero).val ≤ needKVs a
  | .nil, j, h => by simp [toElems] at h
  | .cons k v t, 0, _ => by simp [toElems, needKVs]; omega
  | .cons k v t, j + 1, h => by
    have := need_toElems_getD t j (by simp [toElems] at h; omega)
    simp only [toElems, List.getD_cons_succ, needKVs]; omega

theorem oElems_get (l : List Elem) (out : SAttrs) :
    (MapSt.oP.comp Otlp2Stef.attrElemsP).get ⟨⟨l⟩, out⟩ = some l := rfl
theorem oElems_set (l x : List Elem) (out : SAttrs) :
    (MapSt.oP.comp Otlp2Stef.attrElemsP).set ⟨⟨l⟩, out⟩ x = ⟨⟨x⟩, out⟩ := rfl

theorem run_rd {σ ρ τ : Type} (p : Ptr σ τ) (s : σ) (t : τ) (h : p.get s = some t) :
    (rd p : M σ ρ τ).run s = .next t s := by simp [rd, h]

/-- MapSorted REGENERATED: the destination becomes `SAttrs.mapSorted m out` (the entries in key order), the scratch
    slice holds the sorted entries - for every map, every re-used destination and every previous content of the
    scratch slice. -/
theorem mapSorted_eq (fuel : Nat) (m : KVs) (o : Otlp2Stef) (out : SAttrs) (hn : needKVs m ≤ fuel) :
    (mapSorted fuel m).run ⟨o, out⟩ = .next () ⟨⟨toElems m.sortByKey⟩, SAttrs.mapSorted m out⟩ := by
  have hnn : ¬ ((m.length : Int) < 0) := by omega
  cases o with
  | mk l0 =>
  simp only [mapSorted, mapLen, run_bind, forRange, run_pure]
  -- o.attrElems = pkg.EnsureLen(o.attrElems, m.Len())
  rw [run_upd _ _ _ l0 (l0.take m.length ++ List.replicate (m.length - l0.length) Elem.zero) (oElems_get ..)
    (by simp [pkgEnsureLen, hnn])]
  rw [oElems_set]
  dsimp only
  -- the fill loop
  rw [forRange_fold0 (fun l => (⟨⟨l⟩, out⟩ : MapSt)) stepL (fun l => l.length = m.length) (fun _ _ => True) _ m
    _ (fun j k v t hi => by simp [stepL, hi]) ?_ (by simp; omega) (by
      have : ∀ (kvs : KVs), allKV (fun _ _ => True) kvs := by
        intro kvs; induction kvs using KVs.rec (motive_1 := fun _ => True) (motive_2 := fun _ => True) <;> simp_all [allKV]
      exact this m)]
  · rw [zipFold_stepL m _ (by simp; omega)]
    dsimp only
    -- slices.SortFunc
    rw [run_upd _ _ _ (toElems m) (toElems m.sortByKey) (oElems_get ..) (by rw [toElems_sortByKey]; rfl)]
    rw [oElems_set]
    dsimp only
    -- out.EnsureLen(m.Len())
    rw [run_upd MapSt.outP _ _ out ⟨kvEnsureLen out.store out.len m.length, m.length⟩ (outP_get ..)
      (by simp [kvEnsureLenOp, hnn])]
    rw [outP_set]
    dsimp only
    rw [run_rd _ _ (toElems m.sortByKey) (oElems_get ..)]
    dsimp only
    have hS : (toElems m.sortByKey).length = m.length := by rw [toElems_length, KVs.length_sortByKey]
    simp only [forLt, len, Int.toNat_natCast, hS]
    rw [forFrom_fold0 (fun st => (⟨⟨toElems m.sortByKey⟩, ⟨st, m.length⟩⟩ : MapSt)) (stepE (toElems m.sortByKey))
      (fun st => m.length ≤ st.length) _ m.length (kvEnsureLen out.store out.len m.length)
      (fun j t hi => by simp only [stepE, length_stepK]; exact hi) ?_ (length_kvEnsureLen ..)]
    · have := rangeFold_zipFold m.sortByKey [] (kvEnsureLen out.store out.len m.length)
      simp only [List.length_nil, List.nil_append, KVs.length_sortByKey] at this
      rw [this, zipFold_zipInto _ _ (by rw [KVs.length_sortByKey]; exact length_kvEnsureLen ..)]
      simp [SAttrs.mapSorted, SAttrs.mapUnsorted, KVs.length_sortByKey]
    · intro j t hj hi
      have hjl : j < t.length := Nat.lt_of_lt_of_le hj hi
      have hj0 : ¬ ((j : Int) < 0) := by omega
      have hjS : j < (toElems m.sortByKey).length := by omega
      simp only [run_bind, run_rd _ _ (toElems m.sortByKey) (oElems_get ..), idx_run _ j _ Elem.zero hjS]
      rw [run_focus _ _ _ (getKS t j) (otlpToTef ((toElems m.sortByKey).getD j Elem.zero).val (getKS t j)) ()]
      · simp only [comp_set, outP_get, outP_set, SAttrs.valueP, Int.toNat_natCast,
          run_rd _ _ (toElems m.sortByKey) (oElems_get ..), idx_run _ j _ Elem.zero hjS]
        rw [run_upd MapSt.outP _ _ ⟨SKVs.setVal t j _, m.length⟩ ⟨stepE (toElems m.sortByKey) j t, m.length⟩ (outP_get ..)
          (by simp [kvSetKeyOp, hj0, hj, hjl, SKVs.length_setVal, stepE, stepK, SKVs.setKey_setVal])]
        simp [outP_set]
      · simp [outP_get, SAttrs.valueP, hj0, hj, SKVs.get?_lt t j hjl]
      · apply otlpValueToTefAnyValue_eq fuel
        have := need_toElems_getD m.sortByKey j hjS
        rw [needKVs_sortByKey] at this
        omega
  · intro j key v t hj hi _
    have hj0 : ¬ ((j : Int) < 0) := by omega
    simp only [run_bind]
    rw [run_upd _ _ _ t (stepL j key v t) (oElems_get ..) (by simp [setIdx, hj0, hi, hj, stepL])]
    rw [oElems_set]
    simp


/-! ### tef2otlpval.go: what a well-formed otelstef value is, the fuel it needs -/

mutual
  /-- the visible length of every array / list reachable through visible elements is within its store (what the
      generated EnsureLen guarantees; `tefAnyValueToOtlp` indexes `elems[i]` for `i < len`) -/
  def wf : SVal → Bool
    | .mk .array a al _ _ => wfVs al a
    | .mk .kvlist _ _ k kl => wfKs kl k
    | _ => true
  def wfVs : Nat → SVals → Bool
    | 0, _ => true
    | _ + 1, .nil => false
    | n + 1, .cons v t => wf v && wfVs n t
  def wfKs : Nat → SKVs → Bool
    | 0, _ => true
    | _ + 1, .nil => false
    | n + 1, .cons _ v t => wf v && wfKs n t
end

mutual
  def sneed : SVal → Nat
    | .mk _ a _ k _ => max (sneedVs a) (sneedKs k) + 1
  def sneedVs : SVals → Nat
    | .nil => 0
    | .cons v t => max (sneed v) (sneedVs t)
  def sneedKs : SKVs → Nat
    | .nil => 0
    | .cons _ v t => max (sneed v) (sneedKs t)
end

theorem wfVs_get : ∀ (n : Nat) (a : SVals) (j : Nat), wfVs n a = true → j < n →
    j < a.length ∧ wf (getS a j) = true
  | 0, _, _, _, h => by omega
  | n + 1, .nil, _, h, _ => by simp [wfVs] at h
  | n + 1, .cons v t, 0, h, _ => by
    simp only [wfVs, Bool.and_eq_true] at h
    simp [SVals.length, getS, SVals.get?, h.1]
  | n + 1, .cons v t, j + 1, h, hj => by
    simp only [wfVs, Bool.and_eq_true] at h
    have := wfVs_get n t j h.2 (by omega)
    simp only [SVals.length, getS, SVals.get?] at this ⊢
    exact ⟨by omega, this.2⟩

theorem wfKs_get : ∀ (n : Nat) (a : SKVs) (j : Nat), wfKs n a = true → j < n →
    j < a.length ∧ wf (getKS a j) = true
  | 0, _, _, _, h => by omega
  | n + 1, .nil, _, h, _ => by simp [wfKs] at h
  | n + 1, .cons k v t, 0, h, _ => by
    simp only [wfKs, Bool.and_eq_true] at h
    simp [SKVs.length, getKS, SKVs.get?, h.1]
  | n + 1, .cons k v t, j + 1, h, hj => by
    simp only [wfKs, Bool.and_eq_true] at h
    have := wfKs_get n t j h.2 (by omega)
    simp only [SKVs.length, getKS, SKVs.get?] at this ⊢
    exact ⟨by omega, this.2⟩

theorem sneed_getS : ∀ (a : SVals) (j : Nat), j < a.length → sneed (getS a j) ≤ sneedVs a
  | .nil, j, h => by simp [SVals.length] at h
  | .cons v t, 0, _ => by simp [getS, SVals.get?, sneedVs]; omega
  | .cons v t, j + 1, h => by
    have := sneed_getS t j (by simp [SVals.length] at h; omega)
    simp only [getS, SVals.get?, sneedVs] at this ⊢; omega

theorem sneed_getKS : ∀ (a : SKVs) (j : Nat), j < a.length → sneed (getKS a j) ≤ sneedKs a
  | .nil, j, h => by simp [SKVs.length] at h
  | .cons k v t, 0, _ => by simp [getKS, SKVs.get?, sneedKs]; omega
  | .cons k v t, j + 1, h => by
    have := sneed_getKS t j (by simp [SKVs.length] at h; omega)
    simp only [getKS, SKVs.get?, sneedKs] at this ⊢; omega

/-- key `j` of a key/value store -/
def getKK (st : SKVs) (j : Nat) : Str := ((SKVs.get? st j).map (·.1)).getD []

theorem SKVs.get?_key_lt : ∀ (st : SKVs) (j : Nat), j < st.length → SKVs.get? st j = some (getKK st j, getKS st j)
  | .nil, j, h => by simp [SKVs.length] at h
  | .cons k v t, 0, _ => by simp [SKVs.get?, getKK, getKS]
  | .cons k v t, j + 1, h => by
    have := SKVs.get?_key_lt t j (by simp [SKVs.length] at h; omega)
    simp only [SKVs.get?, getKK, getKS] at this ⊢
    exact this

/-! ### tef2otlpval.go: the destinations -/

def appendVs : Values → Values → Values
  | .nil, r => r
  | .cons v t, r => .cons v (appendVs t r)

theorem appendVs_snoc : ∀ (a : Values) (x : AnyValue) (r : Values),
    appendVs (Values.snoc a x) r = appendVs a (.cons x r)
  | .nil, _, _ => rfl
  | .cons v t, x, r => by simp [Values.snoc, appendVs, appendVs_snoc t x r]

theorem appendVs_nil : ∀ (a : Values), appendVs a .nil = a
  | .nil => rfl
  | .cons v t => by simp [appendVs, appendVs_nil t]

theorem Values.get?_snoc : ∀ (a : Values) (x : AnyValue), Values.get? (Values.snoc a x) a.length = some x
  | .nil, _ => rfl
  | .cons v t, x => by simp [Values.snoc, Values.length, Values.get?, Values.get?_snoc t x]

theorem Values.set_snoc : ∀ (a : Values) (x y : AnyValue), Values.set (Values.snoc a x) a.length y = Values.snoc a y
  | .nil, _, _ => rfl
  | .cons v t, x, y => by simp [Values.snoc, Values.length, Values.set, Values.set_snoc t x y]

/-- the slice loop of tefAnyValueToOtlp, on the destination slice -/
theorem sliceFold (A : SVals) : ∀ (n : Nat) (a : SVals) (j : Nat) (acc : Values),
    (∀ i, i < n → getS A (j + i) = getS a i) → n ≤ a.length →
    (List.range' j n).foldl (fun acc i => Values.snoc acc (tefToOtlp (getS A i))) acc
      = appendVs acc (dedupValues (tefVals n a))
  | 0, a, j, acc, _, _ => by simp [tefVals, dedupValues, appendVs_nil]
  | n + 1, .nil, j, acc, _, h => by simp [SVals.length] at h
  | n + 1, .cons s a, j, acc, hA, h => by
    have h0 := hA 0 (by omega)
    simp only [Nat.add_zero, getS, SVals.get?, Option.getD_some] at h0
    have ih := sliceFold A n a (j + 1) (Values.snoc acc (tefToOtlp s)) (fun i hi => by
      have := hA (i + 1) (by omega)
      simp only [getS, SVals.get?] at this ⊢
      rw [← this]; congr 2; omega) (by simp [SVals.length] at h; omega)
    simp only [List.range'_succ, List.foldl_cons, tefVals, dedupValues]
    have e : getS A j = s := by simp only [getS]; exact h0
    rw [e, ih, appendVs_snoc]
    rfl

theorem KVs.getVal?_put : ∀ (m : KVs) (k : Str) (x : AnyValue),
    KVs.getVal? (KVs.put k x m) ((KVs.find k m).getD m.length) = some x
  | .nil, _, _ => rfl
  | .cons k' v' t, k, x => by
    simp only [KVs.put, KVs.find]
    by_cases h : (k' == k) = true
    · simp [h, KVs.getVal?]
    · have ih := KVs.getVal?_put t k x
      simp only [h, if_false, Bool.false_eq_true]
      cases hf : KVs.find k t with
      | none => simp only [hf, Option.getD_none] at ih; simp [KVs.length, KVs.getVal?, ih]
      | some i => simp only [hf, Option.getD_some] at ih; simp [KVs.getVal?, ih]

theorem KVs.setVal_put : ∀ (m : KVs) (k : Str) (x y : AnyValue),
    KVs.setVal (KVs.put k x m) ((KVs.find k m).getD m.length) y = KVs.put k y m
  | .nil, _, _, _ => rfl
  | .cons k' v' t, k, x, y => by
    simp only [KVs.put, KVs.find]
    by_cases h : (k' == k) = true
    · simp [h, KVs.setVal]
    · have ih := KVs.setVal_put t k x y
      simp only [h, if_false, Bool.false_eq_true]
      cases hf : KVs.find k t with
      | none => simp only [hf, Option.getD_none] at ih; simp [KVs.length, KVs.setVal, ih]
      | some i => simp only [hf, Option.getD_some] at ih; simp [KVs.setVal, ih]

/-- the key/value loops of tefAnyValueToOtlp and TefToOtlpMap, on the destination map -/
theorem kvFold (A : SKVs) : ∀ (n : Nat) (a : SKVs) (j : Nat) (acc : KVs),
    (∀ i, i < n → getKS A (j + i) = getKS a i ∧ getKK A (j + i) = getKK a i) → n ≤ a.length →
    (List.range' j n).foldl (fun acc i => KVs.put (getKK A i) (tefToOtlp (getKS A i)) acc) acc
      = KVs.dedupAux (dedupKVs (tefKVs n a)) acc
  | 0, a, j, acc, _, _ => by simp [tefKVs, dedupKVs, KVs.dedupAux]
  | n + 1, .nil, j, acc, _, h => by simp [SKVs.length] at h
  | n + 1, .cons k s a, j, acc, hA, h => by
    have h0 := hA 0 (by omega)
    simp only [Nat.add_zero, getKS, getKK, SKVs.get?, Option.map_some, Option.getD_some] at h0
    have ih := kvFold A n a (j + 1) (KVs.put k (tefToOtlp s) acc) (fun i hi => by
      have := hA (i + 1) (by omega)
      simp only [getKS, getKK, SKVs.get?] at this ⊢
      rw [show j + 1 + i = j + (i + 1) by omega]; exact this) (by simp [SKVs.length] at h; omega)
    simp only [List.range'_succ, List.foldl_cons, tefKVs, dedupKVs, KVs.dedupAux]
    have e1 : getKS A j = s := by simp only [getKS]; exact h0.1
    have e2 : getKK A j = k := by simp only [getKK]; exact h0.2
    rw [e1, e2, ih]
    rfl


/-! ### tef2otlpval.go: tefAnyValueToOtlp, TefToOtlpMap -/

theorem sliceP_get (vs : Values) : (Ptr.here.comp valSliceP).get (AnyValue.slice vs) = some vs := rfl
theorem sliceP_set (vs x : Values) : (Ptr.here.comp valSliceP).set (AnyValue.slice vs) x = AnyValue.slice x := rfl
theorem mapP_get (m : KVs) : (Ptr.here.comp valMapP).get (AnyValue.map m) = some m := rfl
theorem mapP_set (m x : KVs) : (Ptr.here.comp valMapP).set (AnyValue.map m) x = AnyValue.map x := rfl

theorem t2o_step (fuel : Nat)
    (ih : ∀ sv, wf sv = true → sneed sv ≤ fuel →
      (tefAnyValueToOtlp fuel sv).run .empty = .ret none (tefToOtlp sv))
    (sv : SVal) (hw : wf sv = true) (hs : sneed sv ≤ fuel + 1) :
    (tefAnyValueToOtlp (fuel + 1) sv).run .empty = .ret none (tefToOtlp sv) := by
  cases sv with
  | mk c a al k kl =>
  cases c
  case array =>
    have hwf : wfVs al a = true := by simpa [wf] using hw
    have hsn : sneedVs a ≤ fuel := by simp only [sneed] at hs; omega
    simp only [tefAnyValueToOtlp, svType, AnyValueTypeString, AnyValueTypeBytes,
      AnyValueTypeInt64, AnyValueTypeBool, AnyValueTypeNone, AnyValueTypeFloat64, AnyValueTypeArray, AnyValueTypeKVList,
      run_bind, run_ite, svArray, sarrLen, setEmptySlice, run_pure, forLt, Int.toNat_natCast]
    simp only [Nat.reduceEqDiff, if_false, if_true]
    rw [run_upd (σ := AnyValue) Ptr.here _ AnyValue.empty AnyValue.empty (AnyValue.slice .nil) rfl rfl]
    simp only [here_set]
    rw [forFrom_fold0 AnyValue.slice (fun j vs => Values.snoc vs (tefToOtlp (getS a j))) (fun _ => True) _ al .nil
      (fun _ _ _ => trivial) ?_ trivial]
    · have := sliceFold a al a 0 .nil (fun i _ => by rw [Nat.zero_add]) (by
        cases al with
        | zero => omega
        | succ n => have := (wfVs_get (n + 1) a n hwf (by omega)).1; omega)
      rw [this]
      simp [appendVs, tefToOtlp, tefToOtlpRaw, dedupValue]
    · intro j vs hj _
      obtain ⟨hjl, hjw⟩ := wfVs_get al a j hwf hj
      have hj0 : ¬ ((j : Int) < 0) := by omega
      simp only [run_bind, sliceAppendEmpty, run_pure]
      rw [run_rd _ _ vs (sliceP_get vs)]
      dsimp only
      rw [run_upd _ _ _ vs (Values.snoc vs .empty) (sliceP_get vs) rfl, sliceP_set]
      dsimp only
      have e1 : (sarrAt (σ := AnyValue) (ρ := Err) ⟨a, al⟩ (j : Int)).run (AnyValue.slice (Values.snoc vs .empty))
          = .next (getS a j) (AnyValue.slice (Values.snoc vs .empty)) := by
        simp [sarrAt, SArr.atP, hj0, hj, SVals.get?_lt a j hjl]
      rw [e1]
      dsimp only
      rw [run_focus_ret _ _ _ AnyValue.empty (tefToOtlp (getS a j)) none]
      · simp [valSliceP, Values.set_snoc, Values.atP]
      · simp [valSliceP, Values.atP, Values.get?_snoc]
      · exact ih _ hjw (Nat.le_trans (sneed_getS a j hjl) hsn)
  case kvlist =>
    have hwf : wfKs kl k = true := by simpa [wf] using hw
    have hsn : sneedKs k ≤ fuel := by simp only [sneed] at hs; omega
    simp only [tefAnyValueToOtlp, svType, AnyValueTypeString, AnyValueTypeBytes,
      AnyValueTypeInt64, AnyValueTypeBool, AnyValueTypeNone, AnyValueTypeFloat64, AnyValueTypeArray, AnyValueTypeKVList,
      run_bind, run_ite, svKVList, sattrsLen, setEmptyMap, run_pure, forLt, Int.toNat_natCast]
    simp only [Nat.reduceEqDiff, if_false, if_true]
    rw [run_upd (σ := AnyValue) Ptr.here _ AnyValue.empty AnyValue.empty (AnyValue.map .nil) rfl rfl]
    simp only [here_set]
    rw [forFrom_fold0 AnyValue.map (fun j m => KVs.put (getKK k j) (tefToOtlp (getKS k j)) m) (fun _ => True) _ kl .nil
      (fun _ _ _ => trivial) ?_ trivial]
    · have := kvFold k kl k 0 .nil (fun i _ => by rw [Nat.zero_add]; exact ⟨rfl, rfl⟩) (by
        cases kl with
        | zero => omega
        | succ n => have := (wfKs_get (n + 1) k n hwf (by omega)).1; omega)
      rw [this]
      simp [tefToOtlp, tefToOtlpRaw, dedupValue, KVs.dedup]
    · intro j m hj _
      obtain ⟨hjl, hjw⟩ := wfKs_get kl k j hwf hj
      have hj0 : ¬ ((j : Int) < 0) := by omega
      have e0 : (sattrsKey (σ := AnyValue) (ρ := Err) ⟨k, kl⟩ (j : Int)).run (AnyValue.map m)
          = .next (getKK k j) (AnyValue.map m) := by
        simp [sattrsKey, hj0, hj, SKVs.get?_key_lt k j hjl]
      simp only [run_bind, e0, mapPutEmpty, run_pure]
      rw [run_rd _ _ m (mapP_get m)]
      dsimp only
      rw [run_upd _ _ _ m (KVs.put (getKK k j) .empty m) (mapP_get m) rfl, mapP_set]
      dsimp only
      have e1 : (sattrsValue (σ := AnyValue) (ρ := Err) ⟨k, kl⟩ (j : Int)).run (AnyValue.map (KVs.put (getKK k j) .empty m))
          = .next (getKS k j) (AnyValue.map (KVs.put (getKK k j) .empty m)) := by
        simp [sattrsValue, SAttrs.valueP, hj0, hj, SKVs.get?_lt k j hjl]
      rw [e1]
      dsimp only
      rw [run_focus_ret _ _ _ AnyValue.empty (tefToOtlp (getKS k j)) none]
      · simp [valMapP, KVs.setVal_put, KVs.atP]
      · simp [valMapP, KVs.atP, KVs.getVal?_put]
      · exact ih _ hjw (Nat.le_trans (sneed_getKS k j hjl) hsn)
  all_goals
    simp [tefAnyValueToOtlp, tefToOtlp, tefToOtlpRaw, dedupValue, svType, AnyValueTypeString, AnyValueTypeBytes,
      AnyValueTypeInt64, AnyValueTypeBool, AnyValueTypeNone, AnyValueTypeFloat64, AnyValueTypeArray, AnyValueTypeKVList,
      svString, svBytes, svInt64, svBool, svFloat64, setVal, upd, setEmptyBytes, bytesAppend, valBytesP]


/-- tefAnyValueToOtlp REGENERATED = the hand model `tefToOtlp`, written into an empty pcommon.Value: for every
    well-formed otelstef value (visible lengths within the stores) it returns nil - never errDecode, never a panic -
    whenever the fuel covers the nesting. -/
theorem tefAnyValueToOtlp_eq (fuel : Nat) : ∀ (sv : SVal), wf sv = true → sneed sv ≤ fuel →
    (tefAnyValueToOtlp fuel sv).run .empty = .ret none (tefToOtlp sv) := by
  induction fuel with
  | zero => intro sv _ h; cases sv; simp [sneed] at h
  | succ f ih => intro sv hw h; exact t2o_step f ih sv hw h

/-- TefToOtlpMap REGENERATED = `SAttrs.toOtlp`, written into an empty pcommon.Map. -/
theorem tefToOtlpMap_eq (fuel : Nat) (a : SAttrs) (hw : wfKs a.len a.store = true) (hs : sneedKs a.store ≤ fuel) :
    (tefToOtlpMap fuel a).run .nil = .ret none a.toOtlp := by
  cases a with
  | mk k kl =>
  simp only at hw hs
  simp only [tefToOtlpMap, run_bind, mapEnsureCapacity, run_pure, sattrsLen, forLt, Int.toNat_natCast]
  rw [forFrom_fold0 (fun m : KVs => m) (fun j m => KVs.put (getKK k j) (tefToOtlp (getKS k j)) m) (fun _ => True) _ kl .nil
    (fun _ _ _ => trivial) ?_ trivial]
  · have := kvFold k kl k 0 .nil (fun i _ => by rw [Nat.zero_add]; exact ⟨rfl, rfl⟩) (by
      cases kl with
      | zero => omega
      | succ n => have := (wfKs_get (n + 1) k n hw (by omega)).1; omega)
    rw [this]
    simp [SAttrs.toOtlp, SAttrs.visible, KVs.dedup]
  · intro j m hj _
    obtain ⟨hjl, hjw⟩ := wfKs_get kl k j hw hj
    have hj0 : ¬ ((j : Int) < 0) := by omega
    have e0 : (sattrsKey (σ := KVs) (ρ := Err) ⟨k, kl⟩ (j : Int)).run m = .next (getKK k j) m := by
      simp [sattrsKey, hj0, hj, SKVs.get?_key_lt k j hjl]
    simp only [run_bind, e0, mapPutEmpty, run_pure]
    rw [run_rd _ _ m (here_get m)]
    dsimp only
    rw [run_upd _ _ _ m (KVs.put (getKK k j) .empty m) (here_get m) rfl, here_set]
    dsimp only
    have e1 : (sattrsValue (σ := KVs) (ρ := Err) ⟨k, kl⟩ (j : Int)).run (KVs.put (getKK k j) .empty m)
        = .next (getKS k j) (KVs.put (getKK k j) .empty m) := by
      simp [sattrsValue, SAttrs.valueP, hj0, hj, SKVs.get?_lt k j hjl]
    rw [e1]
    dsimp only
    rw [run_focus_ret _ _ _ AnyValue.empty (tefToOtlp (getKS k j)) none]
    · simp [KVs.setVal_put, KVs.atP]
    · simp [KVs.atP, KVs.getVal?_put]
    · exact tefAnyValueToOtlp_eq fuel _ hjw (Nat.le_trans (sneed_getKS k j hjl) hs)


/-! ### what otlpValueToTefAnyValue writes is well-formed (whatever the destination held) -/

mutual
  theorem wf_otlpToTef : ∀ (v : AnyValue) (into : SVal), wf (otlpToTef v into) = true
    | .empty, .mk c a al k kl => by simp [otlpToTef, SVal.reset, wf]
    | .str s, .mk c a al k kl => rfl
    | .bool b, .mk c a al k kl => rfl
    | .int i, .mk c a al k kl => rfl
    | .bytes b, .mk c a al k kl => rfl
    | .dbl f, .mk c a al k kl => by cases c <;> simp [otlpToTef, SVal.setFloat, wf]
    | .slice vs, .mk c a al k kl => by
      obtain ⟨al', he⟩ := otlpToTef_slice vs c a al k kl
      rw [he]
      simp [wf, wf_sliceInto vs (arrEnsureLen a al' vs.length)]
    | .map kvs, .mk c a al k kl => by
      obtain ⟨kl', he⟩ := otlpToTef_map kvs c a al k kl
      rw [he]
      simp [wf, wf_zipInto kvs (kvEnsureLen k kl' kvs.length)]
  theorem wf_sliceInto : ∀ (vs : Values) (st : SVals), wfVs vs.length (sliceInto vs st) = true
    | .nil, st => by simp [Values.length, wfVs]
    | .cons v t, .cons s st => by
      simp [sliceInto, Values.length, wfVs, wf_otlpToTef v s, wf_sliceInto t st]
    | .cons v t, .nil => by
      simp [sliceInto, Values.length, wfVs, wf_otlpToTef v SVal.fresh, wf_sliceInto t .nil]
  theorem wf_zipInto : ∀ (kvs : KVs) (st : SKVs), wfKs kvs.length (zipInto kvs st) = true
    | .nil, st => by simp [KVs.length, wfKs]
    | .cons k v t, .cons k0 s st => by
      simp [zipInto, KVs.length, wfKs, wf_otlpToTef v s, wf_zipInto t st]
    | .cons k v t, .nil => by
      simp [zipInto, KVs.length, wfKs, wf_otlpToTef v SVal.fresh, wf_zipInto t .nil]
end

theorem wf_mapUnsorted (m : KVs) (out : SAttrs) :
    wfKs (SAttrs.mapUnsorted m out).len (SAttrs.mapUnsorted m out).store = true := by
  simp [SAttrs.mapUnsorted, wf_zipInto]

end Stef.Gen.OtlpValFlow
