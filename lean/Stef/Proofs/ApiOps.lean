/-
  Every public API call of the record API model preserves the invariant `Snd` (Stef/Proofs/ApiInv.lean).

  An operation on a node `a` yields a node `a'` and a signal `up` for the enclosing node. `Pres` is what
  it must guarantee; `applyAt_pres` lifts it along any navigation path (struct field, oneof alternative,
  array element, multimap key / value), processing the signal exactly as the model does.
-/
import Stef.Proofs.ApiInv

set_option linter.unusedSimpArgs false

namespace Stef.Api
open Stef Stef.Spec Stef.SpecEnc

/-- what an operation on a node guarantees to its context -/
structure Pres (C : Ctx) (a a' : AS) (up : Up) : Prop where
  /-- sound marks stay sound, whatever the reader holds; up-closed marks stay up-closed (`ℓ = true`) -/
  snd : ∀ ℓ R, SndG C ℓ a R → SndG C ℓ a' R
  /-- a node without marks that sends no signal still shows the same value and has no marks -/
  sync : Quiet C a → up = .no → Quiet C a' ∧ ∀ r, Shows C a r → Shows C a' r
  /-- a primitive stays a primitive, a composite a composite -/
  kind : isPrimAS a' = isPrimAS a

theorem Pres.refl (C : Ctx) (a : AS) (up : Up) : Pres C a a up :=
  ⟨fun _ _ h => h, fun h _ => ⟨h, fun _ h => h⟩, rfl⟩

/-! ## struct field -/

theorem structRecv_no (m i : Nat) : structRecv m i .no = (m, .no) := by simp [structRecv]

theorem structRecv_testBit (m i : Nat) (u : Up) (j : Nat) (hj : j ≠ i) :
    (structRecv m i u).1.testBit j = m.testBit j := by
  unfold structRecv
  split
  · rfl
  · split
    · rfl
    · simp [Nat.testBit_or, Ne.symm hj]

theorem structRecv_set (m i : Nat) (u : Up) (hu : u ≠ .no) : (structRecv m i u).1.testBit i = true := by
  unfold structRecv
  simp only [hu, if_false]
  split
  · assumption
  · simp [Nat.testBit_or]

theorem structRecv_up_no (m i : Nat) (u : Up) (h : (structRecv m i u).2 = .no) (hm : m.testBit i = false) : u = .no := by
  unfold structRecv at h
  by_cases hu : u = .no
  · exact hu
  · simp [hu, hm] at h

/-- the mask only matters through the bits of the fields that are walked -/
theorem sndFields_mask_congr (C : Ctx) (ℓ : Bool) : ∀ (fds : List Field) (idx oi m m' p : Nat) (known : Bool) (rp : Nat)
    (as : List AS) (rfs : List St), (∀ j, idx ≤ j → m'.testBit j = m.testBit j) →
    SndFieldsG C ℓ fds idx oi m p known rp as rfs → SndFieldsG C ℓ fds idx oi m' p known rp as rfs
  | _, _, _, _, _, _, _, _, [], _, _, _ => by simp [SndFieldsG]
  | fds, idx, oi, m, m', p, known, rp, a :: as, rfs, hm, h => by
    simp only [SndFieldsG] at h ⊢
    rw [hm idx (Nat.le_refl _)]
    exact ⟨h.1, h.2.1, sndFields_mask_congr C ℓ fds.tail (idx + 1) _ m m' p known rp as rfs.tail
      (fun j hj => hm j (by omega)) h.2.2⟩

theorem sndFields_lift (C : Ctx) (ℓ : Bool) (c c' : AS) (u : Up) (hp : Pres C c c' u) :
    ∀ (fds : List Field) (idx oi m p : Nat) (known : Bool) (rp : Nat) (as : List AS) (rfs : List St) (i : Nat),
    as[i]? = some c → SndFieldsG C ℓ fds idx oi m p known rp as rfs →
    SndFieldsG C ℓ fds idx oi (structRecv m (idx + i) u).1 p known rp (as.set i c') rfs
  | _, _, _, _, _, _, _, [], _, _, h, _ => by simp at h
  | fds, idx, oi, m, p, known, rp, a :: as, rfs, 0, hi, h => by
    simp only [List.getElem?_cons_zero, Option.some.injEq] at hi
    subst hi
    simp only [List.set_cons_zero, SndFieldsG, Nat.add_zero] at h ⊢
    refine ⟨fun hpres => ?_, fun habs => hp.snd true none (h.2.1 habs),
      sndFields_mask_congr C ℓ fds.tail (idx + 1) _ m _ p known rp as rfs.tail
      (fun j hj => structRecv_testBit m idx u j (by omega)) h.2.2⟩
    have h1 := h.1 hpres
    rw [hp.kind]
    by_cases hu : u = .no
    · subst hu
      rw [structRecv_no]
      refine ⟨fun hm => hp.snd ℓ _ (h1.1 hm), fun hm => ?_⟩
      obtain ⟨hsh, hq, hl⟩ := h1.2 hm
      have := hp.sync hq rfl
      refine ⟨?_, this.1, hp.snd true none hl⟩
      rcases hsh with hsh | ⟨hk, ho, hs⟩
      · exact Or.inl hsh
      · exact Or.inr ⟨hk, ho, this.2 _ hs⟩
    · refine ⟨fun _ => ?_, fun hm => ?_⟩
      · by_cases hm : m.testBit idx = true
        · exact hp.snd ℓ _ (h1.1 hm)
        · have hm : m.testBit idx = false := by simpa using hm
          obtain ⟨hsh, hq, hl⟩ := h1.2 hm
          rcases hsh with hsh | ⟨hk, ho, hs⟩
          · subst hsh
            exact hp.snd true _ (snd_lax C true a none _ hl)
          · have hsnd := hp.snd ℓ _ (snd_of_sync C ℓ a _ hs hq hl)
            have : fieldPrev known (fdOpt fds) (isPrimAS a) (rp.testBit oi) rfs = some (rfs.headD dflt) := by
              subst hk
              unfold fieldPrev
              by_cases hopt : fdOpt fds = true
              · simp [hopt, ho hopt]
              · simp [hopt]
            rw [this]
            exact hsnd
      · rw [structRecv_set m idx u hu] at hm
        simp at hm
  | fds, idx, oi, m, p, known, rp, a :: as, rfs, i + 1, hi, h => by
    simp only [List.getElem?_cons_succ] at hi
    simp only [List.set_cons_succ, SndFieldsG] at h ⊢
    rw [structRecv_testBit m (idx + (i + 1)) u idx (by omega)]
    refine ⟨h.1, h.2.1, ?_⟩
    have := sndFields_lift C ℓ c c' u hp fds.tail (idx + 1) _ m p known rp as rfs.tail i hi h.2.2
    rwa [show idx + 1 + i = idx + (i + 1) by omega] at this

theorem syncFields_lift (C : Ctx) (c c' : AS) (hsync : Quiet C c → Quiet C c' ∧ ∀ r, Shows C c r → Shows C c' r) :
    ∀ (fds : List Field) (oi p : Nat) (as : List AS) (i : Nat), as[i]? = some c → QuietFields C fds oi p as →
    QuietFields C fds oi p (as.set i c') ∧
      ∀ rs, ShowsFields C fds oi p as rs → ShowsFields C fds oi p (as.set i c') rs
  | _, _, _, [], _, h, _ => by simp at h
  | fds, oi, p, a :: as, 0, hi, h => by
    simp only [List.getElem?_cons_zero, Option.some.injEq] at hi
    subst hi
    simp only [List.set_cons_zero, QuietFields, ShowsFields] at h ⊢
    refine ⟨⟨fun hp => (hsync (h.1 hp)).1, h.2⟩, fun rs hs => ?_⟩
    obtain ⟨r, rs', e, h1, h2⟩ := hs
    exact ⟨r, rs', e, fun hp => (hsync (h.1 hp)).2 r (h1 hp), h2⟩
  | fds, oi, p, a :: as, i + 1, hi, h => by
    simp only [List.getElem?_cons_succ] at hi
    simp only [List.set_cons_succ, QuietFields, ShowsFields] at h ⊢
    have ih := syncFields_lift C c c' hsync fds.tail _ p as i hi h.2
    refine ⟨⟨h.1, ih.1⟩, fun rs hs => ?_⟩
    obtain ⟨r, rs', e, h1, h2⟩ := hs
    exact ⟨r, rs', e, h1, ih.2 rs' h2⟩

/-- an operation below field `i` of a struct that is not shared (not a frozen dictionary struct) -/
theorem pres_field (C : Ctx) (n : String) (m p : Nat) (fr : Bool) (fs : List AS) (i : Nat) (c c' : AS) (u : Up)
    (hc : fs[i]? = some c) (hp : Pres C c c' u) (hns : ¬ (C.isDictName n = true ∧ fr = true)) :
    Pres C (.struct n m p fr fs) (.struct n (structRecv m i u).1 p fr (fs.set i c')) (structRecv m i u).2 := by
  refine ⟨fun ℓ R h => ?_, fun hq hu => ?_, rfl⟩
  · simp only [SndG] at h ⊢
    rcases h with ⟨hd, hfr | h⟩ | ⟨hd, h⟩
    · exact absurd ⟨hd, hfr⟩ hns
    · have := sndFields_lift C true c c' u hp (fieldsOf C n) 0 0 m p false 0 fs [] i hc h
      rw [Nat.zero_add] at this
      exact Or.inl ⟨hd, Or.inr this⟩
    · have := sndFields_lift C ℓ c c' u hp (fieldsOf C n) 0 0 m p R.isSome (optPres R) fs (optFields R) i hc h
      rw [Nat.zero_add] at this
      exact Or.inr ⟨hd, this⟩
  · simp only [Quiet] at hq
    rcases hq with hq | hq
    · exact absurd hq hns
    obtain ⟨hm, hq⟩ := hq
    subst hm
    have hu0 : u = .no := structRecv_up_no 0 i u hu (Nat.zero_testBit i)
    subst hu0
    have ih := syncFields_lift C c c' (fun h => hp.sync h rfl) (fieldsOf C n) 0 p fs i hc hq
    refine ⟨?_, fun r hs => ?_⟩
    · simp only [Quiet, structRecv_no]
      exact Or.inr ⟨trivial, ih.1⟩
    · simp only [Shows] at hs ⊢
      obtain ⟨rfs, e, hs⟩ := hs
      exact ⟨rfs, e, ih.2 rfs hs⟩

/-! ## oneof alternative -/

theorem sndAlt_lift (C : Ctx) (ℓ : Bool) (c c' : AS) (hsnd : ∀ R, SndG C ℓ c R → SndG C ℓ c' R) :
    ∀ (i : Nat) (as : List AS) (R : Option St) (j : Nat), as[j]? = some c → SndAltG C ℓ i as R →
    SndAltG C ℓ i (as.set j c') R
  | _, [], _, _, h, _ => by simp at h
  | 0, a :: as, R, 0, hj, h => by
    simp only [List.getElem?_cons_zero, Option.some.injEq] at hj
    subst hj
    simp only [List.set_cons_zero, SndAltG] at h ⊢
    exact hsnd R h
  | 0, a :: as, R, j + 1, _, h => by simpa [SndAltG] using h
  | i + 1, a :: as, R, 0, _, h => by simpa [SndAltG] using h
  | i + 1, a :: as, R, j + 1, hj, h => by
    simp only [List.getElem?_cons_succ] at hj
    simp only [List.set_cons_succ, SndAltG] at h ⊢
    exact sndAlt_lift C ℓ c c' hsnd i as R j hj h

theorem syncAlt_lift (C : Ctx) (c c' : AS) (hsync : Quiet C c → Quiet C c' ∧ ∀ r, Shows C c r → Shows C c' r) :
    ∀ (i : Nat) (as : List AS) (j : Nat), as[j]? = some c → QuietAlt C i as →
    QuietAlt C i (as.set j c') ∧ ∀ r, ShowsAlt C i as r → ShowsAlt C i (as.set j c') r
  | _, [], _, h, _ => by simp at h
  | 0, a :: as, 0, hj, h => by
    simp only [List.getElem?_cons_zero, Option.some.injEq] at hj
    subst hj
    simp only [List.set_cons_zero, QuietAlt, ShowsAlt] at h ⊢
    exact hsync h
  | 0, a :: as, j + 1, _, h => by
    simp only [List.set_cons_succ, QuietAlt, ShowsAlt] at h ⊢
    exact ⟨h, fun _ hs => hs⟩
  | i + 1, a :: as, 0, _, h => by
    simp only [List.set_cons_zero, QuietAlt, ShowsAlt] at h ⊢
    exact ⟨h, fun _ hs => hs⟩
  | i + 1, a :: as, j + 1, hj, h => by
    simp only [List.getElem?_cons_succ] at hj
    simp only [List.set_cons_succ, QuietAlt, ShowsAlt] at h ⊢
    exact syncAlt_lift C c c' hsync i as j hj h

/-- an operation below alternative `k` of a oneof (current or stale): the signal passes through -/
theorem pres_alt (C : Ctx) (n : String) (t : Nat) (as : List AS) (k : Nat) (c c' : AS) (u : Up)
    (hc : as[k - 1]? = some c) (hp : Pres C c c' u) :
    Pres C (.oneof n t as) (.oneof n t (as.set (k - 1) c')) u := by
  refine ⟨fun ℓ R h => ?_, fun hq hu => ?_, rfl⟩
  · simp only [SndG] at h ⊢
    rcases h with h | h
    · exact Or.inl h
    · exact Or.inr (sndAlt_lift C ℓ c c' (hp.snd ℓ) (t - 1) as _ (k - 1) hc h)
  · simp only [Quiet] at hq ⊢
    rcases hq with hq | hq
    · refine ⟨Or.inl hq, fun r hs => ?_⟩
      subst hq
      simpa [Shows] using hs
    · have ih := syncAlt_lift C c c' (fun h => hp.sync h hu) (t - 1) as (k - 1) hc hq
      refine ⟨Or.inr ih.1, fun r hs => ?_⟩
      simp only [Shows] at hs ⊢
      rcases hs with hs | ⟨ht, rv, e, hs⟩
      · exact Or.inl hs
      · exact Or.inr ⟨ht, rv, e, ih.2 rv hs⟩

/-! ## array element -/

theorem sndElems_lift (C : Ctx) (ℓ : Bool) (c c' : AS) (hsnd : ∀ R, SndG C ℓ c R → SndG C ℓ c' R) :
    ∀ (as : List AS) (rs : List St) (j : Nat), as[j]? = some c → SndElemsG C ℓ as rs →
    SndElemsG C ℓ (as.set j c') rs
  | [], _, _, h, _ => by simp at h
  | a :: as, rs, 0, hj, h => by
    simp only [List.getElem?_cons_zero, Option.some.injEq] at hj
    subst hj
    simp only [List.set_cons_zero, SndElemsG] at h ⊢
    exact ⟨hsnd _ h.1, h.2⟩
  | a :: as, rs, j + 1, hj, h => by
    simp only [List.getElem?_cons_succ] at hj
    simp only [List.set_cons_succ, SndElemsG] at h ⊢
    exact ⟨h.1, sndElems_lift C ℓ c c' hsnd as rs.tail j hj h.2⟩

theorem syncElems_lift (C : Ctx) (c c' : AS) (hsync : Quiet C c → Quiet C c' ∧ ∀ r, Shows C c r → Shows C c' r) :
    ∀ (as : List AS) (j : Nat), as[j]? = some c → QuietElems C as →
    QuietElems C (as.set j c') ∧ ∀ rs, ShowsElems C as rs → ShowsElems C (as.set j c') rs
  | [], _, h, _ => by simp at h
  | a :: as, 0, hj, h => by
    simp only [List.getElem?_cons_zero, Option.some.injEq] at hj
    subst hj
    simp only [List.set_cons_zero, QuietElems, ShowsElems] at h ⊢
    refine ⟨⟨(hsync h.1).1, h.2⟩, fun rs hs => ?_⟩
    obtain ⟨r, rs', e, h1, h2⟩ := hs
    exact ⟨r, rs', e, (hsync h.1).2 r h1, h2⟩
  | a :: as, j + 1, hj, h => by
    simp only [List.getElem?_cons_succ] at hj
    simp only [List.set_cons_succ, QuietElems, ShowsElems] at h ⊢
    have ih := syncElems_lift C c c' hsync as j hj h.2
    refine ⟨⟨h.1, ih.1⟩, fun rs hs => ?_⟩
    obtain ⟨r, rs', e, h1, h2⟩ := hs
    exact ⟨r, rs', e, h1, ih.2 rs' h2⟩

/-- an operation below element `i` of an array: the signal passes through -/
theorem pres_at (C : Ctx) (e : Ty) (es hid : List AS) (i : Nat) (c c' : AS) (u : Up)
    (hc : es[i]? = some c) (hp : Pres C c c' u) :
    Pres C (.arr e es hid) (.arr e (es.set i c') hid) u := by
  refine ⟨fun ℓ R h => ?_, fun hq hu => ?_, rfl⟩
  · simp only [SndG] at h ⊢
    exact sndElems_lift C ℓ c c' (hp.snd ℓ) es _ i hc h
  · simp only [Quiet] at hq ⊢
    have ih := syncElems_lift C c c' (fun h => hp.sync h hu) es i hc hq
    refine ⟨ih.1, fun r hs => ?_⟩
    simp only [Shows] at hs ⊢
    obtain ⟨rs, e, hs⟩ := hs
    exact ⟨rs, e, ih.2 rs hs⟩

/-! ## multimap key / value -/

theorem maskForIndex_ne_zero (i : Nat) : maskForIndex i ≠ 0 := by
  unfold maskForIndex allOnes
  split
  · decide
  · exact Nat.ne_of_gt (Nat.two_pow_pos i)

theorem trackerRecv_no (k bit : Nat) : trackerRecv k bit .no = (k, .no) := rfl

theorem trackerRecv_ne_zero (k bit : Nat) (u : Up) (hk : k ≠ 0) : (trackerRecv k bit u).1 ≠ 0 := by
  have hor : k ||| bit ≠ 0 := by
    intro h
    have h2 := Nat.or_eq_zero_iff.mp h
    exact hk h2.1
  cases u
  · simpa [trackerRecv] using hk
  · unfold trackerRecv trackerMark
    simp only
    split
    · exact hor
    · exact hk
  · unfold trackerRecv
    simp only
    split
    · exact hor
    · exact hk

theorem trackerRecv_zero (bit : Nat) (u : Up) (hb : bit ≠ 0) (hu : u ≠ .no) :
    trackerRecv 0 bit u = (bit, .loop) := by
  cases u
  · exact absurd rfl hu
  · simp [trackerRecv, trackerMark, Ne.symm hb]
  · simp [trackerRecv]

theorem sndPairs_lift (C : Ctx) (ℓ : Bool) (a b a' b' : AS) (ha : ∀ R, SndG C ℓ a R → SndG C ℓ a' R)
    (hb : ∀ R, SndG C ℓ b R → SndG C ℓ b' R) :
    ∀ (ps : List (AS × AS)) (rs : List (St × St)) (j : Nat), ps[j]? = some (a, b) → SndPairsG C ℓ ps rs →
    SndPairsG C ℓ (ps.set j (a', b')) rs
  | [], _, _, h, _ => by simp at h
  | (x, y) :: ps, rs, 0, hj, h => by
    simp only [List.getElem?_cons_zero, Option.some.injEq, Prod.mk.injEq] at hj
    obtain ⟨rfl, rfl⟩ := hj
    simp only [List.set_cons_zero, SndPairsG] at h ⊢
    exact ⟨ha _ h.1, hb _ h.2.1, h.2.2⟩
  | (x, y) :: ps, rs, j + 1, hj, h => by
    simp only [List.getElem?_cons_succ] at hj
    simp only [List.set_cons_succ, SndPairsG] at h ⊢
    exact ⟨h.1, h.2.1, sndPairs_lift C ℓ a b a' b' ha hb ps rs.tail j hj h.2.2⟩

theorem syncPairs_lift (C : Ctx) (a b a' b' : AS)
    (ha : Quiet C a → Quiet C a' ∧ ∀ r, Shows C a r → Shows C a' r)
    (hb : Quiet C b → Quiet C b' ∧ ∀ r, Shows C b r → Shows C b' r) :
    ∀ (ps : List (AS × AS)) (j : Nat), ps[j]? = some (a, b) → QuietPairs C ps →
    QuietPairs C (ps.set j (a', b')) ∧ ∀ rs, ShowsPairs C ps rs → ShowsPairs C (ps.set j (a', b')) rs
  | [], _, h, _ => by simp at h
  | (x, y) :: ps, 0, hj, h => by
    simp only [List.getElem?_cons_zero, Option.some.injEq, Prod.mk.injEq] at hj
    obtain ⟨rfl, rfl⟩ := hj
    simp only [List.set_cons_zero, QuietPairs, ShowsPairs] at h ⊢
    refine ⟨⟨(ha h.1).1, (hb h.2.1).1, h.2.2⟩, fun rs hs => ?_⟩
    obtain ⟨rk, rv, rs', e, h1, h2, h3⟩ := hs
    exact ⟨rk, rv, rs', e, (ha h.1).2 rk h1, (hb h.2.1).2 rv h2, h3⟩
  | (x, y) :: ps, j + 1, hj, h => by
    simp only [List.getElem?_cons_succ] at hj
    simp only [List.set_cons_succ, QuietPairs, ShowsPairs] at h ⊢
    have ih := syncPairs_lift C a b a' b' ha hb ps j hj h.2.2
    refine ⟨⟨h.1, h.2.1, ih.1⟩, fun rs hs => ?_⟩
    obtain ⟨rk, rv, rs', e, h1, h2, h3⟩ := hs
    exact ⟨rk, rv, rs', e, h1, h2, ih.2 rs' h3⟩

/-- the values-only form is a special case of the full one: everything unmarked is in sync -/
theorem sndPairs_of_sndVals (C : Ctx) : ∀ (v idx : Nat) (ps : List (AS × AS)) (rs : List (St × St)),
    SndVals C v idx ps rs → SndPairsG C false ps rs
  | _, _, [], _, _ => by simp [SndPairsG]
  | v, idx, (a, b) :: ps, rs, h => by
    simp only [SndVals, SndPairsG] at h ⊢
    obtain ⟨⟨rk, rv, rs', e, hs, hq, hl, hb⟩, h2⟩ := h
    subst e
    refine ⟨by simpa using snd_of_sync C false a rk hs hq hl, ?_, by simpa using sndPairs_of_sndVals C v (idx + 1) ps rs' h2⟩
    by_cases hv : v.testBit idx = true
    · simpa [hv] using hb
    · simp only [hv] at hb
      simpa using snd_of_sync C false b rv hb.1 hb.2.1 hb.2.2

theorem sndVals_bits (C : Ctx) (v v' : Nat) : ∀ (idx : Nat) (ps : List (AS × AS)) (rs : List (St × St)),
    (∀ x, idx ≤ x → v'.testBit x = v.testBit x) → SndVals C v idx ps rs → SndVals C v' idx ps rs
  | _, [], _, _, _ => by simp [SndVals]
  | idx, (x, y) :: ps, rs, hbits, h => by
    simp only [SndVals] at h ⊢
    rw [hbits idx (Nat.le_refl _)]
    exact ⟨h.1, sndVals_bits C v v' (idx + 1) ps rs.tail (fun x hx => hbits x (by omega)) h.2⟩

theorem sndVals_lift (C : Ctx) (a b a' b' : AS) (v v' : Nat)
    (ha : ∀ r, Shows C a r → Quiet C a → UC C a → Shows C a' r ∧ Quiet C a' ∧ UC C a') :
    ∀ (idx : Nat) (ps : List (AS × AS)) (rs : List (St × St)) (j : Nat), ps[j]? = some (a, b) →
    (∀ x, x ≠ idx + j → v'.testBit x = v.testBit x) →
    (∀ rv, (if v.testBit (idx + j) then SndG C false b (some rv) else Shows C b rv ∧ Quiet C b ∧ UC C b) →
           (if v'.testBit (idx + j) then SndG C false b' (some rv) else Shows C b' rv ∧ Quiet C b' ∧ UC C b')) →
    SndVals C v idx ps rs → SndVals C v' idx (ps.set j (a', b')) rs
  | _, [], _, _, h, _, _, _ => by simp at h
  | idx, (x, y) :: ps, rs, 0, hj, hbits, hb, h => by
    simp only [List.getElem?_cons_zero, Option.some.injEq, Prod.mk.injEq] at hj
    obtain ⟨rfl, rfl⟩ := hj
    simp only [List.set_cons_zero, SndVals, Nat.add_zero] at h hb ⊢
    obtain ⟨⟨rk, rv, rs', e, hs, hq, hl, hbb⟩, h2⟩ := h
    subst e
    refine ⟨⟨rk, rv, rs', rfl, (ha rk hs hq hl).1, (ha rk hs hq hl).2.1, (ha rk hs hq hl).2.2, hb rv hbb⟩, ?_⟩
    exact sndVals_bits C v v' (idx + 1) ps _ (fun x hx => hbits x (by omega)) h2
  | idx, (x, y) :: ps, rs, j + 1, hj, hbits, hb, h => by
    simp only [List.getElem?_cons_succ] at hj
    simp only [List.set_cons_succ, SndVals] at h ⊢
    rw [hbits idx (by omega)]
    refine ⟨h.1, ?_⟩
    exact sndVals_lift C a b a' b' v v' ha (idx + 1) ps rs.tail j hj
      (fun x hx => hbits x (by omega)) (by rwa [show idx + 1 + j = idx + (j + 1) by omega]) h.2

theorem trackerRecv_up_no (bit : Nat) (u : Up) (hb : bit ≠ 0) (h : (trackerRecv 0 bit u).2 = .no) : u = .no := by
  by_cases hu : u = .no
  · exact hu
  · rw [trackerRecv_zero bit u hb hu] at h
    simp at h

theorem ne_nil_of_getElem? {α} (l : List α) (i : Nat) (x : α) (h : l[i]? = some x) : l ≠ [] := by
  intro e; subst e; simp at h

theorem lt_length_of_getElem? {α} (l : List α) (i : Nat) (x : α) (h : l[i]? = some x) : i < l.length := by
  by_cases hi : i < l.length
  · exact hi
  · rw [List.getElem?_eq_none_iff.mpr (Nat.le_of_not_lt hi)] at h; simp at h

/-- an operation below key `i` of a multimap -/
theorem pres_key (C : Ctx) (n : String) (ps hid : List (AS × AS)) (k v : Nat) (ml : Bool) (i : Nat)
    (a b a' : AS) (u : Up) (hc : ps[i]? = some (a, b))
    (hsnd : ∀ ℓ R, SndG C ℓ a R → SndG C ℓ a' R)
    (hsync : Quiet C a → u = .no → Quiet C a' ∧ ∀ r, Shows C a r → Shows C a' r) :
    Pres C (.mmap n ps hid k v ml)
      (.mmap n (ps.set i (a', b)) hid (trackerRecv k (maskForIndex i) u).1 v ml) (trackerRecv k (maskForIndex i) u).2 := by
  have hne := ne_nil_of_getElem? ps i _ hc
  refine ⟨fun ℓ R h => ?_, fun hq hu => ?_, rfl⟩
  · simp only [SndG, List.length_set] at h ⊢
    rcases h with h | ⟨hf, h⟩ | ⟨hℓ, hml, hk, hl, hR, hlen, h⟩
    · exact absurd h hne
    · refine Or.inr (Or.inl ⟨?_, sndPairs_lift C ℓ a b a' b (hsnd ℓ) (fun _ h => h) ps _ i hc h⟩)
      rcases hf with hf | hf | hf | hf
      · exact Or.inl hf
      · exact Or.inr (Or.inl hf)
      · exact Or.inr (Or.inr (Or.inl (trackerRecv_ne_zero k _ u hf)))
      · exact Or.inr (Or.inr (Or.inr hf))
    · subst hk hℓ
      by_cases hu : u = .no
      · subst hu
        refine Or.inr (Or.inr ⟨rfl, hml, by simp [trackerRecv_no], hl, hR, hlen, ?_⟩)
        exact sndVals_lift C a b a' b v v
          (fun r hs hq hl => ⟨(hsync hq rfl).2 r hs, (hsync hq rfl).1, hsnd true none hl⟩) 0 ps _ i hc
          (fun _ _ => rfl) (fun _ h => h) h
      · refine Or.inr (Or.inl ⟨Or.inr (Or.inr (Or.inl ?_)), ?_⟩)
        · rw [trackerRecv_zero _ u (maskForIndex_ne_zero i) hu]
          exact maskForIndex_ne_zero i
        · exact sndPairs_lift C false a b a' b (hsnd false) (fun _ h => h) ps _ i hc (sndPairs_of_sndVals C v 0 ps _ h)
  · simp only [Quiet] at hq ⊢
    rcases hq with hq | ⟨hk, hv, hml, hq⟩
    · exact absurd hq hne
    · subst hk
      have hu0 := trackerRecv_up_no _ u (maskForIndex_ne_zero i) hu
      subst hu0
      have ih := syncPairs_lift C a b a' b (fun h => hsync h rfl) (fun h => ⟨h, fun _ h => h⟩) ps i hc hq
      refine ⟨Or.inr ⟨by simp [trackerRecv_no], hv, hml, ih.1⟩, fun r hs => ?_⟩
      simp only [Shows] at hs ⊢
      obtain ⟨rps, e, hs⟩ := hs
      exact ⟨rps, e, ih.2 rps hs⟩

theorem maskForIndex_lt (i : Nat) (hi : i < 64) : maskForIndex i = 2 ^ i := by
  unfold maskForIndex
  simp [show ¬ i ≥ 64 by omega]

theorem and_two_pow_eq_zero (v i : Nat) (h : v.testBit i = false) : v &&& 2 ^ i = 0 := by
  apply Nat.eq_of_testBit_eq
  intro j
  simp only [Nat.testBit_and, Nat.testBit_two_pow, Nat.zero_testBit]
  by_cases hj : i = j
  · subst hj; simp [h]
  · simp [hj]

theorem and_two_pow_eq_self (v i : Nat) (h : v.testBit i = true) : v &&& 2 ^ i = 2 ^ i := by
  apply Nat.eq_of_testBit_eq
  intro j
  simp only [Nat.testBit_and, Nat.testBit_two_pow]
  by_cases hj : i = j
  · subst hj; simp [h]
  · simp [hj]

/-- the value tracker after a signal from value `i < 64`: other bits unchanged; bit `i` is set if a
    signal came, unchanged otherwise -/
theorem trackerRecv_val_bits (v i : Nat) (u : Up) (hi : i < 64) :
    (∀ x, x ≠ i → (trackerRecv v (maskForIndex i) u).1.testBit x = v.testBit x) ∧
    (u = .no → (trackerRecv v (maskForIndex i) u).1 = v) ∧
    (u ≠ .no → (trackerRecv v (maskForIndex i) u).1.testBit i = true) := by
  rw [maskForIndex_lt i hi]
  by_cases hv : v.testBit i = true
  · have e := and_two_pow_eq_self v i hv
    have hne : (2:Nat) ^ i ≠ 0 := Nat.ne_of_gt (Nat.two_pow_pos i)
    have : ∀ u, (trackerRecv v (2 ^ i) u).1 = v := by
      intro u
      cases u <;> simp [trackerRecv, trackerMark, e, hne]
    exact ⟨fun x _ => by rw [this], fun _ => this u, fun _ => by rw [this]; exact hv⟩
  · have hv : v.testBit i = false := by simpa using hv
    have e := and_two_pow_eq_zero v i hv
    have hne : (0:Nat) ≠ 2 ^ i := Nat.ne_of_lt (Nat.two_pow_pos i)
    refine ⟨fun x hx => ?_, fun hu => by subst hu; rfl, fun hu => ?_⟩
    · cases u <;> simp [trackerRecv, trackerMark, e, hne, Nat.testBit_or, Nat.testBit_two_pow, Ne.symm hx]
    · cases u
      · exact absurd rfl hu
      · simp [trackerRecv, trackerMark, e, hne, Nat.testBit_or, Nat.testBit_two_pow]
      · simp [trackerRecv, e, Nat.testBit_or, Nat.testBit_two_pow]

/-- an operation below value `i` of a multimap -/
theorem pres_val (C : Ctx) (n : String) (ps hid : List (AS × AS)) (k v : Nat) (ml : Bool) (i : Nat)
    (a b b' : AS) (u : Up) (hc : ps[i]? = some (a, b))
    (hsnd : ∀ ℓ R, SndG C ℓ b R → SndG C ℓ b' R)
    (hsync : Quiet C b → u = .no → Quiet C b' ∧ ∀ r, Shows C b r → Shows C b' r) :
    Pres C (.mmap n ps hid k v ml)
      (.mmap n (ps.set i (a, b')) hid k (trackerRecv v (maskForIndex i) u).1 ml) (trackerRecv v (maskForIndex i) u).2 := by
  have hne := ne_nil_of_getElem? ps i _ hc
  have hil := lt_length_of_getElem? ps i _ hc
  refine ⟨fun ℓ R h => ?_, fun hq hu => ?_, rfl⟩
  · simp only [SndG, List.length_set] at h ⊢
    rcases h with h | ⟨hf, h⟩ | ⟨hℓ, hml, hk, hl, hR, hlen, h⟩
    · exact absurd h hne
    · exact Or.inr (Or.inl ⟨hf, sndPairs_lift C ℓ a b a b' (fun _ h => h) (hsnd ℓ) ps _ i hc h⟩)
    · subst hℓ
      refine Or.inr (Or.inr ⟨rfl, hml, hk, hl, hR, hlen, ?_⟩)
      obtain ⟨hbits, hno, hset⟩ := trackerRecv_val_bits v i u (by omega)
      refine sndVals_lift C a b a b' v _ (fun r hs hq hl => ⟨hs, hq, hl⟩) 0 ps _ i hc
        (fun x hx => hbits x (by omega)) (fun rv hb => ?_) h
      rw [Nat.zero_add] at hb ⊢
      by_cases hu : u = .no
      · rw [hno hu]
        by_cases hv : v.testBit i = true
        · simp only [hv, if_true] at hb ⊢
          exact hsnd false _ hb
        · simp only [hv] at hb ⊢
          exact ⟨(hsync hb.2.1 hu).2 rv hb.1, (hsync hb.2.1 hu).1, hsnd true none hb.2.2⟩
      · rw [hset hu]
        simp only [if_true]
        by_cases hv : v.testBit i = true
        · simp only [hv, if_true] at hb
          exact hsnd false _ hb
        · simp only [hv] at hb
          exact hsnd false _ (snd_of_sync C false b rv hb.1 hb.2.1 hb.2.2)
  · simp only [Quiet] at hq ⊢
    rcases hq with hq | ⟨hk, hv, hml, hq⟩
    · exact absurd hq hne
    · subst hv
      have hu0 := trackerRecv_up_no _ u (maskForIndex_ne_zero i) hu
      subst hu0
      have ih := syncPairs_lift C a b a b' (fun h => ⟨h, fun _ h => h⟩) (fun h => hsync h rfl) ps i hc hq
      refine ⟨Or.inr ⟨hk, by simp [trackerRecv_no], hml, ih.1⟩, fun r hs => ?_⟩
      simp only [Shows] at hs ⊢
      obtain ⟨rps, e, hs⟩ := hs
      exact ⟨rps, e, ih.2 rps hs⟩

end Stef.Api
