/-
  Stef.Proofs.BitFlowGen: the bit stream REGENERATED from go/pkg/bitstream.go (Stef/Gen/BitFlow.lean, by
  extract/bitflow.go: one Lean `let` / `if` / `match` per Go statement; `uint` as `Nat` modulo 2^64,
  `uint64` as `BitVec 64`, `int` as wrapped `Int`, panics as `none`) computes exactly what the hand model
  of Stef/BitStream.lean says. These proofs are the tie of the hand model to the source text: a change of a
  method of `BitsWriter` / `BitsReader` that is not an equivalent rewriting either makes the generator fail or
  breaks a proof below. The proofs unfold the regenerated definitions and split on their conditions; they do
  not name the `let`-bound locals, so renaming a local or swapping independent assignments keeps them.

  `toHandR` / `toHandW` read a regenerated state as a state of the hand model. A regenerated method returns
  `none` when the Go method panics; `SimR` relates that to the hand model's `panicked` flag.
-/
import Stef.Gen.BitFlow
import Stef.BitStream
import Stef.Proofs.BitReader
import Stef.Proofs.BitRoundtrip

namespace Stef.Proofs.BitFlowGen
open Stef Stef.BitFlowSem

abbrev GR := Stef.Gen.BitFlow.BitsReader
abbrev GW := Stef.Gen.BitFlow.BitsWriter

/-- the state of the hand model that a regenerated reader state stands for (`lastError != nil` is
    `eof`; a regenerated state is a state in which no panic has happened). -/
def toHandR (g : GR) : Stef.BitsReader :=
  { bitBuf := g.bitBuf, buf := g.buf, byteIndex := g.byteIndex, availBitCount := g.availBitCount,
    eof := g.lastError, eofPadded := g.eofPadded, panicked := false }

def toHandW (g : GW) : Stef.BitsWriter :=
  { stream := g.stream, bitsBuf := g.bitsBuf, bitsBufUsed := g.bitsBufUsed }

/-! ### Go `uint` arithmetic where it does not wrap -/

theorem usub_eq (a b : Nat) (hb : b ≤ a) (ha : a < 2 ^ 64) : usub a b = a - b := by
  unfold usub; omega

theorem uadd_eq (a b : Nat) (h : a + b < 2 ^ 64) : uadd a b = a + b := by
  unfold uadd; omega

theorem usub_wrap (a b : Nat) (ha : a < 2 ^ 64) (hb : b < 2 ^ 64) :
    usub a b = if b ≤ a then a - b else a + 2 ^ 64 - b := by
  unfold usub; split <;> omega

theorem usub_lt (a b : Nat) : usub a b < 2 ^ 64 := by unfold usub; omega
theorem uadd_lt (a b : Nat) : uadd a b < 2 ^ 64 := by unfold uadd; omega

theorem uintOfInt_len (s : Bytes) (h : s.length < 2 ^ 64) : uintOfInt (len s) = s.length := by
  unfold uintOfInt len; omega

/-! ### reader: Reset, Error, Consume -/

theorem reset_eq (g : GR) (buf : Bytes) : toHandR (g.reset buf) = (toHandR g).reset buf := rfl

theorem error_eq (g : GR) : g.error = (toHandR g).err := by
  unfold Gen.BitFlow.BitsReader.error Stef.BitsReader.err toHandR
  cases g.lastError <;> cases g.eofPadded <;> simp

theorem consume_eq (g : GR) (n : Nat) (ha : g.availBitCount < 2 ^ 64) (hn : n < 2 ^ 64) :
    toHandR (g.consume n) = (toHandR g).consume n := by
  unfold Gen.BitFlow.BitsReader.consume Stef.BitsReader.consume toHandR
  simp only [usub_wrap _ _ ha hn]

/-! ### reader: the refill paths -/

/-- the loop of `refillSlow`: with any fuel above the number of rounds still possible (at most 7) the
    regenerated loop ends and leaves what the hand model's loop leaves. -/
theorem refillSlow_loop_eq : ∀ (f k : Nat) (g : GR), g.buf.length < 2 ^ 64 →
    (56 - g.availBitCount + 7) / 8 < f → (56 - g.availBitCount + 7) / 8 ≤ k →
    (Gen.BitFlow.BitsReader.refillSlow_loop1 f g).map toHandR = some (Stef.BitsReader.refillLoop (toHandR g) k) := by
  intro f
  induction f with
  | zero => intro k g _ hf _; omega
  | succ f ih =>
    intro k g hlen hf hk
    unfold Gen.BitFlow.BitsReader.refillSlow_loop1
    rw [uintOfInt_len _ hlen]
    by_cases hc : g.byteIndex < g.buf.length ∧ g.availBitCount < 56
    · obtain ⟨hi, ha⟩ := hc
      have hk1 : 1 ≤ k := by omega
      obtain ⟨k', rfl⟩ : ∃ k', k = k' + 1 := ⟨k - 1, by omega⟩
      have hnge : ¬ g.byteIndex ≥ g.buf.length := by omega
      simp only [hi, ha, decide_true, Bool.and_self, ↓reduceIte, hnge, decide_false, Bool.false_eq_true]
      rw [ih k' _ (by simpa using hlen) (by simp only [uadd_eq _ _ (show g.availBitCount + 8 < 2 ^ 64 by omega)]; omega)
        (by simp only [uadd_eq _ _ (show g.availBitCount + 8 < 2 ^ 64 by omega)]; omega)]
      conv => rhs; unfold Stef.BitsReader.refillLoop
      have hc' : (toHandR g).byteIndex < (toHandR g).buf.length ∧ (toHandR g).availBitCount < 56 := ⟨hi, ha⟩
      rw [if_pos hc']
      simp only [toHandR, uadd_eq _ _ (show g.availBitCount + 8 < 2 ^ 64 by omega),
        uadd_eq _ _ (show g.byteIndex + 1 < 2 ^ 64 by omega),
        usub_eq 64 g.availBitCount (by omega) (by omega), usub_eq (64 - g.availBitCount) 8 (by omega) (by omega)]
    · have hcb : (decide (g.byteIndex < g.buf.length) && decide (g.availBitCount < 56)) = false := by
        simpa [Bool.and_eq_false_iff, Classical.not_and_iff_not_or_not] using hc
      simp only [hcb, Bool.false_eq_true, ↓reduceIte, Option.map_some]
      cases k with
      | zero => rfl
      | succ k =>
        unfold Stef.BitsReader.refillLoop
        have hc' : ¬ ((toHandR g).byteIndex < (toHandR g).buf.length ∧ (toHandR g).availBitCount < 56) := hc
        rw [if_neg hc']

/-- what the hand model's loop keeps: the buffer; the index stays at or below the end of the buffer
    (or where it was), the bit count below 64. -/
theorem refillLoop_bounds : ∀ (k : Nat) (b : Stef.BitsReader),
    (Stef.BitsReader.refillLoop b k).buf = b.buf ∧
    ((Stef.BitsReader.refillLoop b k).byteIndex ≤ b.buf.length ∨
      (Stef.BitsReader.refillLoop b k).byteIndex = b.byteIndex) ∧
    (b.availBitCount ≤ 63 → (Stef.BitsReader.refillLoop b k).availBitCount ≤ 63) := by
  intro k
  induction k with
  | zero => intro b; exact ⟨rfl, Or.inr rfl, id⟩
  | succ k ih =>
    intro b
    unfold Stef.BitsReader.refillLoop
    split
    · rename_i hc
      obtain ⟨h1, h2, h3⟩ := ih { b with bitBuf := b.bitBuf ||| (((b.buf.getD b.byteIndex 0#8).setWidth 64) <<< (64 - b.availBitCount - 8)), byteIndex := b.byteIndex + 1, availBitCount := b.availBitCount + 8 }
      refine ⟨h1, ?_, fun _ => h3 (by simp only; omega)⟩
      rcases h2 with h2 | h2
      · exact Or.inl h2
      · left; rw [h2]; simp only; omega
    · exact ⟨rfl, Or.inr rfl, id⟩

theorem refillSlow_bounds (b : Stef.BitsReader) :
    b.refillSlow.buf = b.buf ∧
    (b.refillSlow.byteIndex ≤ b.buf.length ∨ b.refillSlow.byteIndex = b.byteIndex) ∧
    (b.availBitCount ≤ 63 → b.refillSlow.availBitCount ≤ 63 + 56) := by
  unfold Stef.BitsReader.refillSlow
  by_cases h : b.byteIndex ≥ b.buf.length
  · simp only [h, ↓reduceIte]
    exact ⟨trivial, Or.inr trivial, fun h => by omega⟩
  · simp only [h, ↓reduceIte]
    obtain ⟨h1, h2, h3⟩ := refillLoop_bounds 8 b
    by_cases h' : (Stef.BitsReader.refillLoop b 8).byteIndex ≥ (Stef.BitsReader.refillLoop b 8).buf.length
    · simp only [h', ↓reduceIte]
      exact ⟨h1, h2, fun h => by have := h3 h; omega⟩
    · simp only [h', ↓reduceIte]
      exact ⟨h1, h2, fun h => by have := h3 h; omega⟩

theorem refillSlow_eq (g : GR) (hlen : g.buf.length < 2 ^ 64) (ha : g.availBitCount ≤ 63) :
    g.refillSlow.map toHandR = some (toHandR g).refillSlow := by
  unfold Gen.BitFlow.BitsReader.refillSlow Stef.BitsReader.refillSlow
  rw [uintOfInt_len _ hlen]
  by_cases h0 : g.byteIndex ≥ g.buf.length
  · have h0' : (toHandR g).byteIndex ≥ (toHandR g).buf.length := h0
    simp only [h0, decide_true, ↓reduceIte, Option.map_some, h0']
    rfl
  · have h0' : ¬ (toHandR g).byteIndex ≥ (toHandR g).buf.length := h0
    simp only [h0, decide_false, Bool.false_eq_true, ↓reduceIte, h0']
    have hl := refillSlow_loop_eq loopFuel 8 g hlen (by unfold loopFuel; omega) (by omega)
    obtain ⟨hb1, _, hb3⟩ := refillLoop_bounds 8 (toHandR g)
    cases hg1 : Gen.BitFlow.BitsReader.refillSlow_loop1 loopFuel g with
    | none => rw [hg1] at hl; simp at hl
    | some g1 =>
      rw [hg1] at hl
      simp only [Option.map_some, Option.some.injEq] at hl
      rw [← hl] at hb1 hb3 ⊢
      have hbuf : g1.buf = g.buf := hb1
      have ha1 : g1.availBitCount ≤ 63 := hb3 ha
      simp only
      rw [uintOfInt_len _ (by rw [hbuf]; exact hlen)]
      by_cases h1 : g1.byteIndex ≥ g1.buf.length
      · have h1' : (toHandR g1).byteIndex ≥ (toHandR g1).buf.length := h1
        simp only [h1, decide_true, ↓reduceIte, Option.map_some, h1', uadd_eq _ _ (show g1.availBitCount + 56 < 2 ^ 64 by omega)]
        rfl
      · have h1' : ¬ (toHandR g1).byteIndex ≥ (toHandR g1).buf.length := h1
        simp only [h1, decide_false, Bool.false_eq_true, ↓reduceIte, Option.map_some, h1']

/-- `binary.BigEndian.Uint64(buf[i:])` is the hand model's 64-bit load at `i`. -/
theorem uint64BE_drop (buf : Bytes) (i : Nat) : uint64BE (buf.drop i) = Stef.BitsReader.load64 buf i := by
  simp only [uint64BE, Stef.BitsReader.load64, List.getD_eq_getElem?_getD, List.getElem?_drop]

/-- the register-level well-formedness that the regenerated reader keeps (Go: a slice has fewer than
    2^63 elements, the index never leaves it by more than a refill, `availBitCount` is a `uint`). -/
structure WFR (g : GR) : Prop where
  len : g.buf.length < 2 ^ 63
  idx : g.byteIndex < 2 ^ 63
  avail : g.availBitCount < 2 ^ 64

/-- what a regenerated result means in the hand model: `none` (the Go code panics) = the hand model
    sets `panicked`; otherwise the same state and value (and the state is well formed again). -/
def SimR (r : Option (GR × Word)) (h : Stef.BitsReader × Word) : Prop :=
  match r with
  | none => h.1.panicked = true
  | some (g, v) => h = (toHandR g, v) ∧ WFR g

theorem or56_le (a : Nat) (h : a ≤ 63) : a ||| 56 ≤ 63 := by
  have : a ||| 56 < 2 ^ 6 := Nat.or_lt_two_pow (by omega) (by omega)
  omega

theorem refillAndPeekBits_sim (g : GR) (n : Nat) (hw : WFR g) (ha : g.availBitCount ≤ 63) :
    SimR (g.refillAndPeekBits n) ((toHandR g).refillAndPeekBits n) := by
  obtain ⟨hlen, hidx, _⟩ := hw
  unfold Gen.BitFlow.BitsReader.refillAndPeekBits Stef.BitsReader.refillAndPeekBits
  by_cases hn : n > 56
  · simp only [hn, decide_true, ↓reduceIte, SimR]
  · simp only [hn, decide_false, Bool.false_eq_true, ↓reduceIte]
    rw [uintOfInt_len _ (by omega), uadd_eq _ _ (show g.byteIndex + 8 < 2 ^ 64 by omega), usub_eq 64 n (by omega) (by omega)]
    by_cases hf : g.byteIndex + 8 < g.buf.length
    · have hf' : (toHandR g).byteIndex + 8 < (toHandR g).buf.length := hf
      have hg1 : ¬ g.byteIndex > g.buf.length := by omega
      have hg2 : ¬ (g.buf.drop g.byteIndex).length < 8 := by rw [List.length_drop]; omega
      have hsh : (63 - g.availBitCount) >>> 3 ≤ 7 := by
        rw [Nat.shiftRight_eq_div_pow]; omega
      simp only [hf, decide_true, ↓reduceIte, hg1, hg2, decide_false, Bool.false_eq_true, hf', SimR,
        uint64BE_drop, usub_eq 63 g.availBitCount ha (by omega), ushr, uor]
      rw [uadd_eq _ _ (by omega)]
      refine ⟨rfl, by simpa using hlen, by simp only; omega, ?_⟩
      have := or56_le _ ha
      simp only; omega
    · have hf' : ¬ (toHandR g).byteIndex + 8 < (toHandR g).buf.length := hf
      simp only [hf, decide_false, Bool.false_eq_true, ↓reduceIte, hf']
      have hs := refillSlow_eq g (by omega) ha
      cases hg1 : g.refillSlow with
      | none => rw [hg1] at hs; simp at hs
      | some g1 =>
        rw [hg1] at hs
        simp only [Option.map_some, Option.some.injEq] at hs
        simp only [SimR, ← hs]
        -- well-formedness of the state after the slow refill, read off the hand model
        obtain ⟨hb1, hb2, hb3⟩ := refillSlow_bounds (toHandR g)
        rw [← hs] at hb1 hb2 hb3
        have hbuf : g1.buf = g.buf := hb1
        have hidx1 : g1.byteIndex ≤ g.buf.length ∨ g1.byteIndex = g.byteIndex := hb2
        have hav1 : g1.availBitCount ≤ 63 + 56 := hb3 ha
        exact ⟨rfl, by rw [hbuf]; exact hlen, by rcases hidx1 with h | h <;> omega, by omega⟩

theorem peekBits_sim (g : GR) (n : Nat) (hw : WFR g) (hn : n ≤ 64) :
    SimR (g.peekBits n) ((toHandR g).peekBits n) := by
  unfold Gen.BitFlow.BitsReader.peekBits Stef.BitsReader.peekBits
  by_cases h : n ≤ g.availBitCount
  · have h' : n ≤ (toHandR g).availBitCount := h
    simp only [h, decide_true, ↓reduceIte, h', SimR, usub_eq 64 n hn (by omega)]
    exact ⟨rfl, hw⟩
  · have h' : ¬ n ≤ (toHandR g).availBitCount := h
    simp only [h, decide_false, Bool.false_eq_true, ↓reduceIte, h']
    have hs := refillAndPeekBits_sim g n hw (by omega)
    cases hr : g.refillAndPeekBits n with
    | none => rw [hr] at hs; exact hs
    | some p => obtain ⟨g1, v⟩ := p; rw [hr] at hs; exact hs

/-- a peek of at most 56 bits never panics. -/
theorem refillAndPeekBits_isSome (g : GR) (n : Nat) (hw : WFR g) (ha : g.availBitCount ≤ 63) (hn : n ≤ 56) :
    ∃ p, g.refillAndPeekBits n = some p := by
  have hs := refillAndPeekBits_sim g n hw ha
  cases hr : g.refillAndPeekBits n with
  | some p => exact ⟨p, rfl⟩
  | none =>
    exfalso
    obtain ⟨hlen, hidx, _⟩ := hw
    unfold Gen.BitFlow.BitsReader.refillAndPeekBits at hr
    have hn' : ¬ n > 56 := by omega
    simp only [hn', decide_false, Bool.false_eq_true, ↓reduceIte] at hr
    rw [uintOfInt_len _ (by omega), uadd_eq _ _ (show g.byteIndex + 8 < 2 ^ 64 by omega)] at hr
    by_cases hf : g.byteIndex + 8 < g.buf.length
    · have hg1 : ¬ g.byteIndex > g.buf.length := by omega
      have hg2 : ¬ (g.buf.drop g.byteIndex).length < 8 := by rw [List.length_drop]; omega
      simp [hf, hg1] at hr
      omega
    · simp only [hf, decide_false, Bool.false_eq_true, ↓reduceIte] at hr
      have hs := refillSlow_eq g (by omega) ha
      cases hg1 : g.refillSlow with
      | none => rw [hg1] at hs; simp at hs
      | some g1 => rw [hg1] at hr; simp at hr

theorem peekBits_isSome (g : GR) (n : Nat) (hw : WFR g) (hn : n ≤ 56) : ∃ p, g.peekBits n = some p := by
  unfold Gen.BitFlow.BitsReader.peekBits
  by_cases h : n ≤ g.availBitCount
  · simp [h]
  · simp only [h, decide_false, Bool.false_eq_true, ↓reduceIte]
    obtain ⟨p, hp⟩ := refillAndPeekBits_isSome g n hw (by omega) hn
    obtain ⟨g1, v⟩ := p
    rw [hp]; exact ⟨_, rfl⟩

theorem consume_wf (g : GR) (n : Nat) (hw : WFR g) : WFR (g.consume n) :=
  ⟨hw.len, hw.idx, usub_lt _ _⟩

/-- `PeekBits(n)` followed by `Consume(m)`. -/
theorem peek_consume_sim (g : GR) (n m : Nat) (hw : WFR g) (hn : n ≤ 64) (hm : m < 2 ^ 64) :
    SimR (match g.peekBits n with
          | none => none
          | some (b, r) => some (b.consume m, r))
      (((toHandR g).peekBits n).1.consume m, ((toHandR g).peekBits n).2) := by
  have hs := peekBits_sim g n hw hn
  cases hr : g.peekBits n with
  | none => rw [hr] at hs; exact hs
  | some p =>
    obtain ⟨g1, v⟩ := p
    rw [hr] at hs
    obtain ⟨he, hw1⟩ := hs
    simp only [SimR, he]
    exact ⟨by rw [consume_eq g1 m hw1.avail hm], consume_wf g1 m hw1⟩

theorem readBitsMoreThan56_sim (g : GR) (n : Nat) (hw : WFR g) (h56 : 56 < n) (hn : n ≤ 64) :
    SimR (g.readBitsMoreThan56 n) ((toHandR g).readBitsMoreThan56 n) := by
  unfold Gen.BitFlow.BitsReader.readBitsMoreThan56 Stef.BitsReader.readBitsMoreThan56
  obtain ⟨p, hp⟩ := peekBits_isSome g 56 hw (by omega)
  obtain ⟨g1, v⟩ := p
  have hs := peekBits_sim g 56 hw (by omega)
  rw [hp] at hs ⊢
  obtain ⟨he, hw1⟩ := hs
  rw [he]
  simp only
  -- the number of bits consumed first: min(availBitCount, 56)
  obtain ⟨tc, htc⟩ : ∃ tc, tc = (if (toHandR g1).availBitCount > 56 then 56 else (toHandR g1).availBitCount) := ⟨_, rfl⟩
  have htc56 : tc ≤ 56 := by rw [htc]; split <;> omega
  have hw2 : WFR (g1.consume tc) := consume_wf g1 tc hw1
  have hsub : usub n tc = n - tc := usub_eq n tc (by omega) (by omega)
  have key : SimR (match (g1.consume tc).peekBits (usub n tc) with
                   | none => none
                   | some (b, r) => some (b.consume (usub n tc), (v <<< (usub n tc)) ||| r))
      ((((toHandR g1).consume tc).peekBits (n - tc)).1.consume (n - tc),
        (v <<< (n - tc)) ||| (((toHandR g1).consume tc).peekBits (n - tc)).2) := by
    rw [hsub, ← consume_eq g1 tc hw1.avail (by omega)]
    have hs2 := peekBits_sim (g1.consume tc) (n - tc) hw2 (by omega)
    cases hr : (g1.consume tc).peekBits (n - tc) with
    | none => rw [hr] at hs2; exact hs2
    | some p2 =>
      obtain ⟨g3, v2⟩ := p2
      rw [hr] at hs2
      obtain ⟨he2, hw3⟩ := hs2
      simp only [SimR, he2]
      exact ⟨by rw [consume_eq g3 (n - tc) hw3.avail (by omega)], consume_wf g3 _ hw3⟩
  by_cases hgt : g1.availBitCount > 56
  · have hgt' : (toHandR g1).availBitCount > 56 := hgt
    have : tc = 56 := by rw [htc, if_pos hgt']
    subst this
    simp only [hgt, decide_true, ↓reduceIte, hgt']
    exact key
  · have hgt' : ¬ (toHandR g1).availBitCount > 56 := hgt
    have : tc = g1.availBitCount := by rw [htc, if_neg hgt']; rfl
    subst this
    simp only [hgt, decide_false, Bool.false_eq_true, ↓reduceIte, hgt']
    exact key

/-- **Gen.readBits = BitsReader.readBits**: on every well-formed reader state and for every width up to 64. -/
theorem readBits_sim (g : GR) (n : Nat) (hw : WFR g) (hn : n ≤ 64) :
    SimR (g.readBits n) ((toHandR g).readBits n) := by
  unfold Gen.BitFlow.BitsReader.readBits Stef.BitsReader.readBits
  by_cases h56 : n ≤ 56
  · simp only [h56, decide_true, ↓reduceIte]
    exact peek_consume_sim g n n hw hn (by omega)
  · simp only [h56, decide_false, Bool.false_eq_true, ↓reduceIte]
    have hs := readBitsMoreThan56_sim g n hw (by omega) hn
    cases hr : g.readBitsMoreThan56 n with
    | none => rw [hr] at hs; exact hs
    | some p => obtain ⟨g1, v⟩ := p; rw [hr] at hs; exact hs

theorem usub_64_1 : usub 64 1 = 63 := by unfold usub; omega

theorem readBit_sim (g : GR) (hw : WFR g) : SimR g.readBit (toHandR g).readBit := by
  unfold Gen.BitFlow.BitsReader.readBit Stef.BitsReader.readBit
  by_cases h : g.availBitCount > 0
  · have h' : (toHandR g).availBitCount > 0 := h
    simp only [h, decide_true, ↓reduceIte, h', SimR, usub_eq g.availBitCount 1 (by omega) hw.avail]
    exact ⟨rfl, hw.len, hw.idx, by have := hw.avail; simp only; omega⟩
  · have h' : ¬ (toHandR g).availBitCount > 0 := h
    simp only [h, decide_false, Bool.false_eq_true, ↓reduceIte, h']
    unfold Gen.BitFlow.BitsReader.readBitSlow
    have hs := peek_consume_sim g 1 1 hw (by omega) (by omega)
    cases hr : g.peekBits 1 with
    | none => rw [hr] at hs; simpa [hr] using hs
    | some p => obtain ⟨g1, v⟩ := p; rw [hr] at hs; simpa [hr] using hs

/-- `PeekBit()` is `PeekBits(1)` (the hand model has no separate `PeekBit`). -/
theorem peekBit_eq (g : GR) : g.peekBit = g.peekBits 1 := by
  unfold Gen.BitFlow.BitsReader.peekBit Gen.BitFlow.BitsReader.peekBits
  rw [usub_64_1]

/-! ### reader: the compact varints -/

theorem clz_le_64 (v : Word) : v.clz.toNat ≤ 64 := by
  have h2 := BitVec.le_def.mp (BitVec.clz_le (x := v))
  simpa using h2

theorem readShift_lt : ∀ z, z ≤ 64 → Stef.Gen.readShiftByZeros z < 2 ^ 64 := by decide
theorem readConsume_lt : ∀ z, z ≤ 64 → Stef.Gen.readConsumeCountByZeros z < 2 ^ 64 := by decide

theorem readUvarintCompact_sim (g : GR) (hw : WFR g) :
    SimR g.readUvarintCompact (toHandR g).readUvarintCompact := by
  unfold Gen.BitFlow.BitsReader.readUvarintCompact Stef.BitsReader.readUvarintCompact
  obtain ⟨p, hp⟩ := peekBits_isSome g 56 hw (by omega)
  obtain ⟨g1, v⟩ := p
  have hs := peekBits_sim g 56 hw (by omega)
  rw [hp] at hs ⊢
  obtain ⟨he, hw1⟩ := hs
  rw [he]
  have hz := clz_le_64 v
  have hguard : ¬ (((v.clz.toNat : Nat) : Int) < 0 ∨ v.clz.toNat ≥ 65) := by omega
  simp only [hguard, decide_false, Bool.false_eq_true, ↓reduceIte, SimR, leadingZeros64, Int.toNat_natCast,
    u64OfUint, BitVec.toNat_ofNat, Nat.mod_eq_of_lt (readShift_lt _ hz)]
  exact ⟨by rw [consume_eq g1 _ hw1.avail (readConsume_lt _ hz)], consume_wf g1 _ hw1⟩

theorem readVarintCompact_sim (g : GR) (hw : WFR g) :
    SimR g.readVarintCompact (toHandR g).readVarintCompact := by
  unfold Gen.BitFlow.BitsReader.readVarintCompact Stef.BitsReader.readVarintCompact
  have hs := readUvarintCompact_sim g hw
  cases hr : g.readUvarintCompact with
  | none => rw [hr] at hs; exact hs
  | some p =>
    obtain ⟨g1, v⟩ := p
    rw [hr] at hs
    obtain ⟨he, hw1⟩ := hs
    simp only [SimR, he, Stef.BitsReader.unzigzag]
    exact ⟨trivial, hw1⟩


/-! ### reader: sequences of `ReadBits` -/

theorem refillLoop_panicked (fuel : Nat) (r : Stef.BitsReader) :
    (Stef.BitsReader.refillLoop r fuel).panicked = r.panicked := by
  induction fuel generalizing r with
  | zero => rfl
  | succ k ih =>
    unfold Stef.BitsReader.refillLoop
    split
    · rw [ih]
    · rfl

/-- once the hand model has recorded a panic it keeps it (it goes on computing; the Go code does not). -/
theorem peekBits_panicked_sticky (r : Stef.BitsReader) (n : Nat) (h : r.panicked = true) :
    (r.peekBits n).1.panicked = true := by
  unfold Stef.BitsReader.peekBits
  split
  · exact h
  · unfold Stef.BitsReader.refillAndPeekBits
    split
    · rfl
    · simp only
      split
      · exact h
      · unfold Stef.BitsReader.refillSlow
        split
        · exact h
        · simp only
          split
          · simp only; rw [refillLoop_panicked]; exact h
          · rw [refillLoop_panicked]; exact h

theorem consume_panicked (r : Stef.BitsReader) (n : Nat) : (r.consume n).panicked = r.panicked := rfl

theorem readBits_panicked_sticky (r : Stef.BitsReader) (n : Nat) (h : r.panicked = true) :
    (r.readBits n).1.panicked = true := by
  unfold Stef.BitsReader.readBits
  split
  · simp only [consume_panicked]; exact peekBits_panicked_sticky r n h
  · unfold Stef.BitsReader.readBitsMoreThan56
    simp only [consume_panicked]
    apply peekBits_panicked_sticky
    rw [consume_panicked]
    exact peekBits_panicked_sticky r 56 h

theorem readMany_panicked_sticky (ns : List Nat) (r : Stef.BitsReader) (h : r.panicked = true) :
    (Stef.BitsReader.readMany r ns).1.panicked = true := by
  induction ns generalizing r with
  | nil => exact h
  | cons n ns ih =>
    simp only [Stef.BitsReader.readMany]
    exact ih _ (readBits_panicked_sticky r n h)

/-- a sequence of regenerated `ReadBits` calls; `none` = one of them panics. -/
def readMany : GR → List Nat → Option (GR × List Word)
  | g, [] => some (g, [])
  | g, n :: ns =>
    match g.readBits n with
    | none => none
    | some (g1, v) =>
      match readMany g1 ns with
      | none => none
      | some (g2, vs) => some (g2, v :: vs)

/-- `SimR` for sequences. -/
def SimRs (r : Option (GR × List Word)) (h : Stef.BitsReader × List Word) : Prop :=
  match r with
  | none => h.1.panicked = true
  | some (g, vs) => h = (toHandR g, vs) ∧ WFR g

theorem readMany_sim (ns : List Nat) (g : GR) (hw : WFR g) (hns : ∀ n ∈ ns, n ≤ 64) :
    SimRs (readMany g ns) (Stef.BitsReader.readMany (toHandR g) ns) := by
  induction ns generalizing g with
  | nil => exact ⟨rfl, hw⟩
  | cons n ns ih =>
    have hs := readBits_sim g n hw (hns n (by simp))
    simp only [readMany, Stef.BitsReader.readMany]
    cases hr : g.readBits n with
    | none =>
      rw [hr] at hs
      exact readMany_panicked_sticky ns _ hs
    | some p =>
      obtain ⟨g1, v⟩ := p
      rw [hr] at hs
      obtain ⟨he, hw1⟩ := hs
      rw [he]
      have ih1 := ih g1 hw1 (fun m hm => hns m (by simp [hm]))
      simp only
      cases hr2 : readMany g1 ns with
      | none => rw [hr2] at ih1; exact ih1
      | some p2 =>
        obtain ⟨g2, vs⟩ := p2
        rw [hr2] at ih1
        obtain ⟨he2, hw2⟩ := ih1
        simp only [SimRs, he2]
        exact ⟨trivial, hw2⟩

theorem reset_wf (g : GR) (buf : Bytes) (h : buf.length < 2 ^ 63) : WFR (g.reset buf) :=
  ⟨h, by show (0 : Nat) < 2 ^ 63; omega, by show (0 : Nat) < 2 ^ 64; omega⟩

/-! ### writer -/

theorem wrapI_eq (x : Int) (h1 : -(2 ^ 63) ≤ x) (h2 : x < 2 ^ 63) : wrapI x = x := by
  unfold wrapI; omega

theorem umul_eq (a b : Nat) (h : a * b < 2 ^ 64) : umul a b = a * b := by
  unfold umul; exact Nat.mod_eq_of_lt h

theorem w_reset_eq (g : GW) : g.reset.map toHandW = some (toHandW g).reset := by
  unfold Gen.BitFlow.BitsWriter.reset Stef.BitsWriter.reset
  simp [toHandW]

/-- `Close` never panics on a register holding at most 64 bits (the slice bound is inside the 8 bytes
    just appended) and leaves what the hand model leaves. -/
theorem close_eq (g : GW) (hu : g.bitsBufUsed ≤ 64) (hlen : g.stream.length < 2 ^ 62) :
    g.close.map toHandW = some (toHandW g).close := by
  unfold Gen.BitFlow.BitsWriter.close Stef.BitsWriter.close
  have h1 : uadd g.bitsBufUsed 7 = g.bitsBufUsed + 7 := uadd_eq _ _ (by omega)
  have h2 : intOfUint (g.bitsBufUsed + 7) = ((g.bitsBufUsed + 7 : Nat) : Int) := by
    unfold intOfUint; exact wrapI_eq _ (by omega) (by omega)
  have h3 : idiv ((g.bitsBufUsed + 7 : Nat) : Int) (8 : Int) = (((g.bitsBufUsed + 7) / 8 : Nat) : Int) := by
    unfold idiv
    rw [Int.tdiv_eq_ediv_of_nonneg (by omega), wrapI_eq _ (by omega) (by omega)]; omega
  have h4 : iadd (len g.stream) (((g.bitsBufUsed + 7) / 8 : Nat) : Int)
      = ((g.stream.length + (g.bitsBufUsed + 7) / 8 : Nat) : Int) := by
    unfold iadd len; rw [wrapI_eq _ (by omega) (by omega)]; omega
  have hguard : ¬ ((((g.stream.length + (g.bitsBufUsed + 7) / 8 : Nat) : Int) < 0) ∨
      (g.stream.length + (g.bitsBufUsed + 7) / 8) > (g.stream ++ be64 g.bitsBuf).length) := by
    have : (be64 g.bitsBuf).length = 8 := by simp [be64]
    rw [List.length_append, this]; omega
  simp only [h1, h2, h3, h4, Int.toNat_natCast, appendUint64BE, hguard, decide_false, Bool.false_eq_true, ↓reduceIte,
    Option.map_some, toHandW]

theorem bytes_eq (g : GW) (hu : g.bitsBufUsed ≤ 64) (hlen : g.stream.length < 2 ^ 62) :
    g.close.map (fun g' => g'.bytes) = some (toHandW g).bytes := by
  have h := close_eq g hu hlen
  cases hc : g.close with
  | none => rw [hc] at h; simp at h
  | some g' =>
    rw [hc] at h
    simp only [Option.map_some, Option.some.injEq] at h ⊢
    unfold Stef.BitsWriter.bytes
    rw [← h]; rfl

theorem bitCount_eq (g : GW) (h : g.stream.length * 8 + g.bitsBufUsed < 2 ^ 64) :
    g.bitCount = (toHandW g).bitCount := by
  unfold Gen.BitFlow.BitsWriter.bitCount Stef.BitsWriter.bitCount
  rw [uintOfInt_len _ (by omega), umul_eq _ _ (by omega), uadd_eq _ _ h]; rfl

theorem writeBitsSlow_eq (g : GW) (v : Word) (n : Nat) (hu : g.bitsBufUsed ≤ 64) (hn : 64 - g.bitsBufUsed ≤ n)
    (hn64 : n ≤ 64) : toHandW (g.writeBitsSlow v n) = (toHandW g).writeBitsSlow v n := by
  unfold Gen.BitFlow.BitsWriter.writeBitsSlow Stef.BitsWriter.writeBitsSlow
  have h1 : usub 64 g.bitsBufUsed = 64 - g.bitsBufUsed := usub_eq _ _ hu (by omega)
  have h2 : usub n (64 - g.bitsBufUsed) = n - (64 - g.bitsBufUsed) := usub_eq _ _ hn (by omega)
  have h3 : usub 64 (n - (64 - g.bitsBufUsed)) = 64 - (n - (64 - g.bitsBufUsed)) := by
    unfold usub; omega
  simp only [h1, h2, h3, toHandW, appendUint64BE]

/-- **Gen.writeBits = BitsWriter.writeBits**: every register with at most 64 bits used, every value, every
    width up to 64. -/
theorem writeBits_eq (g : GW) (v : Word) (n : Nat) (hu : g.bitsBufUsed ≤ 64) (hn : n ≤ 64) :
    toHandW (g.writeBits v n) = (toHandW g).writeBits v n := by
  unfold Gen.BitFlow.BitsWriter.writeBits Stef.BitsWriter.writeBits
  have h1 : usub 64 n = 64 - n := usub_eq _ _ hn (by omega)
  by_cases h : g.bitsBufUsed ≤ 64 - n
  · have h' : (toHandW g).bitsBufUsed ≤ 64 - n := h
    simp only [h1, h, decide_true, ↓reduceIte, usub_eq _ _ h (show 64 - n < 2 ^ 64 by omega),
      uadd_eq _ _ (show g.bitsBufUsed + n < 2 ^ 64 by omega), toHandW]
  · have h' : ¬ (toHandW g).bitsBufUsed ≤ 64 - n := h
    simp only [h1, h, decide_false, Bool.false_eq_true, ↓reduceIte, h']
    exact writeBitsSlow_eq g v n hu (by omega) (by omega)

theorem writeBit_eq (g : GW) (bit : Nat) (hu : g.bitsBufUsed ≤ 64) :
    toHandW (g.writeBit bit) = (toHandW g).writeBit (BitVec.ofNat 64 bit) := by
  unfold Gen.BitFlow.BitsWriter.writeBit Stef.BitsWriter.writeBit
  by_cases h : g.bitsBufUsed ≤ 63
  · have h' : (toHandW g).bitsBufUsed ≤ 63 := h
    simp only [h, decide_true, ↓reduceIte, usub_eq _ _ h (show 63 < 2 ^ 64 by omega),
      uadd_eq _ _ (show g.bitsBufUsed + 1 < 2 ^ 64 by omega), toHandW, u64OfUint]
  · have h' : ¬ (toHandW g).bitsBufUsed ≤ 63 := h
    simp only [h, decide_false, Bool.false_eq_true, ↓reduceIte, h', u64OfUint]
    exact writeBitsSlow_eq g _ 1 hu (by omega) (by omega)

theorem writeCount_le : ∀ z, z ≤ 64 → Stef.Gen.writeBitsCountByZeros z ≤ 64 := by decide

theorem writeUvarintCompact_eq (g : GW) (v : Word) (hu : g.bitsBufUsed ≤ 64) :
    (g.writeUvarintCompact v).map (fun p => (toHandW p.1, p.2)) = some ((toHandW g).writeUvarintCompact v) := by
  unfold Gen.BitFlow.BitsWriter.writeUvarintCompact Stef.BitsWriter.writeUvarintCompact
  have hz := clz_le_64 v
  have hguard : ¬ (((v.clz.toNat : Nat) : Int) < 0 ∨ v.clz.toNat ≥ 65) := by omega
  simp only [leadingZeros64, Int.toNat_natCast, hguard, decide_false, Bool.false_eq_true, ↓reduceIte, Option.map_some,
    writeBits_eq g _ _ hu (writeCount_le _ hz)]

theorem writeVarintCompact_eq (g : GW) (v : Word) (hu : g.bitsBufUsed ≤ 64) :
    (g.writeVarintCompact v).map (fun p => (toHandW p.1, p.2)) = some ((toHandW g).writeVarintCompact v) := by
  unfold Gen.BitFlow.BitsWriter.writeVarintCompact Stef.BitsWriter.writeVarintCompact Stef.BitsWriter.zigzag
  have h := writeUvarintCompact_eq g (BitVec.sshiftRight v 63 ^^^ v <<< 1) hu
  cases hc : g.writeUvarintCompact (BitVec.sshiftRight v 63 ^^^ v <<< 1) with
  | none => rw [hc] at h; simp at h
  | some p => obtain ⟨g', n⟩ := p; rw [hc] at h; simp only [hc]; simpa using h

/-- a sequence of regenerated `WriteBits` calls is the hand model's sequence, as long as every call is in
    contract (width at most 64, value below 2^width: that keeps at most 64 bits in the register). -/
theorem writeMany_eq (ops : List (Word × Nat)) (hops : ∀ p ∈ ops, p.2 ≤ 64 ∧ p.1.toNat < 2 ^ p.2)
    (g : GW) (hI : (toHandW g).Inv) :
    toHandW (ops.foldl (fun w p => w.writeBits p.1 p.2) g) =
      ops.foldl (fun w p => w.writeBits p.1 p.2) (toHandW g) := by
  induction ops generalizing g with
  | nil => rfl
  | cons p ps ih =>
    have hp := hops p (by simp)
    have hstep := Stef.BitsWriter.writeBits_spec (toHandW g) p.1 p.2 hI hp.1 hp.2
    have he := writeBits_eq g p.1 p.2 hI.1 hp.1
    simp only [List.foldl_cons]
    rw [ih (fun q hq => hops q (by simp [hq])) (g.writeBits p.1 p.2) (by rw [he]; exact hstep.2), he]

/-- the hand model's writer after a sequence of in-contract `WriteBits` calls: its bits, its invariant. -/
theorem hand_writeMany_spec (ops : List (Word × Nat)) (hops : ∀ p ∈ ops, p.2 ≤ 64 ∧ p.1.toNat < 2 ^ p.2)
    (w0 : Stef.BitsWriter) (h0 : w0.Inv) :
    (ops.foldl (fun w p => w.writeBits p.1 p.2) w0).toBits
        = w0.toBits ++ (ops.map (fun p => lowBits p.1 p.2)).flatten ∧
    (ops.foldl (fun w p => w.writeBits p.1 p.2) w0).Inv := by
  induction ops generalizing w0 with
  | nil => simp [h0]
  | cons p ps ih =>
    have hp := hops p (by simp)
    have hstep := Stef.BitsWriter.writeBits_spec w0 p.1 p.2 h0 hp.1 hp.2
    have := ih (fun q hq => hops q (by simp [hq])) (w0.writeBits p.1 p.2) hstep.2
    simp only [List.foldl_cons, List.map_cons, List.flatten_cons]
    rw [this.1, hstep.1, List.append_assoc]
    exact ⟨rfl, this.2⟩

/-- the flushed part of the stream is no longer than the bits written. -/
theorem hand_writeMany_length (ops : List (Word × Nat)) (hops : ∀ p ∈ ops, p.2 ≤ 64 ∧ p.1.toNat < 2 ^ p.2) :
    8 * (ops.foldl (fun w p => w.writeBits p.1 p.2) ({} : Stef.BitsWriter)).stream.length ≤ (ops.map (·.2)).sum := by
  have h := (hand_writeMany_spec ops hops {} Stef.BitsWriter.inv_init).1
  have hl := congrArg List.length h
  simp only [Stef.BitsWriter.toBits, List.length_append, bytesBits_length, highBits_length,
    Stef.flatten_lowBits_length, List.length_nil] at hl
  omega

end Stef.Proofs.BitFlowGen
