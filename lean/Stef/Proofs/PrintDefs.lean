/-
  Definitions shared by the proofs of the print -> parse round trip (C13):
    * lexer-valid identifiers (`IsWord`, `IsIdent`), the continuation-style lexing relation `Lexes`;
    * the token list `tkSchema σ` that `prettyPrint σ` lexes to;
    * `rawSchema σ`: the schema as the grammar phase rebuilds it from that token list
      (type references unresolved, recursion flags cleared), `unmark` (flags cleared only);
    * `PP σ`: the printability invariant of accepted schemas (names are identifiers, dictionary
      modifiers sit where the parser accepts them, enum values are uint64).
-/
import Stef.Proofs.SchemaDefs

namespace Stef.Idl

/-! ### identifiers -/

/-- a letter followed by identifier characters: what `readIdentOrKeyword` reads in one go. -/
def IsWord : Name → Prop
  | [] => False
  | c :: r => isLetter c = true ∧ ∀ x ∈ r, isIdentChar x = true

instance (n : Name) : Decidable (IsWord n) := by
  cases n with
  | nil => exact isFalse (fun h => h)
  | cons c r => unfold IsWord; infer_instance

/-- a name the lexer returns as an identifier token: a word that is not a keyword. -/
def IsIdent (n : Name) : Prop := IsWord n ∧ kwOfName n = none

instance (n : Name) : Decidable (IsIdent n) := by unfold IsIdent; infer_instance

/-- the token of a word. -/
def wordTok (w : Name) : Tok :=
  match kwOfName w with
  | some k => .kw k
  | none => .ident w

/-! ### lexing, continuation style -/

/-- the unread input as the lexer state sees it: the look-ahead rune and the rest. -/
def LexSt.view (s : LexSt) : List Char := if s.isEOF then [] else s.next :: s.rest

/-- `Lexes v L`: from any lexer state whose unread input is `v`, with enough fuel, the token
    kinds produced (up to and including EOF) are `L`. Positions are ignored. -/
def Lexes (v : List Char) (L : List Tok) : Prop :=
  ∀ (s : LexSt) (f : Nat), s.view = v → v.length < f → (lexLoop f s).map (·.tok) = L

/-- the text that follows a word does not continue it. -/
def Delim (k : List Char) : Prop := ∀ c r, k = c :: r → isIdentChar c = false

/-! ### the schema the grammar phase rebuilds -/

def Prim.kw : Prim → Kw
  | .int64 => .int64
  | .uint64 => .uint64
  | .float64 => .float64
  | .bool => .bool
  | .string => .string
  | .bytes => .bytes

/-- the unresolved form of a resolved non-array type: what `parseFieldType` builds from the
    printed type name (an enum/struct/multimap reference is an identifier in the `struct` slot). -/
def rawBase (b : BaseType) : BaseType :=
  if b.enum ≠ [] then { struct := b.enum, dict := b.dict }
  else match b.prim with
    | some p => { prim := some p, dict := b.dict }
    | none =>
      if b.struct ≠ [] then { struct := b.struct, dict := b.dict }
      else { struct := b.multimap, dict := b.dict }

def rawFType : FType → FType
  | .base b => .base (rawBase b)
  | .array e d _ => .array (rawBase e) d false

def rawField (f : Field) : Field := { f with ty := rawFType f.ty }

def rawStruct (s : Struct) : Struct :=
  { s with fields := s.fields.map rawField, recursive := false }

def rawMultimap (m : Multimap) : Multimap :=
  { m with key := rawFType m.key, value := rawFType m.value, recursive := false }

/-- definitions in printing order (sorted by name), types unresolved, flags cleared. -/
def rawSchema (σ : Schema) : Schema :=
  { pkg := σ.pkg,
    structs := (sortBy (·.name) σ.structs).map rawStruct,
    multimaps := (sortBy (·.name) σ.multimaps).map rawMultimap,
    enums := sortBy (·.name) σ.enums }

/-- recursion flags cleared (what `ResolveRefs` returns before `computeRecursive`). -/
def unmarkFType : FType → FType
  | .base b => .base b
  | .array e d _ => .array e d false

def unmarkField (f : Field) : Field := { f with ty := unmarkFType f.ty }

def unmarkStruct (s : Struct) : Struct :=
  { s with fields := s.fields.map unmarkField, recursive := false }

def unmarkMultimap (m : Multimap) : Multimap :=
  { m with key := unmarkFType m.key, value := unmarkFType m.value, recursive := false }

def unmark (σ : Schema) : Schema :=
  { σ with structs := σ.structs.map unmarkStruct, multimaps := σ.multimaps.map unmarkMultimap }

/-- no recursion flag is set (the state of a schema between `ResolveRefs` and the marking). -/
def FType.NoFlag : FType → Prop
  | .base _ => True
  | .array _ _ r => r = false

structure NoFlags (σ : Schema) : Prop where
  structs : ∀ s ∈ σ.structs, s.recursive = false ∧ ∀ ty ∈ s.types, ty.NoFlag
  multimaps : ∀ m ∈ σ.multimaps, m.recursive = false ∧ ∀ ty ∈ m.types, ty.NoFlag

/-! ### the tokens of the printed text -/

/-- the token of a printed (unresolved) type name. -/
def tkRaw (rb : BaseType) : Tok :=
  match rb.prim with
  | some p => .kw p.kw
  | none => .ident rb.struct

def tkDict (d : Name) : List Tok :=
  if d ≠ [] then [.kw .dict, .punct '(', .ident d, .punct ')'] else []

/-- tokens of `ppFType ty ++ ppDict ty.dictName`. -/
def tkFType : FType → List Tok
  | .base b => tkRaw (rawBase b) :: tkDict b.dict
  | .array e d _ => .punct '[' :: .punct ']' :: tkRaw (rawBase e) :: (tkDict e.dict ++ tkDict d)

def tkField (f : Field) : List Tok :=
  .ident f.name :: (tkFType f.ty ++ (if f.optional then [.kw .optional] else []))

def tkFields : List Field → List Tok
  | [] => []
  | f :: fs => tkField f ++ tkFields fs

def tkStructHead (s : Struct) : List Tok :=
  if s.oneOf then [.kw .oneof, .ident s.name, .punct '{']
  else .kw .struct :: .ident s.name :: (tkDict s.dict ++ (if s.isRoot then [.kw .root] else []) ++ [.punct '{'])

def tkStruct (s : Struct) : List Tok := tkStructHead s ++ tkFields s.fields ++ [.punct '}']

def tkMultimap (m : Multimap) : List Tok :=
  .kw .multimap :: .ident m.name :: .punct '{' :: .kw .key ::
    (tkFType m.key ++ .kw .value :: (tkFType m.value ++ [.punct '}']))

def tkEnumFields : List EnumField → List Tok
  | [] => []
  | f :: fs => .ident f.name :: .punct '=' :: .num f.value :: tkEnumFields fs

def tkEnum (e : Enum) : List Tok :=
  .kw .enum :: .ident e.name :: .punct '{' :: (tkEnumFields e.fields ++ [.punct '}'])

/-- tokens of `joinWith ['.'] pkg` (for a non-empty package path). -/
def tkPkgPath : List Name → List Tok
  | [] => []
  | [a] => [.ident a]
  | a :: b :: r => .ident a :: .punct '.' :: tkPkgPath (b :: r)

def tkEnums : List Enum → List Tok
  | [] => []
  | e :: es => tkEnum e ++ tkEnums es

def tkMultimaps : List Multimap → List Tok
  | [] => []
  | m :: ms => tkMultimap m ++ tkMultimaps ms

def tkStructs : List Struct → List Tok
  | [] => []
  | s :: ss => tkStruct s ++ tkStructs ss

/-- the definitions of `σ` in printing order. -/
def tkDefs (σ : Schema) : List Tok :=
  tkEnums (sortBy (·.name) σ.enums) ++ tkMultimaps (sortBy (·.name) σ.multimaps)
    ++ tkStructs (sortBy (·.name) σ.structs)

/-- the token kinds of `lex (prettyPrint σ)`. -/
def tkSchema (σ : Schema) : List Tok :=
  .kw .package :: (tkPkgPath σ.pkg ++ tkDefs σ ++ [.eof])

/-! ### the printability invariant -/

/-- a dictionary modifier on a non-array type names an identifier and sits on a type that
    accepts it (`parseFieldType`: not on bool/int64/uint64/float64; an enum reference is an
    identifier when it is parsed, its `uint64` comes from resolution). -/
def DictOk (b : BaseType) : Prop :=
  b.dict = [] ∨ (IsIdent b.dict ∧ (b.enum ≠ [] ∨ dictAllowed b = true))

def RefsIdent (b : BaseType) : Prop :=
  (b.struct ≠ [] → IsIdent b.struct) ∧ (b.multimap ≠ [] → IsIdent b.multimap) ∧
  (b.enum ≠ [] → IsIdent b.enum)

def BaseP (b : BaseType) : Prop := RefsIdent b ∧ DictOk b

/-- `inStruct`: a struct/oneof field (the array's own `DictName` is never set there);
    in a multimap key/value the array's own dictionary is the SECOND `dict(...)`, so it comes
    with an element dictionary. -/
def FTypeP (inStruct : Bool) : FType → Prop
  | .base b => BaseP b
  | .array e d _ => BaseP e ∧ (d = [] ∨ (inStruct = false ∧ IsIdent d ∧ e.dict ≠ []))

structure StructP (s : Struct) : Prop where
  name : IsIdent s.name
  dict : s.dict = [] ∨ IsIdent s.dict
  oneof : s.oneOf = true → s.dict = [] ∧ s.isRoot = false
  dictRoot : s.dict ≠ [] → s.isRoot = false
  fields : ∀ f ∈ s.fields, IsIdent f.name ∧ FTypeP true f.ty

structure MultimapP (m : Multimap) : Prop where
  name : IsIdent m.name
  key : FTypeP false m.key
  value : FTypeP false m.value

structure EnumP (e : Enum) : Prop where
  name : IsIdent e.name
  fields : ∀ f ∈ e.fields, IsIdent f.name ∧ f.value ≤ maxU64

/-- what `PrettyPrint` relies on; every schema built by the parser satisfies it
    (`parse_pp`, Proofs/PrintInv.lean). -/
structure PP (σ : Schema) : Prop where
  pkg_ne : σ.pkg ≠ []
  pkg : ∀ n ∈ σ.pkg, IsIdent n
  structs : ∀ s ∈ σ.structs, StructP s
  multimaps : ∀ m ∈ σ.multimaps, MultimapP m
  enums : ∀ e ∈ σ.enums, EnumP e

end Stef.Idl
