/-
  `sortedList` (insertion sort by name) is idempotent on lists with distinct names, hence
  `Schema.norm` is idempotent and `σ.norm` is equivalent to `σ`.
-/
import Stef.Proofs.WireEquiv

namespace Stef.Idl

theorem nameLt_irrefl : ∀ a : Name, nameLt a a = false
  | [] => rfl
  | c :: r => by simp [nameLt, nameLt_irrefl r]

theorem nameLt_trans : ∀ {a b c : Name}, nameLt a b = true → nameLt b c = true → nameLt a c = true
  | [], [], _, h, _ => by simp [nameLt] at h
  | [], _ :: _, [], _, h => by simp [nameLt] at h
  | [], _ :: _, _ :: _, _, _ => by simp [nameLt]
  | _ :: _, [], _, h, _ => by simp [nameLt] at h
  | _ :: _, _ :: _, [], _, h => by simp [nameLt] at h
  | x :: xs, y :: ys, z :: zs, h1, h2 => by
    simp only [nameLt, Bool.or_eq_true, decide_eq_true_eq, Bool.and_eq_true] at h1 h2 ⊢
    rcases h1 with h1 | ⟨rfl, h1⟩
    · rcases h2 with h2 | ⟨rfl, _⟩
      · exact Or.inl (Nat.lt_trans h1 h2)
      · exact Or.inl h1
    · rcases h2 with h2 | ⟨rfl, h2⟩
      · exact Or.inl h2
      · exact Or.inr ⟨rfl, nameLt_trans h1 h2⟩

theorem nameLt_total : ∀ {a b : Name}, a ≠ b → nameLt a b = false → nameLt b a = true
  | [], [], h, _ => absurd rfl h
  | [], _ :: _, _, h => by simp [nameLt] at h
  | _ :: _, [], _, _ => by simp [nameLt]
  | x :: xs, y :: ys, hne, h => by
    simp only [nameLt, Bool.or_eq_false_iff, decide_eq_false_iff_not, Nat.not_lt,
      Bool.and_eq_false_iff] at h
    simp only [nameLt, Bool.or_eq_true, decide_eq_true_eq, Bool.and_eq_true]
    obtain ⟨h1, h2⟩ := h
    by_cases hxy : x = y
    · subst hxy
      right
      refine ⟨rfl, nameLt_total (fun hc => hne (by rw [hc])) ?_⟩
      rcases h2 with h2 | h2
      · simp at h2
      · exact h2
    · left
      have : x.toNat ≠ y.toNat := fun hc => hxy (Char.toNat_inj.1 hc)
      omega

/-- strictly ascending by key. -/
def SortedBy {α : Type} (key : α → Name) (l : List α) : Prop :=
  l.Pairwise (fun x y => nameLt (key x) (key y) = true)

theorem mem_insertBy {α : Type} (key : α → Name) (x : α) (l : List α) (y : α) :
    y ∈ insertBy key x l ↔ y = x ∨ y ∈ l := by
  rw [(insertBy_perm key x l).mem_iff]; simp

theorem insertBy_sorted {α : Type} (key : α → Name) (x : α) : ∀ (l : List α),
    SortedBy key l → (∀ y ∈ l, key y ≠ key x) → SortedBy key (insertBy key x l)
  | [], _, _ => by simp [insertBy, SortedBy]
  | y :: ys, hs, hne => by
    unfold insertBy
    have hs' := hs
    simp only [SortedBy, List.pairwise_cons] at hs'
    split
    · rename_i hlt
      simp only [SortedBy, List.pairwise_cons]
      refine ⟨?_, hs'⟩
      intro z hz
      simp only [List.mem_cons] at hz
      rcases hz with rfl | hz
      · exact hlt
      · exact nameLt_trans hlt (hs'.1 z hz)
    · rename_i hlt
      have hyx : nameLt (key y) (key x) = true :=
        nameLt_total (fun hc => hne y (by simp) hc.symm) (by simpa using hlt)
      simp only [SortedBy, List.pairwise_cons]
      refine ⟨?_, insertBy_sorted key x ys hs'.2 (fun z hz => hne z (by simp [hz]))⟩
      intro z hz
      rw [mem_insertBy] at hz
      rcases hz with rfl | hz
      · exact hyx
      · exact hs'.1 z hz

theorem sortBy_sorted {α : Type} (key : α → Name) : ∀ (l : List α), (l.map key).Nodup →
    SortedBy key (sortBy key l)
  | [], _ => by simp [sortBy, SortedBy]
  | x :: xs, hn => by
    simp only [List.map_cons, List.nodup_cons] at hn
    have ih := sortBy_sorted key xs hn.2
    simp only [sortBy, List.foldr_cons] at ih ⊢
    refine insertBy_sorted key x _ ih ?_
    intro y hy hc
    have : y ∈ xs := (sortBy_perm key xs).mem_iff.1 hy
    exact hn.1 (hc ▸ List.mem_map_of_mem this)

theorem sortBy_of_sorted {α : Type} (key : α → Name) : ∀ (l : List α), SortedBy key l →
    sortBy key l = l
  | [], _ => rfl
  | x :: xs, hs => by
    simp only [SortedBy, List.pairwise_cons] at hs
    have ih := sortBy_of_sorted key xs hs.2
    simp only [sortBy, List.foldr_cons] at ih ⊢
    rw [ih]
    cases xs with
    | nil => rfl
    | cons y ys => simp [insertBy, hs.1 y (by simp)]

theorem sortBy_idem {α : Type} (key : α → Name) (l : List α) (hn : (l.map key).Nodup) :
    sortBy key (sortBy key l) = sortBy key l :=
  sortBy_of_sorted key _ (sortBy_sorted key l hn)

theorem norm_idem {σ : Schema} (h : σ.topNames.Nodup) : σ.norm.norm = σ.norm := by
  simp only [Schema.topNames, List.nodup_append] at h
  simp only [Schema.norm]
  rw [sortBy_idem _ _ h.1.1, sortBy_idem _ _ h.1.2.1, sortBy_idem _ _ h.2.1]

/-- the name-sorted form of a schema is equivalent to it. -/
theorem norm_equiv {σ : Schema} (h : σ.topNames.Nodup) : σ.norm.Equiv σ := norm_idem h

/-- printing only depends on the name-sorted form. -/
theorem prettyPrint_norm {σ : Schema} (h : σ.topNames.Nodup) : prettyPrint σ.norm = prettyPrint σ := by
  have hn := norm_idem h
  have e1 := congrArg Schema.structs hn
  have e2 := congrArg Schema.multimaps hn
  have e3 := congrArg Schema.enums hn
  simp only [Schema.norm] at e1 e2 e3
  simp only [prettyPrint, Schema.norm, e1, e2, e3]

end Stef.Idl
