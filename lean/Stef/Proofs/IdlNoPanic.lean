/-
  No-panic analysis of `computeRecursive` and fuel sufficiency of the two schema traversals
  that `idl.Parse` runs (computeRecursive, PruneUnused).
-/
import Stef.Proofs.IdlWF

namespace Stef.Idl

/-- names of the definitions the traversals descend into. -/
def Schema.defNames (σ : Schema) : List Name :=
  σ.structs.map (·.name) ++ σ.multimaps.map (·.name)

theorem defNames_length (σ : Schema) : σ.defNames.length + 1 = crFuel σ := by
  simp [Schema.defNames, crFuel]

/-- a type the recursion marking can handle: resolved and not empty. -/
def GoodType (σ : Schema) (b : BaseType) : Prop := b.Res3 σ ∧ b.isEmpty = false

/-- a frame whose `SetRecursive` does not panic. -/
def Frame.Recursable (f : Frame) : Prop :=
  match f.ty with
  | .array _ _ _ => True
  | .base b => b.prim = none ∧ (b.struct ≠ [] ∨ b.multimap ≠ [])

theorem setRecursive_ok {f : Frame} (h : f.Recursable) (m : Marks) : ∃ m', setRecursive f m = .ok m' := by
  unfold setRecursive
  unfold Frame.Recursable at h
  cases hty : f.ty with
  | array e d r => exact ⟨_, rfl⟩
  | base b =>
    rw [hty] at h
    simp only at h
    obtain ⟨hp, hs⟩ := h
    simp only [hp, Option.isSome_none, Bool.false_eq_true, ↓reduceIte]
    by_cases h1 : b.struct = []
    · have h2 : b.multimap ≠ [] := by rcases hs with hs | hs; exact absurd h1 hs; exact hs
      simp [h1, h2]
    · simp [h1]

theorem setRecursiveAll_ok : ∀ (fs : List Frame) (m : Marks), (∀ f ∈ fs, f.Recursable) →
    ∃ m', setRecursiveAll fs m = .ok m'
  | [], m, _ => ⟨m, rfl⟩
  | f :: fs, m, h => by
    obtain ⟨m1, h1⟩ := setRecursive_ok (h f (by simp)) m
    obtain ⟨m2, h2⟩ := setRecursiveAll_ok fs m1 (fun x hx => h x (by simp [hx]))
    exact ⟨m2, by simp [setRecursiveAll, h1, h2]⟩

theorem findLastGo_some (n : Name) : ∀ (l : List Name) (i : Nat) (acc : Option Nat),
    (n ∈ l ∨ acc.isSome = true) → (findLastGo n l i acc).isSome = true
  | [], i, acc, h => by
    rcases h with h | h
    · simp at h
    · simpa [findLastGo] using h
  | x :: xs, i, acc, h => by
    unfold findLastGo
    apply findLastGo_some n xs
    by_cases hx : x = n
    · right; simp [hx]
    · rcases h with h | h
      · left
        simp only [List.mem_cons] at h
        rcases h with h | h
        · exact absurd h.symm hx
        · exact h
      · right; simp [hx, h]

theorem markRecursive_ok {st : RSt} {n : Name} (hn : n ∈ st.asStack)
    (hf : ∀ f ∈ st.fields, f.Recursable) :
    ∃ st', markRecursive n st = .ok st' ∧ st'.asStack = st.asStack ∧ st'.fields = st.fields := by
  unfold markRecursive
  have := findLastGo_some n st.asStack 0 none (Or.inl hn)
  unfold findLast
  cases hfl : findLastGo n st.asStack 0 none with
  | none => simp [hfl] at this
  | some i =>
    simp only
    obtain ⟨m', hm'⟩ := setRecursiveAll_ok (st.fields.drop i) st.marks
      (fun f hf' => hf f (List.mem_of_mem_drop hf'))
    rw [hm']
    exact ⟨_, rfl, rfl, rfl⟩


/-- the stack `S` is a duplicate-free list of definition names and the fuel covers the part of
    the definitions not yet on it. -/
def StackOk (σ : Schema) (S : List Name) (fuel : Nat) : Prop :=
  S.Nodup ∧ S ⊆ σ.defNames ∧ σ.defNames.length + 1 ≤ fuel + S.length

def RecSpec (σ : Schema) (rec : BaseType → RSt → Except PanicSite RSt) (S : List Name) : Prop :=
  ∀ (b : BaseType) (st : RSt) (pre : List Frame) (fr : Frame),
    st.asStack = S → st.fields = pre ++ [fr] → fr.ty.inner = b → (∀ f ∈ pre, f.Recursable) →
    GoodType σ b →
    ∃ st', rec b st = .ok st' ∧ st'.asStack = S ∧ st'.fields = st.fields

theorem crFields_ok {σ : Schema} {rec : BaseType → RSt → Except PanicSite RSt} {S : List Name}
    (hrec : RecSpec σ rec S) (isMM : Bool) (owner : Name) :
    ∀ (tys : List FType) (i : Nat) (st : RSt), st.asStack = S → (∀ f ∈ st.fields, f.Recursable) →
      (∀ ty ∈ tys, GoodType σ ty.inner) →
      ∃ st', crFields rec isMM owner tys i st = .ok st' ∧ st'.asStack = S ∧ st'.fields = st.fields
  | [], i, st, hS, _, _ => ⟨st, rfl, hS, rfl⟩
  | ty :: rest, i, st, hS, hf, hg => by
    unfold crFields
    obtain ⟨st2, h2, h2s, h2f⟩ := hrec ty.inner { st with fields := st.fields ++ [⟨isMM, owner, i, ty⟩] }
      st.fields ⟨isMM, owner, i, ty⟩ hS rfl rfl hf (hg ty (by simp))
    rw [h2]
    simp only
    have hdl : st2.fields.dropLast = st.fields := by rw [h2f]; simp
    obtain ⟨st3, h3, h3s, h3f⟩ := crFields_ok hrec isMM owner rest (i + 1)
      { st2 with fields := st2.fields.dropLast } h2s (by rw [hdl]; exact hf)
      (fun x hx => hg x (by simp [hx]))
    exact ⟨st3, h3, h3s, by rw [h3f]; exact hdl⟩

theorem crEnter_ok {σ : Schema} {rec : BaseType → RSt → Except PanicSite RSt} {S : List Name}
    {name : Name} (hrec : RecSpec σ rec (S ++ [name])) (isMM : Bool) (tys : List FType) (st : RSt)
    (hS : st.asStack = S) (hf : ∀ f ∈ st.fields, f.Recursable)
    (hg : ∀ ty ∈ tys, GoodType σ ty.inner) :
    ∃ st', crEnter rec isMM name tys st = .ok st' ∧ st'.asStack = S ∧ st'.fields = st.fields := by
  unfold crEnter
  obtain ⟨st2, h2, h2s, h2f⟩ := crFields_ok hrec isMM name tys 0
    { st with asStack := st.asStack ++ [name] } (by simp [hS]) hf hg
  rw [h2]
  exact ⟨_, rfl, by simp [h2s], h2f⟩

theorem stack_length_le {σ : Schema} {S : List Name} (h1 : S.Nodup) (h2 : S ⊆ σ.defNames) :
    S.length ≤ σ.defNames.length := h1.length_le_of_subset h2

theorem goodType_cases {σ : Schema} {b : BaseType} (hg : GoodType σ b) (hp : b.prim.isSome = false) :
    (b.struct ≠ [] ∧ (σ.findStruct b.struct).isSome = true) ∨
    (b.struct = [] ∧ b.multimap ≠ [] ∧ (σ.findMultimap b.multimap).isSome = true) := by
  obtain ⟨hres, hne⟩ := hg
  have hl := res3_lookup hres
  by_cases hs : b.struct = []
  · by_cases hm : b.multimap = []
    · exfalso
      by_cases he : b.enum = []
      · simp [BaseType.isEmpty, hs, hm, he] at hne
        simp [hne] at hp
      · have := (hres.2.2 he).2.2.1
        simp [this] at hp
    · exact Or.inr ⟨hs, hm, hl.2 hs hm⟩
  · exact Or.inl ⟨hs, hl.1 hs⟩

theorem frame_recursable_of {fr : Frame} {b : BaseType} (hi : fr.ty.inner = b)
    (hp : b.prim.isSome = false) (hs : b.struct ≠ [] ∨ b.multimap ≠ []) : fr.Recursable := by
  unfold Frame.Recursable
  cases hty : fr.ty with
  | array e d r => trivial
  | base b' =>
    rw [hty] at hi
    simp only [FType.inner] at hi
    subst hi
    simp only
    refine ⟨?_, hs⟩
    cases h : b'.prim with
    | none => rfl
    | some p => simp [h] at hp

/-- `computeRecursiveType` never panics and never runs out of fuel on good types. -/
theorem crType_ok {σ : Schema} (hall : ∀ ty ∈ σ.allTypes, GoodType σ ty.inner) :
    ∀ (fuel : Nat) (S : List Name), StackOk σ S fuel → RecSpec σ (crType σ fuel) S
  | 0, S, hS => by
    have := stack_length_le hS.1 hS.2.1
    have := hS.2.2
    omega
  | fuel + 1, S, hS => by
    intro b st pre fr hst hfields hinner hpre hg
    unfold crType
    by_cases hp : b.prim.isSome = true
    · simp only [hp, ↓reduceIte]
      exact ⟨st, rfl, hst, rfl⟩
    · simp only [hp, Bool.false_eq_true, ↓reduceIte]
      have hp' : b.prim.isSome = false := by simpa using hp
      have hallf : ∀ f ∈ st.fields, f.Recursable := by
        intro f hf
        rw [hfields] at hf
        simp only [List.mem_append, List.mem_singleton] at hf
        rcases hf with hf | rfl
        · exact hpre f hf
        · rcases goodType_cases hg hp' with h | h
          · exact frame_recursable_of hinner hp' (Or.inl h.1)
          · exact frame_recursable_of hinner hp' (Or.inr h.2.1)
      rcases goodType_cases hg hp' with ⟨hs, hfind⟩ | ⟨hs, hm, hfind⟩
      · simp only [hs, ne_eq, not_false_eq_true, ↓reduceIte]
        by_cases hc : st.asStack.contains b.struct = true
        · simp only [hc, ↓reduceIte]
          obtain ⟨st', h1, h2, h3⟩ := markRecursive_ok (n := b.struct) (by simpa using hc) hallf
          exact ⟨st', h1, by rw [h2, hst], h3⟩
        · simp only [hc, Bool.false_eq_true, ↓reduceIte]
          cases hf : σ.findStruct b.struct with
          | none => simp [hf] at hfind
          | some s =>
            simp only
            have hsm := findStruct_spec hf
            have hnot : s.name ∉ S := by
              rw [hsm.2, ← hst]; simpa using hc
            have hS' : StackOk σ (S ++ [s.name]) fuel := by
              refine ⟨?_, ?_, ?_⟩
              · rw [List.nodup_append]
                refine ⟨hS.1, by simp, ?_⟩
                intro a ha b' hb'
                simp only [List.mem_singleton] at hb'
                subst hb'
                intro hab; subst hab; exact hnot ha
              · intro x hx
                simp only [List.mem_append, List.mem_singleton] at hx
                rcases hx with hx | rfl
                · exact hS.2.1 hx
                · simp only [Schema.defNames, List.mem_append, List.mem_map]
                  exact Or.inl ⟨s, hsm.1, rfl⟩
              · have := hS.2.2
                simp only [List.length_append, List.length_singleton]
                omega
            exact crEnter_ok (crType_ok hall fuel _ hS') false s.types st hst hallf
              (fun ty hty => hall ty (mem_allTypes.2 (Or.inl ⟨s, hsm.1, hty⟩)))
      · simp only [hs, ne_eq, not_true_eq_false, ↓reduceIte, hm, not_false_eq_true]
        by_cases hc : st.asStack.contains b.multimap = true
        · simp only [hc, ↓reduceIte]
          obtain ⟨st', h1, h2, h3⟩ := markRecursive_ok (n := b.multimap) (by simpa using hc) hallf
          exact ⟨st', h1, by rw [h2, hst], h3⟩
        · simp only [hc, Bool.false_eq_true, ↓reduceIte]
          cases hf : σ.findMultimap b.multimap with
          | none => simp [hf] at hfind
          | some m =>
            simp only
            have hsm := findMultimap_spec hf
            have hnot : m.name ∉ S := by
              rw [hsm.2, ← hst]; simpa using hc
            have hS' : StackOk σ (S ++ [m.name]) fuel := by
              refine ⟨?_, ?_, ?_⟩
              · rw [List.nodup_append]
                refine ⟨hS.1, by simp, ?_⟩
                intro a ha b' hb'
                simp only [List.mem_singleton] at hb'
                subst hb'
                intro hab; subst hab; exact hnot ha
              · intro x hx
                simp only [List.mem_append, List.mem_singleton] at hx
                rcases hx with hx | rfl
                · exact hS.2.1 hx
                · simp only [Schema.defNames, List.mem_append, List.mem_map]
                  exact Or.inr ⟨m, hsm.1, rfl⟩
              · have := hS.2.2
                simp only [List.length_append, List.length_singleton]
                omega
            exact crEnter_ok (crType_ok hall fuel _ hS') true m.types st hst hallf
              (fun ty hty => hall ty (mem_allTypes.2 (Or.inr ⟨m, hsm.1, hty⟩)))

theorem crRoots_ok {σ : Schema} (hall : ∀ ty ∈ σ.allTypes, GoodType σ ty.inner) :
    ∀ (ss : List Struct) (m : Marks), (∀ s ∈ ss, s ∈ σ.structs) → ∃ m', crRoots σ ss m = .ok m'
  | [], m, _ => ⟨m, rfl⟩
  | s :: ss, m, hmem => by
    unfold crRoots
    split
    · have hS : StackOk σ ([] ++ [s.name]) (crFuel σ) := by
        refine ⟨by simp, ?_, ?_⟩
        · intro x hx
          simp only [List.nil_append, List.mem_singleton] at hx
          subst hx
          simp only [Schema.defNames, List.mem_append, List.mem_map]
          exact Or.inl ⟨s, hmem s (by simp), rfl⟩
        · rw [← defNames_length]; simp
      obtain ⟨st', h1, _, _⟩ := crEnter_ok (crType_ok hall _ _ hS) false s.types { marks := m } rfl
        (by simp) (fun ty hty => hall ty (mem_allTypes.2 (Or.inl ⟨s, hmem s (by simp), hty⟩)))
      rw [h1]
      exact crRoots_ok hall ss _ (fun x hx => hmem x (by simp [hx]))
    · exact crRoots_ok hall ss _ (fun x hx => hmem x (by simp [hx]))

theorem computeRecursive_ok {σ : Schema} (hall : ∀ ty ∈ σ.allTypes, GoodType σ ty.inner) :
    ∃ σ2, computeRecursive σ = .ok σ2 := by
  unfold computeRecursive
  obtain ⟨m, hm⟩ := crRoots_ok hall σ.structs {} (fun _ h => h)
  rw [hm]
  exact ⟨_, rfl⟩


/-! ### PruneUnused never runs out of fuel -/

def ReachOk (σ : Schema) (r : Reach) : Prop :=
  r.structs.Nodup ∧ r.structs ⊆ σ.structs.map (·.name) ∧
  r.multimaps.Nodup ∧ r.multimaps ⊆ σ.multimaps.map (·.name)

def Reach.size (r : Reach) : Nat := r.structs.length + r.multimaps.length

theorem reach_size_le {σ : Schema} {r : Reach} (h : ReachOk σ r) : r.size ≤ σ.defNames.length := by
  have h1 := h.1.length_le_of_subset h.2.1
  have h2 := h.2.2.1.length_le_of_subset h.2.2.2
  simp only [Reach.size, Schema.defNames, List.length_append, List.length_map] at *
  omega

/-- `rec` succeeds on every reach set of size at least `k` (and only enlarges it). -/
def MrOk (σ : Schema) (rec : BaseType → Reach → Option Reach) (k : Nat) : Prop :=
  ∀ (b : BaseType) (r : Reach), ReachOk σ r → k ≤ r.size →
    ∃ r', rec b r = some r' ∧ ReachOk σ r' ∧ r.size ≤ r'.size

theorem mrFields_ok {σ : Schema} {rec : BaseType → Reach → Option Reach} {k : Nat}
    (hrec : MrOk σ rec k) : ∀ (tys : List FType) (r : Reach), ReachOk σ r → k ≤ r.size →
      ∃ r', mrFields rec tys r = some r' ∧ ReachOk σ r' ∧ r.size ≤ r'.size
  | [], r, h, _ => ⟨r, rfl, h, Nat.le_refl _⟩
  | ty :: rest, r, h, hk => by
    unfold mrFields
    obtain ⟨r1, h1, h1o, h1s⟩ := hrec ty.inner r h hk
    rw [h1]
    obtain ⟨r2, h2, h2o, h2s⟩ := mrFields_ok hrec rest r1 h1o (by omega)
    exact ⟨r2, h2, h2o, by omega⟩

theorem mrBase_ok {σ : Schema} : ∀ (fuel : Nat), MrOk σ (mrBase σ fuel) (σ.defNames.length + 2 - fuel)
  | 0 => by
    intro b r h hk
    have := reach_size_le h
    omega
  | fuel + 1 => by
    intro b r h hk
    have ih := mrBase_ok (σ := σ) fuel
    unfold mrBase
    by_cases hs : b.struct = []
    · simp only [hs, ne_eq, not_true_eq_false, ↓reduceIte]
      by_cases hm : b.multimap = []
      · simp only [hm, not_true_eq_false, ↓reduceIte]
        split
        · exact ⟨_, rfl, h, by simp [Reach.size]⟩
        · exact ⟨_, rfl, h, Nat.le_refl _⟩
      · simp only [hm, not_false_eq_true, ↓reduceIte]
        split
        · exact ⟨_, rfl, h, Nat.le_refl _⟩
        · rename_i hc
          split
          · exact ⟨_, rfl, h, Nat.le_refl _⟩
          · rename_i m hf
            have hsm := findMultimap_spec hf
            have h1 : ReachOk σ { r with multimaps := b.multimap :: r.multimaps } := by
              refine ⟨h.1, h.2.1, ?_, ?_⟩
              · rw [List.nodup_cons]; exact ⟨by simpa using hc, h.2.2.1⟩
              · intro x hx
                simp only [List.mem_cons] at hx
                rcases hx with rfl | hx
                · simp only [List.mem_map]; exact ⟨m, hsm.1, hsm.2⟩
                · exact h.2.2.2 hx
            have hsz : ({ r with multimaps := b.multimap :: r.multimaps } : Reach).size = r.size + 1 := by
              simp [Reach.size]; omega
            obtain ⟨r', a1, a2, a3⟩ := mrFields_ok ih m.types _ h1 (by omega)
            exact ⟨r', a1, a2, by omega⟩
    · simp only [hs, ne_eq, not_false_eq_true, ↓reduceIte]
      split
      · exact ⟨_, rfl, h, Nat.le_refl _⟩
      · rename_i hc
        split
        · exact ⟨_, rfl, h, Nat.le_refl _⟩
        · rename_i s' hf
          have hsm := findStruct_spec hf
          have h1 : ReachOk σ { r with structs := b.struct :: r.structs } := by
            refine ⟨?_, ?_, h.2.2.1, h.2.2.2⟩
            · rw [List.nodup_cons]; exact ⟨by simpa using hc, h.1⟩
            · intro x hx
              simp only [List.mem_cons] at hx
              rcases hx with rfl | hx
              · simp only [List.mem_map]; exact ⟨s', hsm.1, hsm.2⟩
              · exact h.2.1 hx
          have hsz : ({ r with structs := b.struct :: r.structs } : Reach).size = r.size + 1 := by
            simp [Reach.size]; omega
          obtain ⟨r', a1, a2, a3⟩ := mrFields_ok ih s'.types _ h1 (by omega)
          exact ⟨r', a1, a2, by omega⟩

theorem mrRoots_ok {σ : Schema} : ∀ (ss : List Struct) (r : Reach), ReachOk σ r →
    ∃ r', mrRoots σ ss r = some r'
  | [], r, _ => ⟨r, rfl⟩
  | s :: ss, r, h => by
    unfold mrRoots
    split
    · obtain ⟨r1, h1, h1o, _⟩ := mrBase_ok (σ := σ) (crFuel σ + 1) { struct := s.name } r h
        (by rw [← defNames_length]; omega)
      rw [h1]
      exact mrRoots_ok ss r1 h1o
    · exact mrRoots_ok ss r h

theorem pruneUnused_ok (σ : Schema) : ∃ σ3, pruneUnused σ = some σ3 := by
  unfold pruneUnused
  obtain ⟨r, hr⟩ := mrRoots_ok (σ := σ) σ.structs {} ⟨by simp, by simp, by simp, by simp⟩
  rw [hr]
  exact ⟨_, rfl⟩

/-! ### ResolveRefs keeps non-empty types non-empty -/

theorem resolveBase_nonempty {σ : Schema} {b b' : BaseType} (h : resolveBase σ b = .ok b')
    (hne : b.isEmpty = false) : b'.isEmpty = false := by
  unfold resolveBase at h
  simp only at h
  generalize (if b.struct ≠ [] then b.struct else if b.multimap ≠ [] then b.multimap else b.enum) = tn at h
  by_cases hn : tn = []
  · simp only [hn, ne_eq, not_true_eq_false, ↓reduceIte] at h
    cases h; exact hne
  · simp only [hn, ne_eq, not_false_eq_true, ↓reduceIte] at h
    cases h1 : σ.hasStruct tn <;> cases h2 : σ.hasMultimap tn <;> cases h3 : σ.hasEnum tn <;>
      simp [h1, h2, h3] at h
    · cases h; simp [BaseType.isEmpty]
    · cases h; simp [BaseType.isEmpty, hn]
    · cases h; exact hne

theorem resolveFType_nonempty {σ : Schema} {ty ty' : FType} (h : resolveFType σ ty = .ok ty')
    (hne : ty.inner.isEmpty = false) : ty'.inner.isEmpty = false := by
  cases ty with
  | base b =>
    simp only [resolveFType] at h
    cases hb : resolveBase σ b with
    | error e => simp [hb, Except.map] at h
    | ok b' => simp [hb, Except.map] at h; subst h; exact resolveBase_nonempty hb hne
  | array e d r =>
    simp only [resolveFType] at h
    cases hb : resolveBase σ e with
    | error e => simp [hb, Except.map] at h
    | ok b' => simp [hb, Except.map] at h; subst h; exact resolveBase_nonempty hb hne

theorem resolveFields_pointwise {σ : Schema} : ∀ (fs fs' : List Field), resolveFields σ fs = .ok fs' →
    ∀ f' ∈ fs', ∃ f ∈ fs, resolveFType σ f.ty = .ok f'.ty
  | [], fs', h => by simp [resolveFields] at h; subst h; simp
  | f :: fs, fs', h => by
    unfold resolveFields at h
    split at h
    · cases h
    · rename_i ty hty
      split at h
      · cases h
      · rename_i fs1 hfs
        cases h
        intro f' hf'
        simp only [List.mem_cons] at hf'
        rcases hf' with rfl | hf'
        · exact ⟨f, by simp, hty⟩
        · obtain ⟨x, hx, hxx⟩ := resolveFields_pointwise fs fs1 hfs f' hf'
          exact ⟨x, by simp [hx], hxx⟩

theorem resolveStructs_pointwise {σ : Schema} : ∀ (ss ss' : List Struct),
    resolveStructs σ ss = .ok ss' →
    ∀ s' ∈ ss', ∀ ty' ∈ s'.types, ∃ s ∈ ss, ∃ ty ∈ s.types, resolveFType σ ty = .ok ty'
  | [], ss', h => by simp [resolveStructs] at h; subst h; simp
  | s :: ss, ss', h => by
    unfold resolveStructs at h
    split at h
    · cases h
    · rename_i fs hfs
      split at h
      · cases h
      · rename_i ss1 hss
        cases h
        intro s' hs' ty' hty'
        simp only [List.mem_cons] at hs'
        rcases hs' with rfl | hs'
        · simp only [Struct.types, List.mem_map] at hty'
          obtain ⟨f', hf', rfl⟩ := hty'
          obtain ⟨f, hf, hff⟩ := resolveFields_pointwise s.fields fs hfs f' hf'
          exact ⟨s, by simp, f.ty, by simp [Struct.types]; exact ⟨f, hf, rfl⟩, hff⟩
        · obtain ⟨x, hx, ty, hty, h1⟩ := resolveStructs_pointwise ss ss1 hss s' hs' ty' hty'
          exact ⟨x, by simp [hx], ty, hty, h1⟩

theorem resolveMultimaps_pointwise {σ : Schema} : ∀ (ms ms' : List Multimap),
    resolveMultimaps σ ms = .ok ms' →
    ∀ m' ∈ ms', ∀ ty' ∈ m'.types, ∃ m ∈ ms, ∃ ty ∈ m.types, resolveFType σ ty = .ok ty'
  | [], ms', h => by simp [resolveMultimaps] at h; subst h; simp
  | m :: ms, ms', h => by
    unfold resolveMultimaps at h
    split at h
    · cases h
    · rename_i k hk
      split at h
      · cases h
      · rename_i v hv
        split at h
        · cases h
        · rename_i ms1 hms
          cases h
          intro m' hm' ty' hty'
          simp only [List.mem_cons] at hm'
          rcases hm' with rfl | hm'
          · simp only [Multimap.types, List.mem_cons, List.mem_nil_iff, or_false] at hty'
            rcases hty' with rfl | rfl
            · exact ⟨m, by simp, m.key, by simp [Multimap.types], hk⟩
            · exact ⟨m, by simp, m.value, by simp [Multimap.types], hv⟩
          · obtain ⟨x, hx, ty, hty, h1⟩ := resolveMultimaps_pointwise ms ms1 hms m' hm' ty' hty'
            exact ⟨x, by simp [hx], ty, hty, h1⟩

theorem resolveRefs_pointwise {σ σ1 : Schema} (h : resolveRefs σ = .ok σ1) :
    ∀ ty' ∈ σ1.allTypes, ∃ ty ∈ σ.allTypes, resolveFType σ ty = .ok ty' := by
  unfold resolveRefs at h
  split at h
  · cases h
  · rename_i ss hss
    split at h
    · cases h
    · rename_i ms hms
      cases h
      intro ty' hty'
      rw [mem_allTypes] at hty'
      rcases hty' with ⟨s', hs', hty'⟩ | ⟨m', hm', hty'⟩
      · obtain ⟨s, hs, ty, hty, h1⟩ := resolveStructs_pointwise _ _ hss s' hs' ty' hty'
        exact ⟨ty, mem_allTypes.2 (Or.inl ⟨s, hs, hty⟩), h1⟩
      · obtain ⟨m, hm, ty, hty, h1⟩ := resolveMultimaps_pointwise _ _ hms m' hm' ty' hty'
        exact ⟨ty, mem_allTypes.2 (Or.inr ⟨m, hm, hty⟩), h1⟩

theorem resolveRefs_noEmpty {σ σ1 : Schema} (h : resolveRefs σ = .ok σ1) (hne : σ.NoEmptyType) :
    σ1.NoEmptyType := by
  intro ty' hty'
  obtain ⟨ty, hty, h1⟩ := resolveRefs_pointwise h ty' hty'
  exact resolveFType_nonempty h1 (hne ty hty)

/-- If the grammar phase leaves no field without a type, `Parse` does not panic (and the model
    never runs out of fuel in the two schema traversals). -/
theorem parseTokens_no_panic {ts : List Token}
    (hne : ∀ σ0 ts', grammar ts = .ok σ0 ts' → σ0.NoEmptyType) (site : PanicSite) :
    parseTokens ts ≠ .panic site := by
  unfold parseTokens
  cases hg : grammar ts with
  | err p c => simp
  | ok σ0 ts0 =>
    simp only
    cases hr : resolveRefs σ0 with
    | error c => simp
    | ok σ1 =>
      simp only
      have hinv := resolveRefs_inv (grammar_inv hg) hr
      have hne1 := resolveRefs_noEmpty hr (hne σ0 ts0 hg)
      have hall : ∀ ty ∈ σ1.allTypes, GoodType σ1 ty.inner :=
        fun ty hty => ⟨hinv.res ty hty, hne1 ty hty⟩
      obtain ⟨σ2, h2⟩ := computeRecursive_ok hall
      rw [h2]
      simp only
      obtain ⟨σ3, h3⟩ := pruneUnused_ok σ2
      rw [h3]
      simp

end Stef.Idl
