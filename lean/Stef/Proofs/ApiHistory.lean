/-
  Histories: every Write of every history of supported API calls hands sound marks to the proved
  encoder, hence (with `SpecEnc.encode_decode_records` / `stream_roundtrip`) a reader gets records that
  show exactly the records written.
    * the root record stays a struct of its type under all calls (`call_struct`)
    * more fuel does not change `writeNode` (`writeNode_mono`): the model's `write` and the encoder
      need not agree on the fuel
    * a new record and the reader's initial value are in sync (`init_sync`)
    * one frame (`frame_sound`), all frames with restarts (`frames_sound`)
-/
import Stef.Proofs.ApiWriteLax
import Stef.Proofs.ApiWriteVis

set_option linter.unusedSimpArgs false
set_option linter.unusedVariables false

namespace Stef.Api
open Stef Stef.Spec Stef.SpecEnc

/-! ## the record root stays what it is -/

theorem copy0_struct (E : CopyEnv) (n : String) (m p : Nat) (fr : Bool) (fs : List AS) (src : AS) :
    ∃ m' p' fs', (copy0 E (.struct n m p fr fs) src).1 = .struct n m' p' fr fs' := by
  cases src with
  | struct n2 m2 p2 fr2 fs2 => simp only [copy0]; split <;> exact ⟨_, _, _, rfl⟩
  | oneof n2 t2 as2 => simp only [copy0]; exact ⟨_, _, _, rfl⟩
  | arr e es hid => simp only [copy0]; exact ⟨_, _, _, rfl⟩
  | mmap n2 ps hid k v ml => simp only [copy0]; exact ⟨_, _, _, rfl⟩
  | prim v => simp only [copy0]; exact ⟨_, _, _, rfl⟩
  | nil => simp only [copy0]; exact ⟨_, _, _, rfl⟩

theorem copy_struct (C : Ctx) (n : String) (m p : Nat) (fr : Bool) (fs : List AS) (src : AS) :
    ∃ m' p' fs', (C.copy (.struct n m p fr fs) src).1 = .struct n m' p' fr fs' := by
  unfold Ctx.copy
  generalize C.σ.defs.length + 1 = k
  cases k with
  | zero => simp only [copyLvl]; exact copy0_struct _ n m p fr fs src
  | succ k => simp only [copyLvl]; exact copy0_struct _ n m p fr fs src

theorem applyOp_struct (C : Ctx) (op : Op) (n : String) (m p : Nat) (fr : Bool) (fs : List AS) (w' : AS) (u : Up)
    (h : applyOp C op (.struct n m p fr fs) = .ok (w', u)) : ∃ m' p' fs', w' = .struct n m' p' fr fs' := by
  cases op with
  | setPrim i v =>
    simp only [applyOp] at h
    split at h
    · split at h <;> (simp only [Except.ok.injEq, Prod.mk.injEq] at h; obtain ⟨rfl, _⟩ := h; exact ⟨_, _, _, rfl⟩)
    · simp at h
  | unset i =>
    simp only [applyOp] at h
    split at h
    · split at h
      · simp at h
      · split at h <;> (simp only [Except.ok.injEq, Prod.mk.injEq] at h; obtain ⟨rfl, _⟩ := h; exact ⟨_, _, _, rfl⟩)
    · simp at h
  | setPresent i =>
    simp only [applyOp] at h
    split at h
    · split at h
      · simp at h
      · split at h <;> (simp only [Except.ok.injEq, Prod.mk.injEq] at h; obtain ⟨rfl, _⟩ := h; exact ⟨_, _, _, rfl⟩)
    · simp at h
  | setObj i v =>
    simp only [applyOp] at h
    split at h
    · split at h
      · simp at h
      · split at h
        · split at h <;> (simp only [Except.ok.injEq, Prod.mk.injEq] at h; obtain ⟨rfl, _⟩ := h; exact ⟨_, _, _, rfl⟩)
        · split at h
          · split at h
            · simp at h
            · simp only [Except.ok.injEq, Prod.mk.injEq] at h; obtain ⟨rfl, _⟩ := h; exact ⟨_, _, _, rfl⟩
          · split at h
            · simp at h
            · simp only [Except.ok.injEq, Prod.mk.injEq] at h; obtain ⟨rfl, _⟩ := h; exact ⟨_, _, _, rfl⟩
    · simp at h
  | copyFrom src =>
    simp only [applyOp, Except.ok.injEq] at h
    obtain ⟨m', p', fs', e⟩ := copy_struct C n m p fr fs src
    rw [h] at e
    exact ⟨m', p', fs', e⟩
  | _ => simp [applyOp] at h

theorem call_struct (C : Ctx) (path : List Step) (op : Op) (n : String) (m p : Nat) (fr : Bool) (fs : List AS) (w' : AS)
    (h : call C path op (.struct n m p fr fs) = .ok w') : ∃ m' p' fs', w' = .struct n m' p' fr fs' := by
  unfold call at h
  cases hr : applyAt C (applyOp C op) path (.struct n m p fr fs) with
  | error e => simp [hr, Except.map] at h
  | ok r =>
    obtain ⟨w1, u⟩ := r
    simp only [hr, Except.map, Except.ok.injEq] at h
    subst h
    cases path with
    | nil =>
      simp only [applyAt] at hr
      exact applyOp_struct C op n m p fr fs w1 u hr
    | cons st rest =>
      cases st with
      | field i =>
        simp only [applyAt] at hr
        split at hr
        · simp at hr
        · simp at hr
        · rename_i c hc hnil
          cases fr with
          | true => simp [throw, throwThe, MonadExceptOf.throw, bind, Except.bind] at hr
          | false =>
            by_cases hd : C.isDictNode c = true
            · simp [hd, throw, throwThe, MonadExceptOf.throw, bind, Except.bind] at hr
            · cases hr2 : applyAt C (applyOp C op) rest c with
              | error e => simp [hd, hr2, bind, Except.bind] at hr
              | ok r2 =>
                obtain ⟨c', uc⟩ := r2
                simp only [hd, hr2, bind, Except.bind, Bool.false_eq_true, if_false, Except.ok.injEq, Prod.mk.injEq] at hr
                obtain ⟨rfl, _⟩ := hr
                exact ⟨_, _, _, rfl⟩
      | alt k => simp [applyAt] at hr
      | «at» i => simp [applyAt] at hr
      | key i => simp [applyAt] at hr
      | val i => simp [applyAt] at hr

/-! ## fuel -/

def MNode (C : Ctx) (f : Nat) : Prop := ∀ f', f ≤ f' → ∀ env n w s r, writeNode C f env n w s = some r → writeNode C f' env n w s = some r
def MFields (C : Ctx) (f : Nat) : Prop := ∀ f', f ≤ f' → ∀ env fields idx oi mask p fs s r,
  writeFields C f env fields idx oi mask p fs s = some r → writeFields C f' env fields idx oi mask p fs s = some r
def MElems (C : Ctx) (f : Nat) : Prop := ∀ f', f ≤ f' → ∀ env elem es s r,
  writeElems C f env elem es s = some r → writeElems C f' env elem es s = some r
def MPairs (C : Ctx) (f : Nat) : Prop := ∀ f', f ≤ f' → ∀ env k v ps s r,
  writePairs C f env k v ps s = some r → writePairs C f' env k v ps s = some r
def MVals (C : Ctx) (f : Nat) : Prop := ∀ f', f ≤ f' → ∀ env v changed idx ps s r,
  writeVals C f env v changed idx ps s = some r → writeVals C f' env v changed idx ps s = some r

theorem mono_elems (C : Ctx) (f : Nat) (hn : MNode C f) (he : MElems C f) : MElems C (f + 1) := by
  intro f' hf env elem es s r h
  obtain ⟨k, rfl⟩ : ∃ k, f' = k + 1 := ⟨f' - 1, by omega⟩
  cases es with
  | nil => simpa [writeElems] using h
  | cons e es =>
    simp only [writeElems] at h ⊢
    split at h
    · simp at h
    · rename_i sub e' s1 h1
      split at h
      · simp at h
      · rename_i subs es' s2 h2
        rw [hn k (by omega) _ _ _ _ _ h1]
        simp only
        rw [he k (by omega) _ _ _ _ _ h2]
        exact h

theorem mono_pairs (C : Ctx) (f : Nat) (hn : MNode C f) (hp : MPairs C f) : MPairs C (f + 1) := by
  intro f' hf env k v ps s r h
  obtain ⟨j, rfl⟩ : ∃ j, f' = j + 1 := ⟨f' - 1, by omega⟩
  cases ps with
  | nil => simpa [writePairs] using h
  | cons ab ps =>
    obtain ⟨a, b⟩ := ab
    simp only [writePairs] at h ⊢
    split at h
    · simp at h
    · rename_i ks a' s1 h1
      split at h
      · simp at h
      · rename_i vs b' s2 h2
        split at h
        · simp at h
        · rename_i subs ps' s3 h3
          rw [hn j (by omega) _ _ _ _ _ h1]
          simp only
          rw [hn j (by omega) _ _ _ _ _ h2]
          simp only
          rw [hp j (by omega) _ _ _ _ _ _ h3]
          exact h

theorem mono_vals (C : Ctx) (f : Nat) (hn : MNode C f) (hv : MVals C f) : MVals C (f + 1) := by
  intro f' hf env v changed idx ps s r h
  obtain ⟨j, rfl⟩ : ∃ j, f' = j + 1 := ⟨f' - 1, by omega⟩
  cases ps with
  | nil => simpa [writeVals] using h
  | cons ab ps =>
    obtain ⟨a, b⟩ := ab
    simp only [writeVals] at h ⊢
    by_cases hc : (decide (idx < 64) && changed.testBit idx) = true
    · simp only [hc, if_true] at h ⊢
      split at h
      · simp at h
      · rename_i sub b' s1 h1
        split at h
        · simp at h
        · rename_i subs ps' s2 h2
          rw [hn j (by omega) _ _ _ _ _ h1]
          simp only
          rw [hv j (by omega) _ _ _ _ _ _ _ h2]
          exact h
    · simp only [hc, Bool.false_eq_true, if_false] at h ⊢
      split at h
      · simp at h
      · rename_i subs ps' s2 h2
        rw [hv j (by omega) _ _ _ _ _ _ _ h2]
        exact h

theorem mono_fields (C : Ctx) (f : Nat) (hn : MNode C f) (hfl : MFields C f) : MFields C (f + 1) := by
  intro f' hf env fields idx oi mask p fs s r h
  obtain ⟨j, rfl⟩ : ∃ j, f' = j + 1 := ⟨f' - 1, by omega⟩
  cases fields with
  | nil => simpa [writeFields] using h
  | cons on rest =>
    obtain ⟨opt, n⟩ := on
    cases fs with
    | nil => simp [writeFields] at h
    | cons a fs =>
      rw [writeFields_cons] at h ⊢
      by_cases hc : (mask.testBit idx && (!opt || p.testBit oi)) = true
      · rw [if_pos hc] at h ⊢
        split at h
        · simp at h
        · rename_i sub a' s1 h1
          split at h
          · simp at h
          · rename_i subs fs' s2 h2
            rw [hn j (by omega) _ _ _ _ _ h1]
            simp only
            rw [hfl j (by omega) _ _ _ _ _ _ _ _ _ h2]
            exact h
      · rw [if_neg hc] at h ⊢
        simp only at h ⊢
        split at h
        · simp at h
        · rename_i subs fs' s2 h2
          rw [hfl j (by omega) _ _ _ _ _ _ _ _ _ h2]
          exact h

theorem mono_node (C : Ctx) (f : Nat) (hn : MNode C f) (hfl : MFields C f) (he : MElems C f) (hp : MPairs C f)
    (hv : MVals C f) : MNode C (f + 1) := by
  intro f' hf env n w s r h
  obtain ⟨j, rfl⟩ : ∃ j, f' = j + 1 := ⟨f' - 1, by omega⟩
  cases n with
  | prim col p d => simpa [writeNode] using h
  | recur key =>
    simp only [writeNode] at h ⊢
    split at h
    · simp at h
    · rename_i k' n' hfind
      exact hn j (by omega) _ _ _ _ _ h
  | struct col name dict kept optCount fields =>
    cases w with
    | struct n m p fr fs =>
      cases dict with
      | none =>
        simp only [writeNode] at h ⊢
        split at h
        · simp at h
        · rename_i hbad
          rw [if_neg hbad]
          split at h
          · simp at h
          · rename_i subs fs' s1 h1
            rw [hfl j (by omega) _ _ _ _ _ _ _ _ _ h1]
            exact h
      | some dn =>
        simp only [writeNode] at h ⊢
        split at h
        · simp at h
        · rename_i hbad
          rw [if_neg hbad]
          split at h
          · rename_i r0 hfind
            exact h
          · rename_i hfind
            split at h
            · simp at h
            · rename_i mk1 w1 s1 hfull
              split at hfull
              · simp at hfull
              · rename_i subs fs' s2 h1
                rw [hfl j (by omega) _ _ _ _ _ _ _ _ _ h1]
                simp only [Option.some.injEq, Prod.mk.injEq] at hfull
                obtain ⟨rfl, rfl, rfl⟩ := hfull
                exact h
    | _ => simp [writeNode] at h
  | oneof col name kept alts =>
    cases w with
    | oneof n t as =>
      simp only [writeNode] at h ⊢
      generalize htyp : (if t > kept then 0 else t) = typ at h ⊢
      by_cases hbad : n ≠ name
      · rw [if_pos hbad] at h; simp at h
      · rw [if_neg hbad] at h ⊢
        by_cases h0 : typ = 0
        · rw [if_pos h0] at h ⊢
          exact h
        · rw [if_neg h0] at h ⊢
          split at h
          · rename_i an a han ha
            split at h
            · simp at h
            · rename_i sub a' s1 h1
              rw [hn j (by omega) _ _ _ _ _ h1]
              exact h
          · simp at h
    | _ => simp [writeNode] at h
  | arr col key ety elem =>
    cases w with
    | arr e es hid =>
      simp only [writeNode] at h ⊢
      split at h
      · simp at h
      · rename_i subs es' s1 h1
        rw [he j (by omega) _ _ _ _ _ h1]
        exact h
    | _ => simp [writeNode] at h
  | mmap col name kty vty k v =>
    cases w with
    | mmap n ps hid km vm ml =>
      simp only [writeNode] at h ⊢
      split at h
      · simp at h
      · rename_i hbad
        rw [if_neg hbad]
        split at h
        · rename_i h0
          rw [if_pos h0]
          exact h
        · rename_i h0
          rw [if_neg h0]
          split at h
          · rename_i hc
            rw [if_pos hc]
            split at h
            · simp at h
            · rename_i subs ps' s1 h1
              rw [hv j (by omega) _ _ _ _ _ _ _ h1]
              exact h
          · rename_i hc
            rw [if_neg hc]
            split at h
            · simp at h
            · rename_i subs ps' s1 h1
              rw [hp j (by omega) _ _ _ _ _ _ h1]
              exact h
    | _ => simp [writeNode] at h

theorem mono_all (C : Ctx) : ∀ (f : Nat), MNode C f ∧ MFields C f ∧ MElems C f ∧ MPairs C f ∧ MVals C f
  | 0 => by
    refine ⟨?_, ?_, ?_, ?_, ?_⟩
    · intro f' _ env n w s r h; simp [writeNode] at h
    · intro f' _ env fields idx oi mask p fs s r h; simp [writeFields] at h
    · intro f' _ env elem es s r h; simp [writeElems] at h
    · intro f' _ env k v ps s r h; simp [writePairs] at h
    · intro f' _ env v changed idx ps s r h; simp [writeVals] at h
  | f + 1 => by
    obtain ⟨hn, hf, he, hp, hv⟩ := mono_all C f
    exact ⟨mono_node C f hn hf he hp hv, mono_fields C f hn hf, mono_elems C f hn he, mono_pairs C f hn hp, mono_vals C f hn hv⟩

/-- more fuel does not change what `writeNode` returns -/
theorem writeNode_mono (C : Ctx) (f f' : Nat) (hf : f ≤ f') (env : List (String × Node)) (n : Node) (w : AS) (s : WSt)
    (r : Mk × AS × WSt) (h : writeNode C f env n w s = some r) : writeNode C f' env n w s = some r :=
  (mono_all C f).1 f' hf env n w s r h

/-! ## a new record -/

def fieldS (σ : Schema) (fuel : Nat) (fd : Field) : St :=
  match fd.optional, fd.ty with
  | true, .ref _ => .oneof 0 none
  | true, .arr _ => .arr []
  | _, _ => initSt σ fuel fd.ty

theorem fieldS_req (σ : Schema) (fuel : Nat) (fd : Field) (h : fd.optional = false) : fieldS σ fuel fd = initSt σ fuel fd.ty := by
  unfold fieldS; rw [h]

theorem init_fields (C : Ctx) (fuel : Nat) (ih : ∀ ty, Shows C (initAS C fuel ty) (initSt C.σ fuel ty) ∧ Quiet C (initAS C fuel ty)) :
    ∀ (fds : List Field) (oi : Nat), ShowsFields C fds oi 0 (fds.map (fieldA C fuel)) (fds.map (fieldS C.σ fuel)) ∧
      QuietFields C fds oi 0 (fds.map (fieldA C fuel))
  | [], _ => by simp [ShowsFields, QuietFields]
  | fd :: fds, oi => by
    simp only [List.map_cons, ShowsFields, QuietFields, List.tail_cons, fdOpt_cons, Nat.zero_testBit, Bool.or_false,
      Bool.not_eq_true']
    obtain ⟨g1, g2⟩ := init_fields C fuel ih fds (if fd.optional = true then oi + 1 else oi)
    refine ⟨⟨_, _, rfl, fun hp => ?_, g1⟩, fun hp => ?_, g2⟩
    · rw [fieldA_req C fuel fd hp, fieldS_req C.σ fuel fd hp]; exact (ih fd.ty).1
    · rw [fieldA_req C fuel fd hp]; exact (ih fd.ty).2

theorem init_sync (C : Ctx) : ∀ (fuel : Nat) (ty : Ty), Shows C (initAS C fuel ty) (initSt C.σ fuel ty) ∧ Quiet C (initAS C fuel ty)
  | 0, ty => by simp [initAS, initSt, Shows, Quiet]
  | fuel + 1, .prim p d => by simp [initAS, initSt, Shows, Quiet]
  | fuel + 1, .arr e => by simp [initAS, initSt, Shows, Quiet, ShowsElems, QuietElems]
  | fuel + 1, .ref n => by
    simp only [initAS, initSt]
    cases hf : C.σ.find n with
    | none => simp [Shows, Quiet]
    | some d =>
      cases d with
      | struct dn fs =>
        simp only
        have hfo : fieldsOf C n = fs := by simp [fieldsOf, hf]
        obtain ⟨g1, g2⟩ := init_fields C fuel (init_sync C fuel) fs 0
        constructor
        · simp only [Shows, hfo]
          exact ⟨_, rfl, g1⟩
        · simp only [Quiet, hfo]
          exact Or.inr ⟨trivial, g2⟩
      | oneof fs => simp [Shows, Quiet]
      | mmap k v => simp [Shows, Quiet, ShowsPairs]

/-! ## frames -/

/-- the values a reader got show the records as the Writes left them, one by one -/
def ShowsAll (C : Ctx) : List AS → List St → Prop
  | [], [] => True
  | w :: ws, r :: rs => Shows C w r ∧ ShowsAll C ws rs
  | _, _ => False

theorem applyCalls_snd (C : Ctx) : ∀ (cs : Calls) (n : String) (m p : Nat) (fr : Bool) (fs : List AS) (w' : AS) (R : Option St),
    C.isDictName n = false → applyCalls C cs (.struct n m p fr fs) = .ok w' → Snd C (.struct n m p fr fs) R →
    (∃ m' p' fs', w' = .struct n m' p' fr fs') ∧ Snd C w' R
  | [], n, m, p, fr, fs, w', R, _, h, hs => by
    simp only [applyCalls, Except.ok.injEq] at h
    subst h
    exact ⟨⟨_, _, _, rfl⟩, hs⟩
  | (path, op) :: rest, n, m, p, fr, fs, w', R, hnd, h, hs => by
    simp only [applyCalls] at h
    split at h
    · simp at h
    · rename_i w1 hc
      obtain ⟨m1, p1, fs1, rfl⟩ := call_struct C path op n m p fr fs w1 hc
      have hs1 := call_snd C path op _ _ R (by simpa [Ctx.isDictNode] using hnd) hc hs
      exact applyCalls_snd C rest n m1 p1 fr fs1 w' R hnd h hs1

theorem writeNode_struct_root (C : Ctx) (fuel : Nat) (col : Nat) (name : String) (dict : Option String) (kept oc : Nat)
    (fields : List (Bool × Node)) (w : AS) (s : WSt) (mk : Mk) (w' : AS) (s' : WSt)
    (h : writeNode C fuel [] (.struct col name dict kept oc fields) w s = some (mk, w', s')) :
    ∃ m p fr fs, w' = .struct name m p fr fs := by
  cases fuel with
  | zero => simp [writeNode] at h
  | succ fuel =>
    cases w with
    | struct n m p fr fs =>
      cases dict with
      | none =>
        simp only [writeNode] at h
        split at h
        · simp at h
        · rename_i hbad
          have hn : n = name := by
            by_cases hh : n = name
            · exact hh
            · exact absurd (Or.inl hh) hbad
          subst hn
          split at h
          · simp at h
          · simp only [Option.some.injEq, Prod.mk.injEq] at h
            obtain ⟨_, rfl, _⟩ := h
            exact ⟨_, _, _, _, rfl⟩
      | some dn =>
        simp only [writeNode] at h
        split at h
        · simp at h
        · rename_i hbad
          have hn : n = name := by
            by_cases hh : n = name
            · exact hh
            · exact absurd (Or.inl hh) hbad
          subst hn
          split at h
          · simp only [Option.some.injEq, Prod.mk.injEq] at h
            obtain ⟨_, rfl, _⟩ := h
            exact ⟨_, _, _, _, rfl⟩
          · split at h
            · simp at h
            · rename_i mk1 w1 s1 hfull
              simp only [Option.some.injEq, Prod.mk.injEq] at h
              obtain ⟨_, rfl, _⟩ := h
              split at hfull
              · simp at hfull
              · simp only [Option.some.injEq, Prod.mk.injEq] at hfull
                obtain ⟨_, rfl, _⟩ := hfull
                exact ⟨_, _, _, _, rfl⟩
    | _ => simp [writeNode] at h

theorem getLast?_cons_getD {α} (v : α) (vs : List α) (d : α) : (v :: vs).getLast?.getD d = vs.getLast?.getD v := by
  cases vs with
  | nil => simp
  | cons x xs =>
    have h : ∀ (e : α), (x :: xs).getLast?.getD e = (x :: xs).getLast (by simp) := by
      intro e; rw [List.getLast?_eq_some_getLast (by simp)]; rfl
    rw [List.getLast?_cons_cons, h, h]

theorem envOk_nil (C : Ctx) : EnvOk C [] := fun _ h => by simp at h

theorem frame_sound (C : Ctx) (col : Nat) (name : String) (dict : Option String) (kept oc : Nat) (fields : List (Bool × Node))
    (hroot : NodeOk C (.struct col name dict kept oc fields)) (hnd : C.isDictName name = false) :
    ∀ (recs : List Calls) (fuel m p : Nat) (fr : Bool) (fs : List AS) (s : WSt) (R : St) (ds : DS)
      (rm : List (St × Mk)) (ws : List AS) (W' : AS) (s' : WSt) (evs : List Ev) (ds' : DS) (effs : List St),
    runFrame C (.struct col name dict kept oc fields) recs (.struct name m p fr fs) s = some (rm, ws, W', s') →
    encodeRecords C.σ (.struct col name dict kept oc fields) fuel rm R ds = some (evs, ds', effs) →
    Snd C (.struct name m p fr fs) (some R) → DictOk C s.wd ds.tdict →
    ShowsAll C ws effs ∧ (∃ m' p' fr' fs', W' = .struct name m' p' fr' fs') ∧
      Snd C W' (some (effs.getLast?.getD R)) ∧ DictOk C s'.wd ds'.tdict
  | [], fuel, m, p, fr, fs, s, R, ds, rm, ws, W', s', evs, ds', effs, hr, he, hs, hd => by
    simp only [runFrame, Option.some.injEq, Prod.mk.injEq] at hr
    obtain ⟨rfl, rfl, rfl, rfl⟩ := hr
    cases fuel with
    | zero => simp [encodeRecords] at he
    | succ fuel =>
      simp only [encodeRecords, Option.some.injEq, Prod.mk.injEq] at he
      obtain ⟨_, rfl, rfl⟩ := he
      exact ⟨by simp [ShowsAll], ⟨_, _, _, _, rfl⟩, by simpa using hs, hd⟩
  | cs :: rest, fuel, m, p, fr, fs, s, R, ds, rm, ws, W', s', evs, ds', effs, hr, he, hs, hd => by
    simp only [runFrame] at hr
    split at hr
    · simp at hr
    · rename_i w1 hcalls
      obtain ⟨⟨m1, p1, fs1, rfl⟩, hs1⟩ := applyCalls_snd C cs name m p fr fs w1 (some R) hnd hcalls hs
      split at hr
      · simp at hr
      · rename_i new mk w2 s2 hwrite
        split at hr
        · simp at hr
        · rename_i recs2 ws2 w3 s3 hrest
          simp only [Option.some.injEq, Prod.mk.injEq] at hr
          obtain ⟨rfl, rfl, rfl, rfl⟩ := hr
          unfold write at hwrite
          split at hwrite
          · simp at hwrite
          · rename_i mk0 w20 s20 hwn
            simp only [Option.some.injEq, Prod.mk.injEq] at hwrite
            obtain ⟨hnew, rfl, rfl, rfl⟩ := hwrite
            subst hnew
            cases fuel with
            | zero => simp [encodeRecords] at he
            | succ fuel =>
              simp only [encodeRecords] at he
              split at he
              · simp at he
              · rename_i e1 ds1 v hen
                split at he
                · simp at he
                · rename_i e2 ds2 vs hen2
                  simp only [Option.some.injEq, Prod.mk.injEq] at he
                  obtain ⟨_, rfl, rfl⟩ := he
                  have hwn' := writeNode_mono C writeFuel (fuel * 64 + 100000) (by simp [writeFuel]) [] _ _ _ _ hwn
                  obtain ⟨a1, a2, a3⟩ := writeNode_sound C _ [] _ _ s mk0 w20 s20 (some R) R ds e1 ds1 v hwn' hen
                    (compat_some R) hs1 hroot (envOk_nil C) hd
                  obtain ⟨m2, p2, fr2, fs2, rfl⟩ := writeNode_struct_root C _ col name dict kept oc fields _ s mk0 w20 s20 hwn
                  have huc := writeNode_uc C _ [] _ _ s mk0 _ s20 (some R) hwn' hs1 hroot (envOk_nil C) a2
                  have hs2 := snd_of_sync C false _ v a1 a2 huc
                  obtain ⟨b1, b2, b3, b4⟩ := frame_sound C col name dict kept oc fields hroot hnd rest fuel m2 p2 fr2 fs2 s20 v ds1
                    recs2 ws2 w3 s3 e2 ds2 vs hrest hen2 hs2 a3
                  refine ⟨by simp only [ShowsAll]; exact ⟨a1, b1⟩, b2, ?_, b4⟩
                  rw [getLast?_cons_getD]
                  exact b3

theorem showsAll_append (C : Ctx) : ∀ (ws : List AS) (rs : List St) (ws2 : List AS) (rs2 : List St),
    ShowsAll C ws rs → ShowsAll C ws2 rs2 → ShowsAll C (ws ++ ws2) (rs ++ rs2)
  | [], [], _, _, _, h2 => by simpa using h2
  | [], _ :: _, _, _, h, _ => by simp [ShowsAll] at h
  | _ :: _, [], _, _, h, _ => by simp [ShowsAll] at h
  | w :: ws, r :: rs, ws2, rs2, h, h2 => by
    simp only [ShowsAll, List.cons_append] at h ⊢
    exact ⟨h.1, showsAll_append C ws rs ws2 rs2 h.2 h2⟩

theorem dictOk_nil (C : Ctx) : DictOk C [] [] := by
  intro dn
  left
  simp [lookupDict]

theorem dictOk_restart (C : Ctx) (root : Node) (flags : Nat) (s : WSt) (ds : DS) (h : DictOk C s.wd ds.tdict) :
    DictOk C (restart root flags s).wd (resetFor flags ds).tdict := by
  unfold restart resetFor
  by_cases h1 : flags % 2 = 1
  · by_cases h2 : flags / 4 % 2 = 1
    · simp [h1, h2, DS.resetDicts]; exact dictOk_nil C
    · simp [h1, h2, DS.resetDicts]; exact dictOk_nil C
  · by_cases h2 : flags / 4 % 2 = 1
    · simp [h1, h2]; exact h
    · simp [h1, h2]; exact h

theorem frames_sound (C : Ctx) (col : Nat) (name : String) (dict : Option String) (kept oc : Nat) (fields : List (Bool × Node))
    (hroot : NodeOk C (.struct col name dict kept oc fields)) (hnd : C.isDictName name = false) :
    ∀ (frames : List (Nat × List Calls)) (ins : List FrameIn) (m p : Nat) (fr : Bool) (fs : List AS) (s : WSt) (R : St) (ds : DS)
      (ms : List (Nat × List (St × Mk))) (wss : List (List AS)) (W' : AS) (s' : WSt) (evss : List (List Ev)) (ds' : DS)
      (effss : List (List St)),
    runFrames C (.struct col name dict kept oc fields) frames (.struct name m p fr fs) s = some (ms, wss, W', s') →
    ins.map (fun f => (f.flags, f.recs)) = ms →
    encodeFrames C.σ (.struct col name dict kept oc fields) ins R ds = some (evss, ds', effss) →
    Snd C (.struct name m p fr fs) (some R) → DictOk C s.wd ds.tdict →
    ShowsAll C wss.flatten effss.flatten
  | [], ins, m, p, fr, fs, s, R, ds, ms, wss, W', s', evss, ds', effss, hr, hins, he, _, _ => by
    simp only [runFrames, Option.some.injEq, Prod.mk.injEq] at hr
    obtain ⟨rfl, rfl, rfl, rfl⟩ := hr
    have : ins = [] := by simpa using hins
    subst this
    simp only [encodeFrames, Option.some.injEq, Prod.mk.injEq] at he
    obtain ⟨_, _, rfl⟩ := he
    simp [ShowsAll]
  | (flags, recs) :: rest, ins, m, p, fr, fs, s, R, ds, ms, wss, W', s', evss, ds', effss, hr, hins, he, hs, hd => by
    simp only [runFrames] at hr
    split at hr
    · simp at hr
    · rename_i rm ws w1 s1 hframe
      split at hr
      · simp at hr
      · rename_i fs2 wss2 w2 s2 hrest
        simp only [Option.some.injEq, Prod.mk.injEq] at hr
        obtain ⟨rfl, rfl, rfl, rfl⟩ := hr
        cases ins with
        | nil => simp at hins
        | cons i0 ins =>
          simp only [List.map_cons, List.cons.injEq, Prod.mk.injEq] at hins
          obtain ⟨⟨hfl, hrecs⟩, hins'⟩ := hins
          simp only [encodeFrames] at he
          split at he
          · simp at he
          · rename_i evs ds1 effs henc
            split at he
            · simp at he
            · rename_i evss2 ds2 effss2 henc2
              simp only [Option.some.injEq, Prod.mk.injEq] at he
              obtain ⟨_, _, rfl⟩ := he
              rw [hfl, hrecs] at henc
              obtain ⟨b1, ⟨m1, p1, fr1, fs1, rfl⟩, b3, b4⟩ := frame_sound C col name dict kept oc fields hroot hnd recs i0.fuel m p fr fs
                (restart _ flags s) R (resetFor flags ds) rm ws w1 s1 evs ds1 effs hframe henc hs
                (dictOk_restart C _ flags s ds hd)
              have ih := frames_sound C col name dict kept oc fields hroot hnd rest ins m1 p1 fr1 fs1 s1 (effs.getLast?.getD R) ds1
                fs2 wss2 w2 s2 evss2 ds2 effss2 hrest hins' henc2 b3 b4
              simp only [List.flatten_cons]
              exact showsAll_append C ws effs _ _ b1 ih

/-! ## Write does not change the record -/

theorem runFrame_vis (C : Ctx) (root : Node) : ∀ (recs : List Calls) (w : AS) (s : WSt) (rm : List (St × Mk)) (ws : List AS)
    (w' : AS) (s' : WSt), runFrame C root recs w s = some (rm, ws, w', s') → ws.map (vis C) = rm.map (·.1)
  | [], w, s, rm, ws, w', s', h => by
    simp only [runFrame, Option.some.injEq, Prod.mk.injEq] at h
    obtain ⟨rfl, rfl, _⟩ := h
    rfl
  | cs :: rest, w, s, rm, ws, w', s', h => by
    simp only [runFrame] at h
    split at h
    · simp at h
    · rename_i w1 hc
      unfold write at h
      split at h
      · simp at h
      · rename_i new mk w2 s2 hw
        split at hw
        · simp at hw
        · rename_i mk0 w0 s0 hwn
          simp only [Option.some.injEq, Prod.mk.injEq] at hw
          obtain ⟨rfl, rfl, rfl, rfl⟩ := hw
          split at h
          · simp at h
          · rename_i recs ws2 w3 s3 hr
            simp only [Option.some.injEq, Prod.mk.injEq] at h
            obtain ⟨rfl, rfl, _⟩ := h
            simp only [List.map_cons, runFrame_vis C root rest _ _ _ _ _ _ hr, writeNode_vis C _ _ _ _ _ _ _ _ hwn]

theorem runFrames_vis (C : Ctx) (root : Node) : ∀ (frames : List (Nat × List Calls)) (w : AS) (s : WSt)
    (ms : List (Nat × List (St × Mk))) (wss : List (List AS)) (w' : AS) (s' : WSt),
    runFrames C root frames w s = some (ms, wss, w', s') → wss.flatten.map (vis C) = (ms.flatMap (·.2)).map (·.1)
  | [], w, s, ms, wss, w', s', h => by
    simp only [runFrames, Option.some.injEq, Prod.mk.injEq] at h
    obtain ⟨rfl, rfl, _⟩ := h
    rfl
  | (flags, recs) :: rest, w, s, ms, wss, w', s', h => by
    simp only [runFrames] at h
    split at h
    · simp at h
    · rename_i rm ws w1 s1 hf
      split at h
      · simp at h
      · rename_i fs wss2 w2 s2 hr
        simp only [Option.some.injEq, Prod.mk.injEq] at h
        obtain ⟨rfl, rfl, _⟩ := h
        simp only [List.flatten_cons, List.map_append, List.flatMap_cons, runFrame_vis C root recs _ _ _ _ _ _ hf,
          runFrames_vis C root rest _ _ _ _ _ _ hr]

end Stef.Api
