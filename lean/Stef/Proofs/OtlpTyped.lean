/-
  The records both writers produce for a clean, 64-bit typed batch are typed (`RecTyped`: 64-bit
  typed keys, backed exemplar array) - the precondition of the sorting reader's theorem.
-/
import Stef.Proofs.OtlpSortedRead

namespace Stef.Otlp

/-! ### keys of the structs made from keys -/

theorem resKey_roundtrip (k : ResKey) : k.toS.key = k := by
  cases k; simp [ResKey.toS, SResource.key, copyFrom_spec]

theorem scopeKey_roundtrip (k : ScopeKey) : k.toS.key = k := by
  cases k; simp [ScopeKey.toS, SScope.key, copyFrom_spec]

theorem metricKey_roundtrip (k : MetricKey) : k.toS.key = k := by
  cases k; simp [MetricKey.toS, SMetric.key, copyFrom_spec]

theorem copyExemplarsLoop_length : ∀ (es st : List SExemplar), es.length ≤ (copyExemplarsLoop es st).length
  | [], _ => by simp
  | e :: es, d :: ds => by
    simp only [copyExemplarsLoop, List.length_cons]
    exact Nat.succ_le_succ (copyExemplarsLoop_length es ds)
  | e :: es, [] => by
    simp only [copyExemplarsLoop, List.length_cons]
    exact Nat.succ_le_succ (copyExemplarsLoop_length es [])

theorem copyPointInto_wf (src dst : SPoint) (h : src.wf) : (copyPointInto src dst).wf := by
  have hl : src.exemplars.length = src.exLen := by
    simp only [SPoint.exemplars, List.length_take]
    exact Nat.min_eq_left h
  have := copyExemplarsLoop_length src.exemplars (exEnsureLen dst.exStore dst.exLen src.exLen)
  rw [hl] at this
  exact this

theorem recOf_typed (e : Entry) (oa : SAttrs) (op : SPoint) (hmk : e.1.b64) (hrk : e.2.1.b64) (hsk : e.2.2.1.b64)
    (hak : e.2.2.2.1.b64 = true) (hwf : e.2.2.2.2.wf) : RecTyped (recOf e oa op) := by
  refine ⟨?_, ?_, ?_, ?_, copyPointInto_wf _ _ hwf⟩
  · simpa [recOf, resKey_roundtrip] using hrk
  · simpa [recOf, scopeKey_roundtrip] using hsk
  · simpa [recOf, metricKey_roundtrip] using hmk
  · simpa [recOf, copyFrom_spec] using hak

/-! ### entries of a tree with typed keys -/

theorem mem_flatKV {K V β : Type} (items : V → List β) : ∀ (t : List (K × V)) (x : K × β),
    x ∈ flatKV items t → ∃ e ∈ t, x.1 = e.1 ∧ x.2 ∈ items e.2
  | [], x, h => by simp [flatKV_nil] at h
  | (k, v) :: t, x, h => by
    rw [flatKV_cons] at h
    rcases List.mem_append.mp h with h | h
    · obtain ⟨i, hi, rfl⟩ := List.mem_map.mp h
      exact ⟨(k, v), by simp, rfl, hi⟩
    · obtain ⟨e, he, h1, h2⟩ := mem_flatKV items t x h
      exact ⟨e, by simp [he], h1, h2⟩

theorem treeOK_entries (t : MetricTree) (h : TreeOK t) :
    ∀ e ∈ flatTree t, e.1.b64 ∧ e.2.1.b64 ∧ e.2.2.1.b64 ∧ e.2.2.2.1.b64 = true := by
  intro e he
  obtain ⟨e1, h1, k1, m1⟩ := mem_flatKV flatRes t e he
  obtain ⟨e2, h2, k2, m2⟩ := mem_flatKV flatScopes e1.2 e.2 m1
  obtain ⟨e3, h3, k3, m3⟩ := mem_flatKV flatLeaves e2.2 e.2.2 m2
  obtain ⟨e4, h4, k4, _⟩ := mem_flatKV id e3.2 e.2.2.2 m3
  have a1 := h e1 h1
  have a2 := a1.2 e2 h2
  have a3 := a2.2 e3 h3
  have a4 := a3.2 e4 h4
  exact ⟨k1 ▸ a1.1, k2 ▸ a2.1, k3 ▸ a3.1, k4 ▸ a4.1⟩

/-- The sorting writer on a clean, 64-bit typed batch: it succeeds, its records read back as a
    permutation of the data points (attribute lists in key order) and every record is typed. -/
theorem otlpToStefSorted_full (m : Metrics) (hc : m.clean = true) (hb : m.b64 = true) :
    ∃ recs, otlpToStefSorted m = .ok recs ∧ (recs.map pointOfRecord).Perm (okSorted (flatten m)) ∧
      ∀ r ∈ recs, RecTyped r := by
  obtain ⟨recs, h1, h2⟩ := otlpToStefSorted_spec m hc hb
  refine ⟨recs, h1, h2, ?_⟩
  obtain ⟨st, k1, hok, es, hp, hg, _⟩ := sortResources_spec m.rms {}
    (fun r hr => ⟨List.all_eq_true.mp hc r hr, List.all_eq_true.mp hb r hr⟩) AllKV_nil
  have hp : (flatTree st.tree).Perm (es.map Prod.fst) := by simpa [flatTree, flatKV] using hp
  have hrecs : recs = (emitMetrics st.tree {}).out.reverse := by
    simp only [otlpToStefSorted, k1] at h1
    exact (Except.ok.inj h1).symm
  have hstable : ∀ e ∈ emitOrder st.tree, StableFG RecTyped (fun _ => True) e := by
    intro e he oa op
    have he1 := (emitOrder_perm st.tree).subset he
    have hk := treeOK_entries st.tree hok e he1
    obtain ⟨x, hx, rfl⟩ := List.mem_map.mp (hp.subset he1)
    exact eq_true (recOf_typed x.1 oa op hk.1 hk.2.1 hk.2.2.1 hk.2.2.2 (hg x hx).1)
  have hall := emitMetrics_spec RecTyped (fun _ => True) st.tree {} hstable
  intro r hr
  rw [hrecs, List.mem_reverse] at hr
  have : RecTyped r ∈ (emitMetrics st.tree {}).out.map RecTyped := List.mem_map_of_mem hr
  rw [hall] at this
  simp only [List.map_nil, List.append_nil, List.mem_reverse, List.mem_map] at this
  obtain ⟨_, _, h⟩ := this
  exact h ▸ trivial

/-! ### the order-preserving writer -/

/-- the writer's record has typed resource, scope and metric keys and a backed exemplar array, and
    everything written so far is typed -/
def WState.typed (st : WState) : Prop :=
  (st.cur.resource.key.b64 ∧ st.cur.scope.key.b64 ∧ st.cur.metric.key.b64 ∧ st.cur.point.wf) ∧ ∀ r ∈ st.out, RecTyped r

theorem typed_write {st : WState} (rec : SRecord) (tmp : SAttrs) (h : st.typed)
    (h1 : rec.resource = st.cur.resource) (h2 : rec.scope = st.cur.scope) (h3 : rec.metric.key.b64)
    (h4 : rec.attrs.visible.b64 = true) (h5 : rec.point.wf) :
    ({ st with cur := rec, tmp := tmp } : WState).write.typed := by
  obtain ⟨⟨a, b, _, _⟩, ho⟩ := h
  have ht : RecTyped rec := ⟨h1 ▸ a, h2 ▸ b, h3, h4, h5⟩
  refine ⟨⟨h1 ▸ a, h2 ▸ b, h3, h5⟩, ?_⟩
  intro r hr
  simp only [WState.write, List.mem_cons] at hr
  rcases hr with rfl | hr
  · exact ht
  · exact ho r hr

theorem pb64 {p : Point} (h : p.b64 = true) : p.attrs.b64 = true ∧ ∀ x ∈ p.bounds, x < two64 := by
  simpa [Point.b64] using h

theorem writeNumeric_typed : ∀ (ps : List Point) (st st' : WState),
    (∀ p ∈ ps, p.cleanNum = true ∧ p.b64 = true) → st.typed → writeNumeric ps st = .ok st' → st'.typed
  | [], st, st', _, ht, h => by simp [writeNumeric] at h; exact h ▸ ht
  | p :: ps, st, st', hc, ht, h => by
    obtain ⟨hcp, hbp⟩ := hc p (by simp)
    have hv := cleanNum_vt hcp
    rw [writeNumeric_cons p ps st hv.1 hv.2] at h
    refine writeNumeric_typed ps _ st' (fun q hq => hc q (by simp [hq])) ?_ h
    exact typed_write (numRecord p st) _ ht rfl rfl ht.1.2.2.1
      (by simpa [numRecord, mapUnsorted_spec] using (pb64 hbp).1) (pointWithEx_wf _ _ _)

theorem writeHistogram_typed : ∀ (ps : List Point) (st st' : WState),
    (∀ p ∈ ps, p.cleanHist = true ∧ p.b64 = true) → st.typed → writeHistogram ps st = .ok st' → st'.typed
  | [], st, st', _, ht, h => by simp [writeHistogram] at h; exact h ▸ ht
  | p :: ps, st, st', hc, ht, h => by
    obtain ⟨hcp, hbp⟩ := hc p (by simp)
    have hv := cleanHist_ok hcp
    rw [writeHistogram_cons p ps st hv.1 hv.2] at h
    refine writeHistogram_typed ps _ st' (fun q hq => hc q (by simp [hq])) ?_ h
    refine typed_write (histRecord p st) _ ht rfl rfl ?_
      (by simpa [histRecord, mapUnsorted_spec] using (pb64 hbp).1) (pointWithEx_wf _ _ _)
    have := ht.1.2.2.1
    exact ⟨by simpa [histRecord, SMetric.key] using this.1,
      by simpa [histRecord, SMetric.key, setFSlice_eq] using (pb64 hbp).2⟩

theorem writeExpHistogram_typed : ∀ (ps : List Point) (st st' : WState),
    (∀ p ∈ ps, p.cleanExp = true ∧ p.b64 = true) → st.typed → writeExpHistogram ps st = .ok st' → st'.typed
  | [], st, st', _, ht, h => by simp [writeExpHistogram] at h; exact h ▸ ht
  | p :: ps, st, st', hc, ht, h => by
    obtain ⟨hcp, hbp⟩ := hc p (by simp)
    rw [writeExpHistogram_cons p ps st (cleanExp_ok hcp)] at h
    refine writeExpHistogram_typed ps _ st' (fun q hq => hc q (by simp [hq])) ?_ h
    exact typed_write (expRecord p st) _ ht rfl rfl ht.1.2.2.1
      (by simpa [expRecord, mapUnsorted_spec] using (pb64 hbp).1) (pointWithEx_wf _ _ _)

theorem writeSummary_typed : ∀ (ps : List Point) (st st' : WState),
    (∀ p ∈ ps, p.cleanSummary = true ∧ p.b64 = true) → st.typed → writeSummary ps st = .ok st' → st'.typed
  | [], st, st', _, ht, h => by simp [writeSummary] at h; exact h ▸ ht
  | p :: ps, st, st', hc, ht, h => by
    obtain ⟨_, hbp⟩ := hc p (by simp)
    rw [writeSummary_cons p ps st] at h
    refine writeSummary_typed ps _ st' (fun q hq => hc q (by simp [hq])) ?_ h
    have hw : (summaryRecord p st).point.wf := by
      have := ht.1.2.2.2
      simpa [summaryRecord, convSummary_eq, SPoint.wf] using this
    exact typed_write (st := st) (summaryRecord p st) st.tmp ht rfl rfl ht.1.2.2.1
      (by simpa [summaryRecord, mapUnsorted_spec] using (pb64 hbp).1) hw

theorem writeMetric_typed (m : Metric) (st st' : WState) (hc : m.clean = true) (hb : m.b64 = true)
    (ht : st.typed) (h : writeMetric m st = .ok st') : st'.typed := by
  simp only [Metric.clean, Bool.and_eq_true] at hc
  obtain ⟨⟨_, htok⟩, hpts⟩ := hc
  have hpts := List.all_eq_true.mp hpts
  simp only [Metric.b64, Bool.and_eq_true] at hb
  obtain ⟨hmdb, hptsb⟩ := hb
  have hptsb := List.all_eq_true.mp hptsb
  simp only [writeMetric, convMetricUnsorted_eq m st.cur.metric htok] at h
  have ht0 : ({ st with cur := { st.cur with metric := metricInto m st.cur.metric } } : WState).typed := by
    obtain ⟨⟨a, b, c, d⟩, ho⟩ := ht
    refine ⟨⟨a, b, ?_, d⟩, ho⟩
    cases hmt : m.type <;>
      exact ⟨by simpa [metricInto, metricBase, hmt, SMetric.key, mapUnsorted_spec] using hmdb,
        by simpa [metricInto, metricBase, hmt, SMetric.key] using c.2⟩
  cases hmt : m.type with
  | gauge =>
    simp only [hmt] at h
    exact writeNumeric_typed m.points _ st' (fun p hp => ⟨by simpa [hmt, Point.clean] using hpts p hp, hptsb p hp⟩) ht0 h
  | sum =>
    simp only [hmt] at h
    exact writeNumeric_typed m.points _ st' (fun p hp => ⟨by simpa [hmt, Point.clean] using hpts p hp, hptsb p hp⟩) ht0 h
  | hist =>
    simp only [hmt] at h
    exact writeHistogram_typed m.points _ st' (fun p hp => ⟨by simpa [hmt, Point.clean] using hpts p hp, hptsb p hp⟩) ht0 h
  | exp =>
    simp only [hmt] at h
    exact writeExpHistogram_typed m.points _ st' (fun p hp => ⟨by simpa [hmt, Point.clean] using hpts p hp, hptsb p hp⟩) ht0 h
  | summary =>
    simp only [hmt] at h
    exact writeSummary_typed m.points _ st' (fun p hp => ⟨by simpa [hmt, Point.clean] using hpts p hp, hptsb p hp⟩) ht0 h

theorem writeMetrics_typed : ∀ (ms : List Metric) (st st' : WState),
    (∀ m ∈ ms, m.clean = true ∧ m.b64 = true) → st.typed → writeMetrics ms st = .ok st' → st'.typed
  | [], st, st', _, ht, h => by simp [writeMetrics] at h; exact h ▸ ht
  | m :: ms, st, st', hc, ht, h => by
    simp only [writeMetrics] at h
    split at h
    · simp at h
    · rename_i st1 h1
      exact writeMetrics_typed ms st1 st' (fun x hx => hc x (by simp [hx]))
        (writeMetric_typed m st st1 (hc m (by simp)).1 (hc m (by simp)).2 ht h1) h

theorem writeScopes_typed : ∀ (ss : List ScopeMetrics) (st st' : WState),
    (∀ s ∈ ss, s.clean = true ∧ s.b64 = true) → st.typed → writeScopes ss st = .ok st' → st'.typed
  | [], st, st', _, ht, h => by simp [writeScopes] at h; exact h ▸ ht
  | s :: ss, st, st', hc, ht, h => by
    obtain ⟨hsc, hsb⟩ := hc s (by simp)
    simp only [ScopeMetrics.clean, Bool.and_eq_true] at hsc
    simp only [ScopeMetrics.b64, Bool.and_eq_true] at hsb
    simp only [writeScopes] at h
    split at h
    · simp at h
    · rename_i st1 h1
      have ht0 : ({ st with cur := { st.cur with scope := convScopeUnsorted s st.cur.scope } } : WState).typed := by
        obtain ⟨⟨a, _, c, d⟩, ho⟩ := ht
        exact ⟨⟨a, by simpa [ScopeKey.b64, SScope.key, convScopeUnsorted, mapUnsorted_spec] using hsb.1, c, d⟩, ho⟩
      exact writeScopes_typed ss st1 st' (fun x hx => hc x (by simp [hx]))
        (writeMetrics_typed s.metrics _ st1
          (fun m hm => ⟨List.all_eq_true.mp hsc.2 m hm, List.all_eq_true.mp hsb.2 m hm⟩) ht0 h1) h

theorem writeResources_typed : ∀ (rs : List ResourceMetrics) (st st' : WState),
    (∀ r ∈ rs, r.clean = true ∧ r.b64 = true) → st.typed → writeResources rs st = .ok st' → st'.typed
  | [], st, st', _, ht, h => by simp [writeResources] at h; exact h ▸ ht
  | r :: rs, st, st', hc, ht, h => by
    obtain ⟨hrc, hrb⟩ := hc r (by simp)
    simp only [ResourceMetrics.clean, Bool.and_eq_true] at hrc
    simp only [ResourceMetrics.b64, Bool.and_eq_true] at hrb
    simp only [writeResources] at h
    split at h
    · simp at h
    · rename_i st1 h1
      have ht0 : ({ st with cur := { st.cur with resource := convResourceUnsorted r st.cur.resource } } : WState).typed := by
        obtain ⟨⟨_, b, c, d⟩, ho⟩ := ht
        exact ⟨⟨by simpa [ResKey.b64, SResource.key, convResourceUnsorted, mapUnsorted_spec] using hrb.1, b, c, d⟩, ho⟩
      exact writeResources_typed rs st1 st' (fun x hx => hc x (by simp [hx]))
        (writeScopes_typed r.scopes _ st1
          (fun s hs => ⟨List.all_eq_true.mp hrc.2 s hs, List.all_eq_true.mp hrb.2 s hs⟩) ht0 h1) h

theorem init_typed : ({} : WState).typed := by
  refine ⟨⟨?_, ?_, ⟨?_, ?_⟩, ?_⟩, ?_⟩ <;> simp [ResKey.b64, ScopeKey.b64, SResource.key, SScope.key, SMetric.key, SPoint.wf,
    SAttrs.visible, tefKVs, KVs.b64]

/-- the records the order-preserving writer produces for a clean, 64-bit typed batch are typed -/
theorem otlpToStefUnsorted_typed (m : Metrics) (recs : List SRecord) (hc : m.clean = true) (hb : m.b64 = true)
    (h : otlpToStefUnsorted m = .ok recs) : ∀ r ∈ recs, RecTyped r := by
  simp only [otlpToStefUnsorted] at h
  split at h
  · simp at h
  · rename_i st hst
    have ht := writeResources_typed m.rms {} st
      (fun r hr => ⟨List.all_eq_true.mp hc r hr, List.all_eq_true.mp hb r hr⟩) init_typed hst
    intro r hr
    rw [← Except.ok.inj h, List.mem_reverse] at hr
    exact ht.2 r hr

end Stef.Otlp
