/-
  Stef.Proofs.DowngradeStream: the downgrade simulation lifted to records, frames and whole streams,
  and the round trip of streams that CARRY a wire-schema descriptor (`stream_roundtrip_with`,
  the generalisation of `SpecEnc.stream_roundtrip` to the tree built under a descriptor).
-/
import Stef.Proofs.DowngradeNode
import Stef.Proofs.ForwardStream
import Stef.Proofs.SpecEncStream
import Stef.Proofs.DowngradeMasks

namespace Stef.Proofs.Downgrade
open Stef Stef.Spec Stef.Proofs.Override Stef.Proofs.Forward
open Stef.SpecEnc (Mk Ev Chunk Res encodeNode encodeRecords encodeFrameBytes encodeStreamFrames FrameIn resetFor
  frameBytes frameContent frameOk EncOut)

/-! ## records, frames -/

theorem resetFor_rel (A : Schema) (flags : Nat) (ds : DS) (t : List (String × List (Option St)))
    (h : DictRel A ds.tdict t) : DSRel A (resetFor flags ds) (resetFor flags (withT ds t)) := by
  unfold resetFor
  by_cases h1 : flags % 2 = 1 <;> by_cases h2 : (flags / 4) % 2 = 1 <;> simp only [h1, h2, if_true, if_false]
  · exact ⟨[], rfl, DictRel.nil⟩
  · exact ⟨[], rfl, DictRel.nil⟩
  · exact ⟨t, rfl, h⟩
  · exact ⟨t, rfl, h⟩

theorem getLast_cons_getD {α} (x : α) (xs : List α) (a : α) : (x :: xs).getLast?.getD a = xs.getLast?.getD x := by
  cases xs with
  | nil => rfl
  | cons y ys => simp [List.getLast?_cons]

theorem F2.getLast {α β} {R : α → β → Prop} {l1 : List α} {l2 : List β} (h : F2 R l1 l2) (a : α) (b : β) (hab : R a b) :
    R (l1.getLast?.getD a) (l2.getLast?.getD b) := by
  induction h generalizing a b with
  | nil => exact hab
  | @cons x y xs ys hxy hr ih =>
    rw [getLast_cons_getD, getLast_cons_getD]
    exact ih x y hxy

section
variable {A B : Schema} (hAB : SchemaLe A B) (hC : Closed A) (hD : DictInj A)
include hAB hC hD

theorem erecords_sim (root : Node) (rootKey : String) (hroot : NK A rootKey root) :
    ∀ (fuel : Nat) (recs : List (St × Mk)) (cura curb : St) (dsa dsb : DS) (evs : List Ev) (dsb' : DS) (effb : List St),
      KRel A rootKey cura curb → DSRel A dsa dsb →
      encodeRecords B root fuel recs curb dsb = some (evs, dsb', effb) →
      ∃ dsa' effa, encodeRecords A root fuel recs cura dsa = some (evs, dsa', effa) ∧
        F2 (KRel A rootKey) effa effb ∧ DSRel A dsa' dsb' := by
  intro fuel
  induction fuel with
  | zero =>
    intro recs cura curb dsa dsb evs dsb' effb _ _ h
    simp [encodeRecords] at h
  | succ fuel ih =>
    intro recs cura curb dsa dsb evs dsb' effb hcur hds h
    cases recs with
    | nil =>
      simp only [encodeRecords, Option.some.injEq, Prod.mk.injEq] at h ⊢
      obtain ⟨rfl, rfl, rfl⟩ := h
      exact ⟨dsa, [], ⟨rfl, rfl, rfl⟩, F2.nil, hds⟩
    | cons r rest =>
      obtain ⟨new, mk⟩ := r
      simp only [encodeRecords] at h ⊢
      split at h
      · simp at h
      · rename_i e1 ds1 v hfirst
        split at h
        · simp at h
        · rename_i e2 ds2 vs hrest
          simp only [Option.some.injEq, Prod.mk.injEq] at h
          obtain ⟨rfl, rfl, rfl⟩ := h
          obtain ⟨ds1a, va, ha1, hv, hds1⟩ := (enc_sim_all hAB hC hD _).1 _ _ _ _ _ _ _ _ _ _ _ _ (envOK_nil A) hroot hcur hds hfirst
          obtain ⟨ds2a, vsa, ha2, hvs, hds2⟩ := ih rest va v ds1a ds1 _ _ _ hv hds1 hrest
          refine ⟨ds2a, va :: vsa, ?_, F2.cons hv hvs, hds2⟩
          simp only [ha1, ha2]

theorem eframe_sim (root : Node) (rootKey : String) (hroot : NK A rootKey root) (ncols : Nat) (fr : FrameIn)
    (cura curb : St) (esa esb : DS) (f : Frame) (evs : List Ev) (esb' : DS) (effb : List St)
    (hcur : KRel A rootKey cura curb) (hds : DSRel A esa esb)
    (h : encodeFrameBytes B root ncols fr curb esb = some (f, evs, esb', effb)) :
    ∃ esa' effa, encodeFrameBytes A root ncols fr cura esa = some (f, evs, esa', effa) ∧
      F2 (KRel A rootKey) effa effb ∧ DSRel A esa' esb' := by
  obtain ⟨t, rfl, hdict⟩ := hds
  unfold encodeFrameBytes at h ⊢
  split at h
  · simp at h
  · rename_i evs0 es0 effs0 hrec
    obtain ⟨esa', effa, ha, hr, hd⟩ := erecords_sim hAB hC hD root rootKey hroot _ _ cura curb _ _ _ _ _ hcur
      (resetFor_rel A fr.flags esa t hdict) hrec
    simp only [ha]
    simp only at h
    split at h
    · rename_i hc
      simp only [Option.some.injEq, Prod.mk.injEq] at h
      obtain ⟨rfl, rfl, rfl, rfl⟩ := h
      rw [if_pos hc]
      exact ⟨esa', effa, rfl, hr, hd⟩
    · simp at h

theorem estream_sim (root : Node) (rootKey : String) (hroot : NK A rootKey root) (ncols : Nat) :
    ∀ (ins : List FrameIn) (cura curb : St) (esa esb : DS) (frames : List Frame) (evss : List (List Ev)) (esb' : DS)
      (effssb : List (List St)),
      KRel A rootKey cura curb → DSRel A esa esb →
      encodeStreamFrames B root ncols ins curb esb = some (frames, evss, esb', effssb) →
      ∃ esa' effssa, encodeStreamFrames A root ncols ins cura esa = some (frames, evss, esa', effssa) ∧
        F2 (F2 (KRel A rootKey)) effssa effssb ∧ DSRel A esa' esb' := by
  intro ins
  induction ins with
  | nil =>
    intro cura curb esa esb frames evss esb' effssb _ hds h
    simp only [encodeStreamFrames, Option.some.injEq, Prod.mk.injEq] at h ⊢
    obtain ⟨rfl, rfl, rfl, rfl⟩ := h
    exact ⟨esa, [], ⟨rfl, rfl, rfl, rfl⟩, F2.nil, hds⟩
  | cons fr rest ih =>
    intro cura curb esa esb frames evss esb' effssb hcur hds h
    simp only [encodeStreamFrames] at h ⊢
    split at h
    · simp at h
    · rename_i f evs es1 effs hframe
      split at h
      · simp at h
      · rename_i fs evss' es2 effss' hrest
        simp only [Option.some.injEq, Prod.mk.injEq] at h
        obtain ⟨rfl, rfl, rfl, rfl⟩ := h
        obtain ⟨es1a, effa, ha1, hr1, hd1⟩ := eframe_sim hAB hC hD root rootKey hroot ncols fr cura curb esa esb f evs es1 effs
          hcur hds hframe
        obtain ⟨es2a, effssa, ha2, hr2, hd2⟩ := ih _ _ es1a es1 fs evss' es2 effss' (F2.getLast hr1 cura curb hcur) hd1 hrest
        refine ⟨es2a, effa :: effssa, ?_, F2.cons hr1 hr2, hd2⟩
        simp only [ha1, ha2]

end

/-! ## streams that carry a wire-schema descriptor -/

/-- the wire-schema part of the var header: number of counts, then the counts -/
def schemaBytes (counts : List Nat) : Bytes := Varint.encodeNat counts.length ++ counts.flatMap Varint.encodeNat

/-- var-header content: size of the wire schema, the wire schema, no user data -/
def varHeaderBytes (counts : List Nat) : Bytes :=
  Varint.encodeNat (schemaBytes counts).length ++ (schemaBytes counts ++ [0#8])

/-- the descriptor fits the limits of `Spec.readVarHeader` / `Spec.readFrames` -/
def descOk (counts : List Nat) : Bool :=
  decide (counts.length ≤ 1024) && counts.all (fun c => decide (c < 2 ^ 64)) &&
  decide ((schemaBytes counts).length ≤ 1048576) && decide ((varHeaderBytes counts).length ≤ 67108864)

/-- fixed header and the var-header frame carrying the descriptor `counts` -/
def descPrefix (counts : List Nat) : Bytes :=
  Spec.sig ++ [2#8, 0#8, 0#8] ++ frameBytes { flags := 0, content := varHeaderBytes counts }

/-- a whole uncompressed stream for root struct `rootName` written under the descriptor `counts`:
    the column tree is the one `σ` builds under that descriptor (which must be consumed exactly). -/
def encodeStreamWith (σ : Schema) (rootName : String) (counts : List Nat) (ins : List FrameIn) :
    Option (Bytes × List (List St)) :=
  match mkNode σ 200 [] (.ref rootName) { override := some counts } with
  | .error _ => none
  | .ok (root, b) =>
    if descOk counts = true ∧ b.override = some [] then
      match encodeStreamFrames σ root b.nextCol ins (initSt σ initFuel (.ref rootName))
          { cols := Array.replicate b.nextCol {} } with
      | none => none
      | some (frames, _, _, effss) => some (descPrefix counts ++ frames.flatMap frameBytes, effss)
    else none

theorem encodeNat_ne_nil (n : Nat) : Varint.encodeNat n ≠ [] := by
  rw [Varint.encodeNat]
  split <;> simp

theorem needVar_zero : needVar [0#8] = .ok (0, []) := by
  simp [needVar, Varint.decode, Varint.decodeAux]

theorem readCounts_flat : ∀ (cs : List Nat) (acc : List Nat), (∀ c ∈ cs, c < 2 ^ 64) →
    readCounts cs.length (cs.flatMap Varint.encodeNat) acc = .ok (acc.reverse ++ cs)
  | [], acc, _ => by simp [readCounts]
  | c :: cs, acc, h => by
    simp only [List.length_cons, List.flatMap_cons, readCounts, bind, Except.bind]
    rw [SpecEnc.needVar_encodeNat c _ (h c (by simp))]
    simp only
    rw [readCounts_flat cs (c :: acc) (fun x hx => h x (by simp [hx]))]
    simp

theorem readVarHeader_desc (counts : List Nat) (hok : descOk counts = true) :
    readVarHeader (varHeaderBytes counts) = .ok (some counts, []) := by
  simp only [descOk, Bool.and_eq_true, decide_eq_true_eq, List.all_eq_true] at hok
  obtain ⟨⟨⟨h1, h2⟩, h3⟩, h4⟩ := hok
  unfold readVarHeader varHeaderBytes
  simp only [bind, Except.bind]
  rw [SpecEnc.needVar_encodeNat _ _ (by omega)]
  have hn3 : ¬ (schemaBytes counts).length > 1048576 := by omega
  simp only [hn3, if_false]
  rw [SpecEnc.needTake_append]
  simp only [needVar_zero]
  have hne : (schemaBytes counts).length ≠ 0 := by
    intro h0
    have : schemaBytes counts = [] := List.eq_nil_of_length_eq_zero h0
    unfold schemaBytes at this
    exact encodeNat_ne_nil _ (List.append_eq_nil_iff.mp this).1
  simp only [show ¬ (0 > 1024) by omega, if_false, readUser, hne]
  unfold schemaBytes
  rw [SpecEnc.needVar_encodeNat _ _ (by omega)]
  have hn1 : ¬ counts.length > 1024 := by omega
  simp only [hn1, if_false]
  rw [readCounts_flat counts [] h2]
  simp

/-- the decoder on a stream of `encodeStreamWith`: header, framing and descriptor parse, the tree is
    the encoder's, and the frame loop starts from the fresh state -/
theorem decodeStream_with_eq (σ : Schema) (rootName : String) (counts : List Nat) (root : Node) (b : Build)
    (frames : List Frame)
    (hmk : mkNode σ 200 [] (.ref rootName) { override := some counts } = .ok (root, b))
    (hok : descOk counts = true) (hov : b.override = some [])
    (m3 : ∀ f ∈ frames, f.flags ≤ 7 ∧ f.content.length ≤ 67108864) :
    decodeStream σ rootName (descPrefix counts ++ frames.flatMap frameBytes) =
      decodeStream.go σ { compression := 0, wireCounts := some counts, userData := [] } root (colKinds 10000 root)
        (rootKeptOf root) frames (initSt σ initFuel (.ref rootName)) { cols := Array.replicate b.nextCol {} } [] [] := by
  have hok' := hok
  simp only [descOk, Bool.and_eq_true, decide_eq_true_eq, List.all_eq_true] at hok'
  obtain ⟨⟨⟨h1, h2⟩, h3⟩, h4⟩ := hok'
  let vh : Frame := { flags := 0, content := varHeaderBytes counts }
  have hbody : descPrefix counts ++ frames.flatMap frameBytes =
      Spec.sig ++ [2#8, 0#8, 0#8] ++ (vh :: frames).flatMap frameBytes := by
    simp [descPrefix, vh]
  have hfuel : (vh :: frames).length < (descPrefix counts ++ frames.flatMap frameBytes).length * 8 + 1000 := by
    have hl : ∀ fs : List Frame, fs.length ≤ (fs.flatMap frameBytes).length := by
      intro fs
      induction fs with
      | nil => simp
      | cons f fs ih => simp only [List.flatMap_cons, List.length_append, List.length_cons, frameBytes]; omega
    have := hl frames
    simp only [List.length_cons, List.length_append]
    omega
  have hrf := SpecEnc.readFrames_frames (vh :: frames) []
    ((descPrefix counts ++ frames.flatMap frameBytes).length * 8 + 1000) hfuel
    (by
      intro f hf
      simp only [List.mem_cons] at hf
      rcases hf with rfl | hf
      · exact ⟨Nat.zero_le 7, h4⟩
      · exact m3 f hf)
  unfold decodeStream
  simp only [hbody, SpecEnc.readFixedHeader_prefix]
  rw [← hbody]
  simp only [hrf, List.reverse_nil, List.nil_append, vh, readVarHeader_desc counts hok, ne_eq, not_true_eq_false,
    ↓reduceIte]
  simp only [hmk, hov, Bool.false_eq_true, ↓reduceIte]
  cases root <;> rfl

/-- **stream_roundtrip_with**: every stream `encodeStreamWith` produces (descriptor in the var header,
    column tree built under that descriptor) is decoded by `Spec.decodeStream` without error to exactly
    the effective records, without a dictionary violation, and the header reports the descriptor. -/
theorem stream_roundtrip_with (σ : Schema) (rootName : String) (counts : List Nat) (ins : List FrameIn)
    (bytes : Bytes) (effss : List (List St)) (h : encodeStreamWith σ rootName counts ins = some (bytes, effss)) :
    (decodeStream σ rootName bytes).error = none ∧
    (decodeStream σ rootName bytes).records.map (·.2) = effss.flatten ∧
    (decodeStream σ rootName bytes).dictViolations = 0 ∧
    (decodeStream σ rootName bytes).header.wireCounts = some counts := by
  unfold encodeStreamWith at h
  split at h
  · simp at h
  · rename_i root b hmk
    split at h
    · rename_i hc
      obtain ⟨hok, hov⟩ := hc
      split at h
      · simp at h
      · rename_i frames evss es' effss' hfr
        simp only [Option.some.injEq, Prod.mk.injEq] at h
        obtain ⟨rfl, rfl⟩ := h
        obtain ⟨m1, m2, m3, m4⟩ := SpecEnc.streamFrames_matches σ root b.nextCol ins frames evss _ _ es' effss' hfr
        have hgo := SpecEnc.go_roundtrip σ { compression := 0, wireCounts := some counts, userData := [] } root
          (colKinds 10000 root) (rootKeptOf root) b.nextCol ins evss frames
          (initSt σ initFuel (.ref rootName)) { cols := Array.replicate b.nextCol {} } es' effss' (fun _ => ([], [], 0)) [] []
          m1 m2 (by simp)
        rw [← SpecEnc.fresh_withInputs] at hgo
        rw [decodeStream_with_eq σ rootName counts root b frames hmk hok hov m3]
        refine ⟨hgo.1, ?_, ?_, ?_⟩
        · simpa using hgo.2.1
        · rw [hgo.2.2, m4]
        · rw [go_header]
    · simp at h

theorem mkNode_root_struct (σ : Schema) (fuel : Nat) (n : String) (fs : List Field) (b : Build) (root : Node) (b' : Build)
    (hf : σ.find n = some (.struct none fs)) (h : mkNode σ fuel [] (.ref n) b = .ok (root, b')) :
    ∃ col kept oc fields, root = .struct col n none kept oc fields := by
  cases fuel with
  | zero => rw [mkNode] at h; cases h
  | succ fuel =>
    rw [mkNode] at h
    simp only [List.contains_nil, Bool.false_eq_true, if_false, hf] at h
    obtain ⟨⟨cnt, b1⟩, _, h2⟩ := bind_ok _ _ _ h
    simp only at h2
    obtain ⟨⟨nodes, b2⟩, _, h4⟩ := bind_ok _ _ _ h2
    simp only at h4
    injection h4 with h4
    injection h4 with h4 _
    exact ⟨_, _, _, _, h4.symm⟩

/-- **stream_masks_with**: for a root struct without dictionary, the root modified masks that the
    decoder reports are the masks of the root marks, record by record. -/
theorem stream_masks_with (σ : Schema) (rootName : String) (counts : List Nat) (ins : List FrameIn)
    (bytes : Bytes) (effss : List (List St)) (fs : List Field) (hroot : σ.find rootName = some (.struct none fs))
    (h : encodeStreamWith σ rootName counts ins = some (bytes, effss)) :
    (decodeStream σ rootName bytes).records.map (·.1) =
      ins.flatMap (fun fr => fr.recs.map (fun r => SpecEnc.rootMask r.2)) := by
  unfold encodeStreamWith at h
  split at h
  · simp at h
  · rename_i root b hmk
    split at h
    · rename_i hc
      obtain ⟨hok, hov⟩ := hc
      split at h
      · simp at h
      · rename_i frames evss es' effss' hfr
        simp only [Option.some.injEq, Prod.mk.injEq] at h
        obtain ⟨rfl, rfl⟩ := h
        obtain ⟨m1, m2, m3, m4⟩ := SpecEnc.streamFrames_matches σ root b.nextCol ins frames evss _ _ es' effss' hfr
        rw [decodeStream_with_eq σ rootName counts root b frames hmk hok hov m3]
        obtain ⟨col, kept, oc, fields, rfl⟩ := mkNode_root_struct σ 200 rootName fs _ root b hroot hmk
        have hgo := SpecEnc.go_masks σ { compression := 0, wireCounts := some counts, userData := [] } col rootName kept oc fields
          (colKinds 10000 (.struct col rootName none kept oc fields)) b.nextCol ins evss frames
          (initSt σ initFuel (.ref rootName)) { cols := Array.replicate b.nextCol {} } es' effss' (fun _ => ([], [], 0)) [] []
          m1 m2 (by simp)
        rw [← SpecEnc.fresh_withInputs] at hgo
        simpa [rootKeptOf] using hgo
    · simp at h

/-! ## the downgraded stream is an ordinary A stream -/

theorem f2_flatten {α β} {R : α → β → Prop} {l1 : List (List α)} {l2 : List (List β)} (h : F2 (F2 R) l1 l2) :
    F2 R l1.flatten l2.flatten := by
  induction h with
  | nil => exact F2.nil
  | cons hab _ ih => simpa using F2.append hab ih

theorem f2_krel_extL {A : Schema} {key : String} {l1 l2 : List St} (h : F2 (KRel A key) l1 l2) : ExtL l1 l2 := by
  induction h with
  | nil => exact ExtL.nil
  | cons hab _ ih => exact ExtL.cons _ _ _ _ hab.toExt ih

section
variable {A B : Schema} (hAB : SchemaLe A B) (hC : Closed A) (hD : DictInj A)
include hAB hC hD

/-- **downgrade_stream**: under any descriptor `counts` that a reader for A accepts, whatever the
    B writer (`encodeStreamWith B`: B's initial values, B-shaped previous values and dictionary
    entries, the tree B builds under the descriptor) produces from a history `ins`, the plain A
    writer produces THE SAME BYTES from the same history; the effective records of the two runs
    differ only by B-only trailing struct fields. -/
theorem downgrade_stream (root : String) (counts : List Nat) (ins : List FrameIn) (bytes : Bytes)
    (effssB : List (List St)) (rA : Node × Build)
    (hA : mkNode A 200 [] (.ref root) { override := some counts } = .ok rA)
    (h : encodeStreamWith B root counts ins = some (bytes, effssB)) :
    ∃ effssA, encodeStreamWith A root counts ins = some (bytes, effssA) ∧
      F2 (F2 (KRel A root)) effssA effssB := by
  have hB : mkNode B 200 [] (.ref root) { override := some counts } = .ok rA :=
    ((mono_all A B hAB 200).1 [] (.ref root) _ rA ⟨counts, rfl⟩ (by intro q hq; cases hq) hA).1
  have hty : TyClosed A (.ref root) := mkNode_root_defined A 200 root _ rA hA
  have hnk : NK A root rA.1 := (mkNode_NK A hC 200).1 [] (.ref root) _ rA hty hA
  obtain ⟨rootN, b⟩ := rA
  unfold encodeStreamWith at h ⊢
  simp only [hB] at h
  simp only [hA]
  split at h
  · rename_i hc
    rw [if_pos hc]
    split at h
    · simp at h
    · rename_i frames evss es' effss' hfr
      simp only [Option.some.injEq, Prod.mk.injEq] at h
      obtain ⟨rfl, rfl⟩ := h
      have hds0 : DSRel A ({ cols := Array.replicate b.nextCol {} } : DS) { cols := Array.replicate b.nextCol {} } :=
        ⟨[], rfl, DictRel.nil⟩
      obtain ⟨esa', effssa, ha, hr, _⟩ := estream_sim hAB hC hD rootN root hnk b.nextCol ins _ _ _ _ frames evss es' effss'
        (init_rel hAB hC initFuel (.ref root) hty) hds0 hfr
      simp only [ha]
      exact ⟨effssa, rfl, hr⟩
  · simp at h

end

end Stef.Proofs.Downgrade
