/-
  Stef.Proofs.IntCodecGen: the functions REGENERATED from go/pkg/membuffer.go and
  go/pkg/codecs/{uint64,int64,bool,string,stringdict}.go (Stef/Gen/IntCodec.lean; vocabulary
  Stef/IntCodecSem.lean) are the hand model of Stef/Codec.lean, on every state.
-/
import Stef.Gen.IntCodec
import Stef.Proofs.Codec
import Stef.Proofs.Varint

namespace Stef.Proofs.IntCodecGen
open Stef Stef.Codec Stef.FloatCodecSem Stef.IntCodecSem Stef.Gen.IntCodec

/-! ### Go `int` arithmetic that does not wrap -/

theorem wrapI_small (x : Int) (h1 : -2 ^ 63 ≤ x) (h2 : x < 2 ^ 63) : wrapI x = x := by
  unfold wrapI
  rw [Int.emod_eq_of_lt (by omega) (by omega)]; omega

theorem ofInt_wrapI (x : Int) : BitVec.ofInt 64 (wrapI x) = BitVec.ofInt 64 x := by
  apply BitVec.eq_of_toInt_eq
  simp only [BitVec.toInt_ofInt, wrapI, Int.bmod_def]
  omega

/-- the number of bytes a codec accounts: `uint(newLen - oldLen)`. -/
theorem frame_bytes (a b : Nat) (h : a + b < 2 ^ 63) :
    (uintOfInt (isub ((a + b : Nat) : Int) (a : Int))).toNat = b := by
  unfold isub
  rw [wrapI_small _ (by omega) (by omega)]
  have : ((a + b : Nat) : Int) - (a : Int) = (b : Int) := by omega
  rw [this]
  simp only [uintOfInt, BitVec.ofInt_natCast, BitVec.toNat_ofNat]
  omega

/-! ### pkg.BytesWriter -/

def wAppend (w : BytesWriter) (bs : Bytes) : BytesWriter := { w with buf := w.buf ++ bs }

theorem writeVarint_eq (w : BytesWriter) (x : Word) :
    w.writeVarint x = some (wAppend w (Varint.encodeSigned x)) := rfl

theorem writeStringBytes_eq (w : BytesWriter) (v : Bytes) :
    w.writeStringBytes v = some (wAppend w v) := rfl

theorem wAppend_wAppend (w : BytesWriter) (a b : Bytes) : wAppend (wAppend w a) b = wAppend w (a ++ b) := by
  simp [wAppend]

/-! ### encoding/binary.Uvarint against Stef/Varint.lean -/

theorem uvarintAux_none : ∀ (bs : Bytes) (s a i : Nat),
    Varint.decodeAux bs s a i = none → (uvarintAux bs s a i).2 ≤ 0
  | [], _, _, _, _ => by simp [uvarintAux]
  | b :: rest, s, a, i, h => by
    unfold Varint.decodeAux at h
    unfold uvarintAux
    split
    · simp; omega
    · split
      · split
        · simp; omega
        · rename_i h1 h2 h3; simp [h1, h2, h3] at h
      · rename_i h1 h2
        simp only [h1, h2, if_false] at h
        exact uvarintAux_none rest _ _ _ h

theorem uvarintAux_some : ∀ (bs : Bytes) (s a i : Nat) (v : Word) (rs : Bytes),
    Varint.decodeAux bs s a i = some (v, rs) →
      ∃ k, 1 ≤ k ∧ k ≤ bs.length ∧ rs = bs.drop k ∧ uvarintAux bs s a i = (v, ((i + k : Nat) : Int))
  | [], _, _, _, _, _, h => by simp [Varint.decodeAux] at h
  | b :: rest, s, a, i, v, rs, h => by
    unfold Varint.decodeAux at h
    unfold uvarintAux
    split
    · rename_i h1; simp [h1] at h
    · split
      · split
        · rename_i h1 h2 h3; simp [h2, h3] at h
        · rename_i h1 h2 h3
          simp only [h1, h2, h3, if_false, if_true, Option.some.injEq, Prod.mk.injEq] at h
          refine ⟨1, by omega, by simp, by simp [h.2], ?_⟩
          rw [h.1]; simp
      · rename_i h1 h2
        simp only [h1, h2, if_false] at h
        obtain ⟨k, k1, k2, k3, k4⟩ := uvarintAux_some rest _ _ _ v rs h
        refine ⟨k + 1, by omega, by simp; omega, by simp [k3], ?_⟩
        rw [k4]
        congr 2; omega

/-! ### pkg.BytesReader -/

/-- the reader invariant: the index is inside the buffer (and the buffer is not astronomically large). -/
def RInv (r : BytesReader) : Prop := 0 ≤ r.byteIndex ∧ r.byteIndex ≤ r.buf.length ∧ r.buf.length < 2 ^ 62

/-- the unread bytes. -/
def rest (r : BytesReader) : Bytes := r.buf.drop r.byteIndex.toNat

theorem rest_length (r : BytesReader) (h : RInv r) : ((rest r).length : Int) = r.buf.length - r.byteIndex := by
  obtain ⟨h1, h2, _⟩ := h
  simp only [rest, List.length_drop]; omega

theorem readVarint_none (r : BytesReader) (h : RInv r) (hd : Varint.decodeSigned (rest r) = none) :
    r.readVarint = some (r, 0#64, errEOF) := by
  obtain ⟨h1, h2, h3⟩ := h
  have hd' : Varint.decodeAux (rest r) 0 0 0 = none := by
    simpa [Varint.decodeSigned, Varint.decode] using hd
  have hn := uvarintAux_none _ _ _ _ hd'
  unfold BytesReader.readVarint
  have hp : sliceFromPanics r.buf r.byteIndex = false := by simp [sliceFromPanics]; omega
  simp only [hp, Bool.false_eq_true, if_false]
  have : (uvarint (sliceFrom r.buf r.byteIndex)).2 ≤ 0 := hn
  simp [this]

theorem readVarint_some (r : BytesReader) (h : RInv r) (x : Word) (rs : Bytes)
    (hd : Varint.decodeSigned (rest r) = some (x, rs)) :
    ∃ r', r.readVarint = some (r', x, none) ∧ r'.buf = r.buf ∧ rest r' = rs ∧ RInv r' := by
  obtain ⟨h1, h2, h3⟩ := h
  simp only [Varint.decodeSigned, Varint.decode, Option.map_eq_some_iff] at hd
  obtain ⟨⟨u, rs'⟩, hd1, hd2⟩ := hd
  simp only [Prod.mk.injEq] at hd2
  obtain ⟨k, k1, k2, k3, k4⟩ := uvarintAux_some _ _ _ _ _ _ hd1
  have hlen : (rest r).length = r.buf.length - r.byteIndex.toNat := by simp [rest]
  unfold BytesReader.readVarint
  have hp : sliceFromPanics r.buf r.byteIndex = false := by simp [sliceFromPanics]; omega
  have hu : uvarint (sliceFrom r.buf r.byteIndex) = (u, ((0 + k : Nat) : Int)) := k4
  simp only [hp, Bool.false_eq_true, if_false, hu]
  have hk : ¬ (((0 + k : Nat) : Int) ≤ 0) := by omega
  simp only [hk, decide_false, Bool.false_eq_true, if_false]
  have hadd : iadd r.byteIndex ((0 + k : Nat) : Int) = r.byteIndex + k := by
    unfold iadd; rw [wrapI_small _ (by omega) (by omega)]; omega
  refine ⟨{ r with byteIndex := iadd r.byteIndex ((0 + k : Nat) : Int) }, ?_, rfl, ?_, ?_⟩
  · rw [← hd2.1]; rfl
  · simp only [rest, hadd]
    rw [← hd2.2, k3, rest, List.drop_drop]
    congr 1; omega
  · simp only [RInv, hadd]; omega

theorem readUvarint_none (r : BytesReader) (h : RInv r) (hd : Varint.decode (rest r) = none) :
    r.readUvarint = some (r, 0#64, errEOF) := by
  obtain ⟨h1, h2, h3⟩ := h
  have hn := uvarintAux_none _ _ _ _ (show Varint.decodeAux (rest r) 0 0 0 = none from hd)
  unfold BytesReader.readUvarint
  have hp : sliceFromPanics r.buf r.byteIndex = false := by simp [sliceFromPanics]; omega
  simp only [hp, Bool.false_eq_true, if_false]
  have : (uvarint (sliceFrom r.buf r.byteIndex)).2 ≤ 0 := hn
  simp [this]

theorem readUvarint_some (r : BytesReader) (h : RInv r) (u : Word) (rs : Bytes)
    (hd : Varint.decode (rest r) = some (u, rs)) :
    ∃ r', r.readUvarint = some (r', u, none) ∧ r'.buf = r.buf ∧ rest r' = rs ∧ RInv r' := by
  obtain ⟨h1, h2, h3⟩ := h
  obtain ⟨k, k1, k2, k3, k4⟩ := uvarintAux_some _ _ _ _ _ _ (show Varint.decodeAux (rest r) 0 0 0 = some (u, rs) from hd)
  have hlen : (rest r).length = r.buf.length - r.byteIndex.toNat := by simp [rest]
  unfold BytesReader.readUvarint
  have hp : sliceFromPanics r.buf r.byteIndex = false := by simp [sliceFromPanics]; omega
  have hu : uvarint (sliceFrom r.buf r.byteIndex) = (u, ((0 + k : Nat) : Int)) := k4
  simp only [hp, Bool.false_eq_true, if_false, hu]
  have hk : ¬ (((0 + k : Nat) : Int) ≤ 0) := by omega
  simp only [hk, decide_false, Bool.false_eq_true, if_false]
  have hadd : iadd r.byteIndex ((0 + k : Nat) : Int) = r.byteIndex + k := by
    unfold iadd; rw [wrapI_small _ (by omega) (by omega)]; omega
  refine ⟨{ r with byteIndex := iadd r.byteIndex ((0 + k : Nat) : Int) }, rfl, rfl, ?_, ?_⟩
  · simp only [rest, hadd]
    rw [k3, rest, List.drop_drop]
    congr 1; omega
  · simp only [RInv, hadd]; omega

theorem readStringMapped_zero (r : BytesReader) : r.readStringMapped 0 = some (r, [], none) := rfl

theorem readStringMapped_eof (r : BytesReader) (h : RInv r) (n : Int) (h0 : n ≠ 0)
    (hn : n < 0 ∨ ((rest r).length : Int) < n) : r.readStringMapped n = some (r, [], errEOF) := by
  have hl := rest_length r h
  obtain ⟨h1, h2, h3⟩ := h
  unfold BytesReader.readStringMapped
  have hs : isub (lenBytes r.buf) r.byteIndex = r.buf.length - r.byteIndex := by
    unfold isub; exact wrapI_small _ (by simp only [lenBytes]; omega) (by simp only [lenBytes]; omega)
  simp only [h0, decide_false, Bool.false_eq_true, if_false, hs]
  have : (decide (n < 0) || decide (n > (r.buf.length : Int) - r.byteIndex)) = true := by
    simp only [Bool.or_eq_true, decide_eq_true_eq]; omega
  simp [this]

theorem readStringMapped_ok (r : BytesReader) (h : RInv r) (n : Int) (h0 : 0 < n)
    (hn : n ≤ ((rest r).length : Int)) :
    ∃ r', r.readStringMapped n = some (r', (rest r).take n.toNat, none) ∧ r'.buf = r.buf ∧
      rest r' = (rest r).drop n.toNat ∧ RInv r' := by
  have hl := rest_length r h
  obtain ⟨h1, h2, h3⟩ := h
  unfold BytesReader.readStringMapped
  have hs : isub (lenBytes r.buf) r.byteIndex = r.buf.length - r.byteIndex := by
    unfold isub; exact wrapI_small _ (by simp only [lenBytes]; omega) (by simp only [lenBytes]; omega)
  have hne : ¬ n = 0 := by omega
  have hc : (decide (n < 0) || decide (n > (r.buf.length : Int) - r.byteIndex)) = false := by
    simp only [Bool.or_eq_false_iff, decide_eq_false_iff_not]; omega
  have hp : unsafeStringPanics r.buf r.byteIndex n = false := by
    simp only [unsafeStringPanics, decide_eq_false_iff_not]; omega
  have hadd : iadd r.byteIndex n = r.byteIndex + n := by
    unfold iadd; exact wrapI_small _ (by omega) (by omega)
  simp only [hne, decide_false, Bool.false_eq_true, if_false, hs, hc, hp, hadd]
  refine ⟨{ r with byteIndex := r.byteIndex + n }, rfl, rfl, ?_, ?_⟩
  · simp only [rest, List.drop_drop]
    congr 1; omega
  · simp only [RInv]; omega

/-! ### Uint64 / Int64: delta of delta -/

def u64Enc (c : Dod) (w : BytesWriter) (l : SizeLim) : Uint64Encoder := ⟨w, l, c.lastVal, c.lastDelta⟩
def u64Dec (c : Dod) (r : BytesReader) : Uint64Decoder := ⟨r, c.lastVal, c.lastDelta⟩

theorem u64Enc_surj (e : Uint64Encoder) : e = u64Enc ⟨e.lastVal, e.lastDelta⟩ e.buf e.limiter := rfl
theorem u64Dec_surj (d : Uint64Decoder) : d = u64Dec ⟨d.lastVal, d.lastDelta⟩ d.buf := rfl

theorem u64_encode_eq (c : Dod) (w : BytesWriter) (l : SizeLim) (v : Word)
    (hlen : w.buf.length + (c.encode v).2.length < 2 ^ 63) :
    (u64Enc c w l).encode v =
      some (u64Enc (c.encode v).1 (wAppend w (c.encode v).2) (l.addFrameBytes (c.encode v).2.length)) := by
  have hb := frame_bytes w.buf.length (c.encode v).2.length hlen
  simp only [Dod.encode] at hb hlen ⊢
  simp only [Uint64Encoder.encode, u64Enc, writeVarint_eq, Option.bind_some, BytesWriter.bytes, wAppend, lenBytes,
    List.length_append, limAddFrameBytes]
  rw [hb]

theorem u64_encoder_reset_eq (e : Uint64Encoder) : e.reset = some (u64Enc {} e.buf e.limiter) := rfl

theorem u64_isEqual_eq (c : Dod) (w : BytesWriter) (l : SizeLim) (v : Word) :
    (u64Enc c w l).isEqual v = (c.lastVal == v) := rfl

theorem u64_decode_none (c : Dod) (r : BytesReader) (dst : Word) (h : RInv r) (hd : c.decode (rest r) = none) :
    (u64Dec c r).decode dst = some (u64Dec c r, dst, errEOF) := by
  have hv : Varint.decodeSigned (rest r) = none := by
    unfold Dod.decode at hd; split at hd <;> simp_all
  simp [Uint64Decoder.decode, u64Dec, readVarint_none r h hv]

theorem u64_decode_some (c c' : Dod) (r : BytesReader) (dst v : Word) (rs : Bytes) (h : RInv r)
    (hd : c.decode (rest r) = some (c', v, rs)) :
    ∃ r', (u64Dec c r).decode dst = some (u64Dec c' r', v, none) ∧ r'.buf = r.buf ∧ rest r' = rs ∧ RInv r' := by
  unfold Dod.decode at hd
  split at hd
  · cases hd
  · rename_i x rs' hv
    simp only [Option.some.injEq, Prod.mk.injEq] at hd
    obtain ⟨r', e1, e2, e3, e4⟩ := readVarint_some r h x rs' hv
    refine ⟨r', ?_, e2, by rw [e3]; exact hd.2.2, e4⟩
    simp only [Uint64Decoder.decode, u64Dec, e1, Option.bind_some, isErr, Option.isSome_none, Bool.false_eq_true, if_false]
    rw [← hd.1, ← hd.2.1]

theorem u64_decoder_reset_eq (d : Uint64Decoder) : d.reset = some (u64Dec {} d.buf) := rfl

theorem i64_encode_eq (c : Dod) (w : BytesWriter) (l : SizeLim) (v : Word)
    (hlen : w.buf.length + (c.encode v).2.length < 2 ^ 63) :
    (Int64Encoder.mk (u64Enc c w l)).encode v =
      some ⟨u64Enc (c.encode v).1 (wAppend w (c.encode v).2) (l.addFrameBytes (c.encode v).2.length)⟩ := by
  simp only [Int64Encoder.encode, u64_encode_eq c w l v hlen, Option.bind_some]

theorem i64_isEqual_eq (c : Dod) (w : BytesWriter) (l : SizeLim) (v : Word) :
    (Int64Encoder.mk (u64Enc c w l)).isEqual v = (c.lastVal == v) := rfl

/-- `Int64Decoder.Decode` (a copy of the uint64 body over the promoted fields) is `Uint64Decoder.Decode`. -/
theorem i64_decode_eq (d : Uint64Decoder) (dst : Word) :
    (Int64Decoder.mk d).decode dst = (d.decode dst).map (fun p => (Int64Decoder.mk p.1, p.2)) := by
  simp only [Int64Decoder.decode, Uint64Decoder.decode]
  cases BytesReader.readVarint d.buf with
  | none => rfl
  | some p =>
    simp only [Option.bind_some]
    split <;> rfl

/-! ### Bool -/

theorem bool_encode_eq (w : BitsWriter) (l : SizeLim) (b : Bool) :
    (BoolEncoder.mk w l).encode b = some ⟨boolEncodeW w b, l.addFrameBits 1⟩ := by
  cases b <;> rfl

theorem bool_decode_eq (r : BitsReader) (dst : Bool) :
    (BoolDecoder.mk r).decode dst = some (⟨(boolDecodeR r).1⟩, (boolDecodeR r).2, readerErr (boolDecodeR r).1) := by
  simp only [BoolDecoder.decode, boolDecodeR, readBit]
  by_cases hb : (r.readBit).2 = 0#64 <;> simp [hb]

/-! ### String -/

theorem i64OfInt_len (v : Bytes) : i64OfInt (lenBytes v) = BitVec.ofNat 64 v.length := by
  simp [i64OfInt, lenBytes, BitVec.ofInt_natCast]

theorem str_encode_eq (w : BytesWriter) (l : SizeLim) (v : Bytes)
    (hlen : w.buf.length + (strEncode v).length < 2 ^ 63) :
    (StringEncoder.mk w l).encode v = some ⟨wAppend w (strEncode v), l.addFrameBytes (strEncode v).length⟩ := by
  have hb := frame_bytes w.buf.length (strEncode v).length hlen
  simp only [strEncode] at hb hlen ⊢
  simp only [StringEncoder.encode, writeVarint_eq, writeStringBytes_eq, Option.bind_some, BytesWriter.bytes,
    wAppend, i64OfInt_len, List.append_assoc, limAddFrameBytes]
  simp only [lenBytes, List.length_append] at hb ⊢
  rw [hb]

theorem sle_zero (x : Word) : i64le 0#64 x = !x.msb := by
  simp only [i64le, BitVec.sle, BitVec.toInt_eq_msb_cond]
  cases x.msb <;> simp <;> omega

theorem toInt_of_not_msb (x : Word) (h : x.msb = false) : intOfI64 x = x.toNat := by
  simp [intOfI64, BitVec.toInt_eq_msb_cond, h]

/-- `StringDecoder.Decode` against `strDecode` on the unread bytes. -/
theorem str_decode_eq (r : BytesReader) (dst : Bytes) (h : RInv r) :
    match strDecode (rest r) with
    | .error e => ∃ r' dst', (StringDecoder.mk r).decode dst = some (⟨r'⟩, dst', some e) ∧ r'.buf = r.buf ∧ RInv r'
    | .ok (v, rs) => ∃ r', (StringDecoder.mk r).decode dst = some (⟨r'⟩, v, none) ∧ r'.buf = r.buf ∧
        rest r' = rs ∧ RInv r' := by
  cases hv : Varint.decodeSigned (rest r) with
  | none =>
    simp only [strDecode, hv]
    exact ⟨r, dst, by simp [StringDecoder.decode, readVarint_none r h hv], rfl, h⟩
  | some p =>
    obtain ⟨x, rs⟩ := p
    simp only [strDecode, hv]
    obtain ⟨r1, e1, e2, e3, e4⟩ := readVarint_some r h x rs hv
    by_cases hm : x.msb = true
    · simp only [hm, if_true]
      exact ⟨r1, dst, by simp [StringDecoder.decode, e1, sle_zero, hm], e2, e4⟩
    · have hm' : x.msb = false := by simpa using hm
      simp only [hm', Bool.false_eq_true, if_false]
      have hi := toInt_of_not_msb x hm'
      by_cases h0 : x.toNat = 0
      · simp only [h0, if_true]
        refine ⟨r1, ?_, e2, e3, e4⟩
        simp only [StringDecoder.decode, e1, Option.bind_some, sle_zero, hm', hi, h0]
        rfl
      · simp only [h0, if_false]
        by_cases hl : rs.length < x.toNat
        · simp only [hl, if_true]
          refine ⟨r1, [], ?_, e2, e4⟩
          have := readStringMapped_eof r1 e4 (x.toNat : Int) (by omega) (Or.inr (by rw [e3]; omega))
          simp [StringDecoder.decode, e1, sle_zero, hm', hi, this]
        · simp only [hl, if_false]
          obtain ⟨r2, f1, f2, f3, f4⟩ := readStringMapped_ok r1 e4 (x.toNat : Int) (by omega) (by rw [e3]; omega)
          refine ⟨r2, ?_, by rw [f2, e2], by rw [f3, e3]; rfl, f4⟩
          simp only [StringDecoder.decode, e1, Option.bind_some, sle_zero, hm', hi, f1, e3]
          rfl

/-! ### String dictionary: the Go map against the list of the hand model -/

/-- the Go map `value ↦ refNum` that corresponds to the hand model's list (refNum = position). -/
def mapOfFrom (k : Nat) : WDict → StrIntMap
  | [] => []
  | v :: d => (v, (k : Int)) :: mapOfFrom (k + 1) d

def mapOf (d : WDict) : StrIntMap := mapOfFrom 0 d

theorem mapOfFrom_length (d : WDict) : ∀ k, (mapOfFrom k d).length = d.length := by
  induction d with
  | nil => intro k; rfl
  | cons a d ih => intro k; simp [mapOfFrom, ih]

theorem mapOfFrom_append (d : WDict) (v : Bytes) :
    ∀ k, mapOfFrom k (d ++ [v]) = mapOfFrom k d ++ [(v, ((k + d.length : Nat) : Int))] := by
  induction d with
  | nil => intro k; simp [mapOfFrom]
  | cons a d ih =>
    intro k
    simp only [List.cons_append, mapOfFrom, ih, List.length_cons]
    congr 4; omega

theorem mapLookup_mapOfFrom (d : WDict) (v : Bytes) : ∀ k,
    mapLookup (mapOfFrom k d) v =
      match WDict.find d v with
      | some i => (((k + i : Nat) : Int), true)
      | none => ((0 : Int), false) := by
  induction d with
  | nil => intro k; simp [mapOfFrom, mapLookup, WDict.find]
  | cons a d ih =>
    intro k
    have ih' := ih (k + 1)
    simp only [WDict.find] at ih' ⊢
    simp only [mapOfFrom, mapLookup, List.find?_cons, List.findIdx?_cons] at ih' ⊢
    by_cases ha : a = v
    · simp [ha]
    · have hb : (a == v) = false := by simpa using ha
      simp only [hb, ha, decide_false, Bool.false_eq_true, if_false]
      rw [ih']
      cases List.findIdx? (fun x => decide (x = v)) d with
      | none => rfl
      | some i => simp only [Option.map_some]; congr 2; omega

theorem any_mapOfFrom (d : WDict) (v : Bytes) : ∀ k, WDict.find d v = none →
    (mapOfFrom k d).any (fun p => p.1 == v) = false := by
  induction d with
  | nil => intro k _; rfl
  | cons a d ih =>
    intro k h
    simp only [WDict.find, List.findIdx?_cons] at h
    by_cases ha : a = v
    · simp [ha] at h
    · have hb : (a == v) = false := by simpa using ha
      simp only [ha, decide_false, Bool.false_eq_true, if_false, Option.map_eq_none_iff] at h
      simp only [mapOfFrom, List.any_cons, hb, Bool.false_or]
      exact ih (k + 1) h

theorem mapSet_mapOf (d : WDict) (v : Bytes) (h : WDict.find d v = none) :
    mapSet (mapOf d) v (lenMap (mapOf d)) = mapOf (d ++ [v]) := by
  simp only [mapSet, mapOf, any_mapOfFrom d v 0 h, Bool.false_eq_true, if_false, mapOfFrom_append, lenMap,
    mapOfFrom_length, Nat.zero_add]

theorem ref_enc (i : Nat) : i64OfInt (isub (ineg (i : Int)) 1) = 0#64 - BitVec.ofNat 64 i - 1#64 := by
  simp only [i64OfInt, isub, ineg, ofInt_wrapI, Int.sub_eq_add_neg, BitVec.ofInt_add, BitVec.ofInt_neg,
    BitVec.ofInt_natCast, BitVec.ofInt_ofNat]
  bv_omega

def sdEnc (d : WDict) (w : BytesWriter) (dl l : SizeLim) : StringDictEncoder := ⟨w, ⟨mapOf d, dl⟩, l⟩
def sdDec (d : List Bytes) (r : BytesReader) : StringDictDecoder := ⟨r, ⟨d⟩⟩

/-- `StringDictEncoder.Encode` is `strDictEncode`: the dictionary, the bytes appended, the frame bytes accounted
    (to the dictionary's limiter for a reference, to the encoder's for a new string) and the dictionary size
    accounted on admission. -/
theorem sd_encode_eq (d : WDict) (w : BytesWriter) (dl l : SizeLim) (v : Bytes)
    (hlen : w.buf.length + (strDictEncode d v).2.1.length < 2 ^ 63) :
    (sdEnc d w dl l).encode v = some (
      match WDict.find d v with
      | some _ => sdEnc (strDictEncode d v).1 (wAppend w (strDictEncode d v).2.1)
          (dl.addFrameBytes (strDictEncode d v).2.1.length) l
      | none => sdEnc (strDictEncode d v).1 (wAppend w (strDictEncode d v).2.1)
          (if v.length > 1 then dl.addDictElemSize (strDictEncode d v).2.2 else dl)
          (l.addFrameBytes (strDictEncode d v).2.1.length)) := by
  have hb := frame_bytes w.buf.length (strDictEncode d v).2.1.length hlen
  have hlk : mapLookup (mapOf d) v = _ := mapLookup_mapOfFrom d v 0
  unfold strDictEncode at hb hlen ⊢
  cases hf : WDict.find d v with
  | some i =>
    simp only [hf] at hb hlen hlk ⊢
    simp only [StringDictEncoder.encode, sdEnc, hlk, Nat.zero_add, if_true, ref_enc, writeVarint_eq,
      Option.bind_some, BytesWriter.bytes, wAppend, limAddFrameBytes]
    simp only [lenBytes, List.length_append] at hb ⊢
    rw [hb]
  | none =>
    simp only [hf] at hb hlen hlk ⊢
    have hvl : v.length < 2 ^ 63 := by
      have : (strEncode v).length ≥ v.length := by simp [strEncode]
      split at hlen <;> simp only [] at hlen <;> omega
    have hsz : ((BitVec.ofNat 64 v.length + sizeofString : Word)).toNat = v.length + 16 := by
      simp only [sizeofString, BitVec.toNat_add, BitVec.toNat_ofNat]
      omega
    by_cases hl : v.length > 1
    · have hl' : (lenBytes v > 1) := by simp only [lenBytes]; omega
      simp only [hl, if_true] at hb hlen ⊢
      simp only [StringDictEncoder.encode, sdEnc, hlk, Bool.false_eq_true, if_false, hl', decide_true,
        if_true, writeVarint_eq, writeStringBytes_eq, Option.bind_some, BytesWriter.bytes, wAppend]
      simp only [mapSet_mapOf d v hf, i64OfInt_len, limAddDictElemSize, hsz, limAddFrameBytes,
        List.append_assoc, strEncode] at hb ⊢
      simp only [lenBytes, List.length_append] at hb ⊢
      rw [hb]
    · have hl' : ¬ (lenBytes v > 1) := by simp only [lenBytes]; omega
      simp only [hl, if_false] at hb hlen ⊢
      simp only [StringDictEncoder.encode, sdEnc, hlk, Bool.false_eq_true, if_false, hl', decide_false,
        writeVarint_eq, writeStringBytes_eq, Option.bind_some, BytesWriter.bytes, wAppend]
      simp only [i64OfInt_len, limAddFrameBytes, List.append_assoc, strEncode] at hb ⊢
      simp only [lenBytes, List.length_append] at hb ⊢
      rw [hb]

theorem sd_encoder_reset_eq (e : StringDictEncoder) : e.reset = some e := rfl
theorem sd_encoderDict_reset_eq (e : StringDictEncoderDict) : e.reset = some ⟨mapOf [], e.limiter⟩ := rfl
theorem sd_decoder_reset_eq (d : StringDictDecoder) : d.reset = some d := rfl
theorem sd_decoderDict_reset_eq (d : StringDictDecoderDict) : d.reset = some ⟨[]⟩ := rfl

theorem ref_dec (x : Word) (hm : x.msb = true) :
    intOfI64 ((0#64 - x) - 1#64) = ((0#64 - x - 1#64).toNat : Int) := by
  apply toInt_of_not_msb
  have hx : 2 ^ 63 ≤ x.toNat := by
    have := BitVec.msb_eq_decide x
    simp only [hm, Nat.reduceSub] at this
    simpa using this.symm
  rw [BitVec.msb_eq_decide]
  simp only [Nat.reduceSub, decide_eq_false_iff_not, Nat.not_le]
  bv_omega

/-- `StringDictDecoder.Decode` against `strDictDecode` on the unread bytes. -/
theorem sd_decode_eq (d : List Bytes) (r : BytesReader) (dst : Bytes) (h : RInv r) :
    match strDictDecode d (rest r) with
    | .error e => ∃ r' dst', (sdDec d r).decode dst = some (sdDec d r', dst', some e) ∧ r'.buf = r.buf ∧ RInv r'
    | .ok (d', v, rs) => ∃ r', (sdDec d r).decode dst = some (sdDec d' r', v, none) ∧ r'.buf = r.buf ∧
        rest r' = rs ∧ RInv r' := by
  cases hv : Varint.decodeSigned (rest r) with
  | none =>
    simp only [strDictDecode, hv]
    exact ⟨r, dst, by simp [StringDictDecoder.decode, sdDec, readVarint_none r h hv], rfl, h⟩
  | some p =>
    obtain ⟨x, rs⟩ := p
    simp only [strDictDecode, hv]
    obtain ⟨r1, e1, e2, e3, e4⟩ := readVarint_some r h x rs hv
    by_cases hm : x.msb = true
    · simp only [hm, if_true]
      have hr := ref_dec x hm
      have hdec : ∀ y : Word, y = 0#64 - x - 1#64 → (StringDictDecoder.decode (sdDec d r) dst =
          if decide (intOfI64 y ≥ lenStrs d) then some (sdDec d r1, dst, errInvalidRefNum)
          else if strsIndexPanics d (intOfI64 y) then none else some (sdDec d r1, strsIndex d (intOfI64 y), none)) := by
        intro y hy
        simp only [StringDictDecoder.decode, sdDec, e1, Option.bind_some, isErr, Option.isSome_none,
          Bool.false_eq_true, if_false, sle_zero, hm, Bool.not_true, ← hy]
      generalize hy : (0#64 - x - 1#64) = y at hr
      rw [hdec y hy.symm, hr]
      cases hg : d[y.toNat]? with
      | none =>
        simp only []
        have hge : d.length ≤ y.toNat := by simpa using hg
        refine ⟨r1, dst, ?_, e2, e4⟩
        have : ((y.toNat : Int) ≥ lenStrs d) := by simp only [lenStrs]; omega
        simp only [this, decide_true, if_true]
      | some v =>
        simp only []
        have hlt : y.toNat < d.length := by
          have := (List.getElem?_eq_some_iff.mp hg).1; exact this
        refine ⟨r1, ?_, e2, e3, e4⟩
        have h1 : ¬ ((y.toNat : Int) ≥ lenStrs d) := by simp only [lenStrs]; omega
        have h2 : strsIndexPanics d (y.toNat : Int) = false := by
          simp only [strsIndexPanics, decide_eq_false_iff_not]; omega
        have h3 : strsIndex d (y.toNat : Int) = v := by
          simp [strsIndex, List.getD, hg]
        simp only [h1, decide_false, Bool.false_eq_true, if_false, h2, h3]
    · have hm' : x.msb = false := by simpa using hm
      simp only [hm', Bool.false_eq_true, if_false]
      have hi := toInt_of_not_msb x hm'
      by_cases h0 : x.toNat = 0
      · simp only [h0, if_true]
        refine ⟨r1, ?_, e2, e3, e4⟩
        simp only [StringDictDecoder.decode, sdDec, e1, Option.bind_some, sle_zero, hm', hi, h0]
        rfl
      · simp only [h0, if_false]
        by_cases hl : rs.length < x.toNat
        · simp only [hl, if_true]
          refine ⟨r1, [], ?_, e2, e4⟩
          have := readStringMapped_eof r1 e4 (x.toNat : Int) (by omega) (Or.inr (by rw [e3]; omega))
          simp [StringDictDecoder.decode, sdDec, e1, sle_zero, hm', hi, this]
        · simp only [hl, if_false]
          obtain ⟨r2, f1, f2, f3, f4⟩ := readStringMapped_ok r1 e4 (x.toNat : Int) (by omega) (by rw [e3]; omega)
          refine ⟨r2, ?_, by rw [f2, e2], by rw [f3, e3]; rfl, f4⟩
          by_cases h1 : x.toNat > 1
          · have h1' : ((x.toNat : Int) > 1) := by omega
            simp [StringDictDecoder.decode, sdDec, e1, sle_zero, hm', hi, f1, e3, h1, h1']
          · have h1' : ¬ ((x.toNat : Int) > 1) := by omega
            simp [StringDictDecoder.decode, sdDec, e1, sle_zero, hm', hi, f1, e3, h1, h1']

/-! ### whole columns -/

theorem addFrameBytes_add (l : SizeLim) (a b : Nat) :
    Limiter.SizeLimiter.addFrameBytes (Limiter.SizeLimiter.addFrameBytes l a) b = Limiter.SizeLimiter.addFrameBytes l (a + b) := by
  simp only [Limiter.SizeLimiter.addFrameBytes, Limiter.SizeLimiter.addFrameBits]
  congr 1; omega

theorem addFrameBytes_zero (l : SizeLim) : Limiter.SizeLimiter.addFrameBytes l 0 = l := by
  simp [Limiter.SizeLimiter.addFrameBytes, Limiter.SizeLimiter.addFrameBits]

theorem wAppend_nil (w : BytesWriter) : wAppend w [] = w := by simp [wAppend]

/-- `Encode` of every value of a list, in order (`none` as soon as a call panics). -/
def u64EncodeAll (e : Uint64Encoder) : List Word → Option Uint64Encoder
  | [] => some e
  | v :: vs => (e.encode v).bind (fun e1 => u64EncodeAll e1 vs)

/-- `n` calls of `Decode`; `none` when a call panics or returns an error. -/
def u64DecodeAll (d : Uint64Decoder) : Nat → Option (Uint64Decoder × List Word)
  | 0 => some (d, [])
  | n + 1 =>
    match d.decode 0#64 with
    | some (d1, v, none) => (u64DecodeAll d1 n).map (fun q => (q.1, v :: q.2))
    | _ => none

theorem u64_encodeAll_eq (vs : List Word) : ∀ (c : Dod) (w : BytesWriter) (l : SizeLim),
    w.buf.length + (Dod.encodeAll c vs).2.length < 2 ^ 63 →
    u64EncodeAll (u64Enc c w l) vs =
      some (u64Enc (Dod.encodeAll c vs).1 (wAppend w (Dod.encodeAll c vs).2)
        (Limiter.SizeLimiter.addFrameBytes l (Dod.encodeAll c vs).2.length)) := by
  induction vs with
  | nil => intro c w l _; simp [u64EncodeAll, Dod.encodeAll, wAppend_nil, addFrameBytes_zero]
  | cons v vs ih =>
    intro c w l hlen
    simp only [Dod.encodeAll, List.length_append] at hlen ⊢
    have h1 : w.buf.length + (c.encode v).2.length < 2 ^ 63 := by omega
    have h2 : (wAppend w (c.encode v).2).buf.length + (Dod.encodeAll (c.encode v).1 vs).2.length < 2 ^ 63 := by
      simp only [wAppend, List.length_append]; omega
    simp only [u64EncodeAll, u64_encode_eq c w l v h1, Option.bind_some, ih _ _ _ h2, wAppend_wAppend,
      addFrameBytes_add]

theorem u64_decodeAll_eq (n : Nat) : ∀ (c c' : Dod) (r : BytesReader) (vs : List Word) (rs : Bytes), RInv r →
    Dod.decodeAll c n (rest r) = some (c', vs, rs) →
    ∃ r', u64DecodeAll (u64Dec c r) n = some (u64Dec c' r', vs) ∧ r'.buf = r.buf ∧ rest r' = rs ∧ RInv r' := by
  induction n with
  | zero =>
    intro c c' r vs rs h hd
    simp only [Dod.decodeAll, Option.some.injEq, Prod.mk.injEq] at hd
    obtain ⟨rfl, rfl, rfl⟩ := hd
    exact ⟨r, rfl, rfl, rfl, h⟩
  | succ n ih =>
    intro c c' r vs rs h hd
    simp only [Dod.decodeAll] at hd
    cases h1 : c.decode (rest r) with
    | none => simp [h1] at hd
    | some p =>
      obtain ⟨c1, v, rs1⟩ := p
      simp only [h1] at hd
      cases h2 : Dod.decodeAll c1 n rs1 with
      | none => simp [h2] at hd
      | some q =>
        obtain ⟨c2, vs2, rs2⟩ := q
        simp only [h2, Option.some.injEq, Prod.mk.injEq] at hd
        obtain ⟨rfl, rfl, rfl⟩ := hd
        obtain ⟨r1, e1, e2, e3, e4⟩ := u64_decode_some c c1 r 0#64 v rs1 h h1
        obtain ⟨r2, f1, f2, f3, f4⟩ := ih c1 c2 r1 vs2 rs2 e4 (by rw [e3]; exact h2)
        exact ⟨r2, by simp [u64DecodeAll, e1, f1], by rw [f2, e2], f3, f4⟩

/-! ### concrete values (for the non-vacuity examples of Props/C20IntGen) -/

theorem encodeSigned_one : Varint.encodeSigned 1#64 = [2#8] := by
  have h : Varint.zigzag 1#64 = 2#64 := by decide
  simp only [Varint.encodeSigned, h, Varint.encode]
  exact Varint.encodeNat_lt 2 (by omega)

theorem encodeSigned_minus_one : Varint.encodeSigned (0#64 - BitVec.ofNat 64 0 - 1#64) = [1#8] := by
  have h : Varint.zigzag (0#64 - BitVec.ofNat 64 0 - 1#64) = 1#64 := by decide
  simp only [Varint.encodeSigned, h, Varint.encode]
  exact Varint.encodeNat_lt 1 (by omega)

theorem dod_one : (Dod.encodeAll {} [1#64]).2 = [2#8] := by
  have h : (1#64 - 0#64 - 0#64 : Word) = 1#64 := by decide
  simp [Dod.encodeAll, Dod.encode, h, encodeSigned_one]

theorem strEncode_a : strEncode [0x61#8] = [2#8, 0x61#8] := by
  simp [strEncode, encodeSigned_one]

theorem strDictEncode_ref : (strDictEncode [[0x61#8, 0x62#8]] [0x61#8, 0x62#8]).2.1 = [1#8] := by
  have h : WDict.find [[0x61#8, 0x62#8]] [0x61#8, 0x62#8] = some 0 := by decide
  simp only [strDictEncode, h, encodeSigned_minus_one]

end Stef.Proofs.IntCodecGen
