/-
  Names of an accepted schema are identifiers produced by the lexer: non-empty, first character
  a letter (in particular never `[`).
-/
import Stef.Proofs.IdlWF
import Stef.Proofs.IdlPos
import Stef.Proofs.IdlNoPanic

namespace Stef.Idl

/-- identifier shape: non-empty and starting with a letter. -/
def IsIdentName (n : Name) : Prop := ∃ c r, n = c :: r ∧ isLetter c = true

theorem IsIdentName.ne_nil {n : Name} (h : IsIdentName n) : n ≠ [] := by
  obtain ⟨c, r, rfl, _⟩ := h; simp

theorem IsIdentName.head_ne_bracket {n : Name} (h : IsIdentName n) : n.head? ≠ some '[' := by
  obtain ⟨c, r, rfl, hc⟩ := h
  simp only [List.head?_cons, ne_eq, Option.some.injEq]
  intro hcb; subst hcb
  revert hc; decide

/-! ### lexer: every identifier token is identifier-shaped -/

theorem readIdentChars_head : ∀ (f : Nat) (s : LexSt) (acc : List Char) (c0 : Char) (r0 : List Char),
    acc.reverse = c0 :: r0 → ∃ r, (readIdentChars f s acc).1 = c0 :: r
  | 0, s, acc, c0, r0, h => ⟨r0, by simp [readIdentChars, h]⟩
  | f + 1, s, acc, c0, r0, h => by
    unfold readIdentChars
    split
    · simp only
      split
      · exact ⟨r0 ++ [s.next], by simp [h]⟩
      · exact readIdentChars_head f _ _ c0 (r0 ++ [s.next]) (by simp [h])
    · exact ⟨r0, by simp [h]⟩

theorem readIdentChars_first (f : Nat) (s : LexSt) (hl : isLetter s.next = true) :
    ∃ r, (readIdentChars (f + 1) s []).1 = s.next :: r := by
  unfold readIdentChars
  have : isIdentChar s.next = true := by simp [isIdentChar, hl]
  simp only [this, ↓reduceIte]
  split
  · exact ⟨[], by simp⟩
  · exact readIdentChars_head f _ _ s.next [] (by simp)

theorem nextTok_ident {s : LexSt} {n : Name} (h : (nextTok s).1.tok = .ident n) : IsIdentName n := by
  unfold nextTok at h
  simp only at h
  split at h
  · simp at h
  · split at h
    · simp at h
    · split at h
      · rename_i hl
        obtain ⟨r, hr⟩ := readIdentChars_first (skipWs (s.rest.length + 1) s).rest.length _ hl
        split at h
        · simp at h
        · simp only [Tok.ident.injEq] at h
          rw [← h, hr]
          exact ⟨_, r, rfl, hl⟩
      · split at h
        · split at h <;> simp at h
        · simp at h

def TsIdent (ts : List Token) : Prop := ∀ t ∈ ts, ∀ n, t.tok = .ident n → IsIdentName n

theorem lexLoop_ident : ∀ (f : Nat) (s : LexSt), TsIdent (lexLoop f s)
  | 0, s => by intro t ht n hn; simp [lexLoop] at ht; subst ht; simp at hn
  | f + 1, s => by
    intro t ht n hn
    unfold lexLoop at ht
    simp only at ht
    split at ht
    · simp at ht; subst ht; exact nextTok_ident hn
    · simp at ht
      rcases ht with rfl | ht
      · exact nextTok_ident hn
      · exact lexLoop_ident f _ t ht n hn

theorem lex_ident (input : List Char) : TsIdent (lex input) := lexLoop_ident _ _

/-- the token predicate: identifier tokens are identifier-shaped. -/
def PIdent (t : Token) : Prop := ∀ n, t.tok = .ident n → IsIdentName n

theorem lex_tsOk (input : List Char) : TsOk PIdent (lex input) :=
  ⟨by intro n hn; simp [dfltTok] at hn, lex_ident input⟩

/-! ### parser: definition names come from identifier tokens -/

def NamesOk (σ : Schema) : Prop := ∀ n ∈ σ.defNames, IsIdentName n

theorem namesOk_addStruct {σ : Schema} (h : NamesOk σ) (s : Struct) (hs : IsIdentName s.name) :
    NamesOk { σ with structs := σ.structs ++ [s] } := by
  intro n hn
  simp only [Schema.defNames, List.map_append, List.map_cons, List.map_nil, List.mem_append,
    List.mem_singleton] at hn
  rcases hn with (hn | rfl) | hn
  · exact h n (by simp [Schema.defNames, hn])
  · exact hs
  · exact h n (by simp [Schema.defNames, hn])

theorem namesOk_addMultimap {σ : Schema} (h : NamesOk σ) (m : Multimap) (hs : IsIdentName m.name) :
    NamesOk { σ with multimaps := σ.multimaps ++ [m] } := by
  intro n hn
  simp only [Schema.defNames, List.map_append, List.map_cons, List.map_nil, List.mem_append,
    List.mem_singleton] at hn
  rcases hn with hn | hn | rfl
  · exact h n (by simp [Schema.defNames, hn])
  · exact h n (by simp [Schema.defNames, hn])
  · exact hs

theorem parseStruct_names {σ σ' : Schema} {ts ts' : List Token} {o : Bool} (ht : TsOk PIdent ts)
    (hg : NamesOk σ) (h : parseStruct o σ ts = .ok σ' ts') : NamesOk σ' := by
  unfold parseStruct at h
  simp only at h
  repeat' (split at h)
  all_goals first
    | (cases h; done)
    | skip
  rename_i _ sname hname _ _ _ _ _ _ _ _ _ _ _ _ _ _ _ _ _ _ _
  cases h
  exact namesOk_addStruct hg _ (cur_P (adv_ok ht) sname hname)

theorem parseMultimap_names {σ σ' : Schema} {ts ts' : List Token} (ht : TsOk PIdent ts)
    (hg : NamesOk σ) (h : parseMultimap σ ts = .ok σ' ts') : NamesOk σ' := by
  unfold parseMultimap at h
  simp only at h
  repeat' (split at h)
  all_goals first
    | (cases h; done)
    | skip
  rename_i _ mname hname _ _ _ _ _ _ _ _ _ _ _ _ _ _ _ _ _ _ _ _ _ _ _ _ _
  cases h
  exact namesOk_addMultimap hg _ (cur_P (adv_ok ht) mname hname)

theorem parseEnum_names {σ σ' : Schema} {ts ts' : List Token}
    (hg : NamesOk σ) (h : parseEnum σ ts = .ok σ' ts') : NamesOk σ' := by
  unfold parseEnum at h
  simp only at h
  repeat' (split at h)
  all_goals first
    | (cases h; done)
    | skip
  cases h
  exact hg

theorem parseDefs_names : ∀ (f : Nat) (σ σ' : Schema) (ts ts' : List Token), TsOk PIdent ts →
    NamesOk σ → parseDefs f σ ts = .ok σ' ts' → NamesOk σ'
  | 0, σ, σ', ts, ts', _, _, h => by simp [parseDefs] at h
  | f + 1, σ, σ', ts, ts', ht, hg, h => by
    unfold parseDefs at h
    simp only at h
    split at h
    · cases h
    · rename_i σ1 ts1 h1
      have hboth : NamesOk σ1 ∧ TsOk PIdent ts1 := by
        split at h1
        · exact ⟨parseStruct_names ht hg h1, (parseStruct_good _ _ ht).ok_of h1⟩
        · exact ⟨parseStruct_names ht hg h1, (parseStruct_good _ _ ht).ok_of h1⟩
        · exact ⟨parseMultimap_names ht hg h1, (parseMultimap_good _ ht).ok_of h1⟩
        · exact ⟨parseEnum_names hg h1, (parseEnum_good _ ht).ok_of h1⟩
        · cases h1
      split at h
      · cases h; exact hboth.1
      · exact parseDefs_names f _ _ _ _ hboth.2 hboth.1 h

theorem grammar_names {σ : Schema} {ts ts' : List Token} (ht : TsOk PIdent ts)
    (h : grammar ts = .ok σ ts') : NamesOk σ := by
  unfold grammar at h
  have hp := parsePackage_good ht
  split at h
  · cases h
  · rename_i pkg ts1 h1
    split at h
    · cases h; intro n hn; simp [Schema.defNames] at hn
    · exact parseDefs_names _ _ _ _ _ (hp.ok_of h1) (by intro n hn; simp [Schema.defNames] at hn) h

theorem SameNames.defNames {σ σ' : Schema} (h : SameNames σ σ') : σ'.defNames = σ.defNames := by
  simp [Schema.defNames, h.1, h.2.1]

theorem resolveRefs_sameNames {σ σ1 : Schema} (hg : GInv σ) (h : resolveRefs σ = .ok σ1) :
    SameNames σ σ1 := by
  unfold resolveRefs at h
  split at h
  · cases h
  · rename_i ss hss
    split at h
    · cases h
    · rename_i ms hms
      cases h
      exact ⟨(resolveStructs_inv hg.top _ _
          (fun s hs ty hty => hg.raw ty (mem_allTypes.2 (Or.inl ⟨s, hs, hty⟩))) hss).1,
        (resolveMultimaps_inv hg.top _ _
          (fun m hm ty hty => hg.raw ty (mem_allTypes.2 (Or.inr ⟨m, hm, hty⟩))) hms).1, rfl⟩

/-- definition names of an accepted schema are identifiers. -/
theorem parseTokens_names {ts : List Token} {σ : Schema} (ht : TsOk PIdent ts)
    (h : parseTokens ts = .ok σ) : NamesOk σ := by
  unfold parseTokens at h
  split at h
  · cases h
  · rename_i σ0 ts0 hg
    split at h
    · cases h
    · rename_i σ1 hres
      split at h
      · cases h
      · rename_i σ2 hcr
        split at h
        · cases h
        · rename_i σ3 hp
          cases h
          have h0 := grammar_names ht hg
          have h1 : NamesOk σ1 := by
            intro n hn; rw [(resolveRefs_sameNames (grammar_inv hg) hres).defNames] at hn; exact h0 n hn
          have h2 : NamesOk σ2 := by
            unfold computeRecursive at hcr
            split at hcr
            · cases hcr
            · cases hcr
              intro n hn; rw [(applyMarks_sameNames σ1 _).defNames] at hn; exact h1 n hn
          unfold pruneUnused at hp
          split at hp
          · cases hp
          · cases hp
            intro n hn
            apply h2 n
            simp only [Schema.defNames, List.mem_append, List.mem_map, List.mem_filter] at hn ⊢
            rcases hn with ⟨x, ⟨hx, _⟩, rfl⟩ | ⟨x, ⟨hx, _⟩, rfl⟩
            · exact Or.inl ⟨x, hx, rfl⟩
            · exact Or.inr ⟨x, hx, rfl⟩

theorem parse_names {t : List Char} {σ : Schema} (h : parse t = .ok σ) : NamesOk σ :=
  parseTokens_names (lex_tsOk t) h


/-! ### the grammar phase leaves no field without a type (since commit a64277c) -/

theorem typeOfTok_nonempty {t : Tok} {b : BaseType} (h : typeOfTok t = some b)
    (hid : ∀ n, t = .ident n → IsIdentName n) : b.isEmpty = false := by
  unfold typeOfTok at h
  split at h <;> simp at h <;> subst h
  · rename_i n
    obtain ⟨c, r, rfl, _⟩ := hid n rfl
    simp [BaseType.isEmpty]
  all_goals simp [BaseType.isEmpty]

theorem parseFieldType_nonempty {ts ts' : List Token} {ty : FType} (ht : TsOk PIdent ts)
    (h : parseFieldType ts = .ok ty ts') : ty.inner.isEmpty = false := by
  unfold parseFieldType at h
  simp only at h
  have hr : (if (cur ts).tok = .punct '[' then eat (.punct ']') (adv ts) else PR.ok () ts).Good PIdent := by
    split
    · exact eat_good _ (adv_ok ht)
    · exact ht
  split at h
  · cases h
  · rename_i u ts1 h1
    have k1 := hr.ok_of h1
    split at h
    · split at h <;> cases h
    · rename_i ft hft
      have hne := typeOfTok_nonempty hft (cur_P k1)
      split at h
      · split at h
        · cases h
        · split at h
          · cases h
          · split at h <;> cases h <;> simpa [FType.inner, BaseType.isEmpty] using hne
      · split at h <;> cases h <;> simpa [FType.inner] using hne

theorem parseMultimapField_nonempty {ts ts' : List Token} {ty : FType} (ht : TsOk PIdent ts)
    (h : parseMultimapField ts = .ok ty ts') : ty.inner.isEmpty = false := by
  unfold parseMultimapField at h
  split at h
  · cases h
  · rename_i ty0 ts0 h0
    have hne := parseFieldType_nonempty ht h0
    split at h
    · split at h
      · cases h
      · cases h
        cases ty0 <;> simpa [FType.setDict, FType.inner, BaseType.isEmpty] using hne
    · cases h; exact hne

theorem parseStructFields_nonempty : ∀ (f : Nat) (fs : List Field) (ts : List Token)
    (fs' : List Field) (ts' : List Token), TsOk PIdent ts → parseStructFields f fs ts = .ok fs' ts' →
    (∀ x ∈ fs, x.ty.inner.isEmpty = false) → ∀ x ∈ fs', x.ty.inner.isEmpty = false
  | 0, fs, ts, fs', ts', _, h, _ => by simp [parseStructFields] at h
  | f + 1, fs, ts, fs', ts', ht, h, hr => by
    unfold parseStructFields at h
    split at h
    · split at h
      · cases h
      · split at h
        · cases h
        · rename_i ty ts1 hty
          simp only at h
          have k1 := (parseFieldType_good (adv_ok ht)).ok_of hty
          refine parseStructFields_nonempty f _ _ _ _ (skipOptionals_ok _ _ k1) h ?_
          intro x hx
          simp only [List.mem_append, List.mem_singleton] at hx
          rcases hx with hx | hx
          · exact hr x hx
          · subst hx; exact parseFieldType_nonempty (adv_ok ht) hty
    · cases h; exact hr

theorem noEmpty_addStruct {σ : Schema} (h : σ.NoEmptyType) (s : Struct)
    (hs : ∀ ty ∈ s.types, ty.inner.isEmpty = false) :
    Schema.NoEmptyType { σ with structs := σ.structs ++ [s] } := by
  intro ty hty
  rw [mem_allTypes] at hty
  rcases hty with ⟨x, hx, hty⟩ | ⟨m, hm, hty⟩
  · simp only [List.mem_append, List.mem_singleton] at hx
    rcases hx with hx | hx
    · exact h ty (mem_allTypes.2 (Or.inl ⟨x, hx, hty⟩))
    · subst hx; exact hs ty hty
  · exact h ty (mem_allTypes.2 (Or.inr ⟨m, hm, hty⟩))

theorem noEmpty_addMultimap {σ : Schema} (h : σ.NoEmptyType) (m : Multimap)
    (hs : ∀ ty ∈ m.types, ty.inner.isEmpty = false) :
    Schema.NoEmptyType { σ with multimaps := σ.multimaps ++ [m] } := by
  intro ty hty
  rw [mem_allTypes] at hty
  rcases hty with ⟨x, hx, hty⟩ | ⟨x, hx, hty⟩
  · exact h ty (mem_allTypes.2 (Or.inl ⟨x, hx, hty⟩))
  · simp only [List.mem_append, List.mem_singleton] at hx
    rcases hx with hx | hx
    · exact h ty (mem_allTypes.2 (Or.inr ⟨x, hx, hty⟩))
    · subst hx; exact hs ty hty

theorem parseStruct_noEmpty {σ σ' : Schema} {ts ts' : List Token} {o : Bool} (ht : TsOk PIdent ts)
    (hg : σ.NoEmptyType) (h : parseStruct o σ ts = .ok σ' ts') : σ'.NoEmptyType := by
  have hP := parseStruct_good (P := PIdent) o σ ht
  unfold parseStruct at h
  simp only at h
  repeat' (split at h)
  all_goals first
    | (cases h; done)
    | skip
  rename_i _ sname _ hfresh mods dict isRoot ts1 hmods _ _ ts2 heat _ fs _ hfs hroot _ _ _ _
  cases h
  -- the token stream at the point where the fields are parsed is still fine
  have k1 : TsOk PIdent ts1 := by
    have haa := adv_ok (adv_ok ht)
    split at hmods
    · split at hmods
      · cases hmods
      · have hd := parseDictModifier_good haa
        split at hmods
        · cases hmods
        · rename_i d ts3 h3
          cases hmods
          exact hd.ok_of h3
    · split at hmods
      · cases hmods
      · cases hmods; exact adv_ok haa
    · cases hmods; exact haa
  have k2 : TsOk PIdent ts2 := (eat_good _ k1).ok_of heat
  refine noEmpty_addStruct hg _ ?_
  intro ty hty
  simp only [Struct.types, List.mem_map] at hty
  obtain ⟨x, hx, rfl⟩ := hty
  exact parseStructFields_nonempty _ _ _ _ _ k2 hfs (by simp) x hx

theorem parseMultimap_noEmpty {σ σ' : Schema} {ts ts' : List Token} (ht : TsOk PIdent ts)
    (hg : σ.NoEmptyType) (h : parseMultimap σ ts = .ok σ' ts') : σ'.NoEmptyType := by
  unfold parseMultimap at h
  simp only at h
  repeat' (split at h)
  all_goals first
    | (cases h; done)
    | skip
  rename_i _ mname _ hfresh _ _ ts1 h1 _ _ ts2 h2 _ kt ts3 hk _ _ ts4 h4 _ vt _ hv _ _ _ _
  cases h
  have k1 : TsOk PIdent ts1 := (eat_good _ (adv_ok (adv_ok ht))).ok_of h1
  have k2 : TsOk PIdent ts2 := (eat_good _ k1).ok_of h2
  have k3 : TsOk PIdent ts3 := (parseMultimapField_good k2).ok_of hk
  have k4 : TsOk PIdent ts4 := (eat_good _ k3).ok_of h4
  refine noEmpty_addMultimap hg _ ?_
  intro ty hty
  simp only [Multimap.types, List.mem_cons, List.mem_nil_iff, or_false] at hty
  rcases hty with rfl | rfl
  · exact parseMultimapField_nonempty k2 hk
  · exact parseMultimapField_nonempty k4 hv

theorem parseEnum_noEmpty {σ σ' : Schema} {ts ts' : List Token}
    (hg : σ.NoEmptyType) (h : parseEnum σ ts = .ok σ' ts') : σ'.NoEmptyType := by
  unfold parseEnum at h
  simp only at h
  repeat' (split at h)
  all_goals first
    | (cases h; done)
    | skip
  cases h
  intro ty hty
  rw [mem_allTypes] at hty
  exact hg ty (mem_allTypes.2 hty)

theorem parseDefs_noEmpty : ∀ (f : Nat) (σ σ' : Schema) (ts ts' : List Token), TsOk PIdent ts →
    σ.NoEmptyType → parseDefs f σ ts = .ok σ' ts' → σ'.NoEmptyType
  | 0, σ, σ', ts, ts', _, _, h => by simp [parseDefs] at h
  | f + 1, σ, σ', ts, ts', ht, hg, h => by
    unfold parseDefs at h
    simp only at h
    split at h
    · cases h
    · rename_i σ1 ts1 h1
      have hboth : σ1.NoEmptyType ∧ TsOk PIdent ts1 := by
        split at h1
        · exact ⟨parseStruct_noEmpty ht hg h1, (parseStruct_good _ _ ht).ok_of h1⟩
        · exact ⟨parseStruct_noEmpty ht hg h1, (parseStruct_good _ _ ht).ok_of h1⟩
        · exact ⟨parseMultimap_noEmpty ht hg h1, (parseMultimap_good _ ht).ok_of h1⟩
        · exact ⟨parseEnum_noEmpty hg h1, (parseEnum_good _ ht).ok_of h1⟩
        · cases h1
      split at h
      · cases h; exact hboth.1
      · exact parseDefs_noEmpty f _ _ _ _ hboth.2 hboth.1 h

/-- every field, key and value the grammar phase accepts has a type. -/
theorem grammar_noEmpty {σ : Schema} {ts ts' : List Token} (ht : TsOk PIdent ts)
    (h : grammar ts = .ok σ ts') : σ.NoEmptyType := by
  unfold grammar at h
  have hp := parsePackage_good ht
  split at h
  · cases h
  · rename_i pkg ts1 h1
    split at h
    · cases h; intro ty hty; simp [Schema.allTypes] at hty
    · exact parseDefs_noEmpty _ _ _ _ _ (hp.ok_of h1) (by intro ty hty; simp [Schema.allTypes] at hty) h

/-- `idl.Parse` never panics (and the model's traversal fuel is never exhausted). -/
theorem parse_never_panics (t : List Char) (site : PanicSite) : parse t ≠ .panic site :=
  parseTokens_no_panic (fun _ _ hg => grammar_noEmpty (lex_tsOk t) hg) site

end Stef.Idl
