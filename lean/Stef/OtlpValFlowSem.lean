/-
  Stef.OtlpValFlowSem: the (hand-written) target vocabulary of the `OtlpValFlow` generator of
  /verif/extract (extract/otlpvalflow.go). The generator translates the Go statements of
  go/pdata/internal/otlptools/{compare,otlpval2tef,tef2otlpval}.go one by one into `do` blocks of
  the monad `M` below (Stef/Gen/OtlpValFlow.lean); nothing here says WHAT those functions do.
  Core Lean only.

  * A Go function body is a computation `M σ ρ ρ`: `σ` = the objects it reaches through its
    pointer parameters (`Unit` for the comparison functions, which only read), `ρ` = its result
    type. A statement goes on (`next`), returns (`ret`), panics or runs out of fuel (the
    recursive functions are defined on a fuel argument; Go has no such outcome).
  * A Go pointer into the state is a `Ptr σ τ` (partial getter + setter); `p.Method()` that returns
    the address of a part of `*p` composes pointers (`Ptr.comp`), a method that writes through its
    receiver is `upd p f`, a call of a translated function with a pointer argument is `focus p m`.
  * Go `int` is `Int` (unbounded), `int64` / `float64` are `Nat`s holding the 64-bit pattern,
    `uint32` / `uint64` are `Nat`s, strings and byte slices are `Str` (as in Stef/Otlp/Value.lean).
  * pcommon.Value / Map / Slice that are only READ are the trees `AnyValue` / `KVs` / `Values` of
    Stef/Otlp/Value.lean, read through pdata's accessor names (`valType` = `Type()`, `valStr`
    = `Str()`, ..; an accessor of another kind than the value's returns the zero value, as pdata's
    getters do). A pcommon.Value that is WRITTEN (the `into` of tefAnyValueToOtlp) is a `Ptr σ AnyValue`.
  * otelstef.AnyValue / AnyValueArray / KeyValueList / Attributes that are WRITTEN are pointers to
    `SVal` / `SArr` / `SAttrs` (backing store + visible length, Stef/Otlp/Value.lean); the
    generated setters they offer are the primitives of Stef/Otlp/Value.lean (`SVal.setScalar`,
    `setFloat`, `setTypeArray`, `arrEnsureLen`, ..). Those that are only READ are plain values.
-/
import Stef.Otlp.Traces

namespace Stef.OtlpValFlowSem
open Stef.Otlp

/-! ### the monad -/

inductive Out (σ ρ α : Type) where
  | next (a : α) (s : σ)        -- the statement is done, control goes on
  | ret (r : ρ) (s : σ)         -- `return r`
  | panic (msg : String)
  | outOfFuel
  deriving DecidableEq

structure M (σ ρ α : Type) where
  run : σ → Out σ ρ α

def M.pure {σ ρ α : Type} (a : α) : M σ ρ α := ⟨fun s => .next a s⟩

def M.bind {σ ρ α β : Type} (m : M σ ρ α) (f : α → M σ ρ β) : M σ ρ β := ⟨fun s =>
  match m.run s with
  | .next a s' => (f a).run s'
  | .ret r s' => .ret r s'
  | .panic msg => .panic msg
  | .outOfFuel => .outOfFuel⟩

instance {σ ρ : Type} : Monad (M σ ρ) where
  pure := M.pure
  bind := M.bind

/-- `return r` -/
def ret {σ ρ α : Type} (r : ρ) : M σ ρ α := ⟨fun s => .ret r s⟩

/-- `panic(msg)` (also: index out of range, nil dereference) -/
def goPanic {σ ρ α : Type} (msg : String) : M σ ρ α := ⟨fun _ => .panic msg⟩

/-- the fuel of a recursive function is used up -/
def outOfFuel {σ ρ α : Type} : M σ ρ α := ⟨fun _ => .outOfFuel⟩

/-- what a complete function body amounts to: falling off the end of a function without result
    is a return. -/
def fin {σ ρ : Type} : Out σ ρ ρ → Out σ ρ ρ
  | .next a s => .ret a s
  | o => o

/-- a call of a translated function on the same state: its `return` is the value of the call. -/
def call {σ ρ ρ' : Type} (f : M σ ρ' ρ') : M σ ρ ρ' := ⟨fun s =>
  match f.run s with
  | .next a s' => .next a s'
  | .ret a s' => .next a s'
  | .panic msg => .panic msg
  | .outOfFuel => .outOfFuel⟩

/-- `k` more rounds of a counting loop that is at `i`. -/
def forFrom {σ ρ : Type} (k : Nat) (i : Int) (body : Int → M σ ρ Unit) (s : σ) : Out σ ρ Unit :=
  match k with
  | 0 => .next () s
  | k + 1 =>
    match (body i).run s with
    | .next _ s' => forFrom k (i + 1) body s'
    | .ret r s' => .ret r s'
    | .panic msg => .panic msg
    | .outOfFuel => .outOfFuel

/-- `for i := 0; i < n; i++ { body }` / `for i := range xs` (n = len(xs)) where `n` does not
    change during the loop and the body does not assign `i` (checked by the generator). -/
def forLt {σ ρ : Type} (n : Int) (body : Int → M σ ρ Unit) : M σ ρ Unit := ⟨forFrom n.toNat 0 body⟩

/-- `m.Range(func(k string, v pcommon.Value) bool { body; return true })`: the entries in the
    order pdata stores them; `acc` = the locals of the enclosing function that the closure assigns. -/
def forRangeRun {σ ρ β : Type} (body : Str → AnyValue → β → M σ ρ β) : KVs → β → σ → Out σ ρ β
  | .nil, acc, s => .next acc s
  | .cons k v t, acc, s =>
    match (body k v acc).run s with
    | .next acc' s' => forRangeRun body t acc' s'
    | .ret r s' => .ret r s'
    | .panic msg => .panic msg
    | .outOfFuel => .outOfFuel

def forRange {σ ρ β : Type} (m : KVs) (acc : β) (body : Str → AnyValue → β → M σ ρ β) : M σ ρ β :=
  ⟨forRangeRun body m acc⟩

/-! ### pointers -/

structure Ptr (σ τ : Type) where
  get : σ → Option τ
  set : σ → τ → σ

/-- a pointer parameter that is the whole state -/
def Ptr.here {σ : Type} : Ptr σ σ := ⟨some, fun _ t => t⟩

def Ptr.comp {σ τ υ : Type} (p : Ptr σ τ) (q : Ptr τ υ) : Ptr σ υ :=
  ⟨fun s => (p.get s).bind q.get,
   fun s u => match p.get s with
     | some t => p.set s (q.set t u)
     | none => s⟩

/-- read the pointee (panics on a dangling pointer: index out of range at the time of use) -/
def rd {σ ρ τ : Type} (p : Ptr σ τ) : M σ ρ τ := ⟨fun s =>
  match p.get s with
  | some t => .next t s
  | none => .panic "invalid pointer"⟩

/-- a method that writes through its pointer receiver (`none` = the method panics) -/
def upd {σ ρ τ : Type} (p : Ptr σ τ) (f : τ → Option τ) : M σ ρ Unit := ⟨fun s =>
  match p.get s with
  | some t =>
    match f t with
    | some t' => .next () (p.set s t')
    | none => .panic "method panics"
  | none => .panic "invalid pointer"⟩

/-- a call of a translated function whose state is the pointee of `p`. -/
def focus {σ τ ρ ρ' : Type} (p : Ptr σ τ) (f : M τ ρ' ρ') : M σ ρ ρ' := ⟨fun s =>
  match p.get s with
  | some t =>
    match f.run t with
    | .next a t' => .next a (p.set s t')
    | .ret a t' => .next a (p.set s t')
    | .panic msg => .panic msg
    | .outOfFuel => .outOfFuel
  | none => .panic "invalid pointer"⟩

/-! ### Go values -/

/-- `len(x)` of a slice -/
def len {α : Type} (l : List α) : Int := l.length

/-- `x[i]` (read) -/
def idx {σ ρ α : Type} (l : List α) (i : Int) : M σ ρ α := ⟨fun s =>
  if i < 0 then .panic "index out of range" else
  match l[i.toNat]? with
  | some x => .next x s
  | none => .panic "index out of range"⟩

/-- `x[i] = v` on a slice held in the state -/
def setIdx {α : Type} (i : Int) (v : α) (l : List α) : Option (List α) :=
  if i < 0 then none else if i.toNat < l.length then some (l.set i.toNat v) else none

/-- `<`, `>` on int64 (bit patterns) -/
def i64lt (a b : Nat) : Bool := decide (toInt64 a < toInt64 b)
def i64gt (a b : Nat) : Bool := decide (toInt64 b < toInt64 a)

/-- `cmp.Compare` on an unsigned integer type -/
def cmpCompareNat (a b : Nat) : Int := if a < b then -1 else if b < a then 1 else 0

/-- `cmp.Compare` on int64 -/
def cmpCompareI64 (a b : Nat) : Int := if i64lt a b then -1 else if i64gt a b then 1 else 0

/-- a float64 bit pattern that is a NaN -/
def f64isNaN (b : Nat) : Bool := decide (b % two63 > 0x7ff0000000000000)

/-- IEEE `<` on bit patterns that are not NaN: the total order key, except that -0 = +0 -/
def f64lt (a b : Nat) : Bool :=
  decide (fOrderKey a < fOrderKey b) && !(a % two63 == 0 && b % two63 == 0)

/-- `cmp.Compare` on float64 (NaN is less than every non-NaN and equal to a NaN; -0 equals +0) -/
def cmpCompareF64 (a b : Nat) : Int :=
  if f64isNaN a then (if f64isNaN b then 0 else -1)
  else if f64isNaN b then 1
  else if f64lt a b then -1 else if f64lt b a then 1 else 0

/-- `pkg.EnsureLen(data, n)` on a slice of which only the first `n` elements are used afterwards:
    the elements it had, cut or padded with zero values (what lies between len and cap is whatever
    was stored there before: every element is overwritten before it is read, the generator does
    not check that - the proof does, by holding for every such content). -/
def pkgEnsureLen {α : Type} (zero : α) (n : Int) (l : List α) : Option (List α) :=
  if n < 0 then none else some (l.take n.toNat ++ List.replicate (n.toNat - l.length) zero)

/-- insertion of `x` in front of the first element it is smaller than -/
def insertBy {α : Type} (cmp : α → α → Int) (x : α) : List α → List α
  | [] => [x]
  | y :: t => if cmp x y < 0 then x :: y :: t else y :: insertBy cmp x t

/-- `slices.SortFunc(xs, cmp)`: a sort by insertion from the left. For elements that `cmp` tells
    apart every correct sort gives this order; for equal elements slices.SortFunc promises nothing. -/
def sortFunc {α : Type} (cmp : α → α → Int) (l : List α) : List α :=
  l.foldl (fun acc x => insertBy cmp x acc) []

/-! ### pcommon values that are read -/

def ValueTypeEmpty : Nat := 0
def ValueTypeStr : Nat := 1
def ValueTypeInt : Nat := 2
def ValueTypeDouble : Nat := 3
def ValueTypeBool : Nat := 4
def ValueTypeMap : Nat := 5
def ValueTypeSlice : Nat := 6
def ValueTypeBytes : Nat := 7

/-- `v.Type()` -/
def valType (v : AnyValue) : Nat := pdataTypeTag v

def valStr : AnyValue → Str | .str s => s | _ => []
def valInt : AnyValue → Nat | .int i => i | _ => 0
def valBool : AnyValue → Bool | .bool b => b | _ => false
def valDouble : AnyValue → Nat | .dbl f => f | _ => 0
def valBytes : AnyValue → Str | .bytes b => b | _ => []
def valSlice : AnyValue → Values | .slice vs => vs | _ => .nil
def valMap : AnyValue → KVs | .map kvs => kvs | _ => .nil

def Values.get? : Values → Nat → Option AnyValue
  | .nil, _ => none
  | .cons v _, 0 => some v
  | .cons _ t, n + 1 => Values.get? t n

/-- `s.Len()` -/
def sliceLen (s : Values) : Int := s.length
/-- `m.Len()` -/
def mapLen (m : KVs) : Int := m.length

/-- `s.At(i)` -/
def sliceAt {σ ρ : Type} (s : Values) (i : Int) : M σ ρ AnyValue := ⟨fun st =>
  if i < 0 then .panic "index out of range" else
  match Values.get? s i.toNat with
  | some v => .next v st
  | none => .panic "index out of range"⟩

/-- otlptools.AttrAccessible -/
structure Attr where
  Key : Str
  Value : AnyValue

/-- otlptools.elem -/
structure Elem where
  str : Str
  val : AnyValue

def Elem.zero : Elem := ⟨[], .empty⟩

/-- `Otlp2Stef` -/
structure Otlp2Stef where
  attrElems : List Elem := []

def Otlp2Stef.attrElemsP : Ptr Otlp2Stef (List Elem) := ⟨fun o => some o.attrElems, fun _ l => ⟨l⟩⟩

/-! ### otelstef objects that are written -/

/-- AnyValueArray: backing store and visible length -/
structure SArr where
  store : SVals
  len : Nat

/-- the argument of `SetType` (only these three occur) -/
inductive STy | none | array | kvlist

/-- `s.SetType(t)` -/
def SVal.setType : STy → SVal → SVal
  | .none, v => v.reset
  | .array, v => v.setTypeArray
  | .kvlist, v => v.setTypeKVList

/-- `s.Array()` = `&s.array` -/
def SVal.arrayP : Ptr SVal SArr :=
  ⟨fun | .mk _ a al _ _ => some ⟨a, al⟩, fun | .mk c _ _ k kl, x => .mk c x.store x.len k kl⟩

/-- `s.KVList()` = `&s.kVList` -/
def SVal.kvListP : Ptr SVal SAttrs :=
  ⟨fun | .mk _ _ _ k kl => some ⟨k, kl⟩, fun | .mk c a al _ _, x => .mk c a al x.store x.len⟩

def SVals.get? : SVals → Nat → Option SVal
  | .nil, _ => none
  | .cons v _, 0 => some v
  | .cons _ t, n + 1 => SVals.get? t n

def SVals.set : SVals → Nat → SVal → SVals
  | .nil, _, _ => .nil
  | .cons _ t, 0, x => .cons x t
  | .cons v t, n + 1, x => .cons v (SVals.set t n x)

def SKVs.get? : SKVs → Nat → Option (Str × SVal)
  | .nil, _ => none
  | .cons k v _, 0 => some (k, v)
  | .cons _ _ t, n + 1 => SKVs.get? t n

def SKVs.setVal : SKVs → Nat → SVal → SKVs
  | .nil, _, _ => .nil
  | .cons k _ t, 0, x => .cons k x t
  | .cons k v t, n + 1, x => .cons k v (SKVs.setVal t n x)

def SKVs.setKey : SKVs → Nat → Str → SKVs
  | .nil, _, _ => .nil
  | .cons _ v t, 0, x => .cons x v t
  | .cons k v t, n + 1, x => .cons k v (SKVs.setKey t n x)

/-- `a.EnsureLen(n)` on an AnyValueArray -/
def arrEnsureLenOp (n : Int) (a : SArr) : Option SArr :=
  if n < 0 then none else some ⟨arrEnsureLen a.store a.len n.toNat, n.toNat⟩

/-- `a.At(i)` = `a.elems[i]`: within the visible length -/
def SArr.atP (i : Int) : Ptr SArr SVal :=
  ⟨fun a => if i < 0 then none else if i.toNat < a.len then SVals.get? a.store i.toNat else none,
   fun a x => ⟨SVals.set a.store i.toNat x, a.len⟩⟩

/-- `m.EnsureLen(n)` on a KeyValueList / Attributes -/
def kvEnsureLenOp (n : Int) (a : SAttrs) : Option SAttrs :=
  if n < 0 then none else some ⟨kvEnsureLen a.store a.len n.toNat, n.toNat⟩

/-- `m.SetKey(i, k)` -/
def kvSetKeyOp (i : Int) (k : Str) (a : SAttrs) : Option SAttrs :=
  if i < 0 then none else if i.toNat < a.len ∧ i.toNat < a.store.length then some ⟨SKVs.setKey a.store i.toNat k, a.len⟩ else none

/-- `m.Value(i)` = `&m.elems[i].value` -/
def SAttrs.valueP (i : Int) : Ptr SAttrs SVal :=
  ⟨fun a => if i < 0 then none else if i.toNat < a.len then (SKVs.get? a.store i.toNat).map (·.2) else none,
   fun a x => ⟨SKVs.setVal a.store i.toNat x, a.len⟩⟩

/-- the state of `MapSorted` / `MapUnsorted`: the receiver `o` and the destination `out` -/
structure MapSt where
  o : Otlp2Stef
  out : SAttrs

def MapSt.oP : Ptr MapSt Otlp2Stef := ⟨fun s => some s.o, fun s x => { s with o := x }⟩
def MapSt.outP : Ptr MapSt SAttrs := ⟨fun s => some s.out, fun s x => { s with out := x }⟩

/-! ### otelstef objects that are read -/

/-- otelstef.AnyValueType -/
def AnyValueTypeNone : Nat := 0
def AnyValueTypeString : Nat := 1
def AnyValueTypeBool : Nat := 2
def AnyValueTypeInt64 : Nat := 3
def AnyValueTypeFloat64 : Nat := 4
def AnyValueTypeArray : Nat := 5
def AnyValueTypeKVList : Nat := 6
def AnyValueTypeBytes : Nat := 7

/-- `s.Type()` -/
def svType : SVal → Nat
  | .mk .none _ _ _ _ => 0 | .mk (.str _) _ _ _ _ => 1 | .mk (.bool _) _ _ _ _ => 2 | .mk (.int _) _ _ _ _ => 3
  | .mk (.dbl _) _ _ _ _ => 4 | .mk .array _ _ _ _ => 5 | .mk .kvlist _ _ _ _ => 6 | .mk (.bytes _) _ _ _ _ => 7

def svString : SVal → Str | .mk (.str s) _ _ _ _ => s | _ => []
def svBool : SVal → Bool | .mk (.bool b) _ _ _ _ => b | _ => false
def svInt64 : SVal → Nat | .mk (.int i) _ _ _ _ => i | _ => 0
def svFloat64 : SVal → Nat | .mk (.dbl f) _ _ _ _ => f | _ => 0
def svBytes : SVal → Str | .mk (.bytes b) _ _ _ _ => b | _ => []
/-- `s.Array()` of a value that is read -/
def svArray : SVal → SArr | .mk _ a al _ _ => ⟨a, al⟩
/-- `s.KVList()` of a value that is read -/
def svKVList : SVal → SAttrs | .mk _ _ _ k kl => ⟨k, kl⟩

def sarrLen (a : SArr) : Int := a.len
def sattrsLen (a : SAttrs) : Int := a.len

/-- `a.At(i)` read -/
def sarrAt {σ ρ : Type} (a : SArr) (i : Int) : M σ ρ SVal := ⟨fun st =>
  match SArr.atP i |>.get a with
  | some v => .next v st
  | none => .panic "index out of range"⟩

/-- `m.Key(i)` -/
def sattrsKey {σ ρ : Type} (a : SAttrs) (i : Int) : M σ ρ Str := ⟨fun st =>
  if i < 0 then .panic "index out of range" else if i.toNat < a.len then
    match SKVs.get? a.store i.toNat with
    | some kv => .next kv.1 st
    | none => .panic "index out of range"
  else .panic "index out of range"⟩

/-- `m.Value(i)` read -/
def sattrsValue {σ ρ : Type} (a : SAttrs) (i : Int) : M σ ρ SVal := ⟨fun st =>
  match SAttrs.valueP i |>.get a with
  | some v => .next v st
  | none => .panic "index out of range"⟩

/-! ### pcommon values that are written -/

def Values.set : Values → Nat → AnyValue → Values
  | .nil, _, _ => .nil
  | .cons _ t, 0, x => .cons x t
  | .cons v t, n + 1, x => .cons v (Values.set t n x)

def Values.snoc : Values → AnyValue → Values
  | .nil, x => .cons x .nil
  | .cons v t, x => .cons v (Values.snoc t x)

def KVs.getVal? : KVs → Nat → Option AnyValue
  | .nil, _ => none
  | .cons _ v _, 0 => some v
  | .cons _ _ t, n + 1 => KVs.getVal? t n

def KVs.setVal : KVs → Nat → AnyValue → KVs
  | .nil, _, _ => .nil
  | .cons k _ t, 0, x => .cons k x t
  | .cons k v t, n + 1, x => .cons k v (KVs.setVal t n x)

/-- index of the first entry with key `k` -/
def KVs.find (k : Str) : KVs → Option Nat
  | .nil => none
  | .cons k' _ t => if k' == k then some 0 else (KVs.find k t).map (· + 1)

/-- the pcommon.Slice inside a value (a value of another kind has none) -/
def valSliceP : Ptr AnyValue Values :=
  ⟨fun | .slice vs => some vs | _ => none, fun _ vs => .slice vs⟩

def valMapP : Ptr AnyValue KVs :=
  ⟨fun | .map kvs => some kvs | _ => none, fun _ kvs => .map kvs⟩

def valBytesP : Ptr AnyValue Str :=
  ⟨fun | .bytes b => some b | _ => none, fun _ b => .bytes b⟩

def Values.atP (n : Nat) : Ptr Values AnyValue := ⟨fun vs => Values.get? vs n, fun vs x => Values.set vs n x⟩
def KVs.atP (n : Nat) : Ptr KVs AnyValue := ⟨fun m => KVs.getVal? m n, fun m x => KVs.setVal m n x⟩

/-- `into.SetStr(s)`, `SetInt`, `SetBool`, `SetDouble`: the value becomes `v` -/
def setVal {σ ρ : Type} (p : Ptr σ AnyValue) (v : AnyValue) : M σ ρ Unit := upd p (fun _ => some v)

/-- `into.SetEmptySlice()`: the value becomes an empty slice; the result is that slice -/
def setEmptySlice {σ ρ : Type} (p : Ptr σ AnyValue) : M σ ρ (Ptr σ Values) := do
  upd p (fun _ => some (.slice .nil))
  Pure.pure (p.comp valSliceP)

def setEmptyMap {σ ρ : Type} (p : Ptr σ AnyValue) : M σ ρ (Ptr σ KVs) := do
  upd p (fun _ => some (.map .nil))
  Pure.pure (p.comp valMapP)

def setEmptyBytes {σ ρ : Type} (p : Ptr σ AnyValue) : M σ ρ (Ptr σ Str) := do
  upd p (fun _ => some (.bytes []))
  Pure.pure (p.comp valBytesP)

/-- `b.Append(xs...)` on a pcommon.ByteSlice -/
def bytesAppend {σ ρ : Type} (p : Ptr σ Str) (xs : Str) : M σ ρ Unit := upd p (fun b => some (b ++ xs))

/-- `s.AppendEmpty()`: a new empty value at the end; the result is that element -/
def sliceAppendEmpty {σ ρ : Type} (p : Ptr σ Values) : M σ ρ (Ptr σ AnyValue) := do
  let vs ← rd p
  upd p (fun vs => some (Values.snoc vs .empty))
  Pure.pure (p.comp (Values.atP vs.length))

/-- `m.PutEmpty(k)`: the value of the first entry with key `k` is made empty, or a new entry with an
    empty value is appended; the result is that value -/
def mapPutEmpty {σ ρ : Type} (p : Ptr σ KVs) (k : Str) : M σ ρ (Ptr σ AnyValue) := do
  let m ← rd p
  upd p (fun m => some (KVs.put k .empty m))
  Pure.pure (p.comp (KVs.atP ((KVs.find k m).getD m.length)))

/-- `m.EnsureCapacity(n)`: no visible effect -/
def mapEnsureCapacity {σ ρ : Type} (_p : Ptr σ KVs) (_n : Int) : M σ ρ Unit := Pure.pure ()

/-- `error`: `none` = nil, `some name` = the value of the package-level `var name = errors.New(..)` -/
abbrev Err := Option String

/-! ### ptrace objects that are read (Stef/Otlp/Traces.lean) -/

/-- `rs.Resource()` -/
structure PResource where
  attrs : KVs
  dropped : Nat

/-- `ss.Scope()` -/
structure PScope where
  name : Str
  ver : Str
  attrs : KVs
  dropped : Nat

def rsResource (x : ResourceSpans) : PResource := ⟨x.attrs, x.dropped⟩
def ssScope (x : ScopeSpans) : PScope := ⟨x.name, x.ver, x.attrs, x.dropped⟩

end Stef.OtlpValFlowSem
