/-
  Stef.Codec: transcription of go/pkg/codecs/{uint64,int64,float64,bool,string,stringdict}.go
  over the register-level `BitsWriter`/`BitsReader` models and byte buffers, plus the
  specification-level bit strings each encoder is supposed to append.
-/
import Stef.BitStream
import Stef.Varint
import Stef.Gen.Consts

namespace Stef.Codec

/-! ### Uint64 / Int64: delta of delta, zig-zag LEB128 -/

structure Dod where
  lastVal : Word := 0#64
  lastDelta : Word := 0#64
  deriving Repr, DecidableEq

/-- Go: `Uint64Encoder.Encode` (the bytes appended to the column). -/
def Dod.encode (c : Dod) (v : Word) : Dod × Bytes :=
  let delta := v - c.lastVal
  let dod := delta - c.lastDelta
  ({ lastVal := v, lastDelta := delta }, Varint.encodeSigned dod)

/-- Go: `Uint64Decoder.Decode` on the remaining column bytes. -/
def Dod.decode (c : Dod) (buf : Bytes) : Option (Dod × Word × Bytes) :=
  match Varint.decodeSigned buf with
  | none => none
  | some (dod, rest) =>
    let delta := c.lastDelta + dod
    let v := c.lastVal + delta
    some ({ lastVal := v, lastDelta := delta }, v, rest)

/-! ### Float64 (Gorilla style) -/

structure F64 where
  last : Word := 0#64
  lead : Nat := 0
  trail : Nat := 0
  deriving Repr, DecidableEq

/-- count of trailing zeros as Go's `bits.TrailingZeros64` (64 for 0). -/
def tz (x : Word) : Nat := x.ctz.toNat
def lz (x : Word) : Nat := x.clz.toNat

/-- Go: `Float64Encoder.Encode` on the register-level writer. Returns the new codec state,
    the writer and the number of bits accounted in the limiter. -/
def F64.encodeW (c : F64) (w : BitsWriter) (v : Word) : F64 × BitsWriter × Nat :=
  let x := v ^^^ c.last
  if x = 0#64 then ({ c with last := v }, w.writeBit 0#64, 1)
  else
    let leading := if lz x ≥ 32 then 31 else lz x
    let trailing := tz x
    let sigbits := 64 - leading - trailing
    if leading ≥ c.lead ∧ trailing ≥ c.trail ∧ 53 - (c.lead : Int) - (c.trail : Int) ≤ (sigbits : Int) then
      let w := w.writeBits 0b10#64 2
      let bitCount := 64 - c.lead - c.trail
      let w := w.writeBits (x >>> c.trail) bitCount
      ({ c with last := v }, w, 2 + bitCount)
    else
      let bitsVal : Word := ((0b11#64 <<< 5 ||| BitVec.ofNat 64 leading) <<< 6) ||| BitVec.ofNat 64 (sigbits - 1)
      let w := w.writeBits bitsVal 13
      let w := w.writeBits (x >>> trailing) sigbits
      ({ last := v, lead := leading, trail := trailing }, w, 13 + sigbits)

/-- the same encoder at the level of the specification: the bits appended. -/
def F64.encodeBits (c : F64) (v : Word) : F64 × Bits :=
  let x := v ^^^ c.last
  if x = 0#64 then ({ c with last := v }, [false])
  else
    let leading := if lz x ≥ 32 then 31 else lz x
    let trailing := tz x
    let sigbits := 64 - leading - trailing
    if leading ≥ c.lead ∧ trailing ≥ c.trail ∧ 53 - (c.lead : Int) - (c.trail : Int) ≤ (sigbits : Int) then
      ({ c with last := v }, [true, false] ++ lowBits (x >>> c.trail) (64 - c.lead - c.trail))
    else
      ({ last := v, lead := leading, trail := trailing },
       [true, true] ++ lowBits (BitVec.ofNat 64 leading) 5 ++ lowBits (BitVec.ofNat 64 (sigbits - 1)) 6
         ++ lowBits (x >>> trailing) sigbits)

/-- `x <<< n` evaluated without building a huge shift (hostile headers make the wrapped trailing
    count astronomically large; Go's shift by >= 64 yields 0). Equal to `x <<< n` (`shl_eq`). -/
def shl (x : Word) (n : Nat) : Word := if n < 64 then x <<< n else 0#64

theorem shl_eq (x : Word) (n : Nat) : shl x n = x <<< n := by
  unfold shl
  split
  · rfl
  · rename_i h
    apply BitVec.eq_of_getLsbD_eq
    intro i hi
    simp only [BitVec.getLsbD_zero, BitVec.getLsbD_shiftLeft]
    have : i < n := by omega
    simp [this]

/-- Go: `sigbits = 64 - leading - trailing` in uint64. For a stored (leading, trailing) pair of a valid
    stream this is the plain difference (`sigOf_eq`); after a hostile header whose trailing count
    wrapped, the difference wraps back to the header's significant-bit count. -/
def sigOf (lead trail : Nat) : Nat := (2 ^ 64 + 64 - lead - trail) % 2 ^ 64

theorem sigOf_eq (lead trail : Nat) (h : lead + trail ≤ 64) : sigOf lead trail = 64 - lead - trail := by
  unfold sigOf
  have e : 2 ^ 64 + 64 - lead - trail = 2 ^ 64 + (64 - lead - trail) := by omega
  rw [e, Nat.add_mod, Nat.mod_self, Nat.zero_add, Nat.mod_mod, Nat.mod_eq_of_lt]
  omega

/-- Go: `Float64Decoder.Decode` on the register-level reader. -/
def F64.decodeR (c : F64) (r : BitsReader) : F64 × BitsReader × Word :=
  let (r, hdr) := r.peekBits 13
  if hdr &&& BitVec.ofNat 64 Gen.float64NonIdenticalBit = 0#64 then
    (c, r.consume 1, c.last)
  else
    if hdr &&& BitVec.ofNat 64 Gen.float64NewLeadingTrailingBit = 0#64 then
      let r := r.consume 2
      let sig := sigOf c.lead c.trail
      let (r, x) := r.readBits sig
      let v := (shl x c.trail) ^^^ c.last
      ({ c with last := v }, r, v)
    else
      let r := r.consume 13
      let leading := ((hdr &&& BitVec.ofNat 64 Gen.float64LeadingBitMask) >>> Gen.float64SigBitsCount).toNat
      let sig := (hdr &&& BitVec.ofNat 64 Gen.float64SigBitMask).toNat + 1
      -- Go: trailing = 64 - leading - sigbits in uint64 (wraps when leading+sig > 64, which no
      -- valid stream contains; a wrapped shift count >= 64 yields 0 either way)
      let trailing := if leading + sig ≤ 64 then 64 - leading - sig else 2 ^ 64 + 64 - leading - sig
      let (r, x) := r.readBits sig
      let v := (shl x trailing) ^^^ c.last
      ({ last := v, lead := leading, trail := trailing }, r, v)

/-! ### Bool -/

def boolEncodeW (w : BitsWriter) (b : Bool) : BitsWriter := w.writeBit (if b then 1#64 else 0#64)

def boolDecodeR (r : BitsReader) : BitsReader × Bool :=
  let (r, v) := r.readBit
  (r, v ≠ 0#64)

/-! ### String / bytes, plain and dictionary based -/

/-- Go: `StringEncoder.Encode`. -/
def strEncode (v : Bytes) : Bytes :=
  Varint.encodeSigned (BitVec.ofNat 64 v.length) ++ v

/-- writer dictionary: value ↦ refNum is the position in this list. -/
abbrev WDict := List Bytes

def WDict.find (d : WDict) (v : Bytes) : Option Nat := d.findIdx? (· = v)

/-- Go: `StringDictEncoder.Encode`; returns the new dictionary, the bytes appended and the
    number of bytes accounted to the dictionary limiter (0 if nothing was added). -/
def strDictEncode (d : WDict) (v : Bytes) : WDict × Bytes × Nat :=
  match d.find v with
  | some refNum => (d, Varint.encodeSigned (0#64 - BitVec.ofNat 64 refNum - 1#64), 0)
  | none =>
    if v.length > 1 then (d ++ [v], strEncode v, v.length + 16)
    else (d, strEncode v, 0)

inductive DecErr | eof | invalidRefNum
  deriving Repr, DecidableEq

/-- Go: `StringDecoder.Decode`. -/
def strDecode (buf : Bytes) : Except DecErr (Bytes × Bytes) :=
  match Varint.decodeSigned buf with
  | none => .error .eof
  | some (x, rest) =>
    if x.msb then .error .invalidRefNum
    else
      let n := x.toNat
      if n = 0 then .ok ([], rest)
      else if rest.length < n then .error .eof
      else .ok (rest.take n, rest.drop n)

/-- Go: `StringDictDecoder.Decode`. -/
def strDictDecode (d : List Bytes) (buf : Bytes) : Except DecErr (List Bytes × Bytes × Bytes) :=
  match Varint.decodeSigned buf with
  | none => .error .eof
  | some (x, rest) =>
    if x.msb then
      let refNum := (0#64 - x - 1#64).toNat
      match d[refNum]? with
      | none => .error .invalidRefNum
      | some v => .ok (d, v, rest)
    else
      let n := x.toNat
      if n = 0 then .ok (d, [], rest)
      else if rest.length < n then .error .eof
      else
        let v := rest.take n
        .ok (if n > 1 then d ++ [v] else d, v, rest.drop n)

end Stef.Codec
