/-
  Stef.Idl: the STEF IDL front end of go/pkg/idl (lexer.go, parser.go, utils.go) together with the
  schema post-processing that `idl.Parse` runs (go/pkg/schema/schema.go: ResolveRefs,
  computeRecursive, PruneUnused), transcribed as total functions. Core Lean only.

  `parse : List Char → Outcome` is `idl.Parse`. Outcomes are explicit:
     ok σ | error pos class | panic site
  Every Go `panic(...)`/nil dereference on the path of `Parse` is a `panic` outcome of the model;
  `Stef.Props.C12.parse_no_panic` shows that none of them is reachable (since commit a64277c a
  field without a type is a positioned error; before, it made `computeRecursiveType` panic).

  Scope: ASCII input (every `Char` below 128). `unicode.IsLetter/IsDigit/IsSpace` are modelled
  by their ASCII restrictions; inputs with other runes are exercised on the real code only
  (harness `h_schema`, property oracles) and never sent to the model.

  Termination: the lexer consumes the input list, the parser consumes the token list, the schema
  traversals push a fresh type name per level. Where the recursion is not structural a fuel
  argument is used; it is initialised from the input length / number of definitions and running
  out of it is a distinct, visible result (`ErrClass.outOfFuel`, `PanicSite.outOfFuel`) that the
  theorems in Stef/Proofs/IdlFuel.lean (lexer, parser) and Stef/Proofs/IdlNoPanic.lean (schema
  traversals) show unreachable.

  Go map iteration order: `ResolveRefs`, `computeRecursive`, `PruneUnused` range over Go maps in
  random order. The model iterates in definition order. The observable result does not depend on
  the order: resolution rewrites each field independently and reports the class `unknownType`
  whichever field fails first (the message text, which names the type, is not modelled);
  recursion marks only accumulate; reachability is a set.
-/
import Stef.Schema

namespace Stef.Idl

/-! ## Lexer (lexer.go) -/

structure Pos where
  ofs : Nat
  line : Nat
  col : Nat
  deriving DecidableEq, Repr, Inhabited

inductive Kw
  | package | struct | oneof | multimap | enum | optional | root | dict | key | value
  | bool | int64 | uint64 | float64 | string | bytes
  deriving DecidableEq, Repr, Inhabited

def Kw.name : Kw → Name
  | .package => ['p','a','c','k','a','g','e']
  | .struct => ['s','t','r','u','c','t']
  | .oneof => ['o','n','e','o','f']
  | .multimap => ['m','u','l','t','i','m','a','p']
  | .enum => ['e','n','u','m']
  | .optional => ['o','p','t','i','o','n','a','l']
  | .root => ['r','o','o','t']
  | .dict => ['d','i','c','t']
  | .key => ['k','e','y']
  | .value => ['v','a','l','u','e']
  | .bool => ['b','o','o','l']
  | .int64 => ['i','n','t','6','4']
  | .uint64 => ['u','i','n','t','6','4']
  | .float64 => ['f','l','o','a','t','6','4']
  | .string => ['s','t','r','i','n','g']
  | .bytes => ['b','y','t','e','s']

def Kw.all : List Kw :=
  [.package, .struct, .oneof, .multimap, .enum, .optional, .root, .dict, .key, .value,
   .bool, .int64, .uint64, .float64, .string, .bytes]

/-- `keywords[ident]` -/
def kwOfName (n : Name) : Option Kw := Kw.all.find? (fun k => k.name = n)

/-- Go's `Token` together with the payload the lexer keeps beside it (`ident`, `uintNumber`). -/
inductive Tok
  | error
  | eof
  | kw (k : Kw)
  | ident (s : Name)
  | num (v : Nat)
  | punct (c : Char)      -- one of . = [ ] ( ) { }
  deriving DecidableEq, Repr, Inhabited

structure Token where
  tok : Tok
  pos : Pos               -- `TokenStartPos()` = `prevPos`
  deriving DecidableEq, Repr, Inhabited

def isSpace (c : Char) : Bool :=
  c = ' ' || c = '\t' || c = '\n' || c = '\r' || c.toNat = 11 || c.toNat = 12
def isLetter (c : Char) : Bool :=
  (97 ≤ c.toNat && c.toNat ≤ 122) || (65 ≤ c.toNat && c.toNat ≤ 90)
def isDigit (c : Char) : Bool := 48 ≤ c.toNat && c.toNat ≤ 57
def isPunct (c : Char) : Bool :=
  c = '.' || c = '=' || c = '(' || c = ')' || c = '[' || c = ']' || c = '{' || c = '}'
def isIdentChar (c : Char) : Bool := isLetter c || isDigit c || c = '_'
/-- `isNumberContinuation` -/
def isNumCont (c : Char) : Bool :=
  isDigit c || c = '_' || c = 'b' || c = 'x' || c = 'o' || c = 'B' || c = 'X' || c = 'O'

/-- The lexer's mutable state that matters: unread input, `nextRune`, `isEOF`, `curPos`,
    `prevWasCR`. (`isError` is never set: `bufio.Reader.ReadRune` over a byte buffer does not
    fail, invalid UTF-8 yields U+FFFD.) -/
structure LexSt where
  rest : List Char
  next : Char := Char.ofNat 0
  isEOF : Bool := false
  cur : Pos := ⟨0, 1, 1⟩
  prevWasCR : Bool := false
  deriving DecidableEq, Repr, Inhabited

/-- `readNextRune` -/
def LexSt.adv (s : LexSt) : LexSt :=
  match s.rest with
  | [] => { s with isEOF := true }
  | c :: r =>
    let ofs := s.cur.ofs + 1
    let col := s.cur.col + 1
    if c = '\r' then
      { s with rest := r, next := c, cur := ⟨ofs, s.cur.line + 1, 1⟩, prevWasCR := true }
    else if c = '\n' then
      if s.prevWasCR then
        { s with rest := r, next := c, cur := ⟨ofs, s.cur.line, col⟩, prevWasCR := false }
      else
        { s with rest := r, next := c, cur := ⟨ofs, s.cur.line + 1, 1⟩, prevWasCR := false }
    else
      { s with rest := r, next := c, cur := ⟨ofs, s.cur.line, col⟩, prevWasCR := false }

/-- the `for` loop of `skipComment` (to the end of the line) -/
def skipLine : Nat → LexSt → LexSt
  | 0, s => s
  | n + 1, s =>
    if !s.isEOF && s.next ≠ '\r' && s.next ≠ '\n' then skipLine n s.adv else s

/-- `skipComment`: a `/` not followed by a second `/` only sets `l.token = tError`, which the
    caller `Next` overwrites - a lone `/` is skipped like white space (as written). -/
def skipComment (s : LexSt) : LexSt :=
  let s := s.adv
  if s.isEOF || s.next ≠ '/' then s else skipLine (s.rest.length + 1) s

/-- `skipWhiteSpaceOrComment` -/
def skipWs : Nat → LexSt → LexSt
  | 0, s => s
  | n + 1, s =>
    if s.isEOF then s
    else if isSpace s.next then skipWs n s.adv
    else if s.next = '/' then skipWs n (skipComment s)
    else s

/-- loop of `readIdentOrKeyword`; `acc` is reversed. -/
def readIdentChars : Nat → LexSt → List Char → List Char × LexSt
  | 0, s, acc => (acc.reverse, s)
  | n + 1, s, acc =>
    if isIdentChar s.next then
      let s' := s.adv
      if s'.isEOF then ((s.next :: acc).reverse, s') else readIdentChars n s' (s.next :: acc)
    else (acc.reverse, s)

/-- loop of `readUint64Number`; `acc` is reversed. -/
def readNumChars : Nat → LexSt → List Char → List Char × LexSt
  | 0, s, acc => (acc.reverse, s)
  | n + 1, s, acc =>
    let s' := s.adv
    if s'.isEOF || !isNumCont s'.next then ((s.next :: acc).reverse, s')
    else readNumChars n s' (s.next :: acc)

/-! ### `strconv.ParseUint(s, 0, 64)` on the alphabet `[0-9_bxoBXO]` -/

def lowerNat (c : Char) : Nat := c.toNat ||| 32

/-- digit value of `c` as in the `switch` of ParseUint's loop (underscore handled before). -/
def digitVal (c : Char) : Option Nat :=
  if isDigit c then some (c.toNat - 48)
  else if 97 ≤ lowerNat c && lowerNat c ≤ 122 then some (lowerNat c - 97 + 10)
  else none

def maxU64 : Nat := 18446744073709551615

/-- the digit loop; `none` = syntax or range error. Second component: an underscore was seen. -/
def parseDigits (base : Nat) : List Char → Nat → Bool → Option (Nat × Bool)
  | [], n, u => some (n, u)
  | c :: cs, n, u =>
    if c = '_' then parseDigits base cs n true
    else match digitVal c with
      | none => none
      | some d =>
        if d ≥ base then none
        else if n ≥ maxU64 / base + 1 then none
        else if n * base + d > maxU64 then none
        else parseDigits base cs (n * base + d) u

inductive Saw | start | digit | under | other
  deriving DecidableEq

def underscoreLoop (hex : Bool) : List Char → Saw → Bool
  | [], saw => saw ≠ .under
  | c :: cs, saw =>
    if isDigit c || (hex && 97 ≤ lowerNat c && lowerNat c ≤ 102) then underscoreLoop hex cs .digit
    else if c = '_' then (if saw ≠ .digit then false else underscoreLoop hex cs .under)
    else if saw = .under then false
    else underscoreLoop hex cs .other

/-- `underscoreOK` (the sign case cannot occur: a number token starts with a digit). -/
def underscoreOK (s : List Char) : Bool :=
  match s with
  | c0 :: c1 :: rest =>
    if c0 = '0' && (lowerNat c1 = 98 || lowerNat c1 = 111 || lowerNat c1 = 120) then
      underscoreLoop (lowerNat c1 = 120) rest .digit
    else underscoreLoop false s .start
  | _ => underscoreLoop false s .start

def parseUint (s : List Char) : Option Nat :=
  match s with
  | [] => none
  | c0 :: tl =>
    let (base, digits) :=
      if c0 = '0' then
        match tl with
        | c1 :: c2 :: r =>
          if lowerNat c1 = 98 then (2, c2 :: r)
          else if lowerNat c1 = 111 then (8, c2 :: r)
          else if lowerNat c1 = 120 then (16, c2 :: r)
          else (8, tl)
        | _ => (8, tl)
      else (10, s)
    match parseDigits base digits 0 false with
    | none => none
    | some (n, u) => if u && !underscoreOK s then none else some n

/-- `Lexer.Next`: the token and the state after it. -/
def nextTok (s0 : LexSt) : Token × LexSt :=
  let pos := s0.cur                                -- l.prevPos = l.curPos
  let s := skipWs (s0.rest.length + 1) s0
  if s.isEOF then (⟨.eof, pos⟩, s)
  else if isPunct s.next then (⟨.punct s.next, pos⟩, s.adv)
  else if isLetter s.next then
    let (cs, s') := readIdentChars (s.rest.length + 1) s []
    match kwOfName cs with
    | some k => (⟨.kw k, pos⟩, s')
    | none => (⟨.ident cs, pos⟩, s')
  else if isDigit s.next then
    let (cs, s') := readNumChars (s.rest.length + 1) s []
    match parseUint cs with
    | some v => (⟨.num v, pos⟩, s')
    | none => (⟨.error, pos⟩, s')
  else (⟨.error, pos⟩, s.adv)                      -- invalid character

/-- all tokens up to and including the first EOF token. Out of fuel (cannot happen, see
    `Proofs/IdlFuel.lean`) also ends the list with an EOF token, so the result always ends in EOF. -/
def lexLoop : Nat → LexSt → List Token
  | 0, s => [⟨.eof, s.cur⟩]
  | n + 1, s =>
    let (t, s') := nextTok s
    if t.tok = .eof then [t] else t :: lexLoop n s'

/-- `NewLexer` + repeated `Next`: the token sequence of an input. -/
def lex (input : List Char) : List Token :=
  lexLoop (input.length + 2) (LexSt.adv { rest := input })

/-! ## Parser (parser.go) -/

inductive ErrClass
  | expected (want got : Tok)      -- "expected %s but got %s" (eat)
  | expectedDef                    -- "expected struct, oneof or multimap"
  | structName | multimapName | enumName
  | dupTop (n : Name) | dupField (n : Name)
  | dupEnumField (n : Name)        -- "duplicate enum field name: " (parseEnumField, since ed6fa67)
  | oneofDict | oneofRoot | rootEmpty
  | dictName | arrayType | typeExpected | dictPrim | pkgIdent | enumValue
  | unknownType | ambiguousType    -- from ResolveRefs
  | outOfFuel                      -- model artefact, unreachable
  deriving DecidableEq, Repr, Inhabited

inductive PanicSite
  | unknownType                    -- computeRecursiveType: panic("unknown type")
  | invalidState                   -- markRecursive: panic("invalid state")
  | setRecursiveOnPrimitive        -- FieldType.SetRecursive: panic("cannot set recursive on Primitive")
  | invalidFieldType               -- FieldType.SetRecursive: panic("invalid FieldType")
  | nilDef                         -- nil StructDef/MultimapDef dereference
  | outOfFuel                      -- model artefact, unreachable
  deriving DecidableEq, Repr, Inhabited

/-- parser step result: value and remaining tokens, or a positioned error. -/
inductive PR (α : Type)
  | ok (a : α) (ts : List Token)
  | err (p : Pos) (c : ErrClass)
  deriving Repr

/-- current token (`p.lexer.Token()` with its start position). -/
def cur (ts : List Token) : Token := ts.headD ⟨.eof, ⟨0, 1, 1⟩⟩

/-- `p.lexer.Next()`. The parser calls it only on a non-EOF token; the last token (EOF) stays. -/
def adv : List Token → List Token
  | [] => []
  | [t] => [t]
  | _ :: r => r

/-- `eat` -/
def eat (want : Tok) (ts : List Token) : PR Unit :=
  if (cur ts).tok = want then .ok () (adv ts) else .err (cur ts).pos (.expected want (cur ts).tok)

/-- `parseDictModifier`; the current token is `dict`. -/
def parseDictModifier (ts : List Token) : PR Name :=
  match eat (.punct '(') (adv ts) with
  | .err p c => .err p c
  | .ok _ ts =>
    match (cur ts).tok with
    | .ident n =>
      match eat (.punct ')') (adv ts) with
      | .err p c => .err p c
      | .ok _ ts => .ok n ts
    | _ => .err (cur ts).pos .dictName

/-- the `switch p.lexer.Token()` of `parseFieldType`: the type named by the current token. -/
def typeOfTok : Tok → Option BaseType
  | .ident n => some { struct := n }
  | .kw .bool => some { prim := some .bool }
  | .kw .int64 => some { prim := some .int64 }
  | .kw .uint64 => some { prim := some .uint64 }
  | .kw .float64 => some { prim := some .float64 }
  | .kw .string => some { prim := some .string }
  | .kw .bytes => some { prim := some .bytes }
  | _ => none

def dictAllowed (b : BaseType) : Bool :=
  match b.prim with
  | none => true
  | some .string => true
  | some .bytes => true
  | some _ => false

/-- `parseFieldType`. A missing type (`default:` branch) is an error, with or without `[]`
    (since commit a64277c; before, the non-array case returned nil and left the zero `FieldType`
    in place, which made `computeRecursiveType` panic later). -/
def parseFieldType (ts : List Token) : PR FType :=
  let isArray := (cur ts).tok = .punct '['
  let r := if isArray then eat (.punct ']') (adv ts) else .ok () ts
  match r with
  | .err p c => .err p c
  | .ok _ ts =>
    match typeOfTok (cur ts).tok with
    | none => if isArray then .err (cur ts).pos .arrayType else .err (cur ts).pos .typeExpected
    | some ft =>
      let ts := adv ts
      if (cur ts).tok = .kw .dict then
        if !dictAllowed ft then .err (cur ts).pos .dictPrim
        else match parseDictModifier ts with
          | .err p c => .err p c
          | .ok d ts =>
            if isArray then .ok (.array { ft with dict := d } [] false) ts
            else .ok (.base { ft with dict := d }) ts
      else if isArray then .ok (.array ft [] false) ts
      else .ok (.base ft) ts

/-- `parseStructFieldModifiers`: any number of `optional`. -/
def skipOptionals : List Token → Bool → Bool × List Token
  | t :: r, o => if t.tok = .kw .optional && !r.isEmpty then skipOptionals r true else (o, t :: r)
  | [], o => (o, [])

/-- `parseStructFields` -/
def parseStructFields : Nat → List Field → List Token → PR (List Field)
  | 0, _, ts => .err (cur ts).pos .outOfFuel
  | n + 1, fs, ts =>
    match (cur ts).tok with
    | .ident fname =>
      if fs.any (·.name = fname) then .err (cur ts).pos (.dupField fname)
      else match parseFieldType (adv ts) with
        | .err p c => .err p c
        | .ok ty ts =>
          let (opt, ts) := skipOptionals ts false
          parseStructFields n (fs ++ [{ name := fname, ty := ty, optional := opt }]) ts
    | _ => .ok fs ts

/-- `isTopLevelNameUsed` -/
def Schema.isTopUsed (σ : Schema) (n : Name) : Bool :=
  σ.hasStruct n || σ.hasMultimap n || σ.hasEnum n

/-- `parseStruct` / `parseOneof`; the current token is the keyword. Go registers the struct in
    `p.schema.Structs` before parsing its body; nothing looks it up until the body is complete,
    so the model adds it afterwards. -/
def parseStruct (isOneOf : Bool) (σ : Schema) (ts : List Token) : PR Schema :=
  let ts := adv ts
  match (cur ts).tok with
  | .ident sname =>
    if σ.isTopUsed sname then .err (cur ts).pos (.dupTop sname)
    else
      let ts := adv ts
      -- parseStructModifiers: parseStructModifier always answers ok=false => at most one modifier
      let mods : PR (Name × Bool) :=
        match (cur ts).tok with
        | .kw .dict =>
          if isOneOf then .err (cur ts).pos .oneofDict
          else match parseDictModifier ts with
            | .err p c => .err p c
            | .ok d ts => .ok (d, false) ts
        | .kw .root =>
          if isOneOf then .err (cur ts).pos .oneofRoot else .ok ([], true) (adv ts)
        | _ => .ok ([], false) ts
      match mods with
      | .err p c => .err p c
      | .ok (dict, isRoot) ts =>
        match eat (.punct '{') ts with
        | .err p c => .err p c
        | .ok _ ts =>
          match parseStructFields (ts.length + 1) [] ts with
          | .err p c => .err p c
          | .ok fs ts =>
            if isRoot && fs.isEmpty then .err (cur ts).pos .rootEmpty
            else match eat (.punct '}') ts with
              | .err p c => .err p c
              | .ok _ ts =>
                .ok { σ with structs := σ.structs ++
                  [{ name := sname, oneOf := isOneOf, dict := dict, isRoot := isRoot, fields := fs }] } ts
  | _ => .err (cur ts).pos .structName

/-- `field.Type.DictName = dictName` on the outer `FieldType`. -/
def FType.setDict : FType → Name → FType
  | .base b, d => .base { b with dict := d }
  | .array e _ r, d => .array e d r

/-- `parseMultimapField` -/
def parseMultimapField (ts : List Token) : PR FType :=
  match parseFieldType ts with
  | .err p c => .err p c
  | .ok ty ts =>
    if (cur ts).tok = .kw .dict then
      match parseDictModifier ts with
      | .err p c => .err p c
      | .ok d ts => .ok (ty.setDict d) ts
    else .ok ty ts

/-- `parseMultimap` -/
def parseMultimap (σ : Schema) (ts : List Token) : PR Schema :=
  let ts := adv ts
  match (cur ts).tok with
  | .ident mname =>
    if σ.isTopUsed mname then .err (cur ts).pos (.dupTop mname)
    else
      match eat (.punct '{') (adv ts) with
      | .err p c => .err p c
      | .ok _ ts =>
      match eat (.kw .key) ts with
      | .err p c => .err p c
      | .ok _ ts =>
      match parseMultimapField ts with
      | .err p c => .err p c
      | .ok k ts =>
      match eat (.kw .value) ts with
      | .err p c => .err p c
      | .ok _ ts =>
      match parseMultimapField ts with
      | .err p c => .err p c
      | .ok v ts =>
      match eat (.punct '}') ts with
      | .err p c => .err p c
      | .ok _ ts =>
        .ok { σ with multimaps := σ.multimaps ++ [{ name := mname, key := k, value := v }] } ts
  | _ => .err (cur ts).pos .multimapName

/-- `parseEnumFields` / `parseEnumField`. A member name that the enum already declares is an
    error positioned at the repeated identifier (since commit ed6fa67; before, there was no
    check and the enum was accepted with the name twice). Go appends the new `EnumField` before
    it parses `= value`; every failure after that point discards the schema, so the model
    appends once the value is known. -/
def parseEnumFields : Nat → List EnumField → List Token → PR (List EnumField)
  | 0, _, ts => .err (cur ts).pos .outOfFuel
  | n + 1, fs, ts =>
    match (cur ts).tok with
    | .ident fname =>
      if fs.any (·.name = fname) then .err (cur ts).pos (.dupEnumField fname)
      else match eat (.punct '=') (adv ts) with
        | .err p c => .err p c
        | .ok _ ts =>
          match (cur ts).tok with
          | .num v => parseEnumFields n (fs ++ [{ name := fname, value := v }]) (adv ts)
          | _ => .err (cur ts).pos .enumValue
    | _ => .ok fs ts

/-- `parseEnum` -/
def parseEnum (σ : Schema) (ts : List Token) : PR Schema :=
  let ts := adv ts
  match (cur ts).tok with
  | .ident ename =>
    if σ.isTopUsed ename then .err (cur ts).pos (.dupTop ename)
    else
      match eat (.punct '{') (adv ts) with
      | .err p c => .err p c
      | .ok _ ts =>
      match parseEnumFields (ts.length + 1) [] ts with
      | .err p c => .err p c
      | .ok fs ts =>
      match eat (.punct '}') ts with
      | .err p c => .err p c
      | .ok _ ts => .ok { σ with enums := σ.enums ++ [{ name := ename, fields := fs }] } ts
  | _ => .err (cur ts).pos .enumName

/-- the loop of `parsePackage` -/
def parsePackageLoop : Nat → List Name → List Token → PR (List Name)
  | 0, _, ts => .err (cur ts).pos .outOfFuel
  | n + 1, acc, ts =>
    match (cur ts).tok with
    | .ident c =>
      let ts := adv ts
      if (cur ts).tok = .punct '.' then parsePackageLoop n (acc ++ [c]) (adv ts)
      else .ok (acc ++ [c]) ts
    | _ => .err (cur ts).pos .pkgIdent

def parsePackage (ts : List Token) : PR (List Name) :=
  match eat (.kw .package) ts with
  | .err p c => .err p c
  | .ok _ ts => parsePackageLoop (ts.length + 1) [] ts

/-- the definition loop of `Parser.Parse` (`for token != EOF { ... }`), entered by `grammar` only
    when the current token is not EOF: one definition, then the loop test. -/
def parseDefs : Nat → Schema → List Token → PR Schema
  | 0, _, ts => .err (cur ts).pos .outOfFuel
  | n + 1, σ, ts =>
    let r : PR Schema :=
      match (cur ts).tok with
      | .kw .struct => parseStruct false σ ts
      | .kw .oneof => parseStruct true σ ts
      | .kw .multimap => parseMultimap σ ts
      | .kw .enum => parseEnum σ ts
      | _ => .err (cur ts).pos .expectedDef
    match r with
    | .err p c => .err p c
    | .ok σ ts => if (cur ts).tok = .eof then .ok σ ts else parseDefs n σ ts

/-- the grammar phase of `Parser.Parse`: everything before `ResolveRefs`. A text that ends after
    the package clause is accepted (no definitions). -/
def grammar (ts : List Token) : PR Schema :=
  match parsePackage ts with
  | .err p c => .err p c
  | .ok pkg ts =>
    if (cur ts).tok = .eof then .ok { pkg := pkg } ts
    else parseDefs (ts.length + 1) { pkg := pkg } ts

/-! ## ResolveRefs (schema.go) -/

/-- `resolveFieldType` on a non-array type. -/
def resolveBase (σ : Schema) (b : BaseType) : Except ErrClass BaseType :=
  let typeName :=
    if b.struct ≠ [] then b.struct else if b.multimap ≠ [] then b.multimap else b.enum
  if typeName ≠ [] then
    let isStruct := σ.hasStruct typeName
    let isMultimap := σ.hasMultimap typeName
    let isEnum := σ.hasEnum typeName
    let b1 := if isMultimap then { b with multimap := typeName, struct := [] } else b
    let b2 := if isEnum then { b1 with prim := some .uint64, enum := typeName, struct := [] } else b1
    let m := (if isStruct then 1 else 0) + (if isMultimap then 1 else 0) + (if isEnum then 1 else 0)
    if m = 0 then .error .unknownType
    else if m > 1 then .error .ambiguousType
    else .ok b2
  else .ok b

def resolveFType (σ : Schema) : FType → Except ErrClass FType
  | .base b => (resolveBase σ b).map .base
  | .array e d r => (resolveBase σ e).map (fun e' => .array e' d r)

def resolveFields (σ : Schema) : List Field → Except ErrClass (List Field)
  | [] => .ok []
  | f :: fs =>
    match resolveFType σ f.ty with
    | .error e => .error e
    | .ok ty =>
      match resolveFields σ fs with
      | .error e => .error e
      | .ok fs' => .ok ({ f with ty := ty } :: fs')

def resolveStructs (σ : Schema) : List Struct → Except ErrClass (List Struct)
  | [] => .ok []
  | s :: ss =>
    match resolveFields σ s.fields with
    | .error e => .error e
    | .ok fs =>
      match resolveStructs σ ss with
      | .error e => .error e
      | .ok ss' => .ok ({ s with fields := fs } :: ss')

def resolveMultimaps (σ : Schema) : List Multimap → Except ErrClass (List Multimap)
  | [] => .ok []
  | m :: ms =>
    match resolveFType σ m.key with
    | .error e => .error e
    | .ok k =>
      match resolveFType σ m.value with
      | .error e => .error e
      | .ok v =>
        match resolveMultimaps σ ms with
        | .error e => .error e
        | .ok ms' => .ok ({ m with key := k, value := v } :: ms')

/-- `ResolveRefs` without its final `computeRecursive` call. -/
def resolveRefs (σ : Schema) : Except ErrClass Schema :=
  match resolveStructs σ σ.structs with
  | .error e => .error e
  | .ok ss =>
    match resolveMultimaps σ σ.multimaps with
    | .error e => .error e
    | .ok ms => .ok { σ with structs := ss, multimaps := ms }

/-! ## computeRecursive (schema.go) -/

/-- an entry of `recurseStack.fields`: field number `idx` of struct `owner`, or key (0) / value
    (1) of multimap `owner`, with its type. -/
structure Frame where
  isMM : Bool
  owner : Name
  idx : Nat
  ty : FType
  deriving DecidableEq, Repr, Inhabited

structure Marks where
  structs : List Name := []
  multimaps : List Name := []
  arrays : List (Bool × Name × Nat) := []
  deriving DecidableEq, Repr, Inhabited

/-- `recurseStack` (+ the marks set so far). `asMap` is the set of names on `asStack`: both are
    updated together and a name is pushed only when `asMap` does not hold it. -/
structure RSt where
  asStack : List Name := []
  fields : List Frame := []
  marks : Marks := {}
  deriving DecidableEq, Repr, Inhabited

/-- `FieldType.SetRecursive` on a frame. -/
def setRecursive (f : Frame) (m : Marks) : Except PanicSite Marks :=
  match f.ty with
  | .array _ _ _ => .ok { m with arrays := (f.isMM, f.owner, f.idx) :: m.arrays }
  | .base b =>
    if b.prim.isSome then .error .setRecursiveOnPrimitive
    else if b.struct ≠ [] then .ok { m with structs := b.struct :: m.structs }
    else if b.multimap ≠ [] then .ok { m with multimaps := b.multimap :: m.multimaps }
    else .error .invalidFieldType

def setRecursiveAll : List Frame → Marks → Except PanicSite Marks
  | [], m => .ok m
  | f :: fs, m =>
    match setRecursive f m with
    | .error e => .error e
    | .ok m' => setRecursiveAll fs m'

def findLastGo (n : Name) : List Name → Nat → Option Nat → Option Nat
  | [], _, acc => acc
  | x :: xs, i, acc => findLastGo n xs (i + 1) (if x = n then some i else acc)

/-- `findLast` -/
def findLast (stack : List Name) (n : Name) : Option Nat := findLastGo n stack 0 none

/-- `markRecursive` -/
def markRecursive (typeName : Name) (st : RSt) : Except PanicSite RSt :=
  match findLast st.asStack typeName with
  | none => .error .invalidState
  | some i =>
    match setRecursiveAll (st.fields.drop i) st.marks with
    | .error e => .error e
    | .ok m => .ok { st with marks := m }

/-- the field loop of `computeRecursiveStruct` / the two calls of `computeRecursiveMultimap`. -/
def crFields (rec : BaseType → RSt → Except PanicSite RSt) (isMM : Bool) (owner : Name) :
    List FType → Nat → RSt → Except PanicSite RSt
  | [], _, st => .ok st
  | ty :: rest, i, st =>
    match rec ty.inner { st with fields := st.fields ++ [⟨isMM, owner, i, ty⟩] } with
    | .error e => .error e
    | .ok st2 => crFields rec isMM owner rest (i + 1) { st2 with fields := st2.fields.dropLast }

/-- `computeRecursiveStruct` / `computeRecursiveMultimap`: push the name, visit, pop. -/
def crEnter (rec : BaseType → RSt → Except PanicSite RSt) (isMM : Bool) (name : Name)
    (types : List FType) (st : RSt) : Except PanicSite RSt :=
  match crFields rec isMM name types 0 { st with asStack := st.asStack ++ [name] } with
  | .error e => .error e
  | .ok st2 => .ok { st2 with asStack := st2.asStack.dropLast }

/-- `computeRecursiveType` on the non-array type a field bottoms out in (an array forwards to
    its element type, which is what `FType.inner` is). -/
def crType (σ : Schema) : Nat → BaseType → RSt → Except PanicSite RSt
  | 0, _, _ => .error .outOfFuel
  | fuel + 1, b, st =>
    if b.prim.isSome then .ok st
    else if b.struct ≠ [] then
      if st.asStack.contains b.struct then markRecursive b.struct st
      else match σ.findStruct b.struct with
        | none => .error .nilDef
        | some s => crEnter (crType σ fuel) false s.name s.types st
    else if b.multimap ≠ [] then
      if st.asStack.contains b.multimap then markRecursive b.multimap st
      else match σ.findMultimap b.multimap with
        | none => .error .nilDef
        | some m => crEnter (crType σ fuel) true m.name m.types st
    else .error .unknownType

def crFuel (σ : Schema) : Nat := σ.structs.length + σ.multimaps.length + 1

def crRoots (σ : Schema) : List Struct → Marks → Except PanicSite Marks
  | [], m => .ok m
  | s :: ss, m =>
    if s.isRoot then
      match crEnter (crType σ (crFuel σ)) false s.name s.types { marks := m } with
      | .error e => .error e
      | .ok st => crRoots σ ss st.marks
    else crRoots σ ss m

def applyMarksFields (m : Marks) (isMM : Bool) (owner : Name) : List FType → Nat → List FType
  | [], _ => []
  | ty :: rest, i =>
    (match ty with
      | .array e d r => FType.array e d (r || m.arrays.contains (isMM, owner, i))
      | t => t) :: applyMarksFields m isMM owner rest (i + 1)

def zipFieldTypes : List Field → List FType → List Field
  | f :: fs, t :: ts => { f with ty := t } :: zipFieldTypes fs ts
  | _, _ => []

def applyMarks (σ : Schema) (m : Marks) : Schema :=
  { σ with
    structs := σ.structs.map (fun s =>
      { s with recursive := s.recursive || m.structs.contains s.name,
               fields := zipFieldTypes s.fields (applyMarksFields m false s.name s.types 0) }),
    multimaps := σ.multimaps.map (fun mm =>
      match applyMarksFields m true mm.name mm.types 0 with
      | [k, v] => { mm with recursive := mm.recursive || m.multimaps.contains mm.name, key := k, value := v }
      | _ => mm) }

/-- `computeRecursive` -/
def computeRecursive (σ : Schema) : Except PanicSite Schema :=
  match crRoots σ σ.structs {} with
  | .error e => .error e
  | .ok m => .ok (applyMarks σ m)

/-! ## PruneUnused (schema.go) -/

structure Reach where
  structs : List Name := []
  multimaps : List Name := []
  enums : List Name := []
  deriving DecidableEq, Repr, Inhabited

def mrFields (rec : BaseType → Reach → Option Reach) : List FType → Reach → Option Reach
  | [], r => some r
  | ty :: rest, r =>
    match rec ty.inner r with
    | none => none
    | some r' => mrFields rec rest r'

/-- `markReachableFromFieldType` / `...FromStruct` / `...FromMultimap` on a non-array type
    (an array forwards to its element). `none` = out of fuel. -/
def mrBase (σ : Schema) : Nat → BaseType → Reach → Option Reach
  | 0, _, _ => none
  | fuel + 1, b, r =>
    if b.struct ≠ [] then
      if r.structs.contains b.struct then some r
      else match σ.findStruct b.struct with
        | none => some r
        | some s => mrFields (mrBase σ fuel) s.types { r with structs := b.struct :: r.structs }
    else if b.multimap ≠ [] then
      if r.multimaps.contains b.multimap then some r
      else match σ.findMultimap b.multimap with
        | none => some r
        | some m => mrFields (mrBase σ fuel) m.types { r with multimaps := b.multimap :: r.multimaps }
    else if b.enum ≠ [] then some { r with enums := b.enum :: r.enums }
    else some r

def mrRoots (σ : Schema) : List Struct → Reach → Option Reach
  | [], r => some r
  | s :: ss, r =>
    if s.isRoot then
      match mrBase σ (crFuel σ + 1) { struct := s.name } r with
      | none => none
      | some r' => mrRoots σ ss r'
    else mrRoots σ ss r

/-- `PruneUnused` (the list of unused types it also returns only feeds warnings). -/
def pruneUnused (σ : Schema) : Option Schema :=
  match mrRoots σ σ.structs {} with
  | none => none
  | some r => some { σ with
      structs := σ.structs.filter (fun s => r.structs.contains s.name),
      multimaps := σ.multimaps.filter (fun m => r.multimaps.contains m.name),
      enums := σ.enums.filter (fun e => r.enums.contains e.name) }

/-! ## Parse -/

inductive Outcome
  | ok (σ : Schema)
  | error (p : Pos) (c : ErrClass)
  | panic (site : PanicSite)
  deriving DecidableEq, Repr, Inhabited

/-- `Parser.Parse` on the token sequence. -/
def parseTokens (ts : List Token) : Outcome :=
  match grammar ts with
  | .err p c => .error p c
  | .ok σ ts =>
    match resolveRefs σ with
    | .error c => .error (cur ts).pos c          -- p.error(err.Error()): at the current (EOF) token
    | .ok σ1 =>
      match computeRecursive σ1 with
      | .error site => .panic site
      | .ok σ2 =>
        match pruneUnused σ2 with
        | none => .panic .outOfFuel
        | some σ3 => .ok σ3

/-- `idl.Parse` -/
def parse (input : List Char) : Outcome := parseTokens (lex input)

end Stef.Idl
