/-
  Stef.Chunk: transcription of `chunkAssembler` (go/grpc/server.go) and of
  `grpcWriter.WriteChunk` (go/grpc/client.go).

  The message source is a finite list of messages `(bytes, isEndOfChunk)`; receiving from an
  exhausted source is an error (a closed gRPC stream), after which the source stays exhausted.
-/
import Stef.Base

namespace Stef.Chunk

abbrev Msg := Bytes × Bool

/-- Go: `chunkAssembler.recvMsg` - accumulate messages until one is flagged end-of-chunk.
    `none` = the source returned an error before the chunk was complete (what was accumulated
    is dropped, as in the Go code). -/
def recvChunk : List Msg → Bytes → Option (Bytes × List Msg)
  | [], _ => none
  | (b, e) :: rest, acc => if e then some (acc ++ b, rest) else recvChunk rest (acc ++ b)

structure Asm where
  src : List Msg
  buf : Bytes := []
  readIndex : Nat := 0
  chunksReceived : Nat := 0      -- stats.MessagesReceived (counts chunks, as the code does)
  bytesReceived : Nat := 0

/-- Go: `chunkAssembler.Read(p)` with `len(p) = n`. `none` = error returned. -/
def Asm.read (a : Asm) (n : Nat) : Asm × Option Bytes :=
  if a.readIndex ≥ a.buf.length then
    match recvChunk a.src [] with
    | none => ({ a with src := [] }, none)
    | some (data, rest) =>
      let out := data.take n
      ({ src := rest, buf := data, readIndex := out.length,
         chunksReceived := a.chunksReceived + 1, bytesReceived := a.bytesReceived + data.length },
       some out)
  else
    let out := (a.buf.drop a.readIndex).take n
    ({ a with readIndex := a.readIndex + out.length }, some out)

/-- run a list of read sizes; returns the outputs of the successful reads, in order, the final
    state and whether an error was met (reads stop at the first error, as `bufio` does). -/
def Asm.run (a : Asm) : List Nat → List Bytes × Asm × Bool
  | [] => ([], a, false)
  | n :: ns =>
    match a.read n with
    | (a', none) => ([], a', true)
    | (a', some out) => let (outs, a'', e) := a'.run ns; (out :: outs, a'', e)

/-- the complete chunks contained in a message list (specification). -/
def chunksAux : List Msg → Bytes → List Bytes
  | [], _ => []
  | (b, e) :: rest, acc => if e then (acc ++ b) :: chunksAux rest [] else chunksAux rest (acc ++ b)

def chunks (ms : List Msg) : List Bytes := chunksAux ms []

/-- Go: `grpcWriter.WriteChunk(header, content)`: one message, flagged end of chunk. -/
def writeChunk (header content : Bytes) : Msg := (header ++ content, true)

end Stef.Chunk
