/-
  Stef.SchemaPostSem: the (hand-written) target vocabulary of the `SchemaPost` generator of /verif/extract
  (extract/schemapost.go). The generator translates, statement by statement and in source order, the schema
  post-processing that `idl.Parse` runs after the grammar phase (go/pkg/schema/schema.go):

    Schema.ResolveRefs, Schema.resolveFieldType                                  every reference names one definition
    Schema.computeRecursive, computeRecursiveStruct / Multimap / Type,
      markRecursive, findLast                                                     the recursion marks
    Schema.PruneUnused, Schema.markReachableFromStruct / Multimap / FieldType    reachability from the roots, deletion

  into the definitions of Stef/Gen/SchemaPost.lean. Nothing here says WHAT those functions do; this file fixes how
  Go DATA, Go LIBRARY calls and POINTERS are read. It extends Stef/PrintFlowSem.lean (strings are `Name`s, maps keyed
  by name are lists of their values, `FieldType` is `FType` seen through `goStruct`/`goArray`/.., `StructDef` /
  `MultimapDef` are lookups by name in the schema `σ` the value belongs to, `map[string]bool` is the list of its
  true keys). Core Lean only.

  Control. Every translated function runs in `Except PErr`:
  * a Go `error` result is `PErr.error msg` (the function's other results and everything it wrote through
    pointers are dropped with it: `Parser.Parse` discards the schema when `ResolveRefs` fails);
    `if err := f(..); err != nil { return err }` is therefore a plain bind;
  * `panic(msg)`, a nil dereference, an index / slice bound error are distinct errors;
  * a write that would leave the data model (a name slot or `Primitive` assigned on a value whose `Array` is set,
    an array element type that is itself an array) is `unrepresentable` - never silently dropped;
  * RECURSIVE functions get a fuel parameter (`outOfFuel` when it runs out; Go has no such thing: theorems are
    stated for the fuel `postFuel σ` the non-recursive callers pass, and `Proofs/SchemaPostGen` shows it is enough).
  `int` is `Int` (`len(x)` is `x.length`; no overflow: slices are shorter than 2^63).

  Pointers.
  * A pointer parameter the callee writes through (`fieldType *FieldType`, `stack *recurseStack`, the maps
    `reachable.. map[string]bool`, the receiver `d *Schema` of `ResolveRefs` / `computeRecursive` / `PruneUnused`) is
    passed by value and the new pointee is returned; the caller assigns it back to the place whose address it
    passed, and from there to every enclosing object up to the local it is rooted at (`field` = `v.Fields[i]`,
    `v` = `d.Structs[key]`): `listSetI`, `mapUpdate`.
  * `*StructField` found in `struc.Fields` is a `FieldRef`: the field together with its identity (owner struct,
    index); `&multimap.Key` / `&multimap.Value` is a `MMFieldRef` (owner multimap, 0 / 1). Converted to the
    interface `recursable` (when appended to `recurseStack.fields`) they are the two constructors of `Recursable`.
  * The unexported flags `Struct.recursive`, `Multimap.recursive`, `ArrayType.recursive` are written ONLY by the three
    `SetRecursive` methods, through pointers that alias objects of the schema. They live in a side table
    (`Idl.Marks`: struct names, multimap names, positions of array-typed fields) for the duration of
    `computeRecursive`, which starts with the empty table and ends with `applyMarks d marks`; functions that
    (transitively) reach `SetRecursive` get `marks` as an extra in/out parameter. `x.SetRecursive()` on an element
    of `recurseStack.fields` is `Recursable.setRecursive` below = `Idl.setRecursive` on the element's frame
    (`StructDef != nil` read as `Struct != ""`, Stef/Schema.lean third bullet). The three methods are NOT
    translated; the generator compares their source text with the text this definition was written for and fails
    when it differs.
  * Go map iteration order is unspecified; the model ranges over a map in list order. The translated functions
    that do so are whitelisted in the generator (`ResolveRefs`, `computeRecursive`, `PruneUnused`); that their result
    does not depend on the order is argued in the header of Stef/Idl.lean (not proved).
-/
import Stef.PrintFlowSem
import Stef.Idl

namespace Stef.SchemaPostSem
open Stef.Idl Stef.PrintFlowSem

inductive PErr
  | error (msg : Name)       -- a Go `error` value returned by the function
  | panic (msg : Name)       -- `panic("...")`
  | nilDeref                 -- field access through a nil pointer
  | indexRange               -- `s[i]` outside the slice
  | sliceBounds              -- `s[:len(s)-1]` on an empty slice
  | unrepresentable          -- a write that leaves the data model (see the header)
  | outOfFuel                -- not a Go outcome (see the header)
  deriving DecidableEq, Repr

/-- use of a possibly nil pointer -/
def deref {α : Type} : Option α → Except PErr α
  | some a => .ok a
  | none => .error .nilDeref

/-- `s[:len(s)-1]` -/
def dropLastE {α : Type} (s : List α) : Except PErr (List α) :=
  if s.length = 0 then .error .sliceBounds else .ok s.dropLast

/-- `s[i]` for an `int` index -/
def indexI {α : Type} (s : List α) (i : Int) : Except PErr α :=
  if i < 0 then .error .indexRange
  else match s[i.toNat]? with
    | some a => .ok a
    | none => .error .indexRange

/-- the slice `s` after `s[i] = v` (same length; out of range: unchanged - `indexI` reports the error where
    the element was read). -/
def listSetI {α : Type} (s : List α) (i : Int) (v : α) : List α :=
  if i < 0 then s else s.set i.toNat v

/-- the values `i` takes in `for i := lo; i < hi; i++` (the body does not assign `i`). -/
def intRange (lo hi : Int) : List Int := (List.range (hi - lo).toNat).map (fun (k : Nat) => lo + Int.ofNat k)

/-- the values `i` takes in `for i := hi; i >= 0; i--` (the body does not assign `i`). -/
def downFrom (hi : Int) : List Int := ((List.range (hi + 1).toNat).map (fun (k : Nat) => Int.ofNat k)).reverse

/-- `_, ok := m[k]` for `map[string]*T` -/
def mapHas {α : Type} [Keyed α] (m : List α) (k : Name) : Bool := (mapGet m k).isSome

/-- the map after the object `m[k]` points to was rewritten to `v` (a pointer into the map was written through). -/
def mapUpdate {α : Type} [Keyed α] (m : List α) (k : Name) (v : α) : List α :=
  m.map (fun x => if Keyed.key x = k then v else x)

/-- `delete(m, k)` for `map[string]*T` -/
def mapDelete {α : Type} [Keyed α] (m : List α) (k : Name) : List α := m.filter (fun x => Keyed.key x != k)

/-- `sort.Slice(s, func(i, j int) bool { return s[i].Name < s[j].Name })` (the names are distinct keys of one
    map: the result does not depend on the sorting algorithm). -/
def sortByName {α : Type} [Keyed α] (s : List α) : List α := sortBy Keyed.key s

/-! ## `*StructField`, `*MultimapField`, `recursable` -/

/-- a `*StructField` taken from `owner.Fields[idx]`. -/
structure FieldRef where
  owner : Name
  idx : Nat
  val : Field
  deriving DecidableEq, Repr, Inhabited

def fieldRefs (owner : Name) : Nat → List Field → List FieldRef
  | _, [] => []
  | i, f :: fs => ⟨owner, i, f⟩ :: fieldRefs owner (i + 1) fs

/-- `s.Fields` as pointers -/
def _root_.Stef.Idl.Struct.goFields (s : Struct) : List FieldRef := fieldRefs s.name 0 s.fields

/-- `s.Fields` after its pointees were rewritten -/
def _root_.Stef.Idl.Struct.setGoFields (s : Struct) (l : List FieldRef) : Struct := { s with fields := l.map (·.val) }

def FieldRef.setFieldType (f : FieldRef) (t : FType) : FieldRef := { f with val := { f.val with ty := t } }

/-- `&m.Key` (idx 0) / `&m.Value` (idx 1) -/
structure MMFieldRef where
  owner : Name
  idx : Nat
  ty : FType
  deriving DecidableEq, Repr, Inhabited

def _root_.Stef.Idl.Multimap.goKey (m : Multimap) : MMFieldRef := ⟨m.name, 0, m.key⟩
def _root_.Stef.Idl.Multimap.goValue (m : Multimap) : MMFieldRef := ⟨m.name, 1, m.value⟩
def _root_.Stef.Idl.Multimap.setGoKey (m : Multimap) (r : MMFieldRef) : Multimap := { m with key := r.ty }
def _root_.Stef.Idl.Multimap.setGoValue (m : Multimap) (r : MMFieldRef) : Multimap := { m with value := r.ty }

/-- the interface `recursable` with the values the translated code converts to it. -/
inductive Recursable
  | field (f : FieldRef)
  | mmField (f : MMFieldRef)
  deriving DecidableEq, Repr, Inhabited

def Recursable.frame : Recursable → Frame
  | .field f => ⟨false, f.owner, f.idx, f.val.ty⟩
  | .mmField f => ⟨true, f.owner, f.idx, f.ty⟩

/-- the text of the two `panic`s of `FieldType.SetRecursive` -/
def sSetRecPrimitive : Name := "cannot set recursive on Primitive".toList
def sInvalidFieldType : Name := "invalid FieldType".toList

/-- `r.SetRecursive()` (dynamic dispatch to `StructField.SetRecursive` / `MultimapField.SetRecursive`, both of
    which call `FieldType.SetRecursive` on the field's type): see the header. -/
def Recursable.setRecursive (r : Recursable) (m : Marks) : Except PErr Marks :=
  match Idl.setRecursive r.frame m with
  | .ok m' => .ok m'
  | .error .setRecursiveOnPrimitive => .error (.panic sSetRecPrimitive)
  | .error _ => .error (.panic sInvalidFieldType)

/-- `recurseStack` -/
structure RecurseStackF where
  fields : List Recursable := []
  asStack : List Name := []
  asMap : List Name := []
  deriving DecidableEq, Repr, Inhabited

/-- `UnusedTypes` -/
structure UnusedTypes where
  structs : List Struct := []
  multimaps : List Multimap := []
  enums : List Enum := []
  deriving DecidableEq, Repr, Inhabited

/-! ## writes to the slots of a `FieldType` -/

def _root_.Stef.Idl.FType.setStruct : FType → Name → Except PErr FType
  | .base b, n => .ok (.base { b with struct := n })
  | .array _ _ _, _ => .error .unrepresentable

def _root_.Stef.Idl.FType.setMultiMap : FType → Name → Except PErr FType
  | .base b, n => .ok (.base { b with multimap := n })
  | .array _ _ _, _ => .error .unrepresentable

def _root_.Stef.Idl.FType.setEnum : FType → Name → Except PErr FType
  | .base b, n => .ok (.base { b with enum := n })
  | .array _ _ _, _ => .error .unrepresentable

/-- `ft.Primitive = &PrimitiveType{Type: p}` -/
def _root_.Stef.Idl.FType.setPrimitive : FType → Prim → Except PErr FType
  | .base b, p => .ok (.base { b with prim := some p })
  | .array _ _ _, _ => .error .unrepresentable

/-- `ft.Array.ElemType` rewritten -/
def _root_.Stef.Idl.FType.setArrayElem : FType → FType → Except PErr FType
  | .array _ d r, .base e => .ok (.array e d r)
  | _, _ => .error .unrepresentable

/-- fuel the non-recursive callers give the recursive functions: every level of the three recursions either
    enters a struct / multimap that was not entered before on the path (reachability: at all), or steps from a
    struct / multimap to one of its field types, or from an array to its element type. -/
def postFuel (σ : Schema) : Nat := 3 * (σ.structs.length + σ.multimaps.length + 2) + 2

end Stef.SchemaPostSem
