/-
  Stef.Pipeline: message-level model of one exporter -> receiver stream of the collector pipeline
  (property C19). Core Lean only (linked into the driver).

  Transcribed from, AS WRITTEN:
    otelcol/internal/stefexporter/exporter.go   pushMetrics (under writeMutex), flusher, onGrpcAck,
                                                 lastSentRecordId / lastAckedRecordId / sentPendingAck
    go/grpc/client.go, server.go                 one chunk per message, acks delivered to OnAck in order
    otelcol/internal/stefreceiver/stef.go        onStream with a consumer that accepts every batch
    .../internal/responder.go                    the tick branch of Run (no bad data when every batch
                                                 is accepted; the full Responder is Stef/Receiver.lean)

  A data point is a natural number (its identity); the conversion OTLP -> sorted STEF records -> OTLP
  is assumed to preserve each point (property C17), the chunk transport to be a reliable FIFO
  (property C15 + gRPC). Several exporters / streams are independent copies of this system that
  share only the consumer, which is why one stream is modelled.

    push pts    pushMetrics: under writeMutex the records of one call are written back to back
                (sorted.ToStef), lastSentRecordId = RecordCount(); the batch is stored in
                sentPendingAck under that id unless lastAckedRecordId >= lastSentRecordId
    emit k      a frame with the first k open records leaves as one chunk: the flusher's Flush
                (k = all), or a frame restart inside Write on a size / dictionary limit
    deliver     the receiver decodes the next chunk (one batch), RecordCount() += its length
    accept      ConsumeMetrics returned nil; ScheduleAck(RecordCount())
    tick        Responder tick: if nextAckID > lastAckedID send it
    ackrecv     Client.receive hands the next AckRecordId to onGrpcAck:
                  for ; lastAckedRecordId < ackId; lastAckedRecordId++ { delete(sentPendingAck, lastAckedRecordId) }
-/
namespace Stef.Pipeline

abbrev Pt := Nat

structure PState where
  -- exporter
  written : Nat := 0             -- remoteWriter.RecordCount()
  open_ : List Pt := []          -- records of the open frame
  lastSent : Nat := 0            -- lastSentRecordId
  lastAckedX : Nat := 0          -- lastAckedRecordId
  pending : List Nat := []       -- keys of sentPendingAck
  pushed : List Pt := []         -- every point accepted by pushMetrics, in write order
  -- transport
  fwd : List (List Pt) := []     -- chunks in flight, oldest first
  back : List Nat := []          -- AckRecordIds in flight, oldest first
  -- receiver
  decoded : Nat := 0             -- reader.RecordCount()
  cur : List Pt := []            -- the decoded batch being consumed
  busy : Bool := false           -- inside ConsumeMetrics
  nextAck : Nat := 0
  lastAckedR : Nat := 0
  delivered : List Pt := []      -- every point handed to the consumer, in order
  batchIds : List Nat := []      -- toRecordID of every delivered batch, oldest first
deriving DecidableEq, Repr

def init : PState := {}

inductive Event where
  | push (pts : List Pt) | emit (k : Nat) | deliver | accept | tick | ackrecv
deriving DecidableEq, Repr

def step (s : PState) : Event → Option PState
  | .push pts =>
    let w := s.written + pts.length
    some { s with written := w, open_ := s.open_ ++ pts, pushed := s.pushed ++ pts, lastSent := w,
                  pending := if s.lastAckedX ≥ w then s.pending
                             else if s.pending.contains w then s.pending else w :: s.pending }
  | .emit k =>
    if 1 ≤ k ∧ k ≤ s.open_.length then
      some { s with fwd := s.fwd ++ [s.open_.take k], open_ := s.open_.drop k }
    else none
  | .deliver =>
    match s.busy, s.fwd with
    | false, c :: rest => some { s with fwd := rest, cur := c, busy := true, decoded := s.decoded + c.length }
    | _, _ => none
  | .accept =>
    if s.busy then
      some { s with delivered := s.delivered ++ s.cur, cur := [], busy := false,
                    batchIds := s.batchIds ++ [s.decoded], nextAck := s.decoded }
    else none
  | .tick =>
    if s.nextAck > s.lastAckedR then
      some { s with lastAckedR := s.nextAck, back := s.back ++ [s.nextAck] }
    else some s
  | .ackrecv =>
    match s.back with
    | a :: rest =>
      some { s with back := rest,
                    pending := s.pending.filter (fun k => ¬ (s.lastAckedX ≤ k ∧ k < a)),
                    lastAckedX := if s.lastAckedX < a then a else s.lastAckedX }
    | [] => none

def run : PState → List Event → Option PState
  | s, [] => some s
  | s, e :: es =>
    match step s e with
    | some s' => run s' es
    | none => none

/-- the receiver's part of the canonical continuation: finish the batch being consumed, flush what
    is open, take every chunk in flight -/
def drainRecv (s : PState) : List Event :=
  (if s.busy then [.accept] else []) ++
  (if s.open_.length = 0 then [] else [.emit s.open_.length]) ++
  (List.replicate (s.fwd.length + (if s.open_.length = 0 then 0 else 1)) [Event.deliver, Event.accept]).flatten

/-- the canonical continuation from any state: flush, deliver (every chunk), one responder tick,
    then every acknowledgement in flight is received by the exporter -/
def drain (s : PState) : List Event :=
  let a := drainRecv s ++ [.tick]
  match run s a with
  | some s1 => a ++ List.replicate s1.back.length .ackrecv
  | none => a

end Stef.Pipeline
