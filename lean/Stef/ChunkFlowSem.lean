/-
  Stef.ChunkFlowSem: the statement language into which /verif/extract (chunkflow.go) translates the
  bodies of the gRPC chunk transport - `chunkAssembler.recvMsg`, `chunkAssembler.Read`,
  `grpcChunkSource.recvMsg` (go/grpc/server.go) and `grpcWriter.WriteChunk` (go/grpc/client.go) -
  and its interpreter. Gen/ChunkFlow.lean is DATA (four values of `Stmt`); this file, written by
  hand, is the meaning of each whitelisted Go statement and expression. The ORDER of the statements,
  the conditions and what is assigned to what come from the Go source. Proofs/ChunkGen.lean proves
  that the interpreted bodies compute what the hand model Stef/Chunk.lean says, on every state.

  Values.
  * a Go `[]byte` is `Sl = Option Bytes`: `none` is the nil slice (the code tests `chunkBuf == nil`),
    `some bs` a non-nil slice with content `bs`. Value semantics: capacity and aliasing are NOT
    modelled (see `Stmt.ownsRequestBuffer` for the one syntactic fact about buffer ownership);
  * `int` / `uint64` are `Nat` (no overflow); an `error` is a `Bool` (true = non-nil);
  * a protobuf message (`*stef_proto.STEFClientMessage`, only `StefBytes` and `IsEndOfChunk`) is `Wire`;
  * the gRPC stream a `grpcChunkSource` receives from is the finite list of messages that will still
    arrive; `Recv()` on the empty list fails and the list stays empty (a closed stream);
  * `stream.Send(&w.request)` succeeds or fails as the input `sendFails` says; on success a snapshot of
    the request is appended to `sent`.
  Locals are numbered per kind (slices, ints, bools and errors, messages) in order of declaration, so
  their names do not matter.

  Control: `ctl` says whether the body still runs, executed `return`, executed `continue`, panicked
  (a slice expression `x[i:]` / `x[:i]` out of range) or got stuck (the interpreter gives a `for { .. }`
  loop `len(stream) + 1` iterations - enough for a loop that receives a message in every iteration that
  does not return; a loop that needs more is reported as `stuck`, never silently cut).
  Ghost `lockOk`: the statistics are only written under `statsMux`, which is never taken twice,
  never released when free, and not held at a `return`.
-/
import Stef.Base

namespace Stef.ChunkFlowSem

abbrev Sl := Option Bytes

def Sl.len (s : Sl) : Nat := (s.getD []).length

/-- Go: `append(a, b...)` (nil only if `a` is nil and `b` is empty) -/
def Sl.append (a b : Sl) : Sl :=
  match a with
  | none => if (b.getD []).isEmpty then none else some (b.getD [])
  | some x => some (x ++ b.getD [])

/-- Go: `a[i:]` (in range: `i ≤ len(a)`) -/
def Sl.from (a : Sl) (i : Nat) : Sl := a.map (·.drop i)

/-- Go: `a[:i]` (in range: `i ≤ len(a)`; capacity is not modelled, so `i ≤ cap(a)` is refused) -/
def Sl.upto (a : Sl) (i : Nat) : Sl := a.map (·.take i)

/-- Go: `n := copy(dst, src)`: the new content of `dst` and `n = min(len(dst), len(src))`. -/
def copyInto (dst src : Sl) : Sl × Nat :=
  let moved := (src.getD []).take dst.len
  (dst.map (fun d => moved ++ d.drop moved.length), moved.length)

structure Wire where
  stefBytes : Sl
  isEndOfChunk : Bool
  deriving DecidableEq, Repr

/-- Go: `grpcChunkSource` (the fields the translated code touches) -/
structure Src where
  stream : List Wire                    -- what `serverStream.Recv()` will still return
  messagesReceived : Nat := 0

/-- Go: `chunkAssembler`; `source` is the `grpcChunkSource` that `StreamServer.Stream` hands to
    `newChunkAssembler` (fact `streamFreshAssembler` of Gen/ChunkFlow.lean). -/
structure AsmG where
  source : Src
  buf : Sl := none
  readIndex : Nat := 0
  statMsgs : Nat := 0                   -- g.stats.MessagesReceived
  statBytes : Nat := 0                  -- g.stats.BytesReceived

/-- Go: `grpcWriter` -/
structure Wr where
  request : Wire := ⟨none, false⟩
  sent : List Wire := []
  sendFails : Bool := false             -- input: the outcome of the next `stream.Send`

inductive Ctl where
  | run | ret | cont | panic | stuck
  deriving DecidableEq, Repr

/-- integer variables: locals and the integer fields of the receivers -/
inductive IVar where
  | loc (i : Nat)
  | readIndex                           -- g.readIndex
  | statMsgs                            -- g.stats.MessagesReceived
  | statBytes                           -- g.stats.BytesReceived
  | srcMsgs                             -- r.messagesReceived
  deriving DecidableEq, Repr

mutual
inductive IE where
  | lit (n : Nat)
  | get (v : IVar)
  | len (e : SE)                        -- len(e)
  | add (a b : IE)
/-- expressions of type `[]byte` -/
inductive SE where
  | nil
  | var (i : Nat)                       -- i-th slice local / parameter
  | buf                                 -- g.buf
  | req                                 -- w.request.StefBytes
  | msg (i : Nat)                       -- <i-th message local>.StefBytes
  | «from» (e : SE) (i : IE)            -- e[i:]
  | upto (e : SE) (i : IE)              -- e[:i]
  | append (a b : SE)                   -- append(a, b...)
end

inductive Cmp where
  | ge | gt | le | lt | eq | ne
  deriving DecidableEq, Repr

def Cmp.eval : Cmp → Nat → Nat → Bool
  | .ge, a, b => decide (a ≥ b)
  | .gt, a, b => decide (a > b)
  | .le, a, b => decide (a ≤ b)
  | .lt, a, b => decide (a < b)
  | .eq, a, b => a == b
  | .ne, a, b => a != b

/-- expressions of type `bool`, and `error` values seen as "is non-nil" -/
inductive BE where
  | lit (b : Bool)                      -- true / false; error: nil = false, a freshly made error = true
  | var (i : Nat)                       -- boolean local; error local (`err`, `err != nil`)
  | msgEoc (i : Nat)                    -- <i-th message local>.IsEndOfChunk
  | isNil (e : SE)                      -- e == nil
  | cmp (op : Cmp) (a b : IE)
  | and (a b : BE)
  | or (a b : BE)
  | not (a : BE)

inductive Stmt where
  | skip
  | seq (a b : Stmt)
  | ite (c : BE) (t e : Stmt)
  | loop (body : Stmt)                  -- for { body }
  | cont                                -- continue
  | ret (ss : List SE) (is : List IE) (bs : List BE)   -- return: operands by kind, each kind in source order
  | setS (i : Nat) (e : SE)             -- slice local (declaration or assignment)
  | setBuf (e : SE)                     -- g.buf = e
  | setReq (e : SE)                     -- w.request.StefBytes = e
  | setReqEoc (e : BE)                  -- w.request.IsEndOfChunk = e
  | setI (v : IVar) (e : IE)            -- v = e
  | addI (v : IVar) (e : IE)            -- v += e ; v++
  | setB (i : Nat) (e : BE)
  | copy (v : IVar) (dst : Nat) (src : SE)        -- v = copy(<dst-th slice local>, src)
  | srcRecv (s b e : Nat)               -- <s>, <b>, <e> := g.source.recvMsg()
  | asmRecv (s e : Nat)                 -- <s>, <e> := g.recvMsg()
  | streamRecv (m e : Nat)              -- <m>, <e> := r.serverStream.Recv()
  | send (e : Nat)                      -- <e> := w.stream.Send(&w.request)
  | lock                                -- g.statsMux.Lock()
  | unlock                              -- g.statsMux.Unlock()

infixr:30 " ;; " => Stmt.seq

/-- interpreter state -/
structure Ex where
  g : AsmG
  w : Wr := {}
  sl : Nat → Sl := fun _ => none
  il : Nat → Nat := fun _ => 0
  bl : Nat → Bool := fun _ => false
  ml : Nat → Wire := fun _ => ⟨none, false⟩
  ctl : Ctl := .run
  rs : List Sl := []                    -- the returned values, by kind
  ri : List Nat := []
  rb : List Bool := []
  locked : Bool := false
  lockOk : Bool := true

def upd {α : Type} (env : Nat → α) (i : Nat) (v : α) : Nat → α := fun j => if j = i then v else env j

def IVar.read (x : Ex) : IVar → Nat
  | .loc i => x.il i
  | .readIndex => x.g.readIndex
  | .statMsgs => x.g.statMsgs
  | .statBytes => x.g.statBytes
  | .srcMsgs => x.g.source.messagesReceived

def IVar.isStat : IVar → Bool
  | .statMsgs | .statBytes => true
  | _ => false

/-- assignment to an integer variable (ghost: the statistics need the mutex) -/
def IVar.write (x : Ex) (v : IVar) (n : Nat) : Ex :=
  let x := if v.isStat && !x.locked then { x with lockOk := false } else x
  match v with
  | .loc i => { x with il := upd x.il i n }
  | .readIndex => { x with g := { x.g with readIndex := n } }
  | .statMsgs => { x with g := { x.g with statMsgs := n } }
  | .statBytes => { x with g := { x.g with statBytes := n } }
  | .srcMsgs => { x with g := { x.g with source := { x.g.source with messagesReceived := n } } }

mutual
def IE.eval (x : Ex) : IE → Nat
  | .lit n => n
  | .get v => v.read x
  | .len e => (SE.eval x e).len
  | .add a b => IE.eval x a + IE.eval x b
def SE.eval (x : Ex) : SE → Sl
  | .nil => none
  | .var i => x.sl i
  | .buf => x.g.buf
  | .req => x.w.request.stefBytes
  | .msg i => (x.ml i).stefBytes
  | .from e i => (SE.eval x e).from (IE.eval x i)
  | .upto e i => (SE.eval x e).upto (IE.eval x i)
  | .append a b => (SE.eval x a).append (SE.eval x b)
end

/- `ok`: every slice expression inside is in range (otherwise the Go code panics) -/
mutual
def IE.ok (x : Ex) : IE → Bool
  | .lit _ => true
  | .get _ => true
  | .len e => SE.ok x e
  | .add a b => IE.ok x a && IE.ok x b
def SE.ok (x : Ex) : SE → Bool
  | .nil | .var _ | .buf | .req | .msg _ => true
  | .from e i => SE.ok x e && IE.ok x i && decide (IE.eval x i ≤ (SE.eval x e).len)
  | .upto e i => SE.ok x e && IE.ok x i && decide (IE.eval x i ≤ (SE.eval x e).len)
  | .append a b => SE.ok x a && SE.ok x b
end

def BE.eval (x : Ex) : BE → Bool
  | .lit b => b
  | .var i => x.bl i
  | .msgEoc i => (x.ml i).isEndOfChunk
  | .isNil e => (SE.eval x e).isNone
  | .cmp op a b => op.eval (IE.eval x a) (IE.eval x b)
  | .and a b => a.eval x && b.eval x
  | .or a b => a.eval x || b.eval x
  | .not a => !(a.eval x)

def BE.ok (x : Ex) : BE → Bool
  | .lit _ | .var _ | .msgEoc _ => true
  | .isNil e => SE.ok x e
  | .cmp _ a b => IE.ok x a && IE.ok x b
  | .and a b => a.ok x && b.ok x          -- (short-circuit evaluation is not exploited: stricter)
  | .or a b => a.ok x && b.ok x
  | .not a => a.ok x

/-- run `x'` unless an expression of the statement is out of range -/
def chk (ok : Bool) (x x' : Ex) : Ex := if ok then x' else { x with ctl := .panic }

/-- Go: `serverStream.Recv()` -/
def streamRecv (r : Src) : Src × Wire × Bool :=
  match r.stream with
  | [] => (r, ⟨none, false⟩, true)
  | m :: rest => ({ r with stream := rest }, m, false)

/-- the meaning of the calls of translated functions from translated functions -/
structure Calls where
  srcRecvMsg : Src → Src × Sl × Bool × Bool × Bool   -- grpcChunkSource.recvMsg: (bytes, isEndOfChunk, err, fine)
  asmRecvMsg : AsmG → AsmG × Sl × Bool × Bool        -- chunkAssembler.recvMsg: (bytes, err, fine)

/-- iterate a loop body: `fuel` iterations at most -/
def loopN (f : Ex → Ex) : Nat → Ex → Ex
  | 0, x => { x with ctl := .stuck }
  | n + 1, x =>
    let x1 := f x
    match x1.ctl with
    | .run | .cont => loopN f n { x1 with ctl := .run }
    | _ => x1

def exec (cs : Calls) : Stmt → Ex → Ex
  | .skip, x => x
  | .seq a b, x =>
    let x1 := exec cs a x
    if x1.ctl = .run then exec cs b x1 else x1
  | .ite c t e, x => chk (c.ok x) x (if c.eval x then exec cs t x else exec cs e x)
  | .loop body, x => loopN (exec cs body) (x.g.source.stream.length + 1) x
  | .cont, x => { x with ctl := .cont }
  | .ret ss is bs, x =>
    chk (ss.all (SE.ok x) && is.all (IE.ok x) && bs.all (BE.ok x)) x
      { x with ctl := .ret, rs := ss.map (SE.eval x), ri := is.map (IE.eval x), rb := bs.map (BE.eval x),
               lockOk := x.lockOk && !x.locked }
  | .setS i e, x => chk (SE.ok x e) x { x with sl := upd x.sl i (SE.eval x e) }
  | .setBuf e, x => chk (SE.ok x e) x { x with g := { x.g with buf := SE.eval x e } }
  | .setReq e, x => chk (SE.ok x e) x { x with w := { x.w with request := { x.w.request with stefBytes := SE.eval x e } } }
  | .setReqEoc e, x => chk (e.ok x) x { x with w := { x.w with request := { x.w.request with isEndOfChunk := e.eval x } } }
  | .setI v e, x => chk (IE.ok x e) x (v.write x (IE.eval x e))
  | .addI v e, x => chk (IE.ok x e) x (v.write x (v.read x + IE.eval x e))
  | .setB i e, x => chk (e.ok x) x { x with bl := upd x.bl i (e.eval x) }
  | .copy v dst src, x =>
    chk (SE.ok x src) x
      (let r := copyInto (x.sl dst) (SE.eval x src)
       v.write { x with sl := upd x.sl dst r.1 } r.2)
  | .srcRecv s b e, x =>
    let r := cs.srcRecvMsg x.g.source
    { x with g := { x.g with source := r.1 }, sl := upd x.sl s r.2.1, bl := upd (upd x.bl b r.2.2.1) e r.2.2.2.1,
             lockOk := x.lockOk && r.2.2.2.2 }
  | .asmRecv s e, x =>
    let r := cs.asmRecvMsg x.g
    { x with g := r.1, sl := upd x.sl s r.2.1, bl := upd x.bl e r.2.2.1, lockOk := x.lockOk && r.2.2.2 }
  | .streamRecv m e, x =>
    let r := streamRecv x.g.source
    { x with g := { x.g with source := r.1 }, ml := upd x.ml m r.2.1, bl := upd x.bl e r.2.2 }
  | .send e, x =>
    if x.w.sendFails then { x with bl := upd x.bl e true }
    else { x with bl := upd x.bl e false, w := { x.w with sent := x.w.sent ++ [x.w.request] } }
  | .lock, x => { x with locked := true, lockOk := x.lockOk && !x.locked }
  | .unlock, x => { x with locked := false, lockOk := x.lockOk && x.locked }

/-- calls that a body without calls of translated functions never looks at -/
def noCalls : Calls :=
  { srcRecvMsg := fun r => (r, none, false, true, false), asmRecvMsg := fun g => (g, none, true, false) }

/-- the outcome of a function body: a proper return, without panic / stuck loop / lock misuse, and
    every callee returned properly too (`lockOk` collects the callees' `fine`) -/
def Ex.fine (x : Ex) : Bool := x.ctl == .ret && x.lockOk && !x.locked

/-! ### the four translated functions, given their bodies (parameters are the first locals of their
    kind, in order; the generator checks the Go signatures) -/

/-- `func (r *grpcChunkSource) recvMsg() (tefBytes []byte, isEndOfChunk bool, err error)` -/
def srcRecvMsgOf (body : Stmt) (r : Src) : Src × Sl × Bool × Bool × Bool :=
  let x := exec noCalls body { g := { source := r } }
  (x.g.source, x.rs.getD 0 none, x.rb.getD 0 false, x.rb.getD 1 false, x.fine)

/-- `func (g *chunkAssembler) recvMsg() (chunkBytes []byte, err error)` -/
def asmRecvMsgOf (srcBody body : Stmt) (g : AsmG) : AsmG × Sl × Bool × Bool :=
  let x := exec { noCalls with srcRecvMsg := srcRecvMsgOf srcBody } body { g := g }
  (x.g, x.rs.getD 0 none, x.rb.getD 0 false, x.fine)

structure ReadResult where
  g : AsmG
  p : Sl                                -- the caller's buffer after the call
  n : Nat
  err : Bool
  fine : Bool

/-- `func (g *chunkAssembler) Read(p []byte) (n int, err error)` -/
def readOf (srcBody recvBody body : Stmt) (g : AsmG) (p : Sl) : ReadResult :=
  let x := exec { srcRecvMsg := srcRecvMsgOf srcBody, asmRecvMsg := asmRecvMsgOf srcBody recvBody } body
             { g := g, sl := upd (fun _ => none) 0 p }
  { g := x.g, p := x.sl 0, n := x.ri.getD 0 0, err := x.rb.getD 0 false, fine := x.fine }

/-- what the caller of `Read` may look at: `p[:n]` -/
def ReadResult.out (r : ReadResult) : Bytes := (r.p.getD []).take r.n

/-- a consumer calling `Read` with the buffers `ps`, up to the first error (as `Asm.run` of Stef/Chunk.lean):
    the bytes handed out by the successful reads (`p[:n]` each), the final state, whether an error was met. -/
def runOf (read : AsmG → Sl → ReadResult) (g : AsmG) : List Sl → List Bytes × AsmG × Bool
  | [] => ([], g, false)
  | p :: ps =>
    let r := read g p
    if r.err then ([], r.g, true)
    else let t := runOf read r.g ps; (r.out :: t.1, t.2.1, t.2.2)

/-- `func (w *grpcWriter) WriteChunk(header []byte, content []byte) error` -/
def writeChunkOf (body : Stmt) (w : Wr) (header content : Sl) : Wr × Bool × Bool :=
  let x := exec noCalls body
             { g := { source := { stream := [] } }, w := w, sl := upd (upd (fun _ => none) 0 header) 1 content }
  (x.w, x.rb.getD 0 false, x.fine)

/-- a producer calling `WriteChunk` for each (header, content), every `Send` succeeding -/
def writeAllOf (writeChunk : Wr → Sl → Sl → Wr × Bool × Bool) (w : Wr) (cs : List (Sl × Sl)) : Wr :=
  cs.foldl (fun w c => (writeChunk w c.1 c.2).1) w

/-! ### closed facts about the regenerated data (checked by `decide` in Proofs/ChunkGen.lean) -/

/-- the slice an expression is rooted at, through `e[i:]`, `e[:i]` and the first operand of `append` -/
def SE.root : SE → SE
  | .from e _ => e.root
  | .upto e _ => e.root
  | .append a _ => a.root
  | e => e

def SE.isReq : SE → Bool
  | .req => true
  | _ => false

/-- every assignment to `w.request.StefBytes` builds on `w.request.StefBytes` itself (`x[:0]`,
    `append(x, ..)`): the message never aliases a slice of the caller (header / content). -/
def Stmt.ownsRequestBuffer : Stmt → Bool
  | .seq a b => a.ownsRequestBuffer && b.ownsRequestBuffer
  | .ite _ t e => t.ownsRequestBuffer && e.ownsRequestBuffer
  | .loop b => b.ownsRequestBuffer
  | .setReq e => e.root.isReq
  | _ => true

/-- number of `Send` calls on some path / presence of a loop -/
def Stmt.sends : Stmt → Nat
  | .seq a b => a.sends + b.sends
  | .ite _ t e => max t.sends e.sends
  | .loop b => b.sends
  | .send _ => 1
  | _ => 0

def Stmt.hasLoop : Stmt → Bool
  | .seq a b => a.hasLoop || b.hasLoop
  | .ite _ t e => t.hasLoop || e.hasLoop
  | .loop _ => true
  | _ => false

end Stef.ChunkFlowSem
