/-
  Stef.ResponderFlowSem: the statement language into which /verif/extract (responderflow.go)
  translates the bodies of the receiver's Responder (otelcol/internal/stefreceiver/internal/
  responder.go: Run, sendBadDataResponse, composeBadDataResponse, ScheduleAck,
  ScheduleBadDataResponse, Stop) and the decoding loop of onStream
  (otelcol/internal/stefreceiver/stef.go); Gen/ResponderFlow.lean is DATA (values of `Stmt` / `LStmt`).
  This file is written by hand and is the MEANING given to each whitelisted Go statement: a small-step
  machine with call frames over the shared part of `Stef.Receiver.State`. The ORDER of the statements,
  the arms of each select, what each arm loads, receives, composes and sends, the conditions and what is
  assigned to what come from the Go source. Proofs/ResponderGen.lean proves that the machine running the
  regenerated data makes exactly the Responder transitions of the hand-written LTS (Stef/Receiver.lean).

  Granularity (the same as the hand LTS): one step of the machine is one POTENTIALLY BLOCKING operation -
  a `select` (which arm is taken), a channel send, a `SendDataResponse` call (ok / failed) - followed by
  every non-blocking statement up to the next one (`settle`): assignments, `if`, calls and returns of the
  Responder's own functions, `nextAckID.Load()` / `.Store()`, `lastError.Store()`, `close(stopCh)`.
  Locals are numbered per function and per type in order of declaration (parameters first), so their
  names do not matter. uint64 is `Nat` (no wrap-around below 2^64, as in the hand model).
-/
import Stef.Receiver

namespace Stef.ResponderFlowSem
open Stef.Receiver

/-- the Responder's own functions that Run calls -/
inductive Fn where
  | sendBad      -- r.sendBadDataResponse(response, badData, lastAckedID) uint64
  | compose      -- r.composeBadDataResponse(response, badData)
deriving DecidableEq, Repr

/-- expressions of type uint64 -/
inductive NExpr where
  | lit (n : Nat)
  | var (i : Nat)          -- i-th uint64 local / parameter of the function
  | respAck (r : Nat)      -- <r-th *STEFDataResponse local>.AckRecordId
  | bdFrom (b : Nat)       -- <b-th BadData local>.FromID
  | bdTo (b : Nat)         -- <b-th BadData local>.ToID
  | add (a b : NExpr)      -- a + b
deriving Repr

inductive Cond where
  | lt (a b : NExpr)
  | le (a b : NExpr)
  | gt (a b : NExpr)
  | ge (a b : NExpr)
deriving Repr

mutual
inductive Stmt where
  | skip
  | seq (a b : Stmt)
  | newTicker                                   -- t := time.NewTicker(..)
  | declN (i : Nat)                             -- var x uint64
  | setN (i : Nat) (e : NExpr)                  -- x := e  /  x = e
  | newResp (r : Nat) (nRanges : Nat)           -- x := &stef_proto.STEFDataResponse{BadDataRecordIdRanges: {{}, ..}}
  | loadAck (i : Nat)                           -- x := r.nextAckID.Load()
  | storeAck (e : NExpr)                        -- r.nextAckID.Store(e)
  | setRespAck (r : Nat) (e : NExpr)            -- resp.AckRecordId = e
  | truncRanges (r : Nat) (n : Nat)             -- resp.BadDataRecordIdRanges = resp.BadDataRecordIdRanges[:n]
  | setRangeFrom (r idx : Nat) (e : NExpr)      -- resp.BadDataRecordIdRanges[idx].FromId = e
  | setRangeTo (r idx : Nat) (e : NExpr)        -- resp.BadDataRecordIdRanges[idx].ToId = e
  | appendRange (r : Nat) (f t : NExpr)         -- resp.Ranges = append(resp.Ranges, &STEFIDRange{FromId: f, ToId: t})
  | ite (c : Cond) (t e : Stmt)
  | sendResp (r : Nat) (onErr : Stmt)           -- if err := r.stream.SendDataResponse(resp); err != nil { onErr }
  | logError                                    -- r.logger.Error(..)
  | storeLastError                              -- r.lastError.Store(err)
  | sel (arms : Arms)                           -- select { .. }
  | loop (body : Stmt)                          -- for { body }
  | ret (e : Option NExpr)                      -- return  /  return e
  | call (f : Fn) (dst : Option Nat) (refs bds : List Nat) (nats : List NExpr)
                                                -- [x =] r.f(args): response / BadData / uint64 arguments
  | chanSendBad (b : Nat)                       -- r.badDataCh <- x           (a BLOCKING send)
  | closeStop                                   -- close(r.stopCh)
inductive Arms where
  | nil
  | recvBad (b : Nat) (body : Stmt) (rest : Arms)    -- case x := <-r.badDataCh:
  | recvTick (body : Stmt) (rest : Arms)             -- case <-t.C:
  | recvStop (body : Stmt) (rest : Arms)             -- case <-r.stopCh:
  | sendBad (b : Nat) (body : Stmt) (rest : Arms)    -- case r.badDataCh <- x:
  | dflt (body : Stmt) (rest : Arms)                 -- default:
end

infixr:30 " ;; " => Stmt.seq

/-- a function: the initial values of its non-parameter locals (zero values; one entry per local, so
    the lengths are the numbers of locals) and its body -/
structure FnDecl where
  localsN : List Nat := []
  localsB : List Range := []
  localsR : List Nat := []
  body : Stmt

abbrev Prog := Fn → FnDecl

/-! ### the machine -/

/-- a `stef_proto.STEFDataResponse` value -/
structure Obj where
  ack : Nat
  ranges : List Range

structure Frame where
  nats : List Nat          -- uint64 locals
  bds : List Range         -- BadData locals
  refs : List Nat          -- *STEFDataResponse locals: indices into `Cfg.objs`
  k : List Stmt            -- what is left to execute in this function

structure Cfg where
  top : Frame
  stack : List (Frame × Option Nat) := []   -- callers, with the uint64 local that receives the result
  objs : List Obj := []
  panicked : Bool := false                  -- a slice index / re-slice out of range

def Cfg.withK (c : Cfg) (k : List Stmt) : Cfg := { c with top := { c.top with k := k } }

def Cfg.obj (c : Cfg) (r : Nat) : Obj := c.objs.getD (c.top.refs.getD r 0) ⟨0, []⟩

def Cfg.setObj (c : Cfg) (r : Nat) (o : Obj) : Cfg := { c with objs := c.objs.set (c.top.refs.getD r 0) o }

def NExpr.eval (c : Cfg) : NExpr → Nat
  | .lit n => n
  | .var i => c.top.nats.getD i 0
  | .respAck r => (c.obj r).ack
  | .bdFrom b => (c.top.bds.getD b (0, 0)).1
  | .bdTo b => (c.top.bds.getD b (0, 0)).2
  | .add a b => a.eval c + b.eval c

def Cond.eval (c : Cfg) : Cond → Bool
  | .lt a b => decide (a.eval c < b.eval c)
  | .le a b => decide (a.eval c ≤ b.eval c)
  | .gt a b => decide (a.eval c > b.eval c)
  | .ge a b => decide (a.eval c ≥ b.eval c)

def mkFrame (d : FnDecl) (refs : List Nat) (bds : List Range) (nats : List Nat) : Frame :=
  { nats := nats ++ d.localsN, bds := bds ++ d.localsB, refs := refs ++ d.localsR, k := [d.body] }

/-- One NON-BLOCKING statement (`none`: the head of the continuation is a blocking operation, or the
    goroutine has finished, or it has panicked). Reads and writes the shared fields `nextAck`,
    `lastError`, `stopReq` of the receiver state. -/
def sstep (p : Prog) (c : Cfg) (s : State) : Option (Cfg × State) :=
  if c.panicked then none else
  match c.top.k with
  | [] =>
    match c.stack with
    | [] => none
    | (f, _) :: tl => some ({ c with top := f, stack := tl }, s)    -- end of a function without `return`
  | st :: rest =>
    match st with
    | .skip => some (c.withK rest, s)
    | .seq a b => some (c.withK (a :: b :: rest), s)
    | .newTicker => some (c.withK rest, s)
    | .declN i => some ({ c with top := { c.top with nats := c.top.nats.set i 0, k := rest } }, s)
    | .setN i e => some ({ c with top := { c.top with nats := c.top.nats.set i (e.eval c), k := rest } }, s)
    | .newResp r n =>
      some ({ c with top := { c.top with refs := c.top.refs.set r c.objs.length, k := rest },
                     objs := c.objs ++ [⟨0, List.replicate n (0, 0)⟩] }, s)
    | .loadAck i => some ({ c with top := { c.top with nats := c.top.nats.set i s.nextAck, k := rest } }, s)
    | .storeAck e => some (c.withK rest, { s with nextAck := e.eval c })
    | .setRespAck r e => some ((c.setObj r ⟨e.eval c, (c.obj r).ranges⟩).withK rest, s)
    | .truncRanges r n =>
      if n ≤ (c.obj r).ranges.length then
        some ((c.setObj r ⟨(c.obj r).ack, (c.obj r).ranges.take n⟩).withK rest, s)
      else some ({ c with panicked := true }, s)
    | .setRangeFrom r idx e =>
      if idx < (c.obj r).ranges.length then
        some ((c.setObj r ⟨(c.obj r).ack,
          List.set (c.obj r).ranges idx (e.eval c, ((c.obj r).ranges.getD idx (0, 0)).2)⟩).withK rest, s)
      else some ({ c with panicked := true }, s)
    | .setRangeTo r idx e =>
      if idx < (c.obj r).ranges.length then
        some ((c.setObj r ⟨(c.obj r).ack,
          List.set (c.obj r).ranges idx (((c.obj r).ranges.getD idx (0, 0)).1, e.eval c)⟩).withK rest, s)
      else some ({ c with panicked := true }, s)
    | .appendRange r f t =>
      some ((c.setObj r ⟨(c.obj r).ack, (c.obj r).ranges ++ [(f.eval c, t.eval c)]⟩).withK rest, s)
    | .ite cnd t e => some (c.withK ((if cnd.eval c then t else e) :: rest), s)
    | .sendResp _ _ => none
    | .logError => some (c.withK rest, s)
    | .storeLastError => some (c.withK rest, { s with lastError := true })
    | .sel _ => none
    | .loop b => some (c.withK (b :: .loop b :: rest), s)
    | .ret e =>
      match c.stack with
      | [] => some (c.withK [], s)                                  -- the goroutine's function returns
      | (f, dst) :: tl =>
        match dst, e with
        | some i, some e => some ({ c with top := { f with nats := f.nats.set i (e.eval c) }, stack := tl }, s)
        | _, _ => some ({ c with top := f, stack := tl }, s)
    | .call fn dst refs bds nats =>
      some ({ c with top := mkFrame (p fn) (refs.map (fun r => c.top.refs.getD r 0))
                              (bds.map (fun b => c.top.bds.getD b (0, 0))) (nats.map (·.eval c)),
                     stack := ({ c.top with k := rest }, dst) :: c.stack }, s)
    | .chanSendBad _ => none
    | .closeStop => some (c.withK rest, { s with stopReq := true })

/-- run non-blocking statements until the next blocking operation -/
def settle (p : Prog) : Nat → Cfg × State → Cfg × State
  | 0, x => x
  | n + 1, x =>
    match sstep p x.1 x.2 with
    | none => x
    | some y => settle p n y

/-- more than the longest chain of non-blocking statements between two blocking operations -/
def fuel : Nat := 64

def Arms.findRecvBad : Arms → Option (Nat × Stmt)
  | .nil => none
  | .recvBad b body _ => some (b, body)
  | .recvTick _ r => r.findRecvBad
  | .recvStop _ r => r.findRecvBad
  | .sendBad _ _ r => r.findRecvBad
  | .dflt _ r => r.findRecvBad

def Arms.findTick : Arms → Option Stmt
  | .nil => none
  | .recvTick body _ => some body
  | .recvBad _ _ r => r.findTick
  | .recvStop _ r => r.findTick
  | .sendBad _ _ r => r.findTick
  | .dflt _ r => r.findTick

def Arms.findStop : Arms → Option Stmt
  | .nil => none
  | .recvStop body _ => some body
  | .recvBad _ _ r => r.findStop
  | .recvTick _ r => r.findStop
  | .sendBad _ _ r => r.findStop
  | .dflt _ r => r.findStop

def Arms.findSendBad : Arms → Option (Nat × Stmt)
  | .nil => none
  | .sendBad b body _ => some (b, body)
  | .recvBad _ _ r => r.findSendBad
  | .recvTick _ r => r.findSendBad
  | .recvStop _ r => r.findSendBad
  | .dflt _ r => r.findSendBad

def Arms.findDflt : Arms → Option Stmt
  | .nil => none
  | .dflt body _ => some body
  | .recvBad _ _ r => r.findDflt
  | .recvTick _ r => r.findDflt
  | .recvStop _ r => r.findDflt
  | .sendBad _ _ r => r.findDflt

/-- some channel arm can proceed (then `default:` is not taken). The ticker may or may not have
    fired: a ticker arm never forces the default out. -/
def Arms.ready (cap : Nat) (s : State) : Arms → Bool
  | .nil => false
  | .recvBad _ _ r => !s.queue.isEmpty || r.ready cap s
  | .recvStop _ r => s.stopReq || r.ready cap s
  | .sendBad _ _ r => decide (s.queue.length < cap) || r.ready cap s
  | .recvTick _ r => r.ready cap s
  | .dflt _ r => r.ready cap s

/-- the outcomes of the blocking operations -/
inductive GEv where
  | recvBad      -- a `case x := <-r.badDataCh` arm is taken (the channel is not empty)
  | tick         -- the `case <-t.C` arm is taken
  | stopRecv     -- the `case <-r.stopCh` arm is taken (the channel is closed)
  | dflt         -- the `default:` arm is taken (no channel arm can proceed)
  | chanSend     -- `r.badDataCh <- x` proceeds (there is room in the channel)
  | sendOk       -- SendDataResponse returned nil
  | sendFail     -- SendDataResponse returned an error
deriving DecidableEq, Repr

/-- The blocking operation at the head of the continuation proceeds with outcome `ge`.
    `cap`: capacity of `badDataCh`. `none`: not enabled. -/
def rpre (cap : Nat) (c : Cfg) (s : State) (ge : GEv) : Option (Cfg × State) :=
  if c.panicked then none else
  match c.top.k with
  | .sel arms :: rest =>
    match ge with
    | .recvBad =>
      match arms.findRecvBad, s.queue with
      | some (b, body), h :: tl =>
        some ({ c with top := { c.top with bds := c.top.bds.set b h, k := body :: rest } }, { s with queue := tl })
      | _, _ => none
    | .tick =>
      match arms.findTick with
      | some body => some (c.withK (body :: rest), s)
      | none => none
    | .stopRecv =>
      match arms.findStop with
      | some body => if s.stopReq then some (c.withK (body :: rest), s) else none
      | none => none
    | .dflt =>
      match arms.findDflt with
      | some body => if arms.ready cap s then none else some (c.withK (body :: rest), s)
      | none => none
    | .chanSend =>
      match arms.findSendBad with
      | some (b, body) =>
        if s.queue.length < cap then
          some (c.withK (body :: rest), { s with queue := s.queue ++ [c.top.bds.getD b (0, 0)] })
        else none
      | none => none
    | _ => none
  | .sendResp r onErr :: rest =>
    match ge with
    | .sendOk =>
      if s.broken then none
      else some (c.withK rest, { s with resps := ⟨(c.obj r).ack, (c.obj r).ranges, true⟩ :: s.resps })
    | .sendFail =>
      some (c.withK (onErr :: rest),
        { s with resps := ⟨(c.obj r).ack, (c.obj r).ranges, false⟩ :: s.resps, broken := true })
    | _ => none
  | .chanSendBad b :: rest =>
    match ge with
    | .chanSend =>
      if s.queue.length < cap then
        some (c.withK rest, { s with queue := s.queue ++ [c.top.bds.getD b (0, 0)] })
      else none
    | _ => none
  | _ => none

/-- One step of a goroutine: the blocking operation at the head of its continuation proceeds with
    outcome `ge` (as in `rpre`), then every non-blocking statement up to the next blocking operation
    (`settle`). Written out (rather than `(rpre ..).map (settle ..)`) so that it unfolds on concrete
    configurations; `rstep_eq_rpre` in Proofs/ResponderGen.lean. -/
def rstep (p : Prog) (cap : Nat) (c : Cfg) (s : State) (ge : GEv) : Option (Cfg × State) :=
  if c.panicked then none else
  match c.top.k with
  | .sel arms :: rest =>
    match ge with
    | .recvBad =>
      match arms.findRecvBad, s.queue with
      | some (b, body), h :: tl =>
        some (settle p fuel ({ c with top := { c.top with bds := c.top.bds.set b h, k := body :: rest } },
                              { s with queue := tl }))
      | _, _ => none
    | .tick =>
      match arms.findTick with
      | some body => some (settle p fuel (c.withK (body :: rest), s))
      | none => none
    | .stopRecv =>
      match arms.findStop with
      | some body => if s.stopReq then some (settle p fuel (c.withK (body :: rest), s)) else none
      | none => none
    | .dflt =>
      match arms.findDflt with
      | some body => if arms.ready cap s then none else some (settle p fuel (c.withK (body :: rest), s))
      | none => none
    | .chanSend =>
      match arms.findSendBad with
      | some (b, body) =>
        if s.queue.length < cap then
          some (settle p fuel (c.withK (body :: rest), { s with queue := s.queue ++ [c.top.bds.getD b (0, 0)] }))
        else none
      | none => none
    | _ => none
  | .sendResp r onErr :: rest =>
    match ge with
    | .sendOk =>
      if s.broken then none
      else some (settle p fuel (c.withK rest, { s with resps := ⟨(c.obj r).ack, (c.obj r).ranges, true⟩ :: s.resps }))
    | .sendFail =>
      some (settle p fuel (c.withK (onErr :: rest),
        { s with resps := ⟨(c.obj r).ack, (c.obj r).ranges, false⟩ :: s.resps, broken := true }))
    | _ => none
  | .chanSendBad b :: rest =>
    match ge with
    | .chanSend =>
      if s.queue.length < cap then
        some (settle p fuel (c.withK rest, { s with queue := s.queue ++ [c.top.bds.getD b (0, 0)] }))
      else none
    | _ => none
  | _ => none

/-- a goroutine that starts executing function `d` with the given arguments -/
def start (p : Prog) (d : FnDecl) (bds : List Range) (nats : List Nat) (s : State) : Cfg × State :=
  settle p fuel ({ top := mkFrame d [] bds nats }, s)

/-- the goroutine has returned from its function -/
def Cfg.finished (c : Cfg) : Bool := c.top.k.isEmpty && c.stack.isEmpty && !c.panicked

/-! ### syntactic facts about the regenerated data (evaluated by `decide` in Proofs/ResponderGen.lean) -/

mutual
/-- the statement contains a `SendDataResponse` call or a call of one of the Responder's functions -/
def Stmt.sendsOrCalls : Stmt → Bool
  | .seq a b => a.sendsOrCalls || b.sendsOrCalls
  | .ite _ t e => t.sendsOrCalls || e.sendsOrCalls
  | .sendResp _ _ => true
  | .call _ _ _ _ _ => true
  | .sel a => a.sendsOrCalls
  | .loop b => b.sendsOrCalls
  | _ => false
def Arms.sendsOrCalls : Arms → Bool
  | .nil => false
  | .recvBad _ body r => body.sendsOrCalls || r.sendsOrCalls
  | .recvTick body r => body.sendsOrCalls || r.sendsOrCalls
  | .recvStop body r => body.sendsOrCalls || r.sendsOrCalls
  | .sendBad _ body r => body.sendsOrCalls || r.sendsOrCalls
  | .dflt body r => body.sendsOrCalls || r.sendsOrCalls
end

/-- the body is exactly one blocking channel send of its BadData parameter -/
def Stmt.isBlockingSendOfParam : Stmt → Bool
  | .chanSendBad 0 => true
  | _ => false

/-- position of the first `nextAckID.Load()` / first `select` in a sequence (`none`: not at the top
    level of the sequence) -/
def Stmt.flatten : Stmt → List Stmt
  | .seq a b => a.flatten ++ b.flatten
  | s => [s]

def Stmt.isLoadAck : Stmt → Bool
  | .loadAck _ => true
  | _ => false

def Stmt.isSel : Stmt → Bool
  | .sel _ => true
  | _ => false

/-! ### the decoding loop of onStream

  `LStmt`: the body of the `for` loop of onStream. Its meaning is the list of actions of ONE iteration,
  given the answers of the three things the loop waits for (`Oracle`): is `LastError()` non-nil, did
  `Convert` deliver a batch (and of how many records), what did the consumer say. -/

/-- uint64 expressions of the loop: its locals and `+` -/
inductive LExpr where
  | lit (n : Nat)
  | var (i : Nat)
  | add (a b : LExpr)
deriving Repr

inductive LStmt where
  | skip
  | seq (a b : LStmt)
  | checkLastError                     -- e := resp.LastError(); if e != nil { log; return e }
  | recordCount (i : Nat)              -- x := reader.RecordCount()
  | convert                            -- mdata, err := converter.Convert(reader, false); if err != nil { ..; return err }
  | consume (onErr onOk : LStmt)       -- if err := r.nextMetrics.ConsumeMetrics(ctx, mdata); err != nil { onErr } else { onOk }
  | ifPermanent (t e : LStmt)          -- if consumererror.IsPermanent(err) { t } else { e }
  | log                                -- r.settings.Logger.<Level>(..)
  | schedBad (f t : LExpr)             -- resp.ScheduleBadDataResponse(internal.BadData{FromID: f, ToID: t})
  | schedAck (e : LExpr)               -- resp.ScheduleAck(e)
  | retErr                             -- return <non-nil error>
deriving Repr

infixr:30 " ;;; " => LStmt.seq

/-- what one iteration does, with the data it passes -/
inductive LAct where
  | checkErr (failed : Bool)
  | decode (n : Nat)
  | readFail
  | consume (o : Outcome)
  | schedAck (t : Nat)
  | schedBad (f t : Nat)
  | exit                               -- onStream returns (the deferred resp.Stop() runs)
deriving DecidableEq, Repr

structure Oracle where
  lastErr : Bool            -- resp.LastError() != nil
  conv : Option Nat         -- Convert: `some n` = a batch of n records, `none` = an error
  out : Outcome             -- the consumer's answer (`.pending` is not an answer)

structure LEnv where
  nats : List Nat
  decoded : Nat             -- reader.RecordCount()
  err : Outcome := .pending -- the consumer error in scope (`.accept`: nil)
  acts : List LAct := []    -- newest first
  done : Bool := false      -- a return statement was executed

def LExpr.eval (x : LEnv) : LExpr → Nat
  | .lit n => n
  | .var i => x.nats.getD i 0
  | .add a b => a.eval x + b.eval x

def lexec (o : Oracle) : LStmt → LEnv → LEnv
  | .skip, x => x
  | .seq a b, x =>
    let x1 := lexec o a x
    if x1.done then x1 else lexec o b x1
  | .checkLastError, x =>
    if o.lastErr then { x with acts := .exit :: .checkErr true :: x.acts, done := true }
    else { x with acts := .checkErr false :: x.acts }
  | .recordCount i, x => { x with nats := x.nats.set i x.decoded }
  | .convert, x =>
    match o.conv with
    | some n => { x with decoded := x.decoded + n, acts := .decode n :: x.acts }
    | none => { x with acts := .exit :: .readFail :: x.acts, done := true }
  | .consume onErr onOk, x =>
    let x1 := { x with err := o.out, acts := .consume o.out :: x.acts }
    if o.out = .accept then lexec o onOk x1 else lexec o onErr x1
  | .ifPermanent t e, x => if x.err = .perm then lexec o t x else lexec o e x
  | .log, x => x
  | .schedBad f t, x => { x with acts := .schedBad (f.eval x) (t.eval x) :: x.acts }
  | .schedAck e, x => { x with acts := .schedAck (e.eval x) :: x.acts }
  | .retErr, x => { x with acts := .exit :: x.acts, done := true }

/-- the actions of one iteration of the loop, oldest first; `nLocals` uint64 locals, all declared
    inside the loop body (checked by the generator) -/
def loopIter (body : LStmt) (nLocals : Nat) (decoded : Nat) (o : Oracle) : List LAct :=
  (lexec o body { nats := List.replicate nLocals 0, decoded := decoded }).acts.reverse

end Stef.ResponderFlowSem
