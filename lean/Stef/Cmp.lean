/-
  Stef.Cmp: generated records as value trees, and the generated three-way comparison, deep
  equality, Clone and CopyFrom, transcribed from stefc/templates/go/{struct,oneof,array,multimap}.go.tmpl
  (as instantiated in go/otel/otelstef/*.go). Core Lean only (linked into the driver).

  What is modelled
  ----------------
  * `PrimVal`           a primitive field value (uint64/int64/bool/float64 BIT PATTERN/string/bytes)
  * `primCompare/Equal` pkg.*Compare / pkg.*Equal: the regenerated `Stef.Gen.*` for the numeric ones,
                        `strCompare` (lexicographic bytes = strings.Compare) for string/bytes
  * `Value α`           a record tree over leaves `α`:
        leaf a                       a primitive
        null                         a nil pointer to a dictionary struct (Cmp<Struct> checks nil first)
        struct fs                    fields in schema order; each field carries its `Presence`
                                     (`req` = not optional, `present` / `absent` = optional field's
                                     presence bit) AND its stored value: an absent optional field still
                                     holds whatever was stored before (hidden state: Clone and
                                     CopyFrom carry it along or not, the dump of the harness shows
                                     it; since /repo 82431a4 neither Cmp nor IsEqual reads it)
        none / choice k v            a oneof with typ = None / typ = k+1 holding v (other alternatives
                                     are hidden state that neither Cmp nor IsEqual reads)
        arr es                       array
        mmap ps                      multimap: ordered key/value pairs
  * `cmp`               Cmp<Type>: struct = fields in order, optional: presence first (present > absent)
                        then the values when the field is present (`skipAbsent`; until /repo
                        82431a4 the stored values were compared even when both were absent); oneof = typ by
                        pkg.Uint64Compare, then the chosen alternative; array = len(left)-len(right)
                        then elements; multimap = keys over the common prefix, then
                        len(left)-len(right), then values; dict struct = nil first.
                        The result is an `Int` exactly as Go returns it (length differences are not
                        normalised to -1/1).
  * `isEqual`           IsEqual: absent optional fields are not compared either.
  * `copyNew`, `clone`, `copyFrom`   copyToNew<T>, <T>.Clone, copy<T> (= CopyFrom): see each definition.

  Values of one Go type always have the same constructor, field count and presence kinds. The
  functions are made total on ill-shaped pairs (which Go's type system excludes) by ordering
  constructors by `rank` and shorter field lists first; on well-shaped pairs this is unobservable,
  and it makes the order theorems hypothesis-free (they hold for ALL pairs of trees).
-/
import Stef.Base
import Stef.Flt
import Stef.Gen.Funcs

namespace Stef.Cmp
open Stef

/-- `if c != 0 { return c }; return d` -/
@[inline] def lex (c d : Int) : Int := if c = 0 then d else c

/-! ### primitives -/

/-- strings.Compare: lexicographic comparison of the bytes -/
def strCompare : Bytes → Bytes → Int
  | [], [] => 0
  | [], _ :: _ => -1
  | _ :: _, [] => 1
  | a :: as, b :: bs =>
    if BitVec.ult a b then -1 else if BitVec.ult b a then 1 else strCompare as bs

/-- Go `==` on strings -/
def strEqual (a b : Bytes) : Bool := a == b

inductive PrimVal where
  | u64 (w : Word)
  | i64 (w : Word)
  | bool (b : Bool)
  | f64 (bits : Word)
  | str (s : Bytes)
  | bytes (s : Bytes)
  deriving DecidableEq, Repr

def PrimVal.rank : PrimVal → Int
  | .u64 _ => 0 | .i64 _ => 1 | .bool _ => 2 | .f64 _ => 3 | .str _ => 4 | .bytes _ => 5

/-- pkg.Uint64Compare / Int64Compare / BoolCompare / Float64Compare / StringCompare / BytesCompare -/
def primCompare : PrimVal → PrimVal → Int
  | .u64 a, .u64 b => Gen.uint64Compare a b
  | .i64 a, .i64 b => Gen.int64Compare a b
  | .bool a, .bool b => Gen.boolCompare a b
  | .f64 a, .f64 b => Gen.float64Compare a b
  | .str a, .str b => strCompare a b
  | .bytes a, .bytes b => strCompare a b
  | a, b => a.rank - b.rank

/-- pkg.Uint64Equal / ... / BytesEqual -/
def primEqual : PrimVal → PrimVal → Bool
  | .u64 a, .u64 b => Gen.uint64Equal a b
  | .i64 a, .i64 b => Gen.int64Equal a b
  | .bool a, .bool b => Gen.boolEqual a b
  | .f64 a, .f64 b => Gen.float64Equal a b
  | .str a, .str b => strEqual a b
  | .bytes a, .bytes b => strEqual a b
  | _, _ => false

/-- the zero value of the same kind -/
def primZero : PrimVal → PrimVal
  | .u64 _ => .u64 0 | .i64 _ => .i64 0 | .bool _ => .bool false | .f64 _ => .f64 0
  | .str _ => .str [] | .bytes _ => .bytes []

/-! ### record trees -/

inductive Presence where
  | absent | present | req
  deriving DecidableEq, Repr

def Presence.rank : Presence → Int
  | .absent => 0 | .present => 1 | .req => 2

/-- `if leftPresent != rightPresent { if leftPresent { return 1 }; return -1 }` -/
def presCmp (p q : Presence) : Int := p.rank - q.rank

/-- `if left<Name>Present { if c := Cmp(...); c != 0 { return c } }` (struct.go.tmpl since /repo
    82431a4): reached with equal presence only; `p` is the left presence, `c` the comparison of the
    stored values. A required field is always compared. -/
@[inline] def skipAbsent (p : Presence) (c : Int) : Int :=
  match p with
  | .absent => 0
  | _ => c

mutual
inductive Value (α : Type) : Type where
  | leaf (a : α)
  | null
  | struct (fs : Fields α)
  | none
  | choice (k : BitVec 8) (v : Value α)
  | arr (es : Values α)
  | mmap (ps : Pairs α)
inductive Fields (α : Type) : Type where
  | nil
  | cons (p : Presence) (v : Value α) (rest : Fields α)
inductive Values (α : Type) : Type where
  | nil
  | cons (v : Value α) (rest : Values α)
inductive Pairs (α : Type) : Type where
  | nil
  | cons (k v : Value α) (rest : Pairs α)
end

variable {α : Type}

def Value.rank : Value α → Int
  | .leaf _ => 0 | .null => 1 | .struct _ => 2 | .none => 3 | .choice _ _ => 3 | .arr _ => 4 | .mmap _ => 5

def Values.len : Values α → Nat
  | .nil => 0
  | .cons _ r => r.len + 1

def Pairs.len : Pairs α → Nat
  | .nil => 0
  | .cons _ _ r => r.len + 1

/-- the oneof's `typ` as the `uint64(left.typ)` that Cmp<Oneof> passes to pkg.Uint64Compare -/
def typOf (k : BitVec 8) : Word := k.setWidth 64 + 1

/-- what the generated code needs of a primitive type -/
structure LeafOps (α : Type) where
  cmp : α → α → Int        -- pkg.<T>Compare
  eq : α → α → Bool        -- pkg.<T>Equal: IsEqual, and (negated) the guard of every generated setter
  zero : α → α             -- the Go zero value of the same type

def primOps : LeafOps PrimVal :=
  { cmp := primCompare, eq := primEqual, zero := primZero }

/-- a generated setter: `if !pkg.<T>Equal(dst, src) { dst = src }` -/
def LeafOps.set (o : LeafOps α) (dst src : α) : α := if o.eq dst src then dst else src

/-! ### Cmp<Type> -/

mutual
def cmp (o : LeafOps α) : Value α → Value α → Int
  | .leaf a, .leaf b => o.cmp a b
  | .null, .null => 0
  | .null, .struct _ => -1
  | .struct _, .null => 1
  | .struct fs, .struct gs => cmpFields o fs gs
  | .none, .none => Gen.uint64Compare 0#64 0#64
  | .none, .choice j _ => Gen.uint64Compare 0#64 (typOf j)
  | .choice k _, .none => Gen.uint64Compare (typOf k) 0#64
  | .choice k a, .choice j b => lex (Gen.uint64Compare (typOf k) (typOf j)) (cmp o a b)
  | .arr as, .arr bs => lex ((as.len : Int) - (bs.len : Int)) (cmpValues o as bs)
  | .mmap ps, .mmap qs => lex (cmpKeys o ps qs) (cmpVals o ps qs)
  | a, b => a.rank - b.rank
def cmpFields (o : LeafOps α) : Fields α → Fields α → Int
  | .nil, .nil => 0
  | .nil, .cons _ _ _ => -1
  | .cons _ _ _, .nil => 1
  | .cons p a as, .cons q b bs =>
    lex (presCmp p q) (lex (skipAbsent p (cmp o a b)) (cmpFields o as bs))
def cmpValues (o : LeafOps α) : Values α → Values α → Int
  | .nil, .nil => 0
  | .nil, .cons _ _ => -1
  | .cons _ _, .nil => 1
  | .cons a as, .cons b bs => lex (cmp o a b) (cmpValues o as bs)
/-- first loop of Cmp<Multimap> and the `lenDiff` that follows it -/
def cmpKeys (o : LeafOps α) : Pairs α → Pairs α → Int
  | .nil, .nil => 0
  | .nil, .cons _ _ qs => -((qs.len : Int) + 1)
  | .cons _ _ ps, .nil => (ps.len : Int) + 1
  | .cons k _ ps, .cons j _ qs => lex (cmp o k j) (cmpKeys o ps qs)
/-- second loop of Cmp<Multimap> (reached with equal lengths only) -/
def cmpVals (o : LeafOps α) : Pairs α → Pairs α → Int
  | .nil, .nil => 0
  | .nil, .cons _ _ _ => -1
  | .cons _ _ _, .nil => 1
  | .cons _ v ps, .cons _ w qs => lex (cmp o v w) (cmpVals o ps qs)
end

/-! ### IsEqual -/

mutual
def isEqual (o : LeafOps α) : Value α → Value α → Bool
  | .leaf a, .leaf b => o.eq a b
  | .null, .null => true
  | .struct fs, .struct gs => isEqualFields o fs gs
  | .none, .none => true
  | .choice k a, .choice j b => k == j && isEqual o a b
  | .arr as, .arr bs => isEqualValues o as bs
  | .mmap ps, .mmap qs => isEqualPairs o ps qs
  | _, _ => false
def isEqualFields (o : LeafOps α) : Fields α → Fields α → Bool
  | .nil, .nil => true
  | .cons p a as, .cons q b bs =>
    p == q && (p == .absent || isEqual o a b) && isEqualFields o as bs
  | _, _ => false
def isEqualValues (o : LeafOps α) : Values α → Values α → Bool
  | .nil, .nil => true
  | .cons a as, .cons b bs => isEqual o a b && isEqualValues o as bs
  | _, _ => false
def isEqualPairs (o : LeafOps α) : Pairs α → Pairs α → Bool
  | .nil, .nil => true
  | .cons k v ps, .cons j w qs => isEqual o k j && isEqual o v w && isEqualPairs o ps qs
  | _, _ => false
end

/-! ### the data a record holds: stored values of absent optional fields erased -/

mutual
/-- the state after `reset()` / of a freshly initialised value of the same type -/
def zero (o : LeafOps α) : Value α → Value α
  | .leaf a => .leaf (o.zero a)
  | .null => .null
  | .struct fs => .struct (zeroFields o fs)
  | .none => .none
  | .choice _ _ => .none
  | .arr _ => .arr .nil
  | .mmap _ => .mmap .nil
def zeroFields (o : LeafOps α) : Fields α → Fields α
  | .nil => .nil
  | .cons p v rest =>
    .cons (match p with | .req => .req | _ => .absent) (zero o v) (zeroFields o rest)
end

mutual
/-- the visible data: an absent optional field holds nothing (`null` as the placeholder) -/
def data : Value α → Value α
  | .leaf a => .leaf a
  | .null => .null
  | .struct fs => .struct (dataFields fs)
  | .none => .none
  | .choice k v => .choice k (data v)
  | .arr es => .arr (dataValues es)
  | .mmap ps => .mmap (dataPairs ps)
def dataFields : Fields α → Fields α
  | .nil => .nil
  | .cons .absent _ rest => .cons .absent .null (dataFields rest)
  | .cons p v rest => .cons p (data v) (dataFields rest)
def dataValues : Values α → Values α
  | .nil => .nil
  | .cons v rest => .cons (data v) (dataValues rest)
def dataPairs : Pairs α → Pairs α
  | .nil => .nil
  | .cons k v rest => .cons (data k) (data v) (dataPairs rest)
end

/-! ### copyToNew<T>(dst, src): copy into a freshly initialised dst -/

mutual
/-- copyToNew<T>. Struct: a required primitive goes through its setter (`if dst.x != v` against the
    fresh zero), an optional primitive is set only when present in src, composite fields are copied
    whether present or not; oneof: typ, then the chosen alternative (primitive: `if dst.x != src.x`);
    array and multimap elements are assigned directly. -/
def copyNew (o : LeafOps α) : Value α → Value α
  | .leaf a => .leaf a
  | .null => .null
  | .struct fs => .struct (copyNewFields o fs)
  | .none => .none
  | .choice k (.leaf a) => .choice k (.leaf (o.set (o.zero a) a))
  | .choice k v => .choice k (copyNew o v)
  | .arr es => .arr (copyNewValues o es)
  | .mmap ps => .mmap (copyNewPairs o ps)
def copyNewFields (o : LeafOps α) : Fields α → Fields α
  | .nil => .nil
  | .cons .req (.leaf a) rest => .cons .req (.leaf (o.set (o.zero a) a)) (copyNewFields o rest)
  | .cons .present (.leaf a) rest => .cons .present (.leaf a) (copyNewFields o rest)
  | .cons .absent (.leaf a) rest => .cons .absent (.leaf (o.zero a)) (copyNewFields o rest)
  | .cons p v rest => .cons p (copyNew o v) (copyNewFields o rest)
def copyNewValues (o : LeafOps α) : Values α → Values α
  | .nil => .nil
  | .cons v rest => .cons (copyNew o v) (copyNewValues o rest)
def copyNewPairs (o : LeafOps α) : Pairs α → Pairs α
  | .nil => .nil
  | .cons k v rest => .cons (copyNew o k) (copyNew o v) (copyNewPairs o rest)
end

/-! ### <T>.Clone -/

/-- Clone of a struct (struct.go.tmpl since /repo 82431a4): the composite literal copies every
    primitive field verbatim - the stored value of an absent optional one included - and
    `optionalFieldsPresent`, so every field keeps its presence; composite fields stored by value are
    copied by copyToNew whether present or not; a by-pointer field is `cloneShared` (shared when
    frozen, else cloned), an OPTIONAL by-pointer field only when the pointer is not nil (a nil stays
    nil: `null`, and copyNew null = null). cloneShared is modelled by copyNew: the value tree does not
    tell a by-pointer struct from a by-value one, and the two differ only in the stored value of an
    absent optional primitive inside the pointee (Clone keeps it, copyToNew leaves the zero), which
    is not data and which no type of go/otel has. (Until 82431a4 the presence bits were not copied:
    every optional field of a clone was absent.) -/
def cloneFields (o : LeafOps α) : Fields α → Fields α
  | .nil => .nil
  | .cons p (.leaf a) rest => .cons p (.leaf a) (cloneFields o rest)
  | .cons p v rest => .cons p (copyNew o v) (cloneFields o rest)

/-- <T>.Clone (structs and oneofs have it; arrays/multimaps are cloned by copyToNew) -/
def clone (o : LeafOps α) : Value α → Value α
  | .struct fs => .struct (cloneFields o fs)
  | .choice k (.leaf a) => .choice k (.leaf a)
  | v => copyNew o v

/-! ### copy<T>(dst, src) = dst.CopyFrom(src) -/

/-- the guard of copy<Multimap> on one key or value: composite `dst.IsEqual(src)`, primitive
    `pkg.<T>Equal(dst, src)` - which is what `isEqual` is on two leaves. (Until /repo d9a1aae the
    primitive branch used Go's `!=`: a -0.0 was not copied over a +0.0.) -/
def keepElem (o : LeafOps α) (d s : Value α) : Bool := isEqual o d s

mutual
/-- copy<T>(dst, src), the new state of dst. Transcribed per template; `dst` is assumed never to
    have been shrunk (slots of a slice beyond its length hold zero values). Ill-shaped pairs copy
    into a fresh value. -/
def copyFrom (o : LeafOps α) : Value α → Value α → Value α
  | .leaf d, .leaf s => .leaf (o.set d s)
  | .struct ds, .struct ss => .struct (copyFromFields o ds ss)
  | _, .none => .none
  -- oneof, primitive alternative: Set<Name>: `if s.typ != T || s.x != v`
  | .choice k (.leaf d), .choice j (.leaf s) =>
    .choice j (.leaf (if k = j then o.set d s else s))
  | _, .choice j (.leaf s) => .choice j (.leaf s)
  -- oneof, composite alternative: SetType (resets the newly selected alternative), then copy<T>
  | .choice k d, .choice j s =>
    .choice j (if k = j then copyFrom o d s else copyFrom o (zero o s) s)
  | _, .choice j s => .choice j (copyFrom o (zero o s) s)
  | .arr ds, .arr ss => .arr (copyFromValues o ds ss)
  | .mmap ds, .mmap ss => .mmap (copyFromPairs o ds ss)
  | _, s => copyNew o s
def copyFromFields (o : LeafOps α) : Fields α → Fields α → Fields α
  -- optional primitive: Set<Name> (`if s.x != v || not present`) or Unset<Name> (value stays)
  | .cons dp (.leaf d) drest, .cons .present (.leaf s) srest =>
    .cons .present (.leaf (if dp = .present then o.set d s else s)) (copyFromFields o drest srest)
  | .cons _ (.leaf d) drest, .cons .absent (.leaf _) srest =>
    .cons .absent (.leaf d) (copyFromFields o drest srest)
  -- optional composite: reset when it disappears, else copy<T>
  | .cons .present d drest, .cons .absent _ srest =>
    .cons .absent (zero o d) (copyFromFields o drest srest)
  | .cons _ d drest, .cons sp s srest =>
    .cons sp (copyFrom o d s) (copyFromFields o drest srest)
  | .nil, .cons sp s srest => .cons sp (copyNew o s) (copyFromFields o .nil srest)
  | _, .nil => .nil
def copyFromValues (o : LeafOps α) : Values α → Values α → Values α
  | .cons d drest, .cons s srest => .cons (copyFrom o d s) (copyFromValues o drest srest)
  -- grown part: a fresh element, then copy<T> (primitive: `if dst[i] != src[i]` against zero)
  | .nil, .cons s srest => .cons (copyFrom o (zero o s) s) (copyFromValues o .nil srest)
  | _, .nil => .nil
/-- copy<Multimap>: EnsureLen, then per element `if !dst.IsEqual(src) { copy }`
    (primitive keys/values: `if !pkg.<T>Equal(dst, src) { dst = src }`) -/
def copyFromPairs (o : LeafOps α) : Pairs α → Pairs α → Pairs α
  | .cons dk dv drest, .cons sk sv srest =>
    .cons (if keepElem o dk sk then dk else copyFrom o dk sk)
          (if keepElem o dv sv then dv else copyFrom o dv sv) (copyFromPairs o drest srest)
  | .nil, .cons sk sv srest =>
    .cons (if keepElem o (zero o sk) sk then zero o sk else copyFrom o (zero o sk) sk)
          (if keepElem o (zero o sv) sv then zero o sv else copyFrom o (zero o sv) sv)
          (copyFromPairs o .nil srest)
  | _, .nil => .nil
end

/-! ### predicates on leaves lifted to trees -/

mutual
def Value.All (P : α → Prop) : Value α → Prop
  | .leaf a => P a
  | .null => True
  | .struct fs => fs.All P
  | .none => True
  | .choice _ v => v.All P
  | .arr es => es.All P
  | .mmap ps => ps.All P
def Fields.All (P : α → Prop) : Fields α → Prop
  | .nil => True
  | .cons _ v rest => v.All P ∧ rest.All P
def Values.All (P : α → Prop) : Values α → Prop
  | .nil => True
  | .cons v rest => v.All P ∧ rest.All P
def Pairs.All (P : α → Prop) : Pairs α → Prop
  | .nil => True
  | .cons k v rest => k.All P ∧ v.All P ∧ rest.All P
end

end Stef.Cmp
