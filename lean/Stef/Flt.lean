/-
  Stef.Flt: Go's `<`, `>`, `==` on `float64`, as predicates over IEEE-754 binary64 BIT PATTERNS.
  Core Lean only (linked into the driver). Lean's opaque `Float` is not used anywhere.

  A binary64 pattern is  sign(1) | exponent(11) | mantissa(52).
    * NaN      : exponent all ones and mantissa non-zero, i.e. magnitude > 0x7FF0000000000000
    * ordering : for non-NaN values the IEEE order is the order of the sign-magnitude integer
                 `key x = (if sign then -magnitude else magnitude)`; both zeros have key 0, so -0 = +0;
                 infinities are the largest magnitudes 0x7FF0000000000000.
    * NaN is unordered: every `<`, `>`, `==` with a NaN operand is false (`!=` is true).

  Tied to the real `float64` operators by the `prim fltops` lines of harness h_cmp (all classes).
-/
namespace Stef.Flt

/-- the 63 low bits: exponent and mantissa -/
def mag (x : BitVec 64) : Nat := x.toNat % 2 ^ 63

/-- the sign bit -/
def neg (x : BitVec 64) : Bool := decide (2 ^ 63 ≤ x.toNat)

/-- magnitude of +infinity: exponent all ones, mantissa zero -/
def infMag : Nat := 0x7FF0000000000000

def isNaN (x : BitVec 64) : Bool := decide (infMag < mag x)

/-- +0 or -0 -/
def isZero (x : BitVec 64) : Bool := decide (mag x = 0)

/-- the negative zero pattern 0x8000000000000000 -/
def isNegZero (x : BitVec 64) : Bool := neg x && isZero x

/-- sign-magnitude key: order-isomorphic to the IEEE order on non-NaN values (with -0 = +0). -/
def key (x : BitVec 64) : Int := if neg x then -(mag x : Int) else (mag x : Int)

/-- Go `a < b` on float64 -/
def lt (a b : BitVec 64) : Bool := !isNaN a && !isNaN b && decide (key a < key b)

/-- Go `a > b` on float64 -/
def gt (a b : BitVec 64) : Bool := !isNaN a && !isNaN b && decide (key b < key a)

/-- Go `a == b` on float64 -/
def eq (a b : BitVec 64) : Bool := !isNaN a && !isNaN b && decide (key a = key b)

end Stef.Flt
