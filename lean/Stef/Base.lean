/-
  Stef.Base: words, bytes, bit lists. Core Lean only (this file is linked into the driver).

  Bits are `List Bool`, most significant / first written first. Bytes are `BitVec 8`.
-/
namespace Stef

abbrev Word := BitVec 64
abbrev Byte := BitVec 8
abbrev Bytes := List Byte
abbrev Bits := List Bool

/-- The `n` low bits of `v`, most significant first. This is what "write `v` as an
    `n`-bit big-endian number" means in the specification. -/
def lowBits (v : Word) (n : Nat) : Bits :=
  (List.range n).map (fun i => v.getLsbD (n - 1 - i))

/-- The `n` high bits of `v`, most significant first. -/
def highBits (v : Word) (n : Nat) : Bits :=
  (List.range n).map (fun i => v.getMsbD i)

def byteBits (b : Byte) : Bits :=
  (List.range 8).map (fun i => b.getMsbD i)

def bytesBits : Bytes → Bits
  | [] => []
  | b :: bs => byteBits b ++ bytesBits bs

/-- big-endian bytes of a 64-bit word (Go: `binary.BigEndian.AppendUint64`). -/
def be64 (w : Word) : Bytes :=
  [w.extractLsb' 56 8, w.extractLsb' 48 8, w.extractLsb' 40 8, w.extractLsb' 32 8,
   w.extractLsb' 24 8, w.extractLsb' 16 8, w.extractLsb' 8 8, w.extractLsb' 0 8]

/-- value of a bit list read as a big-endian number (truncated to 64 bits). -/
def bitsToWord (bs : Bits) : Word :=
  bs.foldl (fun acc b => (acc <<< 1) ||| (if b then 1#64 else 0#64)) 0#64

/-- pad a bit list with zeros to a whole number of bytes and pack it. -/
def packByte (chunk : Bits) : Byte :=
  (chunk ++ List.replicate (8 - chunk.length) false).foldl
    (fun acc b => (acc <<< 1) ||| (if b then 1#8 else 0#8)) 0#8

def packBits (bs : Bits) : Bytes :=
  if _h : bs.length = 0 then [] else packByte (bs.take 8) :: packBits (bs.drop 8)
termination_by bs.length
decreasing_by simp [List.length_drop]; omega

/-! ### hex helpers for the driver -/

def hexDigit (n : Nat) : Char :=
  if n < 10 then Char.ofNat (48 + n) else Char.ofNat (87 + n)

def byteToHex (b : Byte) : String :=
  String.ofList [hexDigit (b.toNat / 16), hexDigit (b.toNat % 16)]

def bytesToHex (bs : Bytes) : String :=
  String.join (bs.map byteToHex)

def hexVal (c : Char) : Option Nat :=
  if '0' ≤ c ∧ c ≤ '9' then some (c.toNat - 48)
  else if 'a' ≤ c ∧ c ≤ 'f' then some (c.toNat - 87)
  else if 'A' ≤ c ∧ c ≤ 'F' then some (c.toNat - 55)
  else none

def hexToBytesAux : List Char → Bytes → Option Bytes
  | [], acc => some acc.reverse
  | [_], _ => none
  | a :: b :: rest, acc =>
    match hexVal a, hexVal b with
    | some x, some y => hexToBytesAux rest (BitVec.ofNat 8 (x * 16 + y) :: acc)
    | _, _ => none

def hexToBytes (s : String) : Option Bytes :=
  if s = "-" then some [] else hexToBytesAux s.toList []

def wordToHex (w : Word) : String := bytesToHex (be64 w)

def hexToWord (s : String) : Option Word :=
  s.toList.foldlM (fun (acc : Nat) c => (hexVal c).map (fun d => acc * 16 + d)) 0
    |>.map (BitVec.ofNat 64)

end Stef
