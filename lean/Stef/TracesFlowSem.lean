/-
  Stef.TracesFlowSem: the (hand-written) target vocabulary of the `TracesFlow` generator of
  /verif/extract (extract/tracesflow.go). The generator translates the Go statements of
  `OtlpToStefUnsorted.Convert`, `sortSpans`, `span2span`, `link2link`, `event2event`
  (go/pdata/traces/otlp2stef_unsorted.go) and of `Otlp2Stef.ResourceUnsorted` / `ScopeUnsorted`
  (go/pdata/internal/otlptools/otlpval2tef.go) one by one into `do` blocks of the monad `M` below
  (Stef/Gen/TracesFlow.lean); nothing here says WHAT those functions do. Core Lean only.

  * A translated function body is a computation `M σ ρ ρ`: `σ` = the object(s) the function
    mutates through its pointer / pdata-handle parameters (one object, or a pair for `Convert`:
    the `ptrace.Traces` batch and the `*otelstef.SpansWriter`), `ρ` = its result type. A statement
    goes on (`next`), returns from the function (`ret`), panics (an index out of range), or a loop
    runs out of `fuel` (`diverge`: never cut silently, the proofs show it does not happen).
  * Go `int` locals declared with `:=` live in numbered slots of the frame (`getL` / `setL`, numbered
    in order of declaration, so names do not matter); the variable of a counting loop
    `for v := a; v < E; v++` whose body does not assign `v` is a bound Lean variable (`forUp`; `E` is
    evaluated again in every round, as in Go). Locals of other types are immutable `let`s.
  * pdata handles (`ptrace.ResourceSpans`, `ptrace.SpanSlice`, ...) and pointers into the record
    (`*otelstef.Span`, `dst.Events().At(i)`, ...) are PATHS from a root object: `Ref σ α` (partial `get`,
    `set`), composed with `⨾`. `At(i)` is out of range exactly where Go's index panics. A handle that
    is only read (a `ptrace.Span` parameter of `span2span`) is a value of the model.
    Trusted: a path stays valid while it is used (the generator refuses a structural change - Sort,
    RemoveIf, MoveAndAppendTo, a call that gets the slice - of a slice from which a live handle
    local was taken), and pdata objects never alias otelstef objects.
  * Values: strings / byte strings are `Str`, unsigned numbers are `Nat` holding the value AFTER the
    conversions `uint64(..)` / `otelstef.SpanKind(..)` of the converter (as in the hand model
    Stef/Otlp/Traces.lean: `Conv.*` are identities on these `Nat`s; the generator checks the operand
    type of every conversion), `int` is `Int`, `error` is `Option GoErr` (`none` = nil).
  * Library calls (trusted as modelled here): the pdata slices are lists (`Sort` = the stable
    insertion sort of the hand model with the translated `less`, `RemoveIf` keeps the elements
    whose predicate is false, calling it on every element in order, `MoveAndAppendTo` appends and
    empties the source), the otelstef setters store their argument, `EnsureLen` / `At` of the
    generated arrays are those of Stef/Otlp/Traces.lean, `SpansWriter.Write` appends the logical
    value of the record and returns nil, `otlptools.Otlp2Stef.MapSorted` / `MapUnsorted` and
    `otlptools.CmpResourceSpans` / `CmpScopeSpans` are the hand model's functions
    (Stef/Otlp/Value.lean, Traces.lean: another generator's target).
-/
import Stef.Otlp.Traces

namespace Stef.TracesFlowSem
open Stef.Otlp

/-! ### the monad -/

structure Frame (σ : Type) where
  obj : σ
  loc : Nat → Int

inductive Out (σ ρ α : Type) where
  | next (a : α) (s : Frame σ)      -- the statement is done, control goes on
  | ret (r : ρ) (s : Frame σ)       -- `return r`
  | panic
  | diverge                          -- a loop used up its fuel

structure M (σ ρ α : Type) where
  run : Frame σ → Out σ ρ α

def M.pure {σ ρ α : Type} (a : α) : M σ ρ α := ⟨fun s => .next a s⟩

def M.bind {σ ρ α β : Type} (m : M σ ρ α) (f : α → M σ ρ β) : M σ ρ β := ⟨fun s =>
  match m.run s with
  | .next a s' => (f a).run s'
  | .ret r s' => .ret r s'
  | .panic => .panic
  | .diverge => .diverge⟩

instance {σ ρ : Type} : Monad (M σ ρ) where
  pure := M.pure
  bind := M.bind

/-- `return r` -/
def ret {σ ρ α : Type} (r : ρ) : M σ ρ α := ⟨fun s => .ret r s⟩

/-- the value of an `int` local -/
def getL {σ ρ : Type} (n : Nat) : M σ ρ Int := ⟨fun s => .next (s.loc n) s⟩

/-- assignment to an `int` local -/
def setL {σ ρ : Type} (n : Nat) (v : Int) : M σ ρ Unit :=
  ⟨fun s => .next () { s with loc := fun m => if m = n then v else s.loc m }⟩

/-! ### paths -/

structure Ref (σ α : Type) where
  get : σ → Option α
  set : α → σ → σ

def Ref.id {σ : Type} : Ref σ σ := ⟨some, fun a _ => a⟩
def Ref.fst {α β : Type} : Ref (α × β) α := ⟨fun p => some p.1, fun a p => (a, p.2)⟩
def Ref.snd {α β : Type} : Ref (α × β) β := ⟨fun p => some p.2, fun b p => (p.1, b)⟩

def Ref.comp {σ τ α : Type} (r : Ref σ τ) (q : Ref τ α) : Ref σ α :=
  ⟨fun s => (r.get s).bind q.get,
   fun a s => match r.get s with
     | some t => r.set (q.set a t) s
     | none => s⟩

infixl:65 " ⨾ " => Ref.comp

/-- the object a read-only handle (a value of the model) leads to -/
def rdV {σ ρ τ α : Type} (r : Ref τ α) (v : τ) : M σ ρ α := ⟨fun s =>
  match r.get v with
  | some a => .next a s
  | none => .panic⟩

/-- the object a path of the function's own objects leads to, as it is now -/
def rdS {σ ρ α : Type} (r : Ref σ α) : M σ ρ α := ⟨fun s =>
  match r.get s.obj with
  | some a => .next a s
  | none => .panic⟩

/-- a call of a setter / library function that changes the object at the path -/
def mutate {σ ρ α : Type} (r : Ref σ α) (f : α → α) : M σ ρ Unit := ⟨fun s =>
  match r.get s.obj with
  | some a => .next () { s with obj := r.set (f a) s.obj }
  | none => .panic⟩

/-- the same with a result -/
def mutRes {σ ρ α β : Type} (r : Ref σ α) (f : α → β × α) : M σ ρ β := ⟨fun s =>
  match r.get s.obj with
  | some a => .next (f a).1 { s with obj := r.set (f a).2 s.obj }
  | none => .panic⟩

/-- the result of a whole function body run on an object (fresh locals) -/
inductive Res (τ ρ : Type) where
  | ok (r : ρ) (o : τ)
  | panic
  | diverge

def exec {τ ρ : Type} (m : M τ ρ ρ) (o : τ) : Res τ ρ :=
  match m.run { obj := o, loc := fun _ => 0 } with
  | .next a s => .ok a s.obj
  | .ret a s => .ok a s.obj
  | .panic => .panic
  | .diverge => .diverge

/-- a call of a translated function on the object at the path: its `return` is the value of the
    call, its locals are its own. -/
def zoom {σ ρ τ ρ' : Type} (r : Ref σ τ) (m : M τ ρ' ρ') : M σ ρ ρ' := ⟨fun s =>
  match r.get s.obj with
  | none => .panic
  | some t =>
    match exec m t with
    | .ok a t' => .next a { s with obj := r.set t' s.obj }
    | .panic => .panic
    | .diverge => .diverge⟩

/-- a call of a function literal: it shares the frame of the enclosing function (captured
    variables), its `return` is the value of the call. -/
def callC {σ ρ ρ' : Type} (m : M σ ρ' ρ') : M σ ρ ρ' := ⟨fun s =>
  match m.run s with
  | .next a s' => .next a s'
  | .ret a s' => .next a s'
  | .panic => .panic
  | .diverge => .diverge⟩

/-! ### loops -/

/-- `for v := a; v < E; v++ { body }` where the body does not assign `v` (checked by the generator);
    `E` is evaluated in every round. -/
def forUpRun {σ ρ : Type} (bound : M σ ρ Int) (body : Int → M σ ρ Unit) : Nat → Int → Frame σ → Out σ ρ Unit
  | 0, _, _ => .diverge
  | fuel + 1, v, s =>
    match bound.run s with
    | .next n s' =>
      if v < n then
        match (body v).run s' with
        | .next _ s'' => forUpRun bound body fuel (v + 1) s''
        | .ret r s'' => .ret r s''
        | .panic => .panic
        | .diverge => .diverge
      else .next () s'
    | .ret r s' => .ret r s'
    | .panic => .panic
    | .diverge => .diverge

def forUp {σ ρ : Type} (fuel : Nat) (v : Int) (bound : M σ ρ Int) (body : Int → M σ ρ Unit) : M σ ρ Unit :=
  ⟨forUpRun bound body fuel v⟩

/-- `for cond { body }` (also `for init; cond; post` after `init`, with `post` at the end of the body; the
    generator refuses `continue`). -/
def whileRun {σ ρ : Type} (cond : M σ ρ Bool) (body : M σ ρ Unit) : Nat → Frame σ → Out σ ρ Unit
  | 0, _ => .diverge
  | fuel + 1, s =>
    match cond.run s with
    | .next c s' =>
      if c then
        match body.run s' with
        | .next _ s'' => whileRun cond body fuel s''
        | .ret r s'' => .ret r s''
        | .panic => .panic
        | .diverge => .diverge
      else .next () s'
    | .ret r s' => .ret r s'
    | .panic => .panic
    | .diverge => .diverge

def whileLoop {σ ρ : Type} (fuel : Nat) (cond : M σ ρ Bool) (body : M σ ρ Unit) : M σ ρ Unit :=
  ⟨whileRun cond body fuel⟩

/-! ### pdata slices as lists -/

/-- `Len()` -/
def sliceLen {α : Type} (l : List α) : Int := l.length

/-- `At(i)`: the element of a pdata slice (Go panics out of range) -/
def sliceAt {α : Type} (i : Int) : Ref (List α) α :=
  ⟨fun l => if 0 ≤ i then l[i.toNat]? else none,
   fun a l => if 0 ≤ i then l.set i.toNat a else l⟩

/-- one insertion of the stable sort: `x` goes in front of the first element that is not smaller -/
def insertM {σ ρ α : Type} (less : α → α → M σ Bool Bool) (x : α) : List α → M σ ρ (List α)
  | [] => pure [x]
  | y :: t => do
    if (← callC (less y x)) then
      let t' ← insertM less x t
      pure (y :: t')
    else
      pure (x :: y :: t)

def sortM {σ ρ α : Type} (less : α → α → M σ Bool Bool) : List α → M σ ρ (List α)
  | [] => pure []
  | x :: t => do
    let t' ← sortM less t
    insertM less x t'

/-- `P.Sort(less)` = sort.SliceStable: the stable insertion sort of the hand model, every
    comparison a call of the translated `less`. -/
def sortBy {σ ρ α : Type} (r : Ref σ (List α)) (less : α → α → M σ Bool Bool) : M σ ρ Unit := do
  let l ← rdS r
  let l' ← sortM less l
  mutate r (fun _ => l')

def filterOutM {σ ρ α : Type} (pred : α → M σ Bool Bool) : List α → M σ ρ (List α)
  | [] => pure []
  | x :: t => do
    if (← callC (pred x)) then
      filterOutM pred t
    else
      let t' ← filterOutM pred t
      pure (x :: t')

/-- `P.RemoveIf(pred)`: `pred` is called for every element in order; the elements for which it
    returned false stay. -/
def removeIf {σ ρ α : Type} (r : Ref σ (List α)) (pred : α → M σ Bool Bool) : M σ ρ Unit := do
  let l ← rdS r
  let l' ← filterOutM pred l
  mutate r (fun _ => l')

/-- `A.MoveAndAppendTo(B)` for two different slices: B gets A's elements at its end, A is emptied. -/
def moveAndAppendTo {σ ρ α : Type} (a b : Ref σ (List α)) : M σ ρ Unit := do
  let la ← rdS a
  mutate b (fun lb => lb ++ la)
  mutate a (fun _ => [])

/-! ### Go types -/

abbrev GoString := Str

inductive GoErr
  | other
  deriving DecidableEq, Repr

abbrev Err := Option GoErr

structure PId where
  bytes : Str
  deriving DecidableEq

structure PTraceState where
  raw : Str
  deriving DecidableEq

structure PStatus where
  code : Nat
  msg : Str
  deriving DecidableEq

structure PResource where
  attrs : KVs
  dropped : Nat
  deriving DecidableEq

structure PScope where
  name : Str
  ver : Str
  attrs : KVs
  dropped : Nat
  deriving DecidableEq

structure OStatus where
  code : Nat
  msg : Str

structure OEvents where
  store : List SEvent
  len : Nat

structure OLinks where
  store : List SLink
  len : Nat

abbrev Ptrace.Traces := Stef.Otlp.Traces
abbrev Ptrace.ResourceSpansSlice := List Stef.Otlp.ResourceSpans
abbrev Ptrace.ResourceSpans := Stef.Otlp.ResourceSpans
abbrev Ptrace.ScopeSpansSlice := List Stef.Otlp.ScopeSpans
abbrev Ptrace.ScopeSpans := Stef.Otlp.ScopeSpans
abbrev Ptrace.SpanSlice := List Stef.Otlp.Span
abbrev Ptrace.Span := Stef.Otlp.Span
abbrev Ptrace.SpanEventSlice := List Stef.Otlp.Event
abbrev Ptrace.SpanEvent := Stef.Otlp.Event
abbrev Ptrace.SpanLinkSlice := List Stef.Otlp.Link
abbrev Ptrace.SpanLink := Stef.Otlp.Link
abbrev Ptrace.Status := PStatus
abbrev Pcommon.Resource := PResource
abbrev Pcommon.InstrumentationScope := PScope
abbrev Pcommon.Map := KVs
abbrev Pcommon.TraceID := PId
abbrev Pcommon.SpanID := PId
abbrev Pcommon.TraceState := PTraceState
/-- `*otelstef.SpansWriter`: its `Record` (`cur`) and the logical values written so far (`out`, most recent first) -/
abbrev Otelstef.SpansWriter := TState
abbrev Otelstef.Spans := STRecord
abbrev Otelstef.Resource := STRes
abbrev Otelstef.Scope := STScope
abbrev Otelstef.Span := SSpan
abbrev Otelstef.SpanStatus := OStatus
abbrev Otelstef.EventArray := OEvents
abbrev Otelstef.Event := SEvent
abbrev Otelstef.LinkArray := OLinks
abbrev Otelstef.Link := SLink
abbrev Otelstef.Attributes := SAttrs

/-! ### ptrace / pcommon (read side; the slices are also changed in the sorting mode) -/

def Ptrace.Traces.ResourceSpans : Ref Traces (List ResourceSpans) := ⟨fun t => some t.rss, fun l t => { t with rss := l }⟩
def Ptrace.ResourceSpansSlice.Len (l : List ResourceSpans) : Int := sliceLen l
def Ptrace.ResourceSpansSlice.At (i : Int) : Ref (List ResourceSpans) ResourceSpans := sliceAt i
def Ptrace.ResourceSpans.ScopeSpans : Ref ResourceSpans (List ScopeSpans) :=
  ⟨fun r => some r.scopes, fun l r => { r with scopes := l }⟩
def Ptrace.ResourceSpans.SchemaUrl (r : ResourceSpans) : Str := r.url
def Ptrace.ResourceSpans.Resource : Ref ResourceSpans PResource :=
  ⟨fun r => some ⟨r.attrs, r.dropped⟩, fun p r => { r with attrs := p.attrs, dropped := p.dropped }⟩
def Pcommon.Resource.Attributes : Ref PResource KVs := ⟨fun r => some r.attrs, fun a r => { r with attrs := a }⟩
def Pcommon.Resource.DroppedAttributesCount (r : PResource) : Nat := r.dropped

def Ptrace.ScopeSpansSlice.Len (l : List ScopeSpans) : Int := sliceLen l
def Ptrace.ScopeSpansSlice.At (i : Int) : Ref (List ScopeSpans) ScopeSpans := sliceAt i
def Ptrace.ScopeSpans.Spans : Ref ScopeSpans (List Span) := ⟨fun s => some s.spans, fun l s => { s with spans := l }⟩
def Ptrace.ScopeSpans.SchemaUrl (s : ScopeSpans) : Str := s.url
def Ptrace.ScopeSpans.Scope : Ref ScopeSpans PScope :=
  ⟨fun s => some ⟨s.name, s.ver, s.attrs, s.dropped⟩,
   fun p s => { s with name := p.name, ver := p.ver, attrs := p.attrs, dropped := p.dropped }⟩
def Pcommon.InstrumentationScope.Name (s : PScope) : Str := s.name
def Pcommon.InstrumentationScope.Version (s : PScope) : Str := s.ver
def Pcommon.InstrumentationScope.Attributes : Ref PScope KVs := ⟨fun s => some s.attrs, fun a s => { s with attrs := a }⟩
def Pcommon.InstrumentationScope.DroppedAttributesCount (s : PScope) : Nat := s.dropped

def Ptrace.SpanSlice.Len (l : List Span) : Int := sliceLen l
def Ptrace.SpanSlice.At (i : Int) : Ref (List Span) Span := sliceAt i

def Ptrace.Span.TraceID (s : Span) : PId := ⟨s.traceID⟩
def Ptrace.Span.SpanID (s : Span) : PId := ⟨s.spanID⟩
def Ptrace.Span.ParentSpanID (s : Span) : PId := ⟨s.parent⟩
def Ptrace.Span.Name (s : Span) : Str := s.name
def Ptrace.Span.Flags (s : Span) : Nat := s.flags
def Ptrace.Span.StartTimestamp (s : Span) : Nat := s.start
def Ptrace.Span.EndTimestamp (s : Span) : Nat := s.stop
def Ptrace.Span.Kind (s : Span) : Nat := s.kind
def Ptrace.Span.TraceState : Ref Span PTraceState := ⟨fun s => some ⟨s.traceState⟩, fun t s => { s with traceState := t.raw }⟩
def Ptrace.Span.Attributes : Ref Span KVs := ⟨fun s => some s.attrs, fun a s => { s with attrs := a }⟩
def Ptrace.Span.DroppedAttributesCount (s : Span) : Nat := s.dropped
def Ptrace.Span.Status : Ref Span PStatus :=
  ⟨fun s => some ⟨s.statusCode, s.statusMsg⟩, fun p s => { s with statusCode := p.code, statusMsg := p.msg }⟩
def Ptrace.Status.Code (s : PStatus) : Nat := s.code
def Ptrace.Status.Message (s : PStatus) : Str := s.msg
def Ptrace.Span.Events : Ref Span (List Event) := ⟨fun s => some s.events, fun l s => { s with events := l }⟩
def Ptrace.Span.Links : Ref Span (List Link) := ⟨fun s => some s.links, fun l s => { s with links := l }⟩

def Ptrace.SpanEventSlice.Len (l : List Event) : Int := sliceLen l
def Ptrace.SpanEventSlice.At (i : Int) : Ref (List Event) Event := sliceAt i
def Ptrace.SpanEvent.Name (e : Event) : Str := e.name
def Ptrace.SpanEvent.Timestamp (e : Event) : Nat := e.ts
def Ptrace.SpanEvent.Attributes : Ref Event KVs := ⟨fun e => some e.attrs, fun a e => { e with attrs := a }⟩
def Ptrace.SpanEvent.DroppedAttributesCount (e : Event) : Nat := e.dropped

def Ptrace.SpanLinkSlice.Len (l : List Link) : Int := sliceLen l
def Ptrace.SpanLinkSlice.At (i : Int) : Ref (List Link) Link := sliceAt i
def Ptrace.SpanLink.TraceID (l : Link) : PId := ⟨l.traceID⟩
def Ptrace.SpanLink.SpanID (l : Link) : PId := ⟨l.spanID⟩
def Ptrace.SpanLink.TraceState : Ref Link PTraceState := ⟨fun l => some ⟨l.traceState⟩, fun t l => { l with traceState := t.raw }⟩
def Ptrace.SpanLink.Flags (l : Link) : Nat := l.flags
def Ptrace.SpanLink.Attributes : Ref Link KVs := ⟨fun l => some l.attrs, fun a l => { l with attrs := a }⟩
def Ptrace.SpanLink.DroppedAttributesCount (l : Link) : Nat := l.dropped

/-- `pcommon.TraceID.String()` / `SpanID.String()`: hex text, empty for the zero id -/
def Pcommon.TraceID.String (i : PId) : Str := idText i.bytes
def Pcommon.SpanID.String (i : PId) : Str := idText i.bytes
/-- `id[:]` -/
def Pcommon.TraceID.slice (i : PId) : Str := i.bytes
def Pcommon.SpanID.slice (i : PId) : Str := i.bytes
def Pcommon.TraceState.AsRaw (t : PTraceState) : Str := t.raw
/-- `pcommon.Map.Len()` -/
def Pcommon.Map.Len (m : KVs) : Int := m.length

/-- `pkg.Bytes(s)` -/
def Pkg.Bytes (s : Str) : Str := s
/-- `bytes.Compare` -/
def Bytes.Compare (a b : Str) : Int := strCompare a b

/-- conversions; the operand type is part of the name and checked by the generator. The numbers of
    the model are the values after the conversion. -/
def Conv.uint64_uint32 (x : Nat) : Nat := x
def Conv.uint64_Timestamp (x : Nat) : Nat := x
def Conv.uint64_StatusCode (x : Nat) : Nat := x
def Conv.SpanKind_SpanKind (x : Nat) : Nat := x

/-! ### otelstef (write side) -/

def Otelstef.SpansWriter.Record : Ref TState STRecord := ⟨fun w => some w.cur, fun r w => { w with cur := r }⟩
/-- `writer.Write()`: the logical value of the record is written; no error in the model -/
def Otelstef.SpansWriter.Write (w : TState) : Err × TState := (none, { w with out := w.cur.visible :: w.out })
def Otelstef.Spans.Resource : Ref STRecord STRes := ⟨fun r => some r.resource, fun x r => { r with resource := x }⟩
def Otelstef.Spans.Scope : Ref STRecord STScope := ⟨fun r => some r.scope, fun x r => { r with scope := x }⟩
def Otelstef.Spans.Span : Ref STRecord SSpan := ⟨fun r => some r.span, fun x r => { r with span := x }⟩

def Otelstef.Resource.SetSchemaURL (v : Str) (r : STRes) : STRes := { r with url := v }
def Otelstef.Resource.Attributes : Ref STRes SAttrs := ⟨fun r => some r.attrs, fun a r => { r with attrs := a }⟩
def Otelstef.Resource.SetDroppedAttributesCount (v : Nat) (r : STRes) : STRes := { r with dropped := v }

def Otelstef.Scope.SetSchemaURL (v : Str) (s : STScope) : STScope := { s with url := v }
def Otelstef.Scope.SetName (v : Str) (s : STScope) : STScope := { s with name := v }
def Otelstef.Scope.SetVersion (v : Str) (s : STScope) : STScope := { s with ver := v }
def Otelstef.Scope.Attributes : Ref STScope SAttrs := ⟨fun s => some s.attrs, fun a s => { s with attrs := a }⟩
def Otelstef.Scope.SetDroppedAttributesCount (v : Nat) (s : STScope) : STScope := { s with dropped := v }

def Otelstef.Span.SetTraceID (v : Str) (s : SSpan) : SSpan := { s with traceID := v }
def Otelstef.Span.SetSpanID (v : Str) (s : SSpan) : SSpan := { s with spanID := v }
def Otelstef.Span.SetParentSpanID (v : Str) (s : SSpan) : SSpan := { s with parent := v }
def Otelstef.Span.SetName (v : Str) (s : SSpan) : SSpan := { s with name := v }
def Otelstef.Span.SetFlags (v : Nat) (s : SSpan) : SSpan := { s with flags := v }
def Otelstef.Span.SetStartTimeUnixNano (v : Nat) (s : SSpan) : SSpan := { s with start := v }
def Otelstef.Span.SetEndTimeUnixNano (v : Nat) (s : SSpan) : SSpan := { s with stop := v }
def Otelstef.Span.SetKind (v : Nat) (s : SSpan) : SSpan := { s with kind := v }
def Otelstef.Span.SetTraceState (v : Str) (s : SSpan) : SSpan := { s with traceState := v }
def Otelstef.Span.Attributes : Ref SSpan SAttrs := ⟨fun s => some s.attrs, fun a s => { s with attrs := a }⟩
def Otelstef.Span.SetDroppedAttributesCount (v : Nat) (s : SSpan) : SSpan := { s with dropped := v }
def Otelstef.Span.Status : Ref SSpan OStatus :=
  ⟨fun s => some ⟨s.statusCode, s.statusMsg⟩, fun p s => { s with statusCode := p.code, statusMsg := p.msg }⟩
def Otelstef.SpanStatus.SetCode (v : Nat) (s : OStatus) : OStatus := { s with code := v }
def Otelstef.SpanStatus.SetMessage (v : Str) (s : OStatus) : OStatus := { s with msg := v }
def Otelstef.Span.Events : Ref SSpan OEvents :=
  ⟨fun s => some ⟨s.evStore, s.evLen⟩, fun a s => { s with evStore := a.store, evLen := a.len }⟩
def Otelstef.Span.Links : Ref SSpan OLinks :=
  ⟨fun s => some ⟨s.lnStore, s.lnLen⟩, fun a s => { s with lnStore := a.store, lnLen := a.len }⟩

/-- `EventArray.EnsureLen(n)` (Stef/Otlp/Traces.lean `evEnsureLen`); `n` is a `Len()` -/
def Otelstef.EventArray.EnsureLen (n : Int) (a : OEvents) : OEvents := ⟨evEnsureLen a.store a.len n.toNat, n.toNat⟩
/-- `EventArray.At(i)` = `e.elems[i]` (the slice has the visible length) -/
def Otelstef.EventArray.At (i : Int) : Ref OEvents SEvent :=
  ⟨fun a => if 0 ≤ i ∧ i.toNat < a.len then a.store[i.toNat]? else none,
   fun e a => { a with store := a.store.set i.toNat e }⟩
def Otelstef.LinkArray.EnsureLen (n : Int) (a : OLinks) : OLinks := ⟨lnEnsureLen a.store a.len n.toNat, n.toNat⟩
def Otelstef.LinkArray.At (i : Int) : Ref OLinks SLink :=
  ⟨fun a => if 0 ≤ i ∧ i.toNat < a.len then a.store[i.toNat]? else none,
   fun e a => { a with store := a.store.set i.toNat e }⟩

def Otelstef.Event.SetName (v : Str) (e : SEvent) : SEvent := { e with name := v }
def Otelstef.Event.SetTimeUnixNano (v : Nat) (e : SEvent) : SEvent := { e with ts := v }
def Otelstef.Event.Attributes : Ref SEvent SAttrs := ⟨fun e => some e.attrs, fun a e => { e with attrs := a }⟩
def Otelstef.Event.SetDroppedAttributesCount (v : Nat) (e : SEvent) : SEvent := { e with dropped := v }

def Otelstef.Link.Attributes : Ref SLink SAttrs := ⟨fun l => some l.attrs, fun a l => { l with attrs := a }⟩
def Otelstef.Link.SetDroppedAttributesCount (v : Nat) (l : SLink) : SLink := { l with dropped := v }
def Otelstef.Link.SetFlags (v : Nat) (l : SLink) : SLink := { l with flags := v }
def Otelstef.Link.SetTraceState (v : Str) (l : SLink) : SLink := { l with traceState := v }
def Otelstef.Link.SetTraceID (v : Str) (l : SLink) : SLink := { l with traceID := v }
def Otelstef.Link.SetSpanID (v : Str) (l : SLink) : SLink := { l with spanID := v }

/-! ### otlptools (another generator's target: the hand model's functions) -/

def Otlptools.Otlp2Stef.MapUnsorted (m : KVs) (out : SAttrs) : SAttrs := SAttrs.mapUnsorted m out
def Otlptools.Otlp2Stef.MapSorted (m : KVs) (out : SAttrs) : SAttrs := SAttrs.mapSorted m out
def Otlptools.CmpResourceSpans (a b : ResourceSpans) : Int := cmpResourceSpans a b
def Otlptools.CmpScopeSpans (a b : ScopeSpans) : Int := cmpScopeSpans a b

end Stef.TracesFlowSem
