/-
  Stef.Limiter: transcription of go/pkg/dictlimiter.go (SizeLimiter) and of the control flow
  of the generated `Writer.Write` / `Flush` / `restartFrame` (stefc/templates/go/writer.go.tmpl)
  at the level of sizes: each record contributes `dictAdd` dictionary bytes (the sizes passed
  to `AddDictElemSize` while it is encoded, in order) and `bits` frame bits.
  Go `uint` is 64 bit; sizes are modelled as `Nat` (no overflow below 2^64 bits of data).
-/
import Stef.Gen.Consts

namespace Stef.Limiter

structure SizeLimiter where
  dictByteSize : Nat := 0
  dictByteSizeLimit : Nat := 0
  dictSizeLimitReached : Bool := false
  frameBitSize : Nat := 0
  frameBitSizeLimit : Nat := 0
  deriving Repr, DecidableEq

/-- Go: `Init(opts)`; note that `dictSizeLimitReached` is not touched by Init. -/
def SizeLimiter.init (d : SizeLimiter) (maxTotalDictSize maxFrameBytes : Nat) : SizeLimiter :=
  { d with dictByteSize := 0, frameBitSize := 0, dictByteSizeLimit := maxTotalDictSize,
           frameBitSizeLimit := maxFrameBytes * 8 }

def SizeLimiter.addDictElemSize (d : SizeLimiter) (n : Nat) : SizeLimiter :=
  if d.dictByteSizeLimit ≠ 0 then
    let s := d.dictByteSize + n
    { d with dictByteSize := s, dictSizeLimitReached := d.dictSizeLimitReached || decide (s ≥ d.dictByteSizeLimit) }
  else d

def SizeLimiter.addFrameBits (d : SizeLimiter) (n : Nat) : SizeLimiter :=
  { d with frameBitSize := d.frameBitSize + n }

def SizeLimiter.addFrameBytes (d : SizeLimiter) (n : Nat) : SizeLimiter := d.addFrameBits (n * 8)

def SizeLimiter.dictLimitReached (d : SizeLimiter) : Bool := d.dictSizeLimitReached

def SizeLimiter.frameLimitReached (d : SizeLimiter) : Bool :=
  d.frameBitSizeLimit ≠ 0 && decide (d.frameBitSize ≥ d.frameBitSizeLimit)

def SizeLimiter.resetDict (d : SizeLimiter) : SizeLimiter :=
  { d with dictByteSize := 0, dictSizeLimitReached := false }

def SizeLimiter.resetFrameSize (d : SizeLimiter) : SizeLimiter := { d with frameBitSize := 0 }

/-! ### Writer control flow -/

/-- what one record contributes while it is encoded -/
structure RecCost where
  dictAdds : List Nat      -- sizes passed to AddDictElemSize, in order
  bits : Nat               -- bits added to the frame
  deriving Repr

/-- a frame as emitted: the flags it was opened with, the records it holds (as indices into the
    history together with the dictionary epoch each was encoded under) and its content bits. -/
structure FrameOut where
  flags : Nat
  recs : List (Nat × Nat)      -- (record index, writer dictionary epoch at encode time)
  bits : Nat
  lastBits : Nat               -- ghost: bits contributed by the last record of the frame
  deriving Repr

structure Writer where
  lim : SizeLimiter
  restartFlags : Nat                  -- opts.FrameRestartFlags
  openFlags : Nat := 0                -- flags of the currently open frame
  frameRecs : List (Nat × Nat) := []  -- records in the open frame (reversed)
  recordCount : Nat := 0
  epoch : Nat := 0                    -- number of dictionary resets performed so far
  out : List FrameOut := []           -- emitted frames (reversed)
  maxDict : Nat := 0                  -- ghost: largest dictByteSize ever observed
  maxAdd : Nat := 0                   -- ghost: largest per-record total of dictionary additions
  lastBits : Nat := 0                 -- ghost: bits of the most recent record of the open frame
  deriving Repr

def restartDictionaries : Nat := Gen.restartDictionaries

def hasRD (flags : Nat) : Bool := flags % 2 = 1      -- bit 0 (Gen.restartDictionaries = 1)

def Writer.new (maxDict maxFrame flags : Nat) : Writer :=
  { lim := ({} : SizeLimiter).init maxDict maxFrame, restartFlags := flags }

/-- Go: `restartFrame(nextFrameFlags)` (RestartCodecs only resets encoder state: not modelled). -/
def Writer.restartFrame (w : Writer) (nextFlags : Nat) : Writer :=
  { w with out := { flags := w.openFlags, recs := w.frameRecs.reverse, bits := w.lim.frameBitSize,
                      lastBits := w.lastBits } :: w.out,
           frameRecs := [], openFlags := nextFlags, lim := w.lim.resetFrameSize, lastBits := 0 }

/-- first half of `Write()`: `encoder.Encode(&Record)` accounts the record's dictionary
    insertions and frame bits; `frameRecordCount++`. -/
def Writer.encodeStage (w : Writer) (c : RecCost) : Writer :=
  let lim := (c.dictAdds.foldl SizeLimiter.addDictElemSize w.lim).addFrameBits c.bits
  { w with lim := lim, frameRecs := (w.recordCount, w.epoch) :: w.frameRecs,
           maxDict := max w.maxDict lim.dictByteSize,
           maxAdd := max w.maxAdd c.dictAdds.sum, lastBits := c.bits }

/-- second half of `Write()`: dictionary reset, frame restart decision, `recordCount++`. -/
def Writer.decideStage (w : Writer) : Writer :=
  if w.lim.dictLimitReached || hasRD w.restartFlags then
    -- ResetDicts(); nextFrameFlags = FrameRestartFlags | RestartDictionaries; restartFrame = true
    let w := { w with lim := w.lim.resetDict, epoch := w.epoch + 1 }
    { w.restartFrame (w.restartFlags ||| restartDictionaries) with recordCount := w.recordCount + 1 }
  else if w.lim.frameLimitReached then
    { w.restartFrame w.restartFlags with recordCount := w.recordCount + 1 }
  else { w with recordCount := w.recordCount + 1 }

/-- Go: `Write()`. -/
def Writer.write (w : Writer) (c : RecCost) : Writer := (w.encodeStage c).decideStage

/-- Go: `Flush()`. -/
def Writer.flush (w : Writer) : Writer :=
  if w.frameRecs.isEmpty then w else w.restartFrame w.restartFlags

inductive Op | write (c : RecCost) | flush
  deriving Repr

def Writer.apply (w : Writer) : Op → Writer
  | .write c => w.write c
  | .flush => w.flush

def Writer.run (w : Writer) (ops : List Op) : Writer := ops.foldl Writer.apply w

/-- frames in emission order -/
def Writer.frames (w : Writer) : List FrameOut := w.out.reverse

/-- the dictionary epoch a READER is in while decoding each record: it resets its dictionaries
    at the start of every frame that carries RestartDictionaries. -/
def readerEpochs : List FrameOut → Nat → List (Nat × Nat)
  | [], _ => []
  | f :: fs, e =>
    let e' := if hasRD f.flags then e + 1 else e
    f.recs.map (fun r => (r.1, e')) ++ readerEpochs fs e'

end Stef.Limiter
