/-
  Stef.ExporterFlowSem: the statement language into which /verif/extract (exporterflow.go) translates
  the bodies of the collector's STEF exporter (otelcol/internal/stefexporter/exporter.go:
  pushMetrics, onGrpcAck, the two arms of the flusher's `for { select { .. } }`); Gen/ExporterFlow.lean
  is DATA (values of `Stmt`). This file is written by hand and is the MEANING given to each
  whitelisted Go statement. The ORDER of the statements, which mutex is locked / unlocked / deferred
  where, the conditions, what is assigned to which field and what is returned come from the Go source.
  Proofs/ExporterGen.lean proves that the interpreted bodies are the exporter-side steps of the hand
  model Stef/Pipeline.lean (push, emit of everything open, the exporter half of ackrecv).

  The interpreter runs one call to its end (big step) on `XSt`: the pipeline state (of which it only
  touches the exporter fields written, open_, pushed, lastSent, lastAckedX, pending and - Flush - fwd)
  plus what the hand model leaves implicit: whether `s.remoteWriter` is set, which of the two mutexes
  the running goroutine holds, and three ghosts:
    viol      a field was accessed without the mutex that guards it (remoteWriter and everything
              behind it: writeMutex; lastSentRecordId, lastAckedRecordId, sentPendingAck: ackMutex),
              a held mutex was locked again, a free one unlocked
    panicked  a method of the nil remoteWriter was called
    diverged  a `for` loop did not end within the fuel
    acts      the lock / unlock / Write / Flush actions in execution order
  uint64 is `Nat` (no wrap-around below 2^64, as in the hand model). Locals are numbered per function
  and per type (error values, *SortedTree values) in order of declaration, so names do not matter.
  Calls into other packages are whitelisted operations whose outcome is an `Oracle`:
    sortedbymetric.OtlpToSortedTree(md)   the points of the batch in sorted order (C17), or an error
    (`w` below: s.remoteWriter or a local copy of that pointer - the object is guarded by writeMutex either way)
    sorted.ToStef(w)                      `Write()` once per record, in order; an error of the k-th
                                          Write ends it after k records (sortedmetrics.go: every
                                          closure returns the first error; C17 for the content)
    w.Flush()                             the open frame leaves if it has records (Gen/WriterFlow.lean
                                          `flushBody`: `frameRecordCount == 0` returns at once)
-/
import Stef.Pipeline

namespace Stef.ExporterFlowSem
open Stef.Pipeline

inductive Mutex where
  | write      -- s.writeMutex
  | ack        -- s.ackMutex
deriving DecidableEq, Repr

inductive Field where
  | lastSent   -- s.lastSentRecordId
  | lastAcked  -- s.lastAckedRecordId
deriving DecidableEq, Repr

/-- expressions of type uint64 -/
inductive NExpr where
  | field (f : Field)
  | param (i : Nat)        -- i-th uint64 parameter of the function
  | recordCount            -- s.remoteWriter.RecordCount()
deriving Repr

inductive Cond where
  | errNonNil (e : Nat)    -- <e-th error local> != nil
  | writerNonNil           -- s.remoteWriter != nil
  | lt (a b : NExpr)
  | le (a b : NExpr)
  | gt (a b : NExpr)
  | ge (a b : NExpr)
deriving Repr

inductive Stmt where
  | skip
  | seq (a b : Stmt)
  | log                                   -- s.logger.<Level>(..) / log.Printf(..)
  | convert (t e : Nat)                   -- t, e := sortedbymetric.OtlpToSortedTree(md)
  | toStef (t e : Nat)                    -- e := t.ToStef(s.remoteWriter)
  | flush (e : Nat)                       -- e := s.remoteWriter.Flush()
  | lock (m : Mutex)                      -- s.<m>.Lock()
  | unlock (m : Mutex)                    -- s.<m>.Unlock()
  | deferUnlock (m : Mutex)               -- defer s.<m>.Unlock()
  | setField (f : Field) (e : NExpr)      -- s.<f> = e
  | incField (f : Field)                  -- s.<f>++
  | mapSet (k : NExpr) (t : Nat)          -- s.sentPendingAck[k] = <t-th tree local>
  | mapDelete (k : NExpr)                 -- delete(s.sentPendingAck, k)
  | ite (c : Cond) (t e : Stmt)
  | forLoop (c : Cond) (post body : Stmt) -- for ; c; post { body }
  | ret (e : Option Nat)                  -- return nil / return <e-th error local>
  | retNewErr (reads : List NExpr)        -- return fmt.Errorf("..", reads..) / errors.New(".."): a new non-nil error
  | readWriter                            -- x := s.remoteWriter; later uses of x are translated as s.remoteWriter
deriving Repr

infixr:30 " ;; " => Stmt.seq

inductive Act where
  | lock (m : Mutex)
  | unlock (m : Mutex)
  | wrote (n : Nat)        -- Write() was called n times on the remote writer
  | flushed                -- Flush() was called on the remote writer
deriving DecidableEq, Repr

structure XSt where
  p : PState
  hasWriter : Bool := true
  wHeld : Bool := false
  aHeld : Bool := false
  viol : Bool := false
  panicked : Bool := false
  diverged : Bool := false
  acts : List Act := []

/-- a goroutine that holds no mutex, on an exporter whose Start() succeeded -/
def XSt.of (p : PState) : XSt := { p := p }

/-- outcomes of the calls into other packages -/
structure Oracle where
  convertFails : Bool := false
  toStefFailsAfter : Option Nat := none   -- `some k`: the (k+1)-th Write() returns an error
  flushFails : Bool := false

/-- everything works -/
def Oracle.ok : Oracle := {}

structure Ex where
  s : XSt
  trees : Nat → List Pt := fun _ => []    -- *SortedTree locals: their records in ToStef order
  errs : Nat → Bool := fun _ => false     -- error locals: non-nil?
  params : List Nat := []
  defers : List Mutex := []               -- deferred Unlock calls, last deferred first
  returned : Option Bool := none          -- `some b`: a return statement ran; b = the error is non-nil

def upd {α : Type} (env : Nat → α) (i : Nat) (v : α) : Nat → α := fun j => if j = i then v else env j

def XSt.held (s : XSt) : Mutex → Bool
  | .write => s.wHeld
  | .ack => s.aHeld

def XSt.setHeld (s : XSt) (m : Mutex) (b : Bool) : XSt :=
  match m with
  | .write => { s with wHeld := b }
  | .ack => { s with aHeld := b }

/-- an access to something guarded by `m` -/
def XSt.need (s : XSt) (m : Mutex) : XSt := if s.held m then s else { s with viol := true }

def opLock (m : Mutex) (s : XSt) : XSt :=
  { (if s.held m then { s with viol := true } else s).setHeld m true with acts := s.acts ++ [.lock m] }

def opUnlock (m : Mutex) (s : XSt) : XSt :=
  { (if s.held m then s else { s with viol := true }).setHeld m false with acts := s.acts ++ [.unlock m] }

def getField (p : PState) : Field → Nat
  | .lastSent => p.lastSent
  | .lastAcked => p.lastAckedX

def setField (p : PState) (f : Field) (v : Nat) : PState :=
  match f with
  | .lastSent => { p with lastSent := v }
  | .lastAcked => { p with lastAckedX := v }

/-- a call of a method of `s.remoteWriter` -/
def XSt.needWriter (s : XSt) : XSt :=
  if s.hasWriter then s.need .write else { s.need .write with panicked := true }

def NExpr.eval (x : Ex) : NExpr → Nat
  | .field f => getField x.s.p f
  | .param i => x.params.getD i 0
  | .recordCount => x.s.p.written

/-- the accesses an expression makes -/
def NExpr.touch (s : XSt) : NExpr → XSt
  | .field _ => s.need .ack
  | .param _ => s
  | .recordCount => s.needWriter

def Cond.eval (x : Ex) : Cond → Bool
  | .errNonNil e => x.errs e
  | .writerNonNil => x.s.hasWriter
  | .lt a b => decide (a.eval x < b.eval x)
  | .le a b => decide (a.eval x ≤ b.eval x)
  | .gt a b => decide (a.eval x > b.eval x)
  | .ge a b => decide (a.eval x ≥ b.eval x)

def Cond.touch (s : XSt) : Cond → XSt
  | .errNonNil _ => s
  | .writerNonNil => s.need .write
  | .lt a b => b.touch (a.touch s)
  | .le a b => b.touch (a.touch s)
  | .gt a b => b.touch (a.touch s)
  | .ge a b => b.touch (a.touch s)

/-- `Write()` for each of `l`, in order: the records join the open frame -/
def opWrite (l : List Pt) (s : XSt) : XSt :=
  { s with p := { s.p with written := s.p.written + l.length, open_ := s.p.open_ ++ l, pushed := s.p.pushed ++ l },
           acts := s.acts ++ [.wrote l.length] }

/-- `Flush()` of the generated writer: nothing when the open frame has no record, else the frame leaves -/
def flushP (p : PState) : PState :=
  if p.open_.length = 0 then p else { p with fwd := p.fwd ++ [p.open_], open_ := [] }

/-- run `f` while `c` holds, at most `n` times -/
def iter (c : Ex → Bool) (f : Ex → Ex) : Nat → Ex → Ex
  | 0, x => if x.returned.isNone && c x then { x with s := { x.s with diverged := true } } else x
  | n + 1, x => if x.returned.isNone && c x then iter c f n (f x) else x

def exec (o : Oracle) (pts : List Pt) (fuel : Nat) : Stmt → Ex → Ex
  | .skip, x => x
  | .seq a b, x =>
    let x1 := exec o pts fuel a x
    if x1.returned.isSome then x1 else exec o pts fuel b x1
  | .log, x => x
  | .convert t e, x => { x with trees := upd x.trees t pts, errs := upd x.errs e o.convertFails }
  | .toStef t e, x =>
    let s := x.s.needWriter
    let recs := x.trees t
    match o.toStefFailsAfter with
    | some k =>
      if k < recs.length then { x with s := opWrite (recs.take k) s, errs := upd x.errs e true }
      else { x with s := opWrite recs s, errs := upd x.errs e false }
    | none => { x with s := opWrite recs s, errs := upd x.errs e false }
  | .flush e, x =>
    let s := x.s.needWriter
    { x with s := { s with p := flushP s.p, acts := s.acts ++ [.flushed] }, errs := upd x.errs e o.flushFails }
  | .lock m, x => { x with s := opLock m x.s }
  | .unlock m, x => { x with s := opUnlock m x.s }
  | .deferUnlock m, x => { x with defers := m :: x.defers }
  | .setField f e, x =>
    let s := (e.touch x.s).need .ack
    { x with s := { s with p := setField s.p f (e.eval x) } }
  | .incField f, x =>
    let s := x.s.need .ack
    { x with s := { s with p := setField s.p f (getField s.p f + 1) } }
  | .mapSet k _, x =>
    let s := (k.touch x.s).need .ack
    let key := k.eval x
    { x with s := { s with p := { s.p with pending := if s.p.pending.contains key then s.p.pending
                                                      else key :: s.p.pending } } }
  | .mapDelete k, x =>
    let s := (k.touch x.s).need .ack
    let key := k.eval x
    { x with s := { s with p := { s.p with pending := s.p.pending.filter (fun j => j != key) } } }
  | .ite c t e, x =>
    let x1 := { x with s := c.touch x.s }
    if c.eval x then exec o pts fuel t x1 else exec o pts fuel e x1
  | .forLoop c post body, x =>
    iter (fun y => c.eval y)
      (fun y =>
        let y0 := { y with s := c.touch y.s }
        let y1 := exec o pts fuel body y0
        if y1.returned.isSome then y1 else exec o pts fuel post y1)
      fuel x
  | .ret e, x =>
    { x with returned := some (match e with | none => false | some i => x.errs i) }
  | .retNewErr reads, x => { x with s := reads.foldl (fun s e => e.touch s) x.s, returned := some true }
  | .readWriter, x => { x with s := x.s.need .write }

/-- the deferred calls run when the function returns, last deferred first -/
def runDefers : List Mutex → XSt → XSt
  | [], s => s
  | m :: rest, s => runDefers rest (opUnlock m s)

/-- run a function body to its end: the state after it and what it returned (`some true`: a non-nil
    error, `some false`: nil, `none`: fell off the end) -/
def runBody (o : Oracle) (pts : List Pt) (fuel : Nat) (body : Stmt) (params : List Nat) (s : XSt) :
    XSt × Option Bool :=
  let x := exec o pts fuel body { s := s, params := params }
  (runDefers x.defers x.s, x.returned)

/-- closed facts about the data: which whitelisted operations a body contains -/
def Stmt.has (q : Stmt → Bool) : Stmt → Bool
  | .seq a b => a.has q || b.has q
  | .ite c t e => q (.ite c .skip .skip) || t.has q || e.has q
  | .forLoop c post body => q (.forLoop c .skip .skip) || post.has q || body.has q
  | s => q s

def Stmt.isWriterWrite : Stmt → Bool
  | .toStef _ _ => true
  | _ => false

def Stmt.isAckFieldWrite : Stmt → Bool
  | .setField _ _ => true
  | .incField _ => true
  | .mapSet _ _ => true
  | .mapDelete _ => true
  | _ => false

def Stmt.isFlush : Stmt → Bool
  | .flush _ => true
  | _ => false

end Stef.ExporterFlowSem
