/-
  Stef.ParseFlowSem: the (hand-written) target vocabulary of the `ParseFlow` generator of /verif/extract
  (extract/parseflow.go). The generator translates, statement by statement and in source order,
    go/pkg/idl/parser.go     the methods of *Parser (Parse, parsePackage, parseStruct, parseOneof,
                             parseMultimap, parseEnum, the field / modifier / field-type functions, eat,
                             error, isTopLevelNameUsed; not the getters Schema / Messages, not NewParser)
    go/pkg/schema/schema.go  NewStruct, (*Struct).HasField, (*Struct).AddField
  into `do` blocks of the monad `M` below (Stef/Gen/ParseFlow.lean). Nothing here says WHAT those
  functions do; this file fixes how Go DATA, Go POINTERS and the calls that are not translated are read.
  Core Lean only.

  Control. A Go function body is one Lean `do` block of `M ρ` (`ρ` = its result, a tuple for several):
  Go's `return`, `break`, `if`, assignments to locals (`let mut`) are Lean's own. `for` is a `for _ in
  (← rounds)` loop: Lean functions are total, so a loop is granted `len(unread input) + 4` rounds, counted
  when it is entered; a loop that needs more is `stuck` - a visible result that Proofs/ParseFlowGen shows
  the translated parser never produces (every round of every loop of parser.go consumes a token or is
  the last one, and an input of n bytes has at most n + 3 tokens left, the current one and EOF included).
  A computation can also `panic` (nil dereference, write to a nil map, index out of range, a panic site
  of the schema post-processing): shown unreachable as well.

  Data.
  * The lexer is the object `L` of Stef/LexFlowSem.lean; `p.lexer.m()` runs the REGENERATED method
    `Stef.Gen.LexFlow.m` on it (`lexCall`).
  * `string`: an identifier is a `Name` (= `List Char`); a string that is only ever an error message is
    kept symbolically (`Msg`: literals, `+`, `fmt.Sprintf`, the lexer's message, `err.Error()`).
  * `Token`, `uint64`, `MessageType`, `PrimitiveFieldType` are `Nat`s, `int` is `Int`, `error` is
    `Option PErr`.
  * Pointers. `*schema.Struct`, `*schema.StructField`, `*schema.Multimap`, `*schema.Enum` are `Ptr`s
    (`none` = nil) into four typed heaps (`Heap`): a composite literal `&T{..}` allocates the next cell,
    `x.f` reads and `x.f = e` writes the cell (`getX` / `modX`; nil or dangling = panic `nilDeref`).
    Aliasing is therefore as in Go: a struct that was put into `p.schema.Structs` and is modified
    afterwards through the local that still points to it IS modified in the map.
    Interior pointers are paths: `*schema.FieldType` is `&field.FieldType` (of a StructField cell) or
    `&mf.Type` (of the key / value of a Multimap cell), `*schema.MultimapField` is `&mm.Key` /
    `&mm.Value`, `*schema.EnumField` is `&enum.Fields[i]`.
    `*schema.PrimitiveType` and `*schema.ArrayType` are only ever made by a composite literal and never
    written afterwards: they are `Option`s of the value (`ArrayType` = its `ElemType`; its unexported
    `recursive` flag, which only `computeRecursive` sets, is the slot `arrayRecursive` beside it).
    `p.schema` (`*schema.Schema`, owned by the parser alone) is an `Option GSchema`.
  * Go maps `map[string]*T` are `GoMap`s: `none` = the nil map (reads find nothing, a write panics),
    `some l` = an association list in insertion order (`m[k] = v` replaces the value of an existing key
    in place, else appends).
  * `StructDef` / `MultimapDef` of `FieldType` (set by `ResolveRefs` only) are not represented.

  Not translated, read through the hand model (another generator has them): `p.schema.ResolveRefs()` and
  `p.schema.PruneUnused()` are `Stef.Idl.resolveRefs` + `computeRecursive` and `Stef.Idl.pruneUnused`, run on
  `absSchema` = the schema the heap represents in the representation of Stef/Schema.lean (a heap that
  has no counterpart there - a field type with `Array` AND another slot set, nested arrays, an unknown
  primitive code, a dangling pointer - is the distinct panic `unrepresentable`, shown unreachable);
  their result is kept in `P.post`. `createUnusedWarnings` (warnings only) is opaque.
-/
import Stef.LexFlowSem

namespace Stef.ParseFlowSem
open Stef.Idl (Pos Name Schema ErrClass PanicSite Prim BaseType FType Field Struct Multimap EnumField Enum)
open Stef.LexFlowSem (L)

/-! ## Go data -/

/-- a Go pointer into one of the heaps: `none` = nil -/
abbrev Ptr := Option Nat

/-- `map[string]*T`: `none` = nil map -/
abbrev GoMap := Option (List (Name × Ptr))

/-- `map[string]*T{}` -/
def GoMap.empty : GoMap := some []

/-- `m[k]` (nil when absent, also on a nil map) -/
def GoMap.get (m : GoMap) (k : Name) : Ptr :=
  match m with
  | none => none
  | some l => match l.find? (fun e => e.1 == k) with
    | some e => e.2
    | none => none

/-- `_, ok := m[k]` -/
def GoMap.has (m : GoMap) (k : Name) : Bool :=
  match m with
  | none => false
  | some l => l.any (fun e => e.1 == k)

/-- the association list after `m[k] = v` -/
def assocSet (l : List (Name × Ptr)) (k : Name) (v : Ptr) : List (Name × Ptr) :=
  if l.any (fun e => e.1 == k) then l.map (fun e => if e.1 == k then (k, v) else e) else l ++ [(k, v)]

/-- `schema.PrimitiveType` -/
structure GPrimitiveType where
  type : Nat := 0
  deriving DecidableEq, Repr

/-- `schema.FieldType` (without `StructDef` / `MultimapDef`). `array = some e`: `Array != nil` with
    `ElemType = e`; `arrayRecursive` = `Array.recursive`. -/
structure GFieldType where
  primitive : Option GPrimitiveType := none
  array : Option GFieldType := none
  arrayRecursive : Bool := false
  struct : Name := []
  multiMap : Name := []
  enum : Name := []
  dictName : Name := []
  deriving Repr

/-- `schema.StructField` (the embedded `FieldType` is the slot `fieldType`) -/
structure GStructField where
  fieldType : GFieldType := {}
  name : Name := []
  optional : Bool := false
  deriving Repr

/-- `schema.Struct` -/
structure GStruct where
  name : Name := []
  oneOf : Bool := false
  dictName : Name := []
  isRoot : Bool := false
  fields : List Ptr := []
  fieldMap : GoMap := none
  recursive : Bool := false
  deriving Repr

/-- `schema.MultimapField` -/
structure GMultimapField where
  type : GFieldType := {}
  deriving Repr

/-- `schema.Multimap` -/
structure GMultimap where
  name : Name := []
  key : GMultimapField := {}
  value : GMultimapField := {}
  recursive : Bool := false
  deriving Repr

/-- `schema.EnumField` -/
structure GEnumField where
  name : Name := []
  value : Nat := 0
  deriving DecidableEq, Repr

/-- `schema.Enum` -/
structure GEnum where
  name : Name := []
  fields : List GEnumField := []
  deriving Repr

/-- `schema.Schema` -/
structure GSchema where
  packageName : List Name := []
  structs : GoMap := none
  multimaps : GoMap := none
  enums : GoMap := none
  deriving Repr

structure Heap where
  structs : List GStruct := []
  fields : List GStructField := []
  multimaps : List GMultimap := []
  enums : List GEnum := []
  deriving Repr

/-- `*schema.FieldType` -/
inductive FTRef
  | ofField (k : Nat)                       -- `&field.FieldType`, field = cell k of `Heap.fields`
  | ofMultimap (k : Nat) (isValue : Bool)   -- `&mm.Key.Type` / `&mm.Value.Type`, mm = cell k of `Heap.multimaps`
  deriving DecidableEq, Repr

/-- `*schema.MultimapField`: `&mm.Key` / `&mm.Value` -/
structure MFRef where
  mm : Nat
  isValue : Bool
  deriving DecidableEq, Repr

/-- `*schema.EnumField`: `&enum.Fields[idx]` -/
structure EFRef where
  enum : Nat
  idx : Nat
  deriving DecidableEq, Repr

/-- a Go `string` that is only ever (part of) an error message -/
inductive Msg
  | lit (s : String)
  | str (n : Name)                              -- an identifier spliced into a message
  | cat (a b : Msg)                             -- `a + b`
  | sprintfTok (format : String) (args : List Nat)   -- `fmt.Sprintf(format, tokens...)` (`%s` of `Token`s)
  | lex (m : Stef.LexFlowSem.Msg)               -- `p.lexer.ErrMsg()`
  | resolve (c : ErrClass)                      -- `err.Error()` of an error of `ResolveRefs`
  deriving Repr

/-- `idl.Message` -/
structure GMessage where
  type : Nat := 0
  msg : Msg := .lit ""
  filename : Name := []
  pos : Pos := ⟨0, 0, 0⟩
  deriving Repr

/-- a non-nil `error` -/
inductive PErr
  | error (m : GMessage)        -- `&Error{Message: m}`
  | resolve (c : ErrClass)      -- returned by `ResolveRefs` (the hand model gives its class)
  deriving Repr

abbrev Err := Option PErr

/-- `schema.UnusedTypes` (opaque: it only feeds warnings) -/
inductive Unused | mk
  deriving Repr

/-- `[]Message` (opaque) -/
inductive Messages
  | nil
  | unusedWarnings (u : Unused)   -- `createUnusedWarnings(u)`
  deriving Repr

/-- the Go `Parser` object together with the heaps its pointers point into -/
structure P where
  lexer : L := {}
  schema : Option GSchema := none
  fileName : Name := []
  messages : Messages := .nil
  heap : Heap := {}
  /-- `*p.schema` after `ResolveRefs` / `PruneUnused`, in the representation of Stef/Schema.lean -/
  post : Option Schema := none

inductive GoPanic
  | nilDeref               -- access through a nil (or dangling) pointer
  | nilMapWrite            -- assignment to an entry in a nil map
  | indexOutOfRange
  | schema (s : PanicSite) -- a panic site of the schema post-processing (hand model)
  | unrepresentable        -- not Go: see the header
  deriving DecidableEq, Repr

/-! ## the monad -/

inductive Res (α : Type) where
  | ok (a : α) (p : P)
  | stuck
  | panic (g : GoPanic)

structure M (α : Type) where
  run : P → Res α

def M.pure {α : Type} (a : α) : M α := ⟨fun p => .ok a p⟩

def M.bind {α β : Type} (m : M α) (f : α → M β) : M β := ⟨fun p =>
  match m.run p with
  | .ok a p' => (f a).run p'
  | .stuck => .stuck
  | .panic g => .panic g⟩

instance : Monad M where
  pure := M.pure
  bind := M.bind

def panicM {α : Type} (g : GoPanic) : M α := ⟨fun _ => .panic g⟩

/-- the rounds granted to a `for` loop -/
structure Rounds where
  n : Nat

def loopN {β : Type} (f : Unit → β → M (ForInStep β)) : Nat → β → M β
  | 0, _ => ⟨fun _ => .stuck⟩
  | n + 1, b => do
    match ← f () b with
    | .done b' => pure b'
    | .yield b' => loopN f n b'

instance : ForIn M Rounds Unit where
  forIn r b f := loopN f r.n b

/-- see the header -/
def rounds : M Rounds := ⟨fun p => .ok ⟨p.lexer.input.length + 4⟩ p⟩

/-- the receiver `p` -/
def getP : M P := ⟨fun p => .ok p p⟩

/-- `p.f = e` for a field of the parser itself -/
def modP (f : P → P) : M Unit := ⟨fun p => .ok () (f p)⟩

/-- `p.lexer.m()`: a (regenerated) method of the lexer on the parser's lexer object -/
def lexCall {ρ : Type} (f : Stef.LexFlowSem.M ρ ρ) : M ρ := ⟨fun p =>
  match f.run p.lexer with
  | .next a l => .ok a { p with lexer := l }
  | .ret a l => .ok a { p with lexer := l }
  | .brk _ => .stuck
  | .stuck => .stuck⟩

/-! ## heaps -/

def derefL {α : Type} (l : List α) (q : Ptr) : Option α :=
  match q with
  | none => none
  | some k => l[k]?

def getCell {α : Type} (sel : Heap → List α) (q : Ptr) : M α := ⟨fun p =>
  match derefL (sel p.heap) q with
  | some v => .ok v p
  | none => .panic .nilDeref⟩

def modCell {α : Type} (sel : Heap → List α) (put : Heap → List α → Heap) (q : Ptr) (f : α → α) : M Unit := ⟨fun p =>
  match q with
  | none => .panic .nilDeref
  | some k => match (sel p.heap)[k]? with
    | some v => .ok () { p with heap := put p.heap ((sel p.heap).set k (f v)) }
    | none => .panic .nilDeref⟩

/-- `&schema.Struct{..}` -/
def allocStruct (v : GStruct) : M Ptr := ⟨fun p =>
  .ok (some p.heap.structs.length) { p with heap := { p.heap with structs := p.heap.structs ++ [v] } }⟩
/-- `&schema.StructField{..}` -/
def allocField (v : GStructField) : M Ptr := ⟨fun p =>
  .ok (some p.heap.fields.length) { p with heap := { p.heap with fields := p.heap.fields ++ [v] } }⟩
/-- `&schema.Multimap{..}` -/
def allocMultimap (v : GMultimap) : M Ptr := ⟨fun p =>
  .ok (some p.heap.multimaps.length) { p with heap := { p.heap with multimaps := p.heap.multimaps ++ [v] } }⟩
/-- `&schema.Enum{..}` -/
def allocEnum (v : GEnum) : M Ptr := ⟨fun p =>
  .ok (some p.heap.enums.length) { p with heap := { p.heap with enums := p.heap.enums ++ [v] } }⟩

def getStruct (q : Ptr) : M GStruct := getCell (·.structs) q
def modStruct (q : Ptr) (f : GStruct → GStruct) : M Unit :=
  modCell (·.structs) (fun h l => { h with structs := l }) q f
def getField (q : Ptr) : M GStructField := getCell (·.fields) q
def modField (q : Ptr) (f : GStructField → GStructField) : M Unit :=
  modCell (·.fields) (fun h l => { h with fields := l }) q f
def getMultimap (q : Ptr) : M GMultimap := getCell (·.multimaps) q
def modMultimap (q : Ptr) (f : GMultimap → GMultimap) : M Unit :=
  modCell (·.multimaps) (fun h l => { h with multimaps := l }) q f
def getEnum (q : Ptr) : M GEnum := getCell (·.enums) q
def modEnum (q : Ptr) (f : GEnum → GEnum) : M Unit :=
  modCell (·.enums) (fun h l => { h with enums := l }) q f

/-- `&field.FieldType` (field a `*schema.StructField`) -/
def addrFieldType (field : Ptr) : M (Option FTRef) := do
  let _ ← getField field
  match field with
  | some k => pure (some (.ofField k))
  | none => panicM .nilDeref

/-- `&mm.Key` -/
def addrKey (mm : Ptr) : M (Option MFRef) := do
  let _ ← getMultimap mm
  match mm with
  | some k => pure (some ⟨k, false⟩)
  | none => panicM .nilDeref

/-- `&mm.Value` -/
def addrValue (mm : Ptr) : M (Option MFRef) := do
  let _ ← getMultimap mm
  match mm with
  | some k => pure (some ⟨k, true⟩)
  | none => panicM .nilDeref

/-- `*r` for a `*schema.MultimapField` -/
def getMF (r : Option MFRef) : M GMultimapField := do
  match r with
  | none => panicM .nilDeref
  | some r =>
    let m ← getMultimap (some r.mm)
    pure (if r.isValue then m.value else m.key)

def modMF (r : Option MFRef) (f : GMultimapField → GMultimapField) : M Unit := do
  match r with
  | none => panicM .nilDeref
  | some r =>
    modMultimap (some r.mm) (fun m => if r.isValue then { m with value := f m.value } else { m with key := f m.key })

/-- `&field.Type` (field a `*schema.MultimapField`) -/
def addrType (field : Option MFRef) : M (Option FTRef) := do
  let _ ← getMF field
  match field with
  | some r => pure (some (.ofMultimap r.mm r.isValue))
  | none => panicM .nilDeref

/-- `*r` for a `*schema.FieldType` -/
def getFT (r : Option FTRef) : M GFieldType := do
  match r with
  | none => panicM .nilDeref
  | some (.ofField k) => pure (← getField (some k)).fieldType
  | some (.ofMultimap k v) => pure (← getMF (some ⟨k, v⟩)).type

/-- a write through a `*schema.FieldType` -/
def modFT (r : Option FTRef) (f : GFieldType → GFieldType) : M Unit := do
  match r with
  | none => panicM .nilDeref
  | some (.ofField k) => modField (some k) (fun x => { x with fieldType := f x.fieldType })
  | some (.ofMultimap k v) => modMF (some ⟨k, v⟩) (fun x => { x with type := f x.type })

/-- `len(x)` -/
def len {α : Type} (l : List α) : Int := l.length

/-- the indices `for i := range x` delivers, `n = len(x)` -/
def rangeInt (n : Int) : List Int := (List.range n.toNat).map Int.ofNat

/-- `x[i]` -/
def indexL {α : Type} (l : List α) (i : Int) : M α :=
  if i < 0 then panicM .indexOutOfRange
  else match l[i.toNat]? with
    | some v => pure v
    | none => panicM .indexOutOfRange

/-- `&enum.Fields[i]` -/
def addrEnumField (e : Ptr) (i : Int) : M (Option EFRef) := do
  let _ ← indexL (← getEnum e).fields i
  match e with
  | some k => pure (some ⟨k, i.toNat⟩)
  | none => panicM .nilDeref

def getEF (r : Option EFRef) : M GEnumField := do
  match r with
  | none => panicM .nilDeref
  | some r => indexL (← getEnum (some r.enum)).fields r.idx

def modEF (r : Option EFRef) (f : GEnumField → GEnumField) : M Unit := do
  match r with
  | none => panicM .nilDeref
  | some r =>
    let x ← indexL (← getEnum (some r.enum)).fields r.idx
    modEnum (some r.enum) (fun e => { e with fields := e.fields.set r.idx (f x) })

/-- `ft.Primitive.Type`: the dereference of a `*schema.PrimitiveType` -/
def derefPrim (q : Option GPrimitiveType) : M GPrimitiveType :=
  match q with
  | some v => pure v
  | none => panicM .nilDeref

/-- the map after `m[k] = v` (a nil map panics) -/
def mapSet (m : GoMap) (k : Name) (v : Ptr) : M GoMap :=
  match m with
  | none => panicM .nilMapWrite
  | some l => pure (some (assocSet l k v))

/-- `*p.schema` -/
def getSchema : M GSchema := ⟨fun p =>
  match p.schema with
  | some s => .ok s p
  | none => .panic .nilDeref⟩

/-- `p.schema.f = e` -/
def modSchema (f : GSchema → GSchema) : M Unit := ⟨fun p =>
  match p.schema with
  | some s => .ok () { p with schema := some (f s) }
  | none => .panic .nilDeref⟩

/-- `err.Error()` -/
def errError (e : Err) : M Msg :=
  match e with
  | none => panicM .nilDeref
  | some (.error m) => pure m.msg      -- (the text of `(*Error).Error()` also has the position; not compared)
  | some (.resolve c) => pure (.resolve c)

/-! ## the heap as a schema of Stef/Schema.lean -/

/-- the `PrimitiveFieldType` constants of go/pkg/schema/schema.go (checked against the regenerated
    constants in Proofs/ParseFlowGen) -/
def primOfCode : Nat → Option Prim
  | 0 => some .int64
  | 1 => some .uint64
  | 2 => some .float64
  | 3 => some .bool
  | 4 => some .string
  | 5 => some .bytes
  | _ => none

def absBase (g : GFieldType) : Option BaseType :=
  if g.array.isSome || g.arrayRecursive then none
  else match g.primitive with
    | none => some { prim := none, struct := g.struct, multimap := g.multiMap, enum := g.enum, dict := g.dictName }
    | some c => (primOfCode c.type).map fun pr =>
        { prim := some pr, struct := g.struct, multimap := g.multiMap, enum := g.enum, dict := g.dictName }

def absFT (g : GFieldType) : Option FType :=
  match g.array with
  | none => (absBase g).map .base
  | some e =>
    if g.primitive.isSome || g.struct ≠ [] || g.multiMap ≠ [] || g.enum ≠ [] then none
    else (absBase e).map fun b => .array b g.dictName g.arrayRecursive

def absField (h : Heap) (q : Ptr) : Option Field :=
  match derefL h.fields q with
  | none => none
  | some f => (absFT f.fieldType).map fun ty => { name := f.name, ty := ty, optional := f.optional }

def allSome {α : Type} : List (Option α) → Option (List α)
  | [] => some []
  | none :: _ => none
  | some a :: r => (allSome r).map (a :: ·)

def absStruct (h : Heap) (e : Name × Ptr) : Option Struct :=
  match derefL h.structs e.2 with
  | none => none
  | some s => (allSome (s.fields.map (absField h))).map fun fs =>
      { name := s.name, oneOf := s.oneOf, dict := s.dictName, isRoot := s.isRoot, fields := fs, recursive := s.recursive }

def absMultimap (h : Heap) (e : Name × Ptr) : Option Multimap :=
  match derefL h.multimaps e.2 with
  | none => none
  | some m =>
    match absFT m.key.type, absFT m.value.type with
    | some k, some v => some { name := m.name, key := k, value := v, recursive := m.recursive }
    | _, _ => none

def absEnum (h : Heap) (e : Name × Ptr) : Option Enum :=
  match derefL h.enums e.2 with
  | none => none
  | some en => some { name := en.name, fields := en.fields.map fun f => { name := f.name, value := f.value } }

/-- the schema `*p.schema` in the representation of Stef/Schema.lean: the maps in insertion order.
    (The map KEY of an entry is not looked at: the hand model finds definitions by their `.Name`.
    Proofs/ParseFlowGen shows key = name for every entry the parser makes.) -/
def absSchema (p : P) : Option Schema :=
  match p.schema with
  | none => none
  | some s =>
    match s.structs, s.multimaps, s.enums with
    | some ss, some ms, some es =>
      match allSome (ss.map (absStruct p.heap)), allSome (ms.map (absMultimap p.heap)), allSome (es.map (absEnum p.heap)) with
      | some a, some b, some c => some { pkg := s.packageName, structs := a, multimaps := b, enums := c }
      | _, _, _ => none
    | _, _, _ => none

/-- `p.schema.ResolveRefs()` (with the `computeRecursive` it ends with) -/
def schemaResolveRefs : M Err := ⟨fun p =>
  match absSchema p with
  | none => .panic .unrepresentable
  | some σ =>
    match Stef.Idl.resolveRefs σ with
    | .error c => .ok (some (.resolve c)) p
    | .ok σ1 =>
      match Stef.Idl.computeRecursive σ1 with
      | .error site => .panic (.schema site)
      | .ok σ2 => .ok none { p with post := some σ2 }⟩

/-- `p.schema.PruneUnused()` (it never returns an error) -/
def schemaPruneUnused : M (Unused × Err) := ⟨fun p =>
  match (match p.post with | some σ => some σ | none => absSchema p) with
  | none => .panic .unrepresentable
  | some σ =>
    match Stef.Idl.pruneUnused σ with
    | none => .panic (.schema .outOfFuel)
    | some σ3 => .ok (.mk, none) { p with post := some σ3 }⟩

/-- `createUnusedWarnings(u)` -/
def createUnusedWarnings (u : Unused) : Messages := .unusedWarnings u

end Stef.ParseFlowSem
