/-
  Stef.Otlp.Clean: the trigger-excluding hypotheses of the `_partial` theorems, as decidable
  (Bool-valued) predicates on the OTLP trees. Each conjunct names a recorded finding or an
  invariant of pdata. Core Lean only.

  Gone since the repo fixes: the "no -0.0" conditions (59db810 setters, 7828c58 CopyFromSlice),
  the "nested maps of at most one entry" condition (571960a), "summaries unflagged" and "no exemplars
  on flagged points" (ede8608), "histogram points have buckets" (9c5d1f7).
-/
import Stef.Otlp.Metrics
import Stef.Otlp.Traces

namespace Stef.Otlp

def nodupKeys : List Str → Bool
  | [] => true
  | k :: t => !t.contains k && nodupKeys t

mutual
  /-- pcommon.Map never holds a key twice, at any depth (Map.PutEmpty replaces) -/
  def AnyValue.nodup : AnyValue → Bool
    | .slice vs => vs.nodup
    | .map kvs => nodupKeys kvs.keys && kvs.nodup
    | _ => true
  def Values.nodup : Values → Bool
    | .nil => true
    | .cons v t => v.nodup && t.nodup
  def KVs.nodup : KVs → Bool
    | .nil => true
    | .cons _ v t => v.nodup && t.nodup
end

mutual
  /-- the numbers of a value are 64-bit patterns (int64 / float64 of pdata). The comparison functions
      are only meaningful - and only decide equality - on such values. -/
  def AnyValue.b64 : AnyValue → Bool
    | .int i => decide (i < two64)
    | .dbl f => decide (f < two64)
    | .slice vs => vs.b64
    | .map kvs => kvs.b64
    | _ => true
  def Values.b64 : Values → Bool
    | .nil => true
    | .cons v t => v.b64 && t.b64
  def KVs.b64 : KVs → Bool
    | .nil => true
    | .cons _ v t => v.b64 && t.b64
end

/-- an attribute map as pdata builds it: distinct keys at every level -/
def KVs.clean (a : KVs) : Bool := nodupKeys a.keys && a.nodup

/-- an exemplar with a defined value type, ids of 16 / 8 bytes, and a proper attribute map -/
def Exemplar.clean (e : Exemplar) : Bool := decide (e.vt ≤ 2) && validIds e && e.attrs.clean

def int32ok (x : Nat) : Bool := decide (x < 4294967296)

/-- attributes and flags of a clean data point of any kind (only the NoRecordedValue bit is defined) -/
def Point.base (p : Point) : Bool := p.attrs.clean && decide (p.flags ≤ 1)

/-- exemplars: clean ones -/
def Point.exOk (p : Point) : Bool := p.exemplars.all Exemplar.clean

/-- number point: it has a value, or it has none and is flagged NoRecordedValue (finding
    valueless-number-point-becomes-nrv: a value-less point without the flag comes back flagged) -/
def Point.cleanNum (p : Point) : Bool := p.base && p.exOk && (p.vt == 1 || p.vt == 2 || (p.vt == 0 && flagged p))

/-- bucket counts and bounds of a histogram point the converters accept: one more bucket than
    bounds, or neither buckets nor bounds (accepted since repo commit 9c5d1f7), or anything when the
    point is flagged (the lengths are not looked at then); other length mismatches are invalid OTLP
    and rejected -/
def Point.histLenOk (p : Point) : Bool :=
  flagged p || p.buckets.length == p.bounds.length + 1 || (p.buckets.isEmpty && p.bounds.isEmpty)

/-- histogram point -/
def Point.cleanHist (p : Point) : Bool := p.base && p.exOk && p.histLenOk

/-- exponential histogram point: scale and offsets are int32 -/
def Point.cleanExp (p : Point) : Bool :=
  p.base && p.exOk && int32ok p.scale && int32ok p.posOff && int32ok p.negOff

/-- summary point -/
def Point.cleanSummary (p : Point) : Bool := p.base

/-- a data point of a metric of type `t` outside every recorded trigger -/
def Point.clean : MType → Point → Bool
  | .gauge, p => p.cleanNum
  | .sum, p => p.cleanNum
  | .hist, p => p.cleanHist
  | .exp, p => p.cleanExp
  | .summary, p => p.cleanSummary

def Metric.clean (m : Metric) : Bool :=
  m.mdata.clean && tempOk m.temp && m.points.all (Point.clean m.type)

def ScopeMetrics.clean (s : ScopeMetrics) : Bool := s.attrs.clean && s.metrics.all Metric.clean
def ResourceMetrics.clean (r : ResourceMetrics) : Bool := r.attrs.clean && r.scopes.all ScopeMetrics.clean
def Metrics.clean (m : Metrics) : Bool := m.rms.all ResourceMetrics.clean

/-! ### typing: the numbers the sorted trees compare are 64-bit patterns -/

def Point.b64 (p : Point) : Bool := p.attrs.b64 && p.bounds.all (fun x => decide (x < two64))
def Metric.b64 (m : Metric) : Bool := m.mdata.b64 && m.points.all Point.b64
def ScopeMetrics.b64 (s : ScopeMetrics) : Bool := s.attrs.b64 && s.metrics.all Metric.b64
def ResourceMetrics.b64 (r : ResourceMetrics) : Bool := r.attrs.b64 && r.scopes.all ScopeMetrics.b64
/-- attribute values (resource, scope, metric metadata, data point) and histogram bounds are int64 /
    float64 bit patterns - what pdata can hold. The generated comparison functions of the sorted
    trees decide equality exactly on such keys. -/
def Metrics.b64 (m : Metrics) : Bool := m.rms.all ResourceMetrics.b64

/-- an id of `n` bytes -/
def idOk (n : Nat) (id : Str) : Bool := id.length == n && id.all (fun b => decide (b < 256))

end Stef.Otlp
