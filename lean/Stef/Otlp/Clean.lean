/-
  Stef.Otlp.Clean: the trigger-excluding hypotheses of the `_partial` theorems, as decidable
  (Bool-valued) predicates on the OTLP trees. Each conjunct names a recorded finding or an
  invariant of pdata. Core Lean only.
-/
import Stef.Otlp.Metrics
import Stef.Otlp.Traces

namespace Stef.Otlp

/-- a double that the generated float setters store faithfully. Since repo commit 59db810 (setters,
    copies and diffs compare with pkg.Float64Equal = bit patterns) that is every double, so the
    `nnz` predicates below hold for every value (`*.nnz_true` in Stef/Proofs/OtlpValue.lean); they are
    kept as the place where a restriction of the setters would go (before 59db810: `f != negZero`). -/
def nnzF (_f : Nat) : Bool := true

/-- a histogram bound that Float64Array.CopyFromSlice stores faithfully: it still compares with
    `slices.Equal` (Go `==`), so -0.0 is excluded (finding negzero-bounds-not-stored). -/
def boundOk (f : Nat) : Bool := f != negZero

mutual
  /-- every double in the value is storable (see `nnzF`) -/
  def AnyValue.nnz : AnyValue → Bool
    | .dbl f => nnzF f
    | .slice vs => vs.nnz
    | .map kvs => kvs.nnz
    | _ => true
  def Values.nnz : Values → Bool
    | .nil => true
    | .cons v t => v.nnz && t.nnz
  def KVs.nnz : KVs → Bool
    | .nil => true
    | .cons _ v t => v.nnz && t.nnz
end

mutual
  /-- every map *inside* the value has at most one entry (finding nested-map-index) -/
  def AnyValue.small : AnyValue → Bool
    | .slice vs => vs.small
    | .map kvs => decide (kvs.length ≤ 1) && kvs.small
    | _ => true
  def Values.small : Values → Bool
    | .nil => true
    | .cons v t => v.small && t.small
  /-- the values of an attribute list are `small` (the list itself may be of any length) -/
  def KVs.small : KVs → Bool
    | .nil => true
    | .cons _ v t => v.small && t.small
end

mutual
  /-- every double in a re-used STEF value, hidden storage included, is storable (see `nnzF`) -/
  def SVal.nnz : SVal → Bool
    | .mk c a _ k _ => (match c with | .dbl f => nnzF f | _ => true) && a.nnz && k.nnz
  def SVals.nnz : SVals → Bool
    | .nil => true
    | .cons v t => v.nnz && t.nnz
  def SKVs.nnz : SKVs → Bool
    | .nil => true
    | .cons _ v t => v.nnz && t.nnz
end

def SAttrs.nnz (a : SAttrs) : Bool := a.store.nnz

def nodupKeys : List Str → Bool
  | [] => true
  | k :: t => !t.contains k && nodupKeys t

mutual
  /-- pcommon.Map never holds a key twice, at any depth -/
  def AnyValue.nodup : AnyValue → Bool
    | .slice vs => vs.nodup
    | .map kvs => nodupKeys kvs.keys && kvs.nodup
    | _ => true
  def Values.nodup : Values → Bool
    | .nil => true
    | .cons v t => v.nodup && t.nodup
  def KVs.nodup : KVs → Bool
    | .nil => true
    | .cons _ v t => v.nodup && t.nodup
end

/-- an attribute map the converters carry faithfully: distinct keys, no nested map with two or
    more entries (and storable doubles: vacuous, see `nnzF`) -/
def KVs.clean (a : KVs) : Bool := nodupKeys a.keys && a.nodup && a.small && a.nnz

def Exemplar.clean (e : Exemplar) : Bool :=
  decide (e.vt ≤ 2) && (e.vt != 2 || nnzF e.v) && validIds e && e.attrs.clean

def optNnz (has : Bool) (v : Nat) : Bool := !has || nnzF v

def int32ok (x : Nat) : Bool := decide (x < 4294967296)

/-- attributes and flags of a clean data point of any kind -/
def Point.base (p : Point) : Bool := p.attrs.clean && decide (p.flags ≤ 1)

/-- exemplars: clean ones, and none on a point flagged NoRecordedValue (finding
    nrv-point-exemplars-dropped) -/
def Point.exOk (p : Point) : Bool := if flagged p then p.exemplars.isEmpty else p.exemplars.all Exemplar.clean

/-- number point: it has a value (findings sorted-drops-valueless-number-point,
    valueless-number-point-becomes-nrv) -/
def Point.cleanNum (p : Point) : Bool :=
  p.base && p.exOk && (p.vt == 1 || p.vt == 2) && (p.vt != 2 || nnzF p.v)

/-- histogram point: one more bucket than bounds unless flagged (finding
    histogram-no-buckets-rejected; other length mismatches are invalid OTLP) -/
def Point.cleanHist (p : Point) : Bool :=
  p.base && p.exOk && (flagged p || p.buckets.length == p.bounds.length + 1) &&
  optNnz p.hasSum p.sum && optNnz p.hasMin p.min && optNnz p.hasMax p.max && p.bounds.all boundOk

def Point.cleanExp (p : Point) : Bool :=
  p.base && p.exOk && optNnz p.hasSum p.sum && optNnz p.hasMin p.min && optNnz p.hasMax p.max &&
  nnzF p.zeroThreshold && int32ok p.scale && int32ok p.posOff && int32ok p.negOff

/-- summary point: not flagged (finding summary-no-recorded-value) -/
def Point.cleanSummary (p : Point) : Bool :=
  p.base && p.flags == 0 && nnzF p.sum && p.quantiles.all (fun q => nnzF q.1 && nnzF q.2)

/-- a data point of a metric of type `t` outside every recorded trigger -/
def Point.clean : MType → Point → Bool
  | .gauge, p => p.cleanNum
  | .sum, p => p.cleanNum
  | .hist, p => p.cleanHist
  | .exp, p => p.cleanExp
  | .summary, p => p.cleanSummary

def Metric.clean (m : Metric) : Bool :=
  m.mdata.clean && tempOk m.temp && m.points.all (Point.clean m.type)

def ScopeMetrics.clean (s : ScopeMetrics) : Bool := s.attrs.clean && s.metrics.all Metric.clean
def ResourceMetrics.clean (r : ResourceMetrics) : Bool := r.attrs.clean && r.scopes.all ScopeMetrics.clean
def Metrics.clean (m : Metrics) : Bool := m.rms.all ResourceMetrics.clean

/-! ### traces -/

def idOk (n : Nat) (id : Str) : Bool := id.length == n && id.all (fun b => decide (b < 256))

def Event.clean (e : Event) : Bool := e.attrs.clean
def Link.clean (l : Link) : Bool := l.attrs.clean && idOk 16 l.traceID && idOk 8 l.spanID
def Span.clean (s : Span) : Bool :=
  s.attrs.clean && idOk 16 s.traceID && idOk 8 s.spanID && idOk 8 s.parent && s.events.all Event.clean &&
  s.links.all Link.clean
def ScopeSpans.clean (s : ScopeSpans) : Bool := s.attrs.clean && s.spans.all Span.clean
def ResourceSpans.clean (r : ResourceSpans) : Bool := r.attrs.clean && r.scopes.all ScopeSpans.clean
def Traces.clean (t : Traces) : Bool := t.rss.all ResourceSpans.clean

end Stef.Otlp
