/-
  Stef.Otlp.Clean: the trigger-excluding hypotheses of the `_partial` theorems, as decidable
  (Bool-valued) predicates on the OTLP trees. Each conjunct names a recorded finding or an
  invariant of pdata. Core Lean only.

  Gone since the repo fixes: the "no -0.0" conditions (59db810 setters, 7828c58 CopyFromSlice)
  and the "nested maps of at most one entry" condition (571960a).
-/
import Stef.Otlp.Metrics
import Stef.Otlp.Traces

namespace Stef.Otlp

def nodupKeys : List Str → Bool
  | [] => true
  | k :: t => !t.contains k && nodupKeys t

mutual
  /-- pcommon.Map never holds a key twice, at any depth (Map.PutEmpty replaces) -/
  def AnyValue.nodup : AnyValue → Bool
    | .slice vs => vs.nodup
    | .map kvs => nodupKeys kvs.keys && kvs.nodup
    | _ => true
  def Values.nodup : Values → Bool
    | .nil => true
    | .cons v t => v.nodup && t.nodup
  def KVs.nodup : KVs → Bool
    | .nil => true
    | .cons _ v t => v.nodup && t.nodup
end

/-- an attribute map as pdata builds it: distinct keys at every level -/
def KVs.clean (a : KVs) : Bool := nodupKeys a.keys && a.nodup

/-- an exemplar with a defined value type, ids of 16 / 8 bytes, and a proper attribute map -/
def Exemplar.clean (e : Exemplar) : Bool := decide (e.vt ≤ 2) && validIds e && e.attrs.clean

def int32ok (x : Nat) : Bool := decide (x < 4294967296)

/-- attributes and flags of a clean data point of any kind (only the NoRecordedValue bit is defined) -/
def Point.base (p : Point) : Bool := p.attrs.clean && decide (p.flags ≤ 1)

/-- exemplars: clean ones, and none on a point flagged NoRecordedValue (finding
    nrv-point-exemplars-dropped) -/
def Point.exOk (p : Point) : Bool := if flagged p then p.exemplars.isEmpty else p.exemplars.all Exemplar.clean

/-- number point: it has a value (findings sorted-drops-valueless-number-point,
    valueless-number-point-becomes-nrv) -/
def Point.cleanNum (p : Point) : Bool := p.base && p.exOk && (p.vt == 1 || p.vt == 2)

/-- histogram point: one more bucket than bounds unless flagged (finding
    histogram-no-buckets-rejected; other length mismatches are invalid OTLP) -/
def Point.cleanHist (p : Point) : Bool :=
  p.base && p.exOk && (flagged p || p.buckets.length == p.bounds.length + 1)

/-- exponential histogram point: scale and offsets are int32 -/
def Point.cleanExp (p : Point) : Bool :=
  p.base && p.exOk && int32ok p.scale && int32ok p.posOff && int32ok p.negOff

/-- summary point: not flagged (finding summary-no-recorded-value) -/
def Point.cleanSummary (p : Point) : Bool := p.base && p.flags == 0

/-- a data point of a metric of type `t` outside every recorded trigger -/
def Point.clean : MType → Point → Bool
  | .gauge, p => p.cleanNum
  | .sum, p => p.cleanNum
  | .hist, p => p.cleanHist
  | .exp, p => p.cleanExp
  | .summary, p => p.cleanSummary

def Metric.clean (m : Metric) : Bool :=
  m.mdata.clean && tempOk m.temp && m.points.all (Point.clean m.type)

def ScopeMetrics.clean (s : ScopeMetrics) : Bool := s.attrs.clean && s.metrics.all Metric.clean
def ResourceMetrics.clean (r : ResourceMetrics) : Bool := r.attrs.clean && r.scopes.all ScopeMetrics.clean
def Metrics.clean (m : Metrics) : Bool := m.rms.all ResourceMetrics.clean

/-- an id of `n` bytes -/
def idOk (n : Nat) (id : Str) : Bool := id.length == n && id.all (fun b => decide (b < 256))

end Stef.Otlp
