/-
  Stef.Otlp.Value: attribute values on both sides of the OTLP <-> STEF converters
  (go/pdata/internal/otlptools/{otlpval2tef,tef2otlpval}.go) and the primitives of go/pkg/types.go
  and of the generated otelstef setters that the converters rely on. Core Lean only.

  * strings and byte strings are lists of bytes (`Str`), numbers are `Nat` holding the 64-bit
    pattern (two's complement for int64, IEEE-754 bits for float64);
  * `AnyValue` mirrors pcommon.Value (maps are ordered key/value lists, as pdata stores them);
  * `SVal` mirrors otelstef.AnyValue *including the storage a Go object keeps across re-use*:
    the array and key/value backing stores survive a change of type, `EnsureLen` only hides or
    reveals elements and resets the values (not the keys) of revealed ones (before repo commit
    571960a this made the missing `i++` of `otlpValueToTefAnyValue`'s map case observable; the
    conversions now overwrite every revealed element).
-/
namespace Stef.Otlp

abbrev Str := List Nat

/-! ### go/pkg/types.go comparisons and the setters' `!=` on floats -/

/-- strings.Compare / bytes.Compare: lexicographic on bytes. -/
def strCompare : Str → Str → Int
  | [], [] => 0
  | [], _ :: _ => -1
  | _ :: _, [] => 1
  | a :: as, b :: bs => if a < b then -1 else if b < a then 1 else strCompare as bs

def natCompare (a b : Nat) : Int := if a < b then -1 else if b < a then 1 else 0

def boolCompare (a b : Bool) : Int := if a == b then 0 else if a then 1 else -1

def two63 : Nat := 9223372036854775808
def two64 : Nat := 18446744073709551616

/-- int64 value of a 64-bit pattern. -/
def toInt64 (n : Nat) : Int := if n < two63 then (n : Int) else (n : Int) - (two64 : Int)

def int64Compare (a b : Nat) : Int :=
  if toInt64 a < toInt64 b then -1 else if toInt64 b < toInt64 a then 1 else 0

/-- the bit pattern of -0.0 -/
def negZero : Nat := two63

/-- float64OrderKey of go/pkg/types.go: a key whose unsigned order is the IEEE 754 total order
    (`^b` for negative patterns, `b | 1<<63` otherwise). -/
def fOrderKey (b : Nat) : Nat := if b < two63 then b + two63 else two64 - 1 - b

/-- pkg.Float64Compare (since repo commit 05846e0: IEEE 754 totalOrder; 0 only for identical bit
    patterns; before that commit it was `if l > r {1} else if l < r {-1} else 0`, which returned 0
    for NaN against anything and for -0 against +0). -/
def float64Compare (a b : Nat) : Int := natCompare (fOrderKey a) (fOrderKey b)

/-- pkg.Float64Equal (since repo commit 05846e0): identical bit patterns -/
def float64Equal (a b : Nat) : Bool := a == b

/-- the generated float setters: `if !pkg.Float64Equal(s.f, v) { s.f = v }` (since repo commit
    59db810; before it the comparison was `s.f != v`, under which -0.0 was not stored over +0.0). -/
def setF (old new : Nat) : Nat := if float64Equal old new then old else new

/-- Float64Array.CopyFromSlice: `if !slices.EqualFunc(e.elems, src, pkg.Float64Equal) { copy }`
    (since repo commit 7828c58; before it `slices.Equal`, Go `==`, under which bounds that differed
    from the stored ones only in the sign of a zero were not stored). -/
def setFSlice (old new : List Nat) : List Nat := if old == new then old else new

/-! ### OTLP side: pcommon.Value -/

mutual
  inductive AnyValue where
    | empty
    | str (s : Str)
    | bool (b : Bool)
    | int (i : Nat)
    | dbl (bits : Nat)
    | bytes (b : Str)
    | slice (vs : Values)
    | map (kvs : KVs)
    deriving DecidableEq
  inductive Values where
    | nil
    | cons (v : AnyValue) (t : Values)
    deriving DecidableEq
  inductive KVs where
    | nil
    | cons (k : Str) (v : AnyValue) (t : KVs)
    deriving DecidableEq
end

namespace KVs
def length : KVs → Nat
  | nil => 0
  | cons _ _ t => t.length + 1

def keys : KVs → List Str
  | nil => []
  | cons k _ t => k :: t.keys

def append : KVs → KVs → KVs
  | nil, r => r
  | cons k v t, r => cons k v (append t r)

def hasKey (k : Str) : KVs → Bool
  | nil => false
  | cons k' _ t => k' == k || hasKey k t

/-- pcommon.Map.PutEmpty followed by writing the value: replace the value of an existing key
    (in place), else append. -/
def put (k : Str) (v : AnyValue) : KVs → KVs
  | nil => cons k v nil
  | cons k' v' t => if k' == k then cons k' v t else cons k' v' (put k v t)

/-- result of `PutEmpty` for every entry in order. -/
def dedupAux : KVs → KVs → KVs
  | nil, acc => acc
  | cons k v t, acc => dedupAux t (put k v acc)

def dedup (l : KVs) : KVs := dedupAux l nil

/-- stable insertion by key (slices.SortFunc with strings.Compare over at most a handful of
    distinct keys; for distinct keys every correct sort gives this order). -/
def insertByKey (k : Str) (v : AnyValue) : KVs → KVs
  | nil => cons k v nil
  | cons k' v' t => if strCompare k k' < 0 then cons k v (cons k' v' t) else cons k' v' (insertByKey k v t)

def sortAux : KVs → KVs → KVs
  | nil, acc => acc
  | cons k v t, acc => sortAux t (insertByKey k v acc)

/-- Otlp2Stef.MapSorted's order of entries. -/
def sortByKey (l : KVs) : KVs := sortAux l nil
end KVs

namespace Values
def length : Values → Nat
  | nil => 0
  | cons _ t => t.length + 1
end Values

/-! ### STEF side: otelstef.AnyValue as a re-used Go object -/

/-- the visible content of an otelstef.AnyValue: type tag and scalar payload. -/
inductive SCur where
  | none
  | str (s : Str)
  | bool (b : Bool)
  | int (i : Nat)
  | dbl (bits : Nat)
  | bytes (b : Str)
  | array
  | kvlist
  deriving DecidableEq, Repr

mutual
  /-- `cur`: type tag and scalar; `arr`/`arrLen`: backing store of the AnyValueArray and its
      current length; `kv`/`kvLen`: backing store of the KeyValueList and its length. -/
  inductive SVal where
    | mk (cur : SCur) (arr : SVals) (arrLen : Nat) (kv : SKVs) (kvLen : Nat)
    deriving DecidableEq
  inductive SVals where
    | nil
    | cons (v : SVal) (t : SVals)
    deriving DecidableEq
  inductive SKVs where
    | nil
    | cons (k : Str) (v : SVal) (t : SKVs)
    deriving DecidableEq
end

namespace SVal
/-- a value that was never used (`AnyValue{}` after init). -/
def fresh : SVal := .mk .none .nil 0 .nil 0

def cur : SVal → SCur
  | mk c _ _ _ _ => c

/-- AnyValue.reset(): only the type tag is cleared. -/
def reset : SVal → SVal
  | mk _ a al k kl => mk .none a al k kl

/-- setters of scalar kinds other than float64: the stored value ends up equal to `c`. -/
def setScalar (c : SCur) : SVal → SVal
  | mk _ a al k kl => mk c a al k kl

/-- SetFloat64: `if s.typ != Float64 || s.float64 != v` -/
def setFloat (v : Nat) : SVal → SVal
  | mk (.dbl old) a al k kl => mk (.dbl (setF old v)) a al k kl
  | mk _ a al k kl => mk (.dbl v) a al k kl

/-- SetType(Array): on a change of type the contained array is reset (length 0, store kept). -/
def setTypeArray : SVal → SVal
  | mk .array a al k kl => mk .array a al k kl
  | mk _ a _ k kl => mk .array a 0 k kl

/-- SetType(KVList) -/
def setTypeKVList : SVal → SVal
  | mk .kvlist a al k kl => mk .kvlist a al k kl
  | mk _ a al k _ => mk .kvlist a al k 0
end SVal

namespace SVals
def length : SVals → Nat
  | nil => 0
  | cons _ t => t.length + 1

/-- grow the backing store to at least `n` elements with never-used values. -/
def ensure : Nat → SVals → SVals
  | 0, s => s
  | n + 1, nil => cons SVal.fresh (ensure n nil)
  | n + 1, cons v t => cons v (ensure n t)

/-- reset the elements with index in `[lo, lo+cnt)`. -/
def resetRange : Nat → Nat → SVals → SVals
  | _, _, nil => nil
  | 0, 0, s => s
  | 0, c + 1, cons v t => cons v.reset (resetRange 0 c t)
  | lo + 1, c, cons v t => cons v (resetRange lo c t)
end SVals

namespace SKVs
def length : SKVs → Nat
  | nil => 0
  | cons _ _ t => t.length + 1

def ensure : Nat → SKVs → SKVs
  | 0, s => s
  | n + 1, nil => cons [] SVal.fresh (ensure n nil)
  | n + 1, cons k v t => cons k v (ensure n t)

/-- EnsureLen resets the *values* of revealed elements; their keys stay what they were. -/
def resetRange : Nat → Nat → SKVs → SKVs
  | _, _, nil => nil
  | 0, 0, s => s
  | 0, c + 1, cons k v t => cons k v.reset (resetRange 0 c t)
  | lo + 1, c, cons k v t => cons k v (resetRange lo c t)
end SKVs

/-- AnyValueArray.EnsureLen(n) on a store whose current length is `len`. -/
def arrEnsureLen (store : SVals) (len n : Nat) : SVals :=
  SVals.resetRange (min len n) (n - min len n) (SVals.ensure n store)

/-- KeyValueList.EnsureLen(n) / Attributes.EnsureLen(n). -/
def kvEnsureLen (store : SKVs) (len n : Nat) : SKVs :=
  SKVs.resetRange (min len n) (n - min len n) (SKVs.ensure n store)

/-! ### OTLP -> STEF values (otlpval2tef.go). The same element-wise writes are what the generated
    `CopyFrom` functions do with a source value. -/

mutual
  /-- otlptools.otlpValueToTefAnyValue(val, into) -/
  def otlpToTef : AnyValue → SVal → SVal
    | .empty, into => into.reset                   -- SetType(None)
    | .str s, into => into.setScalar (.str s)
    | .bool b, into => into.setScalar (.bool b)
    | .dbl f, into => into.setFloat f
    | .int i, into => into.setScalar (.int i)
    | .bytes b, into => into.setScalar (.bytes b)
    | .slice vs, into =>
      match into.setTypeArray with
      | .mk c a al k kl => .mk c (sliceInto vs (arrEnsureLen a al vs.length)) vs.length k kl
    | .map kvs, into =>
      match into.setTypeKVList with
      | .mk c a al k kl => .mk c a al (zipInto kvs (kvEnsureLen k kl kvs.length)) kvs.length
  /-- `for i := range slice { convert(slice[i], arr.At(i)) }` -/
  def sliceInto : Values → SVals → SVals
    | .nil, st => st
    | .cons v t, .cons s st => .cons (otlpToTef v s) (sliceInto t st)
    | .cons v t, .nil => .cons (otlpToTef v SVal.fresh) (sliceInto t .nil)
  /-- the map case `i := 0; Range(func(k, v) { kvList.SetKey(i, k); convert(v, kvList.Value(i)); i++ })`
      (the `i++` is repo commit 571960a; before it every entry was written over element 0), and
      equally `MapUnsorted` for top-level attribute maps: entry `i` goes into element `i`. -/
  def zipInto : KVs → SKVs → SKVs
    | .nil, st => st
    | .cons k v t, .cons _ s st => .cons k (otlpToTef v s) (zipInto t st)
    | .cons k v t, .nil => .cons k (otlpToTef v SVal.fresh) (zipInto t .nil)
end

/-! ### STEF -> OTLP values: tef2otlpval.go reads the visible part only -/

mutual
  /-- the first `n` stored values, converted. -/
  def tefVals : Nat → SVals → Values
    | 0, _ => .nil
    | _, .nil => .nil
    | n + 1, .cons v t => .cons (tefToOtlpRaw v) (tefVals n t)
  def tefKVs : Nat → SKVs → KVs
    | 0, _ => .nil
    | _, .nil => .nil
    | n + 1, .cons k v t => .cons k (tefToOtlpRaw v) (tefKVs n t)
  /-- the logical value an otelstef.AnyValue holds (what a reader sees), maps as stored. -/
  def tefToOtlpRaw : SVal → AnyValue
    | .mk .none _ _ _ _ => .empty
    | .mk (.str s) _ _ _ _ => .str s
    | .mk (.bool b) _ _ _ _ => .bool b
    | .mk (.int i) _ _ _ _ => .int i
    | .mk (.dbl f) _ _ _ _ => .dbl f
    | .mk (.bytes b) _ _ _ _ => .bytes b
    | .mk .array a al _ _ => .slice (tefVals al a)
    | .mk .kvlist _ _ k kl => .map (tefKVs kl k)
end

mutual
  /-- `PutEmpty` semantics applied at every map level of a logical value. -/
  def dedupValue : AnyValue → AnyValue
    | .slice vs => .slice (dedupValues vs)
    | .map kvs => .map (KVs.dedup (dedupKVs kvs))
    | v => v
  def dedupValues : Values → Values
    | .nil => .nil
    | .cons v t => .cons (dedupValue v) (dedupValues t)
  def dedupKVs : KVs → KVs
    | .nil => .nil
    | .cons k v t => .cons k (dedupValue v) (dedupKVs t)
end

/-- otlptools.tefAnyValueToOtlp: the logical value, with `Map.PutEmpty` merging repeated keys. -/
def tefToOtlp (v : SVal) : AnyValue := dedupValue (tefToOtlpRaw v)

/-! ### attribute multimaps (otelstef.Attributes) as re-used objects -/

structure SAttrs where
  store : SKVs := .nil
  len : Nat := 0
  deriving DecidableEq

namespace SAttrs
/-- the logical content: the first `len` stored pairs. -/
def visible (a : SAttrs) : KVs := tefKVs a.len a.store

/-- Otlp2Stef.MapUnsorted -/
def mapUnsorted (m : KVs) (out : SAttrs) : SAttrs :=
  { store := zipInto m (kvEnsureLen out.store out.len m.length), len := m.length }

/-- Otlp2Stef.MapSorted -/
def mapSorted (m : KVs) (out : SAttrs) : SAttrs := mapUnsorted m.sortByKey out

/-- Attributes.CopyFrom(src): element-wise setters with the source's logical content. -/
def copyFrom (src : KVs) (dst : SAttrs) : SAttrs :=
  { store := zipInto src (kvEnsureLen dst.store dst.len src.length), len := src.length }

/-- otlptools.TefToOtlpMap -/
def toOtlp (a : SAttrs) : KVs := KVs.dedup (dedupKVs a.visible)
end SAttrs

/-! ### generated comparison functions on logical values (otelstef.CmpAnyValue etc.) -/

def typeTag : AnyValue → Nat
  | .empty => 0 | .str _ => 1 | .bool _ => 2 | .int _ => 3 | .dbl _ => 4 | .slice _ => 5 | .map _ => 6 | .bytes _ => 7

def firstNonZero (a b : Int) : Int := if a != 0 then a else b

def cmpKeyPrefix : List Str → List Str → Int
  | a :: as, b :: bs => firstNonZero (strCompare a b) (cmpKeyPrefix as bs)
  | _, _ => 0

mutual
  /-- otelstef.CmpAnyValue on logical values. The map case is CmpKeyValueList: keys over the
      common prefix, then lengths, then values pairwise. -/
  def cmpAnyValue : AnyValue → AnyValue → Int
    | .str a, .str b => strCompare a b
    | .bool a, .bool b => boolCompare a b
    | .int a, .int b => int64Compare a b
    | .dbl a, .dbl b => float64Compare a b
    | .bytes a, .bytes b => strCompare a b
    | .slice a, .slice b =>
      if a.length != b.length then (a.length : Int) - (b.length : Int) else cmpValues a b
    | .map a, .map b =>
      firstNonZero (cmpKeyPrefix a.keys b.keys)
        (if a.length != b.length then (a.length : Int) - (b.length : Int) else cmpKVValues a b)
    | .empty, .empty => 0
    | a, b => natCompare (typeTag a) (typeTag b)
  def cmpValues : Values → Values → Int
    | .cons a as, .cons b bs => firstNonZero (cmpAnyValue a b) (cmpValues as bs)
    | _, _ => 0
  /-- pairwise value comparison (third loop of CmpAttributes / CmpKeyValueList) -/
  def cmpKVValues : KVs → KVs → Int
    | .cons _ a as, .cons _ b bs => firstNonZero (cmpAnyValue a b) (cmpKVValues as bs)
    | _, _ => 0
end

/-- otelstef.CmpAttributes (same code as CmpKeyValueList). -/
def cmpKVs (a b : KVs) : Int :=
  firstNonZero (cmpKeyPrefix a.keys b.keys)
    (if a.length != b.length then (a.length : Int) - (b.length : Int) else cmpKVValues a b)

def cmpFloatArray (a b : List Nat) : Int :=
  if a.length != b.length then (a.length : Int) - (b.length : Int)
  else (List.zipWith float64Compare a b).foldr firstNonZero 0

end Stef.Otlp
