/-
  Stef.Otlp.Traces: OTLP traces as a tree (ptrace), the logical STEF span record, and the traces
  converter go/pdata/traces/otlp2stef_unsorted.go (both modes) transcribed as written, with the
  comparison functions of go/pdata/internal/otlptools/compare.go. Core Lean only.
-/
import Stef.Otlp.Value

namespace Stef.Otlp

/-! ### OTLP traces (ptrace) -/

structure Event where
  name : Str := []
  ts : Nat := 0
  attrs : KVs := .nil
  dropped : Nat := 0
  deriving DecidableEq

structure Link where
  traceID : Str := []
  spanID : Str := []
  traceState : Str := []
  flags : Nat := 0
  attrs : KVs := .nil
  dropped : Nat := 0
  deriving DecidableEq

structure Span where
  traceID : Str := []
  spanID : Str := []
  parent : Str := []
  traceState : Str := []
  flags : Nat := 0
  name : Str := []
  kind : Nat := 0
  start : Nat := 0
  stop : Nat := 0
  attrs : KVs := .nil
  dropped : Nat := 0
  droppedEvents : Nat := 0
  droppedLinks : Nat := 0
  statusCode : Nat := 0
  statusMsg : Str := []
  events : List Event := []
  links : List Link := []
  deriving DecidableEq

structure ScopeSpans where
  name : Str := []
  ver : Str := []
  url : Str := []
  dropped : Nat := 0
  attrs : KVs := .nil
  spans : List Span := []
  deriving DecidableEq

structure ResourceSpans where
  url : Str := []
  dropped : Nat := 0
  attrs : KVs := .nil
  scopes : List ScopeSpans := []
  deriving DecidableEq

structure Traces where
  rss : List ResourceSpans := []
  deriving DecidableEq

/-! ### the logical content of one STEF span record -/

structure EventRec where
  name : Str
  ts : Nat
  attrs : KVs
  dropped : Nat
  deriving DecidableEq

structure LinkRec where
  traceID : Str
  spanID : Str
  traceState : Str
  flags : Nat
  attrs : KVs
  dropped : Nat
  deriving DecidableEq

structure SpanRecord where
  resURL : Str
  resAttrs : KVs
  resDropped : Nat
  scName : Str
  scVer : Str
  scURL : Str
  scAttrs : KVs
  scDropped : Nat
  traceID : Str
  spanID : Str
  parent : Str
  traceState : Str
  flags : Nat
  name : Str
  kind : Nat
  start : Nat
  stop : Nat
  attrs : KVs
  dropped : Nat
  statusMsg : Str
  statusCode : Nat
  events : List EventRec
  links : List LinkRec
  deriving DecidableEq

/-! ### ids: `pkg.Bytes(src.TraceID().String())` - the lower-case hex *text* of the id, and the
    empty string for the all-zero id -/

def hexDigitByte (n : Nat) : Nat := if n < 10 then 48 + n else 87 + n

def hexText : Str → Str
  | [] => []
  | b :: t => hexDigitByte (b / 16) :: hexDigitByte (b % 16) :: hexText t

def allZero : Str → Bool
  | [] => true
  | b :: t => b == 0 && allZero t

/-- pcommon.TraceID.String / SpanID.String -/
def idText (id : Str) : Str := if allZero id then [] else hexText id

/-! ### the writer's span record as a re-used object -/

structure SEvent where
  name : Str := []
  ts : Nat := 0
  attrs : SAttrs := {}
  dropped : Nat := 0
  deriving DecidableEq

structure SLink where
  traceID : Str := []
  spanID : Str := []
  traceState : Str := []
  flags : Nat := 0
  attrs : SAttrs := {}
  dropped : Nat := 0
  deriving DecidableEq

structure SSpan where
  traceID : Str := []
  spanID : Str := []
  traceState : Str := []
  parent : Str := []
  flags : Nat := 0
  name : Str := []
  kind : Nat := 0
  start : Nat := 0
  stop : Nat := 0
  attrs : SAttrs := {}
  dropped : Nat := 0
  evStore : List SEvent := []
  evLen : Nat := 0
  lnStore : List SLink := []
  lnLen : Nat := 0
  statusMsg : Str := []
  statusCode : Nat := 0
  deriving DecidableEq

structure STRes where
  url : Str := []
  attrs : SAttrs := {}
  dropped : Nat := 0
  deriving DecidableEq

structure STScope where
  name : Str := []
  ver : Str := []
  url : Str := []
  attrs : SAttrs := {}
  dropped : Nat := 0
  deriving DecidableEq

structure STRecord where
  resource : STRes := {}
  scope : STScope := {}
  span : SSpan := {}
  deriving DecidableEq

def SEvent.reset (e : SEvent) : SEvent := { name := [], ts := 0, attrs := { store := e.attrs.store, len := 0 }, dropped := 0 }
def SLink.reset (l : SLink) : SLink :=
  { traceID := [], spanID := [], traceState := [], flags := 0, attrs := { store := l.attrs.store, len := 0 }, dropped := 0 }

def evEnsure : Nat → List SEvent → List SEvent
  | 0, s => s
  | n + 1, [] => ({} : SEvent) :: evEnsure n []
  | n + 1, e :: t => e :: evEnsure n t

def evResetRange : Nat → Nat → List SEvent → List SEvent
  | _, _, [] => []
  | 0, 0, s => s
  | 0, c + 1, e :: t => e.reset :: evResetRange 0 c t
  | lo + 1, c, e :: t => e :: evResetRange lo c t

/-- EventArray.EnsureLen -/
def evEnsureLen (store : List SEvent) (len n : Nat) : List SEvent :=
  evResetRange (Nat.min len n) (n - Nat.min len n) (evEnsure n store)

def lnEnsure : Nat → List SLink → List SLink
  | 0, s => s
  | n + 1, [] => ({} : SLink) :: lnEnsure n []
  | n + 1, e :: t => e :: lnEnsure n t

def lnResetRange : Nat → Nat → List SLink → List SLink
  | _, _, [] => []
  | 0, 0, s => s
  | 0, c + 1, e :: t => e.reset :: lnResetRange 0 c t
  | lo + 1, c, e :: t => e :: lnResetRange lo c t

/-- LinkArray.EnsureLen -/
def lnEnsureLen (store : List SLink) (len n : Nat) : List SLink :=
  lnResetRange (Nat.min len n) (n - Nat.min len n) (lnEnsure n store)

/-- event2event -/
def convEvent (src : Event) (dst : SEvent) : SEvent :=
  { name := src.name, ts := src.ts, attrs := SAttrs.mapUnsorted src.attrs dst.attrs, dropped := src.dropped }

/-- link2link -/
def convLink (src : Link) (dst : SLink) : SLink :=
  { attrs := SAttrs.mapUnsorted src.attrs dst.attrs, dropped := src.dropped, flags := src.flags,
    traceState := src.traceState, traceID := idText src.traceID, spanID := idText src.spanID }

def convEvents : List Event → List SEvent → List SEvent
  | [], st => st
  | e :: es, d :: ds => convEvent e d :: convEvents es ds
  | e :: es, [] => convEvent e {} :: convEvents es []

def convLinks : List Link → List SLink → List SLink
  | [], st => st
  | l :: ls, d :: ds => convLink l d :: convLinks ls ds
  | l :: ls, [] => convLink l {} :: convLinks ls []

/-- span2span -/
def convSpan (sorted : Bool) (src : Span) (dst : SSpan) : SSpan :=
  { traceID := idText src.traceID, spanID := idText src.spanID, parent := idText src.parent,
    name := src.name, flags := src.flags, start := src.start, stop := src.stop, kind := src.kind,
    traceState := src.traceState,
    attrs := if sorted then SAttrs.mapSorted src.attrs dst.attrs else SAttrs.mapUnsorted src.attrs dst.attrs,
    dropped := src.dropped, statusCode := src.statusCode, statusMsg := src.statusMsg,
    evStore := convEvents src.events (evEnsureLen dst.evStore dst.evLen src.events.length),
    evLen := src.events.length,
    lnStore := convLinks src.links (lnEnsureLen dst.lnStore dst.lnLen src.links.length),
    lnLen := src.links.length }

def SEvent.toRec (e : SEvent) : EventRec := { name := e.name, ts := e.ts, attrs := e.attrs.visible, dropped := e.dropped }
def SLink.toRec (l : SLink) : LinkRec :=
  { traceID := l.traceID, spanID := l.spanID, traceState := l.traceState, flags := l.flags, attrs := l.attrs.visible,
    dropped := l.dropped }

/-- the logical value a reader gets for the record -/
def STRecord.visible (r : STRecord) : SpanRecord :=
  { resURL := r.resource.url, resAttrs := r.resource.attrs.visible, resDropped := r.resource.dropped,
    scName := r.scope.name, scVer := r.scope.ver, scURL := r.scope.url, scAttrs := r.scope.attrs.visible,
    scDropped := r.scope.dropped,
    traceID := r.span.traceID, spanID := r.span.spanID, parent := r.span.parent, traceState := r.span.traceState,
    flags := r.span.flags, name := r.span.name, kind := r.span.kind, start := r.span.start, stop := r.span.stop,
    attrs := r.span.attrs.visible, dropped := r.span.dropped, statusMsg := r.span.statusMsg,
    statusCode := r.span.statusCode,
    events := (r.span.evStore.take r.span.evLen).map SEvent.toRec,
    links := (r.span.lnStore.take r.span.lnLen).map SLink.toRec }

/-! ### otlptools/compare.go -/

/-- pcommon.ValueType numbering -/
def pdataTypeTag : AnyValue → Nat
  | .empty => 0 | .str _ => 1 | .int _ => 2 | .dbl _ => 3 | .bool _ => 4 | .map _ => 5 | .slice _ => 6 | .bytes _ => 7

mutual
  /-- otlptools.CmpVal (total since repo commit 679d5d5, which added the double, bytes and map cases;
      before it those kinds panicked with "comparison not implemented") -/
  def cmpVal : AnyValue → AnyValue → Int
    | .str a, .str b => strCompare a b
    | .int a, .int b => int64Compare a b
    | .bool a, .bool b => boolCompare a b
    | .slice a, .slice b =>
      if a.length != b.length then (a.length : Int) - (b.length : Int) else cmpValSlice a b
    | .empty, .empty => 0
    | .dbl a, .dbl b => float64Compare a b
    | .bytes a, .bytes b => strCompare a b
    | .map a, .map b =>
      -- CmpAttrs: keys over the common prefix, then lengths, then values pairwise
      firstNonZero (cmpKeyPrefix a.keys b.keys)
        (if a.length != b.length then (a.length : Int) - (b.length : Int) else cmpAttrValues a b)
    | a, b => (pdataTypeTag a : Int) - (pdataTypeTag b : Int)
  def cmpValSlice : Values → Values → Int
    | .cons a as, .cons b bs => firstNonZero (cmpVal a b) (cmpValSlice as bs)
    | _, _ => 0
  def cmpAttrValues : KVs → KVs → Int
    | .cons _ a as, .cons _ b bs => firstNonZero (cmpVal a b) (cmpAttrValues as bs)
    | _, _ => 0
end

/-- otlptools.CmpAttrs -/
def cmpAttrs (a b : KVs) : Int :=
  firstNonZero (cmpKeyPrefix a.keys b.keys)
    (if a.length != b.length then (a.length : Int) - (b.length : Int) else cmpAttrValues a b)

/-- otlptools.CmpResourceSpans (the dropped-attributes count is compared last since 679d5d5) -/
def cmpResourceSpans (a b : ResourceSpans) : Int :=
  firstNonZero (strCompare a.url b.url) <|
  firstNonZero (cmpAttrs a.attrs b.attrs) (natCompare a.dropped b.dropped)

/-- otlptools.CmpScopeSpans -/
def cmpScopeSpans (a b : ScopeSpans) : Int :=
  firstNonZero (strCompare a.name b.name) <|
  firstNonZero (strCompare a.ver b.ver) <|
  firstNonZero (strCompare a.url b.url) <|
  firstNonZero (cmpAttrs a.attrs b.attrs) (natCompare a.dropped b.dropped)

/-! ### stable sort and merging of equal neighbours (sorting mode) -/

/-- sort.SliceStable with `less a b := cmp a b < 0` (insertion; every stable sort agrees when the
    comparison is a consistent order). -/
def insertStable {α : Type} (cmp : α → α → Int) (x : α) : List α → List α
  | [] => [x]
  | y :: t => if cmp y x < 0 then y :: insertStable cmp x t else x :: y :: t

/-- elements are inserted from the back, each one in front of the first element that is not
    smaller than it, so that equal elements keep their order -/
def sortStable {α : Type} (cmp : α → α → Int) : List α → List α
  | [] => []
  | x :: t => insertStable cmp x (sortStable cmp t)

/-- the merge loop: an element equal to its left neighbour is folded into it -/
def mergeFrom {α : Type} (cmp : α → α → Int) (merge : α → α → α) : α → List α → List α
  | cur, [] => [cur]
  | cur, y :: t => if cmp cur y == 0 then mergeFrom cmp merge (merge cur y) t else cur :: mergeFrom cmp merge y t

def mergeAdjacent {α : Type} (cmp : α → α → Int) (merge : α → α → α) : List α → List α
  | [] => []
  | x :: t => mergeFrom cmp merge x t

/-- sortSpans: trace id descending, then parent span id descending, then start time ascending -/
def spanLess (a b : Span) : Bool :=
  let c := strCompare a.traceID b.traceID
  if c > 0 then true else if c < 0 then false else
  let c := strCompare a.parent b.parent
  if c > 0 then true else if c < 0 then false else
  decide (a.start < b.start)

def insertSpan (x : Span) : List Span → List Span
  | [] => [x]
  | y :: t => if spanLess y x then y :: insertSpan x t else x :: y :: t

def sortSpans : List Span → List Span
  | [] => []
  | x :: t => insertSpan x (sortSpans t)

def mergeScopes (a b : ScopeSpans) : ScopeSpans := { a with spans := a.spans ++ b.spans }
def mergeResources (a b : ResourceSpans) : ResourceSpans := { a with scopes := a.scopes ++ b.scopes }

/-- the `if d.Sorted` blocks for one resource: sort and merge scopes, sort the spans of each -/
def sortScopeSpans (s : ScopeSpans) : ScopeSpans := { s with spans := sortSpans s.spans }

def sortResourceScopes (r : ResourceSpans) : ResourceSpans :=
  { r with scopes := (mergeAdjacent cmpScopeSpans mergeScopes (sortStable cmpScopeSpans r.scopes)).map sortScopeSpans }

/-- what the sorting mode turns the input into before the records are written -/
def sortTraces (t : Traces) : Traces :=
  { rss := (mergeAdjacent cmpResourceSpans mergeResources (sortStable cmpResourceSpans t.rss)).map sortResourceScopes }

/-! ### writing the records -/

structure TState where
  cur : STRecord := {}
  out : List SpanRecord := []     -- most recent first

def writeSpans (sorted : Bool) : List Span → TState → TState
  | [], st => st
  | s :: ss, st =>
    let cur := { st.cur with span := convSpan sorted s st.cur.span }
    writeSpans sorted ss { cur := cur, out := cur.visible :: st.out }

def writeScopeSpans (sorted : Bool) : List ScopeSpans → TState → TState
  | [], st => st
  | s :: ss, st =>
    let sc : STScope := { url := s.url, name := s.name, ver := s.ver,
                          attrs := SAttrs.mapUnsorted s.attrs st.cur.scope.attrs, dropped := s.dropped }
    writeScopeSpans sorted ss (writeSpans sorted s.spans { st with cur := { st.cur with scope := sc } })

def writeResourceSpans (sorted : Bool) : List ResourceSpans → TState → TState
  | [], st => st
  | r :: rs, st =>
    let res : STRes := { url := r.url, attrs := SAttrs.mapUnsorted r.attrs st.cur.resource.attrs, dropped := r.dropped }
    writeResourceSpans sorted rs (writeScopeSpans sorted r.scopes { st with cur := { st.cur with resource := res } })

/-- OtlpToStefUnsorted.Convert: the logical value of the record at each Write(), in order. -/
def tracesToStef (sorted : Bool) (t : Traces) : List SpanRecord :=
  if sorted then (writeResourceSpans true (sortTraces t).rss {}).out.reverse
  else (writeResourceSpans false t.rss {}).out.reverse

/-- spans of a batch with their resource and scope, in document order -/
def flattenSpans (t : Traces) : List (ResourceSpans × ScopeSpans × Span) :=
  (t.rss.map fun r => (r.scopes.map fun s => s.spans.map fun sp => (r, s, sp)).flatten).flatten

/-- the record the property asks for: every field of the span unchanged, ids as their text -/
def expectedRecord (r : ResourceSpans) (s : ScopeSpans) (sp : Span) (sortedAttrs : Bool) : SpanRecord :=
  { resURL := r.url, resAttrs := r.attrs, resDropped := r.dropped,
    scName := s.name, scVer := s.ver, scURL := s.url, scAttrs := s.attrs, scDropped := s.dropped,
    traceID := idText sp.traceID, spanID := idText sp.spanID, parent := idText sp.parent, traceState := sp.traceState,
    flags := sp.flags, name := sp.name, kind := sp.kind, start := sp.start, stop := sp.stop,
    attrs := if sortedAttrs then sp.attrs.sortByKey else sp.attrs, dropped := sp.dropped,
    statusMsg := sp.statusMsg, statusCode := sp.statusCode,
    events := sp.events.map fun e => { name := e.name, ts := e.ts, attrs := e.attrs, dropped := e.dropped },
    links := sp.links.map fun l => { traceID := idText l.traceID, spanID := idText l.spanID, traceState := l.traceState,
                                     flags := l.flags, attrs := l.attrs, dropped := l.dropped } }

end Stef.Otlp
