/-
  Stef.Otlp.Metrics: OTLP metrics as a tree (pmetric), its flattening into data points, the STEF
  metrics record as the logical value the writer's `Record` holds at each `Write()`, and the four
  converters of go/pdata/metrics transcribed as written:

    otlpToStefUnsorted   otlp2stef_unsorted.go + internal/baseotlptostef.go
    otlpToStefSorted     otlp2stef_sorted.go + sortedbymetric/{converter,sortedmetrics}.go
    stefToOtlpUnsorted   stef2otlp_unsorted.go + internal/basesteftotolp.go + otlptools/convert.go
    stefToOtlpSorted     stef2otlp_sorted.go + sortedbyresource/sortedresource.go

  The byte codec is not part of this model: a record read by the reader is the logical value of
  the record that was written (that is property C01). What *is* modelled of the generated code is
  what the converters observe: the record is one object re-used for every point (fields that are
  not rewritten keep the previous point's value), `EnsureLen`/`SetType` semantics, the float
  setters' `!=`, and `CopyFrom` as element-wise setters.
  Core Lean only.
-/
import Stef.Otlp.Value

namespace Stef.Otlp

/-! ### OTLP metrics (pmetric) -/

structure Exemplar where
  ts : Nat := 0
  vt : Nat := 0          -- 0 empty, 1 int, 2 double
  v : Nat := 0
  traceID : Str := []
  spanID : Str := []
  attrs : KVs := .nil
  deriving DecidableEq

/-- one data point of any of the five kinds; a kind uses the fields pmetric gives it. -/
structure Point where
  attrs : KVs := .nil
  start : Nat := 0
  ts : Nat := 0
  flags : Nat := 0
  vt : Nat := 0          -- number points: 0 empty, 1 int, 2 double
  v : Nat := 0
  count : Nat := 0
  hasSum : Bool := false
  sum : Nat := 0
  hasMin : Bool := false
  min : Nat := 0
  hasMax : Bool := false
  max : Nat := 0
  buckets : List Nat := []
  bounds : List Nat := []
  scale : Nat := 0       -- int32 pattern
  zeroCount : Nat := 0
  zeroThreshold : Nat := 0
  posOff : Nat := 0      -- int32 pattern
  pos : List Nat := []
  negOff : Nat := 0
  neg : List Nat := []
  quantiles : List (Nat × Nat) := []
  exemplars : List Exemplar := []
  deriving DecidableEq

inductive MType where
  | gauge | sum | hist | exp | summary
  deriving DecidableEq, Repr

def MType.toNat : MType → Nat
  | .gauge => 0 | .sum => 1 | .hist => 2 | .exp => 3 | .summary => 4

def MType.ofNat? : Nat → Option MType
  | 0 => some .gauge | 1 => some .sum | 2 => some .hist | 3 => some .exp | 4 => some .summary | _ => none

structure Metric where
  name : Str := []
  desc : Str := []
  unit : Str := []
  mdata : KVs := .nil
  type : MType := .gauge
  temp : Nat := 0        -- 0 unspecified, 1 delta, 2 cumulative
  mono : Bool := false
  points : List Point := []
  deriving DecidableEq

structure ScopeMetrics where
  name : Str := []
  ver : Str := []
  url : Str := []
  dropped : Nat := 0
  attrs : KVs := .nil
  metrics : List Metric := []
  deriving DecidableEq

structure ResourceMetrics where
  url : Str := []
  dropped : Nat := 0
  attrs : KVs := .nil
  scopes : List ScopeMetrics := []
  deriving DecidableEq

structure Metrics where
  rms : List ResourceMetrics := []
  deriving DecidableEq

/-! ### flattening: one `DataPoint` per data point, carrying everything the property lists -/

structure ResId where
  url : Str
  dropped : Nat
  attrs : KVs
  deriving DecidableEq

structure ScopeId where
  name : Str
  ver : Str
  url : Str
  dropped : Nat
  attrs : KVs
  deriving DecidableEq

/-- metric identity and metadata; temporality only where the type has one, monotonic only for sums -/
structure MetricId where
  name : Str
  desc : Str
  unit : Str
  type : MType
  temp : Nat
  mono : Bool
  mdata : KVs
  deriving DecidableEq

inductive ExValue where
  | none | int (v : Nat) | dbl (v : Nat)
  deriving DecidableEq

structure DExemplar where
  ts : Nat
  value : ExValue
  traceID : Str
  spanID : Str
  attrs : KVs
  deriving DecidableEq

/-- value or no-recorded-value marker -/
inductive PValue where
  | nrv
  | empty
  | int (v : Nat)
  | dbl (v : Nat)
  | hist (count : Nat) (sum min max : Option Nat) (buckets bounds : List Nat)
  | exp (count : Nat) (sum min max : Option Nat) (scale zeroCount zeroThreshold posOff : Nat)
      (pos : List Nat) (negOff : Nat) (neg : List Nat)
  | summary (count sum : Nat) (quantiles : List (Nat × Nat))
  deriving DecidableEq

structure DataPoint where
  res : ResId
  scope : ScopeId
  metric : MetricId
  attrs : KVs
  start : Nat
  ts : Nat
  flags : Nat
  value : PValue
  exemplars : List DExemplar
  deriving DecidableEq

def optOf (has : Bool) (v : Nat) : Option Nat := if has then some v else none

def flagged (p : Point) : Bool := p.flags % 2 == 1

def exValueOf (e : Exemplar) : ExValue :=
  match e.vt with
  | 1 => .int e.v
  | 2 => .dbl e.v
  | _ => .none

def dExemplar (e : Exemplar) : DExemplar :=
  { ts := e.ts, value := exValueOf e, traceID := e.traceID, spanID := e.spanID, attrs := e.attrs }

def pointValue (t : MType) (p : Point) : PValue :=
  if flagged p then .nrv else
  match t with
  | .gauge | .sum =>
    match p.vt with
    | 1 => .int p.v
    | 2 => .dbl p.v
    | _ => .empty
  | .hist => .hist p.count (optOf p.hasSum p.sum) (optOf p.hasMin p.min) (optOf p.hasMax p.max) p.buckets p.bounds
  | .exp => .exp p.count (optOf p.hasSum p.sum) (optOf p.hasMin p.min) (optOf p.hasMax p.max) p.scale p.zeroCount
      p.zeroThreshold p.posOff p.pos p.negOff p.neg
  | .summary => .summary p.count p.sum p.quantiles

def metricId (m : Metric) : MetricId :=
  { name := m.name, desc := m.desc, unit := m.unit, type := m.type,
    temp := (match m.type with | .sum | .hist | .exp => m.temp | _ => 0),
    mono := (match m.type with | .sum => m.mono | _ => false),
    mdata := m.mdata }

def resId (r : ResourceMetrics) : ResId := { url := r.url, dropped := r.dropped, attrs := r.attrs }
def scopeId (s : ScopeMetrics) : ScopeId :=
  { name := s.name, ver := s.ver, url := s.url, dropped := s.dropped, attrs := s.attrs }

def dataPoint (r : ResId) (s : ScopeId) (m : Metric) (p : Point) : DataPoint :=
  { res := r, scope := s, metric := metricId m, attrs := p.attrs, start := p.start, ts := p.ts, flags := p.flags,
    value := pointValue m.type p,
    exemplars := (match m.type with | .summary => [] | _ => p.exemplars.map dExemplar) }

def flattenMetric (r : ResId) (s : ScopeId) (m : Metric) : List DataPoint := m.points.map (dataPoint r s m)

def flattenScope (r : ResId) (s : ScopeMetrics) : List DataPoint :=
  (s.metrics.map (flattenMetric r (scopeId s))).flatten

def flattenResource (r : ResourceMetrics) : List DataPoint :=
  (r.scopes.map (flattenScope (resId r))).flatten

/-- every data point of the batch with its resource, scope and metric, in document order. -/
def flatten (m : Metrics) : List DataPoint := (m.rms.map flattenResource).flatten

/-! ### the STEF metrics record (otelstef.Metrics) as the logical value + re-used storage -/

structure SResource where
  url : Str := []
  attrs : SAttrs := {}
  dropped : Nat := 0
  deriving DecidableEq

structure SScope where
  name : Str := []
  ver : Str := []
  url : Str := []
  attrs : SAttrs := {}
  dropped : Nat := 0
  deriving DecidableEq

structure SMetric where
  name : Str := []
  desc : Str := []
  unit : Str := []
  type : Nat := 0
  mdata : SAttrs := {}
  bounds : List Nat := []
  temp : Nat := 0
  mono : Bool := false
  deriving DecidableEq

structure SExemplar where
  ts : Nat := 0
  value : ExValue := .none
  spanID : Str := []
  traceID : Str := []
  attrs : SAttrs := {}
  deriving DecidableEq

structure SHist where
  count : Nat := 0
  sum : Option Nat := none
  min : Option Nat := none
  max : Option Nat := none
  buckets : List Nat := []
  deriving DecidableEq

structure SBuckets where
  offset : Nat := 0
  counts : List Nat := []
  deriving DecidableEq

structure SExp where
  count : Nat := 0
  sum : Option Nat := none
  min : Option Nat := none
  max : Option Nat := none
  scale : Nat := 0
  zeroCount : Nat := 0
  pos : SBuckets := {}
  neg : SBuckets := {}
  zeroThreshold : Nat := 0
  deriving DecidableEq

structure SSummary where
  count : Nat := 0
  sum : Nat := 0
  quantiles : List (Nat × Nat) := []
  deriving DecidableEq

/-- otelstef.PointValue. A change of type resets the struct of the new type, so only the
    current alternative is ever observable. -/
inductive SPValue where
  | none
  | int (v : Nat)
  | dbl (v : Nat)
  | hist (h : SHist)
  | exp (e : SExp)
  | summary (s : SSummary)
  deriving DecidableEq

structure SPoint where
  start : Nat := 0
  ts : Nat := 0
  value : SPValue := .none
  exStore : List SExemplar := []    -- backing store of the exemplar array
  exLen : Nat := 0
  deriving DecidableEq

structure SRecord where
  metric : SMetric := {}
  resource : SResource := {}
  scope : SScope := {}
  attrs : SAttrs := {}
  point : SPoint := {}
  deriving DecidableEq

def SPoint.exemplars (p : SPoint) : List SExemplar := p.exStore.take p.exLen

/-! ### setters -/

/-- optional float field: `SetX(v)` is `if s.x != v || !present {..}`, `UnsetX()` clears presence -/
def setOptF (old : Option Nat) (new : Option Nat) : Option Nat :=
  match new, old with
  | some v, some o => some (setF o v)
  | some v, none => some v
  | none, _ => none

/-- int32 -> int64 conversion of scale and offsets: sign extension of a 32-bit pattern -/
def sext32 (x : Nat) : Nat := if x < 2147483648 then x else x + (two64 - 4294967296)

/-- int64 -> int32 on the way back -/
def trunc32 (x : Nat) : Nat := x % 4294967296

def SExemplar.reset (e : SExemplar) : SExemplar :=
  { ts := 0, value := .none, spanID := [], traceID := [], attrs := { store := e.attrs.store, len := 0 } }

def exEnsure : Nat → List SExemplar → List SExemplar
  | 0, s => s
  | n + 1, [] => ({} : SExemplar) :: exEnsure n []
  | n + 1, e :: t => e :: exEnsure n t

def exResetRange : Nat → Nat → List SExemplar → List SExemplar
  | _, _, [] => []
  | 0, 0, s => s
  | 0, c + 1, e :: t => e.reset :: exResetRange 0 c t
  | lo + 1, c, e :: t => e :: exResetRange lo c t

/-- ExemplarArray.EnsureLen -/
def exEnsureLen (store : List SExemplar) (len n : Nat) : List SExemplar :=
  exResetRange (Nat.min len n) (n - Nat.min len n) (exEnsure n store)

/-- ids are fixed-size arrays on the OTLP side -/
def validIds (e : Exemplar) : Bool := e.traceID.length == 16 && e.spanID.length == 8

/-- BaseOtlpToStef.ConvertExemplars, one element; `tmp` is the converter's `TempAttrs`. -/
def convExemplar (src : Exemplar) (tmp : SAttrs) (dst : SExemplar) : Except String (SAttrs × SExemplar) :=
  let tmp := SAttrs.mapSorted src.attrs tmp
  let value : Except String ExValue :=
    match src.vt with
    | 0 => .ok .none
    | 1 => .ok (.int src.v)
    | 2 => .ok (match dst.value with | .dbl o => .dbl (setF o src.v) | _ => .dbl src.v)
    | _ => .error "unknown exemplar value type"
  match value with
  | .error e => .error e
  | .ok v =>
    let d : SExemplar :=
      { ts := src.ts, value := v, spanID := src.spanID, traceID := src.traceID,
        attrs := SAttrs.copyFrom tmp.visible dst.attrs }
    .ok (tmp, d)

def convExemplarsLoop : List Exemplar → SAttrs → List SExemplar → Except String (SAttrs × List SExemplar)
  | [], tmp, st => .ok (tmp, st)
  | e :: es, tmp, d :: ds =>
    match convExemplar e tmp d with
    | .error x => .error x
    | .ok (tmp', d') =>
      match convExemplarsLoop es tmp' ds with
      | .error x => .error x
      | .ok (tmp'', ds') => .ok (tmp'', d' :: ds')
  | e :: es, tmp, [] =>
    match convExemplar e tmp {} with
    | .error x => .error x
    | .ok (tmp', d') =>
      match convExemplarsLoop es tmp' [] with
      | .error x => .error x
      | .ok (tmp'', ds') => .ok (tmp'', d' :: ds')

/-- BaseOtlpToStef.ConvertExemplars(dst, src) -/
def convExemplars (src : List Exemplar) (tmp : SAttrs) (p : SPoint) : Except String (SAttrs × SPoint) :=
  match convExemplarsLoop src tmp (exEnsureLen p.exStore p.exLen src.length) with
  | .error x => .error x
  | .ok (tmp', st) => .ok (tmp', { p with exStore := st, exLen := src.length })

/-- BaseOtlpToStef.ConvertNumDatapoint -/
def convNumber (src : Point) (p : SPoint) : Except String SPoint :=
  let p := { p with ts := src.ts, start := src.start }
  if flagged src then .ok { p with value := .none } else
  match src.vt with
  | 1 => .ok { p with value := .int src.v }
  | 2 => .ok { p with value := (match p.value with | .dbl o => .dbl (setF o src.v) | _ => .dbl src.v) }
  | 0 => .ok { p with value := .none }
  | _ => .error "unsupported number datapoint value type"

/-- BaseOtlpToStef.ConvertHistogram (a point with no bucket counts and no bounds is accepted since
    repo commit 9c5d1f7; any other length mismatch is rejected) -/
def convHistogram (src : Point) (p : SPoint) : Except String SPoint :=
  let p := { p with ts := src.ts, start := src.start }
  if flagged src then .ok { p with value := .none } else
  let h : SHist := match p.value with | .hist h => h | _ => {}
  let h := { h with count := src.count,
                    sum := setOptF h.sum (optOf src.hasSum src.sum),
                    min := setOptF h.min (optOf src.hasMin src.min),
                    max := setOptF h.max (optOf src.hasMax src.max) }
  if !(src.buckets.isEmpty && src.bounds.isEmpty) && src.buckets.length != src.bounds.length + 1 then .error "invalid histogram" else
  .ok { p with value := .hist { h with buckets := src.buckets } }

/-- BaseOtlpToStef.ConvertExpHistogram -/
def convExpHistogram (src : Point) (p : SPoint) : Except String SPoint :=
  let p := { p with ts := src.ts, start := src.start }
  if flagged src then .ok { p with value := .none } else
  let e : SExp := match p.value with | .exp e => e | _ => {}
  let e' : SExp :=
    { count := src.count,
      sum := setOptF e.sum (optOf src.hasSum src.sum),
      min := setOptF e.min (optOf src.hasMin src.min),
      max := setOptF e.max (optOf src.hasMax src.max),
      scale := sext32 src.scale, zeroCount := src.zeroCount,
      zeroThreshold := setF e.zeroThreshold src.zeroThreshold,
      pos := { offset := sext32 src.posOff, counts := src.pos },
      neg := { offset := sext32 src.negOff, counts := src.neg } }
  .ok { p with value := .exp e' }

def setQuantiles : List (Nat × Nat) → List (Nat × Nat) → List (Nat × Nat)
  | [], _ => []
  | (q, v) :: t, [] => (setF 0 q, setF 0 v) :: setQuantiles t []
  | (q, v) :: t, (oq, ov) :: ot => (setF oq q, setF ov v) :: setQuantiles t ot

/-- BaseOtlpToStef.ConvertSummary (a point flagged NoRecordedValue is stored as PointValueTypeNone
    since repo commit ede8608; before it the flags were not looked at) -/
def convSummary (src : Point) (p : SPoint) : SPoint :=
  if flagged src then { p with ts := src.ts, start := src.start, value := .none } else
  let s : SSummary := match p.value with | .summary s => s | _ => {}
  { p with ts := src.ts, start := src.start,
           value := .summary { count := src.count, sum := setF s.sum src.sum,
                               quantiles := setQuantiles src.quantiles s.quantiles } }

/-! ### OTLP -> STEF, unsorted (otlp2stef_unsorted.go) -/

/-- state of one conversion: the writer's record, the converter's TempAttrs, records written. -/
structure WState where
  cur : SRecord := {}
  tmp : SAttrs := {}
  out : List SRecord := []       -- most recent first

def WState.write (st : WState) : WState := { st with out := st.cur :: st.out }

def tempOk (t : Nat) : Bool := t ≤ 2

def writeNumeric : List Point → WState → Except String WState
  | [], st => .ok st
  | p :: ps, st =>
    match convNumber p st.cur.point with
    | .error e => .error e
    | .ok pt =>
      let attrs := SAttrs.mapUnsorted p.attrs st.cur.attrs
      match convExemplars p.exemplars st.tmp pt with
      | .error e => .error e
      | .ok (tmp, pt) =>
        writeNumeric ps ({ st with cur := { st.cur with point := pt, attrs := attrs }, tmp := tmp }).write

def writeHistogram : List Point → WState → Except String WState
  | [], st => .ok st
  | p :: ps, st =>
    match convHistogram p st.cur.point with
    | .error e => .error e
    | .ok pt =>
      let attrs := SAttrs.mapUnsorted p.attrs st.cur.attrs
      let metric := { st.cur.metric with bounds := setFSlice st.cur.metric.bounds p.bounds }
      match convExemplars p.exemplars st.tmp pt with
      | .error e => .error e
      | .ok (tmp, pt) =>
        writeHistogram ps
          ({ st with cur := { st.cur with point := pt, attrs := attrs, metric := metric }, tmp := tmp }).write

def writeExpHistogram : List Point → WState → Except String WState
  | [], st => .ok st
  | p :: ps, st =>
    match convExpHistogram p st.cur.point with
    | .error e => .error e
    | .ok pt =>
      let attrs := SAttrs.mapUnsorted p.attrs st.cur.attrs
      match convExemplars p.exemplars st.tmp pt with
      | .error e => .error e
      | .ok (tmp, pt) =>
        writeExpHistogram ps ({ st with cur := { st.cur with point := pt, attrs := attrs }, tmp := tmp }).write

def writeSummary : List Point → WState → Except String WState
  | [], st => .ok st
  | p :: ps, st =>
    let pt := convSummary p st.cur.point
    let attrs := SAttrs.mapUnsorted p.attrs st.cur.attrs
    writeSummary ps ({ st with cur := { st.cur with point := pt, attrs := attrs } }).write

/-- metric2metric of otlp2stef_unsorted.go plus the per-type fields set in Convert -/
def convMetricUnsorted (m : Metric) (dst : SMetric) : Except String SMetric :=
  let dst := { dst with mdata := SAttrs.mapUnsorted m.mdata dst.mdata, name := m.name, desc := m.desc,
                        unit := m.unit, type := m.type.toNat }
  match m.type with
  | .gauge | .summary => .ok dst
  | .sum => if tempOk m.temp then .ok { dst with temp := m.temp, mono := m.mono } else .error "unexpected aggregation temporality"
  | .hist | .exp => if tempOk m.temp then .ok { dst with temp := m.temp } else .error "unexpected aggregation temporality"

def writeMetric (m : Metric) (st : WState) : Except String WState :=
  match convMetricUnsorted m st.cur.metric with
  | .error e => .error e
  | .ok met =>
    let st := { st with cur := { st.cur with metric := met } }
    match m.type with
    | .gauge | .sum => writeNumeric m.points st
    | .hist => writeHistogram m.points st
    | .exp => writeExpHistogram m.points st
    | .summary => writeSummary m.points st

def writeMetrics : List Metric → WState → Except String WState
  | [], st => .ok st
  | m :: ms, st =>
    match writeMetric m st with
    | .error e => .error e
    | .ok st => writeMetrics ms st

def convScopeUnsorted (s : ScopeMetrics) (dst : SScope) : SScope :=
  { url := s.url, name := s.name, ver := s.ver, attrs := SAttrs.mapUnsorted s.attrs dst.attrs, dropped := s.dropped }

def writeScopes : List ScopeMetrics → WState → Except String WState
  | [], st => .ok st
  | s :: ss, st =>
    match writeMetrics s.metrics { st with cur := { st.cur with scope := convScopeUnsorted s st.cur.scope } } with
    | .error e => .error e
    | .ok st => writeScopes ss st

def convResourceUnsorted (r : ResourceMetrics) (dst : SResource) : SResource :=
  { url := r.url, attrs := SAttrs.mapUnsorted r.attrs dst.attrs, dropped := r.dropped }

def writeResources : List ResourceMetrics → WState → Except String WState
  | [], st => .ok st
  | r :: rs, st =>
    match writeScopes r.scopes { st with cur := { st.cur with resource := convResourceUnsorted r st.cur.resource } } with
    | .error e => .error e
    | .ok st => writeResources rs st

/-- OtlpToStefUnsorted.Convert: the record held by the writer at every Write(), in order. -/
def otlpToStefUnsorted (m : Metrics) : Except String (List SRecord) :=
  match writeResources m.rms {} with
  | .error e => .error e
  | .ok st => .ok st.out.reverse

/-! ### the logical (reader-visible) content of a record -/

def SResource.id (r : SResource) : ResId := { url := r.url, dropped := r.dropped, attrs := r.attrs.toOtlp }
def SScope.id (s : SScope) : ScopeId :=
  { name := s.name, ver := s.ver, url := s.url, dropped := s.dropped, attrs := s.attrs.toOtlp }

/-- what Is{Resource,Scope,Metric}Modified compares: the logical values as stored -/
def SResource.vis (r : SResource) : Str × KVs × Nat := (r.url, r.attrs.visible, r.dropped)
def SScope.vis (s : SScope) : Str × Str × Str × KVs × Nat := (s.name, s.ver, s.url, s.attrs.visible, s.dropped)
def SMetric.vis (m : SMetric) : Str × Str × Str × Nat × KVs × List Nat × Nat × Bool :=
  (m.name, m.desc, m.unit, m.type, m.mdata.visible, m.bounds, m.temp, m.mono)

/-! ### STEF -> OTLP (internal/basesteftotolp.go, otlptools/convert.go) -/

/-- BaseSTEFToOTLP.ConvertExemplar; an id of a length other than 0 or 16 (8) is an error since fix
    b8b9856 (before: `pcommon.TraceID([]byte(..))` panicked). The converters write 16 / 8 bytes. -/
def exemplarToOtlp (e : SExemplar) : Except String Exemplar :=
  if (e.traceID.length != 16 && e.traceID.length != 0) || (e.spanID.length != 8 && e.spanID.length != 0) then .error "err:id-length" else
  let (vt, v) := match e.value with | .none => (0, 0) | .int v => (1, v) | .dbl v => (2, v)
  .ok { ts := e.ts, vt := vt, v := v, traceID := e.traceID, spanID := e.spanID, attrs := e.attrs.toOtlp }

def exemplarsToOtlp : List SExemplar → Except String (List Exemplar)
  | [] => .ok []
  | e :: es =>
    match exemplarToOtlp e with
    | .error x => .error x
    | .ok e' => match exemplarsToOtlp es with
      | .error x => .error x
      | .ok es' => .ok (e' :: es')

def aggTempToOtlp (t : Nat) : Except String Nat := if t ≤ 2 then .ok t else .error "err:unexpected aggregation temporality"

/-- BaseSTEFToOTLP.AppendOTLPPoint: the data point appended to a metric of type `t`. The exemplars
    of a point without a recorded value are converted too (since repo commit ede8608; summaries have
    no exemplars). -/
def pointToOtlp (t : MType) (metric : SMetric) (attrs : SAttrs) (p : SPoint) : Except String Point :=
  let base : Point := { attrs := attrs.toOtlp, start := p.start, ts := p.ts }
  match t with
  | .gauge | .sum =>
    match p.value with
    | .none => (exemplarsToOtlp p.exemplars).map fun ex => { base with flags := 1, exemplars := ex }
    | .int v => (exemplarsToOtlp p.exemplars).map fun ex => { base with vt := 1, v := v, exemplars := ex }
    | .dbl v => (exemplarsToOtlp p.exemplars).map fun ex => { base with vt := 2, v := v, exemplars := ex }
    | _ => .error "err:unexpected point value type"
  | .hist =>
    match p.value with
    | .none => (exemplarsToOtlp p.exemplars).map fun ex => { base with flags := 1, exemplars := ex }
    | .hist h => (exemplarsToOtlp p.exemplars).map fun ex =>
        { base with count := h.count, buckets := h.buckets, bounds := metric.bounds,
                    hasSum := h.sum.isSome, sum := h.sum.getD 0, hasMin := h.min.isSome, min := h.min.getD 0,
                    hasMax := h.max.isSome, max := h.max.getD 0, exemplars := ex }
    | _ => .error "value-type-mismatch"
  | .exp =>
    match p.value with
    | .none => (exemplarsToOtlp p.exemplars).map fun ex => { base with flags := 1, exemplars := ex }
    | .exp e => (exemplarsToOtlp p.exemplars).map fun ex =>
        { base with count := e.count,
                    hasSum := e.sum.isSome, sum := e.sum.getD 0, hasMin := e.min.isSome, min := e.min.getD 0,
                    hasMax := e.max.isSome, max := e.max.getD 0,
                    scale := trunc32 e.scale, zeroCount := e.zeroCount, zeroThreshold := e.zeroThreshold,
                    posOff := trunc32 e.pos.offset, pos := e.pos.counts,
                    negOff := trunc32 e.neg.offset, neg := e.neg.counts, exemplars := ex }
    | _ => .error "value-type-mismatch"
  | .summary =>
    match p.value with
    | .none => .ok { base with flags := 1 }
    | .summary s => .ok { base with count := s.count, sum := s.sum, quantiles := s.quantiles }
    | _ => .error "value-type-mismatch"

/-- otlptools.MetricToOtlp plus the metric-level fields AppendOTLPPoint sets -/
def metricToOtlp (m : SMetric) : Except String Metric :=
  match MType.ofNat? m.type with
  | none => .error "err:unknown metric type"
  | some t =>
    match aggTempToOtlp m.temp with
    | .error e => .error e
    | .ok temp =>
      .ok { name := m.name, desc := m.desc, unit := m.unit, mdata := m.mdata.toOtlp, type := t,
            temp := (match t with | .sum | .hist | .exp => temp | _ => 0),
            mono := (match t with | .sum => m.mono | _ => false) }

def scopeToOtlp (s : SScope) : ScopeMetrics :=
  { name := s.name, ver := s.ver, url := s.url, dropped := s.dropped, attrs := s.attrs.toOtlp }

def resourceToOtlp (r : SResource) : ResourceMetrics :=
  { url := r.url, dropped := r.dropped, attrs := r.attrs.toOtlp }

/-! ### STEF -> OTLP, unsorted (stef2otlp_unsorted.go): a new resource / scope / metric whenever
    the record says it changed. The tree under construction is kept newest-first. -/

def addPoint (p : Point) : List ResourceMetrics → List ResourceMetrics
  | r :: rs =>
    match r.scopes with
    | s :: ss =>
      match s.metrics with
      | m :: ms => { r with scopes := { s with metrics := { m with points := p :: m.points } :: ms } :: ss } :: rs
      | [] => r :: rs
    | [] => r :: rs
  | [] => []

def addMetric (m : Metric) : List ResourceMetrics → List ResourceMetrics
  | r :: rs =>
    match r.scopes with
    | s :: ss => { r with scopes := { s with metrics := m :: s.metrics } :: ss } :: rs
    | [] => r :: rs
  | [] => []

def addScope (s : ScopeMetrics) : List ResourceMetrics → List ResourceMetrics
  | r :: rs => { r with scopes := s :: r.scopes } :: rs
  | [] => []

def curMetricType : List ResourceMetrics → Option MType
  | r :: _ =>
    match r.scopes with
    | s :: _ =>
      match s.metrics with
      | m :: _ => some m.type
      | [] => none
    | [] => none
  | [] => none

/-- change flags of a record relative to the previous one (first record: everything). -/
structure Mods where
  res : Bool
  scope : Bool
  metric : Bool

def modsOf (prev : Option SRecord) (r : SRecord) : Mods :=
  match prev with
  | none => { res := true, scope := true, metric := true }
  | some p => { res := p.resource.vis != r.resource.vis, scope := p.scope.vis != r.scope.vis,
                metric := p.metric.vis != r.metric.vis }

/-- one iteration of the loop of StefToOtlpUnsorted.Convert -/
def readStep (first : Bool) (md : Mods) (r : SRecord) (acc : List ResourceMetrics) : Except String (List ResourceMetrics) :=
  let modified := first
  let (acc, modified) :=
    if modified || md.res then (resourceToOtlp r.resource :: acc, true) else (acc, modified)
  let (acc, modified) :=
    if modified || md.scope then (addScope (scopeToOtlp r.scope) acc, true) else (acc, modified)
  let accE : Except String (List ResourceMetrics) :=
    if modified || md.metric then (metricToOtlp r.metric).map (fun m => addMetric m acc) else .ok acc
  match accE with
  | .error e => .error e
  | .ok acc =>
    match curMetricType acc with
    | none => .error "no current metric"
    | some t =>
      match pointToOtlp t r.metric r.attrs r.point with
      | .error e => .error e
      | .ok p => .ok (addPoint p acc)

def readLoop : Option SRecord → List SRecord → List ResourceMetrics → Except String (List ResourceMetrics)
  | _, [], acc => .ok acc
  | prev, r :: rs, acc =>
    match readStep prev.isNone (modsOf prev r) r acc with
    | .error e => .error e
    | .ok acc => readLoop (some r) rs acc

def revMetric (m : Metric) : Metric := { m with points := m.points.reverse }
def revScope (s : ScopeMetrics) : ScopeMetrics := { s with metrics := (s.metrics.map revMetric).reverse }
def revResource (r : ResourceMetrics) : ResourceMetrics := { r with scopes := (r.scopes.map revScope).reverse }

/-- StefToOtlpUnsorted.Convert(reader, untilEOF = true) over the records of a stream. -/
def stefToOtlpUnsorted (recs : List SRecord) : Except String Metrics :=
  match readLoop none recs [] with
  | .error e => .error e
  | .ok acc => .ok { rms := (acc.map revResource).reverse }

/-! ### sorted trees: modernc.org/b with the generated Cmp functions as comparators -/

/-- `Get` then `Set` when absent: an association list kept in comparator order. A key that
    compares equal to a stored one finds that entry (the stored key is kept). -/
def treeUpsert {K V : Type} (cmp : K → K → Int) (k : K) (new : Unit → V) (upd : V → V) : List (K × V) → List (K × V)
  | [] => [(k, upd (new ()))]
  | (k', v') :: t =>
    let c := cmp k k'
    if c == 0 then (k', upd v') :: t
    else if c < 0 then (k, upd (new ())) :: (k', v') :: t
    else (k', v') :: treeUpsert cmp k new upd t

structure MetricKey where
  name : Str
  desc : Str
  unit : Str
  type : Nat
  mdata : KVs
  bounds : List Nat
  temp : Nat
  mono : Bool
  deriving DecidableEq

structure ResKey where
  url : Str
  attrs : KVs
  dropped : Nat
  deriving DecidableEq

structure ScopeKey where
  name : Str
  ver : Str
  url : Str
  attrs : KVs
  dropped : Nat
  deriving DecidableEq

/-- otelstef.CmpMetric -/
def cmpMetric (a b : MetricKey) : Int :=
  firstNonZero (strCompare a.name b.name) <|
  firstNonZero (strCompare a.desc b.desc) <|
  firstNonZero (strCompare a.unit b.unit) <|
  firstNonZero (natCompare a.type b.type) <|
  firstNonZero (cmpKVs a.mdata b.mdata) <|
  firstNonZero (cmpFloatArray a.bounds b.bounds) <|
  firstNonZero (natCompare a.temp b.temp) (boolCompare a.mono b.mono)

/-- otelstef.CmpResource -/
def cmpResource (a b : ResKey) : Int :=
  firstNonZero (strCompare a.url b.url) <|
  firstNonZero (cmpKVs a.attrs b.attrs) (natCompare a.dropped b.dropped)

/-- otelstef.CmpScope -/
def cmpScope (a b : ScopeKey) : Int :=
  firstNonZero (strCompare a.name b.name) <|
  firstNonZero (strCompare a.ver b.ver) <|
  firstNonZero (strCompare a.url b.url) <|
  firstNonZero (cmpKVs a.attrs b.attrs) (natCompare a.dropped b.dropped)

def SMetric.key (m : SMetric) : MetricKey :=
  { name := m.name, desc := m.desc, unit := m.unit, type := m.type, mdata := m.mdata.visible, bounds := m.bounds,
    temp := m.temp, mono := m.mono }
def SResource.key (r : SResource) : ResKey := { url := r.url, attrs := r.attrs.visible, dropped := r.dropped }
def SScope.key (s : SScope) : ScopeKey :=
  { name := s.name, ver := s.ver, url := s.url, attrs := s.attrs.visible, dropped := s.dropped }

/-- copy of a struct held by pointer / cloned into a tree: the logical value in a fresh object -/
def MetricKey.toS (k : MetricKey) : SMetric :=
  { name := k.name, desc := k.desc, unit := k.unit, type := k.type, mdata := SAttrs.copyFrom k.mdata {}, bounds := k.bounds,
    temp := k.temp, mono := k.mono }
def ResKey.toS (k : ResKey) : SResource := { url := k.url, attrs := SAttrs.copyFrom k.attrs {}, dropped := k.dropped }
def ScopeKey.toS (k : ScopeKey) : SScope :=
  { name := k.name, ver := k.ver, url := k.url, attrs := SAttrs.copyFrom k.attrs {}, dropped := k.dropped }

/-- Points.SortValues: by timestamp (slices.SortFunc; insertion sort below 12 elements, stable) -/
def insertByTs (p : SPoint) : List SPoint → List SPoint
  | [] => [p]
  | q :: t => if p.ts < q.ts then p :: q :: t else q :: insertByTs p t

def sortByTs (l : List SPoint) : List SPoint := l.foldl (fun acc p => insertByTs p acc) []

/-! ### OTLP -> STEF, sorted (sortedbymetric) -/

abbrev AttrLeaves := List (KVs × List SPoint)
abbrev ScopeLevel := List (ScopeKey × AttrLeaves)
abbrev ResLevel := List (ResKey × ScopeLevel)
abbrev MetricTree := List (MetricKey × ResLevel)

/-- SortedTree.ByMetric(..).ByResource(..).ByScope(..).ByAttrs(..) followed by append -/
def treeAdd (mk : MetricKey) (rk : ResKey) (sk : ScopeKey) (ak : KVs) (p : SPoint) (t : MetricTree) : MetricTree :=
  treeUpsert cmpMetric mk (fun _ => []) (fun rl =>
    treeUpsert cmpResource rk (fun _ => []) (fun sl =>
      treeUpsert cmpScope sk (fun _ => []) (fun al =>
        treeUpsert cmpKVs ak (fun _ => []) (fun pts => pts ++ [p]) al) sl) rl) t

/-- sortedbymetric.metric2metric: a new otelstef.Metric every time -/
def sortedMetricKey (m : Metric) (type : Nat) (temp : Nat) (mono : Bool) (bounds : List Nat) : MetricKey :=
  { name := m.name, desc := m.desc, unit := m.unit, type := type, mdata := (SAttrs.mapSorted m.mdata {}).visible,
    bounds := bounds, temp := temp, mono := mono }

structure SortState where
  tmp : SAttrs := {}
  tree : MetricTree := []

/-- converter.covertNumberDataPoints (the `continue` on value-less points is gone since repo commit 42fcfbf) -/
def sortNumbers (m : Metric) (mk : MetricKey) (rk : ResKey) (sk : ScopeKey) : List Point → SortState → Except String SortState
  | [], st => .ok st
  | p :: ps, st =>
    let tmp := SAttrs.mapSorted p.attrs st.tmp
    let ak := tmp.visible
    let pt : SPoint := { ts := p.ts, start := p.start }
    match convExemplars p.exemplars tmp pt with
    | .error e => .error e
    | .ok (tmp, pt) =>
      match convNumber p pt with
      | .error e => .error e
      | .ok pt => sortNumbers m mk rk sk ps { tmp := tmp, tree := treeAdd mk rk sk ak pt st.tree }

/-- converter.covertHistogramDataPoints -/
def sortHistograms (m : Metric) (rk : ResKey) (sk : ScopeKey) : List Point → SortState → Except String SortState
  | [], st => .ok st
  | p :: ps, st =>
    let mk := sortedMetricKey m 2 m.temp false p.bounds
    let tmp := SAttrs.mapSorted p.attrs (SAttrs.mapSorted p.attrs st.tmp)
    let ak := tmp.visible
    match convExemplars p.exemplars tmp {} with
    | .error e => .error e
    | .ok (tmp, pt) =>
      match convHistogram p pt with
      | .error e => .error e
      | .ok pt => sortHistograms m rk sk ps { tmp := tmp, tree := treeAdd mk rk sk ak pt st.tree }

/-- converter.covertExponentialHistogramDataPoints -/
def sortExpHistograms (m : Metric) (rk : ResKey) (sk : ScopeKey) : List Point → SortState → Except String SortState
  | [], st => .ok st
  | p :: ps, st =>
    let mk := sortedMetricKey m 3 m.temp false []
    let tmp := SAttrs.mapSorted p.attrs (SAttrs.mapSorted p.attrs st.tmp)
    let ak := tmp.visible
    match convExemplars p.exemplars tmp {} with
    | .error e => .error e
    | .ok (tmp, pt) =>
      match convExpHistogram p pt with
      | .error e => .error e
      | .ok pt => sortExpHistograms m rk sk ps { tmp := tmp, tree := treeAdd mk rk sk ak pt st.tree }

/-- converter.covertSummaryDataPoints -/
def sortSummaries (m : Metric) (rk : ResKey) (sk : ScopeKey) : List Point → SortState → Except String SortState
  | [], st => .ok st
  | p :: ps, st =>
    let mk := sortedMetricKey m 4 0 false []
    let tmp := SAttrs.mapSorted p.attrs st.tmp
    let ak := tmp.visible
    let pt := convSummary p {}
    sortSummaries m rk sk ps { tmp := tmp, tree := treeAdd mk rk sk ak pt st.tree }

def sortMetric (rk : ResKey) (sk : ScopeKey) (m : Metric) (st : SortState) : Except String SortState :=
  match m.type with
  | .gauge => sortNumbers m (sortedMetricKey m 0 0 false []) rk sk m.points st
  | .sum =>
    if tempOk m.temp then sortNumbers m (sortedMetricKey m 1 m.temp m.mono []) rk sk m.points st
    else .error "unexpected aggregation temporality"
  | .hist => if tempOk m.temp then sortHistograms m rk sk m.points st else .error "unexpected aggregation temporality"
  | .exp => if tempOk m.temp then sortExpHistograms m rk sk m.points st else .error "unexpected aggregation temporality"
  | .summary => sortSummaries m rk sk m.points st

def sortMetrics (rk : ResKey) (sk : ScopeKey) : List Metric → SortState → Except String SortState
  | [], st => .ok st
  | m :: ms, st =>
    match sortMetric rk sk m st with
    | .error e => .error e
    | .ok st => sortMetrics rk sk ms st

def sortedScopeKey (s : ScopeMetrics) : ScopeKey :=
  { name := s.name, ver := s.ver, url := s.url, attrs := (SAttrs.mapSorted s.attrs {}).visible, dropped := s.dropped }

def sortedResKey (r : ResourceMetrics) : ResKey :=
  { url := r.url, attrs := (SAttrs.mapSorted r.attrs {}).visible, dropped := r.dropped }

def sortScopes (rk : ResKey) : List ScopeMetrics → SortState → Except String SortState
  | [], st => .ok st
  | s :: ss, st =>
    match sortMetrics rk (sortedScopeKey s) s.metrics st with
    | .error e => .error e
    | .ok st => sortScopes rk ss st

def sortResources : List ResourceMetrics → SortState → Except String SortState
  | [], st => .ok st
  | r :: rs, st =>
    match sortScopes (sortedResKey r) r.scopes st with
    | .error e => .error e
    | .ok st => sortResources rs st

/-- Point.CopyFrom: element-wise setters with the source's logical content -/
def copyExemplarInto (src : SExemplar) (dst : SExemplar) : SExemplar :=
  { ts := src.ts,
    value := (match src.value, dst.value with
              | .dbl v, .dbl o => .dbl (setF o v)
              | v, _ => v),
    spanID := src.spanID, traceID := src.traceID,
    attrs := SAttrs.copyFrom src.attrs.visible dst.attrs }

def copyExemplarsLoop : List SExemplar → List SExemplar → List SExemplar
  | [], st => st
  | e :: es, d :: ds => copyExemplarInto e d :: copyExemplarsLoop es ds
  | e :: es, [] => copyExemplarInto e {} :: copyExemplarsLoop es []

def copyOptF (src old : Option Nat) : Option Nat := setOptF old src

def copyPointValue (src dst : SPValue) : SPValue :=
  match src with
  | .none => .none
  | .int v => .int v
  | .dbl v => (match dst with | .dbl o => .dbl (setF o v) | _ => .dbl v)
  | .hist h =>
    let d : SHist := match dst with | .hist d => d | _ => {}
    .hist { count := h.count, sum := copyOptF h.sum d.sum, min := copyOptF h.min d.min, max := copyOptF h.max d.max,
            buckets := h.buckets }
  | .exp e =>
    let d : SExp := match dst with | .exp d => d | _ => {}
    .exp { count := e.count, sum := copyOptF e.sum d.sum, min := copyOptF e.min d.min, max := copyOptF e.max d.max,
           scale := e.scale, zeroCount := e.zeroCount, pos := e.pos, neg := e.neg,
           zeroThreshold := setF d.zeroThreshold e.zeroThreshold }
  | .summary s =>
    let d : SSummary := match dst with | .summary d => d | _ => {}
    .summary { count := s.count, sum := setF d.sum s.sum, quantiles := setQuantiles s.quantiles d.quantiles }

def copyPointInto (src : SPoint) (dst : SPoint) : SPoint :=
  { start := src.start, ts := src.ts, value := copyPointValue src.value dst.value,
    exStore := copyExemplarsLoop src.exemplars (exEnsureLen dst.exStore dst.exLen src.exLen),
    exLen := src.exLen }

/-- SortedTree.ToStef: `SetMetric`, `SetResource`, `SetScope` make the record hold the tree's
    struct (assignment of the logical value), attributes are copied once per attribute set and the
    point is copied for every Write(). -/
def emitPoints : List SPoint → WState → WState
  | [], st => st
  | p :: ps, st =>
    emitPoints ps ({ st with cur := { st.cur with point := copyPointInto p st.cur.point } }).write

def emitAttrs : AttrLeaves → WState → WState
  | [], st => st
  | (ak, pts) :: t, st =>
    emitAttrs t (emitPoints (sortByTs pts) { st with cur := { st.cur with attrs := SAttrs.copyFrom ak st.cur.attrs } })

def emitScopes : ScopeLevel → WState → WState
  | [], st => st
  | (sk, al) :: t, st => emitScopes t (emitAttrs al { st with cur := { st.cur with scope := sk.toS } })

def emitResources : ResLevel → WState → WState
  | [], st => st
  | (rk, sl) :: t, st => emitResources t (emitScopes sl { st with cur := { st.cur with resource := rk.toS } })

def emitMetrics : MetricTree → WState → WState
  | [], st => st
  | (mk, rl) :: t, st => emitMetrics t (emitResources rl { st with cur := { st.cur with metric := mk.toS } })

/-- OtlpToStefSorted.Convert -/
def otlpToStefSorted (m : Metrics) : Except String (List SRecord) :=
  match sortResources m.rms {} with
  | .error e => .error e
  | .ok st => .ok (emitMetrics st.tree {}).out.reverse

/-! ### STEF -> OTLP, sorted (sortedbyresource) -/

abbrev RAttrLeaves := List (KVs × List SPoint)
abbrev RMetricLevel := List (MetricKey × RAttrLeaves)
abbrev RScopeLevel := List (ScopeKey × RMetricLevel)
abbrev RResTree := List (ResKey × RScopeLevel)

def rtreeAdd (r : SRecord) (t : RResTree) : RResTree :=
  let p := copyPointInto r.point {}
  treeUpsert cmpResource r.resource.key (fun _ => []) (fun sl =>
    treeUpsert cmpScope r.scope.key (fun _ => []) (fun ml =>
      treeUpsert cmpMetric r.metric.key (fun _ => []) (fun al =>
        treeUpsert cmpKVs r.attrs.visible (fun _ => []) (fun pts => pts ++ [p]) al) ml) sl) t

def pointsToOtlp (t : MType) (m : SMetric) (attrs : SAttrs) : List SPoint → Except String (List Point)
  | [] => .ok []
  | p :: ps =>
    match pointToOtlp t m attrs p with
    | .error e => .error e
    | .ok p' => match pointsToOtlp t m attrs ps with
      | .error e => .error e
      | .ok ps' => .ok (p' :: ps')

def leavesToOtlp (t : MType) (m : SMetric) : RAttrLeaves → Except String (List Point)
  | [] => .ok []
  | (ak, pts) :: rest =>
    match pointsToOtlp t m (SAttrs.copyFrom ak {}) pts with
    | .error e => .error e
    | .ok ps => match leavesToOtlp t m rest with
      | .error e => .error e
      | .ok ps' => .ok (ps ++ ps')

def metricsLevelToOtlp : RMetricLevel → Except String (List Metric)
  | [] => .ok []
  | (mk, al) :: rest =>
    match metricToOtlp mk.toS with
    | .error e => .error e
    | .ok m =>
      match leavesToOtlp m.type mk.toS al with
      | .error e => .error e
      | .ok pts => match metricsLevelToOtlp rest with
        | .error e => .error e
        | .ok ms => .ok ({ m with points := pts } :: ms)

def scopesLevelToOtlp : RScopeLevel → Except String (List ScopeMetrics)
  | [] => .ok []
  | (sk, ml) :: rest =>
    match metricsLevelToOtlp ml with
    | .error e => .error e
    | .ok ms => match scopesLevelToOtlp rest with
      | .error e => .error e
      | .ok ss => .ok ({ scopeToOtlp sk.toS with metrics := ms } :: ss)

def resTreeToOtlp : RResTree → Except String (List ResourceMetrics)
  | [] => .ok []
  | (rk, sl) :: rest =>
    match scopesLevelToOtlp sl with
    | .error e => .error e
    | .ok ss => match resTreeToOtlp rest with
      | .error e => .error e
      | .ok rs => .ok ({ resourceToOtlp rk.toS with scopes := ss } :: rs)

/-- stefToOtlpSorted.Convert: SortedTree of sortedbyresource, then ToOtlp -/
def stefToOtlpSorted (recs : List SRecord) : Except String Metrics :=
  match resTreeToOtlp (recs.foldl (fun t r => rtreeAdd r t) []) with
  | .error e => .error e
  | .ok rms => .ok { rms := rms }

end Stef.Otlp
