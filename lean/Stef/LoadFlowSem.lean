/-
  Stef.LoadFlowSem: the (hand-written) target vocabulary of the `LoadFlow` generator of
  /verif/extract (extract/loadflow.go). The generator translates the Go statements of
  `ReadColumnSet.ResetData / ReadSizesFrom / ReadDataFrom`, `ReadBufs.ReadFrom` (go/pkg/recordbuf.go)
  and `BaseReader.NextFrame / ReadFixedHeader / ReadVarHeader` (go/pkg/basereader.go) one by one into
  Lean terms over the states below (Stef/Gen/LoadFlow.lean); nothing here says in which order the
  loader does what, what it checks, which reads are `io.ReadFull`, or which fields it assigns.

  * `Cols` = a `ReadColumnSet`: `s.column.data` and `s.subColumns`;
  * `Sizes.St` (hand model's state of the size table pass) = what the two pointer parameters of
    `ReadSizesFrom` point to: `buf *BitsReader` is `st.rd`, `*readLimit` is `st.limit`; `st.alloc` is
    the ghost that records every size handed to `EnsureLen`, newest first;
  * `Bufs` = a `ReadBufs` (`Columns`, `tempBuf`, `tempBufBytes`, `readLimit`) plus the same ghost;
  * `Rs` = a `BaseReader`: `dec` is `r.FrameDecoder` (the state of the REGENERATED frame decoder,
    `FrameFlowSem.St`); `r.Source` is the bufio reader inside it (`dec.fd.b`: regenerated fact
    `Gen.LoadFlow.initWiring`: Init hands `r.Source` to `FrameDecoder.Init`);
  * a parameter `buf ByteAndBlockReader` is the frame decoder (the only call passes `&r.FrameDecoder`);
  * Go integers are `Nat` (`-` truncated; the guards in front of every subtraction keep it from
    wrapping, as in the hand model); `int(x)` / `uint64(x)` are the identity;
  * a `[]byte` is its content. `make` / `EnsureLen` give zeros (what a reused buffer holds between
    `EnsureLen` and the `ReadFull` that fills it is not modelled); `io.ReadFull(src, p)` returns `p`
    after the call: the bytes read, then what `p` held behind them;
  * `io.ReadFull` / `binary.ReadUvarint` are the standard library models of Stef/ReaderIO.lean
    (`readFullG`, `readUvarintG`), instantiated with the REGENERATED `FrameDecoder.Read / ReadByte`
    (Gen/FrameFlow.lean), or the bufio model for `r.Source`;
  * an `error` is `Option Err`.
-/
import Stef.Gen.FrameFlow
import Stef.Sizes

namespace Stef.LoadFlowSem
open Stef.ReaderIO Stef.FrameFlowSem

/-- Go: `ReadColumnSet`: `column.data`, `subColumns` -/
inductive Cols where
  | node (data : Bytes) (kids : List Cols)
  deriving Repr, Inhabited

/-- Go: `ReadBufs` -/
structure Bufs where
  columns : Cols := .node [] []
  tempBuf : BitsReader := {}
  tempBufBytes : Bytes := []
  readLimit : Nat := 0
  /-- ghost: every size handed to `EnsureLen` (size table buffer and column buffers), newest first -/
  allocs : List Nat := []
  deriving Repr

/-- Go: `BaseReader` (the part the loading functions touch) -/
structure Rs where
  /-- `r.FrameDecoder`; `r.Source` is `dec.fd.b` -/
  dec : St
  /-- `r.FixedHeader.Compression` -/
  compression : Nat := 0
  /-- `r.FrameRecordCount` -/
  frameRecordCount : Nat := 0
  /-- `r.ReadBufs` -/
  bufs : Bufs := {}
  deriving Repr

/-- Go: `make([]byte, n)` -/
def mkBytes (n : Nat) : Bytes := List.replicate n 0#8

/-- Go: `EnsureLen(old, n)`: a slice of length `n` (content: see the header) -/
def ensureLen (_old : Bytes) (n : Nat) : Bytes := List.replicate n 0#8

/-- ghost of an `EnsureLen` call inside `ReadSizesFrom` -/
def noteAlloc (st : Sizes.St) (n : Nat) : Sizes.St := { st with alloc := n :: st.alloc }

/-- ghost of an `EnsureLen` call inside `ReadBufs.ReadFrom` -/
def noteAllocB (s : Bufs) (n : Nat) : Bufs := { s with allocs := n :: s.allocs }

/-- Go: `b[i]` of a byte slice, as an integer (Go panics beyond the end; 0 here) -/
def byteAt (b : Bytes) (i : Nat) : Nat := (b.getD i 0#8).toNat

/-- the buffer `p` after a read that delivered `got` into its front -/
def fillBuf (p got : Bytes) : Bytes := got ++ p.drop got.length

/-- Go: `buf.ReadUvarintCompact()` with `buf *BitsReader` = `st.rd` -/
def bitsReadUvarintCompact (st : Sizes.St) : Sizes.St × Nat :=
  match st.rd.readUvarintCompact with
  | (rd, v) => ({ st with rd := rd }, v.toNat)

/-- the arguments `&s.tempBuf, &s.readLimit` of the call of `ReadSizesFrom` in `ReadFrom` -/
def sizesArgs (s : Bufs) : Sizes.St := { rd := s.tempBuf, limit := s.readLimit, alloc := s.allocs }

/-- what that call leaves behind the two pointers (and in `s.Columns`) -/
def sizesBack (s : Bufs) (cols : Cols) (st : Sizes.St) : Bufs :=
  { s with columns := cols, tempBuf := st.rd, readLimit := st.limit, allocs := st.alloc }

/-- `FrameDecoder.ReadByte` (regenerated) as a `ByteReader` of `readUvarintG` -/
def fdByte (d : St) : St × Except Err Byte :=
  match Stef.Gen.FrameFlow.readByte d with
  | (d, b, none) => (d, .ok b)
  | (d, _, some e) => (d, .error e)

/-- Go: `binary.ReadUvarint(buf)` / `binary.ReadUvarint(&r.FrameDecoder)` -/
def fdReadUvarint (d : St) : St × Nat × Option Err := readUvarintG fdByte d

/-- Go: `io.ReadFull(buf, p)` / `io.ReadFull(&r.FrameDecoder, p)`: the standard library loop over
    the regenerated `FrameDecoder.Read`; returns `p` after the call. The first line is the hand
    model's ghost `overrun` (a ReadFull that asks for more than the frame has left). -/
def fdReadFull (d : St) (p : Bytes) : St × Bytes × Option Err :=
  let d : St := if d.fd.remaining < p.length then { d with fd := { d.fd with overrun := true } } else d
  match readFullG Stef.Gen.FrameFlow.read (p.length + d.fd.b.src.sched.length + 1) d p.length with
  | (d, got, e) => (d, fillBuf p got, e)

/-- Go: `io.ReadFull(r.Source, p)` (bufio.Reader) -/
def srcReadFull (d : St) (p : Bytes) : St × Bytes × Option Err :=
  match d.fd.b.readFullN p.length with
  | (b, got, e) => ({ d with fd := { d.fd with b := b } }, fillBuf p got, e)

end Stef.LoadFlowSem
