/-
  Stef.Receiver: the per-stream STEF receiver of the collector as a labelled transition system.
  Core Lean only (linked into the driver).

  Transcribed from, AS WRITTEN (defects included; state of /repo after fix commits 3f3aa6e, which
  made the reported bad-data range start at fromRecordID+1, and 3888867, which made the tick branch
  of Run report pending bad data before it acknowledges and made sendBadDataResponse never lower
  the acknowledged id):
    otelcol/internal/stefreceiver/stef.go                 onStream  (the decoding loop)
    otelcol/internal/stefreceiver/internal/responder.go   Responder (ScheduleAck,
        ScheduleBadDataResponse, LastError, Stop, Run, sendBadDataResponse, composeBadDataResponse)

  Two goroutines share `nextAckID` (atomic), `badDataCh` (channel, capacity 10), `lastError`
  (atomic) and `stopCh`. Each goroutine is a small program-counter machine; an event is one atomic
  action of one goroutine. Every interleaving of the two machines is a run of the LTS.

  onStream (program counter `RPc`)
      top      --checkErr-->   await      (LastError() == nil)      | exited (stop requested)
      await    --decode n-->   decoded    Convert() read one frame of n >= 1 records:
                                          fromRecordID = RecordCount() before, toRecordID = after
      await    --readFail-->   exited     Convert() failed (EOF, cancel, decode error)
      decoded  --consume o-->  needAck to | needBad from+1 to | exited (accept / permanent / transient)
      needAck  --schedAck-->   top        nextAckID.Store(to)
      needBad  --schedBad-->   top        badDataCh <- {from,to}   (enabled only if len < 10)
  Responder.Run (program counter `QPc`)
      idle      --tick-->      loaded rd                 `<-t.C`: readRecordID := nextAckID.Load()
      loaded rd --badRecv-->   composing .. (some rd)    inner select, `case badData := <-r.badDataCh`
      loaded rd --tickNoBad--> acking rd                 inner select, `default:` (channel found empty)
      idle      --badRecv-->   composing .. none         outer select, `case badData := <-r.badDataCh`
      composing --badMore-->   composing                 another <-badDataCh in composeBadDataResponse
      composing --badDone-->   sending ack' ranges       `default:` branch: channel found empty; then
                                                         `if AckRecordId < lastAckedID { AckRecordId = lastAckedID }`
      sending   --sendOk-->    idle | acking rd          SendDataResponse returned nil
                                                         (bad-data response: lastAckedID = AckRecordId)
      sending   --sendFail-->  idle | acking rd          lastError.Store(err), lastAckedID unchanged; a failed
                                                         gRPC stream stays failed (`broken`)
      acking rd --tickAck-->   sending rd [] | idle      `if readRecordID > lastAckedID`: lastAckedID = it, send
      idle      --stop-->      stopped                   <-stopCh (closed by the deferred resp.Stop())
    A bad-data response sent from inside the tick branch (`k = some rd`) continues at `acking rd`,
    one sent from the outer bad-data branch (`k = none`) and every acknowledgement return to the select.

  Record ids are 1-based: the k-th record of the stream has id k = RecordCount() after reading it;
  a batch decoded while RecordCount() goes from `from_` to `to` holds the ids from_+1 .. to.
-/
namespace Stef.Receiver

inductive Outcome where
  | pending | accept | perm | trans
deriving DecidableEq, Repr

structure Batch where
  from_ : Nat      -- reader.RecordCount() before the batch (fromRecordID)
  to : Nat         -- reader.RecordCount() after the batch (toRecordID)
  out : Outcome
deriving DecidableEq, Repr

/-- an inclusive id range of a bad-data response (FromID, ToID) -/
abbrev Range := Nat × Nat

inductive RPc where
  | top | await | decoded | needAck (to : Nat) | needBad (fr to : Nat) | exited
deriving DecidableEq, Repr

/-- `k`: the `readRecordID` loaded by the tick branch when the bad-data response is sent from inside
    that branch (`some rd`), `none` when it is sent from the bad-data branch of the outer select. -/
inductive QPc where
  | idle
  | loaded (rd : Nat)
  | composing (ack : Nat) (rs : List Range) (k : Option Nat)
  | sending (ack : Nat) (rs : List Range) (bad : Bool) (k : Option Nat)
  | acking (rd : Nat)
  | stopped
deriving DecidableEq, Repr

/-- where Run continues after SendDataResponse returned -/
def QPc.afterSend : Bool → Option Nat → QPc
  | true, some rd => .acking rd
  | _, _ => .idle

structure Resp where
  ack : Nat
  ranges : List Range
  ok : Bool
deriving DecidableEq, Repr

/-- capacity of `badDataCh` (`badDataMaxBatchSize` in responder.go) -/
def badDataCap : Nat := 10

structure State where
  decoded : Nat := 0              -- reader.RecordCount()
  batches : List Batch := []      -- newest first
  rpc : RPc := .top
  nextAck : Nat := 0              -- Responder.nextAckID
  queue : List Range := []        -- Responder.badDataCh, head = next to be received
  lastAcked : Nat := 0            -- local `lastAckedID` of Run
  lastError : Bool := false       -- Responder.lastError != nil
  broken : Bool := false          -- the response stream has failed
  stopReq : Bool := false         -- stopCh closed
  qpc : QPc := .idle
  resps : List Resp := []         -- every SendDataResponse call, newest first
deriving DecidableEq, Repr

def init : State := {}

inductive Event where
  | checkErr | decode (n : Nat) | readFail | consume (o : Outcome) | schedAck | schedBad
  | tick | badRecv | badMore | badDone | tickNoBad | tickAck | sendOk | sendFail | stop
deriving DecidableEq, Repr

/-- `none`: the event is not enabled in `s`. -/
def step (s : State) : Event → Option State
  | .checkErr =>
    match s.rpc with
    | .top => if s.lastError then some { s with rpc := .exited, stopReq := true }
              else some { s with rpc := .await }
    | _ => none
  | .decode n =>
    match s.rpc with
    | .await =>
      if n = 0 then none
      else some { s with decoded := s.decoded + n,
                         batches := ⟨s.decoded, s.decoded + n, .pending⟩ :: s.batches,
                         rpc := .decoded }
    | _ => none
  | .readFail =>
    match s.rpc with
    | .await => some { s with rpc := .exited, stopReq := true }
    | _ => none
  | .consume o =>
    match s.rpc, s.batches with
    | .decoded, b :: bs =>
      match o with
      | .pending => none
      | .accept => some { s with batches := { b with out := .accept } :: bs, rpc := .needAck b.to }
      | .perm =>
        -- BadData{FromID: fromRecordID + 1, ToID: toRecordID}: exactly the records of the batch
        some { s with batches := { b with out := .perm } :: bs, rpc := .needBad (b.from_ + 1) b.to }
      | .trans => some { s with batches := { b with out := .trans } :: bs, rpc := .exited, stopReq := true }
    | _, _ => none
  | .schedAck =>
    match s.rpc with
    | .needAck t => some { s with nextAck := t, rpc := .top }
    | _ => none
  | .schedBad =>
    match s.rpc with
    | .needBad f t =>
      if s.queue.length < badDataCap then some { s with queue := s.queue ++ [(f, t)], rpc := .top }
      else none
    | _ => none
  | .tick =>
    -- `case <-t.C: readRecordID := r.nextAckID.Load()`
    match s.qpc with
    | .idle => some { s with qpc := .loaded s.nextAck }
    | _ => none
  | .badRecv =>
    -- `case badData := <-r.badDataCh` of the outer select (idle) or of the tick branch (loaded)
    match s.qpc, s.queue with
    | .idle, h :: tl => some { s with queue := tl, qpc := .composing h.2 [h] none }
    | .loaded rd, h :: tl => some { s with queue := tl, qpc := .composing h.2 [h] (some rd) }
    | _, _ => none
  | .badMore =>
    match s.qpc, s.queue with
    | .composing a rs k, h :: tl =>
      some { s with queue := tl, qpc := .composing (if a < h.2 then h.2 else a) (rs ++ [h]) k }
    | _, _ => none
  | .badDone =>
    -- composeBadDataResponse returns; sendBadDataResponse: never acknowledge less than lastAckedID
    match s.qpc, s.queue with
    | .composing a rs k, [] =>
      some { s with qpc := .sending (if a < s.lastAcked then s.lastAcked else a) rs true k }
    | _, _ => none
  | .tickNoBad =>
    -- `default:` of the tick branch's inner select
    match s.qpc, s.queue with
    | .loaded rd, [] => some { s with qpc := .acking rd }
    | _, _ => none
  | .tickAck =>
    match s.qpc with
    | .acking rd =>
      if rd > s.lastAcked then some { s with lastAcked := rd, qpc := .sending rd [] false none }
      else some { s with qpc := .idle }
    | _ => none
  | .sendOk =>
    match s.qpc with
    | .sending a rs bad k =>
      if s.broken then none
      else some { s with resps := ⟨a, rs, true⟩ :: s.resps,
                         lastAcked := if bad then a else s.lastAcked,
                         qpc := QPc.afterSend bad k }
    | _ => none
  | .sendFail =>
    match s.qpc with
    | .sending a rs bad k =>
      some { s with resps := ⟨a, rs, false⟩ :: s.resps, lastError := true, broken := true,
                    qpc := QPc.afterSend bad k }
    | _ => none
  | .stop =>
    match s.qpc with
    | .idle => if s.stopReq then some { s with qpc := .stopped } else none
    | _ => none

/-- run a list of events; `none` as soon as one is not enabled -/
def run : State → List Event → Option State
  | s, [] => some s
  | s, e :: es =>
    match step s e with
    | some s' => run s' es
    | none => none

/-! ### observables -/

/-- AckRecordId of every successfully sent response, oldest first -/
def acks (s : State) : List Nat := ((s.resps.reverse).filter (·.ok)).map (·.ack)

/-- every id range put into a response so far (sent or attempted), oldest first -/
def reported (s : State) : List Range := (s.resps.reverse).flatMap (·.ranges)

/-- id ranges of the successfully sent responses, oldest first -/
def reportedOk (s : State) : List Range := ((s.resps.reverse).filter (·.ok)).flatMap (·.ranges)

/-- ranges received from the channel by Run and not yet handed to SendDataResponse -/
def QPc.infl : QPc → List Range
  | .composing _ rs _ => rs
  | .sending _ rs _ _ => rs
  | _ => []

def inflight (s : State) : List Range := s.qpc.infl

/-- the range the loop is about to put into the channel -/
def rpcBad (s : State) : List Range :=
  match s.rpc with
  | .needBad f t => [(f, t)]
  | _ => []

/-- bad-data ranges on their way to a response, in the order they will be reported -/
def pendingBad (s : State) : List Range := inflight s ++ s.queue ++ rpcBad s

/-- the (FromID, ToID) pairs of the permanently rejected batches, oldest first -/
def permRanges (bs : List Batch) : List Range :=
  ((bs.reverse).filter (fun b => b.out = .perm)).map (fun b => (b.from_ + 1, b.to))

/-- what the property demands of an acknowledged id `a`: every record up to `a` was decoded, and the
    batch of each such record was accepted by the consumer or permanently rejected AND already
    reported in a bad-data range of a successfully sent response -/
def Covered (s : State) (a : Nat) : Prop :=
  a ≤ s.decoded ∧
  ∀ b ∈ s.batches, b.from_ < a →
    b.out = .accept ∨ (b.out = .perm ∧ (b.from_ + 1, b.to) ∈ reportedOk s)

/-- id `i` lies in the inclusive range `r` -/
def covers (r : Range) (i : Nat) : Prop := r.1 ≤ i ∧ i ≤ r.2

/-- record id `i` belongs to batch `b` (ids `from_+1 .. to`) -/
def Batch.has (b : Batch) (i : Nat) : Prop := b.from_ < i ∧ i ≤ b.to

/-- the inclusive range of exactly the records of `b`; this is what onStream reports for a
    permanently rejected batch (`FromID: fromRecordID + 1, ToID: toRecordID`) -/
def Batch.exactRange (b : Batch) : Range := (b.from_ + 1, b.to)

/-- the id loaded by the tick branch that is still waiting to be acknowledged (`readRecordID`) -/
def QPc.rd : QPc → Option Nat
  | .loaded rd => some rd
  | .composing _ _ k => k
  | .sending _ _ true k => k
  | .acking rd => some rd
  | _ => none

/-- ranges of the successfully sent responses of a list of responses -/
def okRanges (rs : List Resp) : List Range := (rs.filter (·.ok)).flatMap (·.ranges)

/-- `Covered`, per record id: every id `1 .. a` belongs to a batch of the stream that the consumer
    accepted, or rejected permanently and whose exact range is in a successfully sent response -/
def CoveredIds (s : State) (a : Nat) : Prop :=
  ∀ i, 0 < i → i ≤ a → ∃ b ∈ s.batches, b.has i ∧
    (b.out = .accept ∨ (b.out = .perm ∧ b.exactRange ∈ reportedOk s))

/-- The acknowledgement clause of C16 over the whole response history of a state (`hist` = the
    SendDataResponse calls, oldest first): for every successfully sent response `r` and every record
    id `1 ≤ i ≤ r.ack` there is a batch holding `i` which was accepted by the consumer, or was
    rejected permanently and whose exact id range is among the bad-data ranges of a successfully
    sent response that is `r` itself or precedes `r` ("sent no later than that ack"). -/
def AckHistory (s : State) : Prop :=
  ∀ pre r post, s.resps.reverse = pre ++ r :: post → r.ok = true →
    ∀ i, 0 < i → i ≤ r.ack → ∃ b ∈ s.batches, b.has i ∧
      (b.out = .accept ∨ (b.out = .perm ∧ b.exactRange ∈ okRanges (pre ++ [r])))

/-! ### writer / reader record counters (C16 `lockstep`)

  otelstef.MetricsWriter: `Write` increments `recordCount` and `frameRecordCount`; `Flush` (and a
  frame restart inside `Write` when a size or dictionary limit is hit) emits a frame carrying
  `frameRecordCount` and zeroes it; `Flush` with `frameRecordCount == 0` does nothing.
  otelstef.MetricsReader: `Read` loads frames while `FrameRecordCount == 0`, then decrements it and
  increments `RecordCount`. The frames travel through a FIFO. -/
namespace Lockstep

structure LS where
  wCount : Nat := 0        -- writer.recordCount
  wFrame : Nat := 0        -- writer.frameRecordCount
  frames : List Nat := []  -- record counts of the frames in flight, oldest first
  rFrame : Nat := 0        -- reader.base.FrameRecordCount
  rCount : Nat := 0        -- reader.base.RecordCount
deriving DecidableEq, Repr

inductive Ev where
  | write | flush | read
deriving DecidableEq, Repr

/-- load frames until one with records is found (`for r.base.FrameRecordCount == 0`) -/
def nextNonEmpty : List Nat → Option (Nat × List Nat)
  | [] => none
  | f :: fs => if f = 0 then nextNonEmpty fs else some (f, fs)

def step (s : LS) : Ev → Option LS
  | .write => some { s with wCount := s.wCount + 1, wFrame := s.wFrame + 1 }
  | .flush =>
    if s.wFrame = 0 then some s
    else some { s with frames := s.frames ++ [s.wFrame], wFrame := 0 }
  | .read =>
    if s.rFrame = 0 then
      match nextNonEmpty s.frames with
      | none => none          -- blocks on the source / io.EOF: no record is read
      | some (f, fs) => some { s with frames := fs, rFrame := f - 1, rCount := s.rCount + 1 }
    else some { s with rFrame := s.rFrame - 1, rCount := s.rCount + 1 }

def run : LS → List Ev → Option LS
  | s, [] => some s
  | s, e :: es =>
    match step s e with
    | some s' => run s' es
    | none => none

/-- number of `Write` calls / of successful `Read` calls in an event list -/
def writes (evs : List Ev) : Nat := (evs.filter (· = .write)).length
def reads (evs : List Ev) : Nat := (evs.filter (· = .read)).length

end Lockstep

end Stef.Receiver
