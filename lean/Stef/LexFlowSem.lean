/-
  Stef.LexFlowSem: the (hand-written) target vocabulary of the `LexFlow` generator of /verif/extract
  (extract/lexflow.go). The generator translates the Go statements of the IDL lexer
  (go/pkg/idl/lexer.go: NewLexer, Next, skipWhiteSpaceOrComment, skipComment, readNextRune,
  readIdentOrKeyword, readUint64Number, isDigit, isNumberContinuation and the getters) one by one
  into `do` blocks of the monad `M` below (Stef/Gen/LexFlow.lean); nothing here says WHAT those
  functions do. Core Lean only.

  * `L` = the Go `Lexer` object (field by field; the generator checks the struct declaration
    against this list). `input` is the text the `*bufio.Reader` will still deliver.
  * A Go method body is a computation `M ρ ρ` (`ρ` = its result type, `Unit` for none): a statement
    either goes on (`next`), returns from the function (`ret`), leaves the innermost `for` (`brk`)
    or is `stuck` (a `for` loop that ran out of rounds, see `whileLoop`).
  * runes are `Char`s, strings and `[]rune` are `List Char` (as in Stef.Idl, where names are
    `List Char`), `Token` / `uint` / `uint64` / `int` values are `Nat`s WITHOUT wrap-around (the
    position counters would wrap only on inputs of 2^64 bytes), `error` is `Option GoErr`.

  Scope = that of the hand model Stef.Idl (ASCII input, "non-ASCII by correspondence only"):
    - `ReadRune` delivers the next `Char` with size 1 and fails only with `io.EOF` (a
      `bufio.Reader` over a byte buffer; invalid UTF-8 would give U+FFFD, size 1, no error);
    - `unicode.IsLetter/IsDigit/IsSpace` are their ASCII restrictions `Stef.Idl.isLetter/isDigit/isSpace`;
    - `strconv.ParseUint(s, 0, 64)` is `Stef.Idl.parseUint` (the value returned beside an error is
      not modelled: 0);
    - `fmt.Sprintf` results are kept symbolically (`Msg`), nothing reads them.
-/
import Stef.Idl

namespace Stef.LexFlowSem
open Stef.Idl (Pos)

/-- Go error values the translated functions can meet. -/
inductive GoErr
  | eof          -- io.EOF
  | other        -- anything else (strconv's *NumError, a read error)
  deriving DecidableEq, Repr

/-- `error`: `none` = nil. -/
abbrev Err := Option GoErr

/-- `io.EOF` -/
def ioEOF : GoErr := .eof

/-- `errors.Is(err, target)` for the sentinel values above -/
def errorsIs (e : Err) (target : GoErr) : Bool := e == some target

/-- an argument of `fmt.Sprintf` -/
inductive MsgArg
  | rune (c : Char)
  | str (s : List Char)
  deriving DecidableEq, Repr

/-- a Go `string` that is only ever an error message: the empty string, a literal, or the
    (unevaluated) `fmt.Sprintf(format, args...)`. -/
inductive Msg
  | empty
  | lit (s : String)
  | sprintf (format : String) (args : List MsgArg)
  deriving DecidableEq, Repr

instance : Inhabited Msg := ⟨.empty⟩

/-- the Go `Lexer` struct. Zero values are the defaults. -/
structure L where
  input : List Char := []            -- `input *bufio.Reader`: what it will still deliver
  token : Nat := 0                   -- `token Token`
  nextRune : Char := Char.ofNat 0
  prevWasCR : Bool := false
  isEOF : Bool := false
  isError : Bool := false
  errMsg : Msg := .empty
  curPos : Pos := ⟨0, 0, 0⟩
  prevPos : Pos := ⟨0, 0, 0⟩
  tokenRunes : List Char := []
  ident : List Char := []
  uintNumber : Nat := 0
  deriving DecidableEq, Repr

inductive Out (ρ α : Type) where
  | next (a : α) (l : L)      -- the statement is done, control goes on
  | ret (r : ρ) (l : L)       -- `return r`
  | brk (l : L)               -- `break` (leaves the innermost `for`)
  | stuck                     -- a `for` loop exceeded the rounds `whileLoop` grants
  deriving DecidableEq, Repr

structure M (ρ α : Type) where
  run : L → Out ρ α

def M.pure {ρ α : Type} (a : α) : M ρ α := ⟨fun l => .next a l⟩

def M.bind {ρ α β : Type} (m : M ρ α) (f : α → M ρ β) : M ρ β := ⟨fun l =>
  match m.run l with
  | .next a l' => (f a).run l'
  | .ret r l' => .ret r l'
  | .brk l' => .brk l'
  | .stuck => .stuck⟩

instance {ρ : Type} : Monad (M ρ) where
  pure := M.pure
  bind := M.bind

/-- `return r` -/
def ret {ρ α : Type} (r : ρ) : M ρ α := ⟨fun l => .ret r l⟩

/-- `break` (the generator emits it only inside the body of a `for`, not nested in a `switch`) -/
def brk {ρ α : Type} : M ρ α := ⟨fun l => .brk l⟩

/-- the receiver: `l.f` is `(← rd).f` -/
def rd {ρ : Type} : M ρ L := ⟨fun l => .next l l⟩

/-- an assignment to a field of the receiver -/
def upd {ρ : Type} (f : L → L) : M ρ Unit := ⟨fun l => .next () (f l)⟩

/-- `l := &Lexer{..}` of the constructor: the object the following statements work on -/
def newObj {ρ : Type} (l : L) : M ρ Unit := ⟨fun _ => .next () l⟩

/-- what the caller sees of the outcome of a called method: its `return` (or falling off its end,
    for a method without result) is the value of the call. A `break` cannot escape a method. -/
def Out.ofCall {ρ ρ' : Type} : Out ρ' ρ' → Out ρ ρ'
  | .next a l' => .next a l'
  | .ret a l' => .next a l'
  | .brk _ => .stuck
  | .stuck => .stuck

/-- a call of a translated method on the same receiver -/
def call {ρ ρ' : Type} (f : M ρ' ρ') : M ρ ρ' := ⟨fun l => (f.run l).ofCall⟩

/-- `n` more rounds of `for cond { body }`. With no round left the loop may still end (its
    condition is false); otherwise the result is `stuck`. -/
def loopRun {ρ : Type} (cond : L → Bool) (body : M ρ Unit) : Nat → L → Out ρ Unit
  | 0, l => if cond l then .stuck else .next () l
  | n + 1, l =>
    if cond l then
      match body.run l with
      | .next _ l' => loopRun cond body n l'
      | .brk l' => .next () l'
      | .ret r l' => .ret r l'
      | .stuck => .stuck
    else .next () l

/-- `for cond { body }` (`for { body }`: `cond` is constantly true). Lean functions are total, so
    the loop is granted `len(unread input) + 1` rounds, counted when it is entered; a loop that
    needs more is `stuck` - a visible result, which Proofs/LexFlowGen shows the translated lexer
    never produces (every round of every loop of lexer.go consumes a rune or is the last). -/
def whileLoop {ρ : Type} (cond : L → Bool) (body : M ρ Unit) : M ρ Unit :=
  ⟨fun l => loopRun cond body (l.input.length + 1) l⟩

/-! ### library -/

/-- `bufio.NewReader(input)`: the reader will deliver the text. -/
def bufioNewReader (input : List Char) : List Char := input

/-- `l.input.ReadRune()`: `(rune, size, err)`; at the end of the input `(0, 0, io.EOF)`. -/
def readRune {ρ : Type} : M ρ (Char × Nat × Err) := ⟨fun l =>
  match l.input with
  | [] => .next (Char.ofNat 0, 0, some .eof) l
  | c :: r => .next (c, 1, none) { l with input := r }⟩

/-- `uint(x)` of a non-negative `int` -/
def uintOf (x : Nat) : Nat := x

def unicodeIsLetter (c : Char) : Bool := Stef.Idl.isLetter c
def unicodeIsDigit (c : Char) : Bool := Stef.Idl.isDigit c
def unicodeIsSpace (c : Char) : Bool := Stef.Idl.isSpace c

/-- `string(runes)` -/
def stringOfRunes (r : List Char) : List Char := r

/-- `append(s, x)` -/
def appendRune (s : List Char) (x : Char) : List Char := s ++ [x]

/-- `s[:n]` of a slice (the generator accepts it only with the literal 0) -/
def sliceTo (s : List Char) (n : Nat) : List Char := s.take n

/-- `v, ok := m[k]` for a `map[string]Token` given by its literal (keys are distinct constants,
    the Go compiler rejects duplicates): zero value and false if absent. -/
def mapIndex (m : List (List Char × Nat)) (k : List Char) : Nat × Bool :=
  match m.find? (fun e => e.1 == k) with
  | some e => (e.2, true)
  | none => (0, false)

/-- `strconv.ParseUint(s, 0, 64)` -/
def strconvParseUint0_64 (s : List Char) : Nat × Err :=
  match Stef.Idl.parseUint s with
  | some v => (v, none)
  | none => (0, some .other)

end Stef.LexFlowSem
