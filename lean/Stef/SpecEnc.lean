/-
  Stef.SpecEnc: the schema-generic STEF ENCODER that is the inverse of the specification decoder
  `Stef.Spec.decodeNode`. Core Lean only (linked into the driver: op `se reencode`).

  Design
  ------
  * Encoder state. The encoder's codec and dictionary state is literally a `Spec.DS`: per column the
    delta-of-delta state (`lastVal`, `lastDelta`), the Gorilla state (`fLast`, `fLead`, `fTrail`), and
    the string / struct dictionaries with their payload counters. The encoder never reads or
    writes the INPUT fields (`bits`, `bytes`, `size`) of a column. What it appends to the columns
    is returned separately as a list of events `(column, chunk)` in write order (`Ev`); `colBits`
    / `colBytes` project the per-column output, `EncOut.absorb` collects them into per-column
    buffers (that is the "per-column output bits/bytes" part of the encoder state). `feed evs ds`
    puts the chunks in front of the decoder's column inputs. The round trip is therefore a plain
    equation (Stef/Props/C01Enc.lean):
        encodeNode σ fuel env n prev new mk ds = some (evs, ds', eff)
          →  decodeNode σ fuel env n prev (feed evs ds) = .ok (eff, ds')
    "in sync" is equality of the whole state: the decoder ends in exactly the encoder's `ds'`.
  * Marks (`Mk`) are a tree that mirrors the value: the real writers decide what to transmit from
    "modified" marks kept in the record, which over-approximate the difference to the previously
    encoded value; so marks are a parameter here, not computed from the values.
        .leaf                     a primitive (nothing to choose)
        .struct mask subs         full encoding: ModifiedMask (bit j = j-th kept field) and the marks
                                  of the fields (only those of modified, present fields are used)
        .ref r                    dictionary struct written as RefNum r
        .oneof sub                marks of the chosen alternative
        .arr subs                 marks per element (all elements are always written)
        .mmapSame                 multimap written as "unchanged" (0)
        .mmapFull subs            full form: marks per (key, value)
        .mmapVals changed subs    values-only form: bit i of `changed` = value i is written
  * Effective value. The encoder only looks at the MARKED parts of `new`. Besides the events and
    the new state it returns `eff`, the value a reader that held `prev` holds afterwards (marked
    parts from `new`, everything else from `prev`). The marks are SOUND for (prev, new) iff
    `eff = new`; with unsound marks `eff` says precisely what the reader sees instead (this is the
    shape of the C01 findings "marks relative to the current instead of the last encoded value").
  * The encoder returns `none` when the value does not fit the node or the marks (wrong
    constructor), when a number does not fit its wire field (mask ≥ 2^kept, length ≥ 2^48, more
    than 1023 pairs, ...), when the values-only multimap form is asked for against more than 62
    previous pairs (the specification forbids it), when a column index is outside the state, when
    a RefNum does not name a dictionary entry, or when the fuel runs out. Fuel is spent exactly as
    `decodeNode` spends it.
-/
import Stef.Spec
import Stef.Codec
import Stef.Gen.Tables

namespace Stef.SpecEnc
open Stef Stef.Spec

/-! ## Output events -/

inductive Chunk
  | bits (b : Bits)
  | bytes (b : Bytes)
  deriving Repr, Inhabited

/-- `(column, data appended to that column)` -/
abbrev Ev := Nat × Chunk

def colBits (evs : List Ev) (col : Nat) : Bits :=
  evs.foldr (fun e acc => match e with
    | (c, .bits b) => if c = col then b ++ acc else acc
    | _ => acc) []

def colBytes (evs : List Ev) (col : Nat) : Bytes :=
  evs.foldr (fun e acc => match e with
    | (c, .bytes b) => if c = col then b ++ acc else acc
    | _ => acc) []

/-- put one chunk in front of the input of its column -/
def feed1 (e : Ev) (ds : DS) : DS :=
  let c := ds.col e.1
  match e.2 with
  | .bits b => ds.setCol e.1 { c with bits := b ++ c.bits }
  | .bytes b => ds.setCol e.1 { c with bytes := b ++ c.bytes }

/-- put the chunks of `evs` (in write order) in front of the column inputs of `ds` -/
def feed (evs : List Ev) (ds : DS) : DS := evs.foldr feed1 ds

/-! ## Marks -/

inductive Mk
  | leaf
  | struct (mask : Nat) (fields : List Mk)
  | ref (r : Nat)
  | oneof (alt : Mk)
  | arr (elems : List Mk)
  | mmapSame
  | mmapFull (pairs : List (Mk × Mk))
  | mmapVals (changed : Nat) (vals : List Mk)
  deriving Repr, Inhabited

/-! ## Primitives -/

/-- UvarintCompact as the Go write tables produce it (`Stef.Uvc.uvcBits`, proved to be read back
    by `Spec.readUvc` for every value below 2^48). -/
def uvcBits (v : Word) : Bits :=
  lowBits (v ||| Gen.writeMaskByZeros v.clz.toNat) (Gen.writeBitsCountByZeros v.clz.toNat)

def uvcNat (n : Nat) : Bits := uvcBits (BitVec.ofNat 64 n)

abbrev Res (α : Type) := Option (List Ev × DS × α)

/-- one primitive value. Returns the chunk, the new codec / dictionary state and the value. -/
def encodePrim (col : Nat) (p : Prim) (dict : Option String) (v : St) (ds : DS) : Res St :=
  if col < ds.cols.size then
    let c := ds.col col
    match p, v with
    | .bool, .b b => some ([(col, .bits [b])], ds, .b b)
    | .i64, .i x | .u64, .i x =>
      let delta := x - c.lastVal
      let dod := delta - c.lastDelta
      some ([(col, .bytes (Varint.encodeSigned dod))],
            ds.setCol col { c with lastDelta := delta, lastVal := x }, .i x)
    | .f64, .f x =>
      let fc : Codec.F64 := { last := c.fLast, lead := c.fLead, trail := c.fTrail }
      if fc.lead ≤ 31 ∧ fc.lead + fc.trail ≤ 63 then
        let r := fc.encodeBits x
        some ([(col, .bits r.2)],
              ds.setCol col { c with fLast := x, fLead := r.1.lead, fTrail := r.1.trail }, .f x)
      else none
    | .str, .s x | .byts, .s x =>
      if x.length < 2 ^ 63 then
        let direct : Bytes := Varint.encodeSigned (BitVec.ofNat 64 x.length) ++ x
        match dict with
        | none => some ([(col, .bytes direct)], ds, .s x)
        | some dn =>
          let cur := lookupDict ds.sdict dn
          match cur.findIdx? (· = x) with
          | some i =>
            if i < 2 ^ 63 then
              some ([(col, .bytes (Varint.encodeSigned (0#64 - BitVec.ofNat 64 i - 1#64)))], ds, .s x)
            else none
          | none =>
            if x.length ≥ 2 then
              let pay := ds.dictPayload + x.length
              some ([(col, .bytes direct)],
                    { ds with sdict := setDict ds.sdict dn (cur ++ [x]), dictPayload := pay,
                              maxDictPayload := max ds.maxDictPayload pay }, .s x)
            else some ([(col, .bytes direct)], ds, .s x)
      else none
    | _, _ => none
  else none

def dflt : St := .oneof 0 none

def isPrimNode : Node → Bool
  | .prim _ _ _ => true
  | _ => false

/-! the parts of the previous value that the decoder looks at (anything of the wrong shape counts
    as empty, as in `decodeNode`) -/

def structFields : St → List St
  | .struct _ fs => fs
  | _ => []

def structPres : St → Nat
  | .struct p _ => p
  | _ => 0

def arrElems : St → List St
  | .arr es => es
  | _ => []

def mmapPairs : St → List (St × St)
  | .mmap ps => ps
  | _ => []

/-- previous value of alternative `typ` of a oneof: the held value if that alternative was the
    chosen one, else the alternative's initial state -/
def oneofPrev (σ : Schema) (an : Node) (typ : Nat) : St → St
  | .oneof ct (some pv) => if ct = typ then pv else altInit σ an
  | _ => altInit σ an

def elemPrev (σ : Schema) (ety : Ty) : List St → St
  | o :: _ => o
  | [] => initSt σ initFuel ety

def pairPrev (σ : Schema) (kty vty : Ty) : List (St × St) → St × St
  | o :: _ => o
  | [] => (initSt σ initFuel kty, initSt σ initFuel vty)

/-! ## Composite values -/

mutual
/-- encode the value `new` at node `n` for a reader that holds `cur` at this position. -/
def encodeNode (σ : Schema) : Nat → List (String × Node) → Node → St → St → Mk → DS → Res St
  | 0, _, _, _, _, _, _ => none
  | _ + 1, _, .prim col p d, _, new, _, ds => encodePrim col p d new ds
  | fuel + 1, env, .recur key, cur, new, mk, ds =>
    match env.find? (·.1 = key) with
    | none => none
    | some (_, n) => encodeNode σ fuel env n cur new mk ds
  | fuel + 1, env, .struct col name dict kept optCount fields, cur, new, mk, ds =>
    let env := (name, Node.struct col name dict kept optCount fields) :: env
    if col < ds.cols.size ∧ kept ≤ 64 ∧ optCount ≤ 64 then
      match mk with
      | .ref r =>
        match dict with
        | none => none
        | some dn =>
          if r < 2 ^ 48 then
            match (lookupDict ds.tdict dn)[r]? with
            | some (some v) => some ([(col, .bits (false :: uvcNat r))], ds, v)
            | _ => none
          else none
      | .struct mask subs =>
        match new with
        | .struct pres newFields =>
          if mask < 2 ^ kept ∧ pres < 2 ^ optCount then
            let full : Bits := match dict with | none => [] | some _ => [true]
            let hdr : Bits := full ++ (lowBits (BitVec.ofNat 64 mask) kept ++ lowBits (BitVec.ofNat 64 pres) optCount)
            match encodeFields σ fuel env fields 0 0 mask pres (structPres cur) (structFields cur) newFields subs ds with
            | none => none
            | some (evs, ds, effFields) =>
              let v := St.struct pres effFields
              match dict with
              | none => some ((col, .bits hdr) :: evs, ds, v)
              | some dn =>
                let curD := lookupDict ds.tdict dn
                let curD := if curD.isEmpty then [none] else curD
                some ((col, .bits hdr) :: evs, { ds with tdict := setDict ds.tdict dn (curD ++ [some v]) }, v)
          else none
        | _ => none
      | _ => none
    else none
  | fuel + 1, env, .oneof col name kept alts, cur, new, mk, ds =>
    let env := (name, Node.oneof col name kept alts) :: env
    match new, mk with
    | .oneof typ val, .oneof sub =>
      if col < ds.cols.size ∧ bitLen (kept + 1) ≤ 64 ∧ typ ≤ kept then
        let hdr : Ev := (col, .bits (lowBits (BitVec.ofNat 64 typ) (bitLen (kept + 1))))
        if typ = 0 then some ([hdr], ds, .oneof 0 none)
        else
          match alts[typ - 1]?, val with
          | some an, some v =>
            match encodeNode σ fuel env an (oneofPrev σ an typ cur) v sub ds with
            | none => none
            | some (evs, ds, e) => some (hdr :: evs, ds, .oneof typ (some e))
          | _, _ => none
      else none
    | _, _ => none
  | fuel + 1, env, .arr col key ety elem, cur, new, mk, ds =>
    let env := (key, Node.arr col key ety elem) :: env
    match new, mk with
    | .arr es, .arr subs =>
      if col < ds.cols.size ∧ es.length < 2 ^ 48 then
        match encodeElems σ fuel env elem ety es (arrElems cur) subs ds with
        | none => none
        | some (evs, ds, effs) => some ((col, .bits (uvcNat es.length)) :: evs, ds, .arr effs)
      else none
    | _, _ => none
  | fuel + 1, env, .mmap col name kty vty k v, cur, new, mk, ds =>
    let env := (name, Node.mmap col name kty vty k v) :: env
    let old := mmapPairs cur
    if col < ds.cols.size then
      match mk with
      | .mmapSame => some ([(col, .bytes (Varint.encode 0#64))], ds, .mmap old)
      | .mmapFull subs =>
        match new with
        | .mmap ps =>
          if ps.length < 1024 then
            match encodePairsFull σ fuel env k v kty vty ps old subs ds with
            | none => none
            | some (evs, ds, eff) =>
              some ((col, .bytes (Varint.encode (BitVec.ofNat 64 (2 * ps.length + 1)))) :: evs, ds, .mmap eff)
          else none
        | _ => none
      | .mmapVals changed subs =>
        match new with
        | .mmap ps =>
          -- the specification allows the values-only form for at most 62 pairs (`Spec.decodeNode`
          -- counts a violation otherwise)
          if 0 < changed ∧ changed < 2 ^ 63 ∧ old.length ≤ 62 then
            match encodeValuesOnly σ fuel env v changed 0 old (ps.map (·.2)) subs ds with
            | none => none
            | some (evs, ds, eff) =>
              some ((col, .bytes (Varint.encode (BitVec.ofNat 64 (2 * changed)))) :: evs, ds, .mmap eff)
          else none
        | _ => none
      | _ => none
    else none
termination_by structural fuel => fuel

/-- the kept fields of a struct, in order; `cur` / `new` / `subs` are walked in step. -/
def encodeFields (σ : Schema) : Nat → List (String × Node) → List (Bool × Node) → Nat → Nat → Nat → Nat → Nat →
    List St → List St → List Mk → DS → Res (List St)
  | 0, _, _, _, _, _, _, _, _, _, _, _ => none
  | _ + 1, _, [], _, _, _, _, _, cur, _, _, ds => some ([], ds, cur)
  | fuel + 1, env, (opt, n) :: rest, idx, optIdx, mask, pres, prevPres, cur, new, subs, ds =>
    let prev0 := cur.headD dflt
    let modified := mask.testBit idx
    let present := !opt || pres.testBit optIdx
    let prev := if opt && !isPrimNode n && !(prevPres.testBit optIdx) then altInit σ n else prev0
    match (if modified && present then encodeNode σ fuel env n prev (new.headD dflt) (subs.headD .leaf) ds
           else some ([], ds, prev0)) with
    | none => none
    | some (e1, ds, v) =>
      match encodeFields σ fuel env rest (idx + 1) (if opt then optIdx + 1 else optIdx) mask pres prevPres
              cur.tail new.tail subs.tail ds with
      | none => none
      | some (e2, ds, vs) => some (e1 ++ e2, ds, v :: vs)
termination_by structural fuel => fuel

def encodeElems (σ : Schema) : Nat → List (String × Node) → Node → Ty → List St → List St → List Mk → DS → Res (List St)
  | 0, _, _, _, _, _, _, _ => none
  | _ + 1, _, _, _, [], _, _, ds => some ([], ds, [])
  | fuel + 1, env, elem, ety, x :: xs, old, subs, ds =>
    match encodeNode σ fuel env elem (elemPrev σ ety old) x (subs.headD .leaf) ds with
    | none => none
    | some (e1, ds, v) =>
      match encodeElems σ fuel env elem ety xs old.tail subs.tail ds with
      | none => none
      | some (e2, ds, vs) => some (e1 ++ e2, ds, v :: vs)
termination_by structural fuel => fuel

def encodePairsFull (σ : Schema) : Nat → List (String × Node) → Node → Node → Ty → Ty →
    List (St × St) → List (St × St) → List (Mk × Mk) → DS → Res (List (St × St))
  | 0, _, _, _, _, _, _, _, _, _ => none
  | _ + 1, _, _, _, _, _, [], _, _, ds => some ([], ds, [])
  | fuel + 1, env, k, v, kty, vty, p :: ps, old, subs, ds =>
    let pp := pairPrev σ kty vty old
    let sub := subs.headD (.leaf, .leaf)
    match encodeNode σ fuel env k pp.1 p.1 sub.1 ds with
    | none => none
    | some (e1, ds, kv) =>
      match encodeNode σ fuel env v pp.2 p.2 sub.2 ds with
      | none => none
      | some (e2, ds, vv) =>
        match encodePairsFull σ fuel env k v kty vty ps old.tail subs.tail ds with
        | none => none
        | some (e3, ds, rest) => some (e1 ++ (e2 ++ e3), ds, (kv, vv) :: rest)
termination_by structural fuel => fuel

/-- values-only form: walks the PREVIOUS pairs (the keys and the length are theirs). -/
def encodeValuesOnly (σ : Schema) : Nat → List (String × Node) → Node → Nat → Nat →
    List (St × St) → List St → List Mk → DS → Res (List (St × St))
  | 0, _, _, _, _, _, _, _, _ => none
  | _ + 1, _, _, _, _, [], _, _, ds => some ([], ds, [])
  | fuel + 1, env, v, changed, idx, (pk, pv) :: rest, new, subs, ds =>
    match (if idx < 64 && changed.testBit idx then encodeNode σ fuel env v pv (new.headD dflt) (subs.headD .leaf) ds
           else some ([], ds, pv)) with
    | none => none
    | some (e1, ds, vv) =>
      match encodeValuesOnly σ fuel env v changed (idx + 1) rest new.tail subs.tail ds with
      | none => none
      | some (e2, ds, rs) => some (e1 ++ e2, ds, (pk, vv) :: rs)
termination_by structural fuel => fuel
end

/-- records of one frame, one after the other (each against the previous one). The node fuel is the
    one `Spec.decodeRecords` uses. Returns the events, the state and the effective records. -/
def encodeRecords (σ : Schema) (root : Node) : Nat → List (St × Mk) → St → DS → Res (List St)
  | 0, _, _, _ => none
  | _ + 1, [], _, ds => some ([], ds, [])
  | fuel + 1, (new, mk) :: rest, cur, ds =>
    match encodeNode σ (fuel * 64 + 100000) [] root cur new mk ds with
    | none => none
    | some (e1, ds, v) =>
      match encodeRecords σ root fuel rest v ds with
      | none => none
      | some (e2, ds, vs) => some (e1 ++ e2, ds, v :: vs)


/-! ## Frames at the column level

  A frame carries restart flags, a record count and, for every column, that column's data. The
  decoder applies the restarts, REPLACES every column's input by the frame's data for it
  (`Spec.loadColumns`; here `inp : column → bits × bytes × size`) and decodes the records. The
  encoder applies the same restarts to its state and encodes the records. -/

/-- the restarts a frame's flags ask for (bit 0: dictionaries, bit 2: codecs), as in
    `Spec.decodeStream` -/
def resetFor (flags : Nat) (ds : DS) : DS :=
  let ds := if flags % 2 = 1 then ds.resetDicts else ds
  if (flags / 4) % 2 = 1 then { ds with cols := ds.cols.map ColSt.resetCodec } else ds

structure FrameIn where
  flags : Nat
  fuel : Nat                       -- `decodeStream` derives it from the frame size; any value that suffices
  recs : List (St × Mk)

/-- encode a sequence of frames; returns per frame the column events and the effective records -/
def encodeFrames (σ : Schema) (root : Node) : List FrameIn → St → DS → Option (List (List Ev) × DS × List (List St))
  | [], _, ds => some ([], ds, [])
  | fr :: rest, cur, ds =>
    match encodeRecords σ root fr.fuel fr.recs cur (resetFor fr.flags ds) with
    | none => none
    | some (evs, ds, effs) =>
      match encodeFrames σ root rest (effs.getLast?.getD cur) ds with
      | none => none
      | some (evss, ds, effss) => some (evs :: evss, ds, effs :: effss)

/-- replace the input fields of every column: column `i` gets bits, bytes and size `inp i` -/
def withInputs (inp : Nat → Bits × Bytes × Nat) (ds : DS) : DS :=
  { ds with cols := ds.cols.mapIdx (fun i c => { c with bits := (inp i).1, bytes := (inp i).2.1, size := (inp i).2.2 }) }

structure FrameCols where
  flags : Nat
  fuel : Nat
  nrec : Nat
  inp : Nat → Bits × Bytes × Nat   -- what the frame hands to each column

/-- the decoder over frames given at the column level: restarts, column load, records. Returns the
    last record, the state and the records of every frame. -/
def decodeFramesCols (σ : Schema) (root : Node) (rootMaskBits : Nat) :
    List FrameCols → St → DS → R (St × DS × List (List St))
  | [], cur, ds => .ok (cur, ds, [])
  | fr :: rest, cur, ds =>
    match decodeRecords σ root rootMaskBits fr.fuel fr.nrec cur (withInputs fr.inp (resetFor fr.flags ds)) [] with
    | .error e => .error e
    | .ok (cur, ds, out) =>
      match decodeFramesCols σ root rootMaskBits rest cur ds with
      | .error e => .error e
      | .ok (cur, ds, outs) => .ok (cur, ds, (out.map (·.2)).reverse :: outs)

/-! ## Marked decoder: `Spec.decodeNode` that also returns the marks the stream carries

  The marks of a record are recoverable from the stream itself (modified masks, RefNums, multimap
  forms). `decodeNodeM` is `decodeNode` with that extra output (`decodeNodeM_erase` in
  Stef/Proofs/SpecEncMarks.lean: forgetting the marks gives `decodeNode`). -/

mutual
def decodeNodeM (σ : Schema) : Nat → List (String × Node) → Node → St → DS → R (St × Mk × DS)
  | 0, _, _, _, _ => .error "fuel"
  | _ + 1, _, .prim col p d, _, ds => do
    let (v, ds) ← decodePrim col p d ds
    .ok (v, .leaf, ds)
  | fuel + 1, env, .recur key, cur, ds =>
    match env.find? (·.1 = key) with
    | none => .error "bad-recursion"
    | some (_, n) => decodeNodeM σ fuel env n cur ds
  | fuel + 1, env, .struct col name dict kept optCount fields, cur, ds => do
    let env := (name, Node.struct col name dict kept optCount fields) :: env
    let c := ds.col col
    let (isRef, c) ← match dict with
      | none => pure (false, c)
      | some _ =>
        match c.bits with
        | [] => throw "eof-bits"
        | b :: rest => pure (!b, { c with bits := rest })
    if isRef then
      let (r, rest) ← needBits (readUvc c.bits)
      let ds := ds.setCol col { c with bits := rest }
      match (lookupDict ds.tdict (dict.getD ""))[r.toNat]? with
      | some (some v) => .ok (v, .ref r.toNat, ds)
      | _ => .error "invalid-refnum"
    else
      let (mask, rest) ← needBits (readBits kept c.bits)
      let (pres, rest) ← needBits (readBits optCount rest)
      let ds := ds.setCol col { c with bits := rest }
      let (curFields, curPres) := match cur with
        | .struct p fs => (fs, p)
        | _ => ([], 0)
      let (newFields, subs, ds) ← decodeFieldsM σ fuel env fields 0 0 mask.toNat pres.toNat curPres curFields ds
      let v := St.struct pres.toNat newFields
      match dict with
      | none => .ok (v, .struct mask.toNat subs, ds)
      | some dn =>
        let curD := lookupDict ds.tdict dn
        let curD := if curD.isEmpty then [none] else curD
        .ok (v, .struct mask.toNat subs, { ds with tdict := setDict ds.tdict dn (curD ++ [some v]) })
  | fuel + 1, env, .oneof col name kept alts, cur, ds => do
    let env := (name, Node.oneof col name kept alts) :: env
    let c := ds.col col
    let (t, rest) ← needBits (readBits (bitLen (kept + 1)) c.bits)
    let ds := ds.setCol col { c with bits := rest }
    let typ := t.toNat
    if typ > kept then .error "invalid-oneof-type"
    else if typ = 0 then .ok (.oneof 0 none, .oneof .leaf, ds)
    else
      match alts[typ - 1]? with
      | none => .error "invalid-oneof-type"
      | some an =>
        let prev : St := match cur with
          | .oneof ct (some v) => if ct = typ then v else altInit σ an
          | _ => altInit σ an
        let (v, sub, ds) ← decodeNodeM σ fuel env an prev ds
        .ok (.oneof typ (some v), .oneof sub, ds)
  | fuel + 1, env, .arr col key ety elem, cur, ds => do
    let env := (key, Node.arr col key ety elem) :: env
    let c := ds.col col
    let (len, rest) ← needBits (readUvc c.bits)
    let ds := ds.setCol col { c with bits := rest }
    let old := match cur with | .arr es => es | _ => []
    let (es, subs, ds) ← decodeElemsM σ fuel env elem ety len.toNat old ds
    .ok (.arr es, .arr subs, ds)
  | fuel + 1, env, .mmap col name kty vty k v, cur, ds => do
    let env := (name, Node.mmap col name kty vty k v) :: env
    let c := ds.col col
    let (x, rest) ← needBytes (Varint.decode c.bytes)
    let ds := ds.setCol col { c with bytes := rest }
    let old := match cur with | .mmap ps => ps | _ => []
    if x = 0#64 then .ok (.mmap old, .mmapSame, ds)
    else if x.getLsbD 0 then
      let count := (x >>> 1).toNat
      if count ≥ 1024 then .error "multimap-count-limit"
      else do
        let (ps, subs, ds) ← decodePairsFullM σ fuel env k v kty vty count old ds
        .ok (.mmap ps, .mmapFull subs, ds)
    else do
      let ds := if old.length > 62 then { ds with dictViolations := ds.dictViolations + 1 } else ds
      let (ps, subs, ds) ← decodeValuesOnlyM σ fuel env v (x >>> 1).toNat 0 old ds
      .ok (.mmap ps, .mmapVals (x >>> 1).toNat subs, ds)

def decodeFieldsM (σ : Schema) : Nat → List (String × Node) → List (Bool × Node) → Nat → Nat → Nat → Nat → Nat →
    List St → DS → R (List St × List Mk × DS)
  | 0, _, _, _, _, _, _, _, _, _ => .error "fuel"
  | _ + 1, _, [], _, _, _, _, _, cur, ds => .ok (cur, [], ds)
  | fuel + 1, env, (opt, n) :: rest, idx, optIdx, mask, pres, prevPres, cur, ds => do
    let prev0 := cur.headD (.oneof 0 none)
    let modified := mask.testBit idx
    let present := !opt || pres.testBit optIdx
    let isPrim := match n with | .prim _ _ _ => true | _ => false
    let prev := if opt && !isPrim && !(prevPres.testBit optIdx) then altInit σ n else prev0
    let (v, sub, ds) ← if modified && present then decodeNodeM σ fuel env n prev ds else pure (prev0, Mk.leaf, ds)
    let (vs, subs, ds) ← decodeFieldsM σ fuel env rest (idx + 1) (if opt then optIdx + 1 else optIdx) mask pres prevPres cur.tail ds
    .ok (v :: vs, sub :: subs, ds)

def decodeElemsM (σ : Schema) : Nat → List (String × Node) → Node → Ty → Nat → List St → DS → R (List St × List Mk × DS)
  | 0, _, _, _, _, _, _ => .error "fuel"
  | _ + 1, _, _, _, 0, _, ds => .ok ([], [], ds)
  | fuel + 1, env, elem, ety, n + 1, old, ds => do
    let prev := match old with | o :: _ => o | [] => initSt σ initFuel ety
    let (v, sub, ds) ← decodeNodeM σ fuel env elem prev ds
    let (vs, subs, ds) ← decodeElemsM σ fuel env elem ety n old.tail ds
    .ok (v :: vs, sub :: subs, ds)

def decodePairsFullM (σ : Schema) : Nat → List (String × Node) → Node → Node → Ty → Ty → Nat →
    List (St × St) → DS → R (List (St × St) × List (Mk × Mk) × DS)
  | 0, _, _, _, _, _, _, _, _ => .error "fuel"
  | _ + 1, _, _, _, _, _, 0, _, ds => .ok ([], [], ds)
  | fuel + 1, env, k, v, kty, vty, n + 1, old, ds => do
    let (pk, pv) := match old with
      | o :: _ => o
      | [] => (initSt σ initFuel kty, initSt σ initFuel vty)
    let (kv, ksub, ds) ← decodeNodeM σ fuel env k pk ds
    let (vv, vsub, ds) ← decodeNodeM σ fuel env v pv ds
    let (rest, subs, ds) ← decodePairsFullM σ fuel env k v kty vty n old.tail ds
    .ok ((kv, vv) :: rest, (ksub, vsub) :: subs, ds)

def decodeValuesOnlyM (σ : Schema) : Nat → List (String × Node) → Node → Nat → Nat →
    List (St × St) → DS → R (List (St × St) × List Mk × DS)
  | 0, _, _, _, _, _, _ => .error "fuel"
  | _ + 1, _, _, _, _, [], ds => .ok ([], [], ds)
  | fuel + 1, env, v, changed, idx, (pk, pv) :: rest, ds => do
    let (vv, sub, ds) ← if idx < 64 && changed.testBit idx then decodeNodeM σ fuel env v pv ds else pure (pv, Mk.leaf, ds)
    let (rs, subs, ds) ← decodeValuesOnlyM σ fuel env v changed (idx + 1) rest ds
    .ok ((pk, vv) :: rs, sub :: subs, ds)
end

def decodeRecordsM (σ : Schema) (root : Node) :
    Nat → Nat → St → DS → List (St × Mk) → R (St × DS × List (St × Mk))
  | 0, _, _, _, _ => .error "fuel"
  | _ + 1, 0, cur, ds, acc => .ok (cur, ds, acc.reverse)
  | fuel + 1, n + 1, cur, ds, acc => do
    let (v, mk, ds) ← decodeNodeM σ (fuel * 64 + 100000) [] root cur ds
    decodeRecordsM σ root fuel n v ds ((v, mk) :: acc)

/-! ## Frames: size table, column data, whole-stream re-encoding -/

/-- per-column output buffers (what the events of one frame add up to). -/
structure ColOut where
  bits : Array Bool := #[]
  bytes : Array Byte := #[]
  deriving Inhabited

abbrev EncOut := Array ColOut

def EncOut.absorb (o : EncOut) (evs : List Ev) : EncOut :=
  evs.foldl (fun o e =>
    match e.2 with
    | .bits b => o.modify e.1 (fun c => { c with bits := c.bits ++ b.toArray })
    | .bytes b => o.modify e.1 (fun c => { c with bytes := c.bytes ++ b.toArray })) o

def nodeCol : Node → Nat
  | .prim c _ _ => c | .struct c _ _ _ _ _ => c | .oneof c _ _ _ => c
  | .arr c _ _ _ => c | .mmap c _ _ _ _ _ => c | .recur _ => 0

def nodeKids : Node → List Node
  | .struct _ _ _ _ _ fs => fs.map (·.2)
  | .oneof _ _ _ alts => alts
  | .arr _ _ _ e => [e]
  | .mmap _ _ _ _ k v => [k, v]
  | _ => []

/-- the bytes of a column in a frame: bit columns are zero padded to whole bytes. -/
def colData (o : EncOut) (col : Nat) (isBit : Bool) : Bytes :=
  let c := o.getD col {}
  if isBit then packBits c.bits.toList else c.bytes.toList

/- the size table as `Spec.readSizes` reads it: depth first, UvarintCompact byte sizes, the
   subtree of an empty column is left out. -/
mutual
def writeSizes (o : EncOut) : Nat → Node → Bits
  | 0, _ => []
  | _ + 1, .recur _ => []
  | fuel + 1, n =>
    let sz := (colData o (nodeCol n) (isBitNode n)).length
    uvcNat sz ++ (if sz = 0 then [] else writeSizesList o fuel (nodeKids n))
def writeSizesList (o : EncOut) : Nat → List Node → Bits
  | 0, _ => []
  | _ + 1, [] => []
  | fuel + 1, n :: ns => writeSizes o fuel n ++ writeSizesList o fuel ns
end

/- the columns that appear in the size table (same elision), depth first, with their kind. -/
mutual
def liveCols (o : EncOut) : Nat → Node → List (Nat × Bool)
  | 0, _ => []
  | _ + 1, .recur _ => []
  | fuel + 1, n =>
    let sz := (colData o (nodeCol n) (isBitNode n)).length
    (nodeCol n, isBitNode n) :: (if sz = 0 then [] else liveColsList o fuel (nodeKids n))
def liveColsList (o : EncOut) : Nat → List Node → List (Nat × Bool)
  | 0, _ => []
  | _ + 1, [] => []
  | fuel + 1, n :: ns => liveCols o fuel n ++ liveColsList o fuel ns
end

/- the traversal fuel suffices for the tree (the traversals of `Spec` silently stop otherwise) -/
mutual
def fits : Nat → Node → Bool
  | 0, _ => false
  | _ + 1, .recur _ => true
  | fuel + 1, n => fitsList fuel (nodeKids n)
def fitsList : Nat → List Node → Bool
  | 0, _ => false
  | _ + 1, [] => true
  | fuel + 1, n :: ns => fits fuel n && fitsList fuel ns
end

/- below an empty column everything is empty (so leaving the subtree out of the size table and
   the data loses nothing) -/
mutual
def elisionOk (o : EncOut) : Nat → Node → Bool
  | 0, _ => true
  | _ + 1, .recur _ => true
  | fuel + 1, n =>
    if (colData o (nodeCol n) (isBitNode n)).length = 0 then
      (colKindsList fuel (nodeKids n)).all (fun p => (colData o p.1 p.2).length == 0)
    else elisionOkList o fuel (nodeKids n)
def elisionOkList (o : EncOut) : Nat → List Node → Bool
  | 0, _ => true
  | _ + 1, [] => true
  | fuel + 1, n :: ns => elisionOk o fuel n && elisionOkList o fuel ns
end

/-- the side conditions under which a frame's content can carry the column outputs `o` of a tree
    with `ncols` columns: the tree's columns are exactly `0 .. ncols-1`, each once; the traversal
    fuels suffice; every column holds data of its own kind only (bits in bit columns, bytes in
    byte columns); nothing is lost by the elision of empty subtrees; sizes fit UvarintCompact. -/
def frameOk (root : Node) (ncols nrec : Nat) (o : EncOut) : Bool :=
  let kinds := colKinds 10000 root
  fits 10000 root && fits 100000 root &&
  (kinds.map (·.1)).Nodup && (List.range ncols).all (fun c => (kinds.map (·.1)).contains c) &&
  kinds.all (fun p => p.1 < ncols &&
    (if p.2 then (o.getD p.1 {}).bytes.isEmpty else (o.getD p.1 {}).bits.isEmpty) &&
    (colData o p.1 p.2).length < 2 ^ 48) &&
  elisionOk o 10000 root && o.size == ncols && nrec < 2 ^ 64 &&
  (packBits (writeSizes o 100000 root)).length < 2 ^ 64

/-- frame content: record count, size of the size table, size table, column data. -/
def frameContent (root : Node) (nrec : Nat) (o : EncOut) : Bytes :=
  let sizes := packBits (writeSizes o 100000 root)
  let data := (liveCols o 100000 root).flatMap (fun (c, isBit) => colData o c isBit)
  Varint.encodeNat nrec ++ Varint.encodeNat sizes.length ++ sizes ++ data

/-! ## Whole streams -/

/-- one frame as bytes: the records are encoded against the state with the frame's restarts
    applied; the frame content is laid out; the side conditions `frameOk` are checked, and so is
    that `fr.fuel` is the fuel `Spec.decodeStream` will derive from the content's length (the
    caller finds it with a first pass). -/
def encodeFrameBytes (σ : Schema) (root : Node) (ncols : Nat) (fr : FrameIn) (cur : St) (es : DS) :
    Option (Frame × List Ev × DS × List St) :=
  match encodeRecords σ root fr.fuel fr.recs cur (resetFor fr.flags es) with
  | none => none
  | some (evs, es', effs) =>
    let out := EncOut.absorb (Array.replicate ncols ({} : ColOut)) evs
    let content := frameContent root fr.recs.length out
    if frameOk root ncols fr.recs.length out ∧ fr.fuel = content.length * 8 + fr.recs.length + 1000 ∧
       fr.flags ≤ 7 ∧ content.length ≤ 67108864 then
      some ({ flags := fr.flags, content := content }, evs, es', effs)
    else none

def encodeStreamFrames (σ : Schema) (root : Node) (ncols : Nat) :
    List FrameIn → St → DS → Option (List Frame × List (List Ev) × DS × List (List St))
  | [], _, ds => some ([], [], ds, [])
  | fr :: rest, cur, ds =>
    match encodeFrameBytes σ root ncols fr cur ds with
    | none => none
    | some (f, evs, ds, effs) =>
      match encodeStreamFrames σ root ncols rest (effs.getLast?.getD cur) ds with
      | none => none
      | some (fs, evss, ds, effss) => some (f :: fs, evs :: evss, ds, effs :: effss)

/-- a frame in the (uncompressed) stream: flags byte, content size, content -/
def frameBytes (f : Frame) : Bytes :=
  BitVec.ofNat 8 f.flags :: (Varint.encodeNat f.content.length ++ f.content)

/-- fixed header (signature, size 2, version 0, no compression) and the var-header frame of a stream
    without wire schema and user data -/
def streamPrefix : Bytes := Spec.sig ++ [2#8, 0#8, 0#8] ++ frameBytes { flags := 0, content := [0#8, 0#8] }

/-- a whole uncompressed stream for root struct `rootName` (no wire schema, no user data) -/
def encodeStream (σ : Schema) (rootName : String) (ins : List FrameIn) : Option (Bytes × List (List St)) :=
  match mkNode σ 200 [] (.ref rootName) {} with
  | .error _ => none
  | .ok (root, b) =>
    match encodeStreamFrames σ root b.nextCol ins (initSt σ initFuel (.ref rootName)) { cols := Array.replicate b.nextCol {} } with
    | none => none
    | some (frames, _, _, effss) => some (streamPrefix ++ frames.flatMap frameBytes, effss)

def firstDiff (a b : Bytes) : Nat :=
  let rec go : Bytes → Bytes → Nat → Nat
    | x :: xs, y :: ys, i => if x = y then go xs ys (i + 1) else i
    | _, _, i => i
  go a b 0

/- executable equality of values (hidden parts included); used by the driver only -/
mutual
def stEq : St → St → Bool
  | .b x, .b y => x == y
  | .i x, .i y => x == y
  | .f x, .f y => x == y
  | .s x, .s y => x == y
  | .struct p fs, .struct q gs => p == q && stEqList fs gs
  | .oneof t v, .oneof u w => t == u && stEqOpt v w
  | .arr es, .arr fs => stEqList es fs
  | .mmap ps, .mmap qs => stEqPairs ps qs
  | _, _ => false
def stEqList : List St → List St → Bool
  | [], [] => true
  | a :: as, b :: bs => stEq a b && stEqList as bs
  | _, _ => false
def stEqOpt : Option St → Option St → Bool
  | none, none => true
  | some a, some b => stEq a b
  | _, _ => false
def stEqPairs : List (St × St) → List (St × St) → Bool
  | [], [] => true
  | (a1, a2) :: as, (b1, b2) :: bs => stEq a1 b1 && stEq a2 b2 && stEqPairs as bs
  | _, _ => false
end

structure Reenc where
  frames : Nat := 0
  records : Nat := 0
  result : String := "same"

/-- decode `stream` with the marked decoder, re-encode every frame's records with `encodeNode`
    from the recovered marks (same frame boundaries, same restart flags), and compare every
    frame's content byte for byte with the original. Also checks that the encoder's effective
    values are the decoded records (the recovered marks are sound) and, after every frame, that the
    encoder's codec / dictionary state equals the decoder's. -/
def reencodeStream (σ : Schema) (rootName : String) (stream : Bytes) : Reenc :=
  let fuel := stream.length * 8 + 1000
  let fail (e : String) : Reenc := { result := "error " ++ e }
  match readFixedHeader stream with
  | .error e => fail e
  | .ok (comp, rest) =>
    if comp ≠ 0 then fail "compressed-stream-not-supported" else
    match readFrames fuel rest [] with
    | .error e => fail e
    | .ok [] => fail "eof-no-varheader"
    | .ok (vh :: frames) =>
      match readVarHeader vh.content with
      | .error e => fail e
      | .ok (counts, _) =>
        match mkNode σ 200 [] (.ref rootName) { override := counts } with
        | .error e => fail e
        | .ok (root, b) =>
          let ncols := b.nextCol
          let kinds := colKinds 10000 root
          let init := initSt σ initFuel (.ref rootName)
          let ds0 : DS := { cols := Array.replicate ncols {} }
          let rec go (fs : List Frame) (idx : Nat) (cur : St) (ds es : DS) (nrecs : Nat) : Reenc :=
            match fs with
            | [] => { frames := idx, records := nrecs, result := "same" }
            | fr :: rest =>
              let stop (e : String) : Reenc := { frames := idx, records := nrecs, result := s!"frame {idx}: {e}" }
              let ds := resetFor fr.flags ds
              let esPre := es
              let es := resetFor fr.flags es
              match needVar fr.content with
              | .error e => stop e
              | .ok (nrec, c1) =>
                match needVar c1 with
                | .error e => stop e
                | .ok (sos, c2) =>
                  match needTake sos c2 with
                  | .error e => stop e
                  | .ok (sizeBytes, data) =>
                    match readSizes 100000 root (bytesBits sizeBytes) [] with
                    | .error e => stop e
                    | .ok (_, sizes) =>
                      match loadColumns kinds sizes data ds with
                      | .error e => stop e
                      | .ok (ds, _) =>
                        let rfuel := fr.content.length * 8 + nrec + 1000
                        match decodeRecordsM σ root rfuel nrec cur ds [] with
                        | .error e => stop ("decode " ++ e)
                        | .ok (cur', ds, recs) =>
                          -- the checked frame encoder of `stream_roundtrip` (restarts, records, side
                          -- conditions, layout); `esPre` is the encoder state before the restarts
                          match encodeFrameBytes σ root ncols { flags := fr.flags, fuel := rfuel, recs := recs } cur esPre with
                          | some (f, _, es, effs) =>
                            if !(stEqList effs (recs.map (·.1))) then stop "effective-value-differs"
                            else if f.content ≠ fr.content then stop s!"content differs at byte {firstDiff f.content fr.content}"
                            else if !(syncEq es ds) then stop "state-out-of-sync"
                            else go rest (idx + 1) cur' ds es (nrecs + nrec)
                          | none =>
                            -- it refused: say why
                            match encodeRecords σ root rfuel recs cur es with
                            | none => stop "encoder-refused"
                            | some (evs, _, _) =>
                              let out := EncOut.absorb (Array.replicate ncols ({} : ColOut)) evs
                              let content := frameContent root nrec out
                              if !(frameOk root ncols nrec out) then stop "frame-side-conditions"
                              else if content ≠ fr.content then
                                let d := kinds.find? (fun (c, isBit) =>
                                  let sz := ((sizes.find? (·.1 = c)).map (·.2)).getD 0
                                  (colData out c isBit).length ≠ sz)
                                match d with
                                | some (c, _) => stop s!"column {c} size differs"
                                | none => stop s!"content differs at byte {firstDiff content fr.content}"
                              else stop "frame-envelope-limits"
          go frames 0 init ds0 ds0 0
where
  /-- codec and dictionary state of encoder and decoder agree (dictionaries compared by size and,
      for strings, by content) -/
  syncEq (es ds : DS) : Bool :=
    es.cols.size == ds.cols.size &&
    (List.range es.cols.size).all (fun i =>
      let a := es.col i
      let b := ds.col i
      a.lastVal == b.lastVal && a.lastDelta == b.lastDelta && a.fLast == b.fLast &&
      a.fLead == b.fLead && a.fTrail == b.fTrail) &&
    es.sdict == ds.sdict &&
    es.tdict.map (fun p => (p.1, p.2.length)) == ds.tdict.map (fun p => (p.1, p.2.length)) &&
    es.dictPayload == ds.dictPayload


/-! ## Sanity checks on a small schema (struct + optional + oneof + array + multimap + dict struct
    + recursion): `decodeNode` inverts `encodeNode` on concrete values, state in sync -/

namespace Ex

def σ : Schema := { defs := [
  ("Root", .struct none [
     ⟨"a", false, .prim .i64 none⟩, ⟨"b", true, .prim .str (some "d")⟩, ⟨"c", false, .ref "One"⟩,
     ⟨"d", false, .arr (.ref "Pt")⟩, ⟨"e", true, .ref "Map"⟩, ⟨"f", false, .ref "Res"⟩,
     ⟨"g", false, .prim .f64 none⟩]),
  ("One", .oneof [⟨"x", false, .prim .i64 none⟩, ⟨"y", false, .ref "Pt"⟩, ⟨"z", false, .arr (.ref "One")⟩]),
  ("Pt", .struct none [⟨"x", false, .prim .f64 none⟩, ⟨"y", false, .prim .bool none⟩]),
  ("Map", .mmap (.prim .str (some "d")) (.ref "One")),
  ("Res", .struct (some "r") [⟨"name", false, .prim .str none⟩, ⟨"attrs", false, .ref "Map"⟩])] }

def built : Node × Build :=
  match mkNode σ 200 [] (.ref "Root") {} with
  | .ok r => r
  | .error _ => (.recur "?", {})

def root : Node := built.1
def ds0 : DS := { cols := Array.replicate built.2.nextCol {} }
def init : St := initSt σ initFuel (.ref "Root")

def str (s : String) : St := .s (s.toUTF8.toList.map (fun b => BitVec.ofNat 8 b.toNat))
def pt (x : Nat) (y : Bool) : St := .struct 0 [.f (BitVec.ofNat 64 x), .b y]
def mkPt : Mk := .struct 3 [.leaf, .leaf]

/-- record 1: everything set except the optional multimap `e` (absent: its slot keeps the hidden
    placeholder of the initial state) -/
def rec1 : St := .struct 0b01 [.i 5#64, str "hello", .oneof 2 (some (pt 0x3ff0000000000000 true)),
  .arr [pt 1 false, pt 2 true], .oneof 0 none,
  .struct 0 [str "res", .mmap [(str "k1", .oneof 1 (some (.i 7#64))), (str "hello", .oneof 0 none)]],
  .f 0x4000000000000000#64]
def mk1 : Mk := .struct 0b1101111 [.leaf, .leaf, .oneof mkPt, .arr [mkPt, mkPt], .leaf,
  .struct 3 [.leaf, .mmapFull [(.leaf, .oneof .leaf), (.leaf, .oneof .leaf)]], .leaf]

/-- record 2: `a`, `g` untouched and unmarked; `b` becomes absent (hidden value stays); the oneof
    switches to its recursive array alternative; the array grows (element 0 unchanged: empty
    mask); `e` becomes present; the dictionary struct `f` is sent as RefNum 1. -/
def rec2 : St := .struct 0b10 [.i 5#64, str "hello", .oneof 3 (some (.arr [.oneof 1 (some (.i 9#64))])),
  .arr [pt 1 false, pt 2 false, pt 3 true], .mmap [(str "hello", .oneof 0 none)],
  .struct 0 [str "res", .mmap [(str "k1", .oneof 1 (some (.i 7#64))), (str "hello", .oneof 0 none)]],
  .f 0x4000000000000000#64]
def mk2 : Mk := .struct 0b0111110 [.leaf, .leaf, .oneof (.arr [.oneof .leaf]),
  .arr [.struct 0 [], .struct 2 [.leaf, .leaf], mkPt], .mmapFull [(.leaf, .oneof .leaf)], .ref 1, .leaf]

/-- record 3: only a value of the multimap inside the dictionary struct changes: full encoding of
    `f` with mask 0b10, multimap in values-only form (bit 0). -/
def rec3 : St := .struct 0b10 [.i 5#64, str "hello", .oneof 3 (some (.arr [.oneof 1 (some (.i 9#64))])),
  .arr [pt 1 false, pt 2 false, pt 3 true], .mmap [(str "hello", .oneof 0 none)],
  .struct 0 [str "res", .mmap [(str "k1", .oneof 1 (some (.i 8#64))), (str "hello", .oneof 0 none)]],
  .f 0x4000000000000000#64]
def mk3 : Mk := .struct 0b0100000 [.leaf, .leaf, .leaf, .leaf, .leaf,
  .struct 2 [.leaf, .mmapVals 1 [.oneof .leaf]], .leaf]

/-- decode what was encoded and compare: value = effective value = new value, whole state in
    sync (codec, dictionaries), every column input consumed. -/
def check (prev new : St) (mk : Mk) (ds : DS) : Option DS :=
  match encodeNode σ 1000 [] root prev new mk ds with
  | none => none
  | some (evs, ds', eff) =>
    match decodeNode σ 1000 [] root prev (feed evs ds) with
    | .error _ => none
    | .ok (v, ds'') =>
      if stEq eff new && stEq v new && reencodeStream.syncEq ds' ds'' &&
         (List.range ds''.cols.size).all (fun i => (ds''.col i).bits.isEmpty && (ds''.col i).bytes.isEmpty)
      then some ds' else none

#guard built.2.nextCol == 32
#guard ((check init rec1 mk1 ds0).bind (check rec1 rec2 mk2) |>.bind (check rec2 rec3 mk3)).isSome

/-- unsound marks: record 3 sent with the marks `mk3` but the change of `a` is not marked: the
    reader keeps the old `a`; the encoder's effective value says so. -/
def rec3' : St := match rec3 with | .struct p (_ :: fs) => .struct p (.i 6#64 :: fs) | v => v
#guard (match encodeNode σ 1000 [] root rec2 rec3' mk3 ((check init rec1 mk1 ds0).bind (check rec1 rec2 mk2) |>.getD ds0) with
        | some (_, _, eff) => stEq eff rec3 && !stEq eff rec3'
        | none => false)

-- the marked decoder recovers marks from which the encoder reproduces the same events
#guard (match encodeNode σ 1000 [] root init rec1 mk1 ds0 with
        | some (evs, _, _) =>
          match decodeNodeM σ 1000 [] root init (feed evs ds0) with
          | .ok (v, mk, _) =>
            (match encodeNode σ 1000 [] root init v mk ds0 with
             | some (evs', _, _) => (List.range 32).all (fun c => colBits evs c == colBits evs' c && colBytes evs c == colBytes evs' c)
             | none => false)
          | .error _ => false
        | none => false)

end Ex

end Stef.SpecEnc
