/-
  Model of go/pkg/recordbuf.go, read side: `ReadBufs.ReadFrom`, `ReadColumnSet.ReadSizesFrom`,
  `ReadColumnSet.ReadDataFrom`. The column set is a tree; every column's buffer is allocated
  (`EnsureLen`) while the size table is parsed, before any column data is read, so the shared
  `readLimit` budget is what bounds the allocation of one frame (C03).
-/
import Stef.BitStream
import Stef.Varint

namespace Stef.Sizes

inductive ColTree where
  | node (kids : List ColTree)
  deriving Repr, Inhabited

/-- state threaded through `ReadSizesFrom`: the bit reader over the size table, the remaining
    budget (`*readLimit`) and (ghost) every size handed to `EnsureLen`, newest first. -/
structure St where
  rd : BitsReader := {}
  limit : Nat := 0
  alloc : List Nat := []
  deriving Repr

mutual
/-- Go: `(*ReadColumnSet).ReadSizesFrom`. Returns `false` for `ErrColumnSizeLimitExceeded`. -/
def readSizes : ColTree → St → St × Bool
  | .node kids, s =>
    let (rd, v) := s.rd.readUvarintCompact
    let dataSize := v.toNat
    if dataSize > s.limit then ({ s with rd := rd }, false)
    else
      let s := { rd := rd, limit := s.limit - dataSize, alloc := dataSize :: s.alloc }
      if dataSize = 0 then (s, true)      -- the sub-columns are reset (their data becomes nil)
      else readSizesList kids s
def readSizesList : List ColTree → St → St × Bool
  | [], s => (s, true)
  | k :: ks, s =>
    match readSizes k s with
    | (s, true) => readSizesList ks s
    | (s, false) => (s, false)
end

inductive Outcome where
  | ok | errHeader | errTotalLimit | errColLimit | errEof
  deriving Repr, DecidableEq, Inhabited

structure Result where
  outcome : Outcome
  temp : Nat := 0            -- size of tempBufBytes (the size table buffer)
  alloc : List Nat := []     -- sizes handed to EnsureLen for column buffers, in visit order
  deriving Repr, Inhabited

/-- Go: `(*ReadBufs).ReadFrom(buf, readLimit)` over the remaining bytes of a frame's content. -/
def readFrom (t : ColTree) (input : Bytes) (readLimit : Nat) : Result :=
  match Varint.decode input with
  | none => { outcome := .errHeader }
  | some (bs, rest) =>
    let bufSize := bs.toNat
    if bufSize > readLimit then { outcome := .errTotalLimit }
    else if rest.length < bufSize then { outcome := .errEof, temp := bufSize }
    else
      let table := rest.take bufSize
      let data := rest.drop bufSize
      let (s, ok) := readSizes t { rd := { buf := table }, limit := readLimit - bufSize }
      if !ok then { outcome := .errColLimit, temp := bufSize, alloc := s.alloc.reverse }
      else if data.length < s.alloc.sum then { outcome := .errEof, temp := bufSize, alloc := s.alloc.reverse }
      else { outcome := .ok, temp := bufSize, alloc := s.alloc.reverse }

end Stef.Sizes
