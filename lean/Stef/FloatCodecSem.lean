/-
  Stef.FloatCodecSem: the (hand-written) target vocabulary of the `FloatCodec` generator of
  /verif/extract (extract/floatcodec.go). The generator translates the Go statements of
  `Float64Encoder.{IsEqual,Encode,Reset}` and `Float64Decoder.{Decode,Reset}`
  (go/pkg/codecs/float64.go) one by one into Lean `let` / `if` chains over these types
  (Stef/Gen/FloatCodec.lean); nothing here describes WHAT the codec does - only what a Go type,
  a Go operator at a given type and a whitelisted library / bit-stream call mean.

  Go types (64-bit platform, as everywhere in this model):
  * `uint64`, `uint`      -> `Word` = `BitVec 64`; `+ - & | ^ << >>` are the `BitVec` operators (wrap around,
                             a shift by >= 64 gives 0, as in Go);
  * `int`                 -> `Int`, every arithmetic result wrapped into [-2^63, 2^63) (`wrapI`); a shift whose
                             count is an `int` panics in Go when the count is negative: the generator puts the
                             test `count < 0 -> none` in front of the statement and then shifts by `count.toNat`;
  * `float64`             -> `Float64` = its bit pattern (`math.Float64bits` / `Float64frombits` are the
                             identity); Go's `==` on floats is IEEE-754 equality (`Stef.Flt.eq`);
  * `bool`                -> `Bool`;  `error` -> `Bool` (true = non-nil);
  * `pkg.BitsWriter` / `pkg.BitsReader` -> the register-level models of Stef/BitStream.lean;
  * `*pkg.SizeLimiter`    -> `Limiter` = the number of frame bits this codec has accounted (`AddFrameBits`).
  A panic (`panic(..)` or a negative shift count) makes the translated function return `none`.
-/
import Stef.Codec
import Stef.Flt

namespace Stef.FloatCodecSem

abbrev Float64 := Word
abbrev Limiter := Nat

/-! ### Go `int` -/

/-- two's complement wrap of a mathematical integer into the range of a Go `int` (int64). -/
def wrapI (x : Int) : Int := (x + 2 ^ 63) % 2 ^ 64 - 2 ^ 63

def iadd (a b : Int) : Int := wrapI (a + b)
def isub (a b : Int) : Int := wrapI (a - b)
def imin (a b : Int) : Int := if a ≤ b then a else b
def imax (a b : Int) : Int := if a ≤ b then b else a

/-- conversion `uint64(x)` / `uint(x)` of an `int`. -/
abbrev uintOfInt (x : Int) : Word := BitVec.ofInt 64 x
/-- conversion `int(x)` of a `uint64` / `uint`. -/
abbrev intOfUint (x : Word) : Int := x.toInt

/-! ### library -/

/-- `bits.LeadingZeros64` (64 for 0), result type `int`. -/
abbrev leadingZeros64 (x : Word) : Int := (Stef.Codec.lz x : Int)
/-- `bits.TrailingZeros64` (64 for 0), result type `int`. -/
abbrev trailingZeros64 (x : Word) : Int := (Stef.Codec.tz x : Int)
/-- `math.Float64bits` -/
abbrev float64bits (x : Float64) : Word := x
/-- `math.Float64frombits` -/
abbrev float64frombits (x : Word) : Float64 := x
/-- Go `a == b` at type float64 -/
abbrev floatEq (a b : Float64) : Bool := Stef.Flt.eq a b

/-! ### pkg.BitsWriter / pkg.SizeLimiter / pkg.BitsReader (Stef/BitStream.lean) -/

/-- `WriteBit(bit uint)` -/
abbrev writeBit (w : BitsWriter) (bit : Word) : BitsWriter := w.writeBit bit
/-- `WriteBits(val uint64, nbits uint)` -/
abbrev writeBits (w : BitsWriter) (val nbits : Word) : BitsWriter := w.writeBits val nbits.toNat
/-- `AddFrameBits(bitCount uint)` -/
abbrev addFrameBits (l : Limiter) (bitCount : Word) : Limiter := l + bitCount.toNat
/-- `PeekBits(nbits uint) uint64` (refills: the reader changes) -/
abbrev peekBits (r : BitsReader) (nbits : Word) : BitsReader × Word := r.peekBits nbits.toNat
/-- `Consume(nbits uint)` -/
abbrev consume (r : BitsReader) (nbits : Word) : BitsReader := r.consume nbits.toNat
/-- `ReadBits(nbits uint) uint64` -/
abbrev readBits (r : BitsReader) (nbits : Word) : BitsReader × Word := r.readBits nbits.toNat
/-- `ReadBit() uint64` -/
abbrev readBit (r : BitsReader) : BitsReader × Word := r.readBit
/-- `Error() != nil` -/
abbrev readerError (r : BitsReader) : Bool := r.err

end Stef.FloatCodecSem
