/-
  Stef.Api: the WRITER-SIDE record state of the generated Go record API, for an arbitrary schema,
  and the public API calls as operations on it. Core Lean only (linked into the driver: op `ap`).

  Transcribed from stefc/templates/go/{struct,oneof,array,multimap,modifiedfields,writer}.go.tmpl
  (as instantiated e.g. in go/otel/otelstef/*.go), quirks included. DESIGN.md section 0.2b.

  State (`AS`)
  ------------
  The visible value PLUS what the Go structs keep besides it:
    * `struct`: the modified mask (`modifiedFields.mask`), the presence bits, the frozen flag, and ALL
      fields - an absent optional field still holds its stale value;
    * `oneof`: the current type and ALL alternatives (the stale ones too);
    * `arr`: the elements `elems[:len]` and, separately, the hidden rest of the backing slice
      `elems[len:initedCount]` (for primitives: the slots that were exposed once - everything beyond
      is zero), first hidden element first;
    * `mmap`: the same split of its backing slice, `modifiedElems.keys.mask`, `.vals.mask`, `.modifiedLen`;
    * `nil`: a pointer-stored value that was never allocated (optional field / oneof alternative of a
      recursive struct type).
  Parent pointers are not stored: a record is a tree and every operation is applied at a path, so
  "mark the parent" is the signal `Up` that an operation returns to the enclosing node.
    Up.direct   `parent.markModified(bit)` called by an array / oneof / multimap element tracker
    Up.loop     the parent loop of `markModifiedSlow` (a struct or a multimap tracker got a new bit)
  Both stop at a node whose bit is already set. They differ only at a multimap element with index
  >= 64, whose bit is all ones (`maskForIndex`).
  What is NOT stored: `refNum` (a cache; the dictionary lookup is by value), allocators, the Go
  pointer identity of shared frozen values (a frozen value cannot change, its marks are never read:
  a dictionary struct is written as a RefNum or in full, whatever its marks are).
-/
import Stef.Spec
import Stef.SpecEnc

namespace Stef.Api
open Stef Stef.Spec Stef.SpecEnc

/-! ## Schema context -/

structure Ctx where
  σ : Schema
  /-- structs / oneofs that the generator marks recursive (`schema.Struct.Recursive()`): stored by pointer -/
  ptr : List String := []
  deriving Inhabited

def Ctx.isDictName (C : Ctx) (n : String) : Bool :=
  match C.σ.find n with
  | some (.struct (some _) _) => true
  | _ => false

def Ctx.isDictTy (C : Ctx) : Ty → Bool
  | .ref n => C.isDictName n
  | _ => false

/-- `Flags.StoreByPtr` of a struct / oneof typed field -/
def Ctx.isPtrTy (C : Ctx) : Ty → Bool
  | .ref n =>
    match C.σ.find n with
    | some (.struct d _) => d.isSome || C.ptr.contains n
    | some (.oneof _) => C.ptr.contains n
    | _ => false
  | _ => false

def isPrimTy : Ty → Bool
  | .prim _ _ => true
  | _ => false

/-- element type of an array whose elements are pointers to structs / oneofs (`IsStructType`) -/
def Ctx.isStructTy (C : Ctx) : Ty → Bool
  | .ref n =>
    match C.σ.find n with
    | some (.struct _ _) => true
    | some (.oneof _) => true
    | _ => false
  | _ => false

def allOnes : Nat := 2 ^ 64 - 1

/-! ## State -/

inductive AS
  | prim (v : St)
  | nil
  | struct (name : String) (mask pres : Nat) (frozen : Bool) (fields : List AS)
  | oneof (name : String) (typ : Nat) (alts : List AS)
  | arr (ety : Ty) (elems : List AS) (hidden : List AS)
  | mmap (name : String) (elems : List (AS × AS)) (hidden : List (AS × AS)) (keys vals : Nat) (modLen : Bool)
  deriving Inhabited

inductive Up | no | direct | loop
  deriving DecidableEq, Repr, Inhabited

/-- several signals of one operation, delivered one after the other, act like their join -/
def Up.join : Up → Up → Up
  | .direct, _ => .direct
  | _, .direct => .direct
  | .loop, _ => .loop
  | _, .loop => .loop
  | _, _ => .no

def isPrimAS : AS → Bool
  | .prim _ => true
  | _ => false

def primZero : St → St
  | .b _ => .b false
  | .i _ => .i 0#64
  | .f _ => .f 0#64
  | .s _ => .s []
  | v => v

/-- the new state of a value of type `ty` (`init` / `initAlloc` of the templates): by-value
    composites are inited in place, pointer-stored ones are allocated unless optional. -/
def initAS (C : Ctx) : Nat → Ty → AS
  | 0, _ => .oneof "" 0 []        -- out of fuel: an empty oneof (shows like `Spec.initSt` out of fuel)
  | _ + 1, .prim p _ => .prim (initPrim p)
  | _ + 1, .arr e => .arr e [] []
  | fuel + 1, .ref n =>
    match C.σ.find n with
    | some (.struct _ fs) => .struct n 0 0 false (fs.map (fun fd =>
        if isPrimTy fd.ty then initAS C fuel fd.ty
        else if C.isPtrTy fd.ty && fd.optional then .nil
        else initAS C fuel fd.ty))
    | some (.oneof fs) => .oneof n 0 (fs.map (fun fd =>
        if isPrimTy fd.ty then initAS C fuel fd.ty
        else if C.isPtrTy fd.ty then .nil
        else initAS C fuel fd.ty))
    | some (.mmap _ _) => .mmap n [] [] 0 0 false
    | none => .oneof n 0 []

def initFuelA : Nat := 64

def Ctx.init (C : Ctx) (ty : Ty) : AS := initAS C initFuelA ty

/-! ## Whole-subtree operations (structural on the state) -/

mutual
/-- `freeze()`: only the `frozen` flag of structs is kept (it is what `canBeShared` reads) -/
def freezeAS : AS → AS
  | .struct n m p _ fs => .struct n m p true (freezeList fs)
  | .oneof n t as => .oneof n t (freezeList as)
  | .arr e es hid => .arr e (freezeList es) hid
  | .mmap n ps hid k v ml => .mmap n (freezePairs ps) hid k v ml
  | a => a
def freezeList : List AS → List AS
  | [] => []
  | a :: as => freezeAS a :: freezeList as
def freezePairs : List (AS × AS) → List (AS × AS)
  | [] => []
  | (a, b) :: ps => (freezeAS a, freezeAS b) :: freezePairs ps
end

/-- `empty<T>`: the pre-initialised frozen value that `reset()` and `EnsureLen` put into
    dictionary-struct slots -/
def Ctx.emptyOf (C : Ctx) (ty : Ty) : AS := freezeAS (C.init ty)

/-- a dictionary struct reached through a getter: a readonly value ("Use Set<F>() to modify it").
    Modifying it in place is legal Go while it is not frozen, but it is not modelled (navigation into
    it is refused). No encoder reads the marks inside a dictionary struct (it is written as a RefNum or
    in full); the invariant still constrains those of an OWNED one - they are up-closed
    (Proofs/ApiInv.lean, `UC`): it is a copy destination, a change inside it must reach its parent, and
    `setUnmodifiedRecursively`, which descends below set bits only, must clear them. -/
def Ctx.isDictNode (C : Ctx) : AS → Bool
  | .struct n _ _ _ _ => C.isDictName n
  | _ => false

def Ctx.canBeShared (C : Ctx) : AS → Bool
  | .struct n _ _ fr _ => fr && C.isDictName n
  | _ => false

def fieldsOf (C : Ctx) (n : String) : List Field :=
  match C.σ.find n with
  | some (.struct _ fs) => fs
  | some (.oneof fs) => fs
  | _ => []

def mmapTys (C : Ctx) (n : String) : Ty × Ty :=
  match C.σ.find n with
  | some (.mmap k v) => (k, v)
  | _ => (.prim .bool none, .prim .bool none)

mutual
/-- `reset()`: the value part goes back to the initial state; marks are NOT touched; a struct
    resets all its fields (present or not), a oneof only forgets its type, arrays and multimaps only
    their length. Dictionary-struct fields are replaced by the shared empty value. -/
def resetAS (C : Ctx) : AS → AS
  | .prim v => .prim (primZero v)
  | .nil => .nil
  | .struct n m _ fr fs => .struct n m 0 fr (resetFields C (fieldsOf C n) fs)
  | .oneof n _ as => .oneof n 0 as
  | .arr e es hid => .arr e [] (es ++ hid)
  | .mmap n ps hid k v ml => .mmap n [] (ps ++ hid) k v ml
def resetFields (C : Ctx) : List Field → List AS → List AS
  | _, [] => []
  | fds, a :: as =>
    (match a with
     | .prim v => .prim (primZero v)
     | .nil => .nil
     | a => if (fds.head?.map (fun fd => C.isDictTy fd.ty)).getD false
            then C.emptyOf ((fds.head?.map (·.ty)).getD (.prim .bool none)) else resetAS C a)
    :: resetFields C fds.tail as
end

mutual
/-- `setModifiedRecursively()` -/
def setModRec : AS → AS
  | .struct n _ p fr fs => .struct n (2 ^ fs.length - 1) p fr (setModRecList fs)
  | .oneof n t as => .oneof n t (setModRecAlt (t - 1) (t == 0) as)
  | .arr e es hid => .arr e (setModRecList es) hid
  | .mmap n ps hid _ _ _ => .mmap n (setModRecPairs ps) hid allOnes allOnes true
  | a => a
def setModRecList : List AS → List AS
  | [] => []
  | a :: as => setModRec a :: setModRecList as
/-- only the current alternative (index `i`, skipped when `skip`) -/
def setModRecAlt : Nat → Bool → List AS → List AS
  | _, _, [] => []
  | 0, skip, a :: as => (if skip then a else setModRec a) :: as
  | i + 1, skip, a :: as => a :: setModRecAlt i skip as
def setModRecPairs : List (AS × AS) → List (AS × AS)
  | [] => []
  | (a, b) :: ps => (setModRec a, setModRec b) :: setModRecPairs ps
end

mutual
/-- `setUnmodifiedRecursively()`: a struct descends only into fields whose bit is set -/
def setUnmodRec : AS → AS
  | .struct n m p fr fs => .struct n 0 p fr (setUnmodRecFields m 0 fs)
  | .oneof n t as => .oneof n t (setUnmodRecAlt (t - 1) (t == 0) as)
  | .arr e es hid => .arr e (setUnmodRecList es) hid
  | .mmap n ps hid _ _ _ => .mmap n (setUnmodRecPairs ps) hid 0 0 false
  | a => a
def setUnmodRecFields (m : Nat) : Nat → List AS → List AS
  | _, [] => []
  | i, a :: as => (if m.testBit i then setUnmodRec a else a) :: setUnmodRecFields m (i + 1) as
def setUnmodRecAlt : Nat → Bool → List AS → List AS
  | _, _, [] => []
  | 0, skip, a :: as => (if skip then a else setUnmodRec a) :: as
  | i + 1, skip, a :: as => a :: setUnmodRecAlt i skip as
def setUnmodRecList : List AS → List AS
  | [] => []
  | a :: as => setUnmodRec a :: setUnmodRecList as
def setUnmodRecPairs : List (AS × AS) → List (AS × AS)
  | [] => []
  | (a, b) :: ps => (setUnmodRec a, setUnmodRec b) :: setUnmodRecPairs ps
end

/-! ## The visible value -/

mutual
/-- the record a reader is meant to see. Hidden parts are erased: an absent optional field shows a
    placeholder (never printed, never encoded), stale oneof alternatives and the hidden rest of a
    backing slice are dropped. -/
def vis (C : Ctx) : AS → St
  | .prim v => v
  | .nil => .oneof 0 none
  | .struct n _ p _ fs => .struct p (visFields C (fieldsOf C n) 0 p fs)
  | .oneof _ t as => if t = 0 then .oneof 0 none else .oneof t (visAlt C (t - 1) as)
  | .arr _ es _ => .arr (visList C es)
  | .mmap _ ps _ _ _ _ => .mmap (visPairs C ps)
def visFields (C : Ctx) : List Field → Nat → Nat → List AS → List St
  | _, _, _, [] => []
  | fds, oi, p, a :: as =>
    let opt := (fds.head?.map (·.optional)).getD false
    (if opt && !p.testBit oi then
       (match a with | .prim v => primZero v | _ => St.oneof 0 none)
     else vis C a) :: visFields C fds.tail (if opt then oi + 1 else oi) p as
def visAlt (C : Ctx) : Nat → List AS → Option St
  | _, [] => none
  | 0, a :: _ => some (vis C a)
  | i + 1, _ :: as => visAlt C i as
def visList (C : Ctx) : List AS → List St
  | [] => []
  | a :: as => vis C a :: visList C as
def visPairs (C : Ctx) : List (AS × AS) → List (St × St)
  | [] => []
  | (a, b) :: ps => (vis C a, vis C b) :: visPairs C ps
end

/-- `computeDiff` as a predicate / `!IsEqual`: do the visible values differ? (The marks that
    `computeDiff` leaves in its receiver - always a frozen, shared value - are never read.) -/
def Ctx.differs (C : Ctx) (a b : AS) : Bool := !stEq (vis C a) (vis C b)

mutual
/-- the same visible data of the same types: what `Cmp<T>(a, b) == 0` (the dictionary lookup of the
    struct encoders) decides. Hidden parts and marks are not compared. -/
def eqv (C : Ctx) : AS → AS → Bool
  | .prim x, b => (match b with | .prim y => stEq x y | _ => false)
  | .nil, _ => false
  | .struct n _ p _ fs, b =>
    (match b with
     | .struct n' _ p' _ fs' => n == n' && p == p' && eqvFields C (fieldsOf C n) 0 p fs fs'
     | _ => false)
  | .oneof n t as, b =>
    (match b with
     | .oneof n' t' as' => n == n' && t == t' && (t == 0 || eqvAlt C (t - 1) as as')
     | _ => false)
  | .arr _ es _, b =>
    (match b with
     | .arr _ es' _ => eqvElems C es es'
     | _ => false)
  | .mmap n ps _ _ _ _, b =>
    (match b with
     | .mmap n' ps' _ _ _ _ => n == n' && eqvPairs C ps ps'
     | _ => false)
termination_by structural a => a
def eqvFields (C : Ctx) : List Field → Nat → Nat → List AS → List AS → Bool
  | _, _, _, [], bs => bs.isEmpty
  | fds, oi, p, a :: as, bs =>
    let opt := (fds.head?.map (·.optional)).getD false
    (match bs with
     | [] => false
     | b :: bs' =>
       (if opt && !p.testBit oi then true else eqv C a b) &&
       eqvFields C fds.tail (if opt then oi + 1 else oi) p as bs')
termination_by structural _ _ _ as => as
def eqvAlt (C : Ctx) : Nat → List AS → List AS → Bool
  | _, [], _ => false
  | 0, a :: _, bs => (match bs with | b :: _ => eqv C a b | [] => false)
  | i + 1, _ :: as, bs => eqvAlt C i as bs.tail
termination_by structural _ as => as
def eqvElems (C : Ctx) : List AS → List AS → Bool
  | [], bs => bs.isEmpty
  | a :: as, bs => (match bs with | b :: bs' => eqv C a b && eqvElems C as bs' | [] => false)
termination_by structural as => as
def eqvPairs (C : Ctx) : List (AS × AS) → List (AS × AS) → Bool
  | [], bs => bs.isEmpty
  | (a1, a2) :: as, bs =>
    (match bs with
     | (b1, b2) :: bs' => eqv C a1 b1 && eqv C a2 b2 && eqvPairs C as bs'
     | [] => false)
termination_by structural as => as
end

/-! ## Marking -/

/-- a struct receives a signal for field `i` (`markModified(bit)` from a child, or the parent loop) -/
def structRecv (mask i : Nat) (up : Up) : Nat × Up :=
  if up = .no then (mask, .no)
  else if mask.testBit i then (mask, .no)
  else (mask ||| 2 ^ i, .loop)

def maskForIndex (i : Nat) : Nat := if i ≥ 64 then allOnes else 2 ^ i

/-- `m.markModified(bit)` on a multimap tracker (`keys` / `vals`) itself -/
def trackerMark (mask bit : Nat) : Nat × Up :=
  if mask &&& bit ≠ bit then (mask ||| bit, .loop) else (mask, .no)

/-- a multimap tracker receives a signal from the key / value with bit `bit` -/
def trackerRecv (mask bit : Nat) (up : Up) : Nat × Up :=
  match up with
  | .no => (mask, .no)
  | .direct => trackerMark mask bit
  | .loop => if mask &&& bit = 0 then (mask ||| bit, .loop) else (mask, .no)

/-- `modifiedFieldsMultimap.changeLen`; returns keys, vals (modifiedLen becomes true, the parent is
    always signalled) -/
def changeLen (keys vals oldLen newLen : Nat) : Nat × Nat :=
  if newLen ≥ 64 then (keys ||| allOnes, vals ||| allOnes)
  else
    let um := 2 ^ newLen - 1
    let keys := keys &&& um
    let vals := vals &&& um
    if newLen ≥ oldLen then
      let mm := um &&& ((allOnes <<< oldLen) % 2 ^ 64)
      (keys ||| mm, vals ||| mm)
    else (keys, vals)

/-- a slot of a slice of primitives shows whatever it holds (stale or zero) -/
def primOnly : AS → AS
  | .prim v => .prim v
  | _ => .prim (.b false)

/-- the next `k` slots of the backing slice behind the visible elements: the hidden ones first, then
    new ones (`fresh`); returns the exposed slots and the hidden rest -/
def expose {α} (k : Nat) (fresh : α) (hid : List α) : List α × List α :=
  ((hid ++ List.replicate (k - hid.length) fresh).take k, hid.drop k)

/-- `<Array>.ensureLen` (no reset of re-exposed elements) -/
def arrEnsureLenRaw (C : Ctx) (e : Ty) (es hid : List AS) (n : Nat) : List AS × List AS × List AS × Up :=
  if n > es.length then
    let (ex, hid') := expose (n - es.length) (C.init e) hid
    (es, ex, hid', .direct)
  else if es.length > n then (es.take n, [], es.drop n ++ hid, .direct)
  else (es, [], hid, .no)

/-- `<Array>.EnsureLen`: the re-exposed / new elements are reset and marked in full (a dictionary
    struct slot gets the shared empty value) -/
def arrEnsureLen (C : Ctx) (e : Ty) (es hid : List AS) (n : Nat) : List AS × List AS × Up :=
  let (es', ex, hid', up) := arrEnsureLenRaw C e es hid n
  let g : AS → AS :=
    if isPrimTy e then primOnly
    else if C.isDictTy e then fun _ => C.emptyOf e
    else fun a => setModRec (resetAS C a)
  (es' ++ ex.map g, hid', up)

/-- `EnsureLen` of a multimap, one re-exposed / new composite key or value of type `ty`: reset and
    marked in full; a pointer-stored one that is shared (a frozen dictionary struct left in a hidden
    element) must not be modified and is replaced by an initialised one of the multimap's own -/
def mmExpose (C : Ctx) (ty : Ty) (a : AS) : AS :=
  setModRec (if C.isPtrTy ty && C.canBeShared a then C.init ty else resetAS C a)

/-- `<Multimap>.ensureLen` + the reset of `EnsureLen` -/
def mmEnsureLen (C : Ctx) (name : String) (ps hid : List (AS × AS)) (k v : Nat) (ml : Bool) (n : Nat) :
    List (AS × AS) × List (AS × AS) × Nat × Nat × Bool × Up :=
  if n ≠ ps.length then
    let (k', v') := changeLen k v ps.length n
    let (kt, vt) := mmapTys C name
    let fk : AS → AS := if isPrimTy kt then primOnly else mmExpose C kt
    let fv : AS → AS := if isPrimTy vt then primOnly else mmExpose C vt
    if n > ps.length then
      let (ex, hid') := expose (n - ps.length) (C.init kt, C.init vt) hid
      (ps ++ ex.map (fun (a, b) => (fk a, fv b)), hid', k', v', true, .loop)
    else (ps.take n, ps.drop n ++ hid, k', v', true, .loop)
  else (ps, hid, k, v, ml, .no)

/-! ## Copies (`copy<T>` = CopyFrom)

  `copy0` is structural on the SOURCE. The one place where the templates copy from somewhere else
  (a shared destination value is first copied into a fresh owned one) is the parameter `unshare`;
  `copyLvl` ties the knot over the nesting depth of dictionary structs. -/

/-- set the `i`-th list element -/
def setNth {α} (l : List α) (i : Nat) (v : α) : List α := l.set i v

structure CopyEnv where
  C : Ctx
  /-- `new(T); init; copy<T>(new, shared); setUnmodifiedRecursively()` -/
  unshare : Ty → AS → AS × Up

/-- `copy<Struct>`, optional composite field whose presence differs: mark; becoming present is
    `dst.Set<F>()` (allocate if nil, reset, encode in full); present in the destination only: the value
    is reset and the presence bit cleared (the template assigns `dst.optionalFieldsPresent =
    src.optionalFieldsPresent` at the end of the copy: by then every optional field's bit is the
    source's). Returns the field's value, the mask, the presence bits and the signal. -/
def copyFieldPresence (E : CopyEnv) (fd : Field) (idx oi : Nat) (sHas dHas : Bool) (d : AS) (m p : Nat) : AS × Nat × Nat × Up :=
  if fd.optional && (sHas != dHas) then
    if sHas then
      (setModRec (resetAS E.C (match d with | .nil => E.C.init fd.ty | x => x)), (structRecv m idx .direct).1, p ||| 2 ^ oi,
        (structRecv m idx .direct).2)
    else (resetAS E.C d, (structRecv m idx .direct).1, p ^^^ 2 ^ oi, (structRecv m idx .direct).2)
  else (d, m, p, .no)

/-- `copy<Struct>`, composite field, the value: `d1`, `m1`, `p1`, `u1` as left by `copyFieldPresence`,
    `gone` = the field was present in the destination only, `cp x` = `copy<FieldType>(x, s)` -/
def copyFieldValue (E : CopyEnv) (fd : Field) (idx : Nat) (sHas gone : Bool) (d1 s : AS) (m1 p1 : Nat) (u1 : Up)
    (cp : AS → AS × Up) : AS × Nat × Nat × Up :=
  if E.C.isPtrTy fd.ty then
    let srcOk := if fd.optional then (match s with | .nil => false | _ => true) && sHas else true
    if srcOk then
      if E.C.canBeShared s then
        if E.C.differs s d1 then (s, (structRecv m1 idx .direct).1, p1, u1.join (structRecv m1 idx .direct).2)
        else (d1, m1, p1, u1)
      else
        match d1 with
        | .nil =>
          -- (cannot occur: a present pointer-stored field is never nil) a new value, marked in full
          let m2 := (structRecv m1 idx .direct).1
          let r := cp (setModRec (E.C.init fd.ty))
          (r.1, (structRecv m2 idx r.2).1, p1, (u1.join (structRecv m1 idx .direct).2).join (structRecv m2 idx r.2).2)
        | sh =>
          if E.C.canBeShared sh then
            -- not allowed to modify shared data: continue with an owned, linked copy without marks
            let o := E.unshare fd.ty sh
            let m2 := (structRecv m1 idx o.2).1
            let r := cp o.1
            (r.1, (structRecv m2 idx r.2).1, p1, (u1.join (structRecv m1 idx o.2).2).join (structRecv m2 idx r.2).2)
          else
            let r := cp sh
            (r.1, (structRecv m1 idx r.2).1, p1, u1.join (structRecv m1 idx r.2).2)
    else (d1, m1, p1, u1)
  else
    if gone then (d1, m1, p1, u1)
    else
      let r := cp d1
      (r.1, (structRecv m1 idx r.2).1, p1, u1.join (structRecv m1 idx r.2).2)

/-- one field of `copy<Struct>`: `d` / `s` are the field's value in destination / source, `m` / `p` the
    destination's mask / presence bits, `cp x` = `copy<FieldType>(x, s)` -/
def copyFieldStep (E : CopyEnv) (fd : Field) (idx oi sp : Nat) (d s : AS) (m p : Nat) (cp : AS → AS × Up) :
    AS × Nat × Nat × Up :=
  let opt := fd.optional
  let sHas := !opt || sp.testBit oi
  if isPrimTy fd.ty then
    match s, d with
    | .prim sv, .prim dv =>
      if sHas then
        -- dst.Set<F>(src.f)
        if !stEq dv sv || (opt && !p.testBit oi) then
          (.prim sv, (structRecv m idx .direct).1, if opt then p ||| 2 ^ oi else p, (structRecv m idx .direct).2)
        else (d, m, p, .no)
      else
        -- dst.Unset<F>()
        if p.testBit oi then (d, (structRecv m idx .direct).1, p ^^^ 2 ^ oi, (structRecv m idx .direct).2)
        else (d, m, p, .no)
    | _, _ => (d, m, p, .no)
  else
    let dHas := !opt || p.testBit oi
    let q := copyFieldPresence E fd idx oi sHas dHas d m p
    copyFieldValue E fd idx sHas (opt && dHas && !sHas) q.1 s q.2.1 q.2.2.1 q.2.2.2 cp

/-- `SetKey(i, k)` / `SetValue(i, v)` of a multimap whose key / value type `ty` is a dictionary struct
    (also what `copy<Multimap>` does with such a member): a source that can be shared is assigned by
    pointer if it differs; an owned one is copied into the current value if it differs, after a shared
    current value was replaced by an owned, linked copy without marks (`unshare`). `mask` / `bit`: the
    tracker (`keys` / `vals`) and the element's bit; `cp x` = `copy<T>(x, s)`. `mark<Key|Val>Modified(i)`
    comes first, so the signals of the unshare copy and of the copy arrive at a bit that is set already
    and change nothing (`trackerRecv` on a set bit): they are left out. -/
def setDictElem (C : Ctx) (unshare : Ty → AS → AS × Up) (cp : AS → AS × Up) (ty : Ty) (bit : Nat) (d s : AS) (mask : Nat) :
    AS × Nat × Up :=
  if C.canBeShared s then
    if C.differs s d then (s, (trackerMark mask bit).1, (trackerMark mask bit).2) else (d, mask, .no)
  else if C.differs d s then
    ((cp (if C.canBeShared d then (unshare ty d).1 else d)).1, (trackerMark mask bit).1, (trackerMark mask bit).2)
  else (d, mask, .no)

/-- one key or one value (of type `ty`) of `copy<Multimap>`: primitive - assigned and marked if it
    differs; dictionary struct - `dst.SetKey(i, src.key)` / `dst.SetValue(i, src.value)`; other composite -
    `if !dst.IsEqual(src) { copy<T>(dst, src) }`. `mask` / `bit`: the tracker (`keys` / `vals`) and the
    element's bit; `cp x` = `copy<T>(x, s)`. Returns the element, the tracker mask, the signal. -/
def copyKV (E : CopyEnv) (ty : Ty) (bit : Nat) (d s : AS) (mask : Nat) (cp : AS → AS × Up) : AS × Nat × Up :=
  if isPrimTy ty then
    match s, d with
    | .prim x, .prim y =>
      if !stEq y x then (.prim x, (trackerMark mask bit).1, (trackerMark mask bit).2) else (d, mask, .no)
    | _, _ => (d, mask, .no)
  else if E.C.isDictTy ty then setDictElem E.C E.unshare cp ty bit d s mask
  else if E.C.differs d s then ((cp d).1, (trackerRecv mask bit (cp d).2).1, (trackerRecv mask bit (cp d).2).2)
  else (d, mask, .no)

mutual
def copy0 (E : CopyEnv) : AS → AS → AS × Up
  | dst, .struct _ _ sp _ sfs =>
    match dst with
    | .struct n m p fr dfs =>
      -- a shared (frozen dictionary) struct is never a copy destination: the struct, array and
      -- multimap templates replace it first (`unshare`), and a setter on a frozen struct panics.
      -- Fail-safe: nothing changes, the parent is told (reached only by states Go's type system
      -- excludes: a shared struct where the schema has no dictionary-struct type, nesting deeper than
      -- the schema allows).
      if fr && E.C.isDictName n then (dst, .direct) else
      let fds := fieldsOf E.C n
      let (dfs', m', p', up) := copyFields E fds 0 0 sp dfs sfs m p
      (.struct n m' p' fr dfs', up)
    | d => (d, .no)
  | dst, .oneof _ st salts =>
    match dst with
    | .oneof n t dalts =>
      if st = 0 then
        if t ≠ 0 then (.oneof n 0 dalts, .direct) else (dst, .no)
      else
        let fds := fieldsOf E.C n
        let isPrimAlt := ((fds[st - 1]?).map (fun fd => isPrimTy fd.ty)).getD true
        if isPrimAlt then
          -- dst.Set<Alt>(src.alt)
          let sv := salts.getD (st - 1) .nil
          let dv := dalts.getD (st - 1) .nil
          match sv, dv with
          | .prim x, .prim y =>
            if t ≠ st || !stEq x y then (.oneof n st (setNth dalts (st - 1) (.prim x)), .direct) else (dst, .no)
          | _, _ => (dst, .no)
        else
          -- dst.SetType(src.typ); copy<T>(dst.alt, src.alt)
          let aty := ((fds[st - 1]?).map (·.ty)).getD (.prim .bool none)
          let (dalts1, up1) :=
            if t ≠ st then
              let cur := dalts.getD (st - 1) .nil
              let cur := resetAS E.C cur
              let cur := match cur with | .nil => E.C.init aty | c => c
              (setNth dalts (st - 1) (setModRec cur), Up.direct)
            else (dalts, Up.no)
          let (a', up2) := copyAlt E (st - 1) dalts1 salts
          (.oneof n st a', up1.join up2)
    | d => (d, .no)
  | dst, .arr _ ses _ =>
    match dst with
    | .arr e des dhid =>
      let minLen := min des.length ses.length
      let isMod0 := des.length ≠ ses.length
      let (des1, dhid1, up1) := if des.length ≠ ses.length then arrEnsureLen E.C e des dhid ses.length else (des, dhid, Up.no)
      let (des2, isMod, up2) := copyElems E e 0 minLen des1 ses
      let isMod := isMod0 || isMod
      (.arr e des2 dhid1, (up1.join up2).join (if isMod then .direct else .no))
    | d => (d, .no)
  | dst, .mmap _ sps _ _ _ _ =>
    match dst with
    | .mmap n dps dhid k v ml =>
      let (dps1, dhid1, k1, v1, ml1, up1) :=
        if dps.length ≠ sps.length then mmEnsureLen E.C n dps dhid k v ml sps.length else (dps, dhid, k, v, ml, Up.no)
      let (kt, vt) := mmapTys E.C n
      let (dps2, k2, v2, up2) := copyPairs E kt vt 0 dps1 sps k1 v1
      (.mmap n dps2 dhid1 k2 v2 ml1, up1.join up2)
    | d => (d, .no)
  | dst, .prim _ => (dst, .no)
  | dst, .nil => (dst, .no)
termination_by structural _ s => s

/-- the fields of `copy<Struct>` (schema fields, destination and source values in step); threads the
    destination's mask and presence bits -/
def copyFields (E : CopyEnv) : List Field → Nat → Nat → Nat → List AS → List AS → Nat → Nat → List AS × Nat × Nat × Up
  | fd :: fds, idx, oi, sp, d :: dfs, s :: sfs, m, p =>
    let (d', m', p', up) := copyFieldStep E fd idx oi sp d s m p (fun x => copy0 E x s)
    let (rest, m'', p'', up') := copyFields E fds (idx + 1) (if fd.optional then oi + 1 else oi) sp dfs sfs m' p'
    (d' :: rest, m'', p'', up.join up')
  | _, _, _, _, dfs, _, m, p => (dfs, m, p, .no)
termination_by structural _ _ _ _ _ sfs _ _ => sfs

/-- copy the alternative with index `i` (walks the source alternatives) -/
def copyAlt (E : CopyEnv) : Nat → List AS → List AS → List AS × Up
  | _, das, [] => (das, .no)
  | 0, das, s :: _ =>
    match das with
    | d :: ds => let (d', u) := copy0 E d s; (d' :: ds, u)
    | [] => ([], .no)
  | i + 1, das, _ :: ss =>
    match das with
    | d :: ds => let (ds', u) := copyAlt E i ds ss; (d :: ds', u)
    | [] => ([], .no)
termination_by structural _ _ ss => ss

/-- the elements of `copy<Array>`: index `i`, the part `[0, minLen)` that had room and the grown
    part; walks the source elements (the destination has the same length by now). Returns the
    elements, `isModified` and the signals of element copies / `dst.markModified()` calls inside the loop. -/
def copyElems (E : CopyEnv) (ety : Ty) : Nat → Nat → List AS → List AS → List AS × Bool × Up
  | _, _, des, [] => (des, false, .no)
  | i, minLen, des, s :: ses =>
    match des with
    | [] => ([], false, .no)
    | d :: ds =>
      let (d', mod, up) : AS × Bool × Up :=
        if isPrimTy ety then
          match s, d with
          | .prim sv, .prim dv =>
            if !stEq dv sv then (.prim sv, true, if i < minLen then Up.direct else Up.no) else (d, false, .no)
          | _, _ => (d, false, .no)
        else if i < minLen then
          if E.C.canBeShared s then
            if E.C.differs s d then (s, true, .direct) else (d, false, .no)
          else
            let d1 := if E.C.isDictTy ety && E.C.canBeShared d then E.C.init ety else d
            let (d2, u) := copy0 E d1 s
            (d2, true, u)
        else
          if E.C.canBeShared s then (setModRec s, true, .no)
          else
            let (d2, u) := copy0 E (E.C.init ety) s
            (setModRec d2, true, u)
      let (rest, mod', up') := copyElems E ety (i + 1) minLen ds ses
      (d' :: rest, mod || mod', up.join up')
termination_by structural _ _ _ ses => ses

/-- the pairs of `copy<Multimap>` (index `i`); threads keys / vals masks -/
def copyPairs (E : CopyEnv) (kt vt : Ty) : Nat → List (AS × AS) → List (AS × AS) → Nat → Nat →
    List (AS × AS) × Nat × Nat × Up
  | _, dps, [], k, v => (dps, k, v, .no)
  | i, dps, (sk, sv) :: sps, k, v =>
    match dps with
    | [] => ([], k, v, .no)
    | (dk, dv) :: ds =>
      let rk := copyKV E kt (maskForIndex i) dk sk k (fun x => copy0 E x sk)
      let rv := copyKV E vt (maskForIndex i) dv sv v (fun x => copy0 E x sv)
      let (rest, k'', v'', up') := copyPairs E kt vt (i + 1) ds sps rk.2.1 rv.2.1
      ((rk.1, rv.1) :: rest, k'', v'', (rk.2.2.join rv.2.2).join up')
termination_by structural _ _ sps _ _ => sps
end

/-- `new(T); init(parent); copy<T>(new, shared); setUnmodifiedRecursively()`: an owned value that starts
    as the shared one, without marks; the signal is the one the copy sent (the new value is linked to
    its parent before the copy). The templates rely on `copy<T>` reproducing its source. Here that is
    CHECKED (`eqv` = `Cmp<T> == 0`): should the copy not compare equal to the shared value, the new
    value is marked in full and the parent is told - a branch that is dead whenever `copy<T>` is
    functionally correct (it is what the templates assume; states of the wrong Go type reach it). -/
def unshareWith (C : Ctx) (cp : AS → AS → AS × Up) (ty : Ty) (sh : AS) : AS × Up :=
  let r := cp (C.init ty) sh
  if eqv C sh (setUnmodRec r.1) then (setUnmodRec r.1, r.2) else (setModRec r.1, .direct)

/-- `copy<T>` with the shared-destination case resolved to depth `k` of nested dictionary structs -/
def copyLvl (C : Ctx) : Nat → AS → AS → AS × Up
  | 0 => copy0 { C := C, unshare := fun _ sh => (sh, .no) }
  | k + 1 => copy0 { C := C, unshare := unshareWith C (copyLvl C k) }

/-- `CopyFrom` -/
def Ctx.copy (C : Ctx) (dst src : AS) : AS × Up := copyLvl C (C.σ.defs.length + 1) dst src

def Ctx.unshare (C : Ctx) (ty : Ty) (sh : AS) : AS × Up := unshareWith C C.copy ty sh

/-! ## Clone (sources of CopyFrom that are clones of the destination)

  Only the VALUE of a clone matters (a source is only read): `cloneAS` keeps what `Clone` /
  `copyToNew<T>` keep: visible values, the stale values of absent optional composites, shared frozen
  values by reference; it drops stale oneof alternatives, elements beyond the length and the
  stale value of an absent optional primitive. Marks of a clone are never read. -/

mutual
def cloneAS (C : Ctx) : AS → AS
  | .prim v => .prim v
  | .nil => .nil
  | .struct n m p fr fs =>
    if fr && C.isDictName n then .struct n m p fr fs
    else .struct n 0 p false (cloneFields C (fieldsOf C n) 0 p fs)
  | .oneof n t as => .oneof n t (cloneAlts C (fieldsOf C n) t 1 as)
  | .arr e es _ => .arr e (cloneList C es) []
  | .mmap n ps _ _ _ _ => .mmap n (clonePairs C ps) [] 0 0 false
def cloneFields (C : Ctx) : List Field → Nat → Nat → List AS → List AS
  | _, _, _, [] => []
  | fds, oi, p, a :: as =>
    let opt := (fds.head?.map (·.optional)).getD false
    (match a with
     | .prim v => if opt && !p.testBit oi then AS.prim (primZero v) else .prim v
     | a => cloneAS C a) :: cloneFields C fds.tail (if opt then oi + 1 else oi) p as
def cloneAlts (C : Ctx) : List Field → Nat → Nat → List AS → List AS
  | _, _, _, [] => []
  | fds, t, i, a :: as =>
    (if i = t then cloneAS C a
     else match a with
       | .prim v => AS.prim (primZero v)
       | _ => (match fds.head? with
               | some fd => if C.isPtrTy fd.ty then AS.nil else C.init fd.ty
               | none => AS.nil)) :: cloneAlts C fds.tail t (i + 1) as
def cloneList (C : Ctx) : List AS → List AS
  | [] => []
  | a :: as => cloneAS C a :: cloneList C as
def clonePairs (C : Ctx) : List (AS × AS) → List (AS × AS)
  | [] => []
  | (a, b) :: ps => (cloneAS C a, cloneAS C b) :: clonePairs C ps
end

/-! ## The public API: operations at a path -/

inductive Step
  | field (i : Nat)     -- struct getter of field i
  | alt (k : Nat)       -- oneof getter of alternative k (1-based)
  | at (i : Nat)        -- array At(i)
  | key (i : Nat)       -- multimap Key(i)
  | val (i : Nat)       -- multimap Value(i)
  deriving Repr, Inhabited

inductive Op
  | setPrim (i : Nat) (v : St)        -- struct: Set<F>(v), primitive field (optional or not)
  | unset (i : Nat)                   -- struct: Unset<F>()
  | setPresent (i : Nat)              -- struct: Set<F>() of an optional composite field
  | setObj (i : Nat) (src : AS)       -- struct: Set<F>(v), dictionary-struct field
  | copyFrom (src : AS)               -- struct / oneof / multimap: CopyFrom(src)
  | setType (k : Nat)                 -- oneof: SetType(k)
  | setAlt (k : Nat) (v : St)         -- oneof: Set<Alt>(v), primitive alternative
  | ensureLen (n : Nat)               -- array / multimap: EnsureLen(n)
  | append (v : St)                   -- array of primitives: Append(v)
  | appendObj (src : AS)              -- array of structs: Append(v)
  | copyFromSlice (vs : List St)      -- array of primitives: CopyFromSlice(vs)
  | setKey (i : Nat) (v : St)         -- multimap: SetKey(i, v), primitive key
  | setValue (i : Nat) (v : St)       -- multimap: SetValue(i, v), primitive value
  | setKeyObj (i : Nat) (src : AS)    -- multimap: SetKey(i, k), dictionary-struct key
  | setValueObj (i : Nat) (src : AS)  -- multimap: SetValue(i, v), dictionary-struct value
  | appendKV (k v : St)               -- multimap of primitives: Append(k, v)
  deriving Inhabited

abbrev R := Except String

def optIdx (fds : List Field) (i : Nat) : Nat := optIndex fds i

/-- one call on the node itself -/
def applyOp (C : Ctx) (op : Op) (w : AS) : R (AS × Up) :=
  match op, w with
  | .setPrim i v, .struct n m p fr fs =>
    let fds := fieldsOf C n
    match fds[i]?, fs[i]? with
    | some fd, some (.prim cur) =>
      let oi := optIdx fds i
      if !stEq cur v || (fd.optional && !p.testBit oi) then
        let (m', u) := structRecv m i .direct
        .ok (.struct n m' (if fd.optional then p ||| 2 ^ oi else p) fr (setNth fs i (.prim v)), u)
      else .ok (w, .no)
    | _, _ => .error "setPrim: no such primitive field"
  | .unset i, .struct n m p fr fs =>
    let fds := fieldsOf C n
    match fds[i]?, fs[i]? with
    | some fd, some _ =>
      if !fd.optional then .error "unset: field is not optional" else
      let oi := optIdx fds i
      if p.testBit oi then
        let (m', u) := structRecv m i .direct
        .ok (.struct n m' (p ^^^ 2 ^ oi) fr fs, u)
      else .ok (w, .no)
    | _, _ => .error "unset: no such field"
  | .setPresent i, .struct n m p fr fs =>
    let fds := fieldsOf C n
    match fds[i]?, fs[i]? with
    | some fd, some cur =>
      if !fd.optional || isPrimTy fd.ty then .error "setPresent: not an optional composite field" else
      let oi := optIdx fds i
      if !p.testBit oi then
        let (m', u) := structRecv m i .direct
        let cur := match cur with | .nil => C.init fd.ty | c => c
        .ok (.struct n m' (p ||| 2 ^ oi) fr (setNth fs i (setModRec (resetAS C cur))), u)
      else .ok (w, .no)
    | _, _ => .error "setPresent: no such field"
  | .setObj i v, .struct n m p fr fs =>
    let fds := fieldsOf C n
    match fds[i]?, fs[i]? with
    | some fd, some cur =>
      if !C.isDictTy fd.ty then .error "setObj: not a dictionary-struct field" else
      let oi := optIdx fds i
      let absent := fd.optional && !p.testBit oi
      let p' := if fd.optional then p ||| 2 ^ oi else p
      if C.canBeShared v then
        if C.differs v cur || absent then
          let (m', u) := structRecv m i .direct
          .ok (.struct n m' p' fr (setNth fs i v), u)
        else .ok (w, .no)
      else
        let (m1, u1) := structRecv m i .direct
        let (cur1, m2, u2) : AS × Nat × Up :=
          if C.canBeShared cur then
            let (o, uo) := C.unshare fd.ty cur
            let (m2, u) := structRecv m1 i uo
            (o, m2, u)
          else (cur, m1, .no)
        let (cur2, uc) := C.copy cur1 v
        let (m3, u3) := structRecv m2 i uc
        if !C.isDictNode cur2 then .error "setObj: the field does not hold a dictionary struct" else
        .ok (.struct n m3 p' fr (setNth fs i cur2), (u1.join u2).join u3)
    | _, _ => .error "setObj: no such field"
  | .copyFrom src, .struct .. => .ok (C.copy w src)
  | .copyFrom src, .oneof .. => .ok (C.copy w src)
  | .copyFrom src, .mmap .. => .ok (C.copy w src)
  | .setType k, .oneof n t as =>
    if t ≠ k then
      if k = 0 then .ok (.oneof n 0 as, .direct) else
      let fds := fieldsOf C n
      match fds[k - 1]?, as[k - 1]? with
      | some fd, some cur =>
        -- s.typ = typ; resetContained(); allocate; setModifiedRecursively()
        if isPrimTy fd.ty then
          -- a primitive alternative shows its stale value
          (if isPrimAS cur then .ok (.oneof n k as, .direct) else .error "setType: not a primitive alternative")
        else
        let cur := resetAS C cur
        let cur := match cur with | .nil => C.init fd.ty | c => c
        .ok (.oneof n k (setNth as (k - 1) (setModRec cur)), .direct)
      | _, _ => .error "setType: no such alternative"
    else .ok (w, .no)
  | .setAlt k v, .oneof n t as =>
    match as[k - 1]? with
    | some (.prim cur) =>
      if k = 0 then .error "setAlt: alternative 0" else
      if t ≠ k || !stEq cur v then .ok (.oneof n k (setNth as (k - 1) (.prim v)), .direct) else .ok (w, .no)
    | _ => .error "setAlt: no such primitive alternative"
  | .ensureLen nl, .arr e es hid =>
    let (es', hid', u) := arrEnsureLen C e es hid nl
    .ok (.arr e es' hid', u)
  | .ensureLen nl, .mmap n ps hid k v ml =>
    let (ps', hid', k', v', ml', u) := mmEnsureLen C n ps hid k v ml nl
    .ok (.mmap n ps' hid' k' v' ml', u)
  | .append v, .arr e es hid =>
    if !isPrimTy e then .error "append: not an array of primitives" else
    -- e.markModified(); e.elems = append(e.elems, v): the next slot of the backing slice is overwritten
    .ok (.arr e (es ++ [.prim v]) hid.tail, .direct)
  | .appendObj v, .arr e es hid =>
    if !C.isStructTy e then .error "appendObj: not an array of structs" else
    if C.canBeShared v then .ok (.arr e (es ++ [v]) hid.tail, .direct)
    else
      -- EnsureLen(n + 1) (markModified; the next slot is exposed, reset, marked in full);
      -- (dictionary struct: a new element instead;) copy; setModifiedRecursively()
      let (ex, hid1) := expose 1 (C.init e) hid
      let slot := if C.isDictTy e then C.init e else setModRec (resetAS C (ex.headD (C.init e)))
      let (c, u2) := C.copy slot v
      .ok (.arr e (es ++ [setModRec c]) hid1, Up.direct.join u2)
  | .copyFromSlice vs, .arr e es hid =>
    if !isPrimTy e then .error "copyFromSlice: not an array of primitives" else
    let cur := es.map (fun a => match a with | .prim v => v | _ => St.oneof 0 none)
    if !stEqList cur vs then
      let (_, hid1, _) := arrEnsureLen C e es hid vs.length
      .ok (.arr e (vs.map AS.prim) hid1, .direct)
    else .ok (w, .no)
  | .setKey i x, .mmap n ps hid k v ml =>
    match ps[i]? with
    | some (.prim cur, b) =>
      if !stEq cur x then
        let (k', u) := trackerMark k (maskForIndex i)
        .ok (.mmap n (setNth ps i (.prim x, b)) hid k' v ml, u)
      else .ok (w, .no)
    | _ => .error "setKey: no primitive key at this index"
  | .setValue i x, .mmap n ps hid k v ml =>
    match ps[i]? with
    | some (a, .prim cur) =>
      if !stEq cur x then
        let (v', u) := trackerMark v (maskForIndex i)
        .ok (.mmap n (setNth ps i (a, .prim x)) hid k v' ml, u)
      else .ok (w, .no)
    | _ => .error "setValue: no primitive value at this index"
  | .setKeyObj i src, .mmap n ps hid k v ml =>
    if !C.isDictTy (mmapTys C n).1 then .error "setKeyObj: not a dictionary-struct key" else
    match ps[i]? with
    | some (a, b) =>
      let r := setDictElem C C.unshare (fun x => C.copy x src) (mmapTys C n).1 (maskForIndex i) a src k
      .ok (.mmap n (setNth ps i (r.1, b)) hid r.2.1 v ml, r.2.2)
    | none => .error "setKeyObj: index out of range"
  | .setValueObj i src, .mmap n ps hid k v ml =>
    if !C.isDictTy (mmapTys C n).2 then .error "setValueObj: not a dictionary-struct value" else
    match ps[i]? with
    | some (a, b) =>
      let r := setDictElem C C.unshare (fun x => C.copy x src) (mmapTys C n).2 (maskForIndex i) b src v
      .ok (.mmap n (setNth ps i (a, r.1)) hid k r.2.1 ml, r.2.2)
    | none => .error "setValueObj: index out of range"
  | .appendKV x y, .mmap n ps hid k v _ =>
    let (k', v') := changeLen k v ps.length (ps.length + 1)
    .ok (.mmap n (ps ++ [(.prim x, .prim y)]) hid.tail k' v' true, .loop)
  | _, _ => .error "operation does not fit the node"

/-- navigate along `path` and apply `f` there; every node on the way back processes the signal -/
def applyAt (C : Ctx) (f : AS → R (AS × Up)) : List Step → AS → R (AS × Up)
  | [], w => f w
  | .field i :: rest, .struct n m p fr fs =>
    match fs[i]? with
    | none => .error "nav: no such field"
    | some .nil => .error "nav: nil pointer"
    | some c => do
      if fr then throw "nav: frozen struct"
      if C.isDictNode c then throw "nav: into a dictionary struct"
      let (c', u) ← applyAt C f rest c
      let (m', u') := structRecv m i u
      .ok (.struct n m' p fr (setNth fs i c'), u')
  | .alt k :: rest, .oneof n t as =>
    match as[k - 1]? with
    | none => .error "nav: no such alternative"
    | some .nil => .error "nav: nil pointer"
    | some c => do
      if k = 0 then throw "nav: alternative 0"
      if C.isDictNode c then throw "nav: into a dictionary struct"
      let (c', u) ← applyAt C f rest c
      .ok (.oneof n t (setNth as (k - 1) c'), u)
  | .at i :: rest, .arr e es hid =>
    match es[i]? with
    | none => .error "nav: index out of range"
    | some c => do
      if C.isDictNode c then throw "nav: into a dictionary struct"
      let (c', u) ← applyAt C f rest c
      .ok (.arr e (setNth es i c') hid, u)
  | .key i :: rest, .mmap n ps hid k v ml =>
    match ps[i]? with
    | none => .error "nav: index out of range"
    | some (a, b) => do
      if C.isDictNode a then throw "nav: into a dictionary struct"
      let (a', u) ← applyAt C f rest a
      let (k', u') := trackerRecv k (maskForIndex i) u
      .ok (.mmap n (setNth ps i (a', b)) hid k' v ml, u')
  | .val i :: rest, .mmap n ps hid k v ml =>
    match ps[i]? with
    | none => .error "nav: index out of range"
    | some (a, b) => do
      if C.isDictNode b then throw "nav: into a dictionary struct"
      let (b', u) ← applyAt C f rest b
      let (v', u') := trackerRecv v (maskForIndex i) u
      .ok (.mmap n (setNth ps i (a, b')) hid k v' ml, u')
  | _, _ => .error "nav: step does not fit the node"

/-- a public API call: `path` from the record root, then the method -/
def call (C : Ctx) (path : List Step) (op : Op) (w : AS) : R AS :=
  (applyAt C (applyOp C op) path w).map (·.1)

/-- read-only navigation (sources of CopyFrom / Set<F>) -/
def getAt : List Step → AS → Option AS
  | [], w => some w
  | .field i :: rest, .struct _ _ _ _ fs => (fs[i]?).bind (getAt rest)
  | .alt k :: rest, .oneof _ _ as => if k = 0 then none else (as[k - 1]?).bind (getAt rest)
  | .at i :: rest, .arr _ es _ => (es[i]?).bind (getAt rest)
  | .key i :: rest, .mmap _ ps _ _ _ _ => (ps[i]?).bind (fun p => getAt rest p.1)
  | .val i :: rest, .mmap _ ps _ _ _ _ => (ps[i]?).bind (fun p => getAt rest p.2)
  | _, _ => none

/-! ## Write: the mark tree for `SpecEnc.encodeNode`, and the marks as `Encode` leaves them

  Follows the generated `Encode` methods over the column tree `Node`:
    * struct: `fieldMask = (mask | forceModifiedFields) & keepFieldMask`; modified, present fields are
      encoded; `mask = 0`. `force` lists the struct columns whose encoder was `Reset()` by a frame
      restart with RestartCodecs and has not encoded since.
    * dictionary struct: looked up BY VALUE in the writer's dictionary `wd` (`Cmp = 0` iff the visible
      values are equal): hit - RefNum, `setUnmodifiedRecursively`; miss - added, `setModifiedRecursively`,
      encoded in full.
    * oneof, array: the current alternative / every element.
    * multimap: empty - full form with count 0, marks NOT cleared; keys unmodified and len < 63 -
      values-only form; else full form; then `setUnmodifiedAll`. -/

/-- the writer's struct dictionaries: per dictionary the values in RefNum order (RefNum = index + 1) -/
abbrev WD := List (String × List AS)

structure WSt where
  wd : WD := []
  force : List Nat := []
  deriving Inhabited

def lookupWD (wd : WD) (dn : String) : List AS := lookupDict wd dn

mutual
def writeNode (C : Ctx) : Nat → List (String × Node) → Node → AS → WSt → Option (Mk × AS × WSt)
  | 0, _, _, _, _ => none
  | _ + 1, _, .prim _ _ _, w, s => some (.leaf, w, s)
  | fuel + 1, env, .recur key, w, s =>
    match env.find? (·.1 = key) with
    | none => none
    | some (_, n) => writeNode C fuel env n w s
  | fuel + 1, env, .struct col name dict kept optCount fields, w, s =>
    let env := (name, Node.struct col name dict kept optCount fields) :: env
    match w with
    | .struct n m p fr fs =>
      if n ≠ name ∨ fields.length ≠ fs.length then none else
      let full (m : Nat) (fs : List AS) (s : WSt) : Option (Mk × AS × WSt) :=
        let forced := if s.force.contains col then 2 ^ kept - 1 else 0
        let fieldMask := (m ||| forced) &&& (2 ^ kept - 1)
        let s := { s with force := s.force.erase col }
        match writeFields C fuel env fields 0 0 fieldMask p fs s with
        | none => none
        | some (subs, fs', s) => some (.struct fieldMask subs, .struct n 0 p fr fs', s)
      match dict with
      | none => full m fs s
      | some dn =>
        match (lookupWD s.wd dn).findIdx? (fun x => eqv C x w) with
        | some r => some (.ref (r + 1), setUnmodRec w, s)
        | none =>
          -- `dict.Add(val); val.setModifiedRecursively()`, then the full encoding. (The entry is
          -- recorded after the fields like `SpecEnc.encodeNode` does; the order only matters for a
          -- dictionary struct nested in itself, which stefc refuses.)
          match full (2 ^ fs.length - 1) (setModRecList fs) s with
          | none => none
          | some (mk, w', s) => some (mk, w', { s with wd := setDict s.wd dn (lookupWD s.wd dn ++ [w']) })
    | _ => none
  | fuel + 1, env, .oneof col name kept alts, w, s =>
    let env := (name, Node.oneof col name kept alts) :: env
    match w with
    | .oneof n t as =>
      if n ≠ name then none else
      let typ := if t > kept then 0 else t
      if typ = 0 then some (.oneof .leaf, w, s)
      else
        match alts[typ - 1]?, as[typ - 1]? with
        | some an, some a =>
          match writeNode C fuel env an a s with
          | none => none
          | some (sub, a', s) => some (.oneof sub, .oneof n t (setNth as (typ - 1) a'), s)
        | _, _ => none
    | _ => none
  | fuel + 1, env, .arr col key ety elem, w, s =>
    let env := (key, Node.arr col key ety elem) :: env
    match w with
    | .arr e es hid =>
      match writeElems C fuel env elem es s with
      | none => none
      | some (subs, es', s) => some (.arr subs, .arr e es' hid, s)
    | _ => none
  | fuel + 1, env, .mmap col name kty vty k v, w, s =>
    let env := (name, Node.mmap col name kty vty k v) :: env
    match w with
    | .mmap n ps hid km vm ml =>
      if n ≠ name then none else
      if ps.length = 0 then some (.mmapFull [], w, s)
      else if !(ml || km ≠ 0) && ps.length < 63 then
        let changed := vm % 2 ^ 63
        match writeVals C fuel env v changed 0 ps s with
        | none => none
        | some (subs, ps', s) =>
          some (if changed = 0 then .mmapSame else .mmapVals changed subs, .mmap n ps' hid 0 0 false, s)
      else
        match writePairs C fuel env k v ps s with
        | none => none
        | some (subs, ps', s) => some (.mmapFull subs, .mmap n ps' hid 0 0 false, s)
    | _ => none
termination_by structural fuel => fuel

def writeFields (C : Ctx) : Nat → List (String × Node) → List (Bool × Node) → Nat → Nat → Nat → Nat →
    List AS → WSt → Option (List Mk × List AS × WSt)
  | 0, _, _, _, _, _, _, _, _ => none
  | _ + 1, _, [], _, _, _, _, fs, s => some ([], fs, s)
  | fuel + 1, env, (opt, n) :: rest, idx, oi, mask, pres, fs, s =>
    let present := !opt || pres.testBit oi
    match fs with
    | [] => none
    | f :: fs' =>
      match (if mask.testBit idx && present then writeNode C fuel env n f s else some (.leaf, f, s)) with
      | none => none
      | some (sub, f', s) =>
        match writeFields C fuel env rest (idx + 1) (if opt then oi + 1 else oi) mask pres fs' s with
        | none => none
        | some (subs, fs'', s) => some (sub :: subs, f' :: fs'', s)
termination_by structural fuel => fuel

def writeElems (C : Ctx) : Nat → List (String × Node) → Node → List AS → WSt → Option (List Mk × List AS × WSt)
  | 0, _, _, _, _ => none
  | _ + 1, _, _, [], s => some ([], [], s)
  | fuel + 1, env, elem, e :: es, s =>
    match writeNode C fuel env elem e s with
    | none => none
    | some (sub, e', s) =>
      match writeElems C fuel env elem es s with
      | none => none
      | some (subs, es', s) => some (sub :: subs, e' :: es', s)
termination_by structural fuel => fuel

def writePairs (C : Ctx) : Nat → List (String × Node) → Node → Node → List (AS × AS) → WSt →
    Option (List (Mk × Mk) × List (AS × AS) × WSt)
  | 0, _, _, _, _, _ => none
  | _ + 1, _, _, _, [], s => some ([], [], s)
  | fuel + 1, env, k, v, (a, b) :: ps, s =>
    match writeNode C fuel env k a s with
    | none => none
    | some (ks, a', s) =>
      match writeNode C fuel env v b s with
      | none => none
      | some (vs, b', s) =>
        match writePairs C fuel env k v ps s with
        | none => none
        | some (subs, ps', s) => some ((ks, vs) :: subs, (a', b') :: ps', s)
termination_by structural fuel => fuel

def writeVals (C : Ctx) : Nat → List (String × Node) → Node → Nat → Nat → List (AS × AS) → WSt →
    Option (List Mk × List (AS × AS) × WSt)
  | 0, _, _, _, _, _, _ => none
  | _ + 1, _, _, _, _, [], s => some ([], [], s)
  | fuel + 1, env, v, changed, idx, (a, b) :: ps, s =>
    match (if idx < 64 && changed.testBit idx then writeNode C fuel env v b s else some (.leaf, b, s)) with
    | none => none
    | some (sub, b', s) =>
      match writeVals C fuel env v changed (idx + 1) ps s with
      | none => none
      | some (subs, ps', s) => some (sub :: subs, (a, b') :: ps', s)
termination_by structural fuel => fuel
end

def writeFuel : Nat := 100000

/-- `Write()`: the value and the mark tree handed to the encoder, the record state with the marks
    as `Encode` leaves them, the writer's dictionary / forced-mask state. -/
def write (C : Ctx) (root : Node) (w : AS) (s : WSt) : Option (St × Mk × AS × WSt) :=
  match writeNode C writeFuel [] root w s with
  | none => none
  | some (mk, w', s') => some (vis C w, mk, w', s')

/-- all struct columns of the tree (`encoder.Reset()` sets forceModifiedFields in every struct encoder) -/
def structCols : Nat → Node → List Nat
  | 0, _ => []
  | _ + 1, .recur _ => []
  | fuel + 1, n =>
    let own := match n with | .struct c _ _ _ _ _ => [c] | _ => []
    own ++ (nodeKids n).flatMap (structCols fuel)

/-- a frame restart with flags `flags` after a Write: RestartDictionaries clears the writer's
    dictionaries, RestartCodecs forces the next full mask of every struct encoder -/
def restart (root : Node) (flags : Nat) (s : WSt) : WSt :=
  let s := if flags % 2 = 1 then { s with wd := [] } else s
  if (flags / 4) % 2 = 1 then { s with force := structCols 10000 root } else s

/-- the root struct's modified mask (`Is<F>Modified()` bits) -/
def rootMask : AS → Nat
  | .struct _ m _ _ _ => m
  | _ => 0

/-! ## Histories: API calls, Write, frames -/

/-- the API calls made between two Writes: navigation path + method -/
abbrev Calls := List (List Step × Op)

def applyCalls (C : Ctx) : Calls → AS → R AS
  | [], w => .ok w
  | (path, op) :: rest, w =>
    match call C path op w with
    | .error e => .error e
    | .ok w' => applyCalls C rest w'

/-- the records of one frame: for each record the calls made since the previous Write, then Write().
    Returns what goes to the encoder (value and marks per record), the record as each Write leaves it,
    the final record and writer state. -/
def runFrame (C : Ctx) (root : Node) : List Calls → AS → WSt → Option (List (St × Mk) × List AS × AS × WSt)
  | [], w, s => some ([], [], w, s)
  | cs :: rest, w, s =>
    match applyCalls C cs w with
    | .error _ => none
    | .ok w1 =>
      match write C root w1 s with
      | none => none
      | some (new, mk, w2, s2) =>
        match runFrame C root rest w2 s2 with
        | none => none
        | some (recs, ws, w3, s3) => some ((new, mk) :: recs, w2 :: ws, w3, s3)

/-- frames: the restart flags of a frame act before its first record (dictionaries cleared,
    full masks forced), as the reader applies them at the start of the frame -/
def runFrames (C : Ctx) (root : Node) : List (Nat × List Calls) → AS → WSt →
    Option (List (Nat × List (St × Mk)) × List (List AS) × AS × WSt)
  | [], w, s => some ([], [], w, s)
  | (flags, recs) :: rest, w, s =>
    match runFrame C root recs w (restart root flags s) with
    | none => none
    | some (rm, ws, w1, s1) =>
      match runFrames C root rest w1 s1 with
      | none => none
      | some (fs, wss, w2, s2) => some ((flags, rm) :: fs, ws :: wss, w2, s2)

/-! ## A reader's record as a source of CopyFrom / Set<F>

  Only what a copy reads matters: the values (hidden ones of absent optional composites included),
  and which dictionary structs are frozen. A dictionary struct of a reader's record is frozen iff it
  was decoded at least once (it then is a dictionary entry); one that no record ever carried is
  still the owned value `Init()` made. `rdApply` replays one decoded record (value + marks recovered
  by `SpecEnc.decodeNodeM`) on the reader's record. -/

/-- a decoded value as a state, every struct frozen (used below dictionary structs) -/
def ofSt (C : Ctx) : Nat → Ty → St → AS
  | 0, _, _ => .nil
  | _ + 1, .prim _ _, v => .prim v
  | fuel + 1, .arr e, st => .arr e ((arrElems st).map (ofSt C fuel e)) []
  | fuel + 1, .ref n, st =>
    match C.σ.find n with
    | some (.struct _ fs) =>
      let vals := structFields st
      .struct n 0 (structPres st) true ((List.zip fs (vals ++ List.replicate (fs.length - vals.length) (St.oneof 0 none))).map
        fun (fd, v) =>
          match isPrimTy fd.ty, fd.optional, v with
          | true, _, v => AS.prim v
          | false, true, .oneof 0 none => freezeAS (C.init fd.ty)
          | false, _, v => ofSt C fuel fd.ty v)
    | some (.oneof fs) =>
      match C.init (.ref n), st with
      | .oneof _ _ alts, .oneof t (some v) =>
        (match fs[t - 1]? with
         | some fd => if t = 0 then .oneof n 0 alts else .oneof n t (alts.set (t - 1) (ofSt C fuel fd.ty v))
         | none => .oneof n 0 alts)
      | i, _ => i
    | some (.mmap k v) =>
      .mmap n ((mmapPairs st).map (fun p => (ofSt C fuel k p.1, ofSt C fuel v p.2))) [] 0 0 false
    | none => .nil

def asArr : AS → List AS × List AS
  | .arr _ es hid => (es, hid)
  | _ => ([], [])

def asPairs : AS → List (AS × AS) × List (AS × AS)
  | .mmap _ ps hid _ _ _ => (ps, hid)
  | _ => ([], [])

def rdApply (C : Ctx) : Nat → Ty → AS → St → Mk → AS
  | 0, _, prev, _, _ => prev
  | _ + 1, .prim _ _, _, st, _ => .prim st
  | fuel + 1, .arr e, prev, st, mk =>
    let (pes, phid) := asArr prev
    let es := arrElems st
    let subs := match mk with | .arr subs => subs | _ => []
    let new := (List.zip (List.zip es (List.range es.length)) (subs ++ List.replicate (es.length - subs.length) Mk.leaf)).map
      fun ((v, i), sub) =>
        let pe := match pes[i]? with
          | some a => a
          | none => if C.isDictTy e then C.emptyOf e else
              (match phid[i - pes.length]? with | some a => resetAS C a | none => C.init e)
        rdApply C fuel e pe v sub
    .arr e new (if es.length ≤ pes.length then pes.drop es.length ++ phid else phid.drop (es.length - pes.length))
  | fuel + 1, .ref n, prev, st, mk =>
    match C.σ.find n with
    | some (.struct d fs) =>
      if d.isSome then ofSt C initFuelA (.ref n) st
      else
        match prev, mk with
        | .struct _ _ pp _ pfs, .struct mask subs =>
          let vals := structFields st
          let pres := structPres st
          let fields := (List.zip (List.zip fs (List.range fs.length)) pfs).map fun ((fd, i), pf) =>
            let oi := optIndex fs i
            let present := !fd.optional || pres.testBit oi
            if mask.testBit i && present then
              let pf' := if fd.optional && !isPrimTy fd.ty && !pp.testBit oi then
                  (match pf with | .nil => C.init fd.ty | a => resetAS C a) else pf
              rdApply C fuel fd.ty pf' (vals.getD i (St.oneof 0 none)) (subs.getD i Mk.leaf)
            else pf
          .struct n mask pres false fields
        | p, _ => p
    | some (.oneof fs) =>
      match prev, st, mk with
      | .oneof _ pt palts, .oneof t (some v), .oneof sub =>
        if t = 0 then .oneof n 0 palts else
        (match fs[t - 1]? with
         | some fd =>
           let pa := palts.getD (t - 1) .nil
           let pa := if pt = t then pa else (match pa with | .nil => C.init fd.ty | a => if isPrimTy fd.ty then a else resetAS C a)
           .oneof n t (palts.set (t - 1) (rdApply C fuel fd.ty pa v sub))
         | none => prev)
      | .oneof _ _ palts, _, _ => .oneof n 0 palts
      | p, _, _ => p
    | some (.mmap kt vt) =>
      let (pps, phid) := asPairs prev
      let ps := mmapPairs st
      match mk with
      | .mmapFull subs =>
        let new := (List.zip (List.zip ps (List.range ps.length)) (subs ++ List.replicate (ps.length - subs.length) (Mk.leaf, Mk.leaf))).map
          fun ((p, i), sub) =>
            let pp : AS × AS := match pps[i]? with
              | some x => x
              | none =>
                (match phid[i - pps.length]? with
                 | some (a, b) => (if isPrimTy kt then a else resetAS C a, if isPrimTy vt then b else resetAS C b)
                 | none => (C.init kt, C.init vt))
            (rdApply C fuel kt pp.1 p.1 sub.1, rdApply C fuel vt pp.2 p.2 sub.2)
        .mmap n new (if ps.length ≤ pps.length then pps.drop ps.length ++ phid else phid.drop (ps.length - pps.length)) 0 0 false
      | .mmapVals changed subs =>
        let new := (List.zip (List.zip pps (List.range pps.length)) (List.zip (ps.map (·.2)) (subs ++ List.replicate (pps.length - subs.length) Mk.leaf))).map
          fun ((pp, i), (v, sub)) =>
            if i < 64 && changed.testBit i then (pp.1, rdApply C fuel vt pp.2 v sub) else pp
        .mmap n new phid 0 0 false
      | _ => prev
    | none => prev

end Stef.Api
