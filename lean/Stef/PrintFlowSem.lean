/-
  Stef.PrintFlowSem: the (hand-written) target vocabulary of the `PrintFlow` generator of /verif/extract
  (extract/printflow.go). The generator translates, statement by statement and in source order,
    go/pkg/schema/schema.go          Schema.PrettyPrint, sortedList, prettyPrintEnum, prettyPrintMultimap,
                                     prettyPrintStruct, prettyPrintStructField, prettyPrintFieldType
    go/pkg/schema/wireschema.go      NewWireSchema, (*WireSchema).setStructCountsFromTree
    go/pkg/schema/structcounttree.go schemaToStructCountTree
  into the definitions of Stef/Gen/PrintFlow.lean. Nothing here says WHAT those functions do; this file
  fixes how Go DATA and Go LIBRARY calls are read. Core Lean only.

  Data (the representation of Stef/Schema.lean, viewed through Go's field names):
  * a `string` is a `Name` (= `List Char`, the bytes of the Go string); string literals are spelled out by
    the generator character by character; `a + b` / `a += b` on strings is `++`;
  * `*Schema`, `*Struct`, `*StructField`, `*Multimap`, `*Enum`, `EnumField` are the structures of
    Stef/Schema.lean; pointers to them that the code receives as parameters or finds in slices are non-nil;
  * `map[string]*T` (Schema.Structs / Multimaps / Enums) is the list of its values, keyed by their `.Name`
    (class `Keyed`): `range` over it delivers the keys in list order (Go: an unspecified order - the
    generator accepts such a loop only when all it does is collect the keys into a slice that is sorted
    by the next statement), `m[k]` is `mapGet` (nil when absent);
  * `FieldType` is `FType`: `.base b` carries the slots Primitive / Struct / MultiMap / Enum / DictName of a
    Go value whose `Array` is nil, `.array e d r` is a value with `Array != nil` (element type `.base e`,
    own DictName `d`) whose other slots are empty (what the parser builds). `ft.Array` is
    `Option (ArrayType ft)`: the element type together with the fact that it is smaller than `ft`,
    which is what lets Lean accept the recursion of `prettyPrintFieldType`;
  * `ft.StructDef` / `ft.MultimapDef` (pointers into the schema that `ResolveRefs` set) are lookups by name
    in the schema `σ` the value belongs to (`goStructDef σ`, `goMultimapDef σ`): non-nil exactly when the
    name slot is set and names a definition of `σ` (Stef/Schema.lean, third bullet). Functions that follow
    these pointers therefore get `σ` as an extra first parameter;
  * `map[string]bool` used as a set (`recurseStack.asMap`): the list of keys mapped to `true`
    (`setTrue` = add if absent, `delete` removes every occurrence, a read is `contains`);
  * `uint(len(x))` is `x.length` (counts are `Nat`, no overflow: a slice is shorter than 2^63).

  Control: printer functions are pure (`Id.run do`). The wire-schema functions run in `Except GErr`: a Go
  `panic(msg)`, a nil dereference and a slice bound error are distinct errors; a RECURSIVE function whose
  recursion is not structural gets a fuel parameter (`outOfFuel` when it runs out; Go has no such thing -
  theorems about the regenerated functions are stated for results other than `outOfFuel`, and
  `Proofs/PrintFlowGen` shows which fuel is enough).
  A pointer parameter the callee writes through (`dst *[]structCountTree`, `stack *recurseStack`,
  the receiver `w *WireSchema`) is passed by value and the new pointee is returned next to the result;
  the caller assigns it back to the variable whose address it passed (sound because the pointer
  parameters of one call have different types, so they cannot alias).
-/
import Stef.SchemaPrint

namespace Stef.PrintFlowSem
open Stef.Idl

/-! ## FieldType through Go's field names -/

def _root_.Stef.Idl.FType.rank : FType → Nat
  | .base _ => 0
  | .array _ _ _ => 1

/-- `*ArrayType` reached from the FieldType `parent`. -/
structure ArrayType (parent : FType) where
  elemType : FType
  lt : elemType.rank < parent.rank

def _root_.Stef.Idl.FType.goArray : (ft : FType) → Option (ArrayType ft)
  | .base _ => none
  | .array e _ _ => some ⟨.base e, by simp [FType.rank]⟩

def _root_.Stef.Idl.FType.goPrimitive : FType → Option Prim
  | .base b => b.prim
  | .array _ _ _ => none

def _root_.Stef.Idl.FType.goStruct : FType → Name
  | .base b => b.struct
  | .array _ _ _ => []

def _root_.Stef.Idl.FType.goMultiMap : FType → Name
  | .base b => b.multimap
  | .array _ _ _ => []

def _root_.Stef.Idl.FType.goEnum : FType → Name
  | .base b => b.enum
  | .array _ _ _ => []

def _root_.Stef.Idl.FType.goDictName : FType → Name
  | .base b => b.dict
  | .array _ d _ => d

/-- `ft.StructDef` in schema `σ`. -/
def _root_.Stef.Idl.FType.goStructDef (σ : Schema) (ft : FType) : Option Struct :=
  if ft.goStruct ≠ [] then σ.findStruct ft.goStruct else none

/-- `ft.MultimapDef` in schema `σ`. -/
def _root_.Stef.Idl.FType.goMultimapDef (σ : Schema) (ft : FType) : Option Multimap :=
  if ft.goMultiMap ≠ [] then σ.findMultimap ft.goMultiMap else none

/-! ## maps keyed by name, sorting, joining, formatting -/

class Keyed (α : Type) where
  key : α → Name

instance : Keyed Struct := ⟨(·.name)⟩
instance : Keyed Multimap := ⟨(·.name)⟩
instance : Keyed Enum := ⟨(·.name)⟩

/-- the keys a `for k := range m` delivers (in the model: list order). -/
def mapKeys {α : Type} [Keyed α] (m : List α) : List Name := m.map Keyed.key

/-- `m[k]` for `map[string]*T`: nil when absent. -/
def mapGet {α : Type} [Keyed α] (m : List α) (k : Name) : Option α := m.find? (fun x => Keyed.key x = k)

/-- `append(s, p)` for `s []*T` and a pointer read from a map: the model's slices hold values, a nil
    pointer (a key that is not in the map) has no representation and is dropped. The only accepted
    use indexes the map with its own keys. -/
def appendPtr {α : Type} (s : List α) (p : Option α) : List α := s ++ p.toList

/-- `sort.Strings`: ascending in Go's string order (bytewise), as insertion sort. -/
def sortStrings (l : List Name) : List Name := sortBy (fun n => n) l

/-- `strings.Join(elems, sep)` -/
def stringsJoin (elems : List Name) (sep : Name) : Name := joinWith sep elems

/-- `%d` of an unsigned 64-bit value. -/
def fmtUint (n : Nat) : Name := natToDec n

/-! ## the wire-schema half -/

inductive GErr
  | panic (msg : Name)       -- `panic("...")`
  | nilDeref                 -- field access through a nil pointer
  | sliceBounds              -- `s[:len(s)-1]` on an empty slice
  | outOfFuel                -- not a Go outcome (see the header)
  deriving DecidableEq, Repr

/-- `structCountTree` -/
inductive StructCountTree
  | mk (structName : Name) (fieldCount : Nat) (structFields : List StructCountTree)
  deriving Repr, Inhabited

def StructCountTree.structName : StructCountTree → Name | .mk n _ _ => n
def StructCountTree.fieldCount : StructCountTree → Nat | .mk _ c _ => c
def StructCountTree.structFields : StructCountTree → List StructCountTree | .mk _ _ f => f
def StructCountTree.setStructFields : StructCountTree → List StructCountTree → StructCountTree
  | .mk n c _, f => .mk n c f

/-- `recurseStack` (the `fields` slot is not used by the translated functions). -/
structure RecurseStack where
  asStack : List Name := []
  asMap : List Name := []
  deriving DecidableEq, Repr, Inhabited

/-- `m[k]` for `map[string]bool` -/
def setGet (m : List Name) (k : Name) : Bool := m.contains k
/-- `m[k] = true` -/
def setTrue (m : List Name) (k : Name) : List Name := if m.contains k then m else k :: m
/-- `delete(m, k)` -/
def setDelete (m : List Name) (k : Name) : List Name := m.filter (· != k)

/-- `WireSchema` -/
structure WireSchemaV where
  structCounts : List Nat := []
  deriving DecidableEq, Repr, Inhabited

/-- fuel a non-recursive caller gives `schemaToStructCountTree`: every level of the recursion either enters a
    struct / multimap that is not on the stack or steps from an array to its element type. -/
def schemaFuel (σ : Schema) : Nat := 2 * (σ.structs.length + σ.multimaps.length + 1) + 1

def StructCountTree.depth : StructCountTree → Nat
  | .mk _ _ cs => depthList cs + 1
where depthList : List StructCountTree → Nat
  | [] => 0
  | c :: cs => max c.depth (depthList cs)

/-- fuel a non-recursive caller gives `setStructCountsFromTree`. -/
def treeFuel (t : StructCountTree) : Nat := t.depth

/-- `s[:len(s)-1]` -/
def dropLastE {α : Type} (s : List α) : Except GErr (List α) :=
  if s.length = 0 then .error .sliceBounds else .ok s.dropLast

/-- use of a possibly nil pointer -/
def deref {α : Type} : Option α → Except GErr α
  | some a => .ok a
  | none => .error .nilDeref

end Stef.PrintFlowSem
