/-
  Stef.WireSerdeSem: the (hand-written) target vocabulary of the `WireSerde` generator of
  /verif/extract (extract/wireserde.go). The generator translates the Go statements of
  `WireSchema.Serialize`, `WireSchema.Deserialize`, `NewWireSchemaIter`,
  `WireSchemaIter.NextFieldCount`, `WireSchemaIter.Done` (go/pkg/schema/wireschema.go) and of
  `internal.WriteUvarint` (go/pkg/internal/serde.go) one by one into `do` blocks of the monad `M`
  below (Stef/Gen/WireSerde.lean); nothing here says WHAT those functions do. Core Lean only.

  The objects the translated functions reach through pointers form one `Heap`:
    * `counts` = `w.structCounts` of the receiver `*WireSchema` (for the iterator: of `i.schema`),
    * `buf`    = the contents of the `*bytes.Buffer` parameter (`dst`),
    * `src`    = the bytes the `io.ByteReader` parameter (`src`) will still deliver,
    * `idx`    = `i.structIdx` of the receiver `*WireSchemaIter`.
  A Go function body is a computation `M ρ ρ` (run on a heap with `.run`) (`ρ` = its result type): a statement either goes on
  (`next`), returns from the function (`ret`, with the heap as it is at that point) or panics.
  Go locals are immutable `let`s (the generator refuses assignments to a local from a nested
  block), Go `uint`/`uintN` values are `Nat`s (conversions wrap explicitly: `wrap`, `ofInt`),
  Go `int` is `Int` (unbounded; `toInt` is the two's complement conversion from 64 bit).
  `uint` and `int` are taken to be 64 bit wide (amd64/arm64).

  Library calls (trusted as modelled here): `binary.AppendUvarint` = `Stef.Idl.uvarint`,
  `binary.ReadUvarint` = `readUvarintFull` (proved equal to the hand model's
  `Stef.Idl.readUvarint` in Proofs/WireSerdeGen, it also gives the partial value and the rest of
  the input in the error cases), `(*bytes.Buffer).Write` appends and returns a nil error,
  `make([]T, n)` gives n zeroes and panics for n < 0, indexing panics out of range.
-/
import Stef.WireSchema

namespace Stef.WireSerdeSem
open Stef.Idl (RErr)

/-- Go error values the translated functions can return. -/
inductive GoErr
  | eof | unexpectedEof | overflow     -- io.EOF, io.ErrUnexpectedEOF, encoding/binary's overflow error
  | pkgVar (name : String)             -- the value of a package-level `var name = errors.New(..)`
  | new (msg : String)                 -- `errors.New(msg)` made at the place of use
  deriving DecidableEq, Repr

/-- `error`: `none` = nil. -/
abbrev Err := Option GoErr

def GoErr.ofRErr : RErr → GoErr
  | .eof => .eof
  | .unexpectedEof => .unexpectedEof
  | .overflow => .overflow
  | .limit => .pkgVar "errStructCountLimit"

structure Heap where
  counts : List Nat := []
  buf : List Nat := []
  src : List Nat := []
  idx : Int := 0
  deriving DecidableEq, Repr

inductive Out (ρ α : Type) where
  | next (a : α) (h : Heap)      -- the statement is done, control goes on
  | ret (r : ρ) (h : Heap)       -- `return r`
  | panic
  deriving DecidableEq, Repr

structure M (ρ α : Type) where
  run : Heap → Out ρ α

def M.pure {ρ α : Type} (a : α) : M ρ α := ⟨fun h => .next a h⟩

def M.bind {ρ α β : Type} (m : M ρ α) (f : α → M ρ β) : M ρ β := ⟨fun h =>
  match m.run h with
  | .next a h' => (f a).run h'
  | .ret r h' => .ret r h'
  | .panic => .panic⟩

instance {ρ : Type} : Monad (M ρ) where
  pure := M.pure
  bind := M.bind

/-- `return r` -/
def ret {ρ α : Type} (r : ρ) : M ρ α := ⟨fun h => .ret r h⟩

/-- a call of a translated function: its `return` is the value of the call. -/
def call {ρ ρ' : Type} (f : M ρ' ρ') : M ρ ρ' := ⟨fun h =>
  match f.run h with
  | .next a h' => .next a h'
  | .ret a h' => .next a h'
  | .panic => .panic⟩

/-- `for _, x := range xs { body }` (the slice is evaluated once, as in Go). -/
def forEachRun {ρ β : Type} (xs : List β) (body : β → M ρ Unit) (h : Heap) : Out ρ Unit :=
  match xs with
  | [] => .next () h
  | x :: rest =>
    match (body x).run h with
    | .next _ h' => forEachRun rest body h'
    | .ret r h' => .ret r h'
    | .panic => .panic

def forEach {ρ β : Type} (xs : List β) (body : β → M ρ Unit) : M ρ Unit := ⟨forEachRun xs body⟩

/-- `k` more rounds of a counting loop that is at `i`. -/
def forFrom {ρ : Type} (k : Nat) (i : Int) (body : Int → M ρ Unit) (h : Heap) : Out ρ Unit :=
  match k with
  | 0 => .next () h
  | k + 1 =>
    match (body i).run h with
    | .next _ h' => forFrom k (i + 1) body h'
    | .ret r h' => .ret r h'
    | .panic => .panic

/-- `for i := 0; i < n; i++ { body }` where `n` does not change and the body does not assign `i`
    (both checked by the generator): `max n 0` rounds. -/
def forLt {ρ : Type} (n : Int) (body : Int → M ρ Unit) : M ρ Unit := ⟨forFrom n.toNat 0 body⟩

/-! ### the heap -/

def getCounts {ρ : Type} : M ρ (List Nat) := ⟨fun h => .next h.counts h⟩
def setCounts {ρ : Type} (cs : List Nat) : M ρ Unit := ⟨fun h => .next () { h with counts := cs }⟩

/-- `X.structCounts[i]` (read) -/
def getCount {ρ : Type} (i : Int) : M ρ Nat := ⟨fun h =>
  if 0 ≤ i ∧ i < h.counts.length then .next (h.counts.getD i.toNat 0) h else .panic⟩

/-- `X.structCounts[i] = v` -/
def setCount {ρ : Type} (i : Int) (v : Nat) : M ρ Unit := ⟨fun h =>
  if 0 ≤ i ∧ i < h.counts.length then .next () { h with counts := h.counts.set i.toNat v } else .panic⟩

def getIdx {ρ : Type} : M ρ Int := ⟨fun h => .next h.idx h⟩
def setIdx {ρ : Type} (v : Int) : M ρ Unit := ⟨fun h => .next () { h with idx := v }⟩

/-- `make([]T, n)` for the element type of `structCounts` -/
def makeCounts {ρ : Type} (n : Int) : M ρ (List Nat) := ⟨fun h =>
  if n < 0 then .panic else .next (List.replicate n.toNat 0) h⟩

/-! ### values -/

/-- `len(x)` -/
def len {α : Type} (l : List α) : Int := l.length

/-- conversion of an unsigned value to `uintN` -/
def wrap (bits : Nat) (x : Nat) : Nat := x % 2 ^ bits

/-- conversion of an `int` to `uintN` -/
def ofInt (bits : Nat) (x : Int) : Nat := (x % (2 ^ bits : Nat)).toNat

/-- conversion of an unsigned value to `int` (64 bit two's complement) -/
def toInt (x : Nat) : Int :=
  if x % 2 ^ 64 < 2 ^ 63 then (x % 2 ^ 64 : Nat) else (x % 2 ^ 64 : Nat) - (2 ^ 64 : Nat)

/-! ### library -/

/-- `binary.AppendUvarint(b, v)` for a `uint64` value `v`. -/
def appendUvarint (b : List Nat) (v : Nat) : List Nat := b ++ Stef.Idl.uvarint v

/-- `dst.Write(b)` on a `*bytes.Buffer`: appends, returns `len(b), nil`. -/
def bufWrite {ρ : Type} (b : List Nat) : M ρ (Int × Err) := ⟨fun h =>
  .next (len b, none) { h with buf := h.buf ++ b }⟩

/-- `binary.ReadUvarint` as written in encoding/binary/varint.go, with everything it returns:
    (value - the partial accumulator in the error cases -, error, bytes left in the reader).
    `f` = rounds left of the `MaxVarintLen64` loop, `i` = bytes read, `x` accumulator, `s` shift. -/
def readUvarintFull : Nat → Nat → Nat → Nat → List Nat → Nat × Option RErr × List Nat
  | 0, _, x, _, bs => (x % 2 ^ 64, some .overflow, bs)
  | f + 1, i, x, s, bs =>
    match bs with
    | [] => (x % 2 ^ 64, some (if i > 0 then .unexpectedEof else .eof), [])
    | b :: rest =>
      if b < 128 then
        if i = 9 && b > 1 then (x % 2 ^ 64, some .overflow, rest)
        else ((x ||| (b <<< s)) % 2 ^ 64, none, rest)
      else readUvarintFull f (i + 1) (x ||| ((b % 128) <<< s)) (s + 7) rest

/-- `binary.ReadUvarint(src)` on the reader of the heap. -/
def readUvarint {ρ : Type} : M ρ (Nat × Err) := ⟨fun h =>
  match readUvarintFull 10 0 0 0 h.src with
  | (x, e, rest) => .next (x, e.map GoErr.ofRErr) { h with src := rest }⟩

/-! ### values of the iterator constructor -/

/-- what a `*WireSchema` field of a composite literal is initialised with. -/
inductive Ref | param | other
  deriving DecidableEq, Repr

/-- `WireSchemaIter{schema: .., structIdx: ..}` -/
structure IterVal where
  schema : Ref
  structIdx : Int
  deriving DecidableEq, Repr

end Stef.WireSerdeSem
