/-
  Stef.WireSchema: go/pkg/schema/wireschema.go + structcounttree.go, and the order in which the
  GENERATED encoders/decoders consume the wire schema (stefc/templates/go/struct.go.tmpl,
  oneof.go.tmpl, multimap.go.tmpl, array.go.tmpl, common.go.tmpl). Core Lean only.

  * `wire σ root` = `NewWireSchema(schema, root)`: the pre-order list of struct field counts.
    Go builds a `structCountTree` and flattens it in pre-order (`setStructCountsFromTree`);
    a node is appended to its parent's children in the order the fields are visited, so the
    flattened list is the list of counts in order of FIRST ENTRY. The model emits at entry.
    The two cut rules are as written: a struct name stays in `asMap` for ever ("seen"), a
    multimap name is deleted on exit ("on the stack").
  * `serialize` / `deserialize` = `WireSchema.Serialize/Deserialize` (`binary.AppendUvarint`,
    `binary.ReadUvarint` including its overflow rule, `maxStructCount`).
  * `initCounts σ root` = the generated `Init`: each struct/oneof encoder first asks
    `StructFieldCounts.<X>FieldCount()` (which consumes the next wire count only on the first
    call for X), then initialises its field encoders in field order; a field whose encoder type
    is currently being initialised (`state.<T>Encoder != nil`) is not descended into; array
    encoders of non-primitive elements and multimap encoders mark themselves the same way.
-/
import Stef.Schema
import Stef.Gen.Consts

namespace Stef.Idl

/-! ## NewWireSchema -/

structure WSt where
  asMap : List Name := []
  out : List (Name × Nat) := []       -- (struct name, field count) in order of first entry
  deriving DecidableEq, Repr, Inhabited

inductive WErr | unknownFieldType | nilRoot | outOfFuel
  deriving DecidableEq, Repr

def wsFields (rec : BaseType → WSt → Except WErr WSt) : List FType → WSt → Except WErr WSt
  | [], st => .ok st
  | ty :: rest, st =>
    match rec ty.inner st with
    | .error e => .error e
    | .ok st' => wsFields rec rest st'

/-- `schemaToStructCountTree` on a non-array type (arrays forward to the element type). -/
def wsType (σ : Schema) : Nat → BaseType → WSt → Except WErr WSt
  | 0, _, _ => .error .outOfFuel
  | fuel + 1, b, st =>
    if b.prim.isSome then .ok st
    else if b.struct ≠ [] then
      match σ.findStruct b.struct with
      | none => .error .unknownFieldType       -- StructDef == nil: falls through to `default`
      | some s =>
        if st.asMap.contains s.name then .ok st
        else wsFields (wsType σ fuel) s.types
               { asMap := s.name :: st.asMap, out := st.out ++ [(s.name, s.fields.length)] }
    else if b.multimap ≠ [] then
      match σ.findMultimap b.multimap with
      | none => .error .unknownFieldType
      | some m =>
        if st.asMap.contains m.name then .ok st
        else match wsFields (wsType σ fuel) m.types { st with asMap := m.name :: st.asMap } with
          | .error e => .error e
          | .ok st' => .ok { st' with asMap := st'.asMap.erase m.name }
    else .error .unknownFieldType

def wsFuel (σ : Schema) : Nat := σ.structs.length + σ.multimaps.length + 1

/-- `NewWireSchema`: names and counts. -/
def wireEntries (σ : Schema) (root : Name) : Except WErr (List (Name × Nat)) :=
  match σ.findStruct root with
  | none => .error .nilRoot
  | some r =>
    match wsFields (wsType σ (wsFuel σ)) r.types
            { asMap := [r.name], out := [(r.name, r.fields.length)] } with
    | .error e => .error e
    | .ok st => .ok st.out

def wire (σ : Schema) (root : Name) : Except WErr (List Nat) :=
  (wireEntries σ root).map (·.map (·.2))

/-! ## Serialize / Deserialize -/

/-- `binary.AppendUvarint` (value below 2^64). -/
def putUvarint : Nat → Nat → List Nat
  | 0, _ => []
  | f + 1, v => if v < 128 then [v] else (v % 128 + 128) :: putUvarint f (v / 128)

def uvarint (v : Nat) : List Nat := putUvarint 10 v

inductive RErr | eof | unexpectedEof | overflow | limit
  deriving DecidableEq, Repr

/-- `binary.ReadUvarint`: `i` bytes read so far, accumulator `x`, shift `s`. -/
def readUvarintGo : Nat → Nat → Nat → Nat → List Nat → Except RErr (Nat × List Nat)
  | 0, _, _, _, _ => .error .overflow                    -- loop ran MaxVarintLen64 times
  | f + 1, i, x, s, bs =>
    match bs with
    | [] => .error (if i > 0 then .unexpectedEof else .eof)
    | b :: rest =>
      if b < 128 then
        if i = 9 && b > 1 then .error .overflow
        else .ok ((x ||| (b <<< s)) % 2 ^ 64, rest)
      else readUvarintGo f (i + 1) (x ||| ((b % 128) <<< s)) (s + 7) rest

def readUvarint (bs : List Nat) : Except RErr (Nat × List Nat) := readUvarintGo 10 0 0 0 bs

/-- `WireSchema.Serialize` -/
def serialize (counts : List Nat) : List Nat :=
  uvarint counts.length ++ (counts.map uvarint).flatten

def readCounts : Nat → List Nat → Except RErr (List Nat)
  | 0, _ => .ok []
  | n + 1, bs =>
    match readUvarint bs with
    | .error e => .error e
    | .ok (v, rest) =>
      match readCounts n rest with
      | .error e => .error e
      | .ok vs => .ok (v :: vs)

/-- `WireSchema.Deserialize` -/
def deserialize (bs : List Nat) : Except RErr (List Nat) :=
  match readUvarint bs with
  | .error e => .error e
  | .ok (count, rest) =>
    if count > Stef.Gen.maxStructCount then .error .limit
    else readCounts count rest

/-! ## The generated `Init` order -/

structure ISt where
  onStack : List Name := []           -- `state.<T>Encoder != nil`
  fetched : List Name := []           -- `StructFieldCounts.count<X> != math.MaxUint`
  out : List (Name × Nat) := []       -- counts consumed from the wire schema, in order
  deriving DecidableEq, Repr, Inhabited

def arrayKey (elem : Name) : Name := '[' :: ']' :: elem

def initFields (rec : FType → ISt → Except WErr ISt) : List FType → ISt → Except WErr ISt
  | [], st => .ok st
  | ty :: rest, st =>
    match rec ty st with
    | .error e => .error e
    | .ok st' => initFields rec rest st'

/-- the name of the encoder type of a non-primitive field type (`.Type.EncoderType`). -/
def encoderKey : FType → Name
  | .base b => if b.struct ≠ [] then b.struct else b.multimap
  | .array e _ _ => arrayKey (if e.struct ≠ [] then e.struct else e.multimap)

/-- `Init` of the encoder of field type `ty`, reached from a field site: primitives take no part;
    otherwise `if state.<T>Encoder != nil { recursion } else { new(T).Init(state) }`. -/
def initType (σ : Schema) : Nat → FType → ISt → Except WErr ISt
  | 0, _, _ => .error .outOfFuel
  | fuel + 1, ty, st =>
    if ty.inner.prim.isSome then .ok st
    else if st.onStack.contains (encoderKey ty) then .ok st
    else
      let st1 := { st with onStack := encoderKey ty :: st.onStack }
      let body : Except WErr ISt :=
        match ty with
        | .array e _ _ => initType σ fuel (.base e) st1
        | .base b =>
          if b.struct ≠ [] then
            match σ.findStruct b.struct with
            | none => .error .unknownFieldType
            | some s =>
              let st2 := if st1.fetched.contains s.name then st1
                         else { st1 with fetched := s.name :: st1.fetched,
                                         out := st1.out ++ [(s.name, s.fields.length)] }
              initFields (initType σ fuel) s.types st2
          else if b.multimap ≠ [] then
            match σ.findMultimap b.multimap with
            | none => .error .unknownFieldType
            | some m => initFields (initType σ fuel) m.types st1
          else .error .unknownFieldType
      match body with
      | .error e => .error e
      | .ok st3 => .ok { st3 with onStack := st3.onStack.erase (encoderKey ty) }

/-- arrays add a level each, so twice the number of named types (+2) bounds the depth. -/
def initFuel (σ : Schema) : Nat := 2 * (σ.structs.length + σ.multimaps.length) + 2

/-- the counts consumed by `<Root>Encoder.Init` with nothing on the stack. -/
def initEntries (σ : Schema) (root : Name) : Except WErr (List (Name × Nat)) :=
  match σ.findStruct root with
  | none => .error .nilRoot
  | some _ =>
    match initType σ (initFuel σ) (.base { struct := root }) {} with
    | .error e => .error e
    | .ok st => .ok st.out

def initCounts (σ : Schema) (root : Name) : Except WErr (List Nat) :=
  (initEntries σ root).map (·.map (·.2))

end Stef.Idl
