/-
  Stef.AllocFlowSem: the (hand-written) target vocabulary of the `AllocFlow` generator of /verif/extract
  (extract/allocflow.go). The generator translates, statement by statement, the methods of
  `AllocSizeChecker` (go/pkg/allocsizechecker.go) and the byte-level readers / writers of
  `BytesReader` / `BytesWriter` (go/pkg/membuffer.go) into Lean `let` / `if` chains over these types
  (Stef/Gen/AllocFlow.lean). Nothing here says WHAT those methods do - only what a Go type, a Go operator
  at a given type and a whitelisted library call mean (64-bit platform, as everywhere in this model).

  Go types:
  * `uint`, `uint64`, `int64` -> `Word` = `BitVec 64` (an `int64` is its two's complement pattern);
                        `+ - * & | ^` are the `BitVec` operators (wrap around), `<<` / `>>` by an unsigned
                        count or a constant are `<<<` / `>>>` (`sshiftRight` for `int64 >>`), a count >= 64
                        gives 0 (or the sign), as in Go; unsigned comparisons are those of `BitVec`, signed
                        ones `BitVec.slt` / `BitVec.sle`;
  * `int`            -> `Int`, every `+` / `-` wrapped into [-2^63, 2^63) (`iadd` / `isub`);
  * `byte`           -> `Byte` = `BitVec 8`;  `[]byte`, `string` -> `Bytes` (a VALUE: capacity = length, no
                        aliasing between a slice and the array it was cut from);
  * `bool`           -> `Bool`;  `error` -> `GoErr` (`nil` and the two sentinel errors these files return).
  A Go run-time panic (index / slice bounds, `unsafe.String` with a negative length) - and an
  `unsafe.String` that would reach beyond the slice it points into, which Go does NOT check - makes the
  translated function return `none`: the generator puts the test (`indexOK` .. `unsafeStringOK`) in front of
  the statement that contains the expression.
-/
import Stef.Base
import Stef.Varint

namespace Stef.AllocFlowSem

/-- `error` values of go/pkg/allocsizechecker.go and go/pkg/membuffer.go -/
inductive GoErr
  | nil
  | errRecordAllocLimitExceeded   -- pkg.ErrRecordAllocLimitExceeded (go/pkg/errors.go)
  | ioEOF                         -- io.EOF
  deriving DecidableEq, Repr

/-! ### math/bits -/

/-- `bits.Add(x, y, carry uint) (sum, carryOut uint)` -/
def bitsAdd (x y carry : Word) : Word × Word :=
  (x + y + carry, BitVec.ofNat 64 ((x.toNat + y.toNat + carry.toNat) / 2 ^ 64))

/-- `bits.Mul(x, y uint) (hi, lo uint)` -/
def bitsMul (x y : Word) : Word × Word :=
  (BitVec.ofNat 64 (x.toNat * y.toNat / 2 ^ 64), x * y)

/-! ### Go `int` -/

/-- two's complement wrap of a mathematical integer into the range of a Go `int` (int64). -/
def wrapI (x : Int) : Int := (x + 2 ^ 63) % 2 ^ 64 - 2 ^ 63

def iadd (a b : Int) : Int := wrapI (a + b)
def isub (a b : Int) : Int := wrapI (a - b)

/-! ### slices of bytes (values; `cap = len`) -/

/-- `len(s)` -/
def lenI (s : Bytes) : Int := (s.length : Int)

/-- `s[i]` does not panic -/
def indexOK (s : Bytes) (i : Int) : Bool := decide (0 ≤ i ∧ i < lenI s)
/-- `s[i]` -/
def index (s : Bytes) (i : Int) : Byte := s.getD i.toNat 0#8

/-- `s[i:]` does not panic -/
def sliceFromOK (s : Bytes) (i : Int) : Bool := decide (0 ≤ i ∧ i ≤ lenI s)
/-- `s[i:]` -/
def sliceFrom (s : Bytes) (i : Int) : Bytes := s.drop i.toNat

/-- `s[:j]` does not panic (capacity = length) -/
def sliceToOK (s : Bytes) (j : Int) : Bool := decide (0 ≤ j ∧ j ≤ lenI s)
/-- `s[:j]` -/
def sliceTo (s : Bytes) (j : Int) : Bytes := s.take j.toNat

/-- `s[i:j]` does not panic (capacity = length) -/
def sliceOK (s : Bytes) (i j : Int) : Bool := decide (0 ≤ i ∧ i ≤ j ∧ j ≤ lenI s)
/-- `s[i:j]` -/
def slice (s : Bytes) (i j : Int) : Bytes := (s.drop i.toNat).take (j - i).toNat

/-- `unsafe.String(&s[i], n)`: `&s[i]` panics unless `0 <= i < len(s)`, `unsafe.String` panics for `n < 0`;
    reaching beyond `len(s)` is not checked by Go - the model refuses it too. -/
def unsafeStringOK (s : Bytes) (i n : Int) : Bool := decide (0 ≤ i ∧ i < lenI s ∧ 0 ≤ n ∧ i + n ≤ lenI s)
/-- `unsafe.String(&s[i], n)` -/
def unsafeString (s : Bytes) (i n : Int) : Bytes := (s.drop i.toNat).take n.toNat

/-! ### encoding/binary -/

/-- the loop of `binary.Uvarint(buf)`; `i` = index of the first byte of `bs` in `buf`, `acc` = `x`, `shift` = `s`. -/
def uvarintLoop : Bytes → (shift : Nat) → (acc : Nat) → (i : Nat) → Word × Int
  | [], _, _, _ => (0#64, 0)
  | b :: rest, shift, acc, i =>
    if i = 10 then (0#64, -((i : Int) + 1))
    else if b.toNat < 128 then
      if i = 9 ∧ b.toNat > 1 then (0#64, -((i : Int) + 1))
      else (BitVec.ofNat 64 (acc + b.toNat * 2 ^ shift), (i : Int) + 1)
    else uvarintLoop rest (shift + 7) (acc + (b.toNat - 128) * 2 ^ shift) (i + 1)

/-- `binary.Uvarint(buf) (uint64, int)`: the value and the number of bytes read; `n == 0`: the buffer ends
    before the value does; `n < 0`: the value overflows 64 bits and `-n` bytes were read. -/
def binaryUvarint (buf : Bytes) : Word × Int := uvarintLoop buf 0 0 0

/-- `binary.AppendUvarint(buf, v)` (the LEB128 loop of Stef/Varint.lean) -/
def binaryAppendUvarint (buf : Bytes) (v : Word) : Bytes := buf ++ Stef.Varint.encode v

end Stef.AllocFlowSem
