/-
  Stef.FrameFlowSem: the (hand-written) target vocabulary of the `FrameFlow` generator of
  /verif/extract (extract/frameflow.go). The generator translates the Go statements of
  `limitedReader.ReadByte/Read` and `FrameDecoder.nextFrame/Next/Read/ReadByte` (go/pkg/frame.go)
  one by one into Lean terms over the state `St` below (Stef/Gen/FrameFlow.lean); nothing here says
  in which order the decoder does what, what it checks, or which fields it assigns.

  * `St` = the hand model's frame decoder state `Stef.ReaderIO.Fd` (bufio layer `b`,
    `remaining` = FrameDecoder.uncompressedSize, `limit` = limitedReader.limit, `ofs`, `flags`,
    `frameLoaded`) plus what the hand model does not have: `compression`, `notFirstFrame` and
    two ghosts that record the calls into the zstd decoder;
  * Go integers (uint64, int64, int) are `Nat` (`-` is truncated; the hand model does the same:
    the guards in front of every subtraction keep it from going below 0);
  * a `[]byte` that is only a destination buffer is its length; the `n` of a `Read` is the list of
    bytes read (`n.length` where Go uses the number);
  * `d.src` / `r.src` is the bufio.Reader of the hand model (`Bufio.readByte`, `Bufio.read`,
    `binary.ReadUvarint` over it); `d.frameContentSrc` is `&d.limitedReader` for CompressionNone
    (regenerated fact `Gen.FrameFlow.initWiring`), the zstd side is not modelled;
  * an `error` is `Option Err`.
-/
import Stef.ReaderIO

namespace Stef.FrameFlowSem
open Stef.ReaderIO

structure St where
  fd : Fd
  /-- Go: d.compression -/
  compression : Nat := 0
  /-- Go: d.notFirstFrame -/
  notFirstFrame : Bool := false
  /-- ghost: `limitedReader.limit` at every `d.decompressor.Reset(&d.limitedReader)`, newest first -/
  zResets : List Nat := []
  /-- ghost: number of `d.decompressedContentReader.Reset(d.decompressor)` calls -/
  zAttached : Nat := 0
  deriving Repr

/-- the state with the hand model's part replaced -/
def St.withFd (d : St) (fd : Fd) : St := { d with fd := fd }

def unpackByte : Except Err Byte → Byte × Option Err
  | .ok c => (c, none)
  | .error e => (0#8, some e)

/-- Go: `d.src.ReadByte()` / `r.src.ReadByte()` (bufio.Reader.ReadByte) -/
def srcReadByte (d : St) : St × Byte × Option Err :=
  match d.fd.b.readByte with
  | (b, r) => ({ d with fd := { d.fd with b := b } }, unpackByte r)

/-- Go: `r.src.Read(p)` with `len(p) = n` (bufio.Reader.Read) -/
def srcRead (d : St) (n : Nat) : St × Bytes × Option Err :=
  match d.fd.b.read n with
  | (b, got, e) => ({ d with fd := { d.fd with b := b } }, got, e)

/-- Go: `binary.ReadUvarint(d.src)`; the partial value comes with an error -/
def srcReadUvarint (d : St) : St × Nat × Option Err :=
  match d.fd.b.readUvarint with
  | (b, x, e) => ({ d with fd := { d.fd with b := b } }, x, e)

/-- Go: `d.frameContentSrc.Read(p)`: the limited reader (`lr` = the regenerated
    `limitedReader.Read`) for CompressionNone; bufio over zstd otherwise (not modelled). -/
def contentRead (lr : St → Nat → St × Bytes × Option Err) (d : St) (n : Nat) : St × Bytes × Option Err :=
  if d.compression = Stef.Gen.compressionNone then lr d n else (d, [], some .zstdNotModelled)

/-- Go: `d.frameContentSrc.ReadByte()` -/
def contentReadByte (lrb : St → St × Byte × Option Err) (d : St) : St × Byte × Option Err :=
  if d.compression = Stef.Gen.compressionNone then lrb d else (d, 0#8, some .zstdNotModelled)

/-- Go: `d.decompressor.Reset(&d.limitedReader)`: recorded; zstd's Reset with a non-nil reader
    fails only on a closed decoder (never closed here): no error. -/
def zReset (d : St) : St × Option Err := ({ d with zResets := d.fd.limit :: d.zResets }, none)

/-- Go: `d.decompressedContentReader.Reset(d.decompressor)`: recorded. -/
def zAttach (d : St) : St := { d with zAttached := d.zAttached + 1 }

/-- fuel of a translated `for` loop (the model's loops are structural; `Proofs/ReaderIOFd`
    shows that this many rounds are never used up by the skip loop of `Next`). -/
def loopFuel (d : St) : Nat := d.fd.remaining + d.fd.b.src.sched.length + 1

end Stef.FrameFlowSem
