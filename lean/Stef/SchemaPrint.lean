/-
  Stef.SchemaPrint: `Schema.PrettyPrint` of go/pkg/schema/schema.go as written, producing the
  text as a `List Char`. Core Lean only.

  As written (since commit e46c0b0): `prettyPrintFieldType` tests `Enum` first, so an enum-typed
  field (Primitive = uint64, Enum = name after resolution) prints its enum name; for an array it
  prints `[]` + the element type + ` dict(D)` when the element type has a `DictName`.
-/
import Stef.Schema

namespace Stef.Idl

/-! string constants (hoisted: long literals inside definitions slow equation lemmas down) -/
def sPackage : Name := ['p','a','c','k','a','g','e',' ']
def sEnum : Name := ['e','n','u','m',' ']
def sMultimap : Name := ['m','u','l','t','i','m','a','p',' ']
def sStruct : Name := ['s','t','r','u','c','t',' ']
def sOneof : Name := ['o','n','e','o','f',' ']
def sOpen : Name := [' ','{']
def sNlClose : Name := ['\n','}']
def sNlIndent : Name := ['\n',' ',' ']
def sKey : Name := [' ',' ','k','e','y',' ']
def sValue : Name := [' ',' ','v','a','l','u','e',' ']
def sDictOpen : Name := [' ','d','i','c','t','(']
def sRoot : Name := [' ','r','o','o','t']
def sOptional : Name := [' ','o','p','t','i','o','n','a','l']
def sUnknown : Name := ['u','n','k','n','o','w','n']
def sEq : Name := [' ','=',' ']
def sSep : Name := ['\n','\n']

def Prim.text : Prim → Name
  | .int64 => ['i','n','t','6','4']
  | .uint64 => ['u','i','n','t','6','4']
  | .float64 => ['f','l','o','a','t','6','4']
  | .bool => ['b','o','o','l']
  | .string => ['s','t','r','i','n','g']
  | .bytes => ['b','y','t','e','s']

/-- decimal digits of `n`, most significant first (`%d`); 20 digits cover every uint64. -/
def decDigits : Nat → Nat → List Char → List Char
  | 0, _, acc => acc
  | f + 1, n, acc =>
    let acc := Char.ofNat (48 + n % 10) :: acc
    if n / 10 = 0 then acc else decDigits f (n / 10) acc

def natToDec (n : Nat) : List Char := decDigits 20 n []

/-- `a < b` in Go's string order (bytewise lexicographic). -/
def nameLt : Name → Name → Bool
  | [], [] => false
  | [], _ :: _ => true
  | _ :: _, [] => false
  | a :: as, b :: bs => a.toNat < b.toNat || (a = b && nameLt as bs)

def insertBy {α : Type} (key : α → Name) (x : α) : List α → List α
  | [] => [x]
  | y :: ys => if nameLt (key x) (key y) then x :: y :: ys else y :: insertBy key x ys

/-- `sortedList`: values of a Go map in ascending key order. -/
def sortBy {α : Type} (key : α → Name) (l : List α) : List α := l.foldr (insertBy key) []

def joinWith (sep : Name) : List Name → Name
  | [] => []
  | [a] => a
  | a :: b :: r => a ++ sep ++ joinWith sep (b :: r)

/-- `prettyPrintFieldType` on a non-array type. -/
def ppBase (b : BaseType) : Name :=
  if b.enum ≠ [] then b.enum
  else match b.prim with
    | some p => p.text
    | none =>
      if b.struct ≠ [] then b.struct
      else if b.multimap ≠ [] then b.multimap
      else sUnknown

def ppDict (d : Name) : Name := if d ≠ [] then sDictOpen ++ d ++ [')'] else []

/-- `prettyPrintFieldType` -/
def ppFType : FType → Name
  | .base b => ppBase b
  | .array e _ _ => '[' :: ']' :: ppBase e ++ ppDict e.dict

/-- the `DictName` of the outer `FieldType`. -/
def FType.dictName : FType → Name
  | .base b => b.dict
  | .array _ d _ => d

/-- `prettyPrintStructField` -/
def ppField (f : Field) : Name :=
  f.name ++ [' '] ++ ppFType f.ty ++ ppDict f.ty.dictName ++ (if f.optional then sOptional else [])

def ppFields : List Field → Name
  | [] => []
  | f :: fs => sNlIndent ++ ppField f ++ ppFields fs

/-- `prettyPrintStruct` -/
def ppStruct (s : Struct) : Name :=
  (if s.oneOf then sOneof ++ s.name ++ sOpen
   else sStruct ++ s.name ++ ppDict s.dict ++ (if s.isRoot then sRoot else []) ++ sOpen)
  ++ ppFields s.fields ++ sNlClose

/-- `prettyPrintMultimap` -/
def ppMultimap (m : Multimap) : Name :=
  sMultimap ++ m.name ++ sOpen ++ ['\n'] ++
  sKey ++ ppFType m.key ++ ppDict m.key.dictName ++ ['\n'] ++
  sValue ++ ppFType m.value ++ ppDict m.value.dictName ++ sNlClose

def ppEnumFields : List EnumField → Name
  | [] => []
  | f :: fs => sNlIndent ++ f.name ++ sEq ++ natToDec f.value ++ ppEnumFields fs

/-- `prettyPrintEnum` -/
def ppEnum (e : Enum) : Name := sEnum ++ e.name ++ sOpen ++ ppEnumFields e.fields ++ sNlClose

/-- `Schema.PrettyPrint` -/
def prettyPrint (σ : Schema) : Name :=
  joinWith sSep
    ([sPackage ++ joinWith ['.'] σ.pkg]
      ++ (sortBy (·.name) σ.enums).map ppEnum
      ++ (sortBy (·.name) σ.multimaps).map ppMultimap
      ++ (sortBy (·.name) σ.structs).map ppStruct)

end Stef.Idl
