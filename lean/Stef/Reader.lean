/-
  Stef.Reader: the reader's frame state machine over a byte source that may return short reads:
  transcription of go/pkg/basereader.go (ReadFixedHeader, ReadVarHeader, NextFrame), frame.go
  (FrameDecoder for CompressionNone, limitedReader), recordbuf.go (ReadBufs.ReadFrom at the level
  "the whole remaining frame content is loaded with full-read semantics") and of the generated
  `Reader.Read` loop (reader.go.tmpl). Records are abstract: record k of frame j is reported as
  `(j, k)`; decoding a loaded record never touches the source.

  The source is a byte list plus a *schedule*: the sizes the underlying io.Reader hands out for
  successive bare `Read` calls. `ReadByte`, `binary.ReadUvarint` and `io.ReadFull` have full-read
  semantics (library behaviour, trusted); which multi-byte reads are bare `Read`s is given by
  the call-site table `Sites`, regenerated from the Go source (Stef.Gen.CallSites).
-/
import Stef.Base
import Stef.Varint
import Stef.Gen.Consts
import Stef.Gen.CallSites

namespace Stef.Reader

inductive Err
  | eof | unexpectedEof | endOfFrame | invalidSignature | invalidHeader | invalidVersion
  | invalidCompression | invalidFlags | frameSizeLimit | varintOverflow | invalidVarHeader
  | columnSizeLimit
  deriving DecidableEq, Repr

structure Sites where
  fixedHdrSignatureFull : Bool
  fixedHdrContentFull : Bool
  varHdrFull : Bool
  frameContentFull : Bool      -- size table and column data (recordbuf.go)
  deriving DecidableEq, Repr

def Sites.current : Sites :=
  { fixedHdrSignatureFull := Gen.fixedHdrSignatureFull, fixedHdrContentFull := Gen.fixedHdrContentFull,
    varHdrFull := Gen.varHdrFull, frameContentFull := Gen.sizeTableFull && Gen.columnDataFull }

def Sites.allFull : Sites := ⟨true, true, true, true⟩

structure Src where
  data : Bytes
  sched : List Nat := []
  accesses : Nat := 0
  deriving Repr

namespace Src

/-- `ReadByte` -/
def readByte (s : Src) : Src × Except Err Byte :=
  match s.data with
  | [] => ({ s with accesses := s.accesses + 1 }, .error .eof)
  | b :: rest => ({ s with data := rest, accesses := s.accesses + 1 }, .ok b)

/-- `io.ReadFull` of `n` bytes: all or an error (`eof` if nothing was there, else unexpectedEof);
    what was available is consumed either way. -/
def readFull (s : Src) (n : Nat) : Src × Except Err Bytes :=
  if n = 0 then (s, .ok [])
  else if s.data.length ≥ n then
    ({ s with data := s.data.drop n, accesses := s.accesses + 1 }, .ok (s.data.take n))
  else if s.data.isEmpty then ({ s with accesses := s.accesses + 1 }, .error .eof)
  else ({ s with data := [], accesses := s.accesses + 1 }, .error .unexpectedEof)

/-- one bare `Read(p)` with `len(p) = n`: returns between 1 and n bytes as the schedule says
    (an exhausted schedule means "as much as asked"), `eof` when no data is left. -/
def readOnce (s : Src) (n : Nat) : Src × Except Err Bytes :=
  if n = 0 then (s, .ok [])
  else if s.data.isEmpty then ({ s with accesses := s.accesses + 1 }, .error .eof)
  else
    let (k, sched) := match s.sched with
      | [] => (n, [])
      | c :: rest => (max 1 (min c n), rest)
    ({ data := s.data.drop k, sched := sched, accesses := s.accesses + 1 }, .ok (s.data.take k))

/-- fill a buffer of `n` bytes at a call site that is either `io.ReadFull` or a bare `Read`
    whose short result is NOT checked by the caller (the buffer keeps zeros in the unread part,
    as `make([]byte, n)` followed by an unchecked `Read` does). -/
def fill (s : Src) (full : Bool) (n : Nat) : Src × Except Err Bytes :=
  if full then s.readFull n
  else
    match s.readOnce n with
    | (s', .ok got) => (s', .ok (got ++ List.replicate (n - got.length) 0#8))
    | (s', .error e) => (s', .error e)

/-- `binary.ReadUvarint(src)`: byte-wise; EOF before the first byte is `eof`, later
    `unexpectedEof`; more than 10 bytes / a 10th byte above 1 is an overflow error. -/
def readUvarintAux : Nat → Src → Nat → Nat → Nat → Src × Except Err Nat
  | 0, s, _, _, _ => (s, .error .varintOverflow)
  | fuel + 1, s, shift, acc, i =>
    match s.readByte with
    | (s', .error _) => (s', .error (if i = 0 then .eof else .unexpectedEof))
    | (s', .ok b) =>
      if b.toNat < 128 then
        if i = 9 ∧ b.toNat > 1 then (s', .error .varintOverflow)
        else (s', .ok (acc + b.toNat * 2 ^ shift))
      else readUvarintAux fuel s' (shift + 7) (acc + (b.toNat - 128) * 2 ^ shift) (i + 1)

def readUvarint (s : Src) : Src × Except Err Nat := readUvarintAux 10 s 0 0 0

end Src

/-- reader state -/
structure Rd where
  src : Src
  remaining : Nat := 0            -- FrameDecoder.uncompressedSize
  frameRecordCount : Nat := 0     -- BaseReader.FrameRecordCount
  recordCount : Nat := 0          -- BaseReader.RecordCount
  framesLoaded : Nat := 0         -- ghost
  nextInFrame : Nat := 0          -- ghost: index of the next record within the loaded frame
  body : Bytes := []              -- loaded frame content after the record count
  deriving Repr

def sigBytes : Bytes := [0x53#8, 0x54#8, 0x45#8, 0x46#8]

/-- Go: `ReadFixedHeader`. Returns the compression method. -/
def readFixedHeader (sites : Sites) (s : Src) : Src × Except Err Nat :=
  match s.fill sites.fixedHdrSignatureFull 4 with
  | (s, .error e) => (s, .error e)
  | (s, .ok sg) =>
    if sg ≠ sigBytes then (s, .error .invalidSignature) else
    match s.readUvarint with
    | (s, .error e) => (s, .error e)
    | (s, .ok sz) =>
      if sz < 2 ∨ sz > Gen.fixedHdrContentSizeLimit then (s, .error .invalidHeader) else
      match s.fill sites.fixedHdrContentFull sz with
      | (s, .error e) => (s, .error e)
      | (s, .ok content) =>
        let ver := (content.getD 0 0#8).toNat % 16
        if ver ≠ Gen.hdrFormatVersion then (s, .error .invalidVersion) else
        let comp := (content.getD 1 0#8).toNat % 4
        if comp > 1 then (s, .error .invalidCompression) else (s, .ok comp)

/-- Go: `FrameDecoder.Next` for CompressionNone: skip what is left of the current frame, then
    read the next frame header. Returns the flags. -/
def fdNext (r : Rd) : Rd × Except Err Nat :=
  -- skip loop (bare reads of at most 4096 bytes until `remaining` is 0); a source that ends
  -- inside the skipped part yields the read error (plain EOF)
  let (src, skipErr) :=
    if r.remaining = 0 then (r.src, none)
    else match r.src.readFull r.remaining with
      | (s, .ok _) => (s, none)
      | (s, .error _) => (s, some Err.eof)
  match skipErr with
  | some e => ({ r with src := src, remaining := 0 }, .error e)
  | none =>
    let r := { r with src := src, remaining := 0 }
    match r.src.readByte with
    | (s, .error e) => ({ r with src := s }, .error e)
    | (s, .ok fb) =>
      if fb.toNat > Gen.frameFlagsMask then ({ r with src := s }, .error .invalidFlags) else
      match s.readUvarint with
      | (s, .error e) => ({ r with src := s }, .error e)
      | (s, .ok sz) =>
        if sz > Gen.frameSizeLimit then ({ r with src := s }, .error .frameSizeLimit)
        else ({ r with src := s, remaining := sz }, .ok fb.toNat)

/-- `binary.ReadUvarint(&FrameDecoder)`: bytes come from the frame content only. -/
def fdReadUvarintAux : Nat → Rd → Nat → Nat → Nat → Rd × Except Err Nat
  | 0, r, _, _, _ => (r, .error .varintOverflow)
  | fuel + 1, r, shift, acc, i =>
    if r.remaining = 0 then (r, .error .endOfFrame)       -- FrameDecoder.ReadByte: EndOfFrame
    else
      match r.src.readByte with
      | (s, .error _) => ({ r with src := s, remaining := r.remaining - 1 },
                          .error (if i = 0 then .eof else .unexpectedEof))
      | (s, .ok b) =>
        let r := { r with src := s, remaining := r.remaining - 1 }
        if b.toNat < 128 then
          if i = 9 ∧ b.toNat > 1 then (r, .error .varintOverflow)
          else (r, .ok (acc + b.toNat * 2 ^ shift))
        else fdReadUvarintAux fuel r (shift + 7) (acc + (b.toNat - 128) * 2 ^ shift) (i + 1)

/-- Go: `ReadVarHeader` up to the point where the header bytes are in memory (their
    deserialisation is the job of Stef.Spec.readVarHeader). -/
def readVarHeaderBytes (sites : Sites) (r : Rd) : Rd × Except Err Bytes :=
  match fdNext r with
  | (r, .error e) => (r, .error e)
  | (r, .ok _) =>
    if r.remaining > Gen.varHdrContentSizeLimit then (r, .error .invalidVarHeader) else
    if r.remaining = 0 then (r, .error .endOfFrame) else     -- FrameDecoder.Read: EndOfFrame
    if sites.varHdrFull then
      match r.src.readFull r.remaining with
      | (s, .ok b) => ({ r with src := s, remaining := 0 }, .ok b)
      | (s, .error e) => ({ r with src := s, remaining := 0 }, .error e)
    else
      -- one bare Read; the slice is cut to what was read, the rest is skipped by the next Next()
      match r.src.readOnce r.remaining with
      | (s, .ok b) => ({ r with src := s, remaining := r.remaining - b.length }, .ok b)
      | (s, .error e) => ({ r with src := s }, .error e)

/-- Go: `BaseReader.NextFrame` + `ReadBufs.ReadFrom`. -/
def nextFrame (sites : Sites) (r : Rd) : Rd × Except Err Nat :=
  match fdNext r with
  | (r, .error e) => (r, .error e)
  | (r, .ok flags) =>
    match fdReadUvarintAux 10 r 0 0 0 with
    | (r, .error e) => (r, .error e)
    | (r, .ok nrec) =>
      let r := { r with frameRecordCount := nrec }
      -- ReadBufs.ReadFrom: size table and all column data, together the rest of the content
      if sites.frameContentFull then
        match r.src.readFull r.remaining with
        | (s, .ok b) =>
          ({ r with src := s, remaining := 0, body := b, framesLoaded := r.framesLoaded + 1, nextInFrame := 0 }, .ok flags)
        | (s, .error e) => ({ r with src := s, remaining := 0 }, .error e)
      else
        match r.src.readOnce r.remaining with
        | (s, .ok b) =>
          if b.length < r.remaining then ({ r with src := s, remaining := r.remaining - b.length }, .error .unexpectedEof)
          else ({ r with src := s, remaining := 0, body := b, framesLoaded := r.framesLoaded + 1, nextInFrame := 0 }, .ok flags)
        | (s, .error e) => ({ r with src := s }, .error e)

inductive Out
  | record (frame idx : Nat)     -- record `idx` of the `frame`-th loaded frame (1-based frame)
  | err (e : Err)
  deriving DecidableEq, Repr

/-- Go: generated `Reader.Read(opts)`. The loop runs while `FrameRecordCount == 0`. -/
def read (sites : Sites) (till : Bool) : Nat → Rd → Rd × Out
  | 0, r => (r, .err .eof)
  | fuel + 1, r =>
    if r.frameRecordCount = 0 then
      if till then (r, .err .endOfFrame)
      else
        match nextFrame sites r with
        | (r, .error e) => (r, .err e)
        | (r, .ok _) => read sites till fuel r
    else
      ({ r with frameRecordCount := r.frameRecordCount - 1, recordCount := r.recordCount + 1,
                nextInFrame := r.nextInFrame + 1 },
       .record r.framesLoaded r.nextInFrame)

/-- fuel that always suffices: every loop iteration that does not return consumes a byte. -/
def readFuel (r : Rd) : Nat := r.src.data.length + 2

/-- read until the first error; returns the records and that error. -/
def readAll (sites : Sites) : Nat → Rd → List (Nat × Nat) × Err × Rd
  | 0, r => ([], .eof, r)
  | fuel + 1, r =>
    match read sites false (readFuel r) r with
    | (r, .err e) => ([], e, r)
    | (r, .record f i) => let (rs, e, r') := readAll sites fuel r; ((f, i) :: rs, e, r')

/-- Go: `New<Root>Reader` up to the var header (schema checks happen on the bytes returned). -/
def open_ (sites : Sites) (s : Src) : Rd × Except Err Bytes :=
  match readFixedHeader sites s with
  | (s, .error e) => ({ src := s }, .error e)
  | (s, .ok comp) =>
    if comp ≠ 0 then ({ src := s }, .error .invalidCompression)   -- zstd is outside this model
    else readVarHeaderBytes sites { src := s }

/-! ### the writer side of the framing (what a stream looks like) -/

structure FrameSpec where
  flags : Nat
  nrec : Nat
  body : Bytes
  deriving Repr

def encFrame (f : FrameSpec) : Bytes :=
  let content := Varint.encodeNat f.nrec ++ f.body
  [BitVec.ofNat 8 f.flags] ++ Varint.encodeNat content.length ++ content

def encFrames (fs : List FrameSpec) : Bytes := (fs.map encFrame).flatten

def fixedHeaderBytes : Bytes := sigBytes ++ [2#8, 0#8, 0#8]

def encStream (varHdr : Bytes) (fs : List FrameSpec) : Bytes :=
  fixedHeaderBytes ++ [0#8] ++ Varint.encodeNat varHdr.length ++ varHdr ++ encFrames fs

/-- the records of a list of frames, as `read` reports them (frames numbered from `from+1`). -/
def frameRecords : List FrameSpec → Nat → List (Nat × Nat)
  | [], _ => []
  | f :: fs, n => (List.range f.nrec).map (fun i => (n + 1, i)) ++ frameRecords fs (n + 1)

end Stef.Reader
