/-
  Stef.Schema: the data of go/pkg/schema/schema.go (`Schema`, `Struct`, `StructField`, `FieldType`,
  `Multimap`, `Enum`) as Lean structures. Core Lean only.

  Representation choices (all justified by what `idl.Parse` can build):

  * Names, identifiers and printed text are `List Char` (`Name`), never `String`: the kernel can
    evaluate functions over `List Char` (`by decide`), it cannot evaluate `String` operations.
  * Go's `FieldType` is a record with five alternative slots (Primitive, Array, Struct, MultiMap,
    Enum) + `DictName` + the resolved pointers `StructDef`/`MultimapDef`. The parser fills them
    in exactly two shapes: a non-array type (`BaseType`, slots as in Go: several may be set or
    none - "none" is the defect of C12) or `Array` of a non-array element type; nested arrays
    cannot be written in the IDL (`parseFieldType` accepts one `[]`). `FType` has these two shapes.
  * `StructDef != nil` in Go holds exactly when resolution found the name among the structs; after
    `ResolveRefs` succeeded this is `b.struct ≠ []` (for multimaps/enums `Struct` is cleared).
    The model therefore looks definitions up by name where Go follows the pointer.
  * Go maps (`Structs`, `Multimaps`, `Enums`) are association lists in insertion order. Every
    observable of the Go code either looks a name up or iterates in sorted order (PrettyPrint,
    PruneUnused's result) or is independent of the iteration order (see Idl.lean).
-/
namespace Stef.Idl

abbrev Name := List Char

inductive Prim | int64 | uint64 | float64 | bool | string | bytes
  deriving DecidableEq, Repr, Inhabited

/-- A Go `FieldType` whose `Array` slot is nil. -/
structure BaseType where
  prim : Option Prim := none
  struct : Name := []
  multimap : Name := []
  enum : Name := []
  dict : Name := []
  deriving DecidableEq, Repr, Inhabited

inductive FType
  | base (b : BaseType)
  /-- `Array != nil`: element type, the array's own `DictName`, `ArrayType.recursive`. -/
  | array (elem : BaseType) (dict : Name) (recursive : Bool)
  deriving DecidableEq, Repr, Inhabited

structure Field where
  name : Name
  ty : FType
  optional : Bool := false
  deriving DecidableEq, Repr, Inhabited

structure Struct where
  name : Name
  oneOf : Bool := false
  dict : Name := []
  isRoot : Bool := false
  fields : List Field := []
  recursive : Bool := false
  deriving DecidableEq, Repr, Inhabited

structure Multimap where
  name : Name
  key : FType := .base {}
  value : FType := .base {}
  recursive : Bool := false
  deriving DecidableEq, Repr, Inhabited

structure EnumField where
  name : Name
  value : Nat
  deriving DecidableEq, Repr, Inhabited

structure Enum where
  name : Name
  fields : List EnumField := []
  deriving DecidableEq, Repr, Inhabited

structure Schema where
  pkg : List Name := []
  structs : List Struct := []
  multimaps : List Multimap := []
  enums : List Enum := []
  deriving DecidableEq, Repr, Inhabited

namespace Schema

def findStruct (σ : Schema) (n : Name) : Option Struct := σ.structs.find? (·.name = n)
def findMultimap (σ : Schema) (n : Name) : Option Multimap := σ.multimaps.find? (·.name = n)
def findEnum (σ : Schema) (n : Name) : Option Enum := σ.enums.find? (·.name = n)

def hasStruct (σ : Schema) (n : Name) : Bool := σ.structs.any (·.name = n)
def hasMultimap (σ : Schema) (n : Name) : Bool := σ.multimaps.any (·.name = n)
def hasEnum (σ : Schema) (n : Name) : Bool := σ.enums.any (·.name = n)

/-- all top-level names, structs then multimaps then enums. -/
def topNames (σ : Schema) : List Name :=
  σ.structs.map (·.name) ++ σ.multimaps.map (·.name) ++ σ.enums.map (·.name)

end Schema

/-- the non-array type a field type bottoms out in (arrays are one level deep). -/
def FType.inner : FType → BaseType
  | .base b => b
  | .array e _ _ => e

/-- all field types of a schema's definitions. -/
def Struct.types (s : Struct) : List FType := s.fields.map (·.ty)
def Multimap.types (m : Multimap) : List FType := [m.key, m.value]

end Stef.Idl
