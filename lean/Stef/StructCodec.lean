/-
  Stef.StructCodec: the differential struct encoding of the generated code
  (stefc/templates/go/struct.go.tmpl: setters with modified mask, Encoder.Encode,
  Decoder.Decode) for a struct of `n` primitive fields, generic in the primitive codec.

  A primitive codec has a state, appends cells (bits or bytes) to its own column, and its
  decoder reads a value back from the front of the column.
-/
import Stef.Base
import Stef.Spec

namespace Stef.StructCodec
open Stef Stef.Spec

structure Codec where
  S : Type
  C : Type
  enc : S → Word → S × List C
  dec : S → List C → Option (S × Word × List C)
  ok : S → Prop        -- invariant of reachable codec states

/-- the codec law every primitive codec of STEF satisfies (C20): from a reachable state,
    decoding what was appended returns the value, the encoder's next state (again reachable),
    and leaves what follows untouched. -/
def Codec.Lawful (K : Codec) : Prop :=
  ∀ s v rest, K.ok s → K.dec s ((K.enc s v).2 ++ rest) = some ((K.enc s v).1, v, rest) ∧ K.ok (K.enc s v).1

/-- one field on the writer side: current value, modified bit, encoder state, column so far -/
structure WField (K : Codec) where
  val : Word
  modified : Bool
  st : K.S
  col : List K.C

/-- one field on the reader side: current value, decoder state, remaining column -/
structure RField (K : Codec) where
  val : Word
  st : K.S
  col : List K.C

structure Writer (K : Codec) where
  fields : List (WField K)
  maskCol : Bits := []

structure Reader (K : Codec) where
  fields : List (RField K)
  maskCol : Bits

/-- Go: `SetX(v)`: `if s.x != v { s.x = v; markModified(bit) }` -/
def Writer.set {K : Codec} (w : Writer K) (i : Nat) (v : Word) : Writer K :=
  { w with fields := w.fields.mapIdx (fun j f => if j = i ∧ f.val ≠ v then { f with val := v, modified := true } else f) }

/-- the modified mask as the number `WriteBits(mask, fieldCount)` writes: field 0 is bit 0 -/
def maskOf {K : Codec} : List (WField K) → Nat
  | [] => 0
  | f :: fs => (if f.modified then 1 else 0) + 2 * maskOf fs

/-- Go: `Encoder.Encode`: write the mask, encode the modified fields into their columns,
    clear the mask. -/
def Writer.write {K : Codec} (w : Writer K) : Writer K :=
  { fields := w.fields.map (fun f =>
      if f.modified then
        let (s', out) := K.enc f.st f.val
        { f with st := s', col := f.col ++ out, modified := false }
      else f),
    maskCol := w.maskCol ++ lowBits (BitVec.ofNat 64 (maskOf w.fields)) w.fields.length }

/-- decode the fields whose mask bit is set (field 0 = least significant bit) -/
def decFields {K : Codec} : List (RField K) → Nat → Option (List (RField K))
  | [], _ => some []
  | f :: fs, mask =>
    if mask % 2 = 1 then
      match K.dec f.st f.col with
      | none => none
      | some (s', v, rest) =>
        match decFields fs (mask / 2) with
        | none => none
        | some fs' => some ({ val := v, st := s', col := rest } :: fs')
    else
      match decFields fs (mask / 2) with
      | none => none
      | some fs' => some (f :: fs')

/-- Go: `Decoder.Decode`: read the mask, decode the fields it announces. -/
def Reader.read {K : Codec} (r : Reader K) : Option (Reader K) :=
  match readBits r.fields.length r.maskCol with
  | none => none
  | some (mask, rest) =>
    match decFields r.fields mask.toNat with
    | none => none
    | some fs => some { fields := fs, maskCol := rest }

inductive Op | set (i : Nat) (v : Word) | write

def Writer.apply {K : Codec} (w : Writer K) : Op → Writer K
  | .set i v => w.set i v
  | .write => w.write

/-- the record values a reader should see: the writer's values at each `write` -/
def snapshots {K : Codec} (w : Writer K) : List Op → List (List Word)
  | [] => []
  | .set i v :: ops => snapshots (w.set i v) ops
  | .write :: ops => w.fields.map (·.val) :: snapshots w.write ops

/-- read `n` records -/
def Reader.readN {K : Codec} (r : Reader K) : Nat → Option (List (List Word) × Reader K)
  | 0 => some ([], r)
  | n + 1 =>
    match r.read with
    | none => none
    | some r' =>
      match Reader.readN r' n with
      | none => none
      | some (vs, r'') => some (r'.fields.map (·.val) :: vs, r'')

end Stef.StructCodec
