/-
  Stef.IntCodecSem: the (hand-written) target vocabulary of the `IntCodec` generator of /verif/extract
  (extract/intcodec.go). The generator translates, statement by statement, the bodies of
    go/pkg/membuffer.go        BytesWriter.{Bytes,WriteStringBytes,WriteUvarint,WriteVarint},
                               BytesReader.{ReadUvarint,ReadVarint,ReadStringMapped}
    go/pkg/codecs/uint64.go    Uint64Encoder.{IsEqual,Encode,Reset}, Uint64Decoder.{Decode,Reset}
    go/pkg/codecs/int64.go     Int64Encoder.{IsEqual,Encode}, Int64Decoder.Decode
    go/pkg/codecs/bool.go      BoolEncoder.{Encode,Reset}, BoolDecoder.{Decode,Reset}
    go/pkg/codecs/string.go    StringEncoder.{Encode,Reset}, StringDecoder.{Decode,Reset}
    go/pkg/codecs/stringdict.go StringDictEncoderDict.Reset, StringDictEncoder.{Encode,Reset},
                               StringDictDecoderDict.Reset, StringDictDecoder.{Decode,Reset}
  into Lean `let` / `if` chains (Stef/Gen/IntCodec.lean). Nothing here describes WHAT a codec does - only
  what a Go type, a Go operator at a given type and a whitelisted library call mean. It continues
  Stef/FloatCodecSem.lean (Go `int` as a wrapped `Int`, `uint64` as `BitVec 64`, the bit-stream calls).

  Go types (64-bit platform):
  * `uint64`, `uint`, `uintptr` -> `Word` = `BitVec 64` (operators wrap; `-x` is `0 - x`);
  * `int`                 -> `Int`, every arithmetic result wrapped into [-2^63, 2^63) (FloatCodecSem.wrapI);
  * `int64`               -> `I64` = its two's complement bit pattern (`BitVec 64`): `+ - ^ & | <<` are the
                             `BitVec` operators, `>>` is the ARITHMETIC shift, `< <= > >=` are the signed
                             orders, `uint64(x)` / `int64(u)` are the identity, `int(x)` is `x.toInt`,
                             `int64(i)` is `BitVec.ofInt 64 i`;
  * `string`, `[]byte`    -> `Bytes` (a string is its bytes; `len` is the number of bytes, result type `int`);
  * `[]string`            -> `List Str`; `append(s, x)` = `s ++ [x]`; `s[:0]` = `[]`; `s[i]` panics (-> `none`)
                             when `i < 0` or `i >= len(s)`;
  * `map[string]int`      -> `StrIntMap`, an association list with distinct keys in insertion order
                             (`make` = empty, `m[k]` comma-ok = `mapLookup`, `m[k] = v` = `mapSet`, `len`);
  * `error`               -> `Error` = `Option DecErr` (`nil` = `none`, `io.EOF`, the package's `ErrInvalidRefNum`);
  * `*pkg.SizeLimiter`    -> `SizeLim` = the hand model `Stef.Limiter.SizeLimiter`, whose methods are themselves
                             regenerated and proved in Gen/WriterFlow.lean / Proofs/WriterFlow.lean;
  * `pkg.BitsWriter` / `pkg.BitsReader` -> the register-level models of Stef/BitStream.lean;
  * a pointer to a struct of the package (`*StringDictEncoderDict`) and an embedded struct -> the struct VALUE as a
    field: sharing of one dictionary between several encoders, and the identity of the limiter behind
    `e.limiter` and `e.dict.limiter`, are outside this model.
  A panic (out-of-range slice / index, `unsafe.String` with a negative length) makes the translated
  function return `none`.
-/
import Stef.FloatCodecSem
import Stef.Limiter

namespace Stef.IntCodecSem
open Stef Stef.FloatCodecSem

abbrev I64 := Word
abbrev Str := Bytes
abbrev Error := Option Stef.Codec.DecErr
abbrev SizeLim := Stef.Limiter.SizeLimiter
abbrev StrIntMap := List (Str × Int)

/-! ### error -/

/-- `err != nil` -/
abbrev isErr (e : Error) : Bool := e.isSome
/-- `io.EOF` -/
abbrev errEOF : Error := some .eof
/-- the package variable `ErrInvalidRefNum` (stringdict.go) -/
abbrev errInvalidRefNum : Error := some .invalidRefNum

/-! ### Go `int`, `int64` -/

/-- `-x` at type `int` -/
def ineg (a : Int) : Int := wrapI (-a)
/-- conversion `int64(i)` of an `int` -/
abbrev i64OfInt (x : Int) : I64 := BitVec.ofInt 64 x
/-- conversion `int(x)` of an `int64` -/
abbrev intOfI64 (x : I64) : Int := x.toInt
/-- `a < b`, `a <= b` at type `int64` -/
abbrev i64lt (a b : I64) : Bool := a.slt b
abbrev i64le (a b : I64) : Bool := a.sle b
/-- `x >> n` at type `int64` (arithmetic shift) -/
abbrev i64shr (x : I64) (n : Nat) : I64 := x.sshiftRight n

/-! ### len, slices, strings -/

/-- `len(x)` of a string / `[]byte` -/
abbrev lenBytes (b : Bytes) : Int := (b.length : Int)
/-- `len(x)` of a `[]string` -/
abbrev lenStrs (s : List Str) : Int := (s.length : Int)
/-- `b[i:]` (the guard `i < 0 || i > len(b)` = panic is emitted by the generator in front of the statement) -/
abbrev sliceFrom (b : Bytes) (i : Int) : Bytes := b.drop i.toNat
/-- the panic condition of `b[i:]` -/
abbrev sliceFromPanics (b : Bytes) (i : Int) : Bool := decide (i < 0 ∨ i > (b.length : Int))
/-- `s[i]` of a `[]string`; panic condition `i < 0 || i >= len(s)` -/
abbrev strsIndexPanics (s : List Str) (i : Int) : Bool := decide (i < 0 ∨ i ≥ (s.length : Int))
abbrev strsIndex (s : List Str) (i : Int) : Str := s.getD i.toNat []
/-- `unsafe.String(&b[i], n)`: the `n` bytes of `b` from index `i`. Go panics when `i` is not an index of `b`
    or `n < 0`; a length that reaches beyond the slice is undefined behaviour in Go (no check) and is
    modelled as "as many bytes as there are" - every call site of the subset tests the length before. -/
abbrev unsafeStringPanics (b : Bytes) (i n : Int) : Bool := decide (i < 0 ∨ i ≥ (b.length : Int) ∨ n < 0)
abbrev unsafeString (b : Bytes) (i n : Int) : Str := (b.drop i.toNat).take n.toNat
/-- `unsafe.Sizeof(s)` of a string: two words -/
abbrev sizeofString : Word := 16#64

/-! ### map[string]int -/

abbrev mapEmpty : StrIntMap := []
/-- `v, ok := m[k]` -/
def mapLookup (m : StrIntMap) (k : Str) : Int × Bool :=
  match m.find? (fun p => p.1 == k) with
  | some p => (p.2, true)
  | none => ((0 : Int), false)
/-- `m[k] = v` -/
def mapSet (m : StrIntMap) (k : Str) (v : Int) : StrIntMap :=
  if m.any (fun p => p.1 == k) then m.map (fun p => if p.1 == k then (k, v) else p) else m ++ [(k, v)]
/-- `len(m)` (the keys of the list are distinct: `mapSet` replaces) -/
abbrev lenMap (m : StrIntMap) : Int := (m.length : Int)

/-! ### encoding/binary -/

/-- Go: `binary.Uvarint(buf)`: the value and the number of bytes read; `(0, 0)` when the buffer ends
    early, `(0, -(i+1))` on overflow (more than 10 bytes, or a 10th byte above 1). -/
def uvarintAux : Bytes → (shift : Nat) → (acc : Nat) → (i : Nat) → Word × Int
  | [], _, _, _ => (0#64, 0)
  | b :: rest, shift, acc, i =>
    if i = 10 then (0#64, -((i : Int) + 1))
    else if b.toNat < 128 then
      if i = 9 ∧ b.toNat > 1 then (0#64, -((i : Int) + 1))
      else (BitVec.ofNat 64 (acc + b.toNat * 2 ^ shift), (i : Int) + 1)
    else uvarintAux rest (shift + 7) (acc + (b.toNat - 128) * 2 ^ shift) (i + 1)

def uvarint (bs : Bytes) : Word × Int := uvarintAux bs 0 0 0

/-- Go: `binary.AppendUvarint(buf, v)` -/
abbrev appendUvarint (buf : Bytes) (v : Word) : Bytes := buf ++ Varint.encode v

/-! ### *pkg.SizeLimiter (sizes are `Nat`, as in Stef/Limiter.lean: no overflow below 2^64 bits of data) -/

/-- `AddFrameBits(bitCount uint)` -/
abbrev limAddFrameBits (l : SizeLim) (n : Word) : SizeLim := l.addFrameBits n.toNat
/-- `AddFrameBytes(byteCount uint)` -/
abbrev limAddFrameBytes (l : SizeLim) (n : Word) : SizeLim := l.addFrameBytes n.toNat
/-- `AddDictElemSize(elemByteSize uint)` -/
abbrev limAddDictElemSize (l : SizeLim) (n : Word) : SizeLim := l.addDictElemSize n.toNat
/-- `DictLimitReached() bool` -/
abbrev limDictLimitReached (l : SizeLim) : Bool := l.dictLimitReached

/-! ### pkg.BitsReader -/

/-- `Error()` at type `error`: `io.EOF` or nil -/
abbrev readerErr (r : BitsReader) : Error := if r.err then errEOF else none

end Stef.IntCodecSem
