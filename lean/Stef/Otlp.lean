/-
  Stef.Otlp: model of the OTLP <-> STEF converters of go/pdata (properties C17, C18).
    Stef.Otlp.Value    attribute values both ways, generated setters/EnsureLen/CopyFrom, comparators
    Stef.Otlp.Metrics  pmetric tree, flatten, the four metrics converters
    Stef.Otlp.Traces   ptrace tree, the traces converter in both modes
  Core Lean only.
-/
import Stef.Otlp.Value
import Stef.Otlp.Metrics
import Stef.Otlp.Traces
