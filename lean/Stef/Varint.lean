/-
  Stef.Varint: LEB128 `Uvarint64` / zig-zag `Varint64` exactly as Go's encoding/binary
  (`AppendUvarint`, `Uvarint`, `ReadUvarint`) and membuffer.go use them.
-/
import Stef.Base

namespace Stef.Varint

/-- Go: `binary.AppendUvarint(nil, v)`. -/
def encodeNat (v : Nat) : Bytes :=
  if h : v < 128 then [BitVec.ofNat 8 v]
  else BitVec.ofNat 8 (v % 128 + 128) :: encodeNat (v / 128)
termination_by v
decreasing_by omega

def encode (v : Word) : Bytes := encodeNat v.toNat

/-- Go: `binary.Uvarint(buf)`: value and number of bytes read; `none` when the buffer ends
    early (n == 0) or the value overflows 64 bits (n < 0). Reads at most 10 bytes; the 10th
    byte must be 0 or 1. -/
def decodeAux : Bytes → (shift : Nat) → (acc : Nat) → (i : Nat) → Option (Word × Bytes)
  | [], _, _, _ => none
  | b :: rest, shift, acc, i =>
    if i = 10 then none
    else if b.toNat < 128 then
      if i = 9 ∧ b.toNat > 1 then none
      else some (BitVec.ofNat 64 (acc + b.toNat * 2 ^ shift), rest)
    else decodeAux rest (shift + 7) (acc + (b.toNat - 128) * 2 ^ shift) (i + 1)

def decode (bs : Bytes) : Option (Word × Bytes) := decodeAux bs 0 0 0

/-- zig-zag: Go `uint64((x >> 63) ^ (x << 1))` with arithmetic shift. -/
def zigzag (x : Word) : Word := (x.sshiftRight 63) ^^^ (x <<< 1)

/-- Go: `int64((x >> 1) ^ (-(x & 1)))`. -/
def unzigzag (x : Word) : Word := (x >>> 1) ^^^ (0#64 - (x &&& 1#64))

def encodeSigned (x : Word) : Bytes := encode (zigzag x)

def decodeSigned (bs : Bytes) : Option (Word × Bytes) :=
  (decode bs).map (fun p => (unzigzag p.1, p.2))

end Stef.Varint
