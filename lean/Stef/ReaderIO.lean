/-
  Stef.ReaderIO: the read path of a STEF reader down to the single `Read(p)` calls on the
  caller's `io.Reader`, for every behaviour the io.Reader contract allows.

  Layers (each an executable transcription, bottom up):

    Src                the caller's io.Reader: `data` plus a schedule of BEHAVIOURS, one per Read call:
                       how many bytes the call hands out (0 = the discouraged `0, nil`) and whether the
                       terminal error (io.EOF, or another sticky error) is attached to the call that
                       delivers the last byte (eager) or only reported by the next call (lazy)
    readAtLeast        Go standard library io/io.go: ReadAtLeast / ReadFull           (go1.25)
    readUvarint        encoding/binary/varint.go: ReadUvarint over any ByteReader
    Bufio              bufio/bufio.go: Reader.fill / Read / ReadByte / readErr with buffer size B
                       (fill's 100 empty reads, the large-read bypass, the stored error)
    Fd                 go/pkg/frame.go: limitedReader + FrameDecoder (CompressionNone): Read, ReadByte,
                       nextFrame, Next with uncompressedSize / limit / ofs bookkeeping
    Rd                 go/pkg/basereader.go (ReadFixedHeader, ReadVarHeader, NextFrame),
                       go/pkg/recordbuf.go (ReadBufs.ReadFrom, ReadColumnSet.ReadDataFrom: one io.ReadFull
                       per column, the sizes come from Stef.Sizes.readSizes), the generated Reader.Read
                       loop (stefc/templates/go/reader.go.tmpl; the reader wraps its source in
                       bufio.NewReaderSize(source, 64*1024))

  Records are abstract, as in Stef.Reader: record k of the j-th loaded frame is `(j, k)`; what the
  decoders see (record count and every column's bytes of every loaded frame) is kept in `Rd.loaded`.
  zstd is outside this model. Core Lean only (linked into the driver).
-/
import Stef.Base
import Stef.Sizes
import Stef.Gen.Consts

namespace Stef.ReaderIO

inductive Err
  | eof | unexpectedEof | noProgress | shortBuffer
  | srcFail                      -- a non-EOF error of the caller's io.Reader
  | endOfFrame                   -- frame.go `EndOfFrame` (FrameDecoder.Read / ReadByte at the end of a frame)
  | errEndOfFrame                -- readopts.go `ErrEndOfFrame` (Reader.Read with TillEndOfFrame)
  | invalidSignature | invalidHeader | invalidVersion | invalidCompression
  | invalidFlags | frameSizeLimit | varintOverflow | invalidVarHeader
  | totalColumnSizeLimit | columnSizeLimit
  | zstdNotModelled
  | fuel                         -- a loop of the MODEL ran out of fuel (Go would still be looping)
  deriving DecidableEq, Repr

/-! ### the caller's io.Reader -/

/-- what one `Read(p)` call does. `want = 0`: return `0, nil`. `want = k > 0`: hand out
    `min k len(p)` bytes (fewer when the data ends). `eager`: when this call delivers the last
    byte of the data, return the terminal error together with the bytes. -/
structure Beh where
  want : Nat
  eager : Bool := false
  deriving DecidableEq, Repr

structure Src where
  data : Bytes
  /-- the terminal condition is io.EOF (`false`) or another, sticky, error (`true`) -/
  fail : Bool := false
  /-- one entry per Read call; when exhausted every call hands out all it is asked for, lazy error -/
  sched : List Beh := []
  /-- ghost: `len(p)` of every Read call made so far, newest first -/
  reqs : List Nat := []
  deriving Repr

def Src.term (s : Src) : Err := if s.fail then .srcFail else .eof

/-- one `Read(p)` with `len(p) = n` on the caller's reader: `(n', err)` with the bytes. -/
def Src.read (s : Src) (n : Nat) : Src × Bytes × Option Err :=
  let beh := s.sched.headD { want := n }
  let s' := { s with sched := s.sched.tail, reqs := n :: s.reqs }
  if beh.want = 0 then (s', [], none)
  else if s.data.isEmpty then (s', [], some s.term)
  else
    let k := min beh.want n
    let rest := s.data.drop k
    ({ s' with data := rest }, s.data.take k,
      if beh.eager && rest.isEmpty then some s.term else none)

/-- `maxConsecutiveEmptyReads` of bufio -/
def maxEmptyReads : Nat := 100

def leadingZeros : List Beh → Nat
  | [] => 0
  | b :: rest => if b.want = 0 then leadingZeros rest + 1 else 0

def contractB : List Beh → Bool
  | [] => true
  | b :: rest => decide (leadingZeros (b :: rest) < maxEmptyReads) && contractB rest

/-- the io.Reader contract as far as a schedule can break it: `Read` "returns 0 <= n <= len(p)",
    delivers the data in order and reports the error with or after the last byte by construction of
    `Src.read`; what remains is the discouraged `0, nil`: fewer than 100 of them in a row
    (bufio.Reader gives up with io.ErrNoProgress at 100). -/
def Contract (σ : List Beh) : Prop := contractB σ = true

instance (σ : List Beh) : Decidable (Contract σ) := by unfold Contract; infer_instance

/-! ### io.ReadAtLeast / io.ReadFull, binary.ReadUvarint (generic in the reader) -/

/-- the loop `for n < min && err == nil { nn, err = r.Read(buf[n:]); n += nn }`.
    `acc` holds buf[:n] reversed. Returns the state, n, buf[:n], err. -/
def readAtLeastLoop {S : Type} (rd : S → Nat → S × Bytes × Option Err) :
    Nat → S → Nat → Nat → Nat → Bytes → S × Nat × Bytes × Option Err
  | 0, s, _, _, n, acc => (s, n, acc.reverse, some .fuel)
  | fuel + 1, s, len, min, n, acc =>
    if n < min then
      match rd s (len - n) with
      | (s, got, some e) => (s, n + got.length, (got.reverse ++ acc).reverse, some e)
      | (s, got, none) => readAtLeastLoop rd fuel s len min (n + got.length) (got.reverse ++ acc)
    else (s, n, acc.reverse, none)

/-- Go: `io.ReadAtLeast(r, buf, min)` with `len(buf) = len`. -/
def readAtLeast {S : Type} (rd : S → Nat → S × Bytes × Option Err) (fuel : Nat) (s : S)
    (len min : Nat) : S × Bytes × Option Err :=
  if len < min then (s, [], some .shortBuffer)
  else
    match readAtLeastLoop rd fuel s len min 0 [] with
    | (s, n, got, err) =>
      if n ≥ min then (s, got, none)
      else if n > 0 ∧ err = some .eof then (s, got, some .unexpectedEof)
      else (s, got, err)

/-- Go: `io.ReadFull(r, buf)` = `ReadAtLeast(r, buf, len(buf))`. -/
def readFullG {S : Type} (rd : S → Nat → S × Bytes × Option Err) (fuel : Nat) (s : S) (n : Nat) :
    S × Bytes × Option Err :=
  readAtLeast rd fuel s n n

/-- callers write `_, err := io.ReadFull(..)`: the buffer on success, else the error. -/
def toExcept {S : Type} (r : S × Bytes × Option Err) : S × Except Err Bytes :=
  match r with
  | (s, got, none) => (s, .ok got)
  | (s, _, some e) => (s, .error e)

/-- Go: `binary.ReadUvarint(r)`; returns `(x, err)` (x is the partial value on an error). -/
def readUvarintLoop {S : Type} (rb : S → S × Except Err Byte) :
    Nat → S → Nat → Nat → Nat → S × Nat × Option Err
  | 0, s, x, _, _ => (s, x, some .varintOverflow)       -- `return x, errOverflow` after 10 bytes
  | fuel + 1, s, x, sh, i =>
    match rb s with
    | (s, .error e) => (s, x, some (if i > 0 ∧ e = .eof then .unexpectedEof else e))
    | (s, .ok b) =>
      if b.toNat < 128 then
        if i = 9 ∧ b.toNat > 1 then (s, x, some .varintOverflow)
        else (s, x ||| (b.toNat <<< sh), none)
      else readUvarintLoop rb fuel s (x ||| ((b.toNat % 128) <<< sh)) (sh + 7) (i + 1)

def readUvarintG {S : Type} (rb : S → S × Except Err Byte) (s : S) : S × Nat × Option Err :=
  readUvarintLoop rb 10 s 0 0 0

/-! ### bufio.Reader -/

structure Bufio where
  src : Src
  /-- `len(b.buf)` -/
  size : Nat
  /-- `b.buf[b.r:b.w]`, the unread part of the buffer -/
  buf : Bytes := []
  /-- `b.err` -/
  err : Option Err := none
  deriving Repr

namespace Bufio

/-- the read loop of `fill`: at most `maxConsecutiveEmptyReads` reads into `b.buf[b.w:]`. -/
def fillLoop : Nat → Bufio → Bufio
  | 0, b => { b with err := some .noProgress }
  | i + 1, b =>
    match b.src.read (b.size - b.buf.length) with
    | (s, got, some e) => { b with src := s, buf := b.buf ++ got, err := some e }
    | (s, got, none) =>
      let b := { b with src := s, buf := b.buf ++ got }
      if got.length > 0 then b else fillLoop i b

/-- Go: `(*Reader).fill` (the unread part is slid to the front first, which `buf` abstracts). -/
def fill (b : Bufio) : Bufio := fillLoop maxEmptyReads b

/-- Go: `(*Reader).ReadByte`: `for b.r == b.w { if b.err != nil { return 0, b.readErr() }; b.fill() }`.
    A `fill` ends with data in the buffer or with a stored error, so the loop body runs at most
    twice (`fill_progress`); the last branch is that unreachable third round. -/
def readByte (b : Bufio) : Bufio × Except Err Byte :=
  match b.buf with
  | c :: rest => ({ b with buf := rest }, .ok c)
  | [] =>
    match b.err with
    | some e => ({ b with err := none }, .error e)
    | none =>
      let b := b.fill
      match b.buf with
      | c :: rest => ({ b with buf := rest }, .ok c)
      | [] =>
        match b.err with
        | some e => ({ b with err := none }, .error e)
        | none => (b, .error .fuel)

/-- Go: `(*Reader).Read(p)` with `len(p) = n`. -/
def read (b : Bufio) (n : Nat) : Bufio × Bytes × Option Err :=
  if n = 0 then
    if b.buf.length > 0 then (b, [], none) else ({ b with err := none }, [], b.err)
  else
    match b.buf with
    | [] =>
      match b.err with
      | some e => ({ b with err := none }, [], some e)
      | none =>
        if n ≥ b.size then
          -- large read, empty buffer: read directly into p; `return n, b.readErr()`
          match b.src.read n with
          | (s, got, e) => ({ b with src := s, err := none }, got, e)
        else
          -- one read into the whole buffer, no loop
          match b.src.read b.size with
          | (s, got, e) =>
            if got.isEmpty then ({ b with src := s, err := none }, [], e)
            else ({ b with src := s, err := e, buf := got.drop n }, got.take n, none)
    | _ :: _ => ({ b with buf := b.buf.drop n }, b.buf.take n, none)

/-- `io.ReadFull(bufioReader, buf)`; the fuel covers every possible run (`Proofs/ReaderIO`). -/
def readFullN (b : Bufio) (n : Nat) : Bufio × Bytes × Option Err :=
  readFullG Bufio.read (n + b.src.sched.length + 1) b n

def readFull (b : Bufio) (n : Nat) : Bufio × Except Err Bytes := toExcept (b.readFullN n)

def readUvarint (b : Bufio) : Bufio × Nat × Option Err := readUvarintG Bufio.readByte b

end Bufio

/-! ### go/pkg/frame.go: limitedReader and FrameDecoder (CompressionNone) -/

structure Fd where
  b : Bufio
  remaining : Nat := 0            -- FrameDecoder.uncompressedSize
  limit : Nat := 0                -- limitedReader.limit (int64; it never goes below 0)
  ofs : Nat := 0
  flags : Nat := 0
  frameLoaded : Bool := false
  /-- ghost: some `io.ReadFull(&frameDecoder, buf)` asked for more than the frame had left
      (`ReadBufs.ReadFrom` takes its limit before it reads the size of the size table, so a
      malformed frame can announce up to 10 bytes more than it holds) -/
  overrun : Bool := false
  deriving Repr

namespace Fd

/-- Go: `(*limitedReader).ReadByte` -/
def lrReadByte (d : Fd) : Fd × Except Err Byte :=
  if d.limit = 0 then (d, .error .eof)
  else
    match d.b.readByte with
    | (b, r) => ({ d with b := b, limit := d.limit - 1 }, r)

/-- Go: `(*limitedReader).Read` -/
def lrRead (d : Fd) (n : Nat) : Fd × Bytes × Option Err :=
  if d.limit = 0 then (d, [], some .eof)
  else
    let n := if n > d.limit then d.limit else n
    match d.b.read n with
    | (b, got, e) => ({ d with b := b, limit := d.limit - got.length }, got, e)

/-- Go: `(*FrameDecoder).Read`: `n, err` of the underlying read are both passed on, after the
    bookkeeping. -/
def read (d : Fd) (n : Nat) : Fd × Bytes × Option Err :=
  if d.remaining = 0 then ({ d with frameLoaded := false }, [], some .endOfFrame)
  else
    let n := if d.remaining < n then d.remaining else n
    match d.lrRead n with
    | (d, got, e) =>
      ({ d with remaining := d.remaining - got.length, ofs := d.ofs + got.length }, got, e)

/-- Go: `(*FrameDecoder).ReadByte` -/
def readByte (d : Fd) : Fd × Except Err Byte :=
  if d.remaining = 0 then ({ d with frameLoaded := false }, .error .endOfFrame)
  else lrReadByte { d with remaining := d.remaining - 1, ofs := d.ofs + 1 }

/-- Go: `(*FrameDecoder).nextFrame` for CompressionNone -/
def nextFrameHdr (d : Fd) : Fd × Option Err :=
  match d.b.readByte with
  | (b, .error e) => ({ d with b := b }, some e)
  | (b, .ok hb) =>
    let d := { d with b := b, flags := hb.toNat }
    if d.flags ||| Gen.frameFlagsMask ≠ Gen.frameFlagsMask then (d, some .invalidFlags)
    else
      match d.b.readUvarint with
      | (b, _, some e) => ({ d with b := b }, some e)
      | (b, sz, none) =>
        let d := { d with b := b }
        if sz > Gen.frameSizeLimit then (d, some .frameSizeLimit)
        else ({ d with remaining := sz, limit := sz, frameLoaded := true, ofs := 0 }, none)

/-- `tmp [4096]byte` of `Next` -/
def skipChunk : Nat := 4096

/-- the skip loop of `Next`: `for d.uncompressedSize > 0 { n, err := frameContentSrc.Read(tmp[:readSize]);
    if err != nil { return 0, err }; ... }` (bytes that come with an error are not accounted). -/
def skipLoop : Nat → Fd → Fd × Option Err
  | 0, d => (d, some .fuel)
  | fuel + 1, d =>
    if d.remaining > 0 then
      let readSize := if d.remaining > skipChunk then skipChunk else d.remaining
      match d.lrRead readSize with
      | (d, _, some e) => (d, some e)
      | (d, got, none) =>
        skipLoop fuel { d with remaining := d.remaining - got.length, ofs := d.ofs + got.length }
    else (d, none)

/-- Go: `(*FrameDecoder).Next`; the flags are `d.flags` afterwards. -/
def next (d : Fd) : Fd × Option Err :=
  match skipLoop (d.remaining + d.b.src.sched.length + 1) d with
  | (d, some e) => (d, some e)
  | (d, none) => d.nextFrameHdr

def readFullN (d : Fd) (n : Nat) : Fd × Bytes × Option Err :=
  let d := if d.remaining < n then { d with overrun := true } else d     -- ghost only
  readFullG Fd.read (n + d.b.src.sched.length + 1) d n

/-- `io.ReadFull(&frameDecoder, buf)` -/
def readFull (d : Fd) (n : Nat) : Fd × Except Err Bytes := toExcept (d.readFullN n)

/-- `binary.ReadUvarint(&frameDecoder)` -/
def readUvarint (d : Fd) : Fd × Nat × Option Err := readUvarintG Fd.readByte d

end Fd

/-! ### BaseReader, ReadBufs, the generated Reader -/

/-- the buffer size the generated reader gives bufio (reader.go.tmpl: `64 * 1024`) -/
def readerBufSize : Nat := 64 * 1024

def sigBytes : Bytes := [0x53#8, 0x54#8, 0x45#8, 0x46#8]

/-- Go: `(*BaseReader).ReadFixedHeader`. Returns the compression method. -/
def readFixedHeader (b : Bufio) : Bufio × Except Err Nat :=
  match b.readFull 4 with
  | (b, .error e) => (b, .error e)
  | (b, .ok sg) =>
    if sg ≠ sigBytes then (b, .error .invalidSignature) else
    match b.readUvarint with
    | (b, _, some e) => (b, .error e)
    | (b, sz, none) =>
      if sz < 2 ∨ sz > Gen.fixedHdrContentSizeLimit then (b, .error .invalidHeader) else
      match b.readFull sz with
      | (b, .error e) => (b, .error e)
      | (b, .ok content) =>
        let version := (content.getD 0 0#8).toNat &&& Gen.hdrFormatVersionMask
        if version ≠ Gen.hdrFormatVersion then (b, .error .invalidVersion) else
        let comp := (content.getD 1 0#8).toNat &&& Gen.hdrFlagsCompressionMethod
        if comp = Gen.compressionNone ∨ comp = Gen.compressionZstd then (b, .ok comp)
        else (b, .error .invalidCompression)

/-- Go: `(*ReadColumnSet).ReadDataFrom`: one `io.ReadFull` per column, preorder (a column whose
    size is 0, or that was reset because its parent is empty, is a zero-length ReadFull: no Read). -/
def readCols : List Nat → Fd → List Bytes → Fd × Except Err (List Bytes)
  | [], d, acc => (d, .ok acc.reverse)
  | n :: ns, d, acc =>
    match d.readFull n with
    | (d, .error e) => (d, .error e)
    | (d, .ok col) => readCols ns d (col :: acc)

/-- Go: `(*ReadBufs).ReadFrom(buf, readLimit)` -/
def readFrom (t : Sizes.ColTree) (d : Fd) (readLimit : Nat) : Fd × Except Err (List Bytes) :=
  match d.readUvarint with
  | (d, _, some e) => (d, .error e)
  | (d, bufSize, none) =>
    if bufSize > readLimit then (d, .error .totalColumnSizeLimit) else
    match d.readFull bufSize with
    | (d, .error e) => (d, .error e)
    | (d, .ok table) =>
      match Sizes.readSizes t { rd := { buf := table }, limit := readLimit - bufSize } with
      | (_, false) => (d, .error .columnSizeLimit)
      | (st, true) => readCols st.alloc.reverse d []

structure Rd where
  fd : Fd
  tree : Sizes.ColTree := .node []
  frameRecordCount : Nat := 0     -- BaseReader.FrameRecordCount
  recordCount : Nat := 0          -- BaseReader.RecordCount
  framesLoaded : Nat := 0         -- ghost
  nextInFrame : Nat := 0          -- ghost: index of the next record within the loaded frame
  cols : List Bytes := []         -- ReadBufs.Columns after the last complete load (preorder)
  loaded : List (Nat × List Bytes) := []   -- ghost: (record count, columns) of every loaded frame, newest first
  deriving Repr

/-- Go: `(*BaseReader).NextFrame`. `FrameRecordCount` is assigned whatever ReadUvarint returned,
    also next to an error. -/
def nextFrame (r : Rd) : Rd × Except Err Nat :=
  match r.fd.next with
  | (d, some e) => ({ r with fd := d }, .error e)
  | (d, none) =>
    let flags := d.flags
    match d.readUvarint with
    | (d, x, some e) => ({ r with fd := d, frameRecordCount := x }, .error e)
    | (d, nrec, none) =>
      match readFrom r.tree d d.remaining with
      | (d, .error e) => ({ r with fd := d, frameRecordCount := nrec }, .error e)
      | (d, .ok cols) =>
        ({ r with fd := d, frameRecordCount := nrec, cols := cols, framesLoaded := r.framesLoaded + 1,
                  nextInFrame := 0, loaded := (nrec, cols) :: r.loaded }, .ok flags)

inductive Out
  | record (frame idx : Nat)     -- record `idx` of the `frame`-th loaded frame (1-based frame)
  | err (e : Err)
  deriving DecidableEq, Repr

/-- Go: generated `Reader.Read(opts)`. The loop runs while `FrameRecordCount == 0`. -/
def read (till : Bool) : Nat → Rd → Rd × Out
  | 0, r => (r, .err .fuel)
  | fuel + 1, r =>
    if r.frameRecordCount = 0 then
      if till then (r, .err .errEndOfFrame)
      else
        match nextFrame r with
        | (r, .error e) => (r, .err e)
        | (r, .ok _) => read till fuel r
    else
      ({ r with frameRecordCount := r.frameRecordCount - 1, recordCount := r.recordCount + 1,
                nextInFrame := r.nextInFrame + 1 },
       .record r.framesLoaded r.nextInFrame)

/-- the bytes that have not been delivered to the layers above bufio -/
def Bufio.rest (b : Bufio) : Bytes := b.buf ++ b.src.data

/-- every round of `read`'s loop that does not return consumes at least the frame's flags byte -/
def readFuel (r : Rd) : Nat := r.fd.b.rest.length + 2

/-- read until the first error; the records, that error, the final state. -/
def readAll : Nat → Rd → List (Nat × Nat) × Err × Rd
  | 0, r => ([], .fuel, r)
  | fuel + 1, r =>
    match read false (readFuel r) r with
    | (r, .err e) => ([], e, r)
    | (r, .record f i) =>
      match readAll fuel r with
      | (rs, e, r') => ((f, i) :: rs, e, r')

/-- Go: `(*BaseReader).ReadVarHeader` up to the point where the header bytes are in memory
    (their deserialisation does not touch the source: Stef.Spec.readVarHeader). -/
def readVarHeaderBytes (r : Rd) : Rd × Except Err Bytes :=
  match r.fd.next with
  | (d, some e) => ({ r with fd := d }, .error e)
  | (d, none) =>
    if d.remaining > Gen.varHdrContentSizeLimit then ({ r with fd := d }, .error .invalidVarHeader)
    else
      match d.readFull d.remaining with
      | (d, res) => ({ r with fd := d }, res)

/-- Go: `New<Root>Reader(source)`: `bufio.NewReaderSize(source, size)`, `BaseReader.Init`
    (ReadFixedHeader, FrameDecoder.Init), `ReadVarHeader`. -/
def open_ (size : Nat) (t : Sizes.ColTree) (s : Src) : Rd × Except Err Bytes :=
  match readFixedHeader { src := s, size := size } with
  | (b, .error e) => ({ fd := { b := b }, tree := t }, .error e)
  | (b, .ok comp) =>
    if comp ≠ Gen.compressionNone then ({ fd := { b := b }, tree := t }, .error .zstdNotModelled)
    else readVarHeaderBytes { fd := { b := b }, tree := t }

/-- everything the caller observes of opening a stream and reading it to the first error:
    the var header bytes or the constructor's error, the records, the final error, and what the
    record decoders were given (record count and column bytes of every loaded frame, oldest first). -/
structure Outcome where
  header : Except Err Bytes
  records : List (Nat × Nat)
  err : Err
  frames : List (Nat × List Bytes)
  deriving Repr

/-- the run the harness makes: constructor, then `Read` until the first error (at most `maxReads`
    records). Also returns the final state (for the request log). -/
def run (size : Nat) (t : Sizes.ColTree) (s : Src) (maxReads : Nat) : Outcome × Rd :=
  match open_ size t s with
  | (r, .error e) => ({ header := .error e, records := [], err := e, frames := [] }, r)
  | (r, .ok h) =>
    match readAll maxReads r with
    | (rs, e, r') => ({ header := .ok h, records := rs, err := e, frames := r'.loaded.reverse }, r')

end Stef.ReaderIO
