/-
  C12 / C13, post-processing half for the code as it is TODAY: the theorems of Stef/Props/C12.lean restated for
  `genPostParse` = the hand model's lexer and grammar phase followed by `Schema.ResolveRefs` (with `resolveFieldType`
  and `computeRecursive*` / `markRecursive` / `findLast`) and `Schema.PruneUnused` (with `markReachableFrom*`)
  REGENERATED from go/pkg/schema/schema.go (Stef/Gen/SchemaPost.lean, written by extract/schemapost.go on every check
  run; vocabulary Stef/SchemaPostSem.lean). Stef/Proofs/SchemaPostGen.lean (with SchemaPostResolve / SchemaPostRec /
  SchemaPostReach) proves the regenerated functions equal to their hand counterparts of Stef/Idl.lean on every schema the
  grammar phase can produce, so a change of those Go functions either still proves equal there, or breaks those
  files (or makes the generator fail). Property theorems only.
-/
import Stef.Props.C12
import Stef.Proofs.SchemaPostGen

namespace Stef.Props.C12PostGen
open Stef Stef.Idl Stef.SchemaPostSem Stef.Proofs.SchemaPostGen

/-- `idl.Parse` with the regenerated post-processing is the hand model's `parse` - for EVERY input: the same
    schema, the same positioned error (an "unknown type: .." / "ambiguous type: .." error of the regenerated
    `resolveFieldType` exactly where the hand model reports the class), and never a panic. -/
theorem gen_post_parse_eq (t : List Char) : genPostParse t = parse t := genPostParse_eq t

/-- Accepted schemas are well-formed (see `C12.parse_ok_wf`: every type reference resolves to exactly one
    definition of the right kind, names unique, roots non-empty), with the regenerated ResolveRefs / PruneUnused. -/
theorem gen_post_parse_ok_wf (t : List Char) (σ : Schema) (h : genPostParse t = .ok σ) : σ.WF :=
  C12.parse_ok_wf t σ (by rw [← genPostParse_eq]; exact h)

/-- non-vacuity: the sample schema of C12 (two roots, recursion through an array, a multimap, an enum, an unused
    struct that is pruned) is accepted through the regenerated functions. -/
example : (match genPostParse C12.sample with
    | .ok σ => σ.structs.map (·.name) == [['O'], ['A'], ['R'], ['R','2']] &&
               σ.multimaps.length == 1 && σ.enums.length == 1
    | _ => false) = true := by decide +kernel

/-- Errors carry the position of the problem (see `C12.parse_err_pos`), with the regenerated post-processing. -/
theorem gen_post_parse_err_pos (t : List Char) (p : Pos) (c : ErrClass) (h : genPostParse t = .error p c) :
    p.Within t.length :=
  C12.parse_err_pos t p c (by rw [← genPostParse_eq]; exact h)

example : genPostParse "package a struct A root { F B }".toList = .error ⟨31, 1, 32⟩ .unknownType := by
  decide +kernel
example : genPostParse "package a struct A root { F B } struct B { X bool } enum B { Y = 1 }".toList
    = parse "package a struct A root { F B } struct B { X bool } enum B { Y = 1 }".toList := by decide +kernel

/-- It never panics - none of the `panic(...)` sites of computeRecursiveType / markRecursive / SetRecursive is
    reached, no nil definition is dereferenced, no index is out of range - and the fuel the translation gives the
    recursive functions (`postFuel`) is never used up, for EVERY input (see `C12.parse_no_panic`). -/
theorem gen_post_parse_no_panic (t : List Char) (s : PanicSite) : genPostParse t ≠ .panic s := by
  rw [genPostParse_eq]; exact C12.parse_no_panic t s

/-- non-vacuity: with too little fuel the regenerated walk does stop with the model-only error, so the statement
    above is about the fuel actually supplied. -/
example : (match Gen.SchemaPost.computeRecursiveStruct {} 1
      (some { name := ['A'], fields := [{ name := ['F'], ty := .base { prim := some .bool } }] }) {} {} with
    | .error .outOfFuel => true
    | _ => false) = true := by decide +kernel

/-- One reference: the regenerated `resolveFieldType` accepts a type exactly when the hand model's `resolveFType`
    does, with the same rewritten type (a name that is a multimap moves to the MultiMap slot, an enum becomes
    uint64 + Enum slot); it fails with "unknown type: N" when the name matches no definition and with
    "ambiguous type: N" when it matches more than one - for every schema and every fuel ≥ 2. -/
theorem gen_resolveFieldType_ok (σ : Schema) (F : Nat) (hF : 2 ≤ F) (ft t : FType)
    (h : resolveFType σ ft = .ok t) : Gen.SchemaPost.resolveFieldType σ F ft = .ok t :=
  Proofs.SchemaPostResolve.resolveFieldType_ok σ F hF ft t h

theorem gen_resolveFieldType_err (σ : Schema) (F : Nat) (hF : 2 ≤ F) (ft : FType) (c : ErrClass)
    (h : resolveFType σ ft = .error c) :
    ∃ e, Gen.SchemaPost.resolveFieldType σ F ft = .error e ∧ Proofs.SchemaPostResolve.ErrRel e c :=
  Proofs.SchemaPostResolve.resolveFieldType_err σ F hF ft c h

example : (match resolveFType { structs := [{ name := ['B'] }], enums := [{ name := ['B'] }] }
      (.array { struct := ['B'] } [] false) with
    | .error .ambiguousType => true
    | _ => false) = true := by decide +kernel
example : (resolveFType { multimaps := [{ name := ['M'] }] } (.base { struct := ['M'] })).toOption
    = some (.base { multimap := ['M'] }) := by decide +kernel

/-- The recursion marks: whenever the hand model's `computeRecursive` succeeds, the regenerated one returns the
    same schema (same `recursive` flags on structs, multimaps and array-typed fields). -/
theorem gen_computeRecursive_eq (σ σ2 : Schema) (h : computeRecursive σ = .ok σ2) :
    Gen.SchemaPost.computeRecursive σ = .ok σ2 :=
  Proofs.SchemaPostRec.computeRecursive_eq σ σ2 h

/-- non-vacuity: a root that reaches itself through an array is marked (struct and array), regenerated code. -/
example : (Gen.SchemaPost.computeRecursive
      { structs := [{ name := ['R'], isRoot := true, fields := [{ name := ['F'], ty := .array { struct := ['R'] } [] false }] }] }).toOption
    = some { structs := [{ name := ['R'], isRoot := true, fields := [{ name := ['F'], ty := .array { struct := ['R'] } [] true }] }] } := by
  decide +kernel

/-- Pruning: whenever the hand model's `pruneUnused` succeeds (it always does: `pruneUnused_ok`), the regenerated
    `PruneUnused` keeps exactly the same definitions and returns, as unused, the unreachable structs / multimaps /
    enums sorted by name (roots have non-empty names: they are identifiers). -/
theorem gen_pruneUnused_eq (σ σ3 : Schema) (hn : ∀ s ∈ σ.structs, s.isRoot = true → s.name ≠ [])
    (h : pruneUnused σ = some σ3) :
    ∃ r, mrRoots σ σ.structs {} = some r ∧
      Gen.SchemaPost.pruneUnused σ = .ok
        ({ structs := sortByName (σ.structs.filter (fun s => !r.structs.contains s.name)),
           multimaps := sortByName (σ.multimaps.filter (fun m => !r.multimaps.contains m.name)),
           enums := sortByName (σ.enums.filter (fun e => !r.enums.contains e.name)) }, σ3) :=
  Proofs.SchemaPostReach.pruneUnused_eq_full σ σ3 hn h

/-- non-vacuity: an unused struct is deleted and reported; the hypothesis on root names is needed (the hand model
    does not follow a root whose name is empty, the Go code does - no identifier is empty). -/
example : (Gen.SchemaPost.pruneUnused
      { structs := [{ name := ['R'], isRoot := true }, { name := ['U'] }] }).toOption.map (fun r => (r.1.structs.map (·.name), r.2.structs.map (·.name)))
    = some ([['U']], [['R']]) := by decide +kernel

end Stef.Props.C12PostGen
