/-
  C07 - Decoding does not depend on how the source splits its bytes across reads.

  The schedule of the source (`Src.sched`) is the list of sizes the underlying io.Reader hands
  out for bare `Read` calls. `Sites` (regenerated from the Go source into Stef.Gen.CallSites)
  says which multi-byte reads are bare.
-/
import Stef.Proofs.ReaderSched

namespace Stef.Props.C07
open Stef Stef.Reader

/-- **chunking_independent** (all call sites with full-read semantics): opening the stream and
    reading it to the first error yields the same header bytes / error, the same records and the
    same final error for every two schedules. -/
theorem chunking_independent (sites : Sites) (h1 : sites.fixedHdrSignatureFull = true)
    (h2 : sites.fixedHdrContentFull = true) (h3 : sites.varHdrFull = true)
    (h4 : sites.frameContentFull = true) (data : Bytes) (σ₁ σ₂ : List Nat) (fuel : Nat) :
    (open_ sites { data := data, sched := σ₁ }).2 = (open_ sites { data := data, sched := σ₂ }).2 ∧
    (readAll sites fuel (open_ sites { data := data, sched := σ₁ }).1).1
      = (readAll sites fuel (open_ sites { data := data, sched := σ₂ }).1).1 ∧
    (readAll sites fuel (open_ sites { data := data, sched := σ₁ }).1).2.1
      = (readAll sites fuel (open_ sites { data := data, sched := σ₂ }).1).2.1 := by
  have e1 : ({ data := data, sched := σ₁ } : Src) = ({ data := data } : Src).ws σ₁ := rfl
  have e2 : ({ data := data, sched := σ₂ } : Src) = ({ data := data } : Src).ws σ₂ := rfl
  rw [e1, e2, open_ws sites h1 h2 h3, open_ws sites h1 h2 h3]
  simp only [readAll_ws sites h4]
  exact ⟨trivial, trivial, trivial⟩

/-- the frame part is schedule independent on the CURRENT code (frame content is loaded with
    io.ReadFull): from any reader state, records and final error do not depend on the schedule. -/
theorem chunking_independent_frames (r : Rd) (σ : List Nat) (fuel : Nat) :
    (readAll Sites.current fuel (r.ws σ)).1 = (readAll Sites.current fuel r).1 ∧
    (readAll Sites.current fuel (r.ws σ)).2.1 = (readAll Sites.current fuel r).2.1 := by
  rw [readAll_ws Sites.current (by decide)]
  exact ⟨rfl, rfl⟩

/-- **chunking_independent on the current code**: the regenerated call-site table says every
    header and frame buffer is filled with full-read semantics (this line stops type-checking as
    soon as one of them becomes a bare `Read` again). -/
theorem chunking_independent_current (data : Bytes) (σ₁ σ₂ : List Nat) (fuel : Nat) :
    (open_ Sites.current { data := data, sched := σ₁ }).2 = (open_ Sites.current { data := data, sched := σ₂ }).2 ∧
    (readAll Sites.current fuel (open_ Sites.current { data := data, sched := σ₁ }).1).1
      = (readAll Sites.current fuel (open_ Sites.current { data := data, sched := σ₂ }).1).1 ∧
    (readAll Sites.current fuel (open_ Sites.current { data := data, sched := σ₁ }).1).2.1
      = (readAll Sites.current fuel (open_ Sites.current { data := data, sched := σ₂ }).1).2.1 :=
  chunking_independent Sites.current (by decide) (by decide) (by decide) (by decide) data σ₁ σ₂ fuel

-- non-vacuity: a valid stream opened under the one-byte schedule and under "all at once"
example :
    let s := encStream [0#8, 0#8] [{ flags := 0, nrec := 1, body := [5#8] }]
    (match (open_ Sites.current { data := s, sched := List.replicate 40 1 }).2 with | .ok b => b | .error _ => []) = [0#8, 0#8] ∧
    (readAll Sites.current 5 (open_ Sites.current { data := s, sched := List.replicate 40 1 }).1).1 = [(1, 0)] := by
  with_unfolding_all decide

/-- the current call-site table, as regenerated from the source: -/
theorem current_sites :
    Sites.current = { fixedHdrSignatureFull := Gen.fixedHdrSignatureFull,
                      fixedHdrContentFull := Gen.fixedHdrContentFull,
                      varHdrFull := Gen.varHdrFull,
                      frameContentFull := Gen.sizeTableFull && Gen.columnDataFull } := rfl

end Stef.Props.C07
