import Stef.Proofs.ReadBudget

/-!
  C01 / C06 (and the accounting half of C03): the reader's allocation budget is PER RECORD.

  `pkg.RecordAllocLimit` (32 MiB) bounds what the decoders may allocate while they decode ONE
  record. A valid stream whose records each stay within that bound must be readable however many
  records it has and wherever its frames end: C01 (every record written can be read back) and C06
  (whether flushed records can be read does not depend on where the Flush calls fall) both rest on
  it. Model: `Alloc.readRecords` (Stef/Proofs/ReadBudget.lean) - the loop of the generated
  `Reader.Read`, one list of allocation requests per record, over the transcribed
  `AllocSizeChecker` (Stef/Alloc.lean, tied op for op by `al`). Whether the loop resets the budget
  before a record is NOT assumed: it is the regenerated fact
  `Gen.readResetsBudgetBeforeDecode && Gen.resetAllocSizeResets` (extract/sites.go: every
  `r.decoder.Decode` call of the checked-in generated readers is preceded by `ResetAllocSize()`,
  and `ResetAllocSize` has a pointer receiver and zeroes the counter).
-/
namespace Stef.Props.Budget
open Stef Stef.Alloc

/-- what the current source does before it decodes a record -/
def resetsPerRecord : Bool := Gen.readResetsBudgetBeforeDecode && Gen.resetAllocSizeResets

/-- **read_budget_per_record**: for every list of records, each of which asks for at most
    RecordAllocLimit bytes, and every state of the checker left behind by earlier reads, the
    reader loop of the current source decodes ALL of them - no bound on the number of records or
    on the sum of what they allocate. -/
theorem read_budget_per_record (recs : List (List Req)) (a : Checker)
    (h : ∀ r ∈ recs, (r.map Req.bytes).sum ≤ Gen.recordAllocLimit) :
    readRecords resetsPerRecord a recs = recs.length := by
  have : resetsPerRecord = true := rfl
  rw [this]
  exact readRecords_all recs a h

/-- the hypothesis is the record's own size only; a record over the limit is refused (so the
    theorem above is not true for the wrong reason: the loop does refuse). -/
theorem over_limit_record_refused (a : Checker) :
    readRecords true a [[.one (Gen.recordAllocLimit + 1)]] = 0 := by
  simp [readRecords, grant, Checker.prepAllocSize, Checker.reset, add64, Checker.isOverLimit,
    Gen.recordAllocLimit]

/-- **budget_accumulates_without_reset** (why the regenerated fact matters): a loop that does not
    reset the budget refuses the second of two records that each fit. -/
theorem budget_accumulates_without_reset :
    ∃ recs : List (List Req), (∀ r ∈ recs, (r.map Req.bytes).sum ≤ Gen.recordAllocLimit) ∧
      readRecords false {} recs < recs.length := by
  refine ⟨[[.one Gen.recordAllocLimit], [.one 1]], ?_, ?_⟩
  · intro r hr
    simp only [List.mem_cons, List.not_mem_nil, or_false] at hr
    rcases hr with rfl | rfl
    · simp only [List.map_cons, List.map_nil, List.sum_cons, List.sum_nil, Req.bytes, Nat.add_zero]
      exact Nat.le_refl _
    · simp only [List.map_cons, List.map_nil, List.sum_cons, List.sum_nil, Req.bytes]
      decide
  · decide

/-- non-vacuity: the stream of the long-stream cases of the harness (560 records that alternate a
    20 000-element uint64 array and an empty one: 44 MiB in all) meets the hypothesis. -/
example : readRecords resetsPerRecord {} (List.replicate 280 [.many 20000 8] ++ List.replicate 280 []) = 560 := by
  rw [read_budget_per_record]
  · simp only [List.length_append, List.length_replicate]
  · intro r hr
    simp only [List.mem_append, List.mem_replicate] at hr
    rcases hr with ⟨_, rfl⟩ | ⟨_, rfl⟩
    · simp only [List.map_cons, List.map_nil, List.sum_cons, List.sum_nil, Req.bytes]
      decide
    · simp only [List.map_nil, List.sum_nil]
      exact Nat.zero_le _

end Stef.Props.Budget
