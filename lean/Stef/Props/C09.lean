/-
  C09 - Record values copy deeply and compare as a total order.
  Property theorems only; helper lemmas live in Stef/Proofs/Cmp.lean and Stef/Proofs/CmpCopy.lean.

  `TotalOrderCmp P c` (Stef/Proofs/Cmp.lean) bundles the four laws of the property for a three-way
  comparison `c` on the values satisfying `P`:
      refl        : c a a = 0
      antisymm    : c a b = -(c b a)
      trans       : c a b ≤ 0 → c b d ≤ 0 → c a d ≤ 0
      eq_zero_iff : c a b = 0 ↔ a = b            ("0 only for values holding the same data")

  The primitive comparators are the functions regenerated from go/pkg/types.go (Stef.Gen.*); the
  structural comparison `cmp`, `isEqual`, `clone`, `copyFrom` are the transcription of the stefc
  templates in Stef/Cmp.lean. Where the code violates the property the full statement is refuted
  from a witness (`..._false`) and a `..._partial` version carries the excluding hypothesis.
-/
import Stef.Proofs.Cmp
import Stef.Proofs.CmpCopy

namespace Stef.Props.C09
open Stef Stef.Cmp

/-! ## 1. regenerated primitive comparators -/

/-- pkg.Uint64Compare is a total order on all of uint64. -/
theorem uint64Compare_total_order : TotalOrderCmp (fun _ : BitVec 64 => True) Gen.uint64Compare :=
  u64Exact.toTotal

example : Gen.uint64Compare 3#64 0xffffffffffffffff#64 = -1 ∧ Gen.uint64Compare 7#64 7#64 = 0 := by decide

/-- pkg.Int64Compare is a total order on all of int64 (two's complement patterns, signed order). -/
theorem int64Compare_total_order : TotalOrderCmp (fun _ : BitVec 64 => True) Gen.int64Compare :=
  i64Exact.toTotal

example : Gen.int64Compare 3#64 0xffffffffffffffff#64 = 1 ∧       -- 3 > -1
    Gen.int64Compare 0x8000000000000000#64 0x7fffffffffffffff#64 = -1 := by decide

/-- pkg.BoolCompare is a total order (false < true). -/
theorem boolCompare_total_order : TotalOrderCmp (fun _ : Bool => True) Gen.boolCompare :=
  boolExact.toTotal

example : Gen.boolCompare false true = -1 ∧ Gen.boolCompare true false = 1 := by decide

/-- pkg.StringCompare / pkg.BytesCompare (strings.Compare: lexicographic on bytes) is a total order. -/
theorem strCompare_total_order : TotalOrderCmp (fun _ : Bytes => True) strCompare :=
  strExact.toTotal

example : strCompare [0x61#8] [0x61#8, 0x00#8] = -1 ∧ strCompare [0xff#8] [0x61#8, 0x62#8] = 1 := by decide

/-! ### Float64Compare: NOT a total order (genuine defects float64compare-nan / -negzero) -/

/-- a quiet NaN, +0, -0, 1.0, 2.0 as bit patterns -/
def nan : BitVec 64 := 0x7ff8000000000000#64
def posZero : BitVec 64 := 0#64
def negZero : BitVec 64 := 0x8000000000000000#64
def one : BitVec 64 := 0x3ff0000000000000#64
def two : BitVec 64 := 0x4000000000000000#64

/-- The defect in general form: a NaN compares as "equal" (0) to EVERY value, in both positions. -/
theorem float64Compare_nan_zero (n x : BitVec 64) (hn : Flt.isNaN n = true) :
    Gen.float64Compare n x = 0 ∧ Gen.float64Compare x n = 0 := by
  unfold Gen.float64Compare Flt.gt Flt.lt
  simp [hn]

example : Flt.isNaN nan = true ∧ Gen.float64Compare nan one = 0 := by decide

/-- transitivity fails: 2.0 ≤ NaN ≤ 1.0 by Float64Compare, but 2.0 > 1.0. -/
theorem float64Compare_trans_false :
    ¬ ∀ a b c : BitVec 64, Gen.float64Compare a b ≤ 0 → Gen.float64Compare b c ≤ 0 →
        Gen.float64Compare a c ≤ 0 := by
  intro h
  have := h two nan one (by decide) (by decide)
  revert this; decide

/-- "0 only for identical values" fails: -0.0 vs +0.0, and NaN vs 1.0. -/
theorem float64Compare_eq_zero_false :
    ¬ ∀ a b : BitVec 64, Gen.float64Compare a b = 0 → a = b := by
  intro h
  have := h negZero posZero (by decide)
  revert this; decide

/-- so Float64Compare is not a total order on float64 bit patterns -/
theorem float64Compare_total_order_false :
    ¬ TotalOrderCmp (fun _ : BitVec 64 => True) Gen.float64Compare := by
  intro h
  exact float64Compare_trans_false (fun a b c => h.trans a b c trivial trivial trivial)

/-- Float64Compare restricted to patterns that are neither NaN nor the negative zero IS a total
    order (all four laws, `= 0 ↔` bit-identical). -/
theorem float64Compare_total_order_partial :
    TotalOrderCmp (fun w : BitVec 64 => Flt.isNaN w = false ∧ Flt.isNegZero w = false)
      Gen.float64Compare :=
  f64Exact.toTotal

/-- non-vacuity: infinities, subnormals and ordinary values satisfy the hypothesis -/
example : (Flt.isNaN 0xfff0000000000000#64 = false ∧ Flt.isNegZero 0xfff0000000000000#64 = false) ∧
    (Flt.isNaN 0x0000000000000001#64 = false ∧ Flt.isNegZero 0x0000000000000001#64 = false) ∧
    Gen.float64Compare 0xfff0000000000000#64 0x0000000000000001#64 = -1 := by decide

/-- Without NaN alone (negative zero allowed) Float64Compare is still reflexive, antisymmetric and
    transitive; only exactness is lost (-0 = +0). -/
theorem float64Compare_preorder_partial (a b c : BitVec 64)
    (ha : Flt.isNaN a = false) (hb : Flt.isNaN b = false) (hc : Flt.isNaN c = false) :
    Gen.float64Compare a a = 0 ∧ Gen.float64Compare a b = -(Gen.float64Compare b a) ∧
    (Gen.float64Compare a b ≤ 0 → Gen.float64Compare b c ≤ 0 → Gen.float64Compare a c ≤ 0) :=
  ⟨f64Order.refl a ha, f64Order.antisymm a b ha hb, (f64Order.tri a b c ha hb hc).le⟩

example : Flt.isNaN negZero = false ∧ Gen.float64Compare negZero one = -1 := by decide

/-- pkg.Float64Equal: false for a NaN against itself, true for -0 against +0 ... -/
theorem float64Equal_exact_false :
    ¬ ∀ a b : BitVec 64, (Gen.float64Equal a b = true ↔ a = b) := by
  intro h
  have := (h nan nan).mpr rfl
  revert this; decide

/-- ... and exact on patterns that are neither NaN nor negative zero. -/
theorem float64Equal_exact_partial (a b : BitVec 64)
    (ha : Flt.isNaN a = false ∧ Flt.isNegZero a = false)
    (hb : Flt.isNaN b = false ∧ Flt.isNegZero b = false) :
    Gen.float64Equal a b = true ↔ a = b := by
  unfold Gen.float64Equal; exact Flt.eq_iff ha hb

example : (Flt.isNaN one = false ∧ Flt.isNegZero one = false) ∧ Gen.float64Equal one one = true := by decide

/-! ## 2. the generated structural comparison, generically over the leaf laws -/

/-- MAIN LIFTING THEOREM. For any leaf type and leaf operations: if the leaf comparison is a total
    order on the leaves satisfying `P`, then the generated structural comparison (struct with
    optional presence, oneof, array, multimap, nil dictionary pointers; Stef.Cmp.cmp) is a total
    order on ALL record trees whose leaves satisfy `P` - whatever their shapes. In particular it
    returns 0 only for identical trees, so a dictionary lookup or a grouping tree keyed by `cmp`
    never substitutes one value for a different one. -/
theorem cmp_total_order {α : Type} (P : α → Prop) (o : LeafOps α) (h : TotalOrderCmp P o.cmp) :
    TotalOrderCmp (Value.All P) (cmp o) where
  refl a ha := cmp_refl h.toExact.toLeafOrder a ha
  antisymm a b ha hb := cmp_antisymm h.toExact.toLeafOrder a b ha hb
  trans a b d ha hb hd := (cmp_tri h.toExact.toLeafOrder a b d ha hb hd).le
  eq_zero_iff a b ha hb :=
    ⟨cmp_eq_of_zero h.toExact a b ha hb,
     fun e => by subst e; exact cmp_refl h.toExact.toLeafOrder a ha⟩

/-- non-vacuity: the hypothesis is met by uint64 leaves under pkg.Uint64Compare, and the conclusion
    then covers e.g. a struct holding an optional field, a oneof and an array -/
example : TotalOrderCmp (Value.All (fun _ : BitVec 64 => True))
    (cmp { cmp := Gen.uint64Compare, eq := Gen.uint64Equal, zero := fun _ => 0 }) :=
  cmp_total_order _ _ uint64Compare_total_order
example : (Value.struct (.cons .req (.leaf 5#64) (.cons .present (.choice 2#8 (.leaf 7#64))
    (.cons .req (.arr (.cons (.leaf 1#64) .nil)) .nil)))).All (fun _ : BitVec 64 => True) :=
  all_true _

/-- The order part (reflexive, antisymmetric, transitive) needs only a total PREORDER on the leaves
    (`LeafOrder`: the comparison agrees with some integer key); exactness is not used. -/
theorem cmp_preorder {α : Type} (P : α → Prop) (o : LeafOps α) (h : LeafOrder P o.cmp)
    (a b c : Value α) (ha : a.All P) (hb : b.All P) (hc : c.All P) :
    cmp o a a = 0 ∧ cmp o a b = -(cmp o b a) ∧ (cmp o a b ≤ 0 → cmp o b c ≤ 0 → cmp o a c ≤ 0) :=
  ⟨cmp_refl h a ha, cmp_antisymm h a b ha hb, (cmp_tri h a b c ha hb hc).le⟩

example : LeafOrder PrimVal.notNaN primOps.cmp := primOrder

/-! ## 3. instantiated with the generated primitives (`primOps`: pkg.*Compare / pkg.*Equal) -/

/-- For record trees over the real primitive comparators: a total order - all four laws - on all
    trees whose float leaves are neither NaN nor negative zero (every non-float leaf is allowed). -/
theorem cmp_prim_total_order_partial :
    TotalOrderCmp (Value.All PrimVal.plainFloat) (cmp primOps) :=
  cmp_total_order PrimVal.plainFloat primOps primExact.toTotal

/-- a Point-like record: uint64 timestamps, a oneof holding a histogram struct with an optional
    float sum that is present, an absent optional with a stored value, and bucket counts -/
def samplePoint (sum : BitVec 64) : Value PrimVal :=
  .struct (.cons .req (.leaf (.u64 17)) (.cons .req (.leaf (.u64 18))
    (.cons .req (.choice 2#8 (.struct (.cons .req (.leaf (.i64 5)) (.cons .present (.leaf (.f64 sum))
      (.cons .absent (.leaf (.f64 one)) (.cons .req (.arr (.cons (.leaf (.u64 1)) (.cons (.leaf (.u64 2)) .nil))) .nil))))))
    (.cons .req (.mmap (.cons (.leaf (.str [0x6b#8])) (.choice 0#8 (.leaf (.str [0x76#8]))) .nil)) .nil))))

example : (samplePoint two).All PrimVal.plainFloat := by
  simp [samplePoint, Value.All, Fields.All, Values.All, Pairs.All, PrimVal.plainFloat]; with_unfolding_all decide

example : cmp primOps (samplePoint one) (samplePoint two) = -1 := by with_unfolding_all decide

/-- Transitivity (with reflexivity and antisymmetry) already holds when no float leaf is a NaN. -/
theorem cmp_prim_preorder_partial (a b c : Value PrimVal)
    (ha : a.All PrimVal.notNaN) (hb : b.All PrimVal.notNaN) (hc : c.All PrimVal.notNaN) :
    cmp primOps a a = 0 ∧ cmp primOps a b = -(cmp primOps b a) ∧
    (cmp primOps a b ≤ 0 → cmp primOps b c ≤ 0 → cmp primOps a c ≤ 0) :=
  cmp_preorder PrimVal.notNaN primOps primOrder a b c ha hb hc

example : (samplePoint negZero).All PrimVal.notNaN := by
  simp [samplePoint, Value.All, Fields.All, Values.All, Pairs.All, PrimVal.notNaN]; with_unfolding_all decide

/-- The full claim is FALSE for the generated code: with a NaN in a float field the structural
    comparison is not transitive (witness: records differing only in a float field 2.0 / NaN / 1.0). -/
theorem cmp_prim_trans_false :
    ¬ ∀ a b c : Value PrimVal, cmp primOps a b ≤ 0 → cmp primOps b c ≤ 0 → cmp primOps a c ≤ 0 := by
  intro h
  have := h (samplePoint two) (samplePoint nan) (samplePoint one) (by with_unfolding_all decide) (by with_unfolding_all decide)
  revert this; with_unfolding_all decide

/-- ... and it returns 0 for records holding different data (-0.0 vs +0.0, NaN vs 1.0). -/
theorem cmp_prim_eq_zero_false :
    ¬ ∀ a b : Value PrimVal, cmp primOps a b = 0 → a = b := by
  intro h
  have e := h (samplePoint negZero) (samplePoint posZero) (by with_unfolding_all decide)
  simp [samplePoint, negZero, posZero] at e

theorem cmp_prim_total_order_false : ¬ TotalOrderCmp (fun _ : Value PrimVal => True) (cmp primOps) := by
  intro h
  exact cmp_prim_trans_false (fun a b c => h.trans a b c trivial trivial trivial)

/-! ## 4. Cmp = 0, IsEqual and the visible data -/

/-- IsEqual decides equality of the visible data (stored values of absent optional fields are not
    part of the data). Leaves: pkg.*Equal exact on `P`. -/
theorem isEqual_iff_same_data (a b : Value PrimVal)
    (ha : a.All PrimVal.plainFloat) (hb : b.All PrimVal.plainFloat) :
    isEqual primOps a b = true ↔ data a = data b :=
  isEqual_iff_data primCopy.eq_iff a b ha hb

example : isEqual primOps (samplePoint one) (samplePoint one) = true := by with_unfolding_all decide

/-- Cmp = 0 only for values holding the same data (and then IsEqual agrees). -/
theorem cmp_zero_same_data (a b : Value PrimVal)
    (ha : a.All PrimVal.plainFloat) (hb : b.All PrimVal.plainFloat) (h : cmp primOps a b = 0) :
    data a = data b ∧ isEqual primOps a b = true := by
  have e := (cmp_prim_total_order_partial.eq_zero_iff a b ha hb).mp h
  subst e
  exact ⟨rfl, (isEqual_iff_same_data a a ha ha).mpr rfl⟩

example : cmp primOps (samplePoint two) (samplePoint two) = 0 := by with_unfolding_all decide

/-- two histogram-like structs that differ only in the value stored in an ABSENT optional field -/
def staleA : Value PrimVal := .struct (.cons .req (.leaf (.i64 1)) (.cons .absent (.leaf (.u64 5)) .nil))
def staleB : Value PrimVal := .struct (.cons .req (.leaf (.i64 1)) (.cons .absent (.leaf (.u64 0)) .nil))

/-- The converse is FALSE for the generated code: Cmp<Struct> also compares the values stored in
    optional fields that are absent on both sides, so IsEqual values can have Cmp ≠ 0 (finding
    cmp-stale-optional; the direction the property does not need). -/
theorem isEqual_imp_cmp_zero_false :
    ¬ ∀ a b : Value PrimVal, isEqual primOps a b = true → cmp primOps a b = 0 := by
  intro h
  have := h staleA staleB (by with_unfolding_all decide)
  revert this; with_unfolding_all decide

/-! ## 5. CopyFrom and Clone -/

/-- CopyFrom: whatever dst held before (any shape, any content), after `dst.CopyFrom(src)` dst holds
    exactly the data of src and IsEqual(dst, src) is true. -/
theorem copyFrom_equal (d s : Value PrimVal)
    (hd : d.All PrimVal.plainFloat) (hs : s.All PrimVal.plainFloat) :
    data (copyFrom primOps d s) = data s ∧ isEqual primOps (copyFrom primOps d s) s = true := by
  have e := data_copyFrom primCopy s d hs hd
  exact ⟨e, isEqual_of_data (fun a ha => (primCopy.eq_iff a a ha ha).mpr rfl) s _ hs e⟩

example : isEqual primOps (copyFrom primOps (samplePoint two) (samplePoint one)) (samplePoint one) = true ∧
    cmp primOps (copyFrom primOps (samplePoint two) (samplePoint one)) (samplePoint one) = 0 := by
  with_unfolding_all decide

/-- copyToNew (the copy into a fresh value that Clone and the decoders' dictionaries use):
    same data, IsEqual. -/
theorem copyNew_equal (s : Value PrimVal) (hs : s.All PrimVal.plainFloat) :
    data (copyNew primOps s) = data s ∧ isEqual primOps (copyNew primOps s) s = true := by
  have e := data_copyNew primCopy s hs
  exact ⟨e, isEqual_of_data (fun a ha => (primCopy.eq_iff a a ha ha).mpr rfl) s _ hs e⟩

example : isEqual primOps (copyNew primOps (samplePoint two)) (samplePoint two) = true := by with_unfolding_all decide

/-- `Cmp(copy, source) = 0` is FALSE in general: a copy does not reproduce the values stored in
    absent optional fields, which Cmp<Struct> compares (finding cmp-stale-optional). -/
theorem cmp_copy_zero_false :
    ¬ ∀ d s : Value PrimVal, cmp primOps (copyFrom primOps d s) s = 0 := by
  intro h
  have := h staleB staleA
  revert this; with_unfolding_all decide

/-- For clean sources the fresh copy is identical to the source, so `Cmp(copy, source) = 0`. -/
theorem cmp_copyNew_zero_partial (s : Value PrimVal) (hs : s.All PrimVal.plainFloat)
    (cs : s.Clean primOps) : copyNew primOps s = s ∧ cmp primOps (copyNew primOps s) s = 0 := by
  have e := copyNew_clean primCopy s hs cs
  exact ⟨e, by rw [e]; exact cmp_prim_total_order_partial.refl s hs⟩

example : (Value.struct (.cons .req (.leaf (.i64 1)) (.cons .absent (.leaf (.u64 0)) .nil))).Clean primOps := by
  simp [Value.Clean, Fields.Clean, primOps, primZero]

/-- a histogram-like struct with an optional field that is PRESENT -/
def withPresent : Value PrimVal := .struct (.cons .req (.leaf (.i64 1)) (.cons .present (.leaf (.u64 5)) .nil))

/-- Clone is NOT equal to its source in general: <Struct>.Clone does not copy
    `optionalFieldsPresent`, every optional field of the clone is absent
    (finding clone-loses-optional-presence). -/
theorem clone_equal_false :
    ¬ ∀ v : Value PrimVal, isEqual primOps (clone primOps v) v = true := by
  intro h
  have := h withPresent
  revert this; with_unfolding_all decide

/-- Clone of a value without optional fields at its top level (`TopReq`; nested optionals are fine):
    same data, IsEqual; and for clean values identical, so Cmp = 0. -/
theorem clone_equal_partial (v : Value PrimVal) (hv : v.All PrimVal.plainFloat) (hq : v.TopReq) :
    data (clone primOps v) = data v ∧ isEqual primOps (clone primOps v) v = true ∧
    (v.Clean primOps → cmp primOps (clone primOps v) v = 0) := by
  have e := data_clone primCopy v hv hq
  refine ⟨e, isEqual_of_data (fun a ha => (primCopy.eq_iff a a ha ha).mpr rfl) v _ hv e, ?_⟩
  intro cv
  rw [clone_clean primCopy v hv hq cv]
  exact cmp_prim_total_order_partial.refl v hv

/-- non-vacuity: a Point-like value (its optional fields are nested inside the oneof) -/
example : (samplePoint two).TopReq ∧ isEqual primOps (clone primOps (samplePoint two)) (samplePoint two) = true := by
  constructor
  · simp [samplePoint, Value.TopReq, Fields.AllReq]
  · with_unfolding_all decide

end Stef.Props.C09
